// Minimal reproducer / regression test for C01 fix-1.diff. Not part of the patch: copy it to
// app/core/hydra/swamp/chronicler/v2/ (package v2) of a worktree and run
//   GOPROXY=off go test -vet=off -count=1 -run 'TestWriter_|TestWriteBuffer_' ./app/core/hydra/swamp/chronicler/v2/
// It fails on the unpatched tree and passes with fix-1.diff applied.
package v2

import (
	"errors"
	"path/filepath"
	"strings"
	"testing"
)

// A key the 16-bit key length field cannot express (or an empty key, which the
// reader treats as corruption) must be refused by the writer. Before the check
// existed such an entry was stored with a truncated length and the whole file
// failed to load afterwards ("entry key cannot be empty").
func TestWriter_RefusesKeysTheFormatCannotEncode(t *testing.T) {
	for _, tc := range []struct {
		name string
		key  string
		want error
	}{
		{"empty", "", ErrEmptyKey},
		{"65536", strings.Repeat("a", 65536), ErrKeyTooLong},
		{"70000", strings.Repeat("b", 70000), ErrKeyTooLong},
	} {
		t.Run(tc.name, func(t *testing.T) {
			path := filepath.Join(t.TempDir(), "limits.hyd")
			w, err := NewFileWriter(path, DefaultMaxBlockSize)
			if err != nil {
				t.Fatal(err)
			}
			if err := w.WriteEntry(Entry{Operation: OpInsert, Key: "before", Data: []byte("1")}); err != nil {
				t.Fatal(err)
			}
			if err := w.WriteEntry(Entry{Operation: OpInsert, Key: tc.key, Data: []byte("x")}); !errors.Is(err, tc.want) {
				t.Fatalf("WriteEntry: got %v, want %v", err, tc.want)
			}
			// a refused batch has no effect at all
			batch := []Entry{{Operation: OpInsert, Key: "in-batch", Data: []byte("2")}, {Operation: OpInsert, Key: tc.key, Data: []byte("x")}}
			if err := w.WriteEntries(batch); !errors.Is(err, tc.want) {
				t.Fatalf("WriteEntries: got %v, want %v", err, tc.want)
			}
			if err := w.WriteEntry(Entry{Operation: OpInsert, Key: "after", Data: []byte("3")}); err != nil {
				t.Fatal(err)
			}
			if err := w.Close(); err != nil {
				t.Fatal(err)
			}
			r, err := NewFileReader(path)
			if err != nil {
				t.Fatal(err)
			}
			defer r.Close()
			index, _, err := r.LoadIndex()
			if err != nil {
				t.Fatalf("LoadIndex: %v", err)
			}
			if len(index) != 2 || string(index["before"]) != "1" || string(index["after"]) != "3" {
				t.Fatalf("unexpected index: %d keys", len(index))
			}
		})
	}
}

// The longest representable key still round-trips.
func TestWriter_MaxKeyLengthRoundTrips(t *testing.T) {
	path := filepath.Join(t.TempDir(), "maxkey.hyd")
	w, err := NewFileWriter(path, DefaultMaxBlockSize)
	if err != nil {
		t.Fatal(err)
	}
	key := strings.Repeat("k", MaxKeyLength)
	if err := w.WriteEntry(Entry{Operation: OpInsert, Key: key, Data: []byte("v")}); err != nil {
		t.Fatal(err)
	}
	if err := w.Close(); err != nil {
		t.Fatal(err)
	}
	r, err := NewFileReader(path)
	if err != nil {
		t.Fatal(err)
	}
	defer r.Close()
	index, _, err := r.LoadIndex()
	if err != nil {
		t.Fatal(err)
	}
	if string(index[key]) != "v" || len(index) != 1 {
		t.Fatalf("max-length key did not round-trip (%d keys)", len(index))
	}
}
