// Minimal reproducer / regression test for C01 fix-2.diff. Not part of the patch: copy it to
// app/core/hydra/swamp/chronicler/v2/ (package v2) of a worktree and run
//   GOPROXY=off go test -vet=off -count=1 -run 'TestWriter_|TestWriteBuffer_' ./app/core/hydra/swamp/chronicler/v2/
// It fails on the unpatched tree and passes with fix-2.diff applied.
package v2

import (
	"encoding/binary"
	"path/filepath"
	"testing"
)

// Tiny entries in a large block: the per-block entry counter is 16 bits wide,
// so a block must be flushed before it holds more than 65535 entries. Before
// that was enforced the counter wrapped (65536 entries -> 0) and the reader
// silently dropped every entry beyond the wrapped count.
func TestWriter_TinyEntriesDoNotOverflowBlockEntryCounter(t *testing.T) {
	for _, n := range []int{65535, 65536, 110000} {
		path := filepath.Join(t.TempDir(), "flood.hyd")
		w, err := NewFileWriter(path, 1<<20)
		if err != nil {
			t.Fatal(err)
		}
		for i := 0; i < n; i++ {
			var k [4]byte
			binary.BigEndian.PutUint32(k[:], uint32(i)|1<<31)
			if err := w.WriteEntry(Entry{Operation: OpInsert, Key: string(k[:])}); err != nil {
				t.Fatal(err)
			}
			if c := w.BufferCount(); c > MaxBlockEntries {
				t.Fatalf("%d entries buffered for one block", c)
			}
		}
		if err := w.Close(); err != nil {
			t.Fatal(err)
		}
		r, err := NewFileReader(path)
		if err != nil {
			t.Fatal(err)
		}
		index, _, err := r.LoadIndex()
		r.Close()
		if err != nil {
			t.Fatal(err)
		}
		if len(index) != n {
			t.Fatalf("wrote %d entries, read back %d", n, len(index))
		}
	}
}

func TestWriteBuffer_FlushRefusesCounterOverflow(t *testing.T) {
	wb := NewWriteBuffer(1 << 30)
	for i := 0; i <= MaxBlockEntries; i++ {
		wb.Add(Entry{Operation: OpInsert, Key: "k"})
	}
	if _, _, err := wb.Flush(); err != ErrTooManyEntries {
		t.Fatalf("Flush with %d entries: got %v, want ErrTooManyEntries", MaxBlockEntries+1, err)
	}
	entries := make([]Entry, MaxBlockEntries+1)
	for i := range entries {
		entries[i] = Entry{Operation: OpInsert, Key: "k"}
	}
	if _, _, err := CompressEntries(entries); err != ErrTooManyEntries {
		t.Fatalf("CompressEntries: got %v, want ErrTooManyEntries", err)
	}
}
