// Minimal reproducer for C23-F1 (place in app/core/hydra/swamp/chronicler/v2/migrator/ and run
// `go test -run TestRepro_C23_LongKeyMigration ./app/core/hydra/swamp/chronicler/v2/migrator/`).
//
// A legacy (V1) swamp may hold a key longer than 65535 bytes. Before commit fe5e1fd
// ("refuse storage entries the .hyd format cannot represent") the migrator wrote it into
// the .hyd with a wrapped 16-bit key length: with Verify off and DeleteOld on, Run reported
// success, deleted the legacy folder, and the V2 loader then found NO record of the swamp.
// After fe5e1fd the write is refused: Run reports a "write" failure and keeps the folder.
package migrator

import (
	"os"
	"path/filepath"
	"strings"
	"testing"

	"github.com/hydraide/hydraide/app/core/filesystem"
	"github.com/hydraide/hydraide/app/core/hydra/swamp/beacon"
	"github.com/hydraide/hydraide/app/core/hydra/swamp/chronicler"
	"github.com/hydraide/hydraide/app/core/hydra/swamp/metadata"
	"github.com/hydraide/hydraide/app/core/hydra/swamp/treasure"
	"github.com/hydraide/hydraide/app/core/hydra/swamp/treasure/guard"
	"github.com/hydraide/hydraide/app/name"
)

func TestRepro_C23_LongKeyMigration(t *testing.T) {
	data := t.TempDir()
	folder := filepath.Join(data, "1", "ab", "swamp")
	meta := metadata.New(folder)
	meta.SetSwampName(name.Load("fixed/long/key"))
	v1 := chronicler.New(folder, 8192, 1, filesystem.New(), meta)
	v1.CreateDirectoryIfNotExists()
	var ts []treasure.Treasure
	for _, k := range []string{"a", strings.Repeat("K", 70000), "z"} {
		tr := treasure.New(nil)
		g := tr.StartTreasureGuard(true, guard.BodyAuthID)
		tr.BodySetKey(g, k)
		tr.SetContentString(g, "value")
		tr.ReleaseTreasureGuard(g)
		ts = append(ts, tr)
	}
	v1.Write(ts)
	meta.SaveToFile()

	m, _ := New(Config{DataPath: data, Verify: false, DeleteOld: true, Parallel: 1})
	res, err := m.Run()
	if err != nil {
		t.Fatal(err)
	}
	if len(res.FailedSwamps) > 0 {
		// acceptable outcome: refused, legacy data must still be there
		if _, err := os.Stat(folder); err != nil {
			t.Fatalf("migration failed (%s) but the legacy folder is gone", res.FailedSwamps[0].Error)
		}
		return
	}
	bk := beacon.New()
	chronicler.NewV2WithName(folder, 1, "fixed/long/key").Load(bk)
	if bk.Count() != 3 {
		t.Fatalf("Run reported success and deleted the legacy folder, but the V2 loader sees %d of 3 records", bk.Count())
	}
}
