#!/bin/bash
# manualverify.sh <ID> <dir-in-repo> <destname> <runpattern> [extra demo file:destname]
ID=$1; DIR=$2; DEST=$3; PAT=$4; EXTRA=$5
W=/dev/shm/mv-$$-$ID
git -C /repo worktree add -q --detach $W HEAD || exit 2
cd $W
mkdir -p $DIR
cp /verif/seeded/$ID-r2/demo_test.go $DIR/$DEST
if [ -n "$EXTRA" ]; then cp /verif/seeded/$ID-r2/${EXTRA%%:*} $DIR/${EXTRA##*:}; fi
[ -f app/core/hydra/swamp/swamp_durability_test.go ] && true
run() { git clean -fdXq -- app sdk; GOPROXY=off go test -tags verif -vet=off -count=1 -run "$PAT" ./$DIR/ 2>&1 | tail -4; }
echo "--- without patch"; run
git apply /verif/seeded/$ID-r2/patch.diff || echo "PATCH DOES NOT APPLY"
GOPROXY=off go build ./... && GOPROXY=off go build -tags verif ./... && echo "builds ok"
echo "--- with patch"; run
cd /; git -C /repo worktree remove --force $W
