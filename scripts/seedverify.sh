#!/bin/bash
# scripts/seedverify.sh <ID> [src-dir]: confirms a seeded change independently: patch applies to /repo HEAD, tree builds
# (with and without -tags verif), the demonstration passes WITHOUT the patch and fails WITH it, and the tests of the
# touched packages still pass with it. Works in a scratch worktree that is removed afterwards.
cd "$(dirname "$(readlink -f "$0")")/.."
ID=${1:?id}; SRC=${2:-/tmp/seeded-out/$ID}
WT=/tmp/sv-$$-$ID
export GOPROXY=off; unset GOFLAGS GOTOOLCHAIN GOSUMDB
git -C /repo worktree add -q --detach "$WT" HEAD || exit 2
trap 'git -C /repo worktree remove --force "$WT" >/dev/null 2>&1' EXIT
demo_dir=$(python3 -c "import json;print(json.load(open('$SRC/meta.json'))['demo_dir'])")
files=$(python3 -c "import json;print(' '.join(json.load(open('$SRC/meta.json'))['files']))")
demo=$(ls $SRC | grep -E "demo.*\.go$" | head -1)
mod=""; case "$demo_dir" in sdk/go/hydraidego*) mod="sdk/go/hydraidego";; esac
run_demo() { # runs the demo test(s) found in the demo file
  cp "$SRC/$demo" "$WT/$demo_dir/zz_seed_demo_test.go"
  tests=$(grep -oE "^func (Test[A-Za-z0-9_]+)" "$SRC/$demo" | awk '{print $2}' | paste -sd'|')
  rel="${demo_dir#$mod}"; rel="${rel#/}"
  mv "$WT/app/core/hydra/swamp/swamp_durability_test.go" "$WT/.sdt" 2>/dev/null
  ( cd "$WT/${mod:-.}" && git -C "$WT" clean -fdXq -- app sdk 2>/dev/null; go test -tags verif -vet=off -count=1 -run "^($tests)\$" "./$rel" 2>&1 | tail -25 ) > "$WT/.demo.out" 2>&1
  grep -qE "^ok " "$WT/.demo.out"
}
if run_demo; then echo "demo without patch: PASS"; else echo "demo without patch: FAIL (unexpected)"; tail -8 "$WT/.demo.out"; fi
git -C "$WT" apply "$SRC/patch.diff" || { echo "VERIFY $ID: PATCH DOES NOT APPLY"; exit 1; }
( cd "$WT" && go build ./... && go build -tags verif ./... && cd sdk/go/hydraidego && go build ./... ) >/dev/null 2>&1 && echo "builds: OK" || echo "builds: FAIL"
if run_demo; then echo "demo with patch: PASS (unexpected)"; else echo "demo with patch: FAIL (expected)"; grep -E "^\s+---|FAIL|Error" "$WT/.demo.out" | head -4; fi
rm -f "$WT/$demo_dir/zz_seed_demo_test.go"
pk=""; for f in $files; do d=$(dirname $f); case "$d" in sdk/go/hydraidego*) ;; *) pk="$pk ./$d/...";; esac; done
pk=$(echo $pk | tr ' ' '\n' | sort -u | tr '\n' ' ')
if [ -n "$pk" ]; then ( cd "$WT" && mv app/core/hydra/swamp/swamp_durability_test.go /tmp/.sdt.$$ 2>/dev/null; git clean -fdXq -- app sdk; go test -vet=off -count=1 $pk 2>&1 | grep -E "^(--- FAIL|FAIL|ok)" | grep -v "^ok" | head -5; echo "package tests done: $pk" ); fi
case "$files" in *sdk/go/hydraidego*) ( cd "$WT/sdk/go/hydraidego" && go test -vet=off -count=1 ./... 2>&1 | grep -E "^(--- FAIL|FAIL)" | head -5; echo "sdk tests done" );; esac
rm -f /tmp/.sdt.$$
