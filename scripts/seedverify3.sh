#!/bin/bash
# seedverify3.sh <ID> <dir with patch.diff demo_test.go meta.json (demo_dir, demo_dest, demo_run)>
# Confirms a seeded change: in a scratch worktree of /repo HEAD the demonstration passes, the patch applies,
# the tree builds with and without -tags verif, the demonstration fails, the touched packages' tests pass.
ID=$1; SRC=$(readlink -f "$2")
export GOPROXY=off; unset GOFLAGS GOTOOLCHAIN GOSUMDB
DIR=$(python3 -c "import json;print(json.load(open('$SRC/meta.json'))['demo_dir'])")
DEST=$(python3 -c "import json;print(json.load(open('$SRC/meta.json'))['demo_dest'])")
PAT=$(python3 -c "import json;print(json.load(open('$SRC/meta.json'))['demo_run'])")
W=/dev/shm/sv3-$$-$ID
git -C /repo worktree add -q --detach $W HEAD || exit 2
trap 'cd /; git -C /repo worktree remove --force '$W' 2>/dev/null' EXIT
cd $W; mkdir -p "$DIR"; cp "$SRC/demo_test.go" "$DIR/$DEST"
[ "$DIR" = app/core/hydra/swamp ] && mv app/core/hydra/swamp/swamp_durability_test.go /tmp/sv3-$$-durability.go.off 2>/dev/null
run() { git clean -fdXq -- app sdk; go test -tags verif -vet=off -count=1 -run "$PAT" "./$DIR/" > /tmp/sv3-$$.out 2>&1; rc=$?; tail -5 /tmp/sv3-$$.out | cut -c1-300; return $rc; }
ok=1
echo "--- demo without patch"; run && echo "  passes" || { echo "  FAILS (unexpected)"; ok=0; }
git apply "$SRC/patch.diff" || { echo "VERIFY $ID: PATCH DOES NOT APPLY"; exit 1; }
{ go build ./... && go build -tags verif ./...; } > /tmp/sv3-$$.out 2>&1 && echo "builds ok" || { echo "BUILD FAILS"; tail -5 /tmp/sv3-$$.out; ok=0; }
echo "--- demo with patch"; run && { echo "  PASSES (unexpected)"; ok=0; } || echo "  fails as required"
rm -f "$DIR/$DEST"
pk=$(git diff --name-only | grep '\.go$' | xargs -n1 dirname | sort -u | sed 's#^#./#' | grep -v '^./app/core/hydra/swamp$')
git clean -fdXq -- app sdk
echo "--- package tests with patch: $pk"
if [ -n "$pk" ]; then go test -vet=off -count=1 $pk 2>&1 | tail -6 | cut -c1-200 | tee /tmp/sv3-$$.out; grep -q "^FAIL\|^---\? FAIL" /tmp/sv3-$$.out && ok=0; else echo "  (only app/core/hydra/swamp touched: its own tests do not build at the pinned commit)"; fi
git clean -fdXq -- app sdk; rm -f /tmp/sv3-$$.out /tmp/sv3-$$-durability.go.off
[ $ok = 1 ] && echo "VERIFY $ID: CONFIRMED" || echo "VERIFY $ID: NOT CONFIRMED"
