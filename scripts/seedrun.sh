#!/bin/bash
# scripts/seedrun.sh <ID> [tier] [seed-dir]: applies /verif/seeded/<dir>/patch.diff to a scratch worktree of /repo HEAD
# and runs the property's check against it. Prints DETECTED / MISSED. Removes the worktree afterwards.
cd "$(dirname "$(readlink -f "$0")")/.."
ID=${1:?id}; TIER=${2:-quick}; DIR=${3:-seeded/$ID}
WT=/tmp/sw-$$-$ID
git -C /repo worktree add -q --detach "$WT" HEAD || exit 2
trap 'git -C /repo worktree remove --force "$WT" >/dev/null 2>&1; rm -f bin/*.$(echo "$WT" | md5sum | cut -c1-8).test' EXIT
if ! git -C "$WT" apply "$PWD/$DIR/patch.diff"; then echo "RESULT $ID $DIR: PATCH DOES NOT APPLY"; exit 2; fi
out=$(VERIF_REPO="$WT" ./run "$ID" "$TIER" 2>&1); rc=$?
echo "$out" | grep -E "^(SUMMARY|INCONCLUSIVE|BUILD FAILED|KNOWN-FINDING)" | cut -c1-220
echo "$out" | grep -E "^  sig=" | sort | uniq -c | head -8
if echo "$out" | grep -q "^VIOLATION property=$ID"; then echo "RESULT $ID $DIR: DETECTED"; elif [ $rc -ne 0 ]; then echo "RESULT $ID $DIR: NON-ZERO EXIT WITHOUT VIOLATION (rc=$rc)"; else echo "RESULT $ID $DIR: MISSED"; fi
