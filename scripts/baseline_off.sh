#!/bin/bash
# Runs the repository's pinned test suite with the verif guard OFF and compares with BASELINE.json's stable_pass list.
# exit 0 iff every stable_pass test passed.
cd "$(dirname "$(readlink -f "$0")")/.."
export GOPROXY=off
unset GOFLAGS GOTOOLCHAIN GOSUMDB 2>/dev/null
mkdir -p .tmp; OUT=.tmp/baseline.$$.json; : > $OUT
REPO=${1:-/repo}
# Several repository tests keep their scratch data in git-ignored directories inside the tree
# (app/server/gateway/data, app/*/settings, ...) and fail when a previous run left records there
# (they expect CREATED). Start every baseline run from clean scratch directories.
git -C "$REPO" clean -fdXq -- app sdk 2>/dev/null
cleanup() { git -C "$REPO" clean -fdXq -- app sdk 2>/dev/null; }
trap cleanup EXIT
for m in . ./sdk/go/hydraidego; do
  ( cd $REPO/$m && gw=$(go env GOWORK); MF=""; { [ -z "$gw" ] || [ "$gw" = off ]; } && MF="-mod=mod"; go test $MF -json -vet=off -count=1 -timeout 25m ./... ) >> $OUT 2>/dev/null
done
python3 - "$OUT" <<'PY'
import json,sys
passed,failed=set(),set()
for line in open(sys.argv[1],errors='replace'):
    line=line.strip()
    if not line.startswith('{'): continue
    try: ev=json.loads(line)
    except Exception: continue
    a=ev.get('Action'); t=ev.get('Test')
    if t is None or a not in('pass','fail'): continue
    (passed if a=='pass' else failed).add(ev.get('Package','')+'::'+t)
passed-=failed
base=json.load(open('/root/.vp/BASELINE.json'))['stable_pass']
missing=[t for t in base if t not in passed]
print(f"baseline: {len(base)} stable tests, {len(base)-len(missing)} passed, {len(missing)} missing/failed; total passed {len(passed)} failed {len(failed)}")
for t in missing[:40]: print("  MISSING",t)
sys.exit(1 if missing else 0)
PY
rc=$?; rm -f $OUT; exit $rc
