#!/usr/bin/env python3
import json, sys, glob, jsonschema
jsonschema.validate(json.load(open('/verif/MANIFEST.json')), json.load(open('/root/.vp/MANIFEST.schema.json'))); print('manifest valid')
es = json.load(open('/root/.vp/EVIDENCE.schema.json'))
for f in sorted(glob.glob('/verif/evidence/*.json')):
    try:
        jsonschema.validate(json.load(open(f)), es); print(f, 'valid')
    except Exception as e:
        print(f, 'INVALID', str(e)[:300])
