#!/usr/bin/env python3
import json, sys, glob, jsonschema
jsonschema.validate(json.load(open('/verif/MANIFEST.json')), json.load(open('/root/.vp/MANIFEST.schema.json'))); print('manifest valid')
es = json.load(open('/root/.vp/EVIDENCE.schema.json'))
for f in sorted(glob.glob('/verif/evidence/*.json')):
    try:
        jsonschema.validate(json.load(open(f)), es); print(f, 'valid')
    except Exception as e:
        print(f, 'INVALID', str(e)[:300])
m = json.load(open('/verif/MANIFEST.json'))
import os
for c in m['checks']:
    f = c['evidence_file']
    if os.path.exists(f):
        e = json.load(open(f))
        if e['level'] != c['level_claimed']['category']:
            print('LEVEL MISMATCH', c['property_id'], e['level'], c['level_claimed']['category'])
        if e['property_id'] != c['property_id']:
            print('ID MISMATCH', f)
    else:
        print('NO EVIDENCE', c['property_id'])
