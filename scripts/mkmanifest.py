#!/usr/bin/env python3
"""Regenerates /verif/MANIFEST.json from the table below. Run after adding a check."""
import json, os, subprocess
V = os.path.dirname(os.path.dirname(os.path.abspath(__file__)))
props = [json.loads(l) for l in open(os.path.join(V, 'properties.jsonl'))]

# id -> (category, technique, level text, level note, design ref)
CHECKS = {}
def check(pid, category, technique, text, note, ref=None):
    CHECKS[pid] = dict(category=category, technique=technique, text=text, note=note, ref=ref or ('DESIGN.md §3 ' + pid))

exec(open(os.path.join(V, 'scripts', 'checks_table.py')).read())

hook_commits = []
try:
    out = subprocess.run(['git', '-C', '/repo', 'log', '--format=%h %s'], capture_output=True, text=True).stdout
    for line in out.splitlines():
        h, _, subj = line.partition(' ')
        if subj.startswith('verif hooks:'):
            hook_commits.append(h)
except Exception:
    pass

m = {
    "version": 1,
    "setup_cmd": "cd /verif && ./scripts/setup.sh",
    "hooks": {
        "guard": "verif",
        "enable": "go build tag: every check builds /repo with -tags verif (package app/verifhook is empty without the tag; *_verif.go files are not compiled)",
        "baseline_off_cmd": "/verif/scripts/baseline_off.sh",
        "source_commits": hook_commits,
        "add_only": True,
    },
    "engines": [
        {"name": "harness", "path": "/verif/harness", "serves_properties": sorted(CHECKS), "kind_free_text": "Go test binaries (one package per property) built against /repo with -tags verif; in-process engine rig, synctest virtual-time bubbles, race detector, strace recorder/injector, reference-model and history monitors"},
    ],
    "checks": [],
    "not_applicable": [],
    "notes": "Runtime monitoring only. ./run <id> <tier> rebuilds the monitor against /repo's working tree; exit 0 = held on everything explored, exit 1 + VIOLATION line = violated, exit 1 without it = inconclusive. KNOWN_FINDINGS.txt lists known and fixed findings.",
}
for p in props:
    pid = p['id']
    if pid in CHECKS:
        c = CHECKS[pid]
        m["checks"].append({
            "property_id": pid,
            "quick_cmd": f"./run {pid} quick",
            "thorough_cmd": f"./run {pid} thorough",
            "evidence_file": f"/verif/evidence/{pid}.json",
            "replay_cmd_template": f"./run {pid} quick --replay {{path}}",
            "engine": "harness",
            "level_claimed": {"category": c['category'], "text": c['text'], "design_ref": c['ref']},
            "level_note": c['note'],
            "technique": c['technique'],
        })
    else:
        m["not_applicable"].append({"property_id": pid, "reason": "monitor not built yet (work in progress); it will be claimed once its check exists and is silent on the unchanged tree"})
json.dump(m, open(os.path.join(V, 'MANIFEST.json'), 'w'), indent=1)
print(f"{len(m['checks'])} checks, {len(m['not_applicable'])} not applicable")
