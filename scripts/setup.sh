#!/bin/bash
# Builds nothing persistent that checks depend on: every ./run rebuilds its monitor. This warms the Go build cache.
cd "$(dirname "$(readlink -f "$0")")/.."
export GOFLAGS=-mod=mod GOPROXY=off
unset GOTOOLCHAIN GOSUMDB 2>/dev/null
mkdir -p bin evidence .tmp
cat /repo/go.sum /repo/sdk/go/hydraidego/go.sum harness/go.sum.extra 2>/dev/null | sort -u > harness/go.sum
( cd harness && go vet -tags verif ./rig/ ./stor/ ./systrace/ >/dev/null 2>&1; go build -tags verif ./... ) || true
command -v strace >/dev/null || echo "WARNING: strace missing"
exit 0
