package c24

import (
	"fmt"
	"runtime"
	"syscall"
	"testing"
	"time"

	"github.com/hydraide/hydraide/app/core/compressor"
	"verifharness/rig"
)

func cpu() (time.Duration, time.Duration) {
	var ru syscall.Rusage
	syscall.Getrusage(syscall.RUSAGE_SELF, &ru)
	return time.Duration(ru.Utime.Nano()), time.Duration(ru.Stime.Nano())
}

func TestProbe(t *testing.T) {
	runtime.GOMAXPROCS(2)
	c := rig.NewCheck(t, "C24", "exploration")
	d := inputDesc{Idx: 5, Class: "text", Size: 2000}
	x := genInput(c, d)
	for _, a := range []string{"snappy", "gzip", "lz4", "zstd", "snappy"} {
		cd := compressor.New(algType(a))
		z, _ := cd.Compress(x)
		l := label(a, z)
		ks := plan(c.RandFor("x"), z, l, 200)
		n := 0
		u0, s0 := cpu()
		t0 := time.Now()
		for rep := 0; rep < 3; rep++ {
			for _, k := range ks {
				m := apply(z, k)
				rawDecompress(cd, m)
				n++
			}
		}
		u1, s1 := cpu()
		fmt.Printf("%-6s calls=%d wall/call=%v user/call=%v sys/call=%v rss=%dMiB gor=%d\n", a, n, time.Since(t0)/time.Duration(n), (u1-u0)/time.Duration(n), (s1-s0)/time.Duration(n), rssMiB(), runtime.NumGoroutine())
	}
}
