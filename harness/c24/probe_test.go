package c24

import (
	"fmt"
	"runtime"
	"syscall"
	"testing"
	"time"

	"github.com/hydraide/hydraide/app/core/compressor"
	"verifharness/rig"
)

func cpu() (time.Duration, time.Duration) {
	var ru syscall.Rusage
	syscall.Getrusage(syscall.RUSAGE_SELF, &ru)
	return time.Duration(ru.Utime.Nano()), time.Duration(ru.Stime.Nano())
}

func TestProbe(t *testing.T) {
	runtime.GOMAXPROCS(2)
	c := rig.NewCheck(t, "C24", "exploration")
	for _, d := range []inputDesc{{Idx: 3, Class: "text", Size: 150000}, {Idx: 5, Class: "text", Size: 300}} {
		x := genInput(c, d)
		for _, a := range algNames {
			cd := compressor.New(algType(a))
			u0, s0 := cpu()
			z, _ := cd.Compress(x)
			u1, s1 := cpu()
			l := label(a, z)
			ks := plan(c.RandFor("x"), z, l, 100)
			u2, s2 := cpu()
			var ms [][]byte
			for _, k := range ks {
				ms = append(ms, apply(z, k))
			}
			u3, s3 := cpu()
			for _, m := range ms {
				safeDecompress(cd, m)
			}
			u4, s4 := cpu()
			for i, k := range ks {
				c.Case("co/"+a+"/"+fmt.Sprint(d.Idx)+"/"+k.key(), true)
				c.Seen("corruption_kinds", a+":"+k.Kind)
				c.Seen("fields_hit", a+":"+region(l, k))
				_ = i
			}
			u5, s5 := cpu()
			fmt.Printf("%-6s size=%d len(z)=%d n=%d | compress u=%v s=%v | label+plan u=%v s=%v | apply u=%v s=%v | decompress/call u=%v s=%v | account u=%v s=%v\n", a, d.Size, len(z), len(ks),
				u1-u0, s1-s0, u2-u1, s2-s1, u3-u2, s3-s2, (u4-u3)/time.Duration(len(ks)), (s4-s3)/time.Duration(len(ks)), u5-u4, s5-s4)
		}
	}
}
