// C24, "held results": a result of Compress / Decompress belongs to the caller. The usual
// compress → decompress-at-once round trip cannot see a codec that hands out memory it later
// reuses (pooled scratch buffers, cached encoder output, …): the damage only shows when the
// result is still held while the NEXT call runs. This file keeps results across later calls —
// sequentially, from many goroutines on one shared compressor object, and through the V2
// chronicler's block and file layers, which all share one package-level snappy compressor — and
// then demands that every held result is still byte-identical to a private copy taken when it was
// returned, still decodes to its input, and shares no memory with its input or with another result.
package c24

import (
	"bytes"
	"fmt"
	"math/rand/v2"
	"os"
	"path/filepath"
	"runtime"
	"sort"
	"sync"
	"sync/atomic"
	"time"

	"github.com/hydraide/hydraide/app/core/compressor"
	v2 "github.com/hydraide/hydraide/app/core/hydra/swamp/chronicler/v2"

	"verifharness/rig"
)

// scribble flips bytes of a result (and flips them back when called again): the first and the
// last byte — two overlapping slices always contain the first byte of one of them — and a sparse
// stride in between. A per-byte loop over MiBs is too slow under -race.
func scribble(b []byte) {
	if len(b) == 0 {
		return
	}
	b[0] ^= 0xA5
	if len(b) > 1 {
		b[len(b)-1] ^= 0xA5
	}
	for k := 4099; k < len(b)-1; k += 4099 {
		b[k] ^= 0xA5
	}
}

// heldCodecs: one object per algorithm (shared by everything in the child, like the engine's
// long-lived compressor objects) plus the package-level instance behind chronicler/v2.
func heldCodecs() ([]string, map[string]codec) {
	m := map[string]codec{"snappy-v2shared": v2shared{}}
	for _, a := range algNames {
		m[a] = compressor.New(algType(a))
	}
	return []string{"snappy", "snappy-v2shared", "gzip", "lz4", "zstd"}, m
}

// heldSizes are the input sizes of a batch: the boundaries named by the property record plus the
// 64 KiB neighbourhood (snappy block / typical scratch-buffer size) and PRNG sizes in between.
func heldSizes(c *rig.Check, r *rand.Rand, cheap bool, order string) []int {
	s := []int{0, 1, 65535, 65536, 65537, 100000, 256 << 10}
	if !cheap && c.Quick() {
		// gzip / lz4 / zstd cost 10–100× snappy under -race: the boundary sizes only
		return []int{1, 65537, 100000 + r.IntN(40000)}
	}
	if cheap && c.Quick() {
		switch order {
		case "descending":
			return []int{0, 1, 65535, 65536, 65537, 100000, 256 << 10, 1 << 20}
		case "same-size-pairs":
			return []int{65537, 100000, 256 << 10}
		}
		return []int{65537, 70000 + r.IntN(60000), 1, 100000, 66000 + r.IntN(200000), 256 << 10}
	}
	if cheap {
		s = append(s, 1<<20, 65537, 256<<10, 70000+r.IntN(60000), 1+r.IntN(4096), 66000+r.IntN(400000))
		if !c.Quick() {
			s = append(s, 1<<20+r.IntN(1<<20), 3<<20, 65536+r.IntN(64))
		}
	} else {
		s = append(s, 300000+r.IntN(200000))
		if !c.Quick() {
			s = append(s, 1<<20)
		}
	}
	return s
}

type heldRes struct {
	in    inputDesc
	x     []byte // input (the harness's own buffer)
	xkeep []byte // private copy of the input
	out   []byte // the result as returned, held
	keep  []byte // private copy taken at return time
}

func heldWitness(c *rig.Check, sp spec, codecName, order string, h *heldRes, extra string) map[string]any {
	return map[string]any{"mode": "held", "run": sp.Run, "seed": c.Seed, "tier": c.Tier, "alg": codecName, "order": order,
		"input": h.in, "held_len": len(h.keep), "held_now": short(h.out), "held_at_return": short(h.keep), "note": extra}
}

// verifyHeld checks every held result of one batch. op is "compress" or "decompress";
// want(h) is what the held result must decode / be equal to.
func verifyHeld(c *rig.Check, sp spec, name string, cd codec, op, order string, hs []*heldRes) {
	alg := name
	for _, h := range hs {
		c.Count("held_results_verified", 1)
		if !bytes.Equal(h.x, h.xkeep) {
			c.Violate("held:input-modified:"+alg+":"+op, fmt.Sprintf("%s %s changed the caller's %d-byte input buffer", name, op, len(h.x)), heldWitness(c, sp, name, order, h, ""))
			continue
		}
		if !bytes.Equal(h.out, h.keep) {
			c.Count("held_results_changed", 1)
			c.Violate("held:"+op+"-result-changed-by-later-call:"+alg, fmt.Sprintf("the %d-byte result %s %s returned for a %d-byte %s input was changed behind the caller's back by a later call (first difference at offset %d; order %s)",
				len(h.keep), name, op, len(h.x), h.in.Class, firstDiff(h.out, h.keep), order), heldWitness(c, sp, name, order, h, ""))
			continue
		}
		if op == "compress" {
			dr := rawDecompress(cd, h.out)
			if dr.panicked != nil || dr.err != nil || !bytes.Equal(dr.out, h.x) {
				c.Violate("held:compress-result-no-longer-decodes:"+alg, fmt.Sprintf("a held %s Compress result (%d bytes, input %d bytes) does not decompress to its input any more: err=%v panic=%v", name, len(h.out), len(h.x), dr.err, dr.panicked),
					heldWitness(c, sp, name, order, h, ""))
			}
		} else if !bytes.Equal(h.out, h.x) {
			c.Violate("held:decompress-result-wrong:"+alg, fmt.Sprintf("a held %s Decompress result (%d bytes) is not the %d-byte input (first difference at %d)", name, len(h.out), len(h.x), firstDiff(h.out, h.x)),
				heldWitness(c, sp, name, order, h, ""))
		}
	}
	// aliasing: scribble over one result, nothing else may change; then put it back
	for i, h := range hs {
		if len(h.out) == 0 {
			continue
		}
		scribble(h.out)
		if !bytes.Equal(h.x, h.xkeep) {
			c.Violate("held:result-aliases-input:"+alg+":"+op, fmt.Sprintf("writing to the %d-byte result of %s %s changed the caller's input buffer: the result shares memory with the input", len(h.out), name, op), heldWitness(c, sp, name, order, h, ""))
		}
		for j, o := range hs {
			if j != i && !bytes.Equal(o.out, o.keep) {
				c.Violate("held:results-alias-each-other:"+alg+":"+op, fmt.Sprintf("writing to one %s %s result (%d bytes) changed another held result (%d bytes): they share memory", name, op, len(h.out), len(o.out)), heldWitness(c, sp, name, order, o, ""))
				copy(o.out, o.keep)
			}
		}
		scribble(h.out)
	}
}

func heldInputs(c *rig.Check, sp spec, r *rand.Rand, name string, cheap bool, salt int, order string) []*heldRes {
	classes := []string{"text", "mixed", "repetitive", "random"}
	var hs []*heldRes
	for i, sz := range heldSizes(c, r, cheap, order) {
		cl := classes[(i+salt)%3]
		if sz == 65537 {
			cl = "random" // incompressible: the encoded form is larger than the input
		}
		if sz == 0 {
			cl = "empty"
		}
		if name == "snappy-v2shared" && sz == 0 {
			continue // CompressBlock has no error return; nil means error
		}
		d := inputDesc{Idx: 200000 + sp.Run*1000 + salt*50 + i, Class: cl, Size: sz}
		x := genInput(c, d)
		hs = append(hs, &heldRes{in: d, x: x, xkeep: bytes.Clone(x)})
	}
	return hs
}

// heldSequential: batches of Compress results held across the later Compress calls of the batch
// (and a GC-reset of pools in between batches), then Decompress results held the same way.
func heldSequential(c *rig.Check, sp spec, name string, cd codec, r *rand.Rand) {
	cheap := name == "snappy" || name == "snappy-v2shared"
	orders := []string{"descending", "shuffled", "ascending", "same-size-pairs"}
	if cheap && c.Quick() {
		orders = []string{"descending", "shuffled", "same-size-pairs"}
	}
	if !cheap {
		orders = []string{"descending"}
		if !c.Quick() {
			orders = append(orders, "shuffled", "ascending")
		}
	}
	for oi, order := range orders {
		hs := heldInputs(c, sp, r, name, cheap, oi, order)
		switch order {
		case "descending":
			sort.SliceStable(hs, func(i, j int) bool { return len(hs[i].x) > len(hs[j].x) })
		case "ascending":
			sort.SliceStable(hs, func(i, j int) bool { return len(hs[i].x) < len(hs[j].x) })
		case "shuffled":
			r.Shuffle(len(hs), func(i, j int) { hs[i], hs[j] = hs[j], hs[i] })
		case "same-size-pairs":
			var p []*heldRes
			for i, h := range hs {
				d := h.in
				d.Idx += 25
				x := genInput(c, d)
				p = append(p, h, &heldRes{in: d, x: x, xkeep: bytes.Clone(x)})
				_ = i
			}
			hs = p
		}
		// pools start from scratch (sync.Pool is emptied by two GC cycles)
		runtime.GC()
		runtime.GC()
		ok := true
		big := 0
		for _, h := range hs {
			cr := rawCompress(cd, h.x)
			if cr.panicked != nil || cr.err != nil {
				c.Violate("held:compress-failed:"+name, fmt.Sprintf("%s Compress of a %d-byte input failed: err=%v panic=%v", name, len(h.x), cr.err, cr.panicked), heldWitness(c, sp, name, order, h, ""))
				ok = false
				break
			}
			h.out, h.keep = cr.out, bytes.Clone(cr.out)
			if len(h.x) > 64<<10 {
				big++
			}
		}
		c.Case(fmt.Sprintf("held/seq/compress/%s/%s/%d", name, order, sp.Run), ok && big >= 2)
		if !ok {
			continue
		}
		verifyHeld(c, sp, name, cd, "compress", order, hs)
		// the same with Decompress results; later Compress calls are mixed in
		var ds []*heldRes
		for i, h := range hs {
			dr := rawDecompress(cd, h.keep)
			if dr.panicked != nil || dr.err != nil {
				c.Violate("held:decompress-failed:"+name, fmt.Sprintf("%s Decompress(Compress(x)) failed for a %d-byte input: err=%v panic=%v", name, len(h.x), dr.err, dr.panicked), heldWitness(c, sp, name, order, h, ""))
				continue
			}
			ds = append(ds, &heldRes{in: h.in, x: h.x, xkeep: h.xkeep, out: dr.out, keep: bytes.Clone(dr.out)})
			if i%3 == 2 {
				rawCompress(cd, hs[(i+1)%len(hs)].x)
			}
		}
		c.Case(fmt.Sprintf("held/seq/decompress/%s/%s/%d", name, order, sp.Run), big >= 2)
		verifyHeld(c, sp, name, cd, "decompress", order, ds)
	}
}

// heldBlocks: the chronicler's block layer. Several large blocks are built back to back
// (CompressEntries → header with CRC + compressed bytes, exactly what the writer puts on disk
// next) and only then parsed back.
func heldBlocks(c *rig.Check, sp spec, r *rand.Rand) {
	type blk struct {
		entries []v2.Entry
		hdr     *v2.BlockHeader
		data    []byte
		keep    []byte
	}
	sizes := []int{300 << 10, 70000, 200 << 10, 66000, 1 << 20, 90000, 65537, 150000}
	runtime.GC()
	runtime.GC()
	var bs []*blk
	for i, sz := range sizes {
		n := 1 + r.IntN(3)
		var es []v2.Entry
		for k := 0; k < n; k++ {
			d := inputDesc{Idx: 300000 + sp.Run*1000 + i*10 + k, Class: []string{"text", "mixed", "random"}[(i+k)%3], Size: sz / n}
			es = append(es, v2.Entry{Operation: v2.OpInsert, Key: fmt.Sprintf("key-%d-%d", i, k), Data: genInput(c, d)})
		}
		h, data, err := v2.CompressEntries(es)
		if err != nil || h == nil {
			c.Violate("held:chronicler-block:compress-failed", fmt.Sprintf("CompressEntries failed: %v", err), map[string]any{"mode": "held", "run": sp.Run, "seed": c.Seed, "tier": c.Tier})
			return
		}
		bs = append(bs, &blk{entries: es, hdr: h, data: data, keep: bytes.Clone(data)})
	}
	c.Case(fmt.Sprintf("held/chronicler-blocks/%d", sp.Run), true)
	for i, b := range bs {
		c.Count("held_results_verified", 1)
		wit := map[string]any{"mode": "held", "run": sp.Run, "seed": c.Seed, "tier": c.Tier, "block": i, "compressed_len": len(b.keep), "entries": len(b.entries)}
		if !bytes.Equal(b.data, b.keep) {
			c.Count("held_results_changed", 1)
			c.Violate("held:chronicler-block:compressed-block-changed-by-later-block", fmt.Sprintf("the compressed bytes of block %d (%d bytes, CRC taken at build time) were changed while the next blocks were built (first difference at %d)", i, len(b.keep), firstDiff(b.data, b.keep)), wit)
			continue
		}
		pb, err := v2.ParseBlock(b.hdr, b.data)
		if err != nil {
			c.Violate("held:chronicler-block:parse-failed", fmt.Sprintf("ParseBlock of held block %d failed: %v", i, err), wit)
			continue
		}
		if len(pb.Entries) != len(b.entries) {
			c.Violate("held:chronicler-block:entries-differ", fmt.Sprintf("block %d: %d entries written, %d read", i, len(b.entries), len(pb.Entries)), wit)
			continue
		}
		for k := range pb.Entries {
			if pb.Entries[k].Key != b.entries[k].Key || !bytes.Equal(pb.Entries[k].Data, b.entries[k].Data) {
				c.Violate("held:chronicler-block:entries-differ", fmt.Sprintf("block %d entry %d differs from what was written", i, k), wit)
				break
			}
		}
	}
}

// heldFiles: the chronicler's file layer. Several .hyd files are written at the same time, each
// entry larger than a block so that every WriteEntry compresses and writes a block at once, then
// every file is read back.
func heldFiles(c *rig.Check, sp spec, r *rand.Rand) {
	dir, err := os.MkdirTemp("", "c24-hyd-")
	if err != nil {
		c.Inconclusive("cannot create a scratch directory")
		return
	}
	defer os.RemoveAll(dir)
	nFiles, nEntries := c.N(3, 12), c.N(4, 16)
	type written struct {
		key  string
		data []byte
	}
	all := make([][]written, nFiles)
	errs := make([]error, nFiles)
	var wg sync.WaitGroup
	gate := make(chan struct{})
	for f := 0; f < nFiles; f++ {
		fr := c.RandFor(fmt.Sprintf("held/files/%d/%d", sp.Run, f))
		for e := 0; e < nEntries; e++ {
			d := inputDesc{Idx: 400000 + sp.Run*1000 + f*32 + e, Class: []string{"text", "mixed", "random"}[(f+e)%3], Size: 66000 + fr.IntN(c.N(90000, 200000))}
			all[f] = append(all[f], written{key: fmt.Sprintf("f%d-e%d", f, e), data: genInput(c, d)})
		}
		wg.Add(1)
		go func(f int) {
			defer wg.Done()
			<-gate
			w, err := v2.NewFileWriterWithName(filepath.Join(dir, fmt.Sprintf("s%d.hyd", f)), v2.DefaultMaxBlockSize, fmt.Sprintf("c24/held/%d", f))
			if err != nil {
				errs[f] = err
				return
			}
			for _, e := range all[f] {
				if err := w.WriteEntry(v2.Entry{Operation: v2.OpInsert, Key: e.key, Data: e.data}); err != nil {
					errs[f] = err
					break
				}
				runtime.Gosched()
			}
			if err := w.Close(); err != nil && errs[f] == nil {
				errs[f] = err
			}
		}(f)
	}
	close(gate)
	wg.Wait()
	c.Case(fmt.Sprintf("held/chronicler-files/%d", sp.Run), true)
	for f := 0; f < nFiles; f++ {
		wit := map[string]any{"mode": "held", "run": sp.Run, "seed": c.Seed, "tier": c.Tier, "file": f}
		if errs[f] != nil {
			c.Violate("held:chronicler-file:write-failed", fmt.Sprintf("writing .hyd file %d failed: %v", f, errs[f]), wit)
			continue
		}
		rd, err := v2.NewFileReader(filepath.Join(dir, fmt.Sprintf("s%d.hyd", f)))
		if err != nil {
			c.Violate("held:chronicler-file:open-failed", fmt.Sprintf("opening written .hyd file %d failed: %v", f, err), wit)
			continue
		}
		got := map[string][]byte{}
		_, err = rd.ReadAllEntries(func(e v2.Entry) bool {
			if e.Operation != v2.OpMetadata {
				got[e.Key] = bytes.Clone(e.Data)
			}
			return true
		})
		_ = rd.Close()
		if err != nil {
			c.Violate("held:chronicler-file:reread-failed", fmt.Sprintf("a .hyd file written while other files were being written (%d entries of 64–260 KiB) cannot be read back: %v", len(all[f]), err), wit)
			continue
		}
		for _, e := range all[f] {
			c.Count("held_results_verified", 1)
			if g, ok := got[e.key]; !ok || !bytes.Equal(g, e.data) {
				c.Violate("held:chronicler-file:entry-differs", fmt.Sprintf("entry %s of .hyd file %d reads back missing or different (written %d bytes, read %d, present=%v)", e.key, f, len(e.data), len(g), ok), wit)
				break
			}
		}
	}
}

// heldConcurrent: N goroutines on ONE compressor object; each holds its results while the others
// (and it itself) keep calling; GC cycles are sprinkled in so that pools are emptied and refilled.
func heldConcurrent(c *rig.Check, sp spec, name string, cd codec) {
	G := c.N(8, 16)
	rounds := c.N(5, 30)
	sizes := []int{65537, 70000, 100000, 256 << 10, 66000, 131073, 300, 1}
	if name != "snappy" && name != "snappy-v2shared" {
		G, rounds = c.N(3, 8), c.N(1, 10)
		if c.Quick() {
			sizes = []int{65537, 70000, 300, 90000}
			if name == "zstd" {
				G, sizes = 2, []int{65537, 70000} // builds its encoder and decoder pools on every call
			}
		}
	}
	// inputs are prepared before the goroutines start
	type in struct {
		d inputDesc
		x []byte
		k []byte
	}
	var pool []in
	for i, sz := range sizes {
		d := inputDesc{Idx: 500000 + sp.Run*1000 + i, Class: []string{"random", "text", "mixed"}[i%3], Size: sz}
		x := genInput(c, d)
		pool = append(pool, in{d, x, bytes.Clone(x)})
	}
	var wg sync.WaitGroup
	var inflight, maxInflight, held, changed atomic.Int64
	gate := make(chan struct{})
	for g := 0; g < G; g++ {
		wg.Add(1)
		gr := c.RandFor(fmt.Sprintf("held/conc/%s/%d/%d", name, sp.Run, g))
		go func(g int) {
			defer wg.Done()
			<-gate
			for round := 0; round < rounds; round++ {
				var hs []*heldRes
				k := 2 + gr.IntN(3)
				for i := 0; i < k; i++ {
					p := pool[gr.IntN(len(pool))]
					n := inflight.Add(1)
					for {
						mx := maxInflight.Load()
						if n <= mx || maxInflight.CompareAndSwap(mx, n) {
							break
						}
					}
					cr := rawCompress(cd, p.x)
					inflight.Add(-1)
					if cr.panicked != nil || cr.err != nil {
						c.Violate("held:concurrent:compress-failed:"+name, fmt.Sprintf("concurrent %s Compress failed: err=%v panic=%v", name, cr.err, cr.panicked), map[string]any{"mode": "held", "run": sp.Run, "seed": c.Seed, "tier": c.Tier, "alg": name})
						return
					}
					hs = append(hs, &heldRes{in: p.d, x: p.x, xkeep: p.k, out: cr.out, keep: bytes.Clone(cr.out)})
					runtime.Gosched()
				}
				if g == 0 && round%2 == 1 {
					runtime.GC()
				}
				// a decode whose result is held too
				dr := rawDecompress(cd, hs[0].keep)
				runtime.Gosched()
				for _, h := range hs {
					held.Add(1)
					w := heldWitness(c, sp, name, "concurrent", h, "")
					if !bytes.Equal(h.out, h.keep) {
						changed.Add(1)
						c.Violate("held:concurrent:compress-result-changed-by-later-call:"+name, fmt.Sprintf("a %d-byte %s Compress result held by one goroutine was changed while other calls ran on the same compressor (input %d bytes, first difference at %d)", len(h.keep), name, len(h.x), firstDiff(h.out, h.keep)), w)
						continue
					}
					r2 := rawDecompress(cd, h.out)
					if r2.panicked != nil || r2.err != nil || !bytes.Equal(r2.out, h.x) {
						c.Violate("held:concurrent:compress-result-no-longer-decodes:"+name, fmt.Sprintf("a held %s Compress result does not decompress to its input: err=%v panic=%v", name, r2.err, r2.panicked), w)
					}
				}
				if dr.panicked != nil || dr.err != nil || !bytes.Equal(dr.out, hs[0].x) {
					c.Violate("held:concurrent:decompress-result-wrong:"+name, fmt.Sprintf("a held concurrent %s Decompress result is not the input: err=%v panic=%v", name, dr.err, dr.panicked), heldWitness(c, sp, name, "concurrent", hs[0], ""))
				}
			}
		}(g)
	}
	close(gate)
	done := make(chan struct{})
	go func() { wg.Wait(); close(done) }()
	select {
	case <-done:
	case <-time.After(guardPatience * 3):
		c.Inconclusive("held-results concurrency run of " + name + " did not finish")
		return
	}
	c.Case(fmt.Sprintf("held/conc/%s/%d", name, sp.Run), maxInflight.Load() >= 2)
	c.Count("held_results_verified", held.Load())
	c.Count("held_results_changed", changed.Load())
	c.Count("held_concurrent_max_inflight_sum", maxInflight.Load())
}

func childHeld(c *rig.Check, sp spec) {
	memGuard(c)
	runtime.GOMAXPROCS(4)
	names, codecs := heldCodecs()
	r := c.RandFor(fmt.Sprintf("held/%d", sp.Run))
	phase := func(name string, f func()) {
		t0 := time.Now()
		f()
		c.Count("held_phase_ms_"+name, time.Since(t0).Milliseconds())
	}
	for _, n := range names {
		phase("sequential_"+n, func() { heldSequential(c, sp, n, codecs[n], r) })
	}
	phase("chronicler_blocks", func() { heldBlocks(c, sp, r) })
	for _, n := range names {
		phase("concurrent_"+n, func() { heldConcurrent(c, sp, n, codecs[n]) })
	}
	phase("chronicler_files", func() { heldFiles(c, sp, r) })
	c.Count("children_completed", 1)
}
