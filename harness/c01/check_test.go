// C01 — storage log replays to the last-writer-wins state.
//
// Monitor: generated histories of insert/update/delete with hostile keys and payloads, block
// sizes and flush/sync/close/reopen boundaries are executed against
//
//	(a) the raw v2.FileWriter / v2.FileReader pair, and
//	(b) the chroniclerV2 through the chronicler.Chronicler interface with real treasures and a
//	    real beacon, reloaded by a fresh chronicler,
//
// while a reference map[key]payload is replayed over the writes the engine *accepted*
// (raw: WriteEntry/WriteEntries returned nil; chronicler: the key was acknowledged through the
// file-pointer callback, the only per-treasure acknowledgement the interface has). At every
// read-back point (after Flush, Sync, Close, reload, compaction) the state read from the file
// must equal the reference map: same keys, byte-identical payloads, nothing else.
package c01

import (
	"bytes"
	"crypto/sha256"
	"encoding/binary"
	"encoding/hex"
	"encoding/json"
	"errors"
	"fmt"
	"math/rand/v2"
	"os"
	"path/filepath"
	"runtime"
	"runtime/debug"
	"sort"
	"strings"
	"sync"
	"syscall"
	"testing"
	"time"

	"github.com/hydraide/hydraide/app/core/hydra/swamp/beacon"
	"github.com/hydraide/hydraide/app/core/hydra/swamp/chronicler"
	v2 "github.com/hydraide/hydraide/app/core/hydra/swamp/chronicler/v2"
	"github.com/hydraide/hydraide/app/core/hydra/swamp/treasure"
	"github.com/hydraide/hydraide/app/core/hydra/swamp/treasure/guard"

	"verifharness/rig"
)

// ---------------------------------------------------------------------------
// Case description (small, JSON-serialisable: keys and payloads are specs, not bytes)

type keySpec struct {
	K string `json:"k"`           // pool | lit | gen
	I int    `json:"i,omitempty"` // pool / literal index
	N int    `json:"n,omitempty"` // gen: length in bytes
	S uint64 `json:"s,omitempty"` // gen: content seed
	A bool   `json:"a,omitempty"` // gen: printable ASCII instead of arbitrary bytes
}

type paySpec struct {
	N int    `json:"n"`
	S uint64 `json:"s,omitempty"`
	M int    `json:"m,omitempty"` // 0 random bytes, 1 compressible pattern, 2 zeros, 3 0xff
}

type entrySpec struct {
	Op  string  `json:"op"` // raw: ins | upd | del ; chron: put | del
	Key keySpec `json:"key"`
	Pay paySpec `json:"pay"`
	Sh  bool    `json:"sh,omitempty"` // chron del: shadow delete
}

type floodSpec struct {
	N      int  `json:"n"`       // entries written
	KeyLen int  `json:"key_len"` // bytes per key; key = counter (mod 256^KeyLen), big endian
	PayLen int  `json:"pay_len"` // 0 or small
	Batch  bool `json:"batch,omitempty"`
}

type step struct {
	Op     string      `json:"op"` // put | batch | flush | sync | reopen | close | compact | flood
	E      []entrySpec `json:"e,omitempty"`
	BS     int         `json:"bs,omitempty"`     // reopen: block size of the next session (0 = unchanged)
	Closed bool        `json:"closed,omitempty"` // raw reopen: try one write on the closed writer first
	Flood  *floodSpec  `json:"flood,omitempty"`
}

type history struct {
	Driver     string  `json:"driver"` // raw | chron
	Label      string  `json:"label,omitempty"`
	BlockSize  int     `json:"block_size"`
	Name       string  `json:"name,omitempty"`       // swamp name stored in the file ("" = none)
	Compaction bool    `json:"compaction,omitempty"` // chron: live-count callback registered (inline compaction armed)
	Threshold  float64 `json:"threshold,omitempty"`  // chron: compaction threshold
	Steps      []step  `json:"steps"`
}

var poolKeys = []string{"k0", "k1", "k2", "k3", "k4", "k5", "user:1001", "user:1002"}

var litKeys = []string{
	"\x00", "a\x00b", "/", "a/b/c", "../../x", "\xff\xfe\xfd", "\xc3\x28", "__swamp_meta__",
	"__swamp_metadata__", " ", "\n", "ключ", "\xf0\x9f\x94\x91", ".", "..", "k0\x00", "K0", "\x00\x00\x00\x00\x00\x00\x00",
	"", // index 18: the empty key
}

const litEmpty = 18

func fill(b []byte, seed uint64) {
	var s [32]byte
	binary.LittleEndian.PutUint64(s[:], seed)
	binary.LittleEndian.PutUint64(s[8:], seed^0x9E3779B97F4A7C15)
	_, _ = rand.NewChaCha8(s).Read(b)
}

func (k keySpec) str() string {
	switch k.K {
	case "pool":
		return poolKeys[k.I%len(poolKeys)]
	case "lit":
		return litKeys[k.I%len(litKeys)]
	}
	b := make([]byte, k.N)
	fill(b, k.S)
	if k.A {
		for i := range b {
			b[i] = 'a' + b[i]%26
		}
	}
	return string(b)
}

func (p paySpec) bytes() []byte {
	b := make([]byte, p.N)
	switch p.M {
	case 0:
		fill(b, p.S)
	case 1:
		var pat [16]byte
		fill(pat[:], p.S)
		for i := range b {
			b[i] = pat[i%16]
		}
	case 3:
		for i := range b {
			b[i] = 0xff
		}
	}
	return b
}

func floodKey(i, keyLen int) string {
	b := make([]byte, keyLen)
	x := uint64(i)
	for j := keyLen - 1; j >= 0; j-- {
		b[j] = byte(x)
		x >>= 8
	}
	if keyLen > 0 {
		b[0] |= 0x80 // never collides with the printable pool keys
	}
	return string(b)
}

func floodPay(i, n int) []byte {
	if n == 0 {
		return nil
	}
	b := make([]byte, n)
	for j := range b {
		b[j] = byte(i*31 + j + 1)
	}
	return b
}

// ---------------------------------------------------------------------------
// Outcome of one executed history

type outcome struct {
	sig, what  string
	witness    map[string]any
	nontrivial bool
	counts     map[string]int64
	seen       map[string]map[string]struct{}
}

func newOutcome() *outcome {
	return &outcome{counts: map[string]int64{}, seen: map[string]map[string]struct{}{}}
}
func (o *outcome) count(k string, n int64) { o.counts[k] += n }
func (o *outcome) see(set, v string) {
	m := o.seen[set]
	if m == nil {
		m = map[string]struct{}{}
		o.seen[set] = m
	}
	m[v] = struct{}{}
}

func keyClass(n int) string {
	switch {
	case n == 0:
		return "0"
	case n == 1:
		return "1"
	case n < 255:
		return "2..254"
	case n <= 257:
		return "255..257"
	case n < 65535:
		return "258..65534"
	case n == 65535:
		return "65535"
	case n == 65536:
		return "65536"
	default:
		return ">65536"
	}
}

func payClass(n, bs int) string {
	switch {
	case n == 0:
		return "0"
	case n == 1:
		return "1"
	case n >= 1<<20:
		return ">=1MiB"
	case bs > 16 && n >= bs-300 && n <= bs+8:
		return "around-block"
	case n >= 65535:
		return "64KiB..1MiB"
	case n > 4096:
		return "4KiB..64KiB"
	default:
		return "2..4KiB"
	}
}

func kdesc(k string) string {
	p := k
	if len(p) > 12 {
		p = p[:12]
	}
	return fmt.Sprintf("len=%d:%s", len(k), hex.EncodeToString([]byte(p)))
}

func vdesc(v []byte) string {
	if len(v) == 0 {
		return "len=0"
	}
	h := sha256.Sum256(v)
	return fmt.Sprintf("len=%d:sha=%s", len(v), hex.EncodeToString(h[:6]))
}

// tracker is the reference model plus what is needed to classify a mismatch.
type tracker struct {
	model       map[string][]byte
	rejected    map[string]struct{} // keys of writes the engine refused
	tainted     map[string]struct{} // keys of failed batches: either outcome accepted
	writesPer   map[string]int
	maxKeyLen   int
	emptyKey    bool
	maxBlockEnt int // raw: largest number of entries that sat in the write buffer at once
	lww         bool
	o           *outcome
	bs          int
}

func newTracker(o *outcome, bs int) *tracker {
	return &tracker{model: map[string][]byte{}, rejected: map[string]struct{}{}, tainted: map[string]struct{}{}, writesPer: map[string]int{}, o: o, bs: bs}
}

// accept applies one accepted write to the model.
func (t *tracker) accept(del bool, key string, pay []byte) {
	t.o.count("accepted_writes", 1)
	t.o.see("accepted_key_len_classes", keyClass(len(key)))
	if len(key) > t.maxKeyLen {
		t.maxKeyLen = len(key)
	}
	if key == "" {
		t.emptyKey = true
	}
	if _, had := t.model[key]; had {
		t.lww = true // an overwrite or a delete of a present key: last-writer-wins matters
	}
	t.writesPer[key]++
	if del {
		t.o.count("accepted_deletes", 1)
		delete(t.model, key)
		return
	}
	t.o.see("accepted_payload_classes", payClass(len(pay), t.bs))
	t.model[key] = pay
}

func (t *tracker) reject(key string, err error) {
	t.o.count("rejected_writes", 1)
	t.o.see("rejected_key_len_classes", keyClass(len(key)))
	t.o.see("reject_errors", errName(err))
	t.rejected[key] = struct{}{}
}

// class names the hostile features present among the accepted writes.
func (t *tracker) class() string {
	var f []string
	if t.emptyKey {
		f = append(f, "keylen=0")
	}
	if t.maxKeyLen > 65535 {
		f = append(f, "keylen>65535")
	}
	if t.maxBlockEnt > 65535 {
		f = append(f, "block-entries>65535")
	}
	if len(f) == 0 {
		return "plain"
	}
	return strings.Join(f, "+")
}

func errName(err error) string {
	switch {
	case err == nil:
		return "nil"
	case errors.Is(err, v2.ErrEmptyKey):
		return "ErrEmptyKey"
	case errors.Is(err, v2.ErrCorruptedEntry):
		return "ErrCorruptedEntry"
	case errors.Is(err, v2.ErrCorruptedBlock):
		return "ErrCorruptedBlock"
	case errors.Is(err, v2.ErrFileClosed):
		return "ErrFileClosed"
	case errors.Is(err, v2.ErrInvalidMagic):
		return "ErrInvalidMagic"
	}
	s := err.Error()
	if len(s) > 40 {
		s = s[:40]
	}
	return strings.Map(func(r rune) rune {
		if r == ' ' || r == ':' {
			return '-'
		}
		return r
	}, s)
}

// fail records the first violation of a history. For histories that contain one of the
// hostile features the manifestation (load error, missing keys, garbage keys) depends on the
// random key content, so the clause is collapsed to keep the signature seed-independent.
func (t *tracker) fail(driver, boundary, clause, what string, extra map[string]any) {
	if t.o.sig != "" {
		return
	}
	cl := t.class()
	if cl == "plain" {
		t.o.sig = driver + ":plain:" + boundary + ":" + clause
	} else {
		t.o.sig = driver + ":" + cl + ":readback-differs"
	}
	t.o.what = fmt.Sprintf("%s driver, %s, accepted-write class %s: %s", driver, boundary, cl, what)
	w := map[string]any{"boundary": boundary, "clause": clause, "class": cl, "detail": what}
	for k, v := range extra {
		w[k] = v
	}
	t.o.witness = w
}

// compare checks a loaded state against the model. got[key]==nil with notBytes[key] means the
// loaded record has no byte-array content (chronicler driver only).
func (t *tracker) compare(driver, boundary string, got map[string][]byte, notBytes map[string]bool, lenientEmpty bool) {
	t.o.count("readbacks", 1)
	t.o.see("readback_points", driver+":"+boundary)
	var missing, extra, diff, rej []string
	for k, want := range t.model {
		if _, dc := t.tainted[k]; dc {
			continue
		}
		g, ok := got[k]
		if !ok {
			missing = append(missing, k)
			continue
		}
		if notBytes[k] {
			if lenientEmpty && len(want) == 0 {
				continue
			}
			diff = append(diff, k)
			continue
		}
		if !bytes.Equal(g, want) {
			diff = append(diff, k)
		}
	}
	for k := range got {
		if _, dc := t.tainted[k]; dc {
			continue
		}
		if _, ok := t.model[k]; !ok {
			extra = append(extra, k)
		}
	}
	if len(missing)+len(extra)+len(diff) == 0 {
		return
	}
	for _, l := range [][]string{extra, diff} {
		for _, k := range l {
			if _, r := t.rejected[k]; r && t.writesPer[k] == 0 {
				rej = append(rej, k)
			}
		}
	}
	byLen := func(l []string) {
		sort.Slice(l, func(i, j int) bool {
			if len(l[i]) != len(l[j]) {
				return len(l[i]) < len(l[j])
			}
			return l[i] < l[j]
		})
	}
	byLen(missing)
	byLen(extra)
	byLen(diff)
	var clauses []string
	var parts []string
	if len(rej) > 0 {
		clauses = append(clauses, "rejected-write-had-effect")
	}
	if len(missing) > 0 {
		clauses = append(clauses, "missing-key")
		parts = append(parts, fmt.Sprintf("%d of %d expected keys missing (first: key %s, expected payload %s)", len(missing), len(t.model), kdesc(missing[0]), vdesc(t.model[missing[0]])))
	}
	if len(diff) > 0 {
		clauses = append(clauses, "payload-mismatch")
		k := diff[0]
		parts = append(parts, fmt.Sprintf("%d keys with a different payload (first: key %s expected %s got %s)", len(diff), kdesc(k), vdesc(t.model[k]), vdesc(got[k])))
	}
	if len(extra) > 0 {
		clauses = append(clauses, "extra-key")
		parts = append(parts, fmt.Sprintf("%d keys that should not exist (first: key %s payload %s)", len(extra), kdesc(extra[0]), vdesc(got[extra[0]])))
	}
	t.fail(driver, boundary, strings.Join(clauses, "+"), strings.Join(parts, "; "),
		map[string]any{"expected_keys": len(t.model), "loaded_keys": len(got), "missing": len(missing), "extra": len(extra), "mismatched": len(diff)})
}

// ---------------------------------------------------------------------------
// Driver (a): raw v2.FileWriter / v2.FileReader

func runRaw(h history, dir string, o *outcome) {
	path := filepath.Join(dir, "raw.hyd")
	bs := h.BlockSize
	t := newTracker(o, bs)
	open := func() (*v2.FileWriter, error) {
		o.count("sessions", 1)
		o.see("block_sizes", fmt.Sprint(bs))
		if h.Name != "" {
			return v2.NewFileWriterWithName(path, bs, h.Name)
		}
		return v2.NewFileWriter(path, bs)
	}
	defer func() { o.nontrivial = t.lww }()
	fw, err := open()
	if err != nil {
		t.fail("raw", "open", "open-error:"+errName(err), "cannot create the file: "+err.Error(), nil)
		return
	}
	defer func() { _ = fw.Close() }()

	readback := func(boundary string) {
		fr, err := v2.NewFileReader(path)
		if err != nil {
			t.fail("raw", boundary, "reader-open-error:"+errName(err), "NewFileReader: "+err.Error(), nil)
			return
		}
		defer fr.Close()
		idx, name, err := fr.LoadIndex()
		if err != nil {
			t.fail("raw", boundary, "load-error:"+errName(err), fmt.Sprintf("LoadIndex failed with %q although every write was accepted; %d keys expected", err.Error(), len(t.model)), nil)
			return
		}
		if name != h.Name {
			t.fail("raw", boundary, "swamp-name-mismatch", fmt.Sprintf("stored swamp name %q read back as %q", h.Name, name), nil)
			return
		}
		t.compare("raw", boundary, idx, nil, false)
	}
	// simulated write buffer (documented rule: a block is flushed once the buffered size reaches
	// the block size); only used where BufferCount() cannot be observed, i.e. inside a batch
	simCount, simSize := 0, 0
	bump := func(n int) {
		if n > t.maxBlockEnt {
			t.maxBlockEnt = n
		}
	}
	one := func(e v2.Entry) {
		before := fw.BufferCount()
		err := fw.WriteEntry(e)
		if err != nil {
			t.reject(e.Key, err)
			return
		}
		if after := fw.BufferCount(); after == 0 {
			bump(before + 1) // the entry completed a block that was flushed right away
			simCount, simSize = 0, 0
		} else {
			bump(after)
			simCount, simSize = after, simSize+e.Size()
		}
		t.accept(e.Operation == v2.OpDelete, e.Key, e.Data)
	}
	many := func(es []v2.Entry) {
		err := fw.WriteEntries(es)
		if err != nil {
			// the batch failed: nothing is demanded about which of its entries took effect
			o.count("failed_batches", 1)
			for _, e := range es {
				t.tainted[e.Key] = struct{}{}
			}
			simCount, simSize = fw.BufferCount(), 0
			return
		}
		localMax := 0
		for _, e := range es {
			simCount++
			simSize += e.Size()
			if simCount > localMax {
				localMax = simCount
			}
			if simSize >= effBlock(bs) {
				simCount, simSize = 0, 0
			}
		}
		if simCount == fw.BufferCount() {
			bump(localMax) // the writer followed the size-only rule, so the simulation is exact
		} else {
			simCount, simSize = fw.BufferCount(), 0
			bump(simCount)
		}
		for _, e := range es {
			t.accept(e.Operation == v2.OpDelete, e.Key, e.Data)
		}
	}
	toEntry := func(e entrySpec) v2.Entry {
		switch e.Op {
		case "del":
			return v2.Entry{Operation: v2.OpDelete, Key: e.Key.str()}
		case "upd":
			return v2.Entry{Operation: v2.OpUpdate, Key: e.Key.str(), Data: e.Pay.bytes()}
		}
		return v2.Entry{Operation: v2.OpInsert, Key: e.Key.str(), Data: e.Pay.bytes()}
	}

	for _, s := range h.Steps {
		if o.sig != "" {
			return
		}
		o.count("ops", 1)
		o.see("step_kinds", "raw:"+s.Op)
		switch s.Op {
		case "put":
			one(toEntry(s.E[0]))
		case "batch":
			es := make([]v2.Entry, len(s.E))
			for i, e := range s.E {
				es[i] = toEntry(e)
			}
			many(es)
		case "flood":
			f := s.Flood
			o.count("flood_entries", int64(f.N))
			if f.Batch {
				es := make([]v2.Entry, f.N)
				for i := range es {
					es[i] = v2.Entry{Operation: v2.OpInsert, Key: floodKey(i, f.KeyLen), Data: floodPay(i, f.PayLen)}
				}
				many(es)
			} else {
				for i := 0; i < f.N; i++ {
					one(v2.Entry{Operation: v2.OpInsert, Key: floodKey(i, f.KeyLen), Data: floodPay(i, f.PayLen)})
				}
			}
		case "flush":
			if err := fw.Flush(); err != nil {
				t.fail("raw", "flush", "flush-error:"+errName(err), "Flush failed on a fault-free disk: "+err.Error(), nil)
				return
			}
			simCount, simSize = 0, 0
			readback("after-flush")
		case "sync":
			if err := fw.Sync(); err != nil {
				t.fail("raw", "sync", "sync-error:"+errName(err), "Sync failed on a fault-free disk: "+err.Error(), nil)
				return
			}
			simCount, simSize = 0, 0
			readback("after-sync")
		case "reopen":
			if err := fw.Close(); err != nil {
				t.fail("raw", "close", "close-error:"+errName(err), "Close failed on a fault-free disk: "+err.Error(), nil)
				return
			}
			simCount, simSize = 0, 0
			readback("after-close")
			if o.sig != "" {
				return
			}
			if s.Closed && len(s.E) > 0 {
				one(toEntry(s.E[0])) // a write on the closed writer: refused, or it must be durable
			}
			if s.BS != 0 {
				bs = s.BS
				t.bs = bs
			}
			fw, err = open()
			if err != nil {
				t.fail("raw", "reopen", "open-error:"+errName(err), "cannot reopen the file for appending: "+err.Error(), nil)
				return
			}
		}
	}
	if o.sig != "" {
		return
	}
	if err := fw.Close(); err != nil {
		t.fail("raw", "close", "close-error:"+errName(err), "Close failed on a fault-free disk: "+err.Error(), nil)
		return
	}
	readback("after-close")
	o.nontrivial = t.lww
	if t.maxBlockEnt > 0 {
		o.see("max_block_entries_class", entClass(t.maxBlockEnt))
	}
}

func effBlock(bs int) int {
	if bs <= 0 {
		return v2.DefaultMaxBlockSize
	}
	return bs
}

func maxInt(a, b int) int {
	if a > b {
		return a
	}
	return b
}

var _ = maxInt

func entClass(n int) string {
	switch {
	case n > 65535:
		return ">65535"
	case n == 65535:
		return "65535"
	case n > 1000:
		return "1001..65534"
	default:
		return "<=1000"
	}
}

// ---------------------------------------------------------------------------
// Driver (b): chroniclerV2 through the Chronicler interface, real treasures, real beacon

func inode(path string) uint64 {
	fi, err := os.Stat(path)
	if err != nil {
		return 0
	}
	if st, ok := fi.Sys().(*syscall.Stat_t); ok {
		return st.Ino
	}
	return 0
}

type chronSession struct {
	ch    chronicler.Chronicler
	live  beacon.Beacon
	acked map[string]int
}

func runChron(h history, dir string, o *outcome) {
	swampPath := filepath.Join(dir, "sw", "ab", "swamp")
	hyd := swampPath + ".hyd"
	bs := h.BlockSize
	t := newTracker(o, bs)

	newSession := func() *chronSession {
		o.count("sessions", 1)
		s := &chronSession{live: beacon.New(), acked: map[string]int{}}
		if h.Name != "" {
			s.ch = chronicler.NewV2WithName(swampPath, 4, h.Name) // default 16 KiB blocks
			o.see("block_sizes", fmt.Sprint(v2.DefaultMaxBlockSize))
		} else {
			thr := h.Threshold
			if thr == 0 {
				thr = 0.3
			}
			s.ch = chronicler.NewV2WithConfig(swampPath, 4, bs, thr)
			o.see("block_sizes", fmt.Sprint(bs))
		}
		s.ch.CreateDirectoryIfNotExists()
		s.ch.RegisterSaveFunction(func(treasure.Treasure, guard.ID) treasure.TreasureStatus { return treasure.StatusSame })
		s.ch.RegisterFilePointerFunction(func(ev []*chronicler.FileNameEvent) error {
			// what swamp.FilePointerCallbackFunction does, plus the acknowledgement record
			for _, e := range ev {
				if e == nil {
					continue
				}
				s.acked[e.TreasureKey]++
				if tr := s.live.Get(e.TreasureKey); tr != nil {
					id := tr.StartTreasureGuard(true, guard.BodyAuthID)
					tr.BodySetFileName(id, e.FileName)
					tr.ReleaseTreasureGuard(id)
				}
			}
			return nil
		})
		if h.Compaction {
			s.ch.RegisterLiveCountFunction(s.live.Count)
		}
		return s
	}
	// load reads the file through a chronicler into a beacon and compares with the model.
	load := func(s *chronSession, boundary string) {
		before := inode(hyd)
		s.ch.Load(s.live)
		if a := inode(hyd); before != 0 && a != before {
			o.count("compactions_observed", 1)
		}
		got := map[string][]byte{}
		notBytes := map[string]bool{}
		var keyMismatch string
		for k, tr := range s.live.GetAll() {
			if tr.GetKey() != k && keyMismatch == "" {
				keyMismatch = fmt.Sprintf("beacon key %s holds a treasure whose own key is %s", kdesc(k), kdesc(tr.GetKey()))
			}
			b, err := tr.GetContentByteArray()
			if err != nil {
				notBytes[k] = true
				got[k] = nil
				continue
			}
			got[k] = b
		}
		if keyMismatch != "" {
			t.fail("chron", boundary, "key-mismatch", keyMismatch, nil)
			return
		}
		t.compare("chron", boundary, got, notBytes, true)
		if o.sig != "" && o.witness != nil {
			// diagnose with the raw reader (witness only)
			if fr, err := v2.NewFileReader(hyd); err == nil {
				_, _, lerr := fr.LoadIndex()
				fr.Close()
				o.witness["raw_LoadIndex_error"] = fmt.Sprint(lerr)
				if lerr != nil {
					o.what += fmt.Sprintf(" [v2.FileReader.LoadIndex on the file: %v]", lerr)
				}
			}
		}
	}

	defer func() { o.nontrivial = t.lww }()
	s := newSession()
	load(s, "initial-load")

	write := func(es []entrySpec) {
		var batch []treasure.Treasure
		type pend struct {
			key string
			del bool
			pay []byte
		}
		var pends []pend
		inBatch := map[string]bool{}
		for _, e := range es {
			key := e.Key.str()
			if inBatch[key] {
				continue // a write batch holds each treasure once (it is keyed by treasure key)
			}
			if e.Op == "del" {
				tr := s.live.Get(key)
				if tr == nil {
					continue // nothing to delete
				}
				inBatch[key] = true
				id := tr.StartTreasureGuard(true, guard.BodyAuthID)
				tr.BodySetForDeletion(id, "verif", e.Sh)
				tr.ReleaseTreasureGuard(id)
				s.live.Delete(key)
				batch = append(batch, tr)
				pends = append(pends, pend{key: key, del: true})
				continue
			}
			inBatch[key] = true
			pay := e.Pay.bytes()
			tr := s.live.Get(key)
			if tr == nil {
				tr = treasure.New(nil)
				id := tr.StartTreasureGuard(true, guard.BodyAuthID)
				tr.BodySetKey(id, key)
				tr.ReleaseTreasureGuard(id)
				s.live.Add(tr)
			}
			if tr.GetFileName() == nil {
				o.count("chron_inserts", 1)
			} else {
				o.count("chron_updates", 1)
			}
			id := tr.StartTreasureGuard(true, guard.BodyAuthID)
			tr.SetContentByteArray(id, pay)
			tr.ReleaseTreasureGuard(id)
			batch = append(batch, tr)
			pends = append(pends, pend{key: key, pay: pay})
		}
		if len(batch) == 0 {
			return
		}
		for k := range s.acked {
			delete(s.acked, k)
		}
		before := inode(hyd)
		s.ch.Write(batch)
		if a := inode(hyd); before != 0 && a != before {
			o.count("compactions_observed", 1)
		}
		for _, p := range pends {
			if s.acked[p.key] > 0 {
				t.accept(p.del, p.key, p.pay)
			} else {
				t.reject(p.key, errors.New("not acknowledged"))
			}
		}
	}
	closeCh := func() bool {
		before := inode(hyd)
		if err := s.ch.Close(); err != nil {
			t.fail("chron", "close", "close-error:"+errName(err), "Close failed on a fault-free disk: "+err.Error(), nil)
			return false
		}
		if a := inode(hyd); before != 0 && a != before {
			o.count("compactions_observed", 1)
		}
		return true
	}
	reload := func(boundary string) {
		s = newSession()
		load(s, boundary)
	}

	for _, st := range h.Steps {
		if o.sig != "" {
			return
		}
		o.count("ops", 1)
		o.see("step_kinds", "chron:"+st.Op)
		switch st.Op {
		case "put", "batch":
			write(st.E)
		case "sync", "flush":
			if err := s.ch.Sync(); err != nil {
				t.fail("chron", "sync", "sync-error:"+errName(err), "Sync failed on a fault-free disk: "+err.Error(), nil)
				return
			}
		case "close":
			if !closeCh() {
				return
			}
		case "compact":
			before := inode(hyd)
			if err := s.ch.ForceCompaction(); err != nil {
				t.fail("chron", "compact", "compaction-error:"+errName(err), "ForceCompaction failed: "+err.Error(), nil)
				return
			}
			if a := inode(hyd); before != 0 && a != before {
				o.count("compactions_observed", 1)
			}
		case "reopen":
			if !closeCh() {
				return
			}
			if st.BS != 0 && h.Name == "" {
				bs = st.BS
				t.bs = bs
			}
			reload("after-reload")
		}
	}
	if o.sig != "" {
		return
	}
	if !closeCh() {
		return
	}
	reload("after-reload")
	if o.sig != "" {
		return
	}
	// a second fresh load: the first one may have rewritten the file (self-heal compaction)
	if !closeCh() {
		return
	}
	reload("after-second-reload")
	_ = s.ch.Close()
	o.nontrivial = t.lww
}

// ---------------------------------------------------------------------------
// Running one history (with panic containment)

func runHistory(h history, root string, idx int) (o *outcome) {
	o = newOutcome()
	dir := filepath.Join(root, fmt.Sprintf("h%06d", idx))
	if err := os.MkdirAll(dir, 0o755); err != nil {
		panic(err)
	}
	defer os.RemoveAll(dir)
	defer func() {
		if r := recover(); r != nil {
			st := string(debug.Stack())
			fn := "unknown"
			for _, ln := range strings.Split(st, "\n") {
				if strings.Contains(ln, "hydraide/hydraide/app") && strings.Contains(ln, "(") && !strings.HasPrefix(ln, "\t") {
					fn = ln[strings.LastIndex(ln, "/")+1:]
					if i := strings.Index(fn, "("); i > 0 {
						fn = fn[:i]
					}
					break
				}
			}
			if len(st) > 3000 {
				st = st[:3000]
			}
			o.sig = h.Driver + ":panic:" + fn
			o.what = fmt.Sprintf("%s driver: panic in %s: %v", h.Driver, fn, r)
			o.witness = map[string]any{"panic": fmt.Sprint(r), "stack": st}
		}
	}()
	if h.Driver == "chron" {
		runChron(h, dir, o)
	} else {
		runRaw(h, dir, o)
	}
	return o
}

// ---------------------------------------------------------------------------
// Generation

var blockSizes = []int{1, 64, 4096, 16384, 1 << 20}
var sizedKeyLens = []int{1, 2, 255, 256, 257, 4095, 65534, 65535}
var oversizedKeyLens = []int{65536, 65537, 70000}

func genHistory(r *rand.Rand, driver string, maxOps int, bigBudget int) history {
	h := history{Driver: driver, BlockSize: blockSizes[r.IntN(len(blockSizes))]}
	if driver == "raw" {
		if r.IntN(2) == 0 {
			h.Name = fmt.Sprintf("verif/c01/swamp-%d", r.IntN(1000))
		}
	} else {
		h.Compaction = r.IntN(2) == 0
		h.Threshold = []float64{0.3, 0.01, 0.9}[r.IntN(3)]
		if r.IntN(6) == 0 {
			h.Name = fmt.Sprintf("verif/c01/swamp-%d", r.IntN(1000))
			h.BlockSize = v2.DefaultMaxBlockSize
			h.Threshold = 0.3
		}
	}
	// key universe of this history
	var keys []keySpec
	for i, n := 0, 2+r.IntN(5); i < n; i++ {
		keys = append(keys, keySpec{K: "pool", I: r.IntN(len(poolKeys))})
	}
	if r.IntN(2) == 0 {
		for i, n := 0, 1+r.IntN(3); i < n; i++ {
			keys = append(keys, keySpec{K: "lit", I: r.IntN(litEmpty)}) // never the empty key here
		}
	}
	if r.IntN(4) == 0 {
		for i, n := 0, 1+r.IntN(2); i < n; i++ {
			keys = append(keys, keySpec{K: "gen", N: sizedKeyLens[r.IntN(len(sizedKeyLens))], S: r.Uint64(), A: r.IntN(2) == 0})
		}
	}
	if r.IntN(12) == 0 {
		keys = append(keys, keySpec{K: "gen", N: oversizedKeyLens[r.IntN(len(oversizedKeyLens))], S: r.Uint64(), A: r.IntN(2) == 0})
	}
	if r.IntN(40) == 0 {
		keys = append(keys, keySpec{K: "lit", I: litEmpty})
	}
	pickKey := func() keySpec {
		if r.IntN(12) == 0 {
			k := keySpec{K: "gen", N: 1 + r.IntN(40), S: r.Uint64(), A: r.IntN(3) != 0}
			keys = append(keys, k)
			return k
		}
		return keys[r.IntN(len(keys))]
	}
	bs := h.BlockSize
	pickPay := func(k keySpec) paySpec {
		p := paySpec{S: r.Uint64(), M: r.IntN(4)}
		if p.M == 3 && r.IntN(2) == 0 {
			p.M = 0
		}
		x := r.IntN(100)
		switch {
		case x < 8:
			p.N = 0
		case x < 16:
			p.N = 1
		case x < 62:
			p.N = 2 + r.IntN(200)
		case x < 74:
			p.N = 1024 + r.IntN(64*1024)
		case x < 89 && bs >= 64:
			kl := len(k.str())
			p.N = bs - 7 - kl + r.IntN(5) - 2
			if p.N < 0 {
				p.N = r.IntN(3)
			}
		case x < 93:
			p.N = 65535 + r.IntN(2)
		case x < 97:
			p.N = 1<<20 + r.IntN(3<<20+1)
		default:
			p.N = 2 + r.IntN(4000)
		}
		if p.N > 256<<10 {
			if bigBudget <= 0 {
				p.N = 100 + r.IntN(1000)
			} else {
				bigBudget--
			}
		}
		return p
	}
	entry := func() entrySpec {
		k := pickKey()
		x := r.IntN(100)
		if driver == "raw" {
			switch {
			case x < 22:
				return entrySpec{Op: "del", Key: k}
			case x < 60:
				return entrySpec{Op: "ins", Key: k, Pay: pickPay(k)}
			default:
				return entrySpec{Op: "upd", Key: k, Pay: pickPay(k)}
			}
		}
		if x < 25 {
			return entrySpec{Op: "del", Key: k, Sh: r.IntN(3) == 0}
		}
		return entrySpec{Op: "put", Key: k, Pay: pickPay(k)}
	}
	n := 5 + r.IntN(maxOps-4)
	if driver == "chron" && h.Compaction && r.IntN(2) == 0 {
		// enough small writes on few keys to arm the inline compaction (>= 100 entries in the file)
		n = maxInt(n, minInt(maxOps, 40+r.IntN(30)))
	}
	for len(h.Steps) < n {
		x := r.IntN(100)
		switch {
		case x < 46:
			h.Steps = append(h.Steps, step{Op: "put", E: []entrySpec{entry()}})
		case x < 62:
			var es []entrySpec
			for i, m := 0, 2+r.IntN(14); i < m; i++ {
				es = append(es, entry())
			}
			h.Steps = append(h.Steps, step{Op: "batch", E: es})
		case x < 72:
			h.Steps = append(h.Steps, step{Op: "flush"})
		case x < 82:
			h.Steps = append(h.Steps, step{Op: "sync"})
		case x < 92:
			s := step{Op: "reopen"}
			if r.IntN(5) == 0 {
				s.BS = blockSizes[r.IntN(len(blockSizes))]
			}
			if driver == "raw" && r.IntN(4) == 0 {
				s.Closed = true
				s.E = []entrySpec{entry()}
			}
			h.Steps = append(h.Steps, s)
		case x < 96:
			if driver == "chron" {
				h.Steps = append(h.Steps, step{Op: "close"})
			}
		default:
			if driver == "chron" {
				h.Steps = append(h.Steps, step{Op: "compact"})
			}
		}
	}
	return h
}

func minInt(a, b int) int {
	if a < b {
		return a
	}
	return b
}

// fixedCases are the boundary histories the property text and the design name explicitly.
// Their content does not depend on the seed.
func fixedCases() []history {
	pk := func(i int) keySpec { return keySpec{K: "pool", I: i} }
	lit := func(i int) keySpec { return keySpec{K: "lit", I: i} }
	gk := func(n int, s uint64, ascii bool) keySpec { return keySpec{K: "gen", N: n, S: s, A: ascii} }
	pay := func(n int, s uint64) paySpec { return paySpec{N: n, S: s} }
	var out []history
	for _, d := range []string{"raw", "chron"} {
		w, u := "ins", "upd"
		if d == "chron" {
			w, u = "put", "put"
		}
		put := func(k keySpec, p paySpec) step { return step{Op: "put", E: []entrySpec{{Op: w, Key: k, Pay: p}}} }
		upd := func(k keySpec, p paySpec) step { return step{Op: "put", E: []entrySpec{{Op: u, Key: k, Pay: p}}} }
		del := func(k keySpec) step { return step{Op: "put", E: []entrySpec{{Op: "del", Key: k}}} }
		ro := step{Op: "reopen"}
		sy := step{Op: "sync"}
		add := func(label string, bs int, steps ...step) {
			out = append(out, history{Driver: d, Label: label, BlockSize: bs, Threshold: 0.3, Steps: steps})
		}
		// largest key the 16-bit length field can hold: must round-trip
		add("key-65535", 16384, put(pk(0), pay(10, 1)), put(gk(65535, 11, true), pay(20, 2)), put(pk(1), pay(10, 3)), ro, upd(gk(65535, 11, true), pay(33, 4)), put(gk(65535, 12, false), pay(5, 5)))
		// one byte more: refused, or it round-trips
		add("key-65536-ascii", 16384, put(pk(0), pay(10, 1)), sy, put(gk(65536, 21, true), pay(20, 2)), put(pk(1), pay(10, 3)))
		add("key-65536-binary-own-block", 1, put(pk(0), pay(10, 1)), put(gk(65536, 22, false), pay(20, 2)), put(pk(1), pay(10, 3)))
		add("key-70000-binary", 4096, put(pk(0), pay(10, 1)), put(gk(70000, 23, false), pay(20, 2)), put(pk(1), pay(10, 3)))
		add("key-70000-ascii-then-delete", 16384, put(pk(0), pay(10, 1)), put(gk(70000, 24, true), pay(20, 2)), ro, del(gk(70000, 24, true)), put(pk(1), pay(10, 3)))
		add("key-empty", 16384, put(pk(0), pay(10, 1)), put(lit(litEmpty), pay(20, 2)), put(pk(1), pay(10, 3)))
		// reserved-looking keys are ordinary keys
		add("reserved-looking-keys", 16384, put(lit(7), pay(30, 1)), put(lit(8), pay(31, 2)), put(pk(0), pay(5, 3)), ro, upd(lit(7), pay(40, 4)), del(lit(8)), ro, put(lit(8), pay(0, 0)), upd(lit(8), pay(7, 5)))
		// binary keys
		add("binary-keys", 64, put(lit(0), pay(3, 1)), put(lit(1), pay(4, 2)), put(lit(2), pay(5, 3)), put(lit(5), pay(6, 4)), put(lit(6), pay(7, 5)), put(lit(15), pay(8, 6)), put(pk(0), pay(9, 7)), sy, del(lit(0)), upd(lit(5), pay(60, 8)), ro, put(lit(17), pay(1, 9)), put(lit(14), pay(1, 10)), put(lit(13), pay(1, 11)))
		// payload sizes around the block size (entry = 7 + len(key) + len(payload))
		for _, bs := range []int{64, 4096} {
			var st []step
			for i, dlt := range []int{-2, -1, 0, 1, 2} {
				st = append(st, put(pk(i), pay(bs-7-2+dlt, uint64(100+i))))
			}
			st = append(st, put(pk(5), pay(0, 0)), put(pk(6), pay(1, 7)), ro, upd(pk(0), pay(0, 0)), upd(pk(5), pay(bs, 8)))
			add(fmt.Sprintf("payload-around-block-%d", bs), bs, st...)
		}
		add("payload-4MiB-block-1", 1, put(pk(0), pay(4<<20, 1)), put(pk(1), pay(1, 2)), ro, upd(pk(0), pay(1<<20, 3)))
		add("payload-4MiB-block-1MiB", 1<<20, put(pk(0), pay(4<<20, 1)), put(pk(1), pay(1<<20-9, 2)), put(pk(2), pay(1<<20-10, 3)), sy, upd(pk(0), pay(1<<20+1, 4)))
		// sessions: delete / re-insert / delete absent / update without insert
		add("delete-reinsert-sessions", 16384, put(pk(0), pay(10, 1)), put(pk(1), pay(11, 2)), ro, del(pk(0)), del(pk(3)), ro, put(pk(0), pay(12, 3)), upd(pk(4), pay(13, 4)), ro, del(pk(1)), put(pk(1), pay(14, 5)), del(pk(4)))
		add("all-deleted-then-insert", 4096, put(pk(0), pay(10, 1)), put(pk(1), pay(11, 2)), del(pk(0)), del(pk(1)), ro, ro, put(pk(2), pay(12, 3)))
		var st []step
		for i := 0; i < 12; i++ {
			st = append(st, upd(pk(i%3), pay(20+i, uint64(i))), ro)
		}
		add("block-1-many-sessions", 1, st...)
	}
	return out
}

// floodCases cross the 16-bit per-block entry counter with tiny entries in one 1 MiB block.
func floodCases(thorough bool) []history {
	fl := func(label string, f floodSpec, more ...step) history {
		steps := append([]step{{Op: "flood", Flood: &f}}, more...)
		return history{Driver: "raw", Label: label, BlockSize: 1 << 20, Steps: steps}
	}
	pk := func(i int) keySpec { return keySpec{K: "pool", I: i} }
	tail := []step{{Op: "put", E: []entrySpec{{Op: "ins", Key: pk(0), Pay: paySpec{N: 10, S: 1}}}}}
	out := []history{
		fl("flood-65535-control", floodSpec{N: 65535, KeyLen: 3}),               // fits the counter exactly
		fl("flood-65536", floodSpec{N: 65536, KeyLen: 3}),                       // counter wraps to 0
		fl("flood-110000", floodSpec{N: 110000, KeyLen: 3}, tail...),            // block fills by size at 104858 entries
		fl("flood-70000-overwrites", floodSpec{N: 70000, KeyLen: 1, PayLen: 1}), // 128 keys overwritten: last writer wins
	}
	if thorough {
		out = append(out,
			fl("flood-65537", floodSpec{N: 65537, KeyLen: 3}),
			fl("flood-131072-exact", floodSpec{N: 131072, KeyLen: 1}, tail...), // 8-byte entries: exactly 131072 per MiB
			fl("flood-200000-batch", floodSpec{N: 200000, KeyLen: 4, Batch: true}, tail...),
			fl("flood-70000-payload1", floodSpec{N: 70000, KeyLen: 3, PayLen: 1}, step{Op: "sync"}, step{Op: "reopen"}),
			fl("flood-65536-then-sync", floodSpec{N: 65536, KeyLen: 3}, step{Op: "sync"}, tail[0], step{Op: "reopen"}, step{Op: "flood", Flood: &floodSpec{N: 66000, KeyLen: 3, PayLen: 2}}),
			fl("flood-300000-keylen2", floodSpec{N: 300000, KeyLen: 2}),
		)
	}
	return out
}

// ---------------------------------------------------------------------------

func caseKey(h history) string {
	b, _ := json.Marshal(h)
	s := sha256.Sum256(b)
	return hex.EncodeToString(s[:])
}

func TestCheck(t *testing.T) {
	c := rig.NewCheck(t, "C01", "exploration")
	defer c.Finish()
	c.Rule = "histories of insert/update/delete (single writes and batches) over a per-history key universe (pool keys, binary/reserved-looking literals, sized keys 1..65535, oversized keys 65536..70000, rarely the empty key) with payloads 0 B..4 MiB (incl. around the block size), block sizes {1,64,4096,16384,1MiB}, flush/sync/close+reopen boundaries; run on the raw v2 FileWriter/FileReader and on chroniclerV2 via the Chronicler interface (real treasures + beacon, fresh chronicler per reload, inline/self-heal/forced compaction armed or not); reference map replayed over accepted writes and compared at every read-back point. Non-trivial = some key was overwritten or deleted while present (last-writer-wins decides the result); distinct = distinct history JSON. Fixed boundary histories and tiny-entry floods (>65535 entries in one 1 MiB block, raw driver) are included in both tiers"
	c.Assumptions = []string{
		"chronicler driver: a treasure counts as accepted iff its key is reported through the registered file-pointer callback of that Write call (Chronicler.Write returns nothing); a treasure that is not acknowledged must have no effect",
		"chronicler driver: a 0-byte byte-array payload may load back as a treasure without byte-array content (gob zero values are C05's subject); only key presence is demanded for it",
		"a WriteEntries batch that returns an error makes every key of that batch don't-care for the rest of the history",
		"reading the file with a separate FileReader right after Flush() or Sync() of the still-open writer must show every accepted write (documented: Flush/Sync force the buffer to the file)",
		"Flush/Sync/Close returning an error on a fault-free disk counts as a violation (accepted writes would be lost)",
		"the entry-count flood is only driven through the raw writer: with gob-encoded treasures a 1 MiB block cannot hold 65536 entries",
		"not driven: V1 files, OpMetadata entries, operation codes other than insert/update/delete, payloads >= 4 GiB",
	}
	nRaw := c.N(150, 2500)
	nChron := c.N(150, 2500)
	maxOps := c.N(60, 400)
	bigBudget := c.N(2, 4)

	var cases []history
	cases = append(cases, fixedCases()...)
	cases = append(cases, floodCases(!c.Quick())...)
	for i := 0; i < nRaw+nChron; i++ {
		d := "raw"
		if i%2 == 1 {
			d = "chron"
		}
		cases = append(cases, genHistory(c.Rand(i), d, maxOps, bigBudget))
	}
	if p := c.ReplayPath(); p != "" {
		var w struct {
			Witness struct {
				History history `json:"history"`
			} `json:"witness"`
		}
		rig.ReadJSON(p, &w)
		cases = []history{w.Witness.History}
	}
	c.MinNontrivial = len(cases) / 3
	if c.ReplayPath() != "" {
		c.MinNontrivial = 0
	}

	root := rig.TempRoot("c01")
	defer rig.RemoveAll(root)
	// MiB-sized payloads are copied several times per read-back; keep the collector ahead of it
	defer debug.SetMemoryLimit(debug.SetMemoryLimit(3 << 30))

	outs := make([]*outcome, len(cases))
	t00 := time.Now()
	par := minInt(runtime.GOMAXPROCS(0), 16)
	var wg sync.WaitGroup
	next := make(chan int)
	for w := 0; w < par; w++ {
		wg.Add(1)
		go func() {
			defer wg.Done()
			for i := range next {
				t0 := time.Now()
				outs[i] = runHistory(cases[i], root, i)
				if d := time.Since(t0); d > 2*time.Second && os.Getenv("VERIF_C01_TIMING") != "" {
					fmt.Printf("SLOW case %d (%s %s bs=%d steps=%d): %v\n", i, cases[i].Driver, cases[i].Label, cases[i].BlockSize, len(cases[i].Steps), d)
				}
			}
		}()
	}
	for i := range cases {
		next <- i
		if i%500 == 499 && os.Getenv("VERIF_C01_TIMING") != "" {
			fmt.Printf("PROGRESS dispatched %d of %d cases after %v\n", i+1, len(cases), time.Since(t00))
		}
	}
	close(next)
	wg.Wait()

	for i, h := range cases {
		o := outs[i]
		c.Case(caseKey(h), o.nontrivial)
		c.Sample(h)
		for k, n := range o.counts {
			c.Count(k, n)
		}
		for set, m := range o.seen {
			for v := range m {
				c.Seen(set, v)
			}
		}
		c.Seen("drivers", h.Driver)
		if o.sig != "" {
			w := map[string]any{"history": h}
			for k, v := range o.witness {
				w[k] = v
			}
			c.Violate(o.sig, o.what, w)
		}
	}
}
