package c11

import (
	"fmt"
	"math/rand/v2"
	"sort"
	"time"

	"verifharness/rig"
)

// ---- schedule description (JSON-serialisable; this is what a replay file contains) ----------

// recSpec is one seeded record. Exp is an offset (ns) relative to the claim instant Tc.
type recSpec struct {
	Key   string `json:"k"`
	St    string `json:"st"`
	G     string `json:"g"`
	N     int64  `json:"n"`
	Exp   int64  `json:"exp,omitempty"`
	NoExp bool   `json:"noexp,omitempty"`
}

// leg is one leaf of a filter. F: st g n exp. Op: eq ne in gt lt.
type leg struct {
	F  string   `json:"f"`
	Op string   `json:"op"`
	S  string   `json:"s,omitempty"`
	SS []string `json:"ss,omitempty"`
	I  int64    `json:"i,omitempty"` // n: value; exp: offset relative to Tc
	II []int64  `json:"ii,omitempty"`
}

type filt struct {
	Or   bool  `json:"or,omitempty"`
	Legs []leg `json:"legs"`
}

// op is one request of the concurrent phase.
//
//	claimers: shx (ShiftExpiredTreasures) shm (ShiftMatchingTreasures) pex (PatchExpiredTreasures)
//	mutators: set patch del sbk (ShiftByKeys)
type op struct {
	Kind string `json:"kind"`
	Wave int    `json:"wave"`
	// claimers
	HowMany    int32  `json:"howmany,omitempty"`
	MaxResults int32  `json:"maxresults,omitempty"`
	Index      string `json:"index,omitempty"` // shm: exp key cre
	Desc       bool   `json:"desc,omitempty"`
	From       *int64 `json:"from,omitempty"` // shm on exp index: offsets relative to Tc
	To         *int64 `json:"to,omitempty"`
	F          *filt  `json:"f,omitempty"`
	NoSlide    bool   `json:"noslide,omitempty"` // pex: ops only, expiry untouched
	Cond       bool   `json:"cond,omitempty"`    // pex: PatchCondition st == "pending"
	Force      string `json:"force,omitempty"`   // pred | sel : this claimer is delayed 1 virtual ms at that hook; guard : this MUTATOR is parked 1 virtual ms holding its record's guard
	// mutators
	Keys []string `json:"keys,omitempty"`
	St   string   `json:"st,omitempty"`
	G    string   `json:"g,omitempty"`
	N    int64    `json:"n,omitempty"`
	Exp  *int64   `json:"exp,omitempty"` // set: expiry offset (nil = none); patch: PatchMeta.SetExpiredAt offset (nil = untouched)
	// Delay: virtual ns this mutator sleeps after the wave's gate opens and before it sends its
	// request. Shorter than hookDelay, it orders mutators one after the other INSIDE the window in
	// which a forced PatchExpired is parked between its selection and its patch + re-index
	// (delete, then re-create the same key: a multi-step sequence concurrent starts cannot pin).
	Delay int64 `json:"delay,omitempty"`
}

type sched struct {
	Recs        []recSpec `json:"recs"`
	Settle      bool      `json:"settle"`      // let the seeds reach the disk (3.3 virtual s) before the claims
	WarmBuckets bool      `json:"warmbuckets"` // build the st/g/n field buckets before the concurrent phase
	Ops         []op      `json:"ops"`
	Tag         string    `json:"tag,omitempty"`
}

func (o *op) claimer() bool { return o.Kind == "shx" || o.Kind == "shm" || o.Kind == "pex" }

const (
	settleDur = 3300 * time.Millisecond
	waveGap   = 10 * time.Millisecond
	hookDelay = time.Millisecond
)

var (
	statuses = []string{"pending", "pending", "run", "done"}
	groups   = []string{"a", "b", "c"}
	// expiry offsets around the claim instant; the three boundary values are kept exact
	expOffs = []int64{-int64(time.Hour), -int64(time.Minute), -int64(time.Second), -int64(time.Millisecond), -int64(time.Second), -int64(time.Minute),
		-1, 0, 1, int64(time.Millisecond), int64(time.Second), int64(time.Hour)}
)

func p64(v int64) *int64 { return &v }

func pickExp(r *rand.Rand, i int) int64 {
	o := expOffs[r.IntN(len(expOffs))]
	if o < -1 || o > 1 {
		o += int64(i+1) * 1000 // distinct positions in the expiry index
	}
	return o
}

func genLeg(r *rand.Rand, indexable bool) leg {
	for {
		switch x := r.IntN(100); {
		case x < 30:
			return leg{F: "st", Op: "eq", S: statuses[r.IntN(len(statuses))]}
		case x < 42:
			return leg{F: "st", Op: "in", SS: []string{"pending", []string{"run", "done"}[r.IntN(2)]}}
		case x < 52:
			return leg{F: "g", Op: "eq", S: groups[r.IntN(len(groups))]}
		case x < 58:
			return leg{F: "g", Op: "in", SS: []string{"a", []string{"b", "c"}[r.IntN(2)]}}
		case x < 66:
			return leg{F: "n", Op: "eq", I: int64(r.IntN(4))}
		case x < 70:
			return leg{F: "n", Op: "in", II: []int64{int64(r.IntN(3)), 3 + int64(r.IntN(3))}}
		}
		if indexable {
			continue
		}
		switch x := r.IntN(100); {
		case x < 30:
			return leg{F: "st", Op: "ne", S: []string{"done", "run"}[r.IntN(2)]}
		case x < 55:
			return leg{F: "n", Op: "gt", I: int64(r.IntN(3))}
		case x < 75:
			return leg{F: "n", Op: "lt", I: 2 + int64(r.IntN(4))}
		default:
			return leg{F: "exp", Op: "lt", I: []int64{0, 1, -int64(time.Second), int64(time.Second)}[r.IntN(4)]}
		}
	}
}

func genFilter(r *rand.Rand, wantIndexable bool) *filt {
	f := &filt{}
	n := 1 + r.IntN(3)
	if r.IntN(5) == 0 {
		f.Or = true
	}
	for i := 0; i < n; i++ {
		f.Legs = append(f.Legs, genLeg(r, (wantIndexable && i == 0) || (f.Or && wantIndexable)))
	}
	if !f.Or {
		// a residual leg first now and then: the planner takes the first indexable one wherever it is
		if len(f.Legs) > 1 && r.IntN(3) == 0 {
			f.Legs[0], f.Legs[len(f.Legs)-1] = f.Legs[len(f.Legs)-1], f.Legs[0]
		}
	}
	return f
}

func genClaimer(r *rand.Rand, kind string) op {
	o := op{Kind: kind, HowMany: []int32{0, 0, 1, 2, 3}[r.IntN(5)]}
	switch kind {
	case "shm":
		o.MaxResults = []int32{0, 0, 0, 1, 2}[r.IntN(5)]
		o.Index = []string{"exp", "exp", "key", "cre"}[r.IntN(4)]
		o.Desc = r.IntN(3) == 0
		if o.Index == "exp" && r.IntN(2) == 0 {
			switch r.IntN(4) {
			case 0:
				o.To = p64([]int64{0, 1, int64(2 * time.Second)}[r.IntN(3)])
			case 1:
				o.From = p64([]int64{-int64(2 * time.Second), -int64(time.Second) - 5000, 0}[r.IntN(3)])
			default:
				o.From = p64([]int64{-int64(2 * time.Hour), -int64(2 * time.Second), -1}[r.IntN(3)])
				o.To = p64([]int64{0, 1, int64(2 * time.Second)}[r.IntN(3)])
			}
		}
		if o.Index != "exp" || r.IntN(100) < 75 {
			o.F = genFilter(r, r.IntN(100) < 70)
		}
	case "pex":
		if r.IntN(2) == 0 {
			o.F = genFilter(r, r.IntN(100) < 70)
		}
		o.NoSlide = r.IntN(7) == 0
		o.Cond = r.IntN(5) == 0
	}
	return o
}

// matchesInitially evaluates the claimer's criteria on the seeded state with the harness' own
// evaluator (used by the generator only to aim mutators at interesting keys).
func matchesInitially(o *op, rc recSpec) bool {
	b := body{St: rc.St, G: rc.G, N: rc.N}
	exp := int64(0)
	if !rc.NoExp {
		exp = 1 << 40 // placeholder base so that 0 stays "none"; offsets are compared relative to it
		exp += rc.Exp
	}
	return criteriaHold(o, &b, exp, 1<<40, 1<<40)
}

func gen(c *rig.Check, idx int) sched {
	r := c.Rand(idx)
	var s sched
	n := 6 + r.IntN(9)
	for i := 0; i < n; i++ {
		rc := recSpec{Key: fmt.Sprintf("k%02d", i), St: statuses[r.IntN(len(statuses))], G: groups[r.IntN(len(groups))], N: int64(r.IntN(6))}
		if r.IntN(12) == 0 {
			rc.NoExp = true
		} else {
			rc.Exp = pickExp(r, i)
		}
		s.Recs = append(s.Recs, rc)
	}
	s.Settle = r.IntN(2) == 0
	s.WarmBuckets = r.IntN(2) == 0
	waves := 1
	if r.IntN(3) == 0 {
		waves = 2
	}
	forced := ""
	switch x := r.IntN(100); {
	case x < 20:
		forced = "pred"
	case x < 40:
		forced = "sel"
	case x < 62:
		forced = "guard"
	}
	s.Tag = "stress"
	if forced != "" {
		s.Tag = "forced-" + forced
	}
	newKeys := 0
	for w := 0; w < waves; w++ {
		var claimers []op
		nc := 2 + r.IntN(4)
		for i := 0; i < nc; i++ {
			claimers = append(claimers, genClaimer(r, []string{"shx", "shm", "shm", "pex", "pex"}[r.IntN(5)]))
		}
		var aim []string // keys the forced claimer would take from the seeded state
		var guardMuts []op
		if forced == "guard" && w == 0 {
			// One Shift claimer alone (a second claimer would queue on the swamp's claim mutex behind
			// the waiting one, which is not a durable block) that walks an ascending index, and a
			// mutator of the FIRST member X of that index that is parked holding X's guard when the
			// walk arrives. While the claim waits (index lock released) the other mutators run to
			// completion, among them a Delete / ShiftByKeys of a record the claim would take.
			cl := genClaimer(r, []string{"shx", "shm", "shm"}[r.IntN(3)])
			cl.Desc = false
			x := 0
			if cl.Kind == "shm" && cl.Index != "exp" {
				cl.Index = "key"
				if cl.F == nil {
					cl.F = genFilter(r, r.IntN(2) == 0)
				}
			} else {
				x = r.IntN(len(s.Recs))
				s.Recs[x].NoExp, s.Recs[x].Exp = false, -2*int64(time.Hour)-int64(time.Second)
			}
			claimers = []op{cl}
			xk := s.Recs[x].Key
			h := op{Keys: []string{xk}, Force: "guard"}
			switch y := r.IntN(100); {
			case y < 35:
				h.Kind = "del"
			case y < 55:
				h.Kind = "sbk"
			case y < 80:
				h.Kind = "set"
				h.St, h.G, h.N = statuses[r.IntN(len(statuses))], groups[r.IntN(len(groups))], int64(r.IntN(6))
				h.Exp = p64(pickExp(r, 60))
			default:
				h.Kind = "patch"
				h.St = statuses[r.IntN(len(statuses))]
				if r.IntN(2) == 0 {
					h.Exp = p64(pickExp(r, 61))
				}
			}
			if claimers[0].Index != "key" && (h.Kind == "set" || h.Exp != nil) && r.IntN(4) != 0 {
				// on the expiry index a holder that rewrites X's expiry does not pin X to the head of
				// the index (see the oracle); mostly use one that does
				h = op{Keys: []string{xk}, Force: "guard", Kind: []string{"del", "sbk", "patch"}[r.IntN(3)], St: "run"}
			}
			guardMuts = append(guardMuts, h)
			for _, rc := range s.Recs {
				if rc.Key != xk && matchesInitially(&claimers[0], rc) {
					aim = append(aim, rc.Key)
				}
			}
			for n := 1 + r.IntN(2); n > 0 && len(aim) > 0; n-- {
				guardMuts = append(guardMuts, op{Kind: []string{"del", "del", "sbk"}[r.IntN(3)], Keys: []string{aim[r.IntN(len(aim))]}})
			}
		}
		if (forced == "pred" || forced == "sel") && w == 0 {
			fc := &claimers[0]
			if forced == "pred" {
				// the predicate hooks only matter for a request with an indexable leg
				*fc = genClaimer(r, []string{"shm", "pex"}[r.IntN(2)])
				fc.F = genFilter(r, true)
				fc.F.Or = false
				fc.F.Legs[0] = genLeg(r, true)
			}
			fc.Force = forced
			for _, rc := range s.Recs {
				if matchesInitially(fc, rc) {
					aim = append(aim, rc.Key)
				}
			}
		}
		nm := r.IntN(5)
		if forced != "" && w == 0 && nm == 0 {
			nm = 1 + r.IntN(2)
		}
		muts := guardMuts
		if forced == "sel" && w == 0 && claimers[0].Kind == "pex" && len(aim) > 0 && r.IntN(2) == 0 {
			// a record the parked PatchExpired has selected is deleted and its key re-created (a new
			// record object, expired or not) before the patch + re-index continue
			k := aim[r.IntN(len(aim))]
			re := op{Kind: "set", Keys: []string{k}, St: statuses[r.IntN(len(statuses))], G: groups[r.IntN(len(groups))], N: int64(r.IntN(6)), Delay: int64(hookDelay) * 3 / 10}
			if r.IntN(3) != 0 {
				re.Exp = p64(pickExp(r, 60))
			}
			muts = append(muts, op{Kind: "del", Keys: []string{k}}, re)
			s.Tag += "+recreate"
		}
		pickKey := func() string {
			if len(aim) > 0 && r.IntN(100) < 70 {
				return aim[r.IntN(len(aim))]
			}
			return s.Recs[r.IntN(len(s.Recs))].Key
		}
		for i := 0; i < nm; i++ {
			m := op{}
			switch x := r.IntN(100); {
			case x < 25:
				m.Kind = "set"
				if r.IntN(5) == 0 {
					newKeys++
					m.Keys = []string{fmt.Sprintf("n%02d", newKeys)}
				} else {
					m.Keys = []string{pickKey()}
				}
				m.St, m.G, m.N = statuses[r.IntN(len(statuses))], groups[r.IntN(len(groups))], int64(r.IntN(6))
				if r.IntN(10) != 0 {
					m.Exp = p64(pickExp(r, 20+len(muts)))
				}
			case x < 60:
				m.Kind = "patch"
				m.Keys = []string{pickKey()}
				if r.IntN(3) == 0 {
					if k2 := pickKey(); k2 != m.Keys[0] {
						m.Keys = append(m.Keys, k2)
					}
				}
				m.St = statuses[r.IntN(len(statuses))]
				if r.IntN(3) == 0 {
					m.G = groups[r.IntN(len(groups))]
				}
				if r.IntN(100) < 35 {
					m.Exp = p64(pickExp(r, 40+len(muts)))
				}
			case x < 82:
				m.Kind = "del"
				m.Keys = []string{pickKey()}
				if r.IntN(3) == 0 {
					if k2 := pickKey(); k2 != m.Keys[0] {
						m.Keys = append(m.Keys, k2)
					}
				}
			default:
				m.Kind = "sbk"
				m.Keys = []string{pickKey()}
			}
			muts = append(muts, m)
		}
		all := append(claimers, muts...)
		r.Shuffle(len(all), func(i, j int) { all[i], all[j] = all[j], all[i] })
		for i := range all {
			all[i].Wave = w
		}
		s.Ops = append(s.Ops, all...)
	}
	return s
}

// fixedCases are the interleavings the property text and the design name explicitly.
func fixedCases() []sched {
	sec := int64(time.Second)
	recs := func() []recSpec {
		var out []recSpec
		for i := 0; i < 8; i++ {
			out = append(out, recSpec{Key: fmt.Sprintf("k%02d", i), St: "pending", G: groups[i%3], N: int64(i % 4), Exp: -int64(time.Minute) + int64(i)*1000})
		}
		out[6].Exp = int64(time.Hour)
		out[7].St = "done"
		return out
	}
	pend := &filt{Legs: []leg{{F: "st", Op: "eq", S: "pending"}, {F: "n", Op: "lt", I: 9}}}
	var out []sched
	for _, settle := range []bool{false, true} {
		// an indexed leg goes stale between predicate construction and selection (patch / set flips it)
		out = append(out, sched{Recs: recs(), Settle: settle, WarmBuckets: true, Tag: "fixed-pred-shm-patch", Ops: []op{
			{Kind: "shm", Index: "key", F: pend, Force: "pred"},
			{Kind: "patch", Keys: []string{"k01", "k02"}, St: "done"},
			{Kind: "set", Keys: []string{"k03"}, St: "run", G: "a", N: 1, Exp: p64(-sec)},
		}})
		out = append(out, sched{Recs: recs(), Settle: settle, WarmBuckets: true, Tag: "fixed-pred-pex-patch", Ops: []op{
			{Kind: "pex", F: pend, Force: "pred"},
			{Kind: "patch", Keys: []string{"k01"}, St: "done"},
			{Kind: "del", Keys: []string{"k02"}},
		}})
		// a record is deleted / popped between PatchExpired's selection and its patch + re-index
		out = append(out, sched{Recs: recs(), Settle: settle, Tag: "fixed-sel-pex-del", Ops: []op{
			{Kind: "pex", HowMany: 3, Force: "sel"},
			{Kind: "del", Keys: []string{"k00"}},
			{Kind: "sbk", Keys: []string{"k01"}},
			{Kind: "shm", Index: "key", HowMany: 1, F: &filt{Legs: []leg{{F: "n", Op: "eq", I: 2}}}},
		}})
		// a selected record is deleted and its key re-created (new record object: unexpired /
		// expired again) between PatchExpired's selection and its patch + re-index; the closing
		// sweep must not hand out the deleted version, nor remove the live unexpired one
		for vi, exp := range []int64{int64(time.Hour), -sec} {
			out = append(out, sched{Recs: recs(), Settle: settle, Tag: fmt.Sprintf("fixed-sel-pex-recreate-%d", vi), Ops: []op{
				{Kind: "pex", HowMany: 3, Force: "sel"},
				{Kind: "del", Keys: []string{"k00"}},
				{Kind: "set", Keys: []string{"k00"}, St: "run", G: "b", N: 5, Exp: p64(exp), Delay: int64(hookDelay) * 3 / 10},
				{Kind: "del", Keys: []string{"k01"}},
				{Kind: "set", Keys: []string{"k01"}, St: "pending", G: "a", N: 1, Exp: p64(exp), Delay: int64(hookDelay) * 6 / 10},
			}})
		}
		// a record is overwritten / patched between a shift's selection and its removal
		out = append(out, sched{Recs: recs(), Settle: settle, Tag: "fixed-sel-shx-set", Ops: []op{
			{Kind: "shx", HowMany: 3, Force: "sel"},
			{Kind: "set", Keys: []string{"k00"}, St: "run", G: "b", N: 5, Exp: p64(-sec)},
			{Kind: "patch", Keys: []string{"k01"}, St: "run"},
			{Kind: "pex", HowMany: 0},
		}})
		// a mutator holds the guard of the first record of the walked index when the claim arrives;
		// while the claim waits, other records it would take are deleted / popped
		out = append(out, sched{Recs: recs(), Settle: settle, Tag: "fixed-guard-del", Ops: []op{
			{Kind: "shx", HowMany: 4},
			{Kind: "del", Keys: []string{"k00"}, Force: "guard"},
			{Kind: "del", Keys: []string{"k01"}},
			{Kind: "sbk", Keys: []string{"k02"}},
		}})
		out = append(out, sched{Recs: recs(), Settle: settle, WarmBuckets: true, Tag: "fixed-guard-set", Ops: []op{
			{Kind: "shm", Index: "key", F: pend},
			{Kind: "set", Keys: []string{"k00"}, St: "run", G: "a", N: 1, Exp: p64(-sec), Force: "guard"},
			{Kind: "del", Keys: []string{"k01", "k03"}},
			{Kind: "patch", Keys: []string{"k02"}, St: "done"},
		}})
		// plain competition of all three claimers, then a later wave
		out = append(out, sched{Recs: recs(), Settle: settle, Tag: "fixed-compete", Ops: []op{
			{Kind: "shx", HowMany: 2}, {Kind: "shx", HowMany: 0}, {Kind: "pex", HowMany: 2}, {Kind: "pex", HowMany: 0},
			{Kind: "shm", Index: "exp", To: p64(0), HowMany: 3}, {Kind: "shm", Index: "key", Desc: true, F: pend, MaxResults: 2},
			{Kind: "del", Keys: []string{"k04"}},
			{Kind: "shx", Wave: 1}, {Kind: "pex", Wave: 1}, {Kind: "shm", Wave: 1, Index: "cre", F: pend},
		}})
	}
	return out
}

func sortedKeys[V any](m map[string]V) []string {
	var ks []string
	for k := range m {
		ks = append(ks, k)
	}
	sort.Strings(ks)
	return ks
}
