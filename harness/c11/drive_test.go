package c11

import (
	"bytes"
	"context"
	"fmt"
	"runtime"
	"sort"
	"strconv"
	"strings"
	"sync"
	"sync/atomic"
	"testing"
	"testing/synctest"
	"time"

	"github.com/hydraide/hydraide/app/verifhook"
	hydrapb "github.com/hydraide/hydraide/sdk/go/hydraidego/v3/hydraidepbgo"
	"github.com/vmihailenco/msgpack/v5"
	"google.golang.org/protobuf/types/known/timestamppb"

	"verifharness/rig"
)

const swampName = "c11/q/main"

// ---- bodies --------------------------------------------------------------------------------

// body is the decoded msgpack body of a record. Every write stamps it: a Set writes a fresh Ver,
// a PatchTreasures writes Pv (and Ev when it also moves the expiry), a PatchExpired claim adds a
// "c<op>" key and increments Nc.
type body struct {
	Ver int64  `json:"ver"`
	Pv  int64  `json:"pv,omitempty"`
	Ev  int64  `json:"ev,omitempty"`
	St  string `json:"st"`
	G   string `json:"g"`
	N   int64  `json:"n"`
	Nc  int64  `json:"nc,omitempty"`
	Cs  []int  `json:"cs,omitempty"`
	Bad string `json:"bad,omitempty"`
}

func mp(v any) []byte {
	var buf bytes.Buffer
	enc := msgpack.NewEncoder(&buf)
	enc.SetSortMapKeys(true)
	if err := enc.Encode(v); err != nil {
		panic(err)
	}
	return buf.Bytes()
}

func encodeBody(ver int64, st, g string, n int64) []byte {
	return append([]byte{0xC7, 0x00}, mp(map[string]any{"ver": ver, "pv": int64(0), "ev": int64(0), "st": st, "g": g, "n": n, "nc": int64(0)})...)
}

func toI64(v any) int64 {
	switch x := v.(type) {
	case int8:
		return int64(x)
	case int16:
		return int64(x)
	case int32:
		return int64(x)
	case int64:
		return x
	case int:
		return int64(x)
	case uint8:
		return int64(x)
	case uint16:
		return int64(x)
	case uint32:
		return int64(x)
	case uint64:
		return int64(x)
	}
	return -999
}

// decodeBody accepts the body with or without the 0xC7 0x00 prefix.
func decodeBody(b []byte) body {
	if len(b) >= 2 && b[0] == 0xC7 && b[1] == 0x00 {
		b = b[2:]
	}
	var m map[string]any
	if err := msgpack.Unmarshal(b, &m); err != nil || m == nil {
		return body{Bad: fmt.Sprintf("undecodable body %x", b)}
	}
	out := body{Ver: toI64(m["ver"]), Pv: toI64(m["pv"]), Ev: toI64(m["ev"]), N: toI64(m["n"]), Nc: toI64(m["nc"])}
	out.St, _ = m["st"].(string)
	out.G, _ = m["g"].(string)
	for k := range m {
		if len(k) > 1 && k[0] == 'c' {
			if i, err := strconv.Atoi(k[1:]); err == nil {
				out.Cs = append(out.Cs, i)
			}
		}
	}
	sort.Ints(out.Cs)
	return out
}

func (b *body) hasStamp(opIdx int) bool {
	for _, c := range b.Cs {
		if c == opIdx {
			return true
		}
	}
	return false
}

// ---- recorded log --------------------------------------------------------------------------

type claimed struct {
	Key    string `json:"key"`
	B      body   `json:"b"`
	Exp    int64  `json:"exp"` // returned ExpiredAt, ns, 0 = none
	Cre    int64  `json:"cre"`
	Status string `json:"status,omitempty"` // pex only
}

// event is what the harness observed of one request, at the client boundary. Start/End are
// logical instants of one shared counter (taken before the handler is invoked / after it
// returned); Sel/SelDone bracket the selection step when the hooks are compiled in.
type event struct {
	Op       int               `json:"op"`
	Kind     string            `json:"kind"`
	Start    int64             `json:"start"`
	End      int64             `json:"end"`
	Sel      int64             `json:"sel"`
	SelDone  int64             `json:"seldone"`
	NowStart int64             `json:"now0"`
	NowEnd   int64             `json:"now1"`
	Err      string            `json:"err,omitempty"`
	Claims   []claimed         `json:"claims,omitempty"`
	Statuses map[string]string `json:"statuses,omitempty"`
	Done     bool              `json:"done"`
	HookPred bool              `json:"hookpred,omitempty"`
	HookSel  bool              `json:"hooksel,omitempty"`
	// a mutator parked under its record guard (Force "guard"): logical instants at which it reached
	// the hook holding the guard, and at which it went on
	GuardAt     int64 `json:"guardat,omitempty"`
	GuardResume int64 `json:"guardresume,omitempty"`
}

type snapshot map[string]claimed

type runLog struct {
	Tc     int64    `json:"tc"`
	Events []*event `json:"events"`
	Mid    snapshot `json:"mid"`   // GetAll after the concurrent phase
	Sweep  *event   `json:"sweep"` // second ShiftExpired sweep
	Final  snapshot `json:"final"` // GetAll after the sweep
	Incon  string   `json:"incon,omitempty"`
	Panics []string `json:"panics,omitempty"`
	Order  string   `json:"order"` // completion order of the requests (interleaving fingerprint)
}

// ---- driver --------------------------------------------------------------------------------

type opRun struct {
	ev     *event
	force  string
	atHook func() // tells the driver that the delayed request has reached its hook
	parked bool   // guard: only the first hit of the request is delayed
}

var (
	mutatorsLeft atomic.Int64 // mutators of the current wave that have not returned yet
	seq          atomic.Int64
	byGID        sync.Map // goroutine id -> *opRun
	hookSet      sync.Once
)

func gid() int64 {
	var buf [64]byte
	n := runtime.Stack(buf[:], false)
	f := strings.Fields(string(buf[:n]))
	if len(f) < 2 {
		return -1
	}
	id, _ := strconv.ParseInt(f[1], 10, 64)
	return id
}

func installHooks() {
	pred := func(...any) {
		v, ok := byGID.Load(gid())
		if !ok {
			return
		}
		r := v.(*opRun)
		if r.force == "pred" {
			r.atHook()
			time.Sleep(hookDelay)
		}
		r.ev.Sel = seq.Add(1)
		r.ev.HookPred = true
	}
	sel := func(shift bool) func(...any) {
		return func(...any) {
			v, ok := byGID.Load(gid())
			if !ok {
				return
			}
			r := v.(*opRun)
			r.ev.SelDone = seq.Add(1)
			r.ev.HookSel = true
			if r.force != "sel" {
				return
			}
			r.atHook()
			if !shift {
				time.Sleep(hookDelay)
				return
			}
			// Between a shift's selection and its removal the engine may hold a lock (a repaired tree
			// does): sleeping here would park a lock holder, the requests queued behind it are then not
			// durably blocked and virtual time could never advance. Instead yield until every mutator
			// of the wave has returned (they do not depend on this request), with a spin budget as a
			// stop. This only shapes the schedule; nothing is decided by it.
			for spin := 0; spin < 3_000_000 && mutatorsLeft.Load() > 0; spin++ {
				runtime.Gosched()
			}
		}
	}
	// A mutator parked while it HOLDS its record's guard (a guard is a condition variable: whoever
	// waits for it is durably blocked, so virtual time can advance). A claim that reaches the record
	// meanwhile finds the guard busy and has to wait with the index lock released.
	underGuard := func(...any) {
		v, ok := byGID.Load(gid())
		if !ok {
			return
		}
		r := v.(*opRun)
		if r.force != "guard" || r.parked {
			return
		}
		r.parked = true
		r.ev.GuardAt = seq.Add(1)
		r.atHook()
		time.Sleep(hookDelay)
		r.ev.GuardResume = seq.Add(1)
	}
	verifhook.Set("swamp.delete.underGuard", underGuard)
	verifhook.Set("swamp.save.underGuard", underGuard)
	verifhook.Set("gw.shiftMatching.afterPredicate", pred)
	verifhook.Set("gw.patchExpired.afterPredicate", pred)
	verifhook.Set("swamp.patchExpired.afterSelect", sel(false))
	verifhook.Set("swamp.shift.afterSelect", sel(true))
}

func ts(v int64) *timestamppb.Timestamp { return timestamppb.New(time.Unix(0, v).UTC()) }

func tsNanos(t *timestamppb.Timestamp) int64 {
	if t == nil {
		return 0
	}
	return t.AsTime().UnixNano()
}

func pbLeg(l leg, tc int64) *hydrapb.TreasureFilter {
	f := &hydrapb.TreasureFilter{}
	path := l.F
	switch l.F {
	case "exp":
		f.Operator = hydrapb.Relational_LESS_THAN
		f.CompareValue = &hydrapb.TreasureFilter_ExpiredAtVal{ExpiredAtVal: ts(tc + l.I)}
		return f
	case "st", "g":
		f.BytesFieldPath = &path
		switch l.Op {
		case "eq":
			f.Operator = hydrapb.Relational_EQUAL
			f.CompareValue = &hydrapb.TreasureFilter_StringVal{StringVal: l.S}
		case "ne":
			f.Operator = hydrapb.Relational_NOT_EQUAL
			f.CompareValue = &hydrapb.TreasureFilter_StringVal{StringVal: l.S}
		case "in":
			f.Operator = hydrapb.Relational_STRING_IN
			f.StringInVals = l.SS
		}
	case "n":
		f.BytesFieldPath = &path
		switch l.Op {
		case "eq":
			f.Operator = hydrapb.Relational_EQUAL
			f.CompareValue = &hydrapb.TreasureFilter_Int64Val{Int64Val: l.I}
		case "gt":
			f.Operator = hydrapb.Relational_GREATER_THAN
			f.CompareValue = &hydrapb.TreasureFilter_Int64Val{Int64Val: l.I}
		case "lt":
			f.Operator = hydrapb.Relational_LESS_THAN
			f.CompareValue = &hydrapb.TreasureFilter_Int64Val{Int64Val: l.I}
		case "in":
			f.Operator = hydrapb.Relational_INT64_IN
			f.Int64InVals = l.II
		}
	}
	return f
}

func pbFilter(f *filt, tc int64) *hydrapb.FilterGroup {
	if f == nil {
		return nil
	}
	g := &hydrapb.FilterGroup{Logic: hydrapb.FilterLogic_AND}
	if f.Or {
		g.Logic = hydrapb.FilterLogic_OR
	}
	for _, l := range f.Legs {
		g.Filters = append(g.Filters, pbLeg(l, tc))
	}
	return g
}

func treasureClaim(t *hydrapb.Treasure) claimed {
	return claimed{Key: t.GetKey(), B: decodeBody(t.GetBytesVal()), Exp: tsNanos(t.ExpiredAt), Cre: tsNanos(t.CreatedAt)}
}

type driver struct {
	r      *rig.Rig
	ctx    context.Context
	island uint64
	tc     int64
	s      *sched
}

// token is the unique stamp of the j-th value written by op i (seeds use 1..n).
func token(opIdx, j int) int64 { return int64(1000*(opIdx+1) + j) }

func slideTarget(tc int64, opIdx int) int64 {
	return tc + int64(time.Hour) + int64(opIdx+1)*int64(time.Second)
}

func (d *driver) setReq(kvs []*hydrapb.KeyValuePair) (*hydrapb.SetResponse, error) {
	return d.r.GW.Set(d.ctx, &hydrapb.SetRequest{Swamps: []*hydrapb.SwampRequest{{IslandID: d.island, SwampName: swampName, CreateIfNotExist: true, Overwrite: true, KeyValues: kvs}}})
}

func (d *driver) exec(i int, o *op, ev *event) {
	gw := d.r.GW
	switch o.Kind {
	case "shx":
		resp, err := gw.ShiftExpiredTreasures(d.ctx, &hydrapb.ShiftExpiredTreasuresRequest{IslandID: d.island, SwampName: swampName, HowMany: o.HowMany})
		if err != nil || resp == nil {
			ev.Err = fmt.Sprintf("error %v / nil response", err)
			return
		}
		for _, t := range resp.GetTreasures() {
			ev.Claims = append(ev.Claims, treasureClaim(t))
		}
	case "shm":
		req := &hydrapb.ShiftMatchingTreasuresRequest{IslandID: d.island, SwampName: swampName, HowMany: o.HowMany, MaxResults: o.MaxResults, Filters: pbFilter(o.F, d.tc)}
		switch o.Index {
		case "exp":
			req.IndexType = hydrapb.IndexType_EXPIRATION_TIME
		case "key":
			req.IndexType = hydrapb.IndexType_KEY
		case "cre":
			req.IndexType = hydrapb.IndexType_CREATION_TIME
		}
		req.OrderType = hydrapb.OrderType_ASC
		if o.Desc {
			req.OrderType = hydrapb.OrderType_DESC
		}
		if o.From != nil {
			req.FromTime = ts(d.tc + *o.From)
		}
		if o.To != nil {
			req.ToTime = ts(d.tc + *o.To)
		}
		resp, err := gw.ShiftMatchingTreasures(d.ctx, req)
		if err != nil || resp == nil {
			ev.Err = fmt.Sprintf("error %v / nil response", err)
			return
		}
		for _, t := range resp.GetTreasures() {
			ev.Claims = append(ev.Claims, treasureClaim(t))
		}
	case "pex":
		one := int64(1)
		req := &hydrapb.PatchExpiredTreasuresRequest{IslandID: d.island, SwampName: swampName, HowMany: o.HowMany, Filters: pbFilter(o.F, d.tc),
			Ops: []*hydrapb.PatchOp{{Op: hydrapb.PatchOp_SET, Path: fmt.Sprintf("c%d", i), Value: mp(one)}, {Op: hydrapb.PatchOp_INC, Path: "nc", Value: mp(one)}}}
		if !o.NoSlide {
			req.Meta = &hydrapb.PatchMeta{SetExpiredAt: ts(slideTarget(d.tc, i))}
		}
		if o.Cond {
			req.Condition = &hydrapb.PatchCondition{Path: "st", Operator: hydrapb.PatchCondition_EQUAL, Threshold: mp("pending")}
		}
		resp, err := gw.PatchExpiredTreasures(d.ctx, req)
		if err != nil || resp == nil {
			ev.Err = fmt.Sprintf("error %v / nil response", err)
			return
		}
		for _, p := range resp.GetPatched() {
			cl := claimed{Key: p.GetKey(), Exp: tsNanos(p.ExpiredAt), Status: p.GetStatus().String()}
			if p.GetStatus() == hydrapb.PatchResult_PATCHED {
				cl.B = decodeBody(p.GetNewMsgpack())
			}
			ev.Claims = append(ev.Claims, cl)
		}
	case "set":
		kv := &hydrapb.KeyValuePair{Key: o.Keys[0], BytesVal: encodeBody(token(i, 0), o.St, o.G, o.N), CreatedAt: ts(d.tc - int64(30*time.Minute) + token(i, 0)*1000)}
		if o.Exp != nil {
			kv.ExpiredAt = ts(d.tc + *o.Exp)
		} else {
			// an explicit far-future expiry instead of "unset": what Set does to the old expiry when
			// the field is absent is unspecified (C30)
			kv.ExpiredAt = ts(d.tc + int64(1000*time.Hour) + token(i, 0))
		}
		resp, err := d.setReq([]*hydrapb.KeyValuePair{kv})
		if err != nil || resp == nil || len(resp.GetSwamps()) != 1 {
			ev.Err = fmt.Sprintf("error %v / malformed response", err)
			return
		}
		ev.Statuses = map[string]string{}
		for _, ks := range resp.GetSwamps()[0].GetKeysAndStatuses() {
			ev.Statuses[ks.GetKey()] = ks.GetStatus().String()
		}
		if len(ev.Statuses) != 1 {
			ev.Err = "Set answered without a key status"
		}
	case "patch":
		req := &hydrapb.PatchTreasuresRequest{IslandID: d.island, SwampName: swampName}
		for j, k := range o.Keys {
			ops := []*hydrapb.PatchOp{{Op: hydrapb.PatchOp_SET, Path: "pv", Value: mp(token(i, j))}, {Op: hydrapb.PatchOp_SET, Path: "st", Value: mp(o.St)}}
			if o.G != "" {
				ops = append(ops, &hydrapb.PatchOp{Op: hydrapb.PatchOp_SET, Path: "g", Value: mp(o.G)})
			}
			if o.Exp != nil {
				ops = append(ops, &hydrapb.PatchOp{Op: hydrapb.PatchOp_SET, Path: "ev", Value: mp(token(i, j))})
			}
			req.Patches = append(req.Patches, &hydrapb.TreasurePatch{Key: k, Ops: ops})
		}
		if o.Exp != nil {
			req.Meta = &hydrapb.PatchMeta{SetExpiredAt: ts(d.tc + *o.Exp)}
		}
		resp, err := gw.PatchTreasures(d.ctx, req)
		if err != nil || resp == nil || len(resp.GetResults()) != len(o.Keys) {
			ev.Err = fmt.Sprintf("error %v / malformed response", err)
			return
		}
		ev.Statuses = map[string]string{}
		for _, res := range resp.GetResults() {
			ev.Statuses[res.GetKey()] = res.GetStatus().String()
		}
	case "del":
		resp, err := gw.Delete(d.ctx, &hydrapb.DeleteRequest{Swamps: []*hydrapb.DeleteRequest_SwampKeys{{IslandID: d.island, SwampName: swampName, Keys: o.Keys}}})
		if err != nil || resp == nil || len(resp.GetResponses()) != 1 || resp.GetResponses()[0].ErrorCode != nil {
			ev.Err = fmt.Sprintf("error %v / malformed response %v", err, resp)
			return
		}
		ev.Statuses = map[string]string{}
		for _, ks := range resp.GetResponses()[0].GetKeyStatuses() {
			ev.Statuses[ks.GetKey()] = ks.GetStatus().String()
		}
	case "sbk":
		resp, err := gw.ShiftByKeys(d.ctx, &hydrapb.ShiftByKeysRequest{IslandID: d.island, SwampName: swampName, Keys: o.Keys})
		if err != nil || resp == nil {
			ev.Err = fmt.Sprintf("error %v / nil response", err)
			return
		}
		for _, t := range resp.GetTreasures() {
			ev.Claims = append(ev.Claims, treasureClaim(t))
		}
	}
}

func (d *driver) getAll() (snapshot, error) {
	resp, err := d.r.GW.GetAll(d.ctx, &hydrapb.GetAllRequest{IslandID: d.island, SwampName: swampName})
	if err != nil || resp == nil {
		return nil, fmt.Errorf("GetAll: %v", err)
	}
	out := snapshot{}
	for _, t := range resp.GetTreasures() {
		if t.GetKey() == anchorKey {
			continue
		}
		if _, dup := out[t.GetKey()]; dup {
			return nil, fmt.Errorf("GetAll returned key %s twice", t.GetKey())
		}
		out[t.GetKey()] = treasureClaim(t)
	}
	return out, nil
}

const anchorKey = "zz-anchor"

// runSched executes one schedule in a fresh bubble on a fresh engine and returns the log.
func runSched(t *testing.T, s *sched) (lg *runLog) {
	root := rig.TempRoot("c11")
	defer rig.RemoveAll(root)
	lg = &runLog{}
	// synctest.Test ends with t.FailNow() when the race detector reported something during the
	// bubble (races are counted, not judged, here): run it on a helper goroutine so that the Goexit
	// does not take the whole check with it.
	finished := make(chan struct{})
	go func() {
		defer close(finished)
		runBubble(t, s, lg, root)
	}()
	<-finished
	return lg
}

func runBubble(t *testing.T, s *sched, lg *runLog, root string) {
	synctest.Test(t, func(t *testing.T) {
		verifhook.Reset()
		installHooks()
		seq.Store(0)
		r := rig.New(rig.Options{Root: root, CloseAfterIdle: 3600})
		defer func() {
			r.Stop()
			time.Sleep(2 * time.Minute)
			for _, p := range rig.InstallSentinel().Drain("panic") {
				lg.Panics = append(lg.Panics, p.Msg+" "+p.Attrs)
			}
		}()
		r.Register("c11/q/*", false, 3600, 1)
		d := &driver{r: r, ctx: context.Background(), island: rig.Island(swampName), s: s}
		t0 := time.Now().UnixNano()
		d.tc = t0
		if s.Settle {
			d.tc = t0 + int64(settleDur)
		}
		lg.Tc = d.tc
		incon := func(f string, a ...any) {
			if lg.Incon == "" {
				lg.Incon = fmt.Sprintf(f, a...)
			}
		}

		// seed: one request, sequential, before anything else. The anchor keeps the swamp from
		// destroying itself when the claimers empty it (that race is C16's subject).
		kvs := []*hydrapb.KeyValuePair{{Key: anchorKey, BytesVal: append([]byte{0xC7, 0x00}, mp(map[string]any{"anchor": int64(1)})...)}}
		for i, rc := range s.Recs {
			kv := &hydrapb.KeyValuePair{Key: rc.Key, BytesVal: encodeBody(int64(i+1), rc.St, rc.G, rc.N), CreatedAt: ts(d.tc - int64(time.Hour) + int64(i+1)*1000)}
			if !rc.NoExp {
				kv.ExpiredAt = ts(d.tc + rc.Exp)
			}
			kvs = append(kvs, kv)
		}
		if resp, err := d.setReq(kvs); err != nil || resp == nil {
			incon("seed Set failed: %v", err)
			return
		}
		// build the ordered indexes (and optionally the field buckets) before the concurrent phase:
		// a save racing with a cold index build is C07's known finding, not this property's subject
		for _, it := range []hydrapb.IndexType_Type{hydrapb.IndexType_EXPIRATION_TIME, hydrapb.IndexType_KEY, hydrapb.IndexType_CREATION_TIME} {
			if _, err := r.GW.GetByIndex(d.ctx, &hydrapb.GetByIndexRequest{IslandID: d.island, SwampName: swampName, IndexType: it, OrderType: hydrapb.OrderType_ASC, Limit: 1}); err != nil {
				incon("index warm-up failed: %v", err)
				return
			}
		}
		if s.WarmBuckets {
			// a request whose indexed leg has candidates and whose residual leg can never hold: it
			// builds the field bucket and takes nothing
			never := leg{F: "n", Op: "lt", I: -5}
			for _, l := range []leg{{F: "st", Op: "in", SS: []string{"pending", "run", "done"}}, {F: "g", Op: "in", SS: []string{"a", "b", "c"}}, {F: "n", Op: "in", II: []int64{0, 1, 2, 3, 4, 5}}} {
				resp, err := r.GW.ShiftMatchingTreasures(d.ctx, &hydrapb.ShiftMatchingTreasuresRequest{IslandID: d.island, SwampName: swampName, IndexType: hydrapb.IndexType_KEY,
					Filters: pbFilter(&filt{Legs: []leg{l, never}}, d.tc)})
				if err != nil || len(resp.GetTreasures()) != 0 {
					incon("bucket warm-up failed: %v (%d records taken)", err, len(resp.GetTreasures()))
					return
				}
			}
		}
		if s.Settle {
			time.Sleep(time.Duration(d.tc - time.Now().UnixNano()))
		}
		if time.Now().UnixNano() != d.tc {
			incon("virtual clock at %d, expected %d", time.Now().UnixNano(), d.tc)
			return
		}

		// concurrent phase
		waves := 0
		for _, o := range s.Ops {
			if o.Wave+1 > waves {
				waves = o.Wave + 1
			}
		}
		lg.Events = make([]*event, len(s.Ops))
		var orderMu sync.Mutex
		var order []string
		for w := 0; w < waves; w++ {
			// The delayed claimer of a forced wave starts alone; everybody else is released once it
			// is parked at its hook (or has returned without reaching it).
			start, startForced, atHook := make(chan struct{}), make(chan struct{}), make(chan struct{})
			var atHookOnce sync.Once
			reached := func() { atHookOnce.Do(func() { close(atHook) }) }
			hasForced := false
			var runs []*event
			mutatorsLeft.Store(0)
			for i := range s.Ops {
				if s.Ops[i].Wave == w && !s.Ops[i].claimer() {
					mutatorsLeft.Add(1)
				}
			}
			for i := range s.Ops {
				o := &s.Ops[i]
				if o.Wave != w {
					continue
				}
				ev := &event{Op: i, Kind: o.Kind}
				lg.Events[i] = ev
				runs = append(runs, ev)
				gate := start
				if o.Force != "" {
					gate, hasForced = startForced, true
				}
				go func() {
					defer func() {
						if o.Force != "" {
							reached()
						}
						if !o.claimer() {
							mutatorsLeft.Add(-1)
						}
						orderMu.Lock()
						ev.Done = true
						orderMu.Unlock()
					}()
					g := gid()
					byGID.Store(g, &opRun{ev: ev, force: o.Force, atHook: reached})
					defer byGID.Delete(g)
					<-gate
					if o.Delay > 0 && !o.claimer() {
						time.Sleep(time.Duration(o.Delay))
					}
					ev.NowStart = time.Now().UnixNano()
					ev.Start = seq.Add(1)
					d.exec(i, o, ev)
					ev.End = seq.Add(1)
					ev.NowEnd = time.Now().UnixNano()
					if ev.Sel == 0 {
						ev.Sel = ev.Start
					}
					if ev.SelDone == 0 {
						ev.SelDone = ev.End
					}
					orderMu.Lock()
					order = append(order, strconv.Itoa(i))
					orderMu.Unlock()
				}()
			}
			synctest.Wait() // everybody parked on a start channel
			progress.Add(1)
			if hasForced {
				close(startForced)
				<-atHook
			}
			close(start)
			synctest.Wait()
			time.Sleep(waveGap) // lets the claimer delayed at a hook finish
			synctest.Wait()
			progress.Add(1)
			orderMu.Lock()
			for _, ev := range runs {
				if !ev.Done {
					incon("request %d (%s) has not returned at quiescence", ev.Op, ev.Kind)
				}
			}
			orderMu.Unlock()
			if lg.Incon != "" {
				// a stuck request keeps its goroutine parked; there is nothing sound left to check
				return
			}
		}
		lg.Order = strings.Join(order, ",")

		var err error
		if lg.Mid, err = d.getAll(); err != nil {
			incon("%v", err)
			return
		}
		sw := &event{Op: len(s.Ops), Kind: "sweep"}
		sw.NowStart = time.Now().UnixNano()
		sw.Start = seq.Add(1)
		d.exec(len(s.Ops), &op{Kind: "shx"}, sw)
		sw.Kind = "sweep"
		sw.End = seq.Add(1)
		sw.Sel, sw.SelDone = sw.Start, sw.End
		sw.NowEnd = time.Now().UnixNano()
		sw.Done = true
		lg.Sweep = sw
		if lg.Final, err = d.getAll(); err != nil {
			incon("%v", err)
		}
	})
}
