package c11

import (
	"fmt"
	"sort"
	"strings"
	"time"
)

// ---- the harness' own evaluator of the selection criteria (written from the documentation) ----

func legIndexable(l leg) bool {
	return (l.F == "st" || l.F == "g" || l.F == "n") && (l.Op == "eq" || l.Op == "in")
}

func legHolds(l leg, b *body, exp, tc int64) bool {
	switch l.F {
	case "exp": // ExpiredAt < t; a record without expiry never matches an ExpiredAt comparison
		return exp != 0 && exp < tc+l.I
	case "st", "g":
		v := b.St
		if l.F == "g" {
			v = b.G
		}
		switch l.Op {
		case "eq":
			return v == l.S
		case "ne":
			return v != l.S
		case "in":
			for _, s := range l.SS {
				if v == s {
					return true
				}
			}
		}
	case "n":
		switch l.Op {
		case "eq":
			return b.N == l.I
		case "gt":
			return b.N > l.I
		case "lt":
			return b.N < l.I
		case "in":
			for _, x := range l.II {
				if b.N == x {
					return true
				}
			}
		}
	}
	return false
}

// filterVerdict returns whether the filter holds and, if not, which class of leg failed.
func filterVerdict(f *filt, b *body, exp, tc int64) (bool, string) {
	if f == nil || len(f.Legs) == 0 {
		return true, ""
	}
	if f.Or {
		for _, l := range f.Legs {
			if legHolds(l, b, exp, tc) {
				return true, ""
			}
		}
		cls := "or-group-scan"
		all := true
		for _, l := range f.Legs {
			all = all && legIndexable(l)
		}
		if all {
			cls = "or-group-indexed"
		}
		return false, cls
	}
	indexed := -1
	for i, l := range f.Legs {
		if legIndexable(l) {
			indexed = i
			break
		}
	}
	for i, l := range f.Legs {
		if !legHolds(l, b, exp, tc) {
			if i == indexed {
				return false, "indexed-leg:" + l.F + "-" + l.Op
			}
			return false, "residual-leg:" + l.F + "-" + l.Op
		}
	}
	return true, ""
}

// criteriaHold: does a record (body, expiry) satisfy everything claimer o selects by, at `now`.
func criteriaHold(o *op, b *body, exp, now, tc int64) bool {
	switch o.Kind {
	case "shx", "sweep":
		return exp != 0 && exp < now
	case "pex":
		ok, _ := filterVerdict(o.F, b, exp, tc)
		return exp != 0 && exp < now && ok
	case "shm":
		if o.Index == "exp" {
			if exp == 0 {
				return false
			}
			if o.From != nil && exp < tc+*o.From {
				return false
			}
			if o.To != nil && exp >= tc+*o.To {
				return false
			}
		}
		ok, _ := filterVerdict(o.F, b, exp, tc)
		return ok
	}
	return false
}

// ---- offline checker over the recorded log ---------------------------------------------------

type finding struct{ sig, what string }

type writer struct {
	op         int
	kind       string
	start, end int64
	status     string
	setsExp    bool
	exp        int64
	tok        int64
}

type incarnation struct {
	ver              int64
	by               int // op index, -1 = seed
	cStart, cEnd     int64
	exp              int64
	st, g            string
	n                int64
	written, unknown bool
}

type claimRef struct {
	ev *event
	o  *op
	c  *claimed
}

type removal struct {
	kind       string
	op         int
	start, end int64
}

type checker struct {
	s     *sched
	lg    *runLog
	ops   []*op // indexed like events; the sweep is appended
	evs   []*event
	w     map[string][]writer
	inc   map[string]map[int64]*incarnation
	out   []finding
	seen  map[string]bool
	stats map[string]int
}

func (c *checker) fail(sig, f string, a ...any) {
	if c.seen[sig] {
		return
	}
	c.seen[sig] = true
	c.out = append(c.out, finding{sig, fmt.Sprintf(f, a...)})
}

func overlaps(aStart, aEnd, bStart, bEnd int64) bool { return aStart < bEnd && bStart < aEnd }

func isShift(kind string) bool { return kind == "shx" || kind == "shm" || kind == "sweep" }

func pair(a, b string) string {
	if a > b {
		a, b = b, a
	}
	return a + "+" + b
}

// firstSeededMember: is key k the first member of the ascending index idx in the seeded state
// (strictly smallest expiry among the records that have one / smallest key)?
func (c *checker) firstSeededMember(idx, k string) bool {
	var x *recSpec
	for i := range c.s.Recs {
		if c.s.Recs[i].Key == k {
			x = &c.s.Recs[i]
		}
	}
	if x == nil {
		return false
	}
	for i := range c.s.Recs {
		o := &c.s.Recs[i]
		if o.Key == k {
			continue
		}
		switch idx {
		case "exp":
			if x.NoExp || (!o.NoExp && o.Exp <= x.Exp) {
				return false
			}
		case "key":
			if o.Key <= x.Key {
				return false
			}
		default:
			return false
		}
	}
	return true
}

// concurrentWriteTo: did a write to key k run while the claim ev ran that (position) inserted the
// record into the index idx or gave it a new sort key - a Set (it may create the record, and it
// writes key, ExpiredAt and CreatedAt), on the expiry index also a PatchTreasures with SetExpiredAt
// or a PatchExpired slide - or that (eligibility) changed what the claim's criteria see of it - any
// other PatchTreasures / PatchExpired of k?
func (c *checker) concurrentWriteTo(k, idx string, self int, ev *event) (position, eligibility bool) {
	for _, w := range c.w[k] {
		if !overlaps(w.start, w.end, ev.Start, ev.End) {
			continue
		}
		if w.kind == "set" || (idx == "exp" && w.setsExp) {
			position = true
		} else {
			eligibility = true
		}
	}
	for i, o := range c.evs {
		if i == self || o == nil || o.Kind != "pex" || !overlaps(o.Start, o.End, ev.Start, ev.End) {
			continue
		}
		for _, cl := range o.Claims {
			if cl.Key == k && cl.Status == "PATCHED" {
				if idx == "exp" && !c.ops[i].NoSlide {
					position = true
				} else {
					eligibility = true
				}
			}
		}
	}
	return position, eligibility
}

// anyCouldMatchIndexed: could any version of any record that ever existed in this run satisfy the
// leg(s) the planner resolves through the field index? (Values come from the seeds, the Sets and the
// PatchTreasures of the schedule, whenever they ran.)
func (c *checker) anyCouldMatchIndexed(f *filt) bool {
	var legs []leg
	if f.Or {
		legs = f.Legs
	} else {
		for _, l := range f.Legs {
			if legIndexable(l) {
				legs = []leg{l}
				break
			}
		}
	}
	var bodies []body
	for _, m := range c.inc {
		for _, in := range m {
			bodies = append(bodies, body{St: in.st, G: in.g, N: in.n})
		}
	}
	for _, o := range c.ops {
		if o.Kind == "patch" {
			for _, b := range append([]body(nil), bodies...) {
				b.St = o.St
				if o.G != "" {
					b.G = o.G
				}
				bodies = append(bodies, b)
			}
		}
	}
	for _, l := range legs {
		for i := range bodies {
			if legHolds(l, &bodies[i], 0, 0) {
				return true
			}
		}
	}
	return false
}

// concurrentKinds lists the kinds of other requests that touched key k while [start,end] ran.
func (c *checker) concurrentKinds(k string, self int, start, end int64) string {
	set := map[string]bool{}
	for _, w := range c.w[k] {
		if w.op != self && overlaps(w.start, w.end, start, end) {
			set[w.kind] = true
		}
	}
	for i, ev := range c.evs {
		if i == self || ev == nil || !overlaps(ev.Start, ev.End, start, end) {
			continue
		}
		switch ev.Kind {
		case "pex", "shx", "shm", "sbk":
			for _, cl := range ev.Claims {
				if cl.Key == k {
					set[ev.Kind] = true
				}
			}
		case "del":
			if _, ok := ev.Statuses[k]; ok {
				set["del"] = true
			}
		}
	}
	if len(set) == 0 {
		return "none"
	}
	return strings.Join(sortedKeys(set), "+")
}

func checkLog(s *sched, lg *runLog) (findings []finding, stats map[string]int) {
	c := &checker{s: s, lg: lg, w: map[string][]writer{}, inc: map[string]map[int64]*incarnation{}, seen: map[string]bool{}, stats: map[string]int{}}
	for i := range s.Ops {
		c.ops = append(c.ops, &s.Ops[i])
	}
	c.evs = append(c.evs, lg.Events...)
	if lg.Sweep != nil {
		c.ops = append(c.ops, &op{Kind: "sweep"})
		c.evs = append(c.evs, lg.Sweep)
	}
	tc := lg.Tc
	unknownClaims := false // a claimer whose answer is unknown: nothing may be concluded from absence

	addInc := func(k string, in *incarnation) {
		if c.inc[k] == nil {
			c.inc[k] = map[int64]*incarnation{}
		}
		c.inc[k][in.ver] = in
	}
	for i, rc := range s.Recs {
		in := &incarnation{ver: int64(i + 1), by: -1, st: rc.St, g: rc.G, n: rc.N, written: true}
		if !rc.NoExp {
			in.exp = tc + rc.Exp
		}
		addInc(rc.Key, in)
	}
	for i, ev := range c.evs {
		if ev == nil {
			continue
		}
		o := c.ops[i]
		if ev.Err != "" && (o.claimer() || o.Kind == "sbk" || o.Kind == "sweep") {
			unknownClaims = true
		}
		switch o.Kind {
		case "set":
			k := o.Keys[0]
			st := ev.Statuses[k]
			in := &incarnation{ver: token(i, 0), by: i, cStart: ev.Start, cEnd: ev.End, st: o.St, g: o.G, n: o.N}
			if o.Exp != nil {
				in.exp = tc + *o.Exp
			} else {
				in.exp = tc + int64(1000*time.Hour) + token(i, 0)
			}
			switch {
			case ev.Err != "":
				in.unknown = true
			case st == "NEW" || st == "UPDATED":
				in.written = true
			default:
				in.unknown = true
			}
			addInc(k, in)
			c.w[k] = append(c.w[k], writer{op: i, kind: "set", start: ev.Start, end: ev.End, status: st, setsExp: true, exp: in.exp, tok: in.ver})
		case "patch":
			for j, k := range o.Keys {
				w := writer{op: i, kind: "patch", start: ev.Start, end: ev.End, status: ev.Statuses[k], tok: token(i, j)}
				if o.Exp != nil {
					w.setsExp, w.exp = true, tc+*o.Exp
				}
				c.w[k] = append(c.w[k], w)
			}
		}
	}

	// expOfBody: the expiry a record version had, derived from its write stamps
	expOfBody := func(k string, b *body) (int64, bool) {
		if b.Ev != 0 {
			for _, w := range c.w[k] {
				if w.kind == "patch" && w.tok == b.Ev && w.setsExp {
					return w.exp, true
				}
			}
			return 0, false
		}
		if in := c.inc[k][b.Ver]; in != nil {
			return in.exp, true
		}
		return 0, false
	}
	writersQuiet := func(k string, from, to int64, onlyExp bool) bool {
		for _, w := range c.w[k] {
			if onlyExp && !w.setsExp {
				continue
			}
			if overlaps(w.start, w.end, from, to) {
				return false
			}
		}
		return true
	}

	// ---- per-claim checks: integrity, eligibility (2), bounds and order (3) ----
	var refs []claimRef
	for i, ev := range c.evs {
		if ev == nil || ev.Err != "" {
			continue
		}
		o := c.ops[i]
		if !(o.claimer() || o.Kind == "sweep" || o.Kind == "sbk") {
			continue
		}
		for j := range ev.Claims {
			cl := &ev.Claims[j]
			if o.Kind == "pex" && cl.Status != "PATCHED" {
				c.stats["pex_"+cl.Status]++
				continue
			}
			if cl.Key == anchorKey {
				continue // judged below: it matches no filter this harness sends and never expires
			}
			if o.Kind == "sbk" && (cl.B.Bad != "" || c.inc[cl.Key][cl.B.Ver] == nil) {
				// ShiftByKeys racing with a Delete can answer with the emptied record; it is not one
				// of the claimers this property names
				c.stats["bycatch_sbk_returned_emptied_record"]++
				continue
			}
			if cl.B.Bad != "" {
				c.fail("integrity:"+ev.Kind+":undecodable-body", "%s (request %d) returned key %s with %s", ev.Kind, i, cl.Key, cl.B.Bad)
				continue
			}
			if c.inc[cl.Key][cl.B.Ver] == nil {
				c.fail("integrity:"+ev.Kind+":unknown-incarnation", "%s (request %d) returned key %s with version stamp %d that no Set ever wrote to that key", ev.Kind, i, cl.Key, cl.B.Ver)
				continue
			}
			refs = append(refs, claimRef{ev, o, cl})
			c.stats["claims_"+ev.Kind]++
		}
		if o.Kind == "sbk" {
			continue
		}
		// (3) bounds
		lim := int32(0)
		if o.HowMany > 0 {
			lim = o.HowMany
		}
		if o.Kind == "shm" && o.MaxResults > 0 && (lim == 0 || o.MaxResults < lim) {
			lim = o.MaxResults
		}
		if lim > 0 && int32(len(ev.Claims)) > lim {
			c.fail("bound:"+ev.Kind+":more-than-requested", "%s (request %d) HowMany=%d MaxResults=%d returned %d records", ev.Kind, i, o.HowMany, o.MaxResults, len(ev.Claims))
		}
		seenKey := map[string]bool{}
		for _, cl := range ev.Claims {
			if seenKey[cl.Key] {
				c.fail("disjoint:"+ev.Kind+":same-key-twice-in-one-response", "%s (request %d) returned key %s twice", ev.Kind, i, cl.Key)
			}
			seenKey[cl.Key] = true
		}
		// (2) eligibility and (3) order of what was returned
		idx := "exp"
		if o.Kind == "shm" {
			idx = o.Index
		}
		type placed struct {
			cl  *claimed
			pos int64
		}
		var returned []placed // the returned records whose index position is known, in answer order
		for j := range ev.Claims {
			cl := &ev.Claims[j]
			if cl.B.Bad != "" || (o.Kind == "pex" && cl.Status != "PATCHED") {
				continue
			}
			pos, posOK := int64(0), true
			switch o.Kind {
			case "shx", "sweep", "shm":
				// selection and copy happen under one hold of the record's guard: the returned record
				// is the record that was judged
				if o.Kind != "shm" {
					if !(cl.Exp != 0 && cl.Exp < ev.NowEnd) {
						c.fail("eligibility:"+ev.Kind+":not-expired", "%s (request %d) at now=%d returned key %s whose ExpiredAt is %d (%+d ns) — not expired", ev.Kind, i, ev.NowEnd, cl.Key, cl.Exp, cl.Exp-ev.NowEnd)
					}
				} else {
					if o.Index == "exp" && cl.Exp != 0 && ((o.From != nil && cl.Exp < tc+*o.From) || (o.To != nil && cl.Exp >= tc+*o.To)) {
						c.fail("eligibility:shm:outside-window", "ShiftMatching (request %d) window [%v,%v) relative to Tc returned key %s with ExpiredAt Tc%+d", i, fmtOff(o.From), fmtOff(o.To), cl.Key, cl.Exp-tc)
					}
					ok, cls := filterVerdict(o.F, &cl.B, cl.Exp, tc)
					if cl.Key == anchorKey && ok {
						ok, cls = false, "record-without-the-fields"
					}
					if !ok {
						if strings.HasPrefix(cls, "indexed-leg") || cls == "or-group-indexed" {
							if !c.anyCouldMatchIndexed(o.F) {
								cls += ":no-record-has-the-indexed-value"
							}
						}
						c.fail("eligibility:shm:filter-mismatch:"+cls, "ShiftMatching (request %d) filter %s returned key %s with body st=%s g=%s n=%d exp=Tc%+d (stamps ver=%d pv=%d): the returned record does not match the filter",
							i, fmtFilter(o.F), cl.Key, cl.B.St, cl.B.G, cl.B.N, cl.Exp-tc, cl.B.Ver, cl.B.Pv)
					}
				}
				switch idx {
				case "exp":
					pos = cl.Exp
				case "cre":
					pos = cl.Cre
				}
			case "pex":
				// the response carries the post-patch record; the record as it was selected is known
				// only if no write to that key could have happened from the selection to the answer
				own := len(cl.B.Cs) == 1 && cl.B.hasStamp(i)
				quiet := writersQuiet(cl.Key, ev.Sel, ev.End, false)
				pre, ok := expOfBody(cl.Key, &cl.B)
				if !(own && quiet && ok) {
					c.stats["pex_unjudged"]++
					posOK = false
					break
				}
				c.stats["pex_judged"]++
				pos = pre
				if !(pre != 0 && pre < ev.NowEnd) {
					c.fail("eligibility:pex:not-expired", "PatchExpired (request %d) at now=%d patched key %s whose expiry was Tc%+d (not expired); no write to that key ran between the selection and the answer", i, ev.NowEnd, cl.Key, pre-tc)
				}
				if okf, cls := filterVerdict(o.F, &cl.B, pre, tc); !okf {
					c.fail("eligibility:pex:filter-mismatch:"+cls, "PatchExpired (request %d) filter %s patched key %s whose body is st=%s g=%s n=%d (stamps ver=%d pv=%d); no write to that key ran between the selection and the answer",
						i, fmtFilter(o.F), cl.Key, cl.B.St, cl.B.G, cl.B.N, cl.B.Ver, cl.B.Pv)
				}
			}
			if posOK {
				returned = append(returned, placed{cl, pos})
			}
		}
		// Every pair (a answered before b): b must not precede a in index order. The property speaks
		// per claim moment - each record is the first matching one when it is claimed - so a pair is
		// excused only if b got its index position (insert, or a new sort key) from a write that ran
		// while the claim ran, or became eligible through such a write: when a was claimed, b was not
		// there to be taken. Everything else is a violation.
		for x := 0; x < len(returned); x++ {
			for y := x + 1; y < len(returned); y++ {
				a, b := returned[x], returned[y]
				bad := false
				if idx == "key" {
					bad = (!o.Desc && b.cl.Key <= a.cl.Key) || (o.Desc && b.cl.Key >= a.cl.Key)
				} else {
					bad = (!o.Desc && b.pos < a.pos) || (o.Desc && b.pos > a.pos)
				}
				if !bad {
					continue
				}
				position, eligibility := c.concurrentWriteTo(b.cl.Key, idx, i, ev)
				switch {
				case position:
					c.stats["order_pairs_excused_concurrent_position_change"]++
				case eligibility:
					c.stats["order_pairs_excused_concurrent_eligibility_change"]++
				default:
					dir := "asc"
					if o.Desc {
						dir = "desc"
					}
					c.fail("order:"+ev.Kind+":"+idx+"-"+dir+":not-in-index-order", "%s (request %d) returned key %s (position %d) after key %s (position %d) on the %s index %s, and no write to %s ran while the claim ran", ev.Kind, i, b.cl.Key, b.pos, a.cl.Key, a.pos, idx, dir, b.cl.Key)
				}
			}
		}
	}

	// ---- (1) disjointness, (4) resurrection ----
	byInc := map[string][]claimRef{}
	for _, r := range refs {
		id := fmt.Sprintf("%s#%d", r.c.Key, r.c.B.Ver)
		byInc[id] = append(byInc[id], r)
	}
	for _, id := range sortedKeys(byInc) {
		rs := byInc[id]
		k := rs[0].c.Key
		for a := 0; a < len(rs); a++ {
			for b := a + 1; b < len(rs); b++ {
				A, B := rs[a], rs[b]
				if A.ev == B.ev {
					continue // reported as same-key-twice-in-one-response
				}
				if A.ev.Start > B.ev.Start {
					A, B = B, A
				}
				ka, kb := A.ev.Kind, B.ev.Kind
				if ka == "sbk" && kb == "sbk" {
					continue
				}
				if ka == "sbk" || kb == "sbk" {
					// ShiftByKeys is not one of the claimers the property names: a record popped by key
					// and by a claimer at the same time is counted, not judged; strictly later it is a
					// resurrection
					S, other := A, B
					if kb == "sbk" {
						S, other = B, A
					}
					if S.ev.End < other.ev.Sel {
						c.fail("resurrect:returned-by="+other.ev.Kind+":removed-by=sbk:concurrent="+c.concurrentKinds(k, S.ev.Op, S.ev.Start, S.ev.End),
							"key %s (version %d) was removed by ShiftByKeys (request %d, answered at %d) and later handed to %s (request %d, started at %d)", k, A.c.B.Ver, S.ev.Op, S.ev.End, other.ev.Kind, other.ev.Op, other.ev.Start)
					} else {
						c.stats["bycatch_sbk_and_claimer_same_record"]++
					}
					continue
				}
				sa, sb := isShift(ka), isShift(kb)
				switch {
				case sa && sb:
					if A.ev.End < B.ev.Start {
						c.fail("resurrect:returned-by="+kb+":removed-by="+ka+":concurrent="+c.concurrentKinds(k, A.ev.Op, A.ev.Start, A.ev.End),
							"key %s (version %d) was handed to %s (request %d, answered at %d) and removed, and was handed out again to %s (request %d, started at %d)", k, A.c.B.Ver, ka, A.ev.Op, A.ev.End, kb, B.ev.Op, B.ev.Start)
					} else {
						c.fail("disjoint:"+pair(ka, kb)+":concurrent="+c.concurrentKinds(k, -1, min(A.ev.Start, B.ev.Start), max(A.ev.End, B.ev.End)),
							"key %s (version %d) was handed to two overlapping claimers: %s (request %d) and %s (request %d)", k, A.c.B.Ver, ka, A.ev.Op, kb, B.ev.Op)
					}
				case sa != sb:
					S, P := A, B
					if sb {
						S, P = B, A
					}
					if S.c.B.hasStamp(P.ev.Op) {
						continue // the patch came first; the shift then took the patched record (eligibility is judged above)
					}
					if S.ev.End < P.ev.Sel {
						c.fail("resurrect:patched-by=pex:removed-by="+S.ev.Kind+":concurrent="+c.concurrentKinds(k, S.ev.Op, S.ev.Start, S.ev.End),
							"key %s (version %d) was handed to %s (request %d, answered at %d) and removed; PatchExpired (request %d, started at %d) afterwards selected and patched it", k, S.c.B.Ver, S.ev.Kind, S.ev.Op, S.ev.End, P.ev.Op, P.ev.Start)
					} else {
						c.fail("disjoint:"+pair(S.ev.Kind, "pex")+":patched-after-shift",
							"key %s (version %d) was handed to %s (request %d) without PatchExpired's stamp and was also claimed (PATCHED) by the overlapping PatchExpired request %d", k, S.c.B.Ver, S.ev.Kind, S.ev.Op, P.ev.Op)
					}
				default: // pex + pex
					if c.ops[A.ev.Op].NoSlide || c.ops[B.ev.Op].NoSlide {
						continue // a claim that leaves the expiry in the past leaves the record claimable
					}
					rearmed := false
					lo, hi := min(A.ev.Start, B.ev.Start), max(A.ev.End, B.ev.End)
					for _, w := range c.w[k] {
						if w.setsExp && overlaps(w.start, w.end, lo, hi) {
							rearmed = true
						}
					}
					if rearmed {
						c.stats["pex_pex_rearmed"]++
						continue
					}
					c.fail("disjoint:pex+pex", "key %s (version %d) was claimed (PATCHED, expiry slid into the future) by two PatchExpired requests %d and %d although nothing re-armed its expiry in between (second body: nc=%d stamps=%v)",
						k, A.c.B.Ver, A.ev.Op, B.ev.Op, B.c.B.Nc, B.c.B.Cs)
				}
			}
		}
	}

	// removals: who took a version out of the swamp, and when was that acknowledged
	removed := map[string][]removal{} // "key#ver"
	for _, r := range refs {
		if isShift(r.ev.Kind) || r.ev.Kind == "sbk" {
			id := fmt.Sprintf("%s#%d", r.c.Key, r.c.B.Ver)
			removed[id] = append(removed[id], removal{r.ev.Kind, r.ev.Op, r.ev.Start, r.ev.End})
		}
	}
	for i, ev := range c.evs {
		if ev == nil || ev.Kind != "del" || ev.Err != "" {
			continue
		}
		for k, st := range ev.Statuses {
			if st != "DELETED" {
				continue
			}
			for ver, in := range c.inc[k] {
				if in.cEnd < ev.Start { // created (acknowledged) before the delete started
					id := fmt.Sprintf("%s#%d", k, ver)
					removed[id] = append(removed[id], removal{"del", i, ev.Start, ev.End})
				}
			}
		}
	}
	// a claimer that started after an acknowledged Delete must not hand the record out
	for _, r := range refs {
		id := fmt.Sprintf("%s#%d", r.c.Key, r.c.B.Ver)
		for _, rm := range removed[id] {
			if rm.kind != "del" || !(rm.end < r.ev.Sel) || r.ev.Kind == "sbk" {
				continue
			}
			how := "returned-by=" + r.ev.Kind
			if r.ev.Kind == "pex" {
				how = "patched-by=pex"
			}
			c.fail("resurrect:"+how+":removed-by=del:concurrent="+c.concurrentKinds(r.c.Key, rm.op, rm.start, rm.end),
				"key %s (version %d): Delete (request %d) was acknowledged at %d; %s (request %d, started at %d) afterwards returned that record", r.c.Key, r.c.B.Ver, rm.op, rm.end, r.ev.Kind, r.ev.Op, r.ev.Start)
		}
	}
	// A mutator that was parked HOLDING the guard of the first member X of the index a Shift claim
	// walks (Force "guard"; parked from GuardAt, before the claim started, to GuardResume): the claim
	// cannot get past X before GuardResume, so it visits every other record after that instant, and
	// X itself only after the holder has finished with it. A record whose removal was acknowledged
	// before GuardResume - or that the holder itself removed - must therefore not be handed out.
	for hi, hev := range lg.Events {
		if hev == nil || c.ops[hi].Force != "guard" || c.ops[hi].Wave != 0 || hev.GuardAt == 0 || hev.Err != "" {
			continue
		}
		ho := c.ops[hi]
		xk := ho.Keys[0]
		for ci, cev := range lg.Events {
			co := c.ops[ci]
			if cev == nil || cev.Err != "" || co.Wave != 0 || !(co.Kind == "shx" || co.Kind == "shm") || co.Desc || cev.Start < hev.GuardAt {
				continue
			}
			idx := "exp"
			if co.Kind == "shm" {
				idx = co.Index
			}
			if !c.firstSeededMember(idx, xk) {
				continue
			}
			if idx == "exp" && (ho.Kind == "set" || ho.Exp != nil) {
				// the holder has already written X's new expiry into the record; any other writer's
				// re-sort of the index moves X away from the head before the holder goes on
				continue
			}
			c.stats["guard_window_claims"]++
			for j := range cev.Claims {
				cl := &cev.Claims[j]
				if cl.B.Bad != "" || cl.Key == anchorKey {
					continue
				}
				id := fmt.Sprintf("%s#%d", cl.Key, cl.B.Ver)
				if cl.Key == xk {
					removedByHolder := ho.Kind == "del" && hev.Statuses[xk] == "DELETED" && c.inc[xk][cl.B.Ver] != nil && c.inc[xk][cl.B.Ver].by == -1
					for _, hc := range hev.Claims {
						if ho.Kind == "sbk" && hc.Key == xk && hc.B.Ver == cl.B.Ver && hc.B.Bad == "" {
							removedByHolder = true
						}
					}
					if removedByHolder {
						c.fail("resurrect:returned-by="+cev.Kind+":removed-by="+ho.Kind+":claim-waited-for-the-removers-guard",
							"key %s (version %d): %s (request %d) held the record's guard from before the claim started until it had removed the record (answer: removed); %s (request %d) waited for that guard and then handed the record out", xk, cl.B.Ver, ho.Kind, hi, cev.Kind, ci)
					}
					continue
				}
				for _, rm := range removed[id] {
					if rm.op != ci && rm.end < hev.GuardResume {
						c.fail("resurrect:returned-by="+cev.Kind+":removed-by="+rm.kind+":claim-waited-for-a-guard-meanwhile",
							"key %s (version %d) was removed by %s (request %d, acknowledged at %d) while %s (request %d) was waiting for the guard of the first record of its index (held by request %d until %d); the claim then handed the removed record out", cl.Key, cl.B.Ver, rm.kind, rm.op, rm.end, cev.Kind, ci, hi, hev.GuardResume)
					}
				}
			}
		}
	}

	// snapshots after quiescence
	for _, sn := range []struct {
		name string
		m    snapshot
		at   int64
	}{{"after-run", lg.Mid, mid(lg)}, {"after-sweep", lg.Final, 1 << 60}} {
		for _, k := range sortedKeys(sn.m) {
			cl := sn.m[k]
			if cl.B.Bad != "" {
				c.fail("integrity:read:undecodable-body", "GetAll %s: key %s has %s", sn.name, k, cl.B.Bad)
				continue
			}
			id := fmt.Sprintf("%s#%d", k, cl.B.Ver)
			for _, rm := range removed[id] {
				if rm.end < sn.at {
					c.fail("resurrect:still-readable:removed-by="+rm.kind+":concurrent="+c.concurrentKinds(k, rm.op, rm.start, rm.end),
						"key %s (version %d) was removed by %s (request %d, acknowledged) but GetAll %s still returns it (body st=%s nc=%d stamps=%v pv=%d)", k, cl.B.Ver, rm.kind, rm.op, sn.name, cl.B.St, cl.B.Nc, cl.B.Cs, cl.B.Pv)
					break
				}
			}
		}
	}

	// ---- conservation: every created version is claimed, remaining, overwritten or deleted ----
	if !unknownClaims && lg.Final != nil {
		for _, k := range sortedKeys(c.inc) {
			for _, ver := range sortedVers(c.inc[k]) {
				in := c.inc[k][ver]
				if !in.written {
					continue
				}
				id := fmt.Sprintf("%s#%d", k, ver)
				if f, ok := lg.Final[k]; ok && f.B.Ver == ver {
					c.stats["fate_remaining"]++
					continue
				}
				if len(removed[id]) > 0 {
					c.stats["fate_removed"]++
					continue
				}
				explained := false
				for _, w := range c.w[k] {
					if w.kind == "set" && w.tok != ver && !(w.end < in.cStart) {
						explained = true
					}
				}
				for _, ev := range c.evs {
					if ev != nil && ev.Kind == "del" && ev.Statuses[k] == "DELETED" && !(ev.End < in.cStart) {
						explained = true
					}
				}
				if explained {
					c.stats["fate_overwritten_or_deleted"]++
					continue
				}
				c.fail("conservation:lost:concurrent="+c.concurrentKinds(k, in.by, in.cStart, 1<<60),
					"key %s (version %d, written by %s) was handed to nobody, overwritten or deleted by nobody, and is gone after quiescence", k, ver, byName(in.by))
			}
		}
	}

	// ---- (3) oldest-first: an untouched, eligible record earlier in the index than a returned one ----
	static := map[string]*incarnation{}
	touched := map[string]bool{}
	for i, ev := range c.evs {
		if ev == nil {
			continue
		}
		o := c.ops[i]
		for _, k := range o.Keys {
			touched[k] = true
		}
		if o.Kind == "pex" {
			if ev.Err != "" {
				unknownClaims = true
			}
			for _, cl := range ev.Claims {
				touched[cl.Key] = true
			}
		}
	}
	if !unknownClaims && lg.Mid != nil {
		for i, rc := range s.Recs {
			if m, ok := lg.Mid[rc.Key]; ok && !touched[rc.Key] && m.B.Ver == int64(i+1) && m.B.Pv == 0 && len(m.B.Cs) == 0 {
				static[rc.Key] = c.inc[rc.Key][int64(i+1)]
			}
		}
		for i, ev := range lg.Events {
			if ev == nil || ev.Err != "" || !c.ops[i].claimer() || len(ev.Claims) == 0 {
				continue
			}
			o := c.ops[i]
			idx := "exp"
			if o.Kind == "shm" {
				idx = o.Index
			}
			for _, k := range sortedKeys(static) {
				in := static[k]
				b := body{St: in.st, G: in.g, N: in.n}
				if !criteriaHold(o, &b, in.exp, ev.NowStart, tc) {
					continue
				}
				var rpos int64
				switch idx {
				case "exp":
					rpos = in.exp
				case "cre":
					rpos = lg.Mid[k].Cre
				}
				for j := range ev.Claims {
					cl := &ev.Claims[j]
					var pos int64
					switch {
					case o.Kind == "pex":
						p, ok := expOfBody(cl.Key, &cl.B)
						if cl.Status != "PATCHED" || !ok || !(len(cl.B.Cs) == 1) || !writersQuiet(cl.Key, ev.Sel, ev.End, true) {
							continue
						}
						pos = p
					case idx == "exp":
						pos = cl.Exp
					case idx == "cre":
						pos = cl.Cre
					}
					before := false
					if idx == "key" {
						before = (!o.Desc && k < cl.Key) || (o.Desc && k > cl.Key)
					} else {
						before = (!o.Desc && rpos < pos) || (o.Desc && rpos > pos)
					}
					if before {
						c.fail("order:"+ev.Kind+":"+idx+":skipped-earlier-record", "%s (request %d) returned key %s but not key %s, which matched its criteria all along, was touched by nobody, is still there, and comes earlier in the %s index", ev.Kind, i, cl.Key, k, idx)
						break
					}
				}
			}
		}
		c.stats["static_records"] += len(static)
	}
	return c.out, c.stats
}

func mid(lg *runLog) int64 {
	if lg.Sweep != nil {
		return lg.Sweep.Start
	}
	return 1 << 60
}

func sortedVers(m map[int64]*incarnation) []int64 {
	var vs []int64
	for v := range m {
		vs = append(vs, v)
	}
	sort.Slice(vs, func(i, j int) bool { return vs[i] < vs[j] })
	return vs
}

func byName(op int) string {
	if op < 0 {
		return "the seed"
	}
	return fmt.Sprintf("Set request %d", op)
}

func fmtOff(p *int64) string {
	if p == nil {
		return "-"
	}
	return fmt.Sprintf("%+d", *p)
}

func fmtFilter(f *filt) string {
	if f == nil {
		return "none"
	}
	var ls []string
	for _, l := range f.Legs {
		switch {
		case l.F == "exp":
			ls = append(ls, fmt.Sprintf("ExpiredAt<Tc%+d", l.I))
		case l.Op == "in" && l.F == "n":
			ls = append(ls, fmt.Sprintf("n in %v", l.II))
		case l.Op == "in":
			ls = append(ls, fmt.Sprintf("%s in %v", l.F, l.SS))
		case l.F == "n":
			ls = append(ls, fmt.Sprintf("n %s %d", l.Op, l.I))
		default:
			ls = append(ls, fmt.Sprintf("%s %s %q", l.F, l.Op, l.S))
		}
	}
	j := " AND "
	if f.Or {
		j = " OR "
	}
	return "(" + strings.Join(ls, j) + ")"
}
