// C11 — claims hand out disjoint, matching, oldest-first records.
//
// Monitor: generated swamps (msgpack bodies with st / g / n fields, expiry instants around the
// virtual claim instant) on the real engine (settings + zeus + hydra + gateway handlers) inside a
// synctest bubble. Concurrent claimers — ShiftExpiredTreasures, ShiftMatchingTreasures (time
// windows, filters with indexable and residual legs, HowMany, MaxResults, three index types, both
// orders), PatchExpiredTreasures (filters, condition, sliding or not) — are released at the same
// virtual instant together with Set / PatchTreasures (moving records into and out of the filters
// and re-arming expiries) / Delete / ShiftByKeys on the same keys. Every write stamps the body with
// a unique token, so the version a caller received is known. Forced schedules delay one claimer by
// one virtual millisecond at a verifhook point (after its predicate was built; after its
// selection), so that every other request runs to completion inside that window.
// The recorded log is checked offline (oracle_test.go).
package c11

import (
	"fmt"
	"hash/fnv"
	"os"
	"sort"
	"strconv"
	"testing"
	"time"

	"github.com/hydraide/hydraide/app/verifhook"

	"verifharness/rig"
)

type shard struct{ From, To int }

type witness struct {
	Sched sched   `json:"sched"`
	Log   *runLog `json:"log"`
}

var hookNames = []string{"gw.shiftMatching.afterPredicate", "gw.patchExpired.afterPredicate", "swamp.patchExpired.afterSelect", "swamp.shift.afterSelect", "swamp.delete.underGuard", "swamp.save.underGuard"}

func nontrivial(s *sched, lg *runLog) bool {
	// at least two claimers overlapped and at least one record was handed out, or a forced
	// claimer really was delayed at its hook while another request ran
	var cl []*event
	claimedAny := false
	for i, ev := range lg.Events {
		if ev == nil || !ev.Done {
			continue
		}
		if s.Ops[i].claimer() {
			cl = append(cl, ev)
			if len(ev.Claims) > 0 {
				claimedAny = true
			}
		}
	}
	if !claimedAny {
		return false
	}
	for a := 0; a < len(cl); a++ {
		for b := a + 1; b < len(cl); b++ {
			if overlaps(cl[a].Start, cl[a].End, cl[b].Start, cl[b].End) {
				return true
			}
		}
	}
	return false
}

func runOne(c *rig.Check, t *testing.T, s sched, verbose bool) (sigs []string) {
	lg := runSched(t, &s)
	key := rig.Dump(s)
	if lg.Incon != "" {
		c.Case(key, false)
		c.Inconclusive(lg.Incon)
		if verbose {
			t.Logf("inconclusive: %s", lg.Incon)
		}
		return nil
	}
	findings, stats := checkLog(&s, lg)
	c.Case(key, nontrivial(&s, lg))
	c.Sample(s)
	c.Seen("tags", s.Tag)
	h := fnv.New64a()
	_, _ = h.Write([]byte(key + "|" + lg.Order))
	c.Seen("interleavings", strconv.FormatUint(h.Sum64(), 16))
	c.Count("requests", int64(len(s.Ops)))
	c.Count("recovered_panics", int64(len(lg.Panics)))
	for k, v := range stats {
		c.Count(k, int64(v))
	}
	forcedHit, forced, forcedNothingSelected := false, false, false
	for i, ev := range lg.Events {
		if ev == nil {
			continue
		}
		c.Seen("kinds", ev.Kind)
		if ev.Err != "" {
			c.Count("requests_with_error", 1)
		}
		if f := s.Ops[i].Force; f != "" {
			forced = true
			if (f == "pred" && ev.HookPred) || (f == "sel" && ev.HookSel) || (f == "guard" && ev.GuardAt != 0) {
				forcedHit = true
			}
			if f == "sel" && s.Ops[i].Kind == "pex" && ev.HookPred && len(ev.Claims) == 0 {
				forcedNothingSelected = true
			}
		}
	}
	if forced {
		c.Count("forced_cases", 1)
		switch {
		case forcedHit:
			c.Count("forced_cases_hook_hit", 1)
		case forcedNothingSelected:
			// swamp.patchExpired.afterSelect sits behind "nothing selected -> return": there was no
			// window to force; the rest of the case ran and was checked as a stress case
			c.Count("forced_cases_nothing_selected", 1)
		case len(findings) == 0:
			c.Inconclusive("the delayed request never reached its hook (hooks.diff / hooks2.diff not compiled in?)")
		}
	}
	for _, n := range hookNames {
		c.Count("hook "+n, verifhook.Hits(n))
	}
	for _, f := range findings {
		c.Count("sig "+f.sig, 1)
		c.Violate(f.sig, f.what, witness{Sched: s, Log: lg})
		sigs = append(sigs, f.sig)
		if verbose {
			t.Logf("VIOLATION %s: %s", f.sig, f.what)
		}
	}
	return sigs
}

func TestCheck(t *testing.T) {
	c := rig.NewCheck(t, "C11", "exploration")
	defer c.Finish()
	c.Rule = "schedules = seeded swamp (6-14 msgpack records, expiry instants before / exactly at / after the claim instant, optionally flushed to disk first) + 1-2 waves of 2-5 concurrent claimers (ShiftExpired, ShiftMatching on the expiry/key/creation index with windows, AND/OR filters with indexable and residual legs, HowMany, MaxResults; PatchExpired with filters, condition, slide) and 0-4 concurrent Set / PatchTreasures / Delete / ShiftByKeys on the same keys, all released at one virtual instant in a synctest bubble (race build); 40% of the schedules delay one claimer 1 virtual ms at a hook (after predicate construction / after selection) while the mutators aim at the records it would take. non-trivial = at least two claimers overlapped in time and at least one record was handed out; distinct = distinct schedule JSON"
	c.Assumptions = []string{
		"eligibility is judged on the record as returned: a Shift* call evaluates its criteria and copies the record under one hold of the record's guard, so the returned record is the record that was judged; PatchExpired returns the post-patch record, so its selection criteria are only judged when no Set/PatchTreasures on that key ran between the start of the selection and the answer (otherwise counted as pex_unjudged)",
		"expiry boundary: documentation says ExpiredAt < now (strict); a returned record with ExpiredAt >= the virtual time at which the call returned is a violation",
		"PatchExpired counts as a claim of a record when it answers PATCHED and slides the expiry into the future; two such claims of one record version are a violation unless a Set / PatchTreasures that (re)sets the expiry overlapped or ran in between",
		"ShiftByKeys is a mutator here, not a claimer: a record popped by key and by an overlapping claimer is counted (bycatch), not judged",
		"an acknowledged Delete of a key removes every version written (acknowledged) before the Delete started; the Delete response does not say which version it removed",
		"oldest-first is judged only for records nobody touched: seeded, no mutator names the key, in no PatchExpired answer, still present afterwards",
		"'in index order' is judged on the returned attributes (ExpiredAt / key / CreatedAt), leaving out records whose sort attribute another request was rewriting while the claim ran",
		"conservation (claimed + remaining + deleted/overwritten = created) is the design's clause, not a sentence of the property statement: a version that an acknowledged Set or patch wrote and that is gone without having been handed out is reported under conservation:lost",
		"a request that never returns: when every request goroutine of the bubble is parked on an index lock or a record guard in two goroutine dumps taken one second apart, the schedule is reported as a lock-order deadlock (hang:*, DESIGN 2.2); the property statement itself does not speak about termination",
		"ordered indexes are built before the concurrent phase (a save racing with a cold index build is C07-F5); the swamp keeps an anchor record so that it never destroys itself while requests run (C16)",
		"recovered panics and data-race reports are counted, not judged (C10)",
		"not driven: the *Many batch variants, Cap (C12), value indexes, V1 engine, eviction / reload during the claims",
	}
	n := c.N(200, 4000)
	fixed := fixedCases()
	caseAt := func(j int) sched {
		if j < len(fixed) {
			return fixed[j]
		}
		return gen(c, j-len(fixed))
	}
	total := n + len(fixed)
	switch {
	case c.ReplayPath() != "":
		var w struct {
			Sig     string  `json:"sig"`
			Witness witness `json:"witness"`
		}
		rig.ReadJSON(c.ReplayPath(), &w)
		c.MinNontrivial = 0
		if w.Witness.Log != nil && w.Witness.Log.Events != nil {
			// the recorded log judged again by today's oracle (racy schedules rarely repeat)
			still := false
			fs, _ := checkLog(&w.Witness.Sched, w.Witness.Log)
			for _, f := range fs {
				fmt.Printf("RECHECK recorded log: %s: %s\n", f.sig, f.what)
				still = still || f.sig == w.Sig
			}
			fmt.Printf("RECHECK property=C11 sig=%s on the recorded log: still-a-violation=%v\n", w.Sig, still)
		}
		reps, hit := 25, 0
		for i := 0; i < reps; i++ {
			stop := watchdog(c, &w.Witness.Sched) // a dead-locked replay reports the deadlock and exits
			for _, s := range runOne(c, t, w.Witness.Sched, i == 0) {
				if s == w.Sig {
					hit++
					break
				}
			}
			stop()
		}
		fmt.Printf("REPLAY property=C11 sig=%s reproduced %d of %d runs\n", w.Sig, hit, reps)
	case c.IsChild():
		var sp shard
		c.ChildSpec(&sp)
		for j := sp.From; j < sp.To; j++ {
			sc := caseAt(j)
			stop := watchdog(c, &sc)
			runOne(c, t, sc, false)
			stop()
		}
	case os.Getenv("C11_INPROC") != "":
		if v, err := strconv.Atoi(os.Getenv("C11_INPROC")); err == nil && v > 0 && v < total {
			total = v
		}
		for j := 0; j < total; j++ {
			sc := caseAt(j)
			stop := watchdog(c, &sc)
			runOne(c, t, sc, true)
			stop()
		}
	default:
		c.MinNontrivial = n / 4
		// one schedule per child process: a request that deadlocks on a mutex never lets the bubble
		// become quiescent, the process has to be given up
		var specs []any
		for from := 0; from < total; from++ {
			specs = append(specs, shard{From: from, To: from + 1})
		}
		raceSigs := map[string]int{}
		for _, r := range c.Fanout(specs, rig.FanoutOpts{Par: 16, Timeout: 3 * time.Minute}) {
			if r.TimedOut || r.NoPartial || len(r.Fatal) > 0 {
				// (the exit status is not looked at: a race report makes the test binary exit non-zero)
				c.Case(fmt.Sprintf("child-lost-%v", r.Spec), false)
				c.Inconclusive(fmt.Sprintf("child %v: timeout=%v nopartial=%v fatal=%v log=%s", r.Spec, r.TimedOut, r.NoPartial, r.Fatal, r.LogPath))
			}
			for _, rr := range r.Races {
				raceSigs[rr.Sig]++
			}
		}
		var rs []string
		for s, k := range raceSigs {
			rs = append(rs, fmt.Sprintf("%s x%d", s, k))
		}
		sort.Strings(rs)
		c.Extra("race_reports_not_judged_here", rs)
	}
}
