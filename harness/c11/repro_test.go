package c11

import (
	"context"
	"testing"
	"testing/synctest"
	"time"

	hydrapb "github.com/hydraide/hydraide/sdk/go/hydraidego/v3/hydraidepbgo"

	"verifharness/rig"
)

// Minimal sequential reproducers of findings of the C11 monitor (not part of TestCheck):
//
//	cd /verif/harness && GOFLAGS=-mod=mod GOPROXY=off go test -tags verif -run TestRepro -v ./c11/

// TestReproShiftMatchingEmptyCandidateSet: a ShiftMatching whose indexed (EQUAL / IN) leg matches
// no record at all claims and deletes every record instead of none
// (gateway_shift_matching.go buildShiftMatchingPredicate: `keySet != nil` is false for the nil map
// candidateKeySet returns on an empty candidate list, so the indexed leg is skipped).
func TestReproShiftMatchingEmptyCandidateSet(t *testing.T) {
	root := rig.TempRoot("c11repro")
	defer rig.RemoveAll(root)
	synctest.Test(t, func(t *testing.T) {
		r := rig.New(rig.Options{Root: root, CloseAfterIdle: 3600})
		defer func() { r.Stop(); time.Sleep(2 * time.Minute) }()
		r.Register("c11/q/*", false, 3600, 1)
		ctx, island := context.Background(), rig.Island(swampName)
		d := &driver{r: r, ctx: ctx, island: island}
		kvs := []*hydrapb.KeyValuePair{
			{Key: "a", BytesVal: encodeBody(1, "pending", "a", 1)},
			{Key: "b", BytesVal: encodeBody(2, "run", "b", 2)},
		}
		if _, err := d.setReq(kvs); err != nil {
			t.Fatal(err)
		}
		resp, err := r.GW.ShiftMatchingTreasures(ctx, &hydrapb.ShiftMatchingTreasuresRequest{IslandID: island, SwampName: swampName, IndexType: hydrapb.IndexType_KEY,
			Filters: pbFilter(&filt{Legs: []leg{{F: "st", Op: "eq", S: "done"}}}, 0)})
		if err != nil {
			t.Fatal(err)
		}
		for _, tr := range resp.GetTreasures() {
			b := decodeBody(tr.GetBytesVal())
			t.Errorf("ShiftMatching(st == \"done\") claimed and deleted key %s whose st is %q", tr.GetKey(), b.St)
		}
	})
}
