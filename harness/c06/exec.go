// exec.go — turns an op into the real protobuf request, calls the gateway handler (the same
// entry point gRPC dispatches to) and converts the answer into the neutral obs struct.
package c06

import (
	"context"
	"time"

	hydrapb "github.com/hydraide/hydraide/sdk/go/hydraidego/v3/hydraidepbgo"
	"google.golang.org/grpc/status"
	"google.golang.org/protobuf/types/known/timestamppb"

	"verifharness/rig"
)

func ts(n int64) *timestamppb.Timestamp {
	if n == 0 {
		return nil
	}
	return timestamppb.New(time.Unix(0, n).UTC())
}

func tsNanos(t *timestamppb.Timestamp) int64 {
	if t == nil {
		return 0
	}
	return t.AsTime().UnixNano()
}

func strp(s string) *string {
	if s == "" {
		return nil
	}
	return &s
}

func toErr(err error) *obsErr {
	if err == nil {
		return nil
	}
	if s, ok := status.FromError(err); ok {
		return &obsErr{Code: s.Code().String(), Msg: s.Message()}
	}
	return &obsErr{Code: "non-status", Msg: err.Error()}
}

func kvToProto(kv kvReq) *hydrapb.KeyValuePair {
	p := &hydrapb.KeyValuePair{Key: kv.Key}
	v := kv.Val
	switch v.K {
	case kInt8:
		x := int32(v.I)
		p.Int8Val = &x
	case kInt16:
		x := int32(v.I)
		p.Int16Val = &x
	case kInt32:
		x := int32(v.I)
		p.Int32Val = &x
	case kInt64:
		x := v.I
		p.Int64Val = &x
	case kUint8:
		x := uint32(v.U)
		p.Uint8Val = &x
	case kUint16:
		x := uint32(v.U)
		p.Uint16Val = &x
	case kUint32:
		x := uint32(v.U)
		p.Uint32Val = &x
	case kUint64:
		x := v.U
		p.Uint64Val = &x
	case kFloat32:
		x := float32(v.F)
		p.Float32Val = &x
	case kFloat64:
		x := v.F
		p.Float64Val = &x
	case kString:
		x := v.S
		p.StringVal = &x
	case kBool:
		b := hydrapb.Boolean_FALSE
		if v.T {
			b = hydrapb.Boolean_TRUE
		}
		p.BoolVal = &b
	case kBytes:
		p.BytesVal = append([]byte{}, v.B...)
	case kSlice:
		p.Uint32Slice = append([]uint32{}, v.L...)
	case kVoid:
		t := true
		p.VoidVal = &t
	}
	p.CreatedAt, p.UpdatedAt, p.ExpiredAt = ts(kv.Meta.CreatedAt), ts(kv.Meta.UpdatedAt), ts(kv.Meta.ExpiredAt)
	p.CreatedBy, p.UpdatedBy = strp(kv.Meta.CreatedBy), strp(kv.Meta.UpdatedBy)
	return p
}

func treasureFromProto(t *hydrapb.Treasure) obsTreasure {
	o := obsTreasure{Key: t.GetKey(), Exist: t.GetIsExist()}
	add := func(v value) { o.Vals = append(o.Vals, v) }
	if t.Int8Val != nil {
		add(value{K: kInt8, I: int64(*t.Int8Val)})
	}
	if t.Int16Val != nil {
		add(value{K: kInt16, I: int64(*t.Int16Val)})
	}
	if t.Int32Val != nil {
		add(value{K: kInt32, I: int64(*t.Int32Val)})
	}
	if t.Int64Val != nil {
		add(value{K: kInt64, I: *t.Int64Val})
	}
	if t.Uint8Val != nil {
		add(value{K: kUint8, U: uint64(*t.Uint8Val)})
	}
	if t.Uint16Val != nil {
		add(value{K: kUint16, U: uint64(*t.Uint16Val)})
	}
	if t.Uint32Val != nil {
		add(value{K: kUint32, U: uint64(*t.Uint32Val)})
	}
	if t.Uint64Val != nil {
		add(value{K: kUint64, U: *t.Uint64Val})
	}
	if t.Float32Val != nil {
		add(value{K: kFloat32, F: float64(*t.Float32Val)})
	}
	if t.Float64Val != nil {
		add(value{K: kFloat64, F: *t.Float64Val})
	}
	if t.StringVal != nil {
		add(value{K: kString, S: *t.StringVal})
	}
	if t.BoolVal != nil {
		add(value{K: kBool, T: *t.BoolVal == hydrapb.Boolean_TRUE})
	}
	if t.BytesVal != nil {
		add(value{K: kBytes, B: append([]byte{}, t.BytesVal...)})
	}
	if len(t.Uint32Slice) > 0 {
		add(value{K: kSlice, L: append([]uint32{}, t.Uint32Slice...)})
	}
	o.CAt, o.UAt, o.EAt = tsNanos(t.CreatedAt), tsNanos(t.UpdatedAt), tsNanos(t.ExpiredAt)
	o.CBy, o.UBy = t.GetCreatedBy(), t.GetUpdatedBy()
	return o
}

func treasuresFromProto(ts []*hydrapb.Treasure) []obsTreasure {
	out := []obsTreasure{}
	for _, t := range ts {
		if t != nil {
			out = append(out, treasureFromProto(t))
		}
	}
	return out
}

func incMetaToProto(m *incMeta) *hydrapb.IncrementRequestMetadata {
	if m == nil {
		return nil
	}
	p := &hydrapb.IncrementRequestMetadata{CreatedBy: strp(m.CreatedBy), UpdatedBy: strp(m.UpdatedBy), ExpiredAt: ts(m.ExpiredAt)}
	if m.CreatedAt {
		t := true
		p.CreatedAt = &t
	}
	if m.UpdatedAt {
		t := true
		p.UpdatedAt = &t
	}
	return p
}

var relOp = map[string]hydrapb.Relational_Operator{"EQ": hydrapb.Relational_EQUAL, "NE": hydrapb.Relational_NOT_EQUAL, "GT": hydrapb.Relational_GREATER_THAN, "GE": hydrapb.Relational_GREATER_THAN_OR_EQUAL, "LT": hydrapb.Relational_LESS_THAN, "LE": hydrapb.Relational_LESS_THAN_OR_EQUAL}

func incObs(v value, inc bool, m *hydrapb.IncrementResponseMetadata) *obsInc {
	o := &obsInc{Val: v, Incremented: inc}
	if m != nil {
		o.CAt, o.UAt, o.EAt = tsNanos(m.CreatedAt), tsNanos(m.UpdatedAt), tsNanos(m.ExpiredAt)
		o.CBy, o.UBy = m.GetCreatedBy(), m.GetUpdatedBy()
	}
	return o
}

// call executes one request. It runs in its own goroutine inside the bubble.
func call(r *rig.Rig, c *caseT, o *op) *obs {
	ctx := context.Background()
	gw := r.GW
	ob := &obs{T0: time.Now().UnixNano()}
	defer func() { ob.T1 = time.Now().UnixNano() }()
	name := func(i int) string { return c.Swamps[i].Name }
	isl := func(i int) uint64 { return rig.Island(c.Swamps[i].Name) }
	switch o.RPC {
	case "Set":
		req := &hydrapb.SetRequest{}
		for _, p := range o.Parts {
			sr := &hydrapb.SwampRequest{IslandID: isl(p.Sw), SwampName: name(p.Sw), CreateIfNotExist: p.Create, Overwrite: p.Overwrite}
			for _, kv := range p.KVs {
				sr.KeyValues = append(sr.KeyValues, kvToProto(kv))
			}
			req.Swamps = append(req.Swamps, sr)
		}
		resp, err := gw.Set(ctx, req)
		ob.Err, ob.NilResp = toErr(err), resp == nil
		for _, s := range resp.GetSwamps() {
			os := obsSwampStatuses{Name: s.GetSwampName()}
			if s.ErrorCode != nil {
				os.ErrCode = s.ErrorCode.String()
			}
			for _, ks := range s.GetKeysAndStatuses() {
				os.Statuses = append(os.Statuses, obsKS{ks.GetKey(), ks.GetStatus().String()})
			}
			ob.Statuses = append(ob.Statuses, os)
		}
	case "Get":
		req := &hydrapb.GetRequest{}
		for _, p := range o.Parts {
			req.Swamps = append(req.Swamps, &hydrapb.GetSwamp{IslandID: isl(p.Sw), SwampName: name(p.Sw), Keys: p.Keys})
		}
		resp, err := gw.Get(ctx, req)
		ob.Err, ob.NilResp = toErr(err), resp == nil
		for _, s := range resp.GetSwamps() {
			ob.Gets = append(ob.Gets, obsGetSwamp{Name: s.GetSwampName(), IsExist: s.GetIsExist(), Treasures: treasuresFromProto(s.GetTreasures())})
		}
	case "GetAll":
		resp, err := gw.GetAll(ctx, &hydrapb.GetAllRequest{IslandID: isl(o.Sw), SwampName: name(o.Sw)})
		ob.Err, ob.NilResp = toErr(err), resp == nil
		ob.Treasures = treasuresFromProto(resp.GetTreasures())
	case "GetByKeys":
		resp, err := gw.GetByKeys(ctx, &hydrapb.GetByKeysRequest{IslandID: isl(o.Sw), SwampName: name(o.Sw), Keys: o.Keys, ExcludeKeys: o.Exclude, IncludedKeys: o.Include, KeysOnly: o.KeysOnly})
		ob.Err, ob.NilResp = toErr(err), resp == nil
		ob.Treasures = treasuresFromProto(resp.GetTreasures())
	case "ShiftByKeys":
		resp, err := gw.ShiftByKeys(ctx, &hydrapb.ShiftByKeysRequest{IslandID: isl(o.Sw), SwampName: name(o.Sw), Keys: o.Keys})
		ob.Err, ob.NilResp = toErr(err), resp == nil
		ob.Treasures = treasuresFromProto(resp.GetTreasures())
	case "Delete":
		req := &hydrapb.DeleteRequest{}
		for _, p := range o.Parts {
			req.Swamps = append(req.Swamps, &hydrapb.DeleteRequest_SwampKeys{IslandID: isl(p.Sw), SwampName: name(p.Sw), Keys: p.Keys})
		}
		resp, err := gw.Delete(ctx, req)
		ob.Err, ob.NilResp = toErr(err), resp == nil
		for _, s := range resp.GetResponses() {
			os := obsSwampStatuses{Name: s.GetSwampName()}
			if s.ErrorCode != nil {
				os.ErrCode = s.ErrorCode.String()
			}
			for _, ks := range s.GetKeyStatuses() {
				os.Statuses = append(os.Statuses, obsKS{ks.GetKey(), ks.GetStatus().String()})
			}
			ob.Statuses = append(ob.Statuses, os)
		}
	case "Count":
		req := &hydrapb.CountRequest{}
		for _, p := range o.Parts {
			req.Swamps = append(req.Swamps, &hydrapb.CountRequest_SwampIdentifier{IslandID: isl(p.Sw), SwampName: name(p.Sw)})
		}
		resp, err := gw.Count(ctx, req)
		ob.Err, ob.NilResp = toErr(err), resp == nil
		for _, s := range resp.GetSwamps() {
			ob.Counts = append(ob.Counts, obsCount{Name: s.GetSwampName(), IsExist: s.GetIsExist(), Count: s.GetCount()})
		}
	case "IsSwampExist":
		resp, err := gw.IsSwampExist(ctx, &hydrapb.IsSwampExistRequest{IslandID: isl(o.Sw), SwampName: name(o.Sw)})
		ob.Err, ob.NilResp, ob.Bool = toErr(err), resp == nil, resp.GetIsExist()
	case "IsKeyExist":
		resp, err := gw.IsKeyExist(ctx, &hydrapb.IsKeyExistRequest{IslandID: isl(o.Sw), SwampName: name(o.Sw), Key: o.Key})
		ob.Err, ob.NilResp, ob.Bool = toErr(err), resp == nil, resp.GetIsExist()
	case "AreKeysExist":
		resp, err := gw.AreKeysExist(ctx, &hydrapb.AreKeysExistRequest{IslandID: isl(o.Sw), SwampName: name(o.Sw), Keys: o.Keys})
		ob.Err, ob.NilResp = toErr(err), resp == nil
		ob.Map = map[string]bool{}
		for k, v := range resp.GetResults() {
			ob.Map[k] = v
		}
	case "Destroy":
		resp, err := gw.Destroy(ctx, &hydrapb.DestroyRequest{IslandID: isl(o.Sw), SwampName: name(o.Sw)})
		ob.Err, ob.NilResp = toErr(err), resp == nil
	case "Uint32SlicePush":
		req := &hydrapb.AddToUint32SlicePushRequest{IslandID: isl(o.Sw), SwampName: name(o.Sw)}
		for _, p := range o.Pairs {
			req.KeySlicePairs = append(req.KeySlicePairs, &hydrapb.KeySlicePair{Key: p.Key, Values: p.Values})
		}
		resp, err := gw.Uint32SlicePush(ctx, req)
		ob.Err, ob.NilResp = toErr(err), resp == nil
	case "Uint32SliceDelete":
		req := &hydrapb.Uint32SliceDeleteRequest{IslandID: isl(o.Sw), SwampName: name(o.Sw)}
		for _, p := range o.Pairs {
			req.KeySlicePairs = append(req.KeySlicePairs, &hydrapb.KeySlicePair{Key: p.Key, Values: p.Values})
		}
		resp, err := gw.Uint32SliceDelete(ctx, req)
		ob.Err, ob.NilResp = toErr(err), resp == nil
	case "Uint32SliceSize":
		resp, err := gw.Uint32SliceSize(ctx, &hydrapb.Uint32SliceSizeRequest{IslandID: isl(o.Sw), SwampName: name(o.Sw), Key: o.Key})
		ob.Err, ob.NilResp, ob.Size = toErr(err), resp == nil, resp.GetSize()
	case "Uint32SliceIsValueExist":
		resp, err := gw.Uint32SliceIsValueExist(ctx, &hydrapb.Uint32SliceIsValueExistRequest{IslandID: isl(o.Sw), SwampName: name(o.Sw), Key: o.Key, Value: o.Val})
		ob.Err, ob.NilResp, ob.Bool = toErr(err), resp == nil, resp.GetIsExist()
	default:
		callIncrement(ctx, r, c, o, ob)
	}
	return ob
}

func callIncrement(ctx context.Context, r *rig.Rig, c *caseT, o *op, ob *obs) {
	gw := r.GW
	sn, isl := c.Swamps[o.Sw].Name, rig.Island(c.Swamps[o.Sw].Name)
	ifNot, ifEx := incMetaToProto(o.IfNot), incMetaToProto(o.IfExist)
	var op hydrapb.Relational_Operator
	if o.Cond != nil {
		op = relOp[o.Cond.Op]
	}
	switch o.Kind {
	case kInt8:
		req := &hydrapb.IncrementInt8Request{IslandID: isl, SwampName: sn, Key: o.Key, IncrementBy: int32(o.DI), SetIfNotExist: ifNot, SetIfExist: ifEx}
		if o.Cond != nil {
			req.Condition = &hydrapb.IncrementInt8Condition{RelationalOperator: op, Value: int32(o.Cond.I)}
		}
		resp, err := gw.IncrementInt8(ctx, req)
		ob.Err, ob.NilResp = toErr(err), resp == nil
		if resp != nil {
			ob.Inc = incObs(value{K: kInt8, I: int64(resp.GetValue())}, resp.GetIsIncremented(), resp.GetMetadata())
		}
	case kInt16:
		req := &hydrapb.IncrementInt16Request{IslandID: isl, SwampName: sn, Key: o.Key, IncrementBy: int32(o.DI), SetIfNotExist: ifNot, SetIfExist: ifEx}
		if o.Cond != nil {
			req.Condition = &hydrapb.IncrementInt16Condition{RelationalOperator: op, Value: int32(o.Cond.I)}
		}
		resp, err := gw.IncrementInt16(ctx, req)
		ob.Err, ob.NilResp = toErr(err), resp == nil
		if resp != nil {
			ob.Inc = incObs(value{K: kInt16, I: int64(resp.GetValue())}, resp.GetIsIncremented(), resp.GetMetadata())
		}
	case kInt32:
		req := &hydrapb.IncrementInt32Request{IslandID: isl, SwampName: sn, Key: o.Key, IncrementBy: int32(o.DI), SetIfNotExist: ifNot, SetIfExist: ifEx}
		if o.Cond != nil {
			req.Condition = &hydrapb.IncrementInt32Condition{RelationalOperator: op, Value: int32(o.Cond.I)}
		}
		resp, err := gw.IncrementInt32(ctx, req)
		ob.Err, ob.NilResp = toErr(err), resp == nil
		if resp != nil {
			ob.Inc = incObs(value{K: kInt32, I: int64(resp.GetValue())}, resp.GetIsIncremented(), resp.GetMetadata())
		}
	case kInt64:
		req := &hydrapb.IncrementInt64Request{IslandID: isl, SwampName: sn, Key: o.Key, IncrementBy: o.DI, SetIfNotExist: ifNot, SetIfExist: ifEx}
		if o.Cond != nil {
			req.Condition = &hydrapb.IncrementInt64Condition{RelationalOperator: op, Value: o.Cond.I}
		}
		resp, err := gw.IncrementInt64(ctx, req)
		ob.Err, ob.NilResp = toErr(err), resp == nil
		if resp != nil {
			ob.Inc = incObs(value{K: kInt64, I: resp.GetValue()}, resp.GetIsIncremented(), resp.GetMetadata())
		}
	case kUint8:
		req := &hydrapb.IncrementUint8Request{IslandID: isl, SwampName: sn, Key: o.Key, IncrementBy: uint32(o.DU), SetIfNotExist: ifNot, SetIfExist: ifEx}
		if o.Cond != nil {
			req.Condition = &hydrapb.IncrementUint8Condition{RelationalOperator: op, Value: uint32(o.Cond.U)}
		}
		resp, err := gw.IncrementUint8(ctx, req)
		ob.Err, ob.NilResp = toErr(err), resp == nil
		if resp != nil {
			ob.Inc = incObs(value{K: kUint8, U: uint64(resp.GetValue())}, resp.GetIsIncremented(), resp.GetMetadata())
		}
	case kUint16:
		req := &hydrapb.IncrementUint16Request{IslandID: isl, SwampName: sn, Key: o.Key, IncrementBy: uint32(o.DU), SetIfNotExist: ifNot, SetIfExist: ifEx}
		if o.Cond != nil {
			req.Condition = &hydrapb.IncrementUint16Condition{RelationalOperator: op, Value: uint32(o.Cond.U)}
		}
		resp, err := gw.IncrementUint16(ctx, req)
		ob.Err, ob.NilResp = toErr(err), resp == nil
		if resp != nil {
			ob.Inc = incObs(value{K: kUint16, U: uint64(resp.GetValue())}, resp.GetIsIncremented(), resp.GetMetadata())
		}
	case kUint32:
		req := &hydrapb.IncrementUint32Request{IslandID: isl, SwampName: sn, Key: o.Key, IncrementBy: uint32(o.DU), SetIfNotExist: ifNot, SetIfExist: ifEx}
		if o.Cond != nil {
			req.Condition = &hydrapb.IncrementUint32Condition{RelationalOperator: op, Value: uint32(o.Cond.U)}
		}
		resp, err := gw.IncrementUint32(ctx, req)
		ob.Err, ob.NilResp = toErr(err), resp == nil
		if resp != nil {
			ob.Inc = incObs(value{K: kUint32, U: uint64(resp.GetValue())}, resp.GetIsIncremented(), resp.GetMetadata())
		}
	case kUint64:
		req := &hydrapb.IncrementUint64Request{IslandID: isl, SwampName: sn, Key: o.Key, IncrementBy: o.DU, SetIfNotExist: ifNot, SetIfExist: ifEx}
		if o.Cond != nil {
			req.Condition = &hydrapb.IncrementUint64Condition{RelationalOperator: op, Value: o.Cond.U}
		}
		resp, err := gw.IncrementUint64(ctx, req)
		ob.Err, ob.NilResp = toErr(err), resp == nil
		if resp != nil {
			ob.Inc = incObs(value{K: kUint64, U: resp.GetValue()}, resp.GetIsIncremented(), resp.GetMetadata())
		}
	case kFloat32:
		req := &hydrapb.IncrementFloat32Request{IslandID: isl, SwampName: sn, Key: o.Key, IncrementBy: float32(o.DF), SetIfNotExist: ifNot, SetIfExist: ifEx}
		if o.Cond != nil {
			req.Condition = &hydrapb.IncrementFloat32Condition{RelationalOperator: op, Value: float32(o.Cond.F)}
		}
		resp, err := gw.IncrementFloat32(ctx, req)
		ob.Err, ob.NilResp = toErr(err), resp == nil
		if resp != nil {
			ob.Inc = incObs(value{K: kFloat32, F: float64(resp.GetValue())}, resp.GetIsIncremented(), resp.GetMetadata())
		}
	case kFloat64:
		req := &hydrapb.IncrementFloat64Request{IslandID: isl, SwampName: sn, Key: o.Key, IncrementBy: o.DF, SetIfNotExist: ifNot, SetIfExist: ifEx}
		if o.Cond != nil {
			req.Condition = &hydrapb.IncrementFloat64Condition{RelationalOperator: op, Value: o.Cond.F}
		}
		resp, err := gw.IncrementFloat64(ctx, req)
		ob.Err, ob.NilResp = toErr(err), resp == nil
		if resp != nil {
			ob.Inc = incObs(value{K: kFloat64, F: resp.GetValue()}, resp.GetIsIncremented(), resp.GetMetadata())
		}
	}
}
