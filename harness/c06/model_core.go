// model_core.go — state of the sequential reference key-value model and shared helpers.
//
// The model is written from the documentation only (proto/hydraide.proto comments,
// docs/sdk/go/go-sdk.md, docs/features/swamp-lifecycle.md and the doc comments of the Go SDK);
// the sentence a rule comes from is quoted next to the rule. Where those sources are silent or
// contradict each other the model keeps several candidate states (or a wildcard) for a key and
// lets the next observation decide; such points are listed in unspecifiedPoints.
package c06

import (
	"fmt"
	"reflect"
	"sort"
	"strings"
)

type tri int

const (
	triNo tri = iota
	triYes
	triMaybe
)

func (t tri) String() string { return [...]string{"no", "yes", "maybe"}[t] }

// meta field: Any means "documentation does not determine it"; the next read fixes it.
type mt struct {
	Any bool
	V   int64
}
type ms struct {
	Any bool
	V   string
}

type record struct {
	Val           value
	CAt, UAt, EAt mt
	CBy, UBy      ms
}

type kstate struct {
	Absent bool
	R      record
}

type keyModel struct {
	wild     bool     // any state is possible (an unspecified situation was entered)
	cands    []kstate // otherwise: the key is in exactly one of these states
	prov     string   // label of the last mutation (for signatures)
	reloaded bool     // the swamp was evicted since the last mutation
	// loose: the key went through an unspecified situation (wildcard). Reads may have pinned its
	// visible state since, but whether that state is also what the storage holds, and whether an
	// unsaved change is still pending, is as unspecified as the situation itself: until the next
	// definite write an identical Set may answer UPDATED, and an eviction makes the key a
	// wildcard again.
	loose bool
}

type swampModel struct {
	cfg     swampCfg
	keys    map[string]*keyModel
	shell   tri    // existence of the swamp while it holds no key: triNo or triMaybe
	goneWhy string // why shell is triNo
}

type model struct {
	sw [2]*swampModel
}

type viol struct{ sig, what string }

func newModel(c *caseT) *model {
	m := &model{}
	for i := range c.Swamps {
		sm := &swampModel{cfg: c.Swamps[i], keys: map[string]*keyModel{}, shell: triNo, goneWhy: "fresh"}
		for _, k := range keyNames {
			sm.keys[k] = &keyModel{cands: []kstate{{Absent: true}}, prov: "fresh"}
		}
		m.sw[i] = sm
	}
	return m
}

func (m *model) byName(n string) *swampModel {
	for _, s := range m.sw {
		if s.cfg.Name == n {
			return s
		}
	}
	return nil
}

func (km *keyModel) definitelyPresent() bool {
	if km.wild {
		return false
	}
	for _, c := range km.cands {
		if c.Absent {
			return false
		}
	}
	return true
}

func (km *keyModel) possiblyPresent() bool {
	if km.wild {
		return true
	}
	for _, c := range km.cands {
		if !c.Absent {
			return true
		}
	}
	return false
}

func (km *keyModel) setAbsent(prov string) {
	km.loose = false
	km.wild = false
	km.cands = []kstate{{Absent: true}}
	km.prov = prov
	km.reloaded = false
}

func (km *keyModel) setWild(prov string) {
	km.loose = true
	km.wild = true
	km.cands = nil
	km.prov = prov
	km.reloaded = false
}

func (km *keyModel) single() (kstate, bool) {
	if !km.wild && len(km.cands) == 1 {
		return km.cands[0], true
	}
	return kstate{}, false
}

// label describes the key's state for signatures.
func (km *keyModel) label() string {
	if km.wild {
		return "unspecified"
	}
	if len(km.cands) != 1 {
		return "ambiguous"
	}
	if km.cands[0].Absent {
		return "absent"
	}
	return km.cands[0].R.Val.K.sigClass()
}

// exist: "When the last Treasure is removed from a Swamp, the Swamp itself is removed"
// (swamp-lifecycle.md); "A valid Swamp will always contain at least 1 Treasure" (SDK Count).
func (s *swampModel) exist() tri {
	possible := false
	for _, km := range s.keys {
		if km.definitelyPresent() {
			return triYes
		}
		if km.possiblyPresent() {
			possible = true
		}
	}
	if possible {
		return triMaybe
	}
	return s.shell
}

func (s *swampModel) countRange() (lo, hi int) {
	for _, km := range s.keys {
		if km.definitelyPresent() {
			lo++
		}
		if km.possiblyPresent() {
			hi++
		}
	}
	return
}

func (s *swampModel) mode() string {
	if s.cfg.InMem {
		return "mem"
	}
	if s.cfg.WriteSec == 0 {
		return "disk-immediate" // WriteInterval 0: every Save is flushed at once
	}
	return "disk"
}

// touchedEmpty: an operation that may create the swamp (or about whose side effects on a
// non-existing swamp the documentation says nothing) ran; an empty swamp may now exist or not.
func (s *swampModel) touchedEmpty() {
	s.shell = triMaybe
	s.goneWhy = ""
}

// afterRemoval applies "The same call that deletes the last entry also tears the Swamp down"
// (swamp-lifecycle.md) after a request that reported removed keys.
func (s *swampModel) afterRemoval(removedAny bool, why string) {
	if !removedAny {
		return
	}
	for _, km := range s.keys {
		if km.possiblyPresent() {
			return
		}
	}
	s.shell = triNo
	s.goneWhy = why
}

// judge runs j over every candidate state; candidates the observation contradicts are dropped.
// When no candidate survives the first contradiction is returned.
func (km *keyModel) judge(j func(s kstate) ([]kstate, *viol)) *viol {
	var next []kstate
	var first *viol
	for _, s := range km.cands {
		n, v := j(s)
		if v != nil {
			if first == nil {
				first = v
			}
			continue
		}
		next = append(next, n...)
	}
	if len(next) == 0 {
		if first == nil {
			first = &viol{"model:internal:no-candidate", "judge produced no state"}
		}
		return first
	}
	var ded []kstate
	for _, n := range next {
		dup := false
		for _, d := range ded {
			if reflect.DeepEqual(d, n) {
				dup = true
				break
			}
		}
		if !dup {
			ded = append(ded, n)
		}
	}
	if len(ded) > 6 {
		km.wild, km.cands = true, nil
		return nil
	}
	km.cands = ded
	return nil
}

func recordFromObs(t obsTreasure) record {
	r := record{Val: value{K: kVoid}}
	if len(t.Vals) > 0 {
		r.Val = t.Vals[0]
	}
	r.CAt, r.UAt, r.EAt = mt{V: t.CAt}, mt{V: t.UAt}, mt{V: t.EAt}
	r.CBy, r.UBy = ms{V: t.CBy}, ms{V: t.UBy}
	return r
}

func zeroMark(v value) string {
	if v.K != kVoid && v.isZero() {
		return ":zero"
	}
	return ""
}

func provSuffix(km *keyModel) string {
	s := ":last=" + km.prov
	if km.reloaded {
		s += ":reloaded"
	}
	return s
}

// matchRecord compares a stored record with a returned treasure. Fields the documentation leaves
// open (Any) are adopted from the observation.
func matchRecord(rpc string, km *keyModel, r record, t obsTreasure) (record, *viol) {
	if len(t.Vals) > 1 {
		return r, &viol{fmt.Sprintf("read:%s:multiple-value-fields%s", rpc, provSuffix(km)), fmt.Sprintf("treasure %s carries %d value fields: %s", t.Key, len(t.Vals), t)}
	}
	ov := value{K: kVoid}
	if len(t.Vals) == 1 {
		ov = t.Vals[0]
	}
	if ov.K == kSlice && len(dedupe(ov.L)) != len(ov.L) {
		// KeyValuePair.Uint32Slice: "deduplicated automatically by HydrAIDE: each number can only exist once"
		return r, &viol{fmt.Sprintf("read:%s:slice-holds-duplicates%s", rpc, provSuffix(km)), fmt.Sprintf("key %s: %s returned a uint32 set with repeated members: %s (model %s)", t.Key, rpc, t, r.Val)}
	}
	if !valueEqual(r.Val, ov) {
		mk, ok := r.Val.K, ov.K
		if r.Val.emptyish() && ov.emptyish() {
			mk, ok = "empty", "empty"
		}
		if km.reloaded && r.Val.K != kVoid && r.Val.isZero() && ov.K == kVoid {
			// one defect, many carriers: a stored zero value comes back as "no value" after the
			// swamp was closed and loaded again
			return r, &viol{fmt.Sprintf("reload:zero-value-lost:kind=%s", r.Val.K.class()), fmt.Sprintf("key %s: model holds %s (written by %s), after eviction and reload %s returned %s", t.Key, r.Val, km.prov, rpc, t)}
		}
		if mk != ok {
			return r, &viol{fmt.Sprintf("read:%s:kind:model=%s%s:obs=%s%s", rpc, r.Val.K.sigClass(), zeroMark(r.Val), ov.K.sigClass(), provSuffix(km)),
				fmt.Sprintf("key %s: model holds %s, %s returned %s", t.Key, r.Val, rpc, t)}
		}
		return r, &viol{fmt.Sprintf("read:%s:value:kind=%s%s%s", rpc, r.Val.K.class(), zeroMark(r.Val), provSuffix(km)),
			fmt.Sprintf("key %s: model holds %s, %s returned %s", t.Key, r.Val, rpc, t)}
	}
	chkT := func(name string, f *mt, got int64) *viol {
		if f.Any {
			*f = mt{V: got}
			return nil
		}
		if f.V != got {
			cls := "other"
			if got == 0 {
				cls = "unset"
			} else if f.V == 0 {
				cls = "set-but-model-unset"
			}
			return &viol{fmt.Sprintf("read:%s:meta:%s:obs=%s%s", rpc, name, cls, provSuffix(km)), fmt.Sprintf("key %s: model %s=%d, %s returned %d (%s)", t.Key, name, f.V, rpc, got, t)}
		}
		return nil
	}
	chkS := func(name string, f *ms, got string) *viol {
		if f.Any {
			*f = ms{V: got}
			return nil
		}
		if f.V != got {
			cls := "other"
			if got == "" {
				cls = "unset"
			} else if f.V == "" {
				cls = "set-but-model-unset"
			}
			return &viol{fmt.Sprintf("read:%s:meta:%s:obs=%s%s", rpc, name, cls, provSuffix(km)), fmt.Sprintf("key %s: model %s=%q, %s returned %q (%s)", t.Key, name, f.V, rpc, got, t)}
		}
		return nil
	}
	for _, v := range []*viol{chkT("createdAt", &r.CAt, t.CAt), chkS("createdBy", &r.CBy, t.CBy), chkT("updatedAt", &r.UAt, t.UAt), chkS("updatedBy", &r.UBy, t.UBy), chkT("expiredAt", &r.EAt, t.EAt)} {
		if v != nil {
			return r, v
		}
	}
	return r, nil
}

// readKey checks one key of a read response. found==nil: the key is not in the response.
// keysOnly: the response carries no content by request.
func (m *model) readKey(rpc string, sm *swampModel, key string, found *obsTreasure, keysOnly bool) *viol {
	km := sm.keys[key]
	if found != nil && !found.Exist && (len(found.Vals) > 0 || found.CAt != 0 || found.CBy != "" || found.UAt != 0 || found.UBy != "" || found.EAt != 0) {
		// Treasure.IsExist: "If false: ... All value and metadata fields will be unset."
		return &viol{fmt.Sprintf("read:%s:not-exist-with-fields", rpc), fmt.Sprintf("treasure %s has IsExist=false but carries fields: %s", key, *found)}
	}
	if found != nil && found.Exist && keysOnly && (len(found.Vals) > 0 || found.CAt != 0 || found.CBy != "" || found.UAt != 0 || found.UBy != "" || found.EAt != 0) {
		// GetByKeysRequest.KeysOnly: "returns only Key + IsExist for each Treasure (no content or metadata)"
		return &viol{fmt.Sprintf("read:%s:keysOnly-with-fields", rpc), fmt.Sprintf("KeysOnly response for %s carries fields: %s", key, *found)}
	}
	obsAbsent := found == nil || !found.Exist
	if km.wild {
		if obsAbsent {
			km.wild, km.cands = false, []kstate{{Absent: true}}
		} else if !keysOnly && len(found.Vals) <= 1 {
			r := recordFromObs(*found)
			km.wild, km.cands = false, []kstate{{R: r}}
			if len(found.Vals) == 0 {
				// no value field on the wire: a void value or an empty uint32 set
				r2 := r
				r2.Val = value{K: kSlice}
				km.cands = append(km.cands, kstate{R: r2})
			}
		}
		return nil
	}
	return km.judge(func(s kstate) ([]kstate, *viol) {
		if s.Absent {
			if obsAbsent {
				return []kstate{s}, nil
			}
			return nil, &viol{fmt.Sprintf("read:%s:existence:model=absent:obs=present%s", rpc, provSuffix(km)), fmt.Sprintf("key %s/%s: model says absent, %s returned %s", sm.cfg.Name, key, rpc, *found)}
		}
		if obsAbsent {
			return nil, &viol{fmt.Sprintf("read:%s:existence:model=%s:obs=absent%s", rpc, s.R.Val.K.sigClass(), provSuffix(km)), fmt.Sprintf("key %s/%s: model holds %s, %s did not return it", sm.cfg.Name, key, s.R.Val, rpc)}
		}
		if keysOnly {
			return []kstate{s}, nil
		}
		r, v := matchRecord(rpc, km, s.R, *found)
		if v != nil {
			return nil, v
		}
		return []kstate{{R: r}}, nil
	})
}

// groupByKey indexes a treasure list. A key may come back as often as the request named it
// (what a repeated key in a key list means is not documented); more often, or a key that is not
// eligible, is a violation. All copies of a key must be identical.
func groupByKey(rpc string, ts []obsTreasure, allowed []string) (map[string]*obsTreasure, *viol) {
	mult := map[string]int{}
	for _, a := range allowed {
		mult[a]++
	}
	out := map[string]*obsTreasure{}
	seen := map[string]int{}
	for i := range ts {
		t := &ts[i]
		if mult[t.Key] == 0 {
			return nil, &viol{fmt.Sprintf("read:%s:unrequested-key", rpc), fmt.Sprintf("%s returned key %q which is not among the eligible keys %v", rpc, t.Key, allowed)}
		}
		seen[t.Key]++
		if seen[t.Key] > mult[t.Key] {
			return nil, &viol{fmt.Sprintf("read:%s:duplicate-key", rpc), fmt.Sprintf("%s returned key %q %d times, requested %d times", rpc, t.Key, seen[t.Key], mult[t.Key])}
		}
		if prev := out[t.Key]; prev != nil {
			if !reflect.DeepEqual(*prev, *t) {
				return nil, &viol{fmt.Sprintf("read:%s:copies-differ", rpc), fmt.Sprintf("%s returned key %q twice with different content: %s / %s", rpc, t.Key, *prev, *t)}
			}
			continue
		}
		out[t.Key] = t
	}
	return out, nil
}

func swampExistViol(rpc string, sm *swampModel, modelSays, obsSays string) *viol {
	ctx := sm.goneWhy
	if modelSays == "yes" {
		var ps []string
		for _, k := range keyNames {
			if sm.keys[k].definitelyPresent() {
				p := sm.keys[k].prov
				if sm.keys[k].reloaded {
					p += ":reloaded"
				}
				ps = append(ps, p)
			}
		}
		sort.Strings(ps)
		if len(ps) > 0 {
			ctx = "holds-key-from=" + ps[0]
		}
	}
	return &viol{fmt.Sprintf("%s:swamp-existence:model=%s:obs=%s:%s:%s", rpc, modelSays, obsSays, sm.mode(), ctx),
		fmt.Sprintf("%s on %s: model says swamp exists=%s, response says %s", rpc, sm.cfg.Name, modelSays, obsSays)}
}

// missingSwampErr: a read on a swamp that does not exist may answer FailedPrecondition
// (SDK: "If the Swamp does not exist → returns ErrCodeSwampNotFound", mapped from FailedPrecondition).
func missingSwampErr(e *obsErr) bool { return e != nil && e.Code == "FailedPrecondition" }

func uniq(ss []string) []string {
	sort.Strings(ss)
	var out []string
	for _, s := range ss {
		if len(out) == 0 || out[len(out)-1] != s {
			out = append(out, s)
		}
	}
	return out
}

func joinSit(parts []string) string {
	parts = uniq(parts)
	if len(parts) > 4 {
		parts = parts[:4]
	}
	return strings.Join(parts, ",")
}

// unspecifiedPoints is reported in the evidence (c.Assumptions).
var unspecifiedPoints = []string{
	"unspecified: Set over an existing key without some metadata field — whether the stored CreatedAt/By, UpdatedAt/By, ExpiredAt survive or are cleared (both accepted, next read decides)",
	"unspecified: Set status when only metadata is (re)sent with identical values, or when the stored record carries metadata the request omits — UPDATED and NOTHING_CHANGED both accepted; NOTHING_CHANGED is demanded only for an identical value with no metadata involved",
	"unspecified: Set with a Uint32Slice over an existing uint32 set — replace and merge both accepted",
	"unspecified: Set with CreateIfNotExist=false and Overwrite=false (documented as a no-op): any response without a NEW/UPDATED/DELETED status accepted",
	"unspecified: whether an empty swamp exists after a creating/unspecified request left it without keys (failed-condition increment, slice operations on a missing swamp, in-memory eviction); existence answers are then unconstrained until a key exists, Destroy runs or the last key is deleted",
	"unspecified: form of the answer for a swamp that does not exist — FailedPrecondition error, ErrorCode=SwampDoesNotExist / IsExist=false in-band, or empty result all accepted, except AreKeysExist where the proto comment demands all-false",
	"unspecified: Get for a missing key may omit the treasure or return it with IsExist=false",
	"unspecified: Delete status for a missing key — anything but DELETED accepted",
	"unspecified: conditional Increment on a key that does not exist when the condition is false against 0 (applied or not, key created or not)",
	"unspecified: Increment with a failed condition and SetIfExist metadata — each touched field may keep the old or take the new value (taken from the response, then fixed)",
	"unspecified: Increment / Uint32SlicePush / Uint32SliceDelete on a key holding a void value (error or treated as empty)",
	"unspecified: after any of the unspecified situations above a key stays 'loose' until the next definite write: reads pin what is visible, but an identical Set may answer UPDATED and an eviction makes the key unconstrained again (whether the visible state had been persisted is part of what is unspecified)",
	"unspecified: arithmetic overflow of an Increment (any answer accepted, key becomes unconstrained)",
	"unspecified: Uint32SliceDelete that removes the last value — proto says the key is preserved, the SDK says the empty treasure (and an empty swamp) is removed; both accepted; Uint32SliceDelete on a non-slice key may fail or be a no-op but must not change the key",
	"unspecified: order of values in a uint32 set (the SDK documents append order for pushes only; compared as a set, repeated members are a violation); order of multi-key answers",
	"unspecified: a key named several times in one key list (Get, GetByKeys, Delete, AreKeysExist, ShiftByKeys) — it may be answered once or once per occurrence; for Delete at least one DELETED is demanded for an existing key, the other statuses are free",
	"unspecified: the order in which the items of one Set request are applied — for a key named several times in one request every order of its items is accepted, but the statuses and the stored value must equal some sequential processing (request order tried first); several sections for the same swamp in one Set are applied in request order; KeySlicePairs of one Push/Delete are applied in request order (set union/difference commute)",
	"unspecified: Uint32SlicePush with an empty value list on a missing key (key created empty or not); Uint32SliceDelete with an empty list is a no-op",
	"unspecified: error codes — only the presence of an error is checked, except FailedPrecondition for missing swamps",
	"in-memory swamps: data is demanded lost only after a virtual sleep of more than 3x CloseAfterIdle and demanded intact when the sleeps since the start/last eviction sum to less than CloseAfterIdle; nothing in between is generated",
	"every-request-returns is decided in bounded-progress form: a request not finished at the first quiescent point is a hang unless its goroutine waits for the clock (then up to 300 virtual seconds are granted)",
}
