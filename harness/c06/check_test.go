// C06 — single-client API behaves like a simple key-value model.
//
// Monitor: generated request sequences (one client, 2 swamps × 4 keys, every non-streaming data
// RPC of gateway.Gateway, in-memory and persistent patterns, virtual sleeps that flush and evict)
// run against the real engine inside a synctest bubble. Every request runs in its own goroutine;
// the controller calls synctest.Wait() after it: a request that has not returned at quiescence
// (a request that is merely waiting for the clock gets up to 300 virtual seconds) violates "every such request returns". Every answer is
// compared with the sequential reference model of model_*.go (written from the documentation);
// after the sequence the full contents are compared, before and after an eviction/reload.
//
// Process structure: a hung request leaves goroutines blocked for ever, and a bubble whose root
// returns while goroutines are blocked panics. So cases run in child processes (c.Fanout), several
// cases per child, one bubble and one rig per case. When a case hangs the child records the
// violation, hands its partial result to the parent (c.Finish) and exits at once (os.Exit) from
// inside the bubble; the parent re-queues the cases of that child which had not run yet. Nothing
// is ever unblocked artificially and no wall clock is involved in a verdict.
package c06

import (
	"crypto/sha256"
	"encoding/json"
	"fmt"
	"os"
	"runtime"
	"sort"
	"strconv"
	"strings"
	"testing"
	"testing/synctest"
	"time"

	"verifharness/rig"
)

type childSpec struct {
	Indices []int  `json:"indices,omitempty"`
	NOps    int    `json:"nOps"`
	Replay  *caseT `json:"replay,omitempty"`
}

// stepTrace is one executed step. The request is kept as a JSON string: witnesses travel from the
// child to the parent through a generic JSON decode, which would round 64-bit integers
// (nanosecond timestamps, uint64 values) to float64.
type stepTrace struct {
	I   int    `json:"i"`
	Op  string `json:"op"`
	RPC string `json:"-"`
	Cls string `json:"-"`
	Sit string `json:"situation"`
	Obs string `json:"answer"`
}

func opJSON(o *op) string {
	b, _ := json.Marshal(o)
	return string(b)
}

type outcome struct {
	sig, what   string
	hang        bool
	stack       string
	trace       []stepTrace
	answered    int
	mutations   int
	reads       int
	graceUsed   int
	probes      int
	slogErrors  []string
	unspecified int
}

var trace = os.Getenv("C06_TRACE") != ""
var traceOut = os.Stdout // replay children write the step trace to $C06_TRACE_OUT

func isMutating(rpc string) bool {
	switch rpc {
	case "Set", "Delete", "ShiftByKeys", "Destroy", "Uint32SlicePush", "Uint32SliceDelete":
		return true
	}
	return strings.HasPrefix(rpc, "Increment")
}

func isRead(rpc string) bool {
	switch rpc {
	case "Get", "GetAll", "GetByKeys", "ShiftByKeys":
		return true
	}
	return false
}

func sigRPC(o *op) string {
	if strings.HasPrefix(o.RPC, "Increment") {
		return incFamily(o.Kind)
	}
	return o.RPC
}

// probeOps: after every mutating request the harness reads the touched keys back (a plain Get by
// the same client), so that a write that did not do what it acknowledged is attributed to that
// write and not to whatever request happens to look at the key later.
func probeOps(o *op) []op {
	var out []op
	add := func(sw int, keys []string) {
		if len(keys) > 0 {
			out = append(out, op{RPC: "Get", Parts: []part{{Sw: sw, Keys: uniq(append([]string{}, keys...))}}})
		}
	}
	switch {
	case o.RPC == "Set":
		for _, p := range o.Parts {
			var ks []string
			for _, kv := range p.KVs {
				ks = append(ks, kv.Key)
			}
			add(p.Sw, ks)
		}
	case o.RPC == "Delete":
		for _, p := range o.Parts {
			add(p.Sw, p.Keys)
		}
	case o.RPC == "ShiftByKeys":
		add(o.Sw, o.Keys)
	case o.RPC == "Uint32SlicePush", o.RPC == "Uint32SliceDelete":
		var ks []string
		for _, p := range o.Pairs {
			ks = append(ks, p.Key)
		}
		add(o.Sw, ks)
	case strings.HasPrefix(o.RPC, "Increment"):
		add(o.Sw, []string{o.Key})
	}
	return out
}

func finalOps() []op {
	var ops []op
	for sw := 0; sw < 2; sw++ {
		ops = append(ops,
			op{RPC: "GetAll", Sw: sw},
			op{RPC: "Get", Parts: []part{{Sw: sw, Keys: keyNames[:]}}},
			op{RPC: "IsSwampExist", Sw: sw},
			op{RPC: "Count", Parts: []part{{Sw: sw}}},
			op{RPC: "AreKeysExist", Sw: sw, Keys: keyNames[:]},
		)
	}
	return ops
}

// runCase executes one case in its own bubble. onHang is called from inside the bubble when a
// request never returns; it must not return (the bubble cannot be left).
func runCase(t *testing.T, c *caseT, onHang func(out *outcome)) *outcome {
	out := &outcome{}
	root := rig.TempRoot("c06")
	defer rig.RemoveAll(root)
	sent := rig.InstallSentinel()
	sent.Drain()
	synctest.Test(t, func(t *testing.T) {
		r := rig.New(rig.Options{Root: root, CloseAfterIdle: c.IdleSec})
		for _, s := range c.Swamps {
			r.Register(s.Name, s.InMem, c.IdleSec, s.WriteSec)
		}
		m := newModel(c)
		fail := func(sig, what string) {
			if out.sig == "" {
				out.sig, out.what = sig, what
			}
		}
		// one request: own goroutine, quiescence, comparison
		do := func(i int, o *op, generated bool) bool {
			if o.RPC == "Sleep" {
				time.Sleep(time.Duration(o.SleepMs) * time.Millisecond)
				synctest.Wait()
				if o.SleepClass == "evict" {
					m.evict()
				}
				out.trace = append(out.trace, stepTrace{I: i, Op: opJSON(o), RPC: o.RPC, Cls: o.SleepClass, Sit: o.SleepClass})
				if trace {
					fmt.Fprintf(traceOut, "  #%d sleep %s %dms\n", i, o.SleepClass, o.SleepMs)
				}
				return true
			}
			sit := m.situation(o)
			done := make(chan *obs, 1)
			var stack []byte
			go func() {
				defer func() {
					if p := recover(); p != nil {
						buf := make([]byte, 16<<10)
						stack = buf[:runtime.Stack(buf, false)]
						done <- &obs{Err: &obsErr{Code: "harness-panic", Msg: fmt.Sprint(p)}}
					}
				}()
				done <- call(r, c, o)
			}()
			synctest.Wait()
			var ob *obs
			grace := 0
			for ob == nil {
				select {
				case ob = <-done:
				default:
					// Not finished although nothing in the bubble can run. Only a goroutine that is
					// waiting for the clock may be helped by advancing virtual time; anything else
					// (condition variable, channel, wait group) can never be woken any more.
					buf := make([]byte, 1<<20)
					dump := string(buf[:runtime.Stack(buf, true)])
					state, timed := requestWaitState(dump)
					if !timed || grace >= 300 {
						out.stack, out.hang = dump, true
						out.trace = append(out.trace, stepTrace{I: i, Op: opJSON(o), RPC: o.RPC, Sit: sit, Obs: "NEVER RETURNED"})
						fail("hang:"+sigRPC(o)+":"+sit, fmt.Sprintf("%s (%s) has not returned at quiescence (request goroutine blocked in %q, %d virtual seconds granted)", o.RPC, sit, state, grace))
						onHang(out)
						panic("onHang returned")
					}
					grace++
					time.Sleep(time.Second)
					synctest.Wait()
				}
			}
			if grace > 0 {
				out.graceUsed++
				m.blur()
			}
			if generated {
				out.answered++
			}
			st := stepTrace{I: i, Op: opJSON(o), RPC: o.RPC, Sit: sit, Obs: ob.String()}
			out.trace = append(out.trace, st)
			if trace {
				fmt.Fprintf(traceOut, "  #%d %s [%s]\n      -> %s\n", i, st.Op, sit, st.Obs)
			}
			if ob.Err != nil && ob.Err.Code == "harness-panic" {
				fail("harness:panic:"+o.RPC, ob.Err.Msg+"\n"+string(stack))
				return false
			}
			if ps := sent.Drain("panic"); len(ps) > 0 {
				fail("panic:"+sigRPC(o)+":"+sit, fmt.Sprintf("%s: the handler panicked (recovered by the gateway, client got response=%v err=%v): %s %s", o.RPC, !ob.NilResp, ob.Err, ps[0].Msg, ps[0].Attrs))
				return false
			}
			for _, e := range sent.Drain() {
				if len(out.slogErrors) < 20 {
					out.slogErrors = append(out.slogErrors, e.Class+": "+e.Msg)
				}
			}
			if v := m.apply(o, ob); v != nil {
				fail(v.sig, v.what)
				return false
			}
			if generated && isMutating(o.RPC) {
				out.mutations++
			}
			if generated && isRead(o.RPC) {
				out.reads++
			}
			return true
		}
		ok := true
		for i := range c.Ops {
			if ok = do(i, &c.Ops[i], true); !ok {
				break
			}
			for _, po := range probeOps(&c.Ops[i]) {
				po := po
				out.probes++
				if ok = do(i, &po, false); !ok {
					break
				}
			}
			if !ok {
				break
			}
		}
		// full contents vs the model, now and after eviction + reload
		if ok {
			n := len(c.Ops)
			for round := 0; round < 2 && ok; round++ {
				for _, o := range finalOps() {
					o := o
					if ok = do(n, &o, false); !ok {
						break
					}
					n++
				}
				if ok && round == 0 {
					o := op{RPC: "Sleep", SleepClass: "evict", SleepMs: evictSleepMs}
					do(n, &o, false)
					n++
				}
			}
		}
		for _, sm := range m.sw {
			for _, k := range keyNames {
				if sm.keys[k].wild || len(sm.keys[k].cands) > 1 {
					out.unspecified++
				}
			}
		}
		r.Stop()
		time.Sleep(2 * time.Minute)
	})
	return out
}

// requestWaitState finds the goroutine that runs the request (it has c06.call on its stack) in a
// full goroutine dump and returns its wait reason, and whether that wait can end by the clock
// advancing (sleep, or a select/receive that involves a timer or a context deadline).
func requestWaitState(dump string) (state string, timed bool) {
	for _, g := range strings.Split(dump, "\n\n") {
		if !strings.Contains(g, "c06.call(") && !strings.Contains(g, "c06.callIncrement(") {
			continue
		}
		head, _, _ := strings.Cut(g, "\n")
		if i := strings.Index(head, "["); i >= 0 {
			state = strings.TrimSuffix(head[i+1:], "]:")
		}
		switch {
		case strings.HasPrefix(state, "sleep"):
			return state, true
		case strings.HasPrefix(state, "select"), strings.HasPrefix(state, "chan receive"):
			return state, strings.Contains(g, "time.") || strings.Contains(g, "context.")
		}
		return state, false
	}
	return "request goroutine not found", false
}

func caseKey(c *caseT) string {
	b, _ := json.Marshal(c)
	return fmt.Sprintf("%x", sha256.Sum256(b))
}

func witness(c *caseT, out *outcome) map[string]any {
	tr := out.trace
	if len(tr) > 14 {
		tr = tr[len(tr)-14:]
	}
	cj, _ := json.Marshal(c)
	w := map[string]any{"case_json": string(cj), "failed_at": len(out.trace) - 1, "last_steps": tr, "swamps": c.Swamps}
	if out.stack != "" {
		st := out.stack
		if len(st) > 60000 {
			st = st[:60000]
		}
		w["goroutines"] = st
	}
	return w
}

func recordCase(c *rig.Check, cs *caseT, out *outcome) {
	nontrivial := out.answered >= 5 && out.mutations >= 1 && out.reads >= 1
	c.Case(caseKey(cs), nontrivial)
	c.Count("requests_answered", int64(out.answered))
	c.Count("mutating_requests", int64(out.mutations))
	c.Count("content_reads", int64(out.reads))
	c.Count("probe_reads_after_writes", int64(out.probes))
	c.Count("requests_needing_virtual_time", int64(out.graceUsed))
	c.Count("keys_left_unspecified_at_end", int64(out.unspecified))
	for _, st := range out.trace {
		c.Seen("rpcs", st.RPC)
		if st.RPC == "Sleep" {
			c.Count("sleeps_"+st.Cls, 1)
		}
	}
	for _, s := range cs.Swamps {
		if s.InMem {
			c.Count("swamps_in_memory", 1)
		} else {
			c.Count("swamps_persistent", 1)
		}
	}
	for _, e := range out.slogErrors {
		if len(e) > 100 {
			e = e[:100]
		}
		c.Seen("engine_error_logs", e)
	}
	if len(cs.Ops) > 12 {
		sm := *cs
		sm.Ops = sm.Ops[:12]
		c.Sample(sm)
	} else {
		c.Sample(cs)
	}
	if out.sig != "" {
		c.Count("cases_stopped_by_violation", 1)
		c.Violate(out.sig, out.what, witness(cs, out))
	}
}

func TestCheck(t *testing.T) {
	c := rig.NewCheck(t, "C06", "exploration")
	defer c.Finish()
	c.Rule = "one client issues a PRNG-generated sequence (2 swamps × 4 keys; Set with every flag combination/value kind/metadata, Get, GetAll, GetByKeys, Delete, Count, IsSwampExist, IsKeyExist, AreKeysExist, ten Increment* with/without condition and metadata, Uint32SlicePush/Delete/Size/IsValueExist, ShiftByKeys, Destroy; in-memory and persistent patterns; virtual sleeps that flush and evict) against the real gateway in a synctest bubble; every answer and the final contents (before and after an eviction) are compared with a sequential reference model written from the documentation; after every mutating request the touched keys are read back (probe Get) so that a wrong write is attributed to the write; a request not finished at quiescence is a hang. non-trivial = at least 5 generated requests were answered, among them a mutation and a content read (probes and the final checks not counted); distinct = distinct case JSON"
	c.Assumptions = unspecifiedPoints
	c.MinNontrivial = 20
	nCases := c.N(200, 4000)
	nOps := 40
	if !c.Quick() {
		nOps = 120
	}

	if c.IsChild() {
		var spec childSpec
		c.ChildSpec(&spec)
		runOne := func(cs *caseT) {
			fmt.Printf("CASE %d start\n", cs.Idx)
			out := runCase(t, cs, func(out *outcome) {
				// a request never returned: the swamp is wedged and the bubble cannot be left.
				recordCase(c, cs, out)
				if d := os.Getenv("C06_HANGDIR"); d != "" {
					_ = os.WriteFile(d+"/"+strconv.Itoa(cs.Idx), nil, 0o644) // tells the parent where this child stopped
				}
				c.Count("cases_abandoned_after_hang", 1)
				fmt.Printf("CASE %d hung: %s\n", cs.Idx, out.sig)
				c.Finish()
				os.Exit(0)
			})
			recordCase(c, cs, out)
			fmt.Printf("CASE %d done sig=%q\n", cs.Idx, out.sig)
		}
		if spec.Replay != nil {
			trace = true
			if p := os.Getenv("C06_TRACE_OUT"); p != "" {
				if f, err := os.Create(p); err == nil {
					traceOut = f
				}
			}
			runOne(spec.Replay)
			return
		}
		for _, idx := range spec.Indices {
			runOne(genCase(c.Rand(idx), idx, spec.NOps))
		}
		return
	}

	// parent
	if p := c.ReplayPath(); p != "" {
		var w struct {
			Witness struct {
				CaseJSON string `json:"case_json"`
			} `json:"witness"`
		}
		rig.ReadJSON(p, &w)
		rc := &caseT{}
		if err := json.Unmarshal([]byte(w.Witness.CaseJSON), rc); err != nil {
			t.Fatalf("replay file: %v", err)
		}
		tf, _ := os.CreateTemp("", "verif-c06-trace-")
		tf.Close()
		defer os.Remove(tf.Name())
		c.Fanout([]any{childSpec{Replay: rc, NOps: nOps}}, rig.FanoutOpts{Par: 1, Timeout: 10 * time.Minute, Env: []string{"C06_TRACE_OUT=" + tf.Name()}})
		if b, err := os.ReadFile(tf.Name()); err == nil {
			fmt.Println(string(b))
		}
		return
	}
	pending := make([]int, nCases)
	for i := range pending {
		pending[i] = i
	}
	hangDir, err := os.MkdirTemp("", "verif-c06-hangs-")
	if err != nil {
		t.Fatal(err)
	}
	defer rig.RemoveAll(hangDir)
	chunk := 8
	if !c.Quick() {
		chunk = 25
	}
	for round := 0; len(pending) > 0 && round < 10000; round++ {
		var specs []any
		var lists [][]int
		for i := 0; i < len(pending); i += chunk {
			j := min(i+chunk, len(pending))
			l := append([]int{}, pending[i:j]...)
			lists = append(lists, l)
			specs = append(specs, childSpec{Indices: l, NOps: nOps})
		}
		pending = nil
		res := c.Fanout(specs, rig.FanoutOpts{Par: 16, Timeout: 15 * time.Minute, Env: []string{"C06_HANGDIR=" + hangDir}})
		for ci, r := range res {
			l := lists[ci]
			cut := -1
			for pi, idx := range l {
				if _, err := os.Stat(hangDir + "/" + strconv.Itoa(idx)); err == nil {
					cut = pi // the child stopped here; each case runs once, so the marker is fresh
					break
				}
			}
			switch {
			case cut >= 0:
				pending = append(pending, l[cut+1:]...)
			case r.TimedOut:
				c.Inconclusive(fmt.Sprintf("child %d (cases %d..%d) hit the wall-clock watchdog, log %s", ci, l[0], l[len(l)-1], r.LogPath))
			case r.NoPartial || r.ExitErr != nil || len(r.Fatal) > 0:
				c.Inconclusive(fmt.Sprintf("child crashed (cases %d..%d): exit=%v fatal=%v log=%s", l[0], l[len(l)-1], r.ExitErr, r.Fatal, r.LogPath))
			}
		}
		sort.Ints(pending)
		c.Count("child_rounds", 1)
		c.Count("child_processes", int64(len(specs)))
	}
}
