// model_rw.go — Set, reads, Delete, ShiftByKeys, Count, existence checks, Destroy, sleeps.
package c06

import (
	"fmt"
	"strings"
)

func flagsLabel(p part) string {
	s := ""
	if p.Create {
		s += "C"
	}
	if p.Overwrite {
		s += "O"
	}
	if s == "" {
		s = "none"
	}
	return s
}

func setProv(p part, kv kvReq, prev string) string {
	return fmt.Sprintf("Set:%s->%s", prev, kv.Val.K.sigClass())
}

// apply checks one answered request against the model and advances the model.
func (m *model) apply(o *op, ob *obs) *viol {
	switch o.RPC {
	case "Set":
		return m.applySet(o, ob)
	case "Get":
		return m.applyGet(o, ob)
	case "GetAll":
		return m.applyGetAll(o, ob)
	case "GetByKeys":
		return m.applyGetByKeys(o, ob)
	case "Delete":
		return m.applyDelete(o, ob)
	case "ShiftByKeys":
		return m.applyShift(o, ob)
	case "Count":
		return m.applyCount(o, ob)
	case "IsSwampExist":
		return m.applyIsSwampExist(o, ob)
	case "IsKeyExist":
		return m.applyIsKeyExist(o, ob)
	case "AreKeysExist":
		return m.applyAreKeysExist(o, ob)
	case "Destroy":
		return m.applyDestroy(o, ob)
	case "Uint32SlicePush":
		return m.applyPush(o, ob)
	case "Uint32SliceDelete":
		return m.applySliceDelete(o, ob)
	case "Uint32SliceSize":
		return m.applySliceSize(o, ob)
	case "Uint32SliceIsValueExist":
		return m.applySliceIsValueExist(o, ob)
	}
	if strings.HasPrefix(o.RPC, "Increment") {
		return m.applyIncrement(o, ob)
	}
	return &viol{"model:internal:unknown-rpc:" + o.RPC, "unknown rpc"}
}

// situation labels the input class of a request from the model state before it runs
// (used in hang:/panic:/error: signatures). No random values, no case numbers.
func (m *model) situation(o *op) string {
	var parts []string
	lastKey := func(sm *swampModel, keys []string) string {
		// would removing these keys empty the swamp?
		for _, k := range keyNames {
			in := false
			for _, q := range keys {
				if q == k {
					in = true
				}
			}
			if !in && sm.keys[k].possiblyPresent() {
				return ""
			}
		}
		for _, q := range keys {
			if sm.keys[q].possiblyPresent() {
				return ":last-key"
			}
		}
		return ""
	}
	switch o.RPC {
	case "Set":
		for _, p := range o.Parts {
			sm := m.sw[p.Sw]
			for _, kv := range p.KVs {
				parts = append(parts, fmt.Sprintf("%s:%s->%s:%s", flagsLabel(p), sm.keys[kv.Key].label(), kv.Val.K.sigClass(), sm.mode()))
			}
		}
	case "Get", "Delete", "Count":
		for _, p := range o.Parts {
			sm := m.sw[p.Sw]
			if o.RPC == "Count" {
				parts = append(parts, fmt.Sprintf("swamp=%s:%s", sm.exist(), sm.mode()))
				continue
			}
			for _, k := range p.Keys {
				parts = append(parts, fmt.Sprintf("%s:%s", sm.keys[k].label(), sm.mode()))
			}
			if o.RPC == "Delete" {
				if lk := lastKey(sm, p.Keys); lk != "" {
					parts = append(parts, "empties-swamp:"+sm.mode())
				}
			}
		}
	case "Uint32SlicePush", "Uint32SliceDelete":
		sm := m.sw[o.Sw]
		for _, p := range o.Pairs {
			km := sm.keys[p.Key]
			lab := km.label()
			if s, ok := km.single(); ok && !s.Absent && s.R.Val.K == kSlice && o.RPC == "Uint32SliceDelete" {
				rem := sliceMinus(s.R.Val.L, p.Values)
				switch {
				case len(rem) == 0:
					lab = "empties-slice"
				case len(rem) == len(s.R.Val.L):
					lab = "no-match"
				default:
					lab = "partial"
				}
			} else if ok && !s.Absent && s.R.Val.K != kSlice {
				lab = "non-slice-key"
			} else if ok && s.Absent {
				lab = "absent-key"
			}
			if o.RPC == "Uint32SliceDelete" {
				lab += lastKey(sm, []string{p.Key})
			}
			parts = append(parts, lab+":"+sm.mode())
		}
		if o.RPC == "Uint32SliceDelete" {
			var trig []string
			for _, p := range parts {
				if strings.HasPrefix(p, "empties-slice") || strings.HasPrefix(p, "non-slice-key") {
					trig = append(trig, p)
				}
			}
			if len(trig) > 0 {
				parts = trig
			}
		}
	default:
		sm := m.sw[o.Sw]
		switch {
		case o.Key != "":
			parts = append(parts, fmt.Sprintf("%s:%s", sm.keys[o.Key].label(), sm.mode()))
		case len(o.Keys) > 0:
			for _, k := range o.Keys {
				parts = append(parts, fmt.Sprintf("%s:%s", sm.keys[k].label(), sm.mode()))
			}
			if o.RPC == "ShiftByKeys" {
				if lk := lastKey(sm, o.Keys); lk != "" {
					parts = append(parts, "empties-swamp:"+sm.mode())
				}
			}
		default:
			parts = append(parts, fmt.Sprintf("swamp=%s:%s", sm.exist(), sm.mode()))
		}
	}
	return joinSit(parts)
}

// findStatuses returns the entry of a swamp. Additional entries for the same swamp that carry
// neither an error code nor a status are tolerated ("one per swamp" is read as: one that says
// something); n counts the informative entries (or 1 when all entries are empty).
func findStatuses(ss []obsSwampStatuses, name string) (*obsSwampStatuses, int) {
	var f, empty *obsSwampStatuses
	n := 0
	for i := range ss {
		if ss[i].Name != name {
			continue
		}
		if ss[i].ErrCode == "" && len(ss[i].Statuses) == 0 {
			empty = &ss[i]
			continue
		}
		if f == nil {
			f = &ss[i]
		}
		n++
	}
	if f == nil && empty != nil {
		return empty, 1
	}
	return f, n
}

// ---------------------------------------------------------------------------
// Set
//
// proto SwampRequest: "CreateIfNotExist ... true → create missing swamp and keys if needed
// (upsert); false → only allow updates to existing values. Overwrite ... true → existing values
// will be overwritten; false → existing values will remain untouched. true+true = upsert,
// false+true = update only, true+false = insert only, false+false = no-op".
// proto Status.Code: NOT_FOUND "The key does not exist and no changes were made", NEW "newly
// created", UPDATED "The key existed and was updated", NOTHING_CHANGED "Operation was skipped due
// to Overwrite=false or same value". SDK CatalogSave: "StatusNothingChanged: The Treasure already
// existed and the new value was identical".

func newRecord(kv kvReq) record {
	r := record{Val: kv.Val}
	if kv.Val.K == kSlice {
		r.Val.L = dedupe(kv.Val.L)
	}
	// proto KeyValuePair.VoidVal: "If you don't set CreatedAt / UpdatedAt / Metadata, HydrAIDE
	// won't generate them either." Treasure.CreatedAt: "HydrAIDE does not generate this automatically."
	r.CAt, r.CBy, r.UAt, r.UBy, r.EAt = mt{V: kv.Meta.CreatedAt}, ms{V: kv.Meta.CreatedBy}, mt{V: kv.Meta.UpdatedAt}, ms{V: kv.Meta.UpdatedBy}, mt{V: kv.Meta.ExpiredAt}
	return r
}

func dedupe(l []uint32) []uint32 {
	seen := map[uint32]bool{}
	var out []uint32
	for _, x := range l {
		if !seen[x] {
			seen[x] = true
			out = append(out, x)
		}
	}
	return out
}

func sliceUnion(a, b []uint32) []uint32 { return dedupe(append(append([]uint32{}, a...), b...)) }

func sliceMinus(a, del []uint32) []uint32 {
	var out []uint32
	for _, x := range a {
		d := false
		for _, y := range del {
			if x == y {
				d = true
			}
		}
		if !d {
			out = append(out, x)
		}
	}
	return out
}

func setJudge(s kstate, p part, kv kvReq, status string, sm *swampModel, loose bool) ([]kstate, *viol) {
	bad := func(want string, prev string, rel string) *viol {
		kr := "other-kind"
		if prev == "absent" {
			kr = "absent"
		} else if !s.Absent && s.R.Val.K == kv.Val.K {
			kr = "same-kind"
		}
		return &viol{fmt.Sprintf("Set:status:%s:%s:%s:got=%s:want=%s", flagsLabel(p), kr, rel, status, want),
			fmt.Sprintf("Set %s key %s/%s val %s meta %+v on a key that is %s answered %s, documented %s", flagsLabel(p), sm.cfg.Name, kv.Key, kv.Val, kv.Meta, prev, status, want)}
	}
	if s.Absent {
		if !p.Create {
			if status != "NOT_FOUND" {
				return nil, bad("NOT_FOUND", "absent", "update-only")
			}
			return []kstate{s}, nil
		}
		if status != "NEW" {
			return nil, bad("NEW", "absent", "create")
		}
		return []kstate{{R: newRecord(kv)}}, nil
	}
	prev := s.R.Val.K.class()
	if !p.Overwrite {
		if status != "NOTHING_CHANGED" {
			return nil, bad("NOTHING_CHANGED", prev, "insert-only")
		}
		return []kstate{s}, nil
	}
	newVals := []value{newRecord(kv).Val}
	if kv.Val.K == kSlice && s.R.Val.K == kSlice {
		u := sliceUnion(s.R.Val.L, kv.Val.L)
		if !sameSet(u, newVals[0].L) {
			newVals = append(newVals, value{K: kSlice, L: u}) // merge reading
		}
	}
	var next []kstate
	var first *viol
	statusMiss := 0 // with two readings (replace/merge) the status must fit at least one; both states are kept
	for _, nv := range newVals {
		changed := !valueEqual(s.R.Val, nv)
		metaDiffers, metaOpen := false, false
		cmpT := func(req int64, f mt) {
			if req == 0 {
				if f.Any || f.V != 0 {
					metaOpen = true // stored metadata the request omits: survive-or-clear is not documented
				}
				return
			}
			metaOpen = true // metadata re-sent: whether that counts as an update is not documented
			if !f.Any && f.V != req {
				metaDiffers = true
			}
		}
		cmpS := func(req string, f ms) {
			if req == "" {
				if f.Any || f.V != "" {
					metaOpen = true
				}
				return
			}
			metaOpen = true
			if !f.Any && f.V != req {
				metaDiffers = true
			}
		}
		cmpT(kv.Meta.CreatedAt, s.R.CAt)
		cmpS(kv.Meta.CreatedBy, s.R.CBy)
		cmpT(kv.Meta.UpdatedAt, s.R.UAt)
		cmpS(kv.Meta.UpdatedBy, s.R.UBy)
		cmpT(kv.Meta.ExpiredAt, s.R.EAt)
		var want []string
		rel := "same-value"
		switch {
		case !changed && s.R.Val.K != nv.K:
			// void over an empty uint32 set or the reverse: nothing visible changes, whether that
			// counts as an update is not documented
			want = []string{"UPDATED", "NOTHING_CHANGED"}
		case changed || metaDiffers:
			want = []string{"UPDATED"}
			rel = "changed"
		case metaOpen, loose:
			want = []string{"UPDATED", "NOTHING_CHANGED"}
		default:
			want = []string{"NOTHING_CHANGED"}
			rel = "identical-no-meta"
		}
		ok := false
		for _, w := range want {
			if w == status {
				ok = true
			}
		}
		if !ok {
			if first == nil {
				first = bad(strings.Join(want, "|"), prev, rel)
			}
			statusMiss++
		}
		r := s.R
		r.Val = nv
		updT := func(req int64, f *mt) {
			if req != 0 {
				*f = mt{V: req}
			} else if f.Any || f.V != 0 {
				*f = mt{Any: true}
			}
		}
		updS := func(req string, f *ms) {
			if req != "" {
				*f = ms{V: req}
			} else if f.Any || f.V != "" {
				*f = ms{Any: true}
			}
		}
		updT(kv.Meta.CreatedAt, &r.CAt)
		updS(kv.Meta.CreatedBy, &r.CBy)
		updT(kv.Meta.UpdatedAt, &r.UAt)
		updS(kv.Meta.UpdatedBy, &r.UBy)
		updT(kv.Meta.ExpiredAt, &r.EAt)
		next = append(next, kstate{R: r})
	}
	if statusMiss == len(newVals) {
		return nil, first
	}
	return next, nil
}

// setOne applies one item of a Set request to a key whose state is not a wildcard.
func (m *model) setOne(sm *swampModel, km *keyModel, p part, kv kvReq, st string) *viol {
	prev := km.label()
	if km.wild {
		if p.Create && p.Overwrite {
			r := newRecord(kv)
			opn := func(req int64, f *mt) {
				if req == 0 {
					*f = mt{Any: true}
				}
			}
			ops := func(req string, f *ms) {
				if req == "" {
					*f = ms{Any: true}
				}
			}
			opn(kv.Meta.CreatedAt, &r.CAt)
			ops(kv.Meta.CreatedBy, &r.CBy)
			opn(kv.Meta.UpdatedAt, &r.UAt)
			ops(kv.Meta.UpdatedBy, &r.UBy)
			opn(kv.Meta.ExpiredAt, &r.EAt)
			if kv.Val.K == kSlice {
				km.setWild(setProv(p, kv, prev)) // replace/merge over an unknown old value
			} else {
				km.wild, km.cands = false, []kstate{{R: r}}
				km.prov, km.reloaded, km.loose = setProv(p, kv, prev), false, false
			}
		}
		return nil
	}
	if v := km.judge(func(s kstate) ([]kstate, *viol) { return setJudge(s, p, kv, st, sm, km.loose) }); v != nil {
		return v
	}
	if st == "NEW" || st == "UPDATED" {
		km.prov, km.reloaded, km.loose = setProv(p, kv, prev), false, false
	}
	return nil
}

func permutations(n int) [][]int {
	if n == 1 {
		return [][]int{{0}}
	}
	var out [][]int
	for _, p := range permutations(n - 1) {
		for pos := 0; pos <= len(p); pos++ {
			q := append(append(append([]int{}, p[:pos]...), n-1), p[pos:]...)
			out = append(out, q)
		}
	}
	// identity first: request order is the natural reading
	for i, q := range out {
		id := true
		for j, x := range q {
			if x != j {
				id = false
			}
		}
		if id {
			out[0], out[i] = out[i], out[0]
		}
	}
	return out
}

func (m *model) applySet(o *op, ob *obs) *viol {
	if ob.Err != nil {
		return &viol{"Set:error:" + ob.Err.Code + ":" + m.situation(o), "Set returned an error: " + ob.Err.Msg}
	}
	if ob.NilResp {
		return &viol{"Set:nil-response:" + m.situation(o), "Set returned no response and no error"}
	}
	// SetResponse.Swamps: "a list of responses, one per swamp" — read as one per SwampRequest, in
	// request order per swamp name. Entries that carry neither an error code nor a status are
	// ignored (a request item always produces one of the two).
	entries := map[string][]*obsSwampStatuses{}
	empties := map[string]*obsSwampStatuses{}
	for i := range ob.Statuses {
		e := &ob.Statuses[i]
		if e.ErrCode == "" && len(e.Statuses) == 0 {
			empties[e.Name] = e
			continue
		}
		entries[e.Name] = append(entries[e.Name], e)
	}
	partsOf := map[string]int{}
	for _, p := range o.Parts {
		partsOf[m.sw[p.Sw].cfg.Name]++
	}
	next := map[string]int{}
	for _, p := range o.Parts {
		sm := m.sw[p.Sw]
		name := sm.cfg.Name
		var os *obsSwampStatuses
		switch {
		case len(entries[name]) == partsOf[name]:
			os = entries[name][next[name]]
			next[name]++
		case len(entries[name]) == 0 && partsOf[name] == 1 && empties[name] != nil:
			os = empties[name]
		default:
			return &viol{fmt.Sprintf("Set:response:swamp-entries=%d:requested=%d", len(entries[name]), partsOf[name]), fmt.Sprintf("SetResponse has %d informative entries for swamp %s, the request has %d sections for it: %s", len(entries[name]), name, partsOf[name], ob)}
		}
		ex := sm.exist()
		if !p.Create && !p.Overwrite {
			for _, st := range os.Statuses {
				if st.Status == "NEW" || st.Status == "UPDATED" || st.Status == "DELETED" {
					return &viol{"Set:noop-flags:status=" + st.Status, fmt.Sprintf("Set with both flags false (documented no-op) answered %s for %s", st.Status, st.Key)}
				}
			}
			continue
		}
		if os.ErrCode != "" {
			// SwampResponse.ErrorCode: "set if the entire swamp operation failed (e.g., swamp doesn't
			// exist and CreateIfNotExist was false)"
			if os.ErrCode == "SwampDoesNotExist" && !p.Create && ex != triYes && len(os.Statuses) == 0 {
				continue
			}
			return &viol{fmt.Sprintf("Set:errcode:%s:%s:swamp=%s:%s", os.ErrCode, flagsLabel(p), ex, sm.mode()), fmt.Sprintf("Set %s on %s (model: exists=%s) answered ErrorCode %s: %s", flagsLabel(p), sm.cfg.Name, ex, os.ErrCode, ob)}
		}
		// KeysAndStatuses: "the outcome of each key's operation": one status per item. The items
		// of one request are applied one after the other; the order is not documented, so for a key
		// that the request names several times every order of its items is tried (items of
		// different keys do not interact): the statuses and the stored value must equal SOME
		// sequential processing. The i-th status of a key belongs to its i-th item.
		if len(os.Statuses) != len(p.KVs) {
			return &viol{"Set:response:status-count", fmt.Sprintf("%d statuses for %d items: %s", len(os.Statuses), len(p.KVs), ob)}
		}
		stOf := map[string][]string{}
		for _, st := range os.Statuses {
			stOf[st.Key] = append(stOf[st.Key], st.Status)
		}
		itemsOf := map[string][]kvReq{}
		var order []string
		for _, kv := range p.KVs {
			if len(itemsOf[kv.Key]) == 0 {
				order = append(order, kv.Key)
			}
			itemsOf[kv.Key] = append(itemsOf[kv.Key], kv)
		}
		for _, k := range order {
			items, sts := itemsOf[k], stOf[k]
			if len(sts) != len(items) {
				return &viol{"Set:response:key-status-count", fmt.Sprintf("%d statuses for key %s named %d times: %s", len(sts), k, len(items), ob)}
			}
			km := sm.keys[k]
			if len(items) == 1 {
				if v := m.setOne(sm, km, p, items[0], sts[0]); v != nil {
					return v
				}
				continue
			}
			var first *viol
			done := false
			for _, perm := range permutations(len(items)) {
				trial := *km
				trial.cands = append([]kstate{}, km.cands...)
				var v *viol
				for _, idx := range perm {
					if v = m.setOne(sm, &trial, p, items[idx], sts[idx]); v != nil {
						break
					}
				}
				if v == nil {
					*km = trial
					done = true
					break
				}
				if first == nil {
					first = v
				}
			}
			if !done {
				first.sig = "Set:repeated-key:" + first.sig
				first.what = fmt.Sprintf("key %s is named %d times in one Set; no order of its items explains the statuses %v: %s", k, len(items), sts, first.what)
				return first
			}
		}
		if p.Create {
			sm.touchedEmpty()
		}
	}
	return nil
}

// ---------------------------------------------------------------------------
// reads

func (m *model) applyGet(o *op, ob *obs) *viol {
	if ob.Err != nil {
		for _, p := range o.Parts {
			if m.sw[p.Sw].exist() != triYes && missingSwampErr(ob.Err) {
				return nil
			}
		}
		if missingSwampErr(ob.Err) {
			return swampExistViol("Get", m.sw[o.Parts[0].Sw], "yes", "error-FailedPrecondition")
		}
		return &viol{"Get:error:" + ob.Err.Code + ":" + m.situation(o), "Get returned an error: " + ob.Err.Msg}
	}
	if ob.NilResp {
		return &viol{"Get:nil-response:" + m.situation(o), "Get returned no response and no error"}
	}
	for _, p := range o.Parts {
		sm := m.sw[p.Sw]
		var g *obsGetSwamp
		n := 0
		for i := range ob.Gets {
			if ob.Gets[i].Name == sm.cfg.Name {
				g = &ob.Gets[i]
				n++
			}
		}
		if n != 1 {
			return &viol{fmt.Sprintf("Get:response:swamp-entries=%d", n), fmt.Sprintf("GetResponse has %d entries for %s: %s", n, sm.cfg.Name, ob)}
		}
		ex := sm.exist()
		if !g.IsExist {
			// GetSwampResponse.IsExist: "If false, no data will be returned for this swamp."
			if ex == triYes {
				return swampExistViol("Get", sm, "yes", "no")
			}
			if len(g.Treasures) > 0 {
				return &viol{"Get:not-exist-with-treasures", fmt.Sprintf("IsExist=false but treasures returned: %s", ob)}
			}
			continue
		}
		if ex == triNo {
			return swampExistViol("Get", sm, "no", "yes")
		}
		found, v := groupByKey("Get", g.Treasures, p.Keys)
		if v != nil {
			return v
		}
		for _, k := range uniq(append([]string{}, p.Keys...)) {
			if v := m.readKey("Get", sm, k, found[k], false); v != nil {
				return v
			}
		}
	}
	return nil
}

func (m *model) applyGetAll(o *op, ob *obs) *viol {
	sm := m.sw[o.Sw]
	ex := sm.exist()
	if ob.Err != nil {
		if ex != triYes && missingSwampErr(ob.Err) {
			return nil
		}
		if ex == triYes && missingSwampErr(ob.Err) {
			return swampExistViol("GetAll", sm, "yes", "error-FailedPrecondition")
		}
		return &viol{"GetAll:error:" + ob.Err.Code + ":" + m.situation(o), "GetAll returned an error: " + ob.Err.Msg}
	}
	if ob.NilResp {
		return &viol{"GetAll:nil-response:" + m.situation(o), "GetAll returned no response and no error"}
	}
	if ex == triNo && len(ob.Treasures) > 0 {
		return swampExistViol("GetAll", sm, "no", "treasures")
	}
	// GetAll: "HydrAIDE will return every key-value pair stored in this swamp, regardless of
	// expiration or status."
	found, v := groupByKey("GetAll", ob.Treasures, keyNames[:])
	if v != nil {
		return v
	}
	for _, k := range keyNames {
		if v := m.readKey("GetAll", sm, k, found[k], false); v != nil {
			return v
		}
	}
	return nil
}

func contains(l []string, s string) bool {
	for _, x := range l {
		if x == s {
			return true
		}
	}
	return false
}

func (m *model) applyGetByKeys(o *op, ob *obs) *viol {
	sm := m.sw[o.Sw]
	ex := sm.exist()
	if ob.Err != nil {
		if ex != triYes && missingSwampErr(ob.Err) {
			return nil
		}
		if ex == triYes && missingSwampErr(ob.Err) {
			return swampExistViol("GetByKeys", sm, "yes", "error-FailedPrecondition")
		}
		return &viol{"GetByKeys:error:" + ob.Err.Code + ":" + m.situation(o), "GetByKeys returned an error: " + ob.Err.Msg}
	}
	if ob.NilResp {
		return &viol{"GetByKeys:nil-response:" + m.situation(o), "GetByKeys returned no response and no error"}
	}
	if ex == triNo && len(ob.Treasures) > 0 {
		return swampExistViol("GetByKeys", sm, "no", "treasures")
	}
	// "Missing keys are silently ignored"; ExcludeKeys "keys to skip in the results";
	// IncludedKeys "only keys present in this list can appear in results".
	var eligible []string
	for _, k := range o.Keys {
		if len(o.Include) > 0 && !contains(o.Include, k) {
			continue
		}
		if contains(o.Exclude, k) {
			continue
		}
		eligible = append(eligible, k)
	}
	found, v := groupByKey("GetByKeys", ob.Treasures, eligible)
	if v != nil {
		return v
	}
	for _, k := range uniq(append([]string{}, eligible...)) {
		if v := m.readKey("GetByKeys", sm, k, found[k], o.KeysOnly); v != nil {
			return v
		}
	}
	return nil
}

// ---------------------------------------------------------------------------
// Delete / ShiftByKeys / Destroy

func (m *model) applyDelete(o *op, ob *obs) *viol {
	if ob.Err != nil {
		return &viol{"Delete:error:" + ob.Err.Code + ":" + m.situation(o), "Delete returned an error: " + ob.Err.Msg}
	}
	if ob.NilResp {
		return &viol{"Delete:nil-response:" + m.situation(o), "Delete returned no response and no error"}
	}
	for _, p := range o.Parts {
		sm := m.sw[p.Sw]
		ds, n := findStatuses(ob.Statuses, sm.cfg.Name)
		if n != 1 {
			return &viol{fmt.Sprintf("Delete:response:swamp-entries=%d", n), fmt.Sprintf("DeleteResponse has %d entries for %s: %s", n, sm.cfg.Name, ob)}
		}
		ex := sm.exist()
		if ds.ErrCode != "" {
			if ds.ErrCode == "SwampDoesNotExist" && ex != triYes && len(ds.Statuses) == 0 {
				continue
			}
			if ex == triYes {
				return swampExistViol("Delete", sm, "yes", "ErrorCode-"+ds.ErrCode)
			}
			return &viol{"Delete:errcode:" + ds.ErrCode, fmt.Sprintf("unexpected ErrorCode: %s", ob)}
		}
		mult := map[string]int{}
		for _, k := range p.Keys {
			mult[k]++
		}
		byKey := map[string][]string{}
		for _, st := range ds.Statuses {
			byKey[st.Key] = append(byKey[st.Key], st.Status)
		}
		for k, sts := range byKey {
			if mult[k] == 0 || len(sts) > mult[k] {
				return &viol{"Delete:response:status-count", fmt.Sprintf("%d statuses for key %s requested %d times: %s", len(sts), k, mult[k], ob)}
			}
		}
		removed := false
		for _, k := range uniq(append([]string{}, p.Keys...)) {
			sts, ok := byKey[k]
			if !ok {
				return &viol{"Delete:response:key-missing", fmt.Sprintf("no status for key %s: %s", k, ob)}
			}
			// a key named several times: one DELETED at most can be true; the rest is not documented
			nDel := 0
			for _, x := range sts {
				if x == "DELETED" {
					nDel++
				}
			}
			st := sts[0]
			if nDel > 0 {
				st = "DELETED"
			}
			km := sm.keys[k]
			prev := km.label()
			if nDel > 1 {
				return &viol{"Delete:status:deleted-twice" + provSuffix(km), fmt.Sprintf("key %s/%s reported DELETED %d times in one request: %s", sm.cfg.Name, k, nDel, ob)}
			}
			if st == "DELETED" {
				removed = true
			}
			if km.wild {
				km.setAbsent("Delete:" + prev)
				continue
			}
			v := km.judge(func(s kstate) ([]kstate, *viol) {
				if s.Absent {
					if st == "DELETED" {
						return nil, &viol{"Delete:status:absent:got=DELETED:want=NOT_FOUND" + provSuffix(km), fmt.Sprintf("Delete of missing key %s/%s answered DELETED", sm.cfg.Name, k)}
					}
					return []kstate{s}, nil
				}
				if st != "DELETED" {
					return nil, &viol{fmt.Sprintf("Delete:status:present:got=%s:want=DELETED%s", st, provSuffix(km)), fmt.Sprintf("Delete of existing key %s/%s (%s) answered %s", sm.cfg.Name, k, s.R.Val, st)}
				}
				return []kstate{{Absent: true}}, nil
			})
			if v != nil {
				return v
			}
			if st == "DELETED" {
				km.prov, km.reloaded = "Delete:"+prev, false
			}
		}
		sm.afterRemoval(removed, "Delete-last-key")
	}
	return nil
}

func (m *model) applyShift(o *op, ob *obs) *viol {
	sm := m.sw[o.Sw]
	ex := sm.exist()
	if ob.Err != nil {
		if ex != triYes && missingSwampErr(ob.Err) {
			return nil
		}
		if ex == triYes && missingSwampErr(ob.Err) {
			return swampExistViol("ShiftByKeys", sm, "yes", "error-FailedPrecondition")
		}
		return &viol{"ShiftByKeys:error:" + ob.Err.Code + ":" + m.situation(o), "ShiftByKeys returned an error: " + ob.Err.Msg}
	}
	if ob.NilResp {
		return &viol{"ShiftByKeys:nil-response:" + m.situation(o), "ShiftByKeys returned no response and no error"}
	}
	if ex == triNo && len(ob.Treasures) > 0 {
		return swampExistViol("ShiftByKeys", sm, "no", "treasures")
	}
	// "Missing keys are silently ignored ... the returned items will be permanently removed"
	found, v := groupByKey("ShiftByKeys", ob.Treasures, o.Keys)
	if v != nil {
		return v
	}
	removed := false
	for _, k := range uniq(append([]string{}, o.Keys...)) {
		km := sm.keys[k]
		prev := km.label()
		wasWild := km.wild
		if v := m.readKey("ShiftByKeys", sm, k, found[k], false); v != nil {
			return v
		}
		if found[k] != nil && found[k].Exist {
			removed = true
		}
		if wasWild || km.possiblyPresent() {
			km.setAbsent("ShiftByKeys:" + prev)
		}
	}
	sm.afterRemoval(removed, "ShiftByKeys-last-key")
	return nil
}

func (m *model) applyDestroy(o *op, ob *obs) *viol {
	sm := m.sw[o.Sw]
	if ob.Err != nil {
		return &viol{"Destroy:error:" + ob.Err.Code + ":" + m.situation(o), "Destroy returned an error: " + ob.Err.Msg}
	}
	// SDK Destroy: "Deletes all Treasures under the given Swamp name; Swamp will no longer be
	// addressable or countable after this operation"
	for _, k := range keyNames {
		sm.keys[k].setAbsent("Destroy")
	}
	sm.shell, sm.goneWhy = triNo, "Destroy"
	return nil
}

// ---------------------------------------------------------------------------
// Count and existence

func (m *model) applyCount(o *op, ob *obs) *viol {
	if ob.Err != nil {
		for _, p := range o.Parts {
			if m.sw[p.Sw].exist() != triYes && missingSwampErr(ob.Err) {
				return nil
			}
		}
		if missingSwampErr(ob.Err) {
			return swampExistViol("Count", m.sw[o.Parts[0].Sw], "yes", "error-FailedPrecondition")
		}
		return &viol{"Count:error:" + ob.Err.Code + ":" + m.situation(o), "Count returned an error: " + ob.Err.Msg}
	}
	if ob.NilResp {
		return &viol{"Count:nil-response:" + m.situation(o), "Count returned no response and no error"}
	}
	for _, p := range o.Parts {
		sm := m.sw[p.Sw]
		var c *obsCount
		n := 0
		for i := range ob.Counts {
			if ob.Counts[i].Name == sm.cfg.Name {
				c = &ob.Counts[i]
				n++
			}
		}
		if n != 1 {
			return &viol{fmt.Sprintf("Count:response:swamp-entries=%d", n), fmt.Sprintf("CountResponse has %d entries for %s: %s", n, sm.cfg.Name, ob)}
		}
		ex := sm.exist()
		lo, hi := sm.countRange()
		if c.IsExist {
			if ex == triNo {
				return swampExistViol("Count", sm, "no", "yes")
			}
			// CountSwamp.Count: "the number of treasures currently stored in this swamp"
			if int(c.Count) < lo || int(c.Count) > hi {
				rl := ""
				for _, k := range keyNames {
					if sm.keys[k].reloaded {
						rl = ":reloaded"
					}
				}
				return &viol{fmt.Sprintf("Count:count:%s:%s%s", cmpWord(int(c.Count), lo, hi), sm.mode(), rl), fmt.Sprintf("Count(%s)=%d, model holds between %d and %d keys", sm.cfg.Name, c.Count, lo, hi)}
			}
		} else {
			if ex == triYes {
				return swampExistViol("Count", sm, "yes", "no")
			}
			if c.Count != 0 {
				return &viol{"Count:not-exist-with-count", fmt.Sprintf("IsExist=false with Count=%d", c.Count)}
			}
		}
	}
	return nil
}

func cmpWord(got, lo, hi int) string {
	if got < lo {
		return "too-low"
	}
	if got > hi {
		return "too-high"
	}
	return "ok"
}

func (m *model) applyIsSwampExist(o *op, ob *obs) *viol {
	sm := m.sw[o.Sw]
	if ob.Err != nil {
		// SDK IsSwampExist: "If it never existed or was auto-deleted → returns (false, nil)";
		// the gateway-level FailedPrecondition is what the SDK maps to that.
		if missingSwampErr(ob.Err) {
			ob = &obs{Bool: false}
		} else {
			return &viol{"IsSwampExist:error:" + ob.Err.Code, "IsSwampExist returned an error: " + ob.Err.Msg}
		}
	} else if ob.NilResp {
		return &viol{"IsSwampExist:nil-response:" + m.situation(o), "IsSwampExist returned no response and no error"}
	}
	ex := sm.exist()
	if ex == triYes && !ob.Bool {
		return swampExistViol("IsSwampExist", sm, "yes", "no")
	}
	if ex == triNo && ob.Bool {
		return swampExistViol("IsSwampExist", sm, "no", "yes")
	}
	return nil
}

func (m *model) existKey(rpc string, sm *swampModel, k string, got bool) *viol {
	km := sm.keys[k]
	if km.wild {
		if !got {
			km.wild, km.cands = false, []kstate{{Absent: true}}
		}
		return nil
	}
	return km.judge(func(s kstate) ([]kstate, *viol) {
		if s.Absent == !got {
			return []kstate{s}, nil
		}
		mod := "absent"
		if !s.Absent {
			mod = s.R.Val.K.sigClass()
		}
		return nil, &viol{fmt.Sprintf("%s:existence:model=%s:obs=%v%s", rpc, mod, got, provSuffix(km)), fmt.Sprintf("%s(%s/%s)=%v, model: %s", rpc, sm.cfg.Name, k, got, mod)}
	})
}

func (m *model) applyIsKeyExist(o *op, ob *obs) *viol {
	sm := m.sw[o.Sw]
	ex := sm.exist()
	if ob.Err != nil {
		// SDK IsKeyExists: "(false, ErrCodeSwampNotFound) → Swamp does not exist"
		if ex != triYes && missingSwampErr(ob.Err) {
			return nil
		}
		if missingSwampErr(ob.Err) {
			return swampExistViol("IsKeyExist", sm, "yes", "error-FailedPrecondition")
		}
		return &viol{"IsKeyExist:error:" + ob.Err.Code + ":" + m.situation(o), "IsKeyExist returned an error: " + ob.Err.Msg}
	}
	if ob.NilResp {
		return &viol{"IsKeyExist:nil-response:" + m.situation(o), "IsKeyExist returned no response and no error"}
	}
	if ex == triNo && ob.Bool {
		return swampExistViol("IsKeyExist", sm, "no", "key-exists")
	}
	return m.existKey("IsKeyExist", sm, o.Key, ob.Bool)
}

func (m *model) applyAreKeysExist(o *op, ob *obs) *viol {
	sm := m.sw[o.Sw]
	ex := sm.exist()
	if ob.Err != nil {
		if missingSwampErr(ob.Err) {
			switch ex {
			case triNo:
				// proto AreKeysExist: "If the swamp does not exist, all keys will return false."
				return &viol{"AreKeysExist:missing-swamp:error-instead-of-all-false", fmt.Sprintf("AreKeysExist on the non-existing swamp %s (%s) returned FailedPrecondition (%s); documented: all keys false", sm.cfg.Name, sm.goneWhy, ob.Err.Msg)}
			case triMaybe:
				return nil
			}
			return swampExistViol("AreKeysExist", sm, "yes", "error-FailedPrecondition")
		}
		return &viol{"AreKeysExist:error:" + ob.Err.Code + ":" + m.situation(o), "AreKeysExist returned an error: " + ob.Err.Msg}
	}
	if ob.NilResp {
		return &viol{"AreKeysExist:nil-response:" + m.situation(o), "AreKeysExist returned no response and no error"}
	}
	// "All requested keys appear in the response — unlike GetByKeys, missing keys are NOT omitted."
	distinct := uniq(append([]string{}, o.Keys...))
	if len(ob.Map) != len(distinct) {
		return &viol{"AreKeysExist:response:key-count", fmt.Sprintf("%d results for %d distinct keys: %s", len(ob.Map), len(distinct), ob)}
	}
	for _, k := range distinct {
		got, ok := ob.Map[k]
		if !ok {
			return &viol{"AreKeysExist:response:key-missing", fmt.Sprintf("no result for key %s: %s", k, ob)}
		}
		if ex == triNo && got {
			return swampExistViol("AreKeysExist", sm, "no", "key-exists")
		}
		if v := m.existKey("AreKeysExist", sm, k, got); v != nil {
			return v
		}
	}
	return nil
}

// ---------------------------------------------------------------------------
// virtual sleeps

// evict applies a sleep longer than 3x CloseAfterIdle. RegisterSwampRequest.CloseAfterIdle:
// "Once this timeout expires with no reads or writes, the swamp will be closed and flushed to
// disk"; SDK RegisterSwampRequest.IsInMemorySwamp: "For in-memory Swamps, if CloseAfterIdle
// triggers, all data is permanently lost." Persistent swamps keep everything.
func (m *model) evict() {
	for _, sm := range m.sw {
		if sm.cfg.InMem {
			had := sm.exist() != triNo
			for _, k := range keyNames {
				sm.keys[k].setAbsent("evicted-in-memory")
			}
			if had {
				sm.touchedEmpty()
			}
			continue
		}
		for _, k := range keyNames {
			if sm.keys[k].loose {
				sm.keys[k].setWild(sm.keys[k].prov)
			}
			sm.keys[k].reloaded = true
		}
	}
}

// blur is applied when a request needed virtual time to finish: in-memory contents may or may
// not have been evicted meanwhile.
func (m *model) blur() {
	for _, sm := range m.sw {
		if sm.cfg.InMem {
			for _, k := range keyNames {
				sm.keys[k].setWild("blurred")
			}
			sm.touchedEmpty()
		}
	}
}
