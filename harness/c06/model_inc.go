// model_inc.go — Increment* and the Uint32Slice RPCs.
package c06

import (
	"fmt"
	"math"
)

func zeroOf(k kind) value { return value{K: k} }

func incFamily(k kind) string {
	switch {
	case k.signed():
		return "IncrementInt"
	case k.unsigned():
		return "IncrementUint"
	}
	return "IncrementFloat"
}

func evalCond(c *cond, v value) bool {
	var cmp int
	switch {
	case v.K.signed():
		cmp = cmpOrd(v.I < c.I, v.I > c.I)
	case v.K.unsigned():
		cmp = cmpOrd(v.U < c.U, v.U > c.U)
	default:
		cmp = cmpOrd(v.F < c.F, v.F > c.F)
	}
	// proto Relational.Operator: EQUAL "value == reference", GREATER_THAN "value > reference", ...
	switch c.Op {
	case "EQ":
		return cmp == 0
	case "NE":
		return cmp != 0
	case "GT":
		return cmp > 0
	case "GE":
		return cmp >= 0
	case "LT":
		return cmp < 0
	case "LE":
		return cmp <= 0
	}
	return false
}

func cmpOrd(less, greater bool) int {
	if less {
		return -1
	}
	if greater {
		return 1
	}
	return 0
}

var intRange = map[kind][2]int64{kInt8: {math.MinInt8, math.MaxInt8}, kInt16: {math.MinInt16, math.MaxInt16}, kInt32: {math.MinInt32, math.MaxInt32}, kInt64: {math.MinInt64, math.MaxInt64}}
var uintMax = map[kind]uint64{kUint8: math.MaxUint8, kUint16: math.MaxUint16, kUint32: math.MaxUint32, kUint64: math.MaxUint64}

// addDelta: "IncrementBy is the signed integer to add (or subtract) from the current value".
// overflow=true when the mathematical result leaves the type's range (not documented).
func addDelta(cur value, o *op) (value, bool) {
	n := cur
	switch {
	case cur.K.signed():
		r := intRange[cur.K]
		if (o.DI > 0 && cur.I > r[1]-o.DI) || (o.DI < 0 && cur.I < r[0]-o.DI) {
			return n, true
		}
		n.I = cur.I + o.DI
	case cur.K.unsigned():
		if cur.U > uintMax[cur.K]-o.DU {
			return n, true
		}
		n.U = cur.U + o.DU
	case cur.K == kFloat32:
		n.F = float64(float32(cur.F) + float32(o.DF))
	default:
		n.F = cur.F + o.DF
	}
	return n, false
}

func deltaValue(o *op) value {
	v, _ := addDelta(zeroOf(o.Kind), o)
	return v
}

// applyIncMeta applies a metadata descriptor. SDK IncrementInt8: "SetCreatedAt (bool) → when
// true, server sets CreatedAt=now.UTC(); SetCreatedBy (string) → when non-empty, server sets
// CreatedBy to this value; ... ExpiredAt (time.Time) → when non-zero, server sets ExpiredAt".
// optional=true (failed condition): each touched field may keep its old value.
func applyIncMeta(rpc string, r *record, im *incMeta, inc *obsInc, t0, t1 int64, optional bool) *viol {
	if im == nil {
		return nil
	}
	now := func(name string, f *mt, got int64) *viol {
		if got >= t0 && got <= t1 {
			*f = mt{V: got}
			return nil
		}
		if optional && (f.Any || f.V == got) {
			return nil
		}
		return &viol{fmt.Sprintf("%s:meta:%s-not-now", rpc, name), fmt.Sprintf("%s asked for %s=now (virtual clock %d..%d), response carries %d", rpc, name, t0, t1, got)}
	}
	setT := func(f *mt, want, got int64) {
		if optional && (f.Any || got == f.V) {
			return // old value kept (or unknown old value: the response is adopted later)
		}
		*f = mt{V: want}
	}
	setS := func(f *ms, want, got string) {
		if optional && (f.Any || got == f.V) {
			return
		}
		*f = ms{V: want}
	}
	if im.CreatedAt {
		if v := now("createdAt", &r.CAt, inc.CAt); v != nil {
			return v
		}
	}
	if im.UpdatedAt {
		if v := now("updatedAt", &r.UAt, inc.UAt); v != nil {
			return v
		}
	}
	if im.CreatedBy != "" {
		setS(&r.CBy, im.CreatedBy, inc.CBy)
	}
	if im.UpdatedBy != "" {
		setS(&r.UBy, im.UpdatedBy, inc.UBy)
	}
	if im.ExpiredAt != 0 {
		setT(&r.EAt, im.ExpiredAt, inc.EAt)
	}
	return nil
}

// checkIncResponseMeta: "The function always returns the value and metadata that are currently
// stored for the Treasure."
func checkIncResponseMeta(rpc, sit string, r *record, inc *obsInc) *viol {
	t := func(name string, f *mt, got int64) *viol {
		if f.Any {
			*f = mt{V: got}
			return nil
		}
		if f.V != got {
			return &viol{fmt.Sprintf("%s:response-meta:%s:%s", rpc, name, sit), fmt.Sprintf("%s response %s=%d, model %d", rpc, name, got, f.V)}
		}
		return nil
	}
	s := func(name string, f *ms, got string) *viol {
		if f.Any {
			*f = ms{V: got}
			return nil
		}
		if f.V != got {
			return &viol{fmt.Sprintf("%s:response-meta:%s:%s", rpc, name, sit), fmt.Sprintf("%s response %s=%q, model %q", rpc, name, got, f.V)}
		}
		return nil
	}
	for _, v := range []*viol{t("createdAt", &r.CAt, inc.CAt), s("createdBy", &r.CBy, inc.CBy), t("updatedAt", &r.UAt, inc.UAt), s("updatedBy", &r.UBy, inc.UBy), t("expiredAt", &r.EAt, inc.EAt)} {
		if v != nil {
			return v
		}
	}
	return nil
}

// applyIncrement. SDK IncrementInt8 doc comment: "If the Swamp or Treasure does not exist,
// HydrAIDE will create them. If a condition is provided, the increment runs atomically on the
// server only if the current value satisfies the given relational operator. The function always
// returns the value and metadata that are currently stored ... If the condition is not met,
// you'll get the current value (not incremented) ... If the Treasure exists but has a different
// value type (e.g. float64), the call fails. The server chooses which of the two (create/update)
// descriptors to apply based on whether the Treasure existed before the increment attempt."
func (m *model) applyIncrement(o *op, ob *obs) *viol {
	sm := m.sw[o.Sw]
	km := sm.keys[o.Key]
	rpc := incFamily(o.Kind) // signatures name the family (IncrementInt/Uint/Float), not the ten RPCs
	sit := m.situation(o)
	if s, ok := km.single(); ok && !s.Absent {
		sit += ":cur" + zeroMark(s.R.Val) // a current value of zero is marked (zero values have their own reload defect)
		if km.reloaded {
			sit += ":reloaded"
		}
	}
	prev := km.label()
	defer func() {
		if sm.exist() != triYes {
			sm.touchedEmpty()
		}
	}()
	if ob.Err == nil && (ob.NilResp || ob.Inc == nil) {
		return &viol{rpc + ":nil-response:" + sit, rpc + " returned no response and no error"}
	}
	if km.wild {
		if ob.Err == nil && ob.Inc.Incremented {
			km.wild, km.cands = false, []kstate{{R: record{Val: ob.Inc.Val, CAt: mt{Any: true}, UAt: mt{Any: true}, EAt: mt{Any: true}, CBy: ms{Any: true}, UBy: ms{Any: true}}}}
			km.prov, km.reloaded, km.loose = rpc+":unspecified", false, false
		}
		return nil
	}
	goWild := false
	mutated := false
	v := km.judge(func(s kstate) ([]kstate, *viol) {
		if ob.Err != nil {
			if !s.Absent && s.R.Val.K != o.Kind {
				return []kstate{s}, nil // documented failure, nothing changes
			}
			return nil, &viol{fmt.Sprintf("%s:error:%s:%s", rpc, ob.Err.Code, sit), fmt.Sprintf("%s on %s/%s (%s) failed: %s", rpc, sm.cfg.Name, o.Key, prev, ob.Err.Msg)}
		}
		inc := ob.Inc
		wantVal := func(want value, clause string) *viol {
			if !valueEqual(inc.Val, want) {
				return &viol{fmt.Sprintf("%s:value:%s:%s", rpc, clause, sit), fmt.Sprintf("%s on %s/%s: response value %s, model %s (incremented=%v)", rpc, sm.cfg.Name, o.Key, inc.Val, want, inc.Incremented)}
			}
			return nil
		}
		switch {
		case s.Absent:
			holds := o.Cond == nil || evalCond(o.Cond, zeroOf(o.Kind))
			if !holds && !inc.Incremented {
				goWild = true // condition on a missing key: not documented
				return []kstate{s}, nil
			}
			if !inc.Incremented {
				return nil, &viol{fmt.Sprintf("%s:not-incremented:%s", rpc, sit), fmt.Sprintf("%s on missing key %s/%s without a failing condition answered IsIncremented=false", rpc, sm.cfg.Name, o.Key)}
			}
			if v := wantVal(deltaValue(o), "created"); v != nil {
				return nil, v
			}
			r := record{Val: deltaValue(o)}
			if v := applyIncMeta(rpc, &r, o.IfNot, inc, ob.T0, ob.T1, false); v != nil {
				return nil, v
			}
			if v := checkIncResponseMeta(rpc, sit, &r, inc); v != nil {
				return nil, v
			}
			mutated = true
			return []kstate{{R: r}}, nil
		case s.R.Val.K == o.Kind:
			cur := s.R.Val
			holds := o.Cond == nil || evalCond(o.Cond, cur)
			r := s.R
			if holds {
				if !inc.Incremented {
					return nil, &viol{fmt.Sprintf("%s:not-incremented:%s", rpc, sit), fmt.Sprintf("%s on %s/%s=%s cond %+v: condition holds but IsIncremented=false", rpc, sm.cfg.Name, o.Key, cur, o.Cond)}
				}
				nv, overflow := addDelta(cur, o)
				if overflow {
					goWild = true
					return []kstate{s}, nil
				}
				if v := wantVal(nv, "incremented"); v != nil {
					return nil, v
				}
				r.Val = nv
				if v := applyIncMeta(rpc, &r, o.IfExist, inc, ob.T0, ob.T1, false); v != nil {
					return nil, v
				}
				mutated = true
			} else {
				// proto IncrementInt8: "If the condition fails, the value is not modified."
				if inc.Incremented {
					return nil, &viol{fmt.Sprintf("%s:incremented-despite-condition:%s", rpc, sit), fmt.Sprintf("%s on %s/%s=%s cond %+v: condition fails but IsIncremented=true (value %s)", rpc, sm.cfg.Name, o.Key, cur, o.Cond, inc.Val)}
				}
				if v := wantVal(cur, "condition-failed"); v != nil {
					return nil, v
				}
				if v := applyIncMeta(rpc, &r, o.IfExist, inc, ob.T0, ob.T1, true); v != nil {
					return nil, v
				}
				if o.IfExist != nil {
					mutated = true
				}
			}
			if v := checkIncResponseMeta(rpc, sit, &r, inc); v != nil {
				return nil, v
			}
			return []kstate{{R: r}}, nil
		case s.R.Val.K == kVoid:
			goWild = true // void value: "different type" or "no value yet" — not documented
			return []kstate{s}, nil
		default:
			return nil, &viol{fmt.Sprintf("%s:type-mismatch:no-error:stored=%s%s", rpc, s.R.Val.K.sigClass(), provSuffix(km)), fmt.Sprintf("%s on %s/%s holding %s succeeded (value %s); documented: the call fails", rpc, sm.cfg.Name, o.Key, s.R.Val, inc.Val)}
		}
	})
	if v != nil {
		return v
	}
	label := rpc + ":" + prev
	if ob.Inc != nil && !ob.Inc.Incremented {
		label += ":condition-failed"
	}
	if goWild {
		km.setWild(label + ":unspecified")
	} else if mutated {
		km.prov, km.reloaded = label, false
		if ob.Inc != nil && ob.Inc.Incremented {
			km.loose = false // a successful increment saves the treasure
		}
	}
	return nil
}

// ---------------------------------------------------------------------------
// uint32 sets

// classify a key for slice operations: "ok" (absent or slice), "mismatch" (another kind),
// "open" (void / ambiguous / unspecified)
func sliceClass(km *keyModel) (string, kstate) {
	s, ok := km.single()
	if !ok {
		return "open", s
	}
	if s.Absent || s.R.Val.K == kSlice {
		return "ok", s
	}
	if s.R.Val.K == kVoid {
		return "open", s
	}
	return "mismatch", s
}

// applyPush. SDK Uint32SlicePush: "If a value is already present in the slice, it will not be
// added again. Values that are not yet present will be appended in the order received. The Swamp
// and Treasures will be auto-created if they don't exist. If the Treasure exists but is not of
// uint32 slice type, an error is returned."
func (m *model) applyPush(o *op, ob *obs) *viol {
	sm := m.sw[o.Sw]
	sit := m.situation(o)
	defer func() {
		if sm.exist() != triYes {
			sm.touchedEmpty()
		}
	}()
	excuse := false
	for _, p := range o.Pairs {
		cl, s := sliceClass(sm.keys[p.Key])
		if cl != "ok" {
			excuse = true
		}
		if cl == "mismatch" && ob.Err == nil {
			return &viol{fmt.Sprintf("Uint32SlicePush:type-mismatch:no-error:stored=%s", s.R.Val.K.sigClass()), fmt.Sprintf("Uint32SlicePush %v onto %s/%s holding %s returned no error; documented: an error is returned", p.Values, sm.cfg.Name, p.Key, s.R.Val)}
		}
	}
	if ob.Err != nil && !excuse {
		return &viol{"Uint32SlicePush:error:" + ob.Err.Code + ":" + sit, "Uint32SlicePush returned an error: " + ob.Err.Msg}
	}
	for _, p := range o.Pairs {
		km := sm.keys[p.Key]
		prev := km.label()
		cl, s := sliceClass(km)
		switch {
		case cl == "open":
			km.setWild("Uint32SlicePush:" + prev + ":unspecified")
		case cl == "mismatch":
			// error: the key keeps its value
		case ob.Err != nil:
			km.setWild("Uint32SlicePush:" + prev + ":request-failed") // "atomic per key": applied or not
		default:
			r := s.R
			if s.Absent {
				r = record{Val: value{K: kSlice}}
			}
			r.Val = value{K: kSlice, L: sliceUnion(r.Val.L, p.Values)}
			km.cands = []kstate{{R: r}}
			if s.Absent && len(r.Val.L) == 0 {
				km.cands = []kstate{{Absent: true}, {R: r}} // nothing pushed: key created empty or not
			}
			km.prov, km.reloaded = "Uint32SlicePush:"+prev, false
		}
	}
	return nil
}

// applySliceDelete. proto Uint32SliceDelete: "If a value does not exist, it is silently ignored.
// The key itself (treasure) is preserved – only the values inside the slice are modified."
// SDK: "If the Treasure does not exist, the operation does not return an error — it is treated
// as a no-op. If a Treasure becomes empty after deletion, it is automatically removed. If a Swamp
// becomes empty as a result, it is also removed. error only in case of low-level database or
// type mismatch issues".
func (m *model) applySliceDelete(o *op, ob *obs) *viol {
	sm := m.sw[o.Sw]
	sit := m.situation(o)
	defer func() {
		if sm.exist() != triYes {
			sm.touchedEmpty()
		}
	}()
	excuse := false
	for _, p := range o.Pairs {
		if cl, _ := sliceClass(sm.keys[p.Key]); cl != "ok" {
			excuse = true
		}
	}
	if ob.Err != nil && !excuse {
		return &viol{"Uint32SliceDelete:error:" + ob.Err.Code + ":" + sit, "Uint32SliceDelete returned an error: " + ob.Err.Msg}
	}
	for _, p := range o.Pairs {
		km := sm.keys[p.Key]
		prev := km.label()
		cl, s := sliceClass(km)
		switch {
		case cl == "open":
			km.setWild("Uint32SliceDelete:" + prev + ":unspecified")
		case cl == "mismatch":
			// no-op or error; the key keeps its value
			km.prov, km.reloaded = "Uint32SliceDelete:non-slice-key(must-not-change)", false
		case s.Absent:
		case ob.Err != nil:
			km.setWild("Uint32SliceDelete:" + prev + ":request-failed")
		default:
			rem := sliceMinus(s.R.Val.L, p.Values)
			r := s.R
			r.Val = value{K: kSlice, L: rem}
			switch {
			case len(rem) == 0:
				km.cands = []kstate{{Absent: true}, {R: r}}
				km.prov, km.reloaded = "Uint32SliceDelete:empties-slice", false
			case len(rem) != len(s.R.Val.L):
				km.cands = []kstate{{R: r}}
				km.prov, km.reloaded = "Uint32SliceDelete:partial", false
			}
		}
	}
	return nil
}

// applySliceSize. SDK Uint32SliceSize: "If the key does not exist, an ErrCodeInvalidArgument is
// returned. If the key exists but is not a uint32 slice, an ErrCodeFailedPrecondition is
// returned. Otherwise, returns the exact number of values in the slice."
func (m *model) applySliceSize(o *op, ob *obs) *viol {
	sm := m.sw[o.Sw]
	km := sm.keys[o.Key]
	defer func() {
		if sm.exist() != triYes {
			sm.touchedEmpty()
		}
	}()
	if km.wild {
		return nil
	}
	if ob.Err == nil && ob.NilResp {
		return &viol{"Uint32SliceSize:nil-response:" + m.situation(o), "Uint32SliceSize returned no response and no error"}
	}
	return km.judge(func(s kstate) ([]kstate, *viol) {
		switch {
		case s.Absent:
			if ob.Err == nil {
				return nil, &viol{"Uint32SliceSize:missing-key:no-error" + provSuffix(km), fmt.Sprintf("Uint32SliceSize(%s/%s) on a missing key answered %d without error", sm.cfg.Name, o.Key, ob.Size)}
			}
		case s.R.Val.K == kSlice:
			if ob.Err != nil {
				return nil, &viol{"Uint32SliceSize:error:" + ob.Err.Code + provSuffix(km), fmt.Sprintf("Uint32SliceSize(%s/%s) holding %s failed: %s", sm.cfg.Name, o.Key, s.R.Val, ob.Err.Msg)}
			}
			if ob.Size != int64(len(s.R.Val.L)) {
				return nil, &viol{"Uint32SliceSize:size" + provSuffix(km), fmt.Sprintf("Uint32SliceSize(%s/%s)=%d, model holds %v", sm.cfg.Name, o.Key, ob.Size, s.R.Val.L)}
			}
		case s.R.Val.K == kVoid:
			// void: "not a uint32 slice" (error) or an empty set (size 0) — not documented
			if ob.Err == nil && ob.Size != 0 {
				return nil, &viol{"Uint32SliceSize:size" + provSuffix(km), fmt.Sprintf("Uint32SliceSize(%s/%s)=%d on a void value", sm.cfg.Name, o.Key, ob.Size)}
			}
		default:
			if ob.Err == nil {
				return nil, &viol{fmt.Sprintf("Uint32SliceSize:type-mismatch:no-error:stored=%s%s", s.R.Val.K.sigClass(), provSuffix(km)), fmt.Sprintf("Uint32SliceSize(%s/%s) holding %s answered %d without error", sm.cfg.Name, o.Key, s.R.Val, ob.Size)}
			}
		}
		return []kstate{s}, nil
	})
}

// applySliceIsValueExist. SDK: "If the key exists and the value is present, returns true. If
// the key exists but the value is not in the slice, returns false. If the key does not exist or
// type is invalid, returns an error."
func (m *model) applySliceIsValueExist(o *op, ob *obs) *viol {
	sm := m.sw[o.Sw]
	km := sm.keys[o.Key]
	defer func() {
		if sm.exist() != triYes {
			sm.touchedEmpty()
		}
	}()
	if km.wild {
		return nil
	}
	if ob.Err == nil && ob.NilResp {
		return &viol{"Uint32SliceIsValueExist:nil-response:" + m.situation(o), "Uint32SliceIsValueExist returned no response and no error"}
	}
	return km.judge(func(s kstate) ([]kstate, *viol) {
		switch {
		case s.Absent:
			if ob.Err == nil {
				return nil, &viol{"Uint32SliceIsValueExist:missing-key:no-error" + provSuffix(km), fmt.Sprintf("Uint32SliceIsValueExist(%s/%s) on a missing key answered %v without error", sm.cfg.Name, o.Key, ob.Bool)}
			}
		case s.R.Val.K == kSlice:
			if ob.Err != nil {
				return nil, &viol{"Uint32SliceIsValueExist:error:" + ob.Err.Code + provSuffix(km), fmt.Sprintf("Uint32SliceIsValueExist(%s/%s) holding %s failed: %s", sm.cfg.Name, o.Key, s.R.Val, ob.Err.Msg)}
			}
			want := false
			for _, x := range s.R.Val.L {
				if x == o.Val {
					want = true
				}
			}
			if ob.Bool != want {
				return nil, &viol{fmt.Sprintf("Uint32SliceIsValueExist:membership:want=%v%s", want, provSuffix(km)), fmt.Sprintf("Uint32SliceIsValueExist(%s/%s,%d)=%v, model holds %v", sm.cfg.Name, o.Key, o.Val, ob.Bool, s.R.Val.L)}
			}
		case s.R.Val.K == kVoid:
			// void: "type is invalid" (error) or an empty set (false) — not documented
			if ob.Err == nil && ob.Bool {
				return nil, &viol{"Uint32SliceIsValueExist:membership:want=false" + provSuffix(km), fmt.Sprintf("Uint32SliceIsValueExist(%s/%s,%d)=true on a void value", sm.cfg.Name, o.Key, o.Val)}
			}
		default:
			if ob.Err == nil {
				return nil, &viol{fmt.Sprintf("Uint32SliceIsValueExist:type-mismatch:no-error:stored=%s", s.R.Val.K.sigClass()), fmt.Sprintf("Uint32SliceIsValueExist(%s/%s) holding %s answered %v without error; documented: returns an error", sm.cfg.Name, o.Key, s.R.Val, ob.Bool)}
			}
		}
		return []kstate{s}, nil
	})
}
