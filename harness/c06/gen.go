// gen.go — deterministic request-sequence generator. A case depends only on (VERIF_SEED, case
// index); it never looks at the engine or the model, so a witness replays exactly.
package c06

import (
	"fmt"
	"math/rand/v2"
)

const (
	idleSec      = 30     // CloseAfterIdle of both swamp patterns
	tinySleepMs  = 200    // stays far below the idle window
	flushSleepMs = 1500   // crosses a 1 s write interval
	evictSleepMs = 100000 // > 3x idle: every swamp is closed (and in-memory data lost)
	maxShortMs   = 12000  // budget of tiny+flush sleeps between two evictions (< idleSec)
)

var base2000 = int64(946684800) * 1e9 // 2000-01-01 UTC in unix nanos (start of the virtual clock)

func pick[T any](r *rand.Rand, l []T) T { return l[r.IntN(len(l))] }

func genValue(r *rand.Rand, k kind) value {
	v := value{K: k}
	switch {
	case k.signed():
		v.I = pick(r, []int64{0, 1, -1, 2, -3, 5, 100})
		if r.IntN(12) == 0 {
			v.I = pick(r, []int64{intRange[k][0], intRange[k][1]})
		}
	case k.unsigned():
		v.U = pick(r, []uint64{0, 1, 2, 3, 7, 200})
		if r.IntN(12) == 0 {
			v.U = uintMax[k]
		}
	case k.float():
		v.F = pick(r, []float64{0, 0.5, -1.25, 2, 1024.75})
	case k == kString:
		v.S = pick(r, []string{"", "a", "b", "hello world", "árvíztűrő\x00tükörfúrógép"})
	case k == kBool:
		v.T = r.IntN(2) == 0
	case k == kBytes:
		v.B = pick(r, [][]byte{{0}, {1, 2, 3}, {0xff, 0, 0xff}, []byte("x")})
	case k == kSlice:
		v.L = genList(r, false)
	}
	return v
}

var slicePool = []uint32{1, 2, 3, 7, 0, 4294967295}

// genList builds a hostile uint32 value list: values repeated inside the list, 0 and MaxUint32,
// long lists, and (allowEmpty) the empty list. The documentation makes the stored value a set
// ("each number can only exist once"), so the model de-duplicates.
func genList(r *rand.Rand, allowEmpty bool) []uint32 {
	var l []uint32
	switch x := r.IntN(100); {
	case x < 6 && allowEmpty:
		return []uint32{}
	case x < 45: // short, possibly with repeats
		n := 1 + r.IntN(3)
		for i := 0; i < n; i++ {
			l = append(l, pick(r, slicePool))
		}
	case x < 75: // repeats on purpose
		a, b := pick(r, slicePool), pick(r, slicePool)
		l = pick(r, [][]uint32{{a, a}, {a, b, a}, {a, a, a, b}, {b, a, b, a}})
	case x < 90: // the whole pool, shuffled, some twice
		for _, i := range r.Perm(len(slicePool)) {
			l = append(l, slicePool[i])
			if r.IntN(3) == 0 {
				l = append(l, slicePool[i])
			}
		}
	default: // long list over a wider range, with repeats
		n := 20 + r.IntN(60)
		for i := 0; i < n; i++ {
			l = append(l, uint32(r.IntN(24)))
		}
	}
	return l
}

// genKeyList is a key list that may name a key more than once.
func genKeyList(r *rand.Rand, min, max int) []string {
	ks := genKeys(r, min, max)
	if r.IntN(4) == 0 {
		ks = append(ks, pick(r, ks))
		if r.IntN(3) == 0 {
			ks = append([]string{pick(r, ks)}, ks...)
		}
	}
	return ks
}

func genTime(r *rand.Rand) int64 {
	// instants around the virtual clock: past, "now-ish", future; whole and fractional seconds
	return base2000 + pick(r, []int64{-86400e9, -1, 1, 5e9, 3600e9 + 123456789, 86400e9 * 365})
}

func genMeta(r *rand.Rand) metaReq {
	var m metaReq
	if r.IntN(100) >= 35 {
		return m
	}
	if r.IntN(2) == 0 {
		m.CreatedAt = genTime(r)
	}
	if r.IntN(2) == 0 {
		m.CreatedBy = pick(r, []string{"alice", "bob"})
	}
	if r.IntN(3) == 0 {
		m.UpdatedAt = genTime(r)
	}
	if r.IntN(3) == 0 {
		m.UpdatedBy = pick(r, []string{"alice", "carol"})
	}
	if r.IntN(3) == 0 {
		m.ExpiredAt = genTime(r)
	}
	return m
}

func genIncMeta(r *rand.Rand) *incMeta {
	if r.IntN(100) >= 35 {
		return nil
	}
	m := &incMeta{CreatedAt: r.IntN(2) == 0, UpdatedAt: r.IntN(2) == 0}
	if r.IntN(2) == 0 {
		m.CreatedBy = pick(r, []string{"svc-a", "svc-b"})
	}
	if r.IntN(2) == 0 {
		m.UpdatedBy = pick(r, []string{"svc-a", "svc-c"})
	}
	if r.IntN(3) == 0 {
		m.ExpiredAt = genTime(r)
	}
	return m
}

func genKeys(r *rand.Rand, min, max int) []string {
	n := min + r.IntN(max-min+1)
	perm := r.Perm(4)
	var ks []string
	for i := 0; i < n; i++ {
		ks = append(ks, keyNames[perm[i]])
	}
	return ks
}

func (c *caseT) prefKind(r *rand.Rand, key string, among func(kind) bool) kind {
	for i, k := range keyNames {
		if k == key && r.IntN(100) < 75 && among(c.Pref[i]) {
			return c.Pref[i]
		}
	}
	for {
		k := pick(r, allKinds)
		if among(k) {
			return k
		}
	}
}

var incRPC = map[kind]string{kInt8: "IncrementInt8", kInt16: "IncrementInt16", kInt32: "IncrementInt32", kInt64: "IncrementInt64", kUint8: "IncrementUint8", kUint16: "IncrementUint16", kUint32: "IncrementUint32", kUint64: "IncrementUint64", kFloat32: "IncrementFloat32", kFloat64: "IncrementFloat64"}

func genCase(r *rand.Rand, idx, nOps int) *caseT {
	c := &caseT{Idx: idx, IdleSec: idleSec}
	for i := range c.Swamps {
		inMem := r.IntN(3) == 0
		c.Swamps[i] = swampCfg{Name: fmt.Sprintf("c06s/%s/sw%d", pick(r, []string{"alpha", "beta", "gamma"}), i), InMem: inMem}
		if !inMem {
			c.Swamps[i].WriteSec = pick(r, []int64{0, 1, 1, 5})
		}
	}
	c.Pref = [4]kind{pick(r, numericKinds), pick(r, numericKinds), kSlice, pick(r, allKinds)}
	if r.IntN(3) == 0 {
		c.Pref[1] = kSlice
	}
	shortBudget := int64(maxShortMs)
	sw := func() int {
		if r.IntN(4) == 0 {
			return 1
		}
		return 0
	}
	for len(c.Ops) < nOps {
		x := r.IntN(1000)
		var o op
		switch {
		case x < 190: // Set
			o.RPC = "Set"
			nParts := 1
			if r.IntN(8) == 0 {
				nParts = 2
			}
			first := sw()
			for pi := 0; pi < nParts; pi++ {
				p := part{Sw: (first + pi) % 2}
				if pi == 1 && r.IntN(3) == 0 {
					p.Sw = first // the same swamp twice in one request
				}
				switch y := r.IntN(100); {
				case y < 62:
					p.Create, p.Overwrite = true, true
				case y < 77:
					p.Create = true
				case y < 94:
					p.Overwrite = true
				}
				for _, k := range genKeys(r, 1, 2) {
					kd := c.prefKind(r, k, func(kind) bool { return true })
					p.KVs = append(p.KVs, kvReq{Key: k, Val: genValue(r, kd), Meta: genMeta(r)})
				}
				// the same key again in the same request: same value, another value, another kind
				for r.IntN(100) < 22 && len(p.KVs) < 5 {
					again := pick(r, p.KVs)
					switch r.IntN(3) {
					case 0: // identical item
					case 1:
						again.Val = genValue(r, again.Val.K)
					default:
						again.Val, again.Meta = genValue(r, c.prefKind(r, again.Key, func(kind) bool { return true })), genMeta(r)
					}
					p.KVs = append(p.KVs, again)
				}
				o.Parts = append(o.Parts, p)
			}
		case x < 260: // Get
			o.RPC = "Get"
			nParts := 1
			if r.IntN(5) == 0 {
				nParts = 2
			}
			first := sw()
			for pi := 0; pi < nParts; pi++ {
				o.Parts = append(o.Parts, part{Sw: (first + pi) % 2, Keys: genKeyList(r, 1, 3)})
			}
		case x < 305:
			o.RPC, o.Sw = "GetAll", sw()
		case x < 350:
			o.RPC, o.Sw, o.Keys = "GetByKeys", sw(), genKeyList(r, 1, 4)
			switch r.IntN(6) {
			case 0:
				o.Exclude = genKeys(r, 1, 2)
			case 1:
				o.Include = genKeys(r, 1, 3)
			case 2:
				o.KeysOnly = true
			}
		case x < 425: // Delete
			o.RPC = "Delete"
			nParts := 1
			if r.IntN(8) == 0 {
				nParts = 2
			}
			first := sw()
			for pi := 0; pi < nParts; pi++ {
				o.Parts = append(o.Parts, part{Sw: (first + pi) % 2, Keys: genKeyList(r, 1, 3)})
			}
		case x < 460: // Count
			o.RPC = "Count"
			nParts := 1
			if r.IntN(3) == 0 {
				nParts = 2
			}
			first := sw()
			for pi := 0; pi < nParts; pi++ {
				o.Parts = append(o.Parts, part{Sw: (first + pi) % 2})
			}
		case x < 495:
			o.RPC, o.Sw = "IsSwampExist", sw()
		case x < 530:
			o.RPC, o.Sw, o.Key = "IsKeyExist", sw(), pick(r, keyNames[:])
		case x < 565:
			o.RPC, o.Sw, o.Keys = "AreKeysExist", sw(), genKeyList(r, 1, 4)
		case x < 715: // Increment*
			o.Sw = sw()
			o.Key = pick(r, []string{"k0", "k0", "k1", "k1", "k3", "k2"})
			o.Kind = c.prefKind(r, o.Key, func(k kind) bool { return k.numeric() })
			o.RPC = incRPC[o.Kind]
			switch {
			case o.Kind.signed():
				o.DI = pick(r, []int64{1, 1, 2, -1, -3, 5})
			case o.Kind.unsigned():
				o.DU = pick(r, []uint64{1, 1, 2, 3})
			default:
				o.DF = pick(r, []float64{0.5, 1, -0.25, 2.75})
			}
			if r.IntN(100) < 45 {
				cd := &cond{Op: pick(r, []string{"EQ", "NE", "GT", "GE", "LT", "LE"})}
				switch {
				case o.Kind.signed():
					cd.I = pick(r, []int64{0, 1, 2, -1, 5})
				case o.Kind.unsigned():
					cd.U = pick(r, []uint64{0, 1, 2, 3, 7})
				default:
					cd.F = pick(r, []float64{0, 0.5, 1, 2})
				}
				o.Cond = cd
			}
			o.IfNot, o.IfExist = genIncMeta(r), genIncMeta(r)
		case x < 775:
			o.RPC, o.Sw = "Uint32SlicePush", sw()
			for _, k := range sliceKeys(r, c) {
				o.Pairs = append(o.Pairs, pair{Key: k, Values: genList(r, true)})
			}
		case x < 835:
			o.RPC, o.Sw = "Uint32SliceDelete", sw()
			for _, k := range sliceKeys(r, c) {
				o.Pairs = append(o.Pairs, pair{Key: k, Values: genList(r, true)})
			}
		case x < 865:
			o.RPC, o.Sw, o.Key = "Uint32SliceSize", sw(), sliceKeys(r, c)[0]
		case x < 895:
			o.RPC, o.Sw, o.Key, o.Val = "Uint32SliceIsValueExist", sw(), sliceKeys(r, c)[0], pick(r, append([]uint32{11, 23}, slicePool...))
		case x < 935:
			o.RPC, o.Sw, o.Keys = "ShiftByKeys", sw(), genKeyList(r, 1, 3)
		case x < 950:
			o.RPC, o.Sw = "Destroy", sw()
		default: // sleeps
			o.RPC = "Sleep"
			switch y := r.IntN(100); {
			case y < 40 && shortBudget >= tinySleepMs:
				o.SleepClass, o.SleepMs = "tiny", tinySleepMs
				shortBudget -= tinySleepMs
			case y < 65 && shortBudget >= flushSleepMs:
				o.SleepClass, o.SleepMs = "flush", flushSleepMs
				shortBudget -= flushSleepMs
			default:
				o.SleepClass, o.SleepMs = "evict", evictSleepMs
				shortBudget = maxShortMs
			}
		}
		c.Ops = append(c.Ops, o)
	}
	return c
}

// sliceKeys picks 1–2 distinct keys, biased to the keys whose preferred kind is the uint32 set.
func sliceKeys(r *rand.Rand, c *caseT) []string {
	var pref []string
	for i, k := range keyNames {
		if c.Pref[i] == kSlice {
			pref = append(pref, k)
		}
	}
	one := func() string {
		if len(pref) > 0 && r.IntN(100) < 78 {
			return pick(r, pref)
		}
		return pick(r, keyNames[:])
	}
	ks := []string{one()}
	if r.IntN(4) == 0 {
		ks = append(ks, one()) // may name the same key again
	}
	return ks
}
