// Package c06 — single-client API behaves like a simple key-value model.
//
// types.go: the serialisable case (configuration + request sequence) and the neutral
// observation structs the executor hands to the reference model. Nothing in this file or in
// model.go imports the engine; the model only sees these neutral values.
package c06

import (
	"fmt"
	"sort"
	"strings"
)

// ---------------------------------------------------------------------------
// values

type kind string

const (
	kVoid    kind = "void"
	kInt8    kind = "int8"
	kInt16   kind = "int16"
	kInt32   kind = "int32"
	kInt64   kind = "int64"
	kUint8   kind = "uint8"
	kUint16  kind = "uint16"
	kUint32  kind = "uint32"
	kUint64  kind = "uint64"
	kFloat32 kind = "float32"
	kFloat64 kind = "float64"
	kString  kind = "string"
	kBool    kind = "bool"
	kBytes   kind = "bytes"
	kSlice   kind = "slice"
)

var numericKinds = []kind{kInt8, kInt16, kInt32, kInt64, kUint8, kUint16, kUint32, kUint64, kFloat32, kFloat64}
var allKinds = []kind{kVoid, kInt8, kInt16, kInt32, kInt64, kUint8, kUint16, kUint32, kUint64, kFloat32, kFloat64, kString, kBool, kBytes, kSlice}

func (k kind) signed() bool   { return k == kInt8 || k == kInt16 || k == kInt32 || k == kInt64 }
func (k kind) unsigned() bool { return k == kUint8 || k == kUint16 || k == kUint32 || k == kUint64 }
func (k kind) float() bool    { return k == kFloat32 || k == kFloat64 }
func (k kind) numeric() bool  { return k.signed() || k.unsigned() || k.float() }

// class is the kind as it appears in violation signatures: the eight integer kinds and the two
// float kinds are folded so that one defect does not produce ten signatures.
func (k kind) class() string {
	switch {
	case k.signed(), k.unsigned():
		return "int"
	case k.float():
		return "float"
	}
	return string(k)
}

// sigClass is the coarser class used where a signature names the kinds on both sides of a
// mismatch or of an overwrite: void, slice (uint32 set) or scalar (everything else).
func (k kind) sigClass() string {
	switch k {
	case kVoid, kSlice:
		return string(k)
	}
	return "scalar"
}

// value is one typed treasure value. Exactly the field that belongs to K is meaningful.
type value struct {
	K kind     `json:"k"`
	I int64    `json:"i,omitempty"` // signed kinds
	U uint64   `json:"u,omitempty"` // unsigned kinds
	F float64  `json:"f,omitempty"` // float kinds (float32 values are exactly representable)
	S string   `json:"s,omitempty"`
	T bool     `json:"t,omitempty"`
	B []byte   `json:"b,omitempty"`
	L []uint32 `json:"l,omitempty"` // slice kind, insertion order
}

func (v value) String() string {
	switch {
	case v.K.signed():
		return fmt.Sprintf("%s(%d)", v.K, v.I)
	case v.K.unsigned():
		return fmt.Sprintf("%s(%d)", v.K, v.U)
	case v.K.float():
		return fmt.Sprintf("%s(%v)", v.K, v.F)
	case v.K == kString:
		return fmt.Sprintf("string(%q)", v.S)
	case v.K == kBool:
		return fmt.Sprintf("bool(%v)", v.T)
	case v.K == kBytes:
		return fmt.Sprintf("bytes(%x)", v.B)
	case v.K == kSlice:
		return fmt.Sprintf("slice(%v)", v.L)
	}
	return string(v.K)
}

// isZero says whether v is the zero value of its kind (used only to label signatures).
func (v value) isZero() bool {
	switch {
	case v.K.signed():
		return v.I == 0
	case v.K.unsigned():
		return v.U == 0
	case v.K.float():
		return v.F == 0
	case v.K == kString:
		return v.S == ""
	case v.K == kBool:
		return !v.T
	case v.K == kBytes:
		return len(v.B) == 0
	case v.K == kSlice:
		return len(v.L) == 0
	}
	return false
}

func sameSet(a, b []uint32) bool {
	if len(a) != len(b) {
		return false
	}
	m := map[uint32]int{}
	for _, x := range a {
		m[x]++
	}
	for _, x := range b {
		if m[x] == 0 {
			return false
		}
		m[x]--
	}
	return true
}

// emptyish: a value that carries no value field on the wire (void, or a uint32 set with no
// members: a repeated field cannot distinguish the two).
func (v value) emptyish() bool { return v.K == kVoid || (v.K == kSlice && len(v.L) == 0) }

func valueEqual(a, b value) bool {
	if a.emptyish() && b.emptyish() {
		return true
	}
	if a.K != b.K {
		return false
	}
	switch {
	case a.K.signed():
		return a.I == b.I
	case a.K.unsigned():
		return a.U == b.U
	case a.K.float():
		return a.F == b.F
	case a.K == kString:
		return a.S == b.S
	case a.K == kBool:
		return a.T == b.T
	case a.K == kBytes:
		return string(a.B) == string(b.B)
	case a.K == kSlice:
		return sameSet(a.L, b.L) // membership only; order after deletes is not documented
	}
	return true
}

// ---------------------------------------------------------------------------
// requests

type metaReq struct {
	CreatedAt int64  `json:"cAt,omitempty"` // unix nanos, 0 = not sent
	CreatedBy string `json:"cBy,omitempty"` // "" = not sent
	UpdatedAt int64  `json:"uAt,omitempty"`
	UpdatedBy string `json:"uBy,omitempty"`
	ExpiredAt int64  `json:"eAt,omitempty"`
}

func (m metaReq) any() bool {
	return m.CreatedAt != 0 || m.CreatedBy != "" || m.UpdatedAt != 0 || m.UpdatedBy != "" || m.ExpiredAt != 0
}

type kvReq struct {
	Key  string  `json:"key"`
	Val  value   `json:"val"`
	Meta metaReq `json:"meta,omitempty"`
}

type incMeta struct {
	CreatedAt bool   `json:"cAt,omitempty"` // "set to now"
	CreatedBy string `json:"cBy,omitempty"`
	UpdatedAt bool   `json:"uAt,omitempty"`
	UpdatedBy string `json:"uBy,omitempty"`
	ExpiredAt int64  `json:"eAt,omitempty"`
}

type cond struct {
	Op string  `json:"op"` // EQ NE GT GE LT LE
	I  int64   `json:"i,omitempty"`
	U  uint64  `json:"u,omitempty"`
	F  float64 `json:"f,omitempty"`
}

type pair struct {
	Key    string   `json:"key"`
	Values []uint32 `json:"values"`
}

// part is the per-swamp section of the RPCs that accept several swamps (Set, Get, Delete, Count).
type part struct {
	Sw        int      `json:"sw"`
	Keys      []string `json:"keys,omitempty"`
	KVs       []kvReq  `json:"kvs,omitempty"`
	Create    bool     `json:"create,omitempty"`
	Overwrite bool     `json:"overwrite,omitempty"`
}

type op struct {
	RPC   string `json:"rpc"`
	Parts []part `json:"parts,omitempty"`

	Sw   int      `json:"sw,omitempty"`
	Keys []string `json:"keys,omitempty"`
	Key  string   `json:"key,omitempty"`

	Exclude  []string `json:"exclude,omitempty"`
	Include  []string `json:"include,omitempty"`
	KeysOnly bool     `json:"keysOnly,omitempty"`

	Kind    kind     `json:"kind,omitempty"` // Increment*: the RPC's numeric type
	DI      int64    `json:"di,omitempty"`
	DU      uint64   `json:"du,omitempty"`
	DF      float64  `json:"df,omitempty"`
	Cond    *cond    `json:"cond,omitempty"`
	IfNot   *incMeta `json:"ifNot,omitempty"`
	IfExist *incMeta `json:"ifExist,omitempty"`

	Pairs []pair `json:"pairs,omitempty"`
	Val   uint32 `json:"val,omitempty"`

	SleepMs    int64  `json:"sleepMs,omitempty"`
	SleepClass string `json:"sleepClass,omitempty"` // tiny | flush | evict
}

type swampCfg struct {
	Name     string `json:"name"`
	InMem    bool   `json:"inMem"`
	WriteSec int64  `json:"writeSec"`
}

type caseT struct {
	Idx     int         `json:"idx"`
	Swamps  [2]swampCfg `json:"swamps"`
	IdleSec int64       `json:"idleSec"`
	Pref    [4]kind     `json:"pref"`
	Ops     []op        `json:"ops"`
}

var keyNames = [4]string{"k0", "k1", "k2", "k3"}

// ---------------------------------------------------------------------------
// observations (what came back), engine-neutral

type obsErr struct {
	Code string // gRPC code name, "" when the error is not a status error
	Msg  string
}

type obsTreasure struct {
	Key   string
	Exist bool
	Vals  []value // every value field that was set on the wire (normally 0 or 1)
	CAt   int64
	CBy   string
	UAt   int64
	UBy   string
	EAt   int64
}

func (t obsTreasure) String() string {
	var vs []string
	for _, v := range t.Vals {
		vs = append(vs, v.String())
	}
	return fmt.Sprintf("{%s exist=%v vals=[%s] cAt=%d cBy=%q uAt=%d uBy=%q eAt=%d}", t.Key, t.Exist, strings.Join(vs, ","), t.CAt, t.CBy, t.UAt, t.UBy, t.EAt)
}

type obsKS struct{ Key, Status string }

type obsSwampStatuses struct {
	Name     string
	ErrCode  string // "" | CanNotBeExecuted | SwampDoesNotExist
	Statuses []obsKS
}

type obsGetSwamp struct {
	Name      string
	IsExist   bool
	Treasures []obsTreasure
}

type obsCount struct {
	Name    string
	IsExist bool
	Count   int32
}

type obsInc struct {
	Val         value
	Incremented bool
	CAt         int64
	CBy         string
	UAt         int64
	UBy         string
	EAt         int64
}

// obs is the neutral record of one answered request.
type obs struct {
	Err     *obsErr
	NilResp bool // handler returned (nil, nil)
	T0, T1  int64 // virtual clock (unix nanos) before the call and after the answer

	Statuses  []obsSwampStatuses // Set, Delete
	Gets      []obsGetSwamp      // Get
	Treasures []obsTreasure      // GetAll, GetByKeys, ShiftByKeys
	Counts    []obsCount         // Count
	Bool      bool               // IsSwampExist, IsKeyExist, Uint32SliceIsValueExist
	Map       map[string]bool    // AreKeysExist
	Size      int64              // Uint32SliceSize
	Inc       *obsInc            // Increment*
}

func (o *obs) String() string {
	if o == nil {
		return "<nil>"
	}
	var sb strings.Builder
	if o.Err != nil {
		fmt.Fprintf(&sb, "err=%s(%s) ", o.Err.Code, o.Err.Msg)
	}
	if o.NilResp {
		sb.WriteString("nil-response ")
	}
	for _, s := range o.Statuses {
		fmt.Fprintf(&sb, "[%s err=%q %v] ", s.Name, s.ErrCode, s.Statuses)
	}
	for _, g := range o.Gets {
		fmt.Fprintf(&sb, "[%s exist=%v %v] ", g.Name, g.IsExist, g.Treasures)
	}
	if o.Treasures != nil {
		fmt.Fprintf(&sb, "treasures=%v ", o.Treasures)
	}
	for _, c := range o.Counts {
		fmt.Fprintf(&sb, "[%s exist=%v count=%d] ", c.Name, c.IsExist, c.Count)
	}
	if o.Map != nil {
		ks := make([]string, 0, len(o.Map))
		for k := range o.Map {
			ks = append(ks, k)
		}
		sort.Strings(ks)
		for _, k := range ks {
			fmt.Fprintf(&sb, "%s=%v ", k, o.Map[k])
		}
	}
	if o.Inc != nil {
		fmt.Fprintf(&sb, "inc=%+v ", *o.Inc)
	}
	fmt.Fprintf(&sb, "bool=%v size=%d", o.Bool, o.Size)
	return sb.String()
}
