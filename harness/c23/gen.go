package c23

import (
	"fmt"
	"math"
	"math/rand/v2"
	"os"
	"strings"
	"time"

	"github.com/hydraide/hydraide/app/core/filesystem"
	"github.com/hydraide/hydraide/app/core/hydra/swamp"
	"github.com/hydraide/hydraide/app/core/hydra/swamp/chronicler"
	"github.com/hydraide/hydraide/app/core/hydra/swamp/metadata"
	"github.com/hydraide/hydraide/app/core/hydra/swamp/treasure"
	"github.com/hydraide/hydraide/app/name"

	"verifharness/rig"
)

// Op is one step of a legacy (V1) swamp history.
type Op struct {
	Op     string `json:"op"` // set | del | flush | close
	Key    string `json:"k,omitempty"`
	Kind   string `json:"kind,omitempty"` // value kind of a set
	Seed   uint64 `json:"seed,omitempty"` // determines the value
	Size   int    `json:"size,omitempty"` // length for string / bytes / slice values
	Meta   int    `json:"meta,omitempty"` // bit set: 1 createdAt 2 createdBy 4 modifiedAt 8 modifiedBy 16 expiration
	Shadow bool   `json:"shadow,omitempty"`
}

// SwampSpec is one legacy swamp: its name, the V1 chunk size and its history.
type SwampSpec struct {
	Name    string `json:"name"`
	MaxFile int64  `json:"max_file"`
	Ops     []Op   `json:"ops"`
}

var kinds = []string{"string", "string", "string", "bytes", "uint8", "uint16", "uint32", "uint64", "int8", "int16", "int32", "int64", "float32", "float64", "bool", "void", "u32slice"}

var namePartAlphabet = []string{"a", "b", "users", "Profiles", "x-1", "with space", "ünï", "日本", "🙂", ".", "..", "_", "A.B", "p:q", "tab\tx", "q?", "100%", "#1", "*x", "é"}

func genPart(r *rand.Rand) string {
	n := 1 + r.IntN(3)
	var sb strings.Builder
	for i := 0; i < n; i++ {
		sb.WriteString(namePartAlphabet[r.IntN(len(namePartAlphabet))])
	}
	return sb.String()
}

// genName returns a three-part swamp name; uniq keeps names of one data root distinct.
func genName(r *rand.Rand, uniq int) string {
	return genPart(r) + "/" + genPart(r) + "/" + genPart(r) + fmt.Sprint(uniq)
}

func genKey(r *rand.Rand, i int) string {
	switch r.IntN(12) {
	case 0:
		return fmt.Sprintf("kulcs-ő-%d", i)
	case 1:
		return fmt.Sprintf("k/%d/with/slashes", i)
	case 2:
		return fmt.Sprintf("%d-%s", i, strings.Repeat("L", 200+r.IntN(300)))
	case 3:
		return fmt.Sprintf(" %d ", i)
	default:
		return fmt.Sprintf("key-%d", i)
	}
}

// genSwamp generates one legacy swamp history. big asks for values large enough that the
// migrated file has several blocks.
func genSwamp(r *rand.Rand, uniq int, big bool) SwampSpec {
	sp := SwampSpec{Name: genName(r, uniq)}
	// V1 chunk size: from "a couple of records per chunk" to "everything in one chunk"
	sp.MaxFile = []int64{40, 100, 300, 1000, 8192, 1 << 20}[r.IntN(6)]
	if big {
		sp.MaxFile = []int64{300, 4096, 65536, 1 << 20}[r.IntN(4)]
	}
	if r.IntN(25) == 0 {
		// a swamp that was summoned and closed without ever holding a record: meta file only
		sp.Ops = []Op{{Op: "close"}}
		return sp
	}
	nKeys := 1 + r.IntN(14)
	if r.IntN(4) == 0 {
		nKeys = 15 + r.IntN(40)
	}
	keys := make([]string, nKeys)
	for i := range keys {
		keys[i] = genKey(r, i)
	}
	live := map[string]bool{}
	nOps := nKeys + r.IntN(3*nKeys+4)
	for len(sp.Ops) < nOps {
		x := r.IntN(100)
		switch {
		case x < 62:
			k := keys[r.IntN(nKeys)]
			if r.IntN(3) > 0 {
				// prefer not-yet-written keys so that the swamp fills up
				for _, c := range keys {
					if !live[c] {
						k = c
						break
					}
				}
			}
			o := Op{Op: "set", Key: k, Kind: kinds[r.IntN(len(kinds))], Seed: r.Uint64()}
			switch r.IntN(6) {
			case 0:
				o.Size = 0 // zero-like value
				o.Seed = 0
			case 1:
				o.Size = 200 + r.IntN(1500)
			default:
				o.Size = 1 + r.IntN(40)
			}
			if big && (o.Kind == "string" || o.Kind == "bytes") {
				o.Size = 2000 + r.IntN(7000)
			}
			if r.IntN(2) == 0 {
				o.Meta = r.IntN(32)
			}
			sp.Ops = append(sp.Ops, o)
			live[k] = true
		case x < 78:
			// delete an existing key (never the last one most of the time: an empty V1 swamp destroys itself)
			var cands []string
			for _, k := range keys {
				if live[k] {
					cands = append(cands, k)
				}
			}
			if len(cands) == 0 || (len(cands) == 1 && r.IntN(10) > 0) {
				continue
			}
			k := cands[r.IntN(len(cands))]
			sp.Ops = append(sp.Ops, Op{Op: "del", Key: k, Shadow: r.IntN(8) == 0})
			delete(live, k)
		case x < 92:
			sp.Ops = append(sp.Ops, Op{Op: "flush"})
		default:
			sp.Ops = append(sp.Ops, Op{Op: "close"})
		}
	}
	sp.Ops = append(sp.Ops, Op{Op: "close"})
	return sp
}

func detBytes(seed uint64, n int) []byte {
	b := make([]byte, n)
	x := seed*6364136223846793005 + 1442695040888963407
	for i := range b {
		x ^= x << 13
		x ^= x >> 7
		x ^= x << 17
		b[i] = byte(x)
	}
	return b
}

func detText(seed uint64, n int) string {
	b := detBytes(seed, n)
	for i := range b {
		b[i] = "abcdefghijklmnopqrstuvwxyzABCDEFGHIJKLMNOPQRSTUVWXYZ0123456789 é"[b[i]&63]
	}
	return string(b)
}

// v1Session is an open legacy swamp built exactly like hydra.createNewSwamp builds it
// for the V1 engine: file-backed metadata, the V1 chronicler, a real swamp on top.
type v1Session struct {
	sw     swamp.Swamp
	closed bool
}

// SwampFolder is the legacy folder of a swamp under a data root (server layout: depth 1, 1000 per level).
func SwampFolder(dataRoot, swampName string) string {
	return name.Load(swampName).GetFullHashPath(dataRoot, rig.Island(swampName), 1, 1000)
}

func openV1(dataRoot string, sp *SwampSpec) *v1Session {
	n := name.Load(sp.Name)
	path := SwampFolder(dataRoot, sp.Name)
	meta := metadata.New(path)
	meta.LoadFromFile()
	meta.SetSwampName(n)
	chron := chronicler.New(path, sp.MaxFile, 1, filesystem.New(), meta)
	chron.CreateDirectoryIfNotExists()
	s := &v1Session{}
	s.sw = swamp.New(n, time.Hour, &swamp.FilesystemSettings{ChroniclerInterface: chron, WriteInterval: time.Hour},
		func(*swamp.Event) {}, func(*swamp.Info) {}, func(name.Name) { s.closed = true }, meta)
	return s
}

// BuildV1 executes the history with the real legacy engine pieces and leaves the
// folder on disk. It reports which V1 code paths the history exercised.
func BuildV1(dataRoot string, sp *SwampSpec) (rewrites, deletes int) {
	// the V1 chronicler prints debug lines on stdout for every rewritten chunk
	saved := os.Stdout
	if devnull, err := os.OpenFile(os.DevNull, os.O_WRONLY, 0); err == nil {
		os.Stdout = devnull
		defer func() { os.Stdout = saved; devnull.Close() }()
	}
	var s *v1Session
	flushed := map[string]bool{}
	pending := map[string]bool{}
	ensure := func() {
		if s == nil || s.closed {
			s = openV1(dataRoot, sp)
		}
	}
	base := time.Date(2021, 3, 4, 5, 6, 7, 0, time.UTC)
	for _, o := range sp.Ops {
		switch o.Op {
		case "set":
			ensure()
			s.sw.BeginVigil()
			t := s.sw.CreateTreasure(o.Key)
			g := t.StartTreasureGuard(true)
			setValue(t, g, &o)
			if o.Meta&1 != 0 {
				t.SetCreatedAt(g, base.Add(time.Duration(o.Seed%100000)*time.Second))
			}
			if o.Meta&2 != 0 {
				t.SetCreatedBy(g, "creator-"+fmt.Sprint(o.Seed%97))
			}
			if o.Meta&4 != 0 {
				t.SetModifiedAt(g, base.Add(time.Duration(o.Seed%77777)*time.Minute))
			}
			if o.Meta&8 != 0 {
				t.SetModifiedBy(g, "modifier-ő-"+fmt.Sprint(o.Seed%89))
			}
			if o.Meta&16 != 0 {
				t.SetExpirationTime(g, base.Add(time.Duration(int64(o.Seed%200000)-100000)*time.Hour))
			}
			t.Save(g)
			t.ReleaseTreasureGuard(g)
			s.sw.CeaseVigil()
			if flushed[o.Key] {
				rewrites++
			}
			pending[o.Key] = true
		case "del":
			ensure()
			s.sw.BeginVigil()
			if err := s.sw.DeleteTreasure(o.Key, o.Shadow); err == nil {
				deletes++
				if flushed[o.Key] {
					rewrites++
				}
			}
			s.sw.CeaseVigil()
			delete(pending, o.Key)
			delete(flushed, o.Key)
		case "flush":
			if s != nil && !s.closed {
				s.sw.WriteTreasuresToFilesystem()
				for k := range pending {
					flushed[k] = true
				}
				pending = map[string]bool{}
			}
		case "close":
			ensure()
			if !s.closed {
				s.sw.Close()
			}
			for k := range pending {
				flushed[k] = true
			}
			pending = map[string]bool{}
			s = nil
		}
	}
	if s != nil && !s.closed {
		s.sw.Close()
	}
	return
}

func setValue(t treasure.Treasure, g guardID, o *Op) {
	zero := o.Size == 0
	switch o.Kind {
	case "string":
		t.SetContentString(g, detText(o.Seed, o.Size))
	case "bytes":
		t.SetContentByteArray(g, detBytes(o.Seed, o.Size))
	case "uint8":
		t.SetContentUint8(g, pick(zero, uint8(o.Seed)))
	case "uint16":
		t.SetContentUint16(g, pick(zero, uint16(o.Seed)))
	case "uint32":
		t.SetContentUint32(g, pick(zero, uint32(o.Seed)))
	case "uint64":
		t.SetContentUint64(g, pick(zero, o.Seed))
	case "int8":
		t.SetContentInt8(g, pick(zero, int8(o.Seed)))
	case "int16":
		t.SetContentInt16(g, pick(zero, int16(o.Seed)))
	case "int32":
		t.SetContentInt32(g, pick(zero, int32(o.Seed)))
	case "int64":
		t.SetContentInt64(g, pick(zero, int64(o.Seed)))
	case "float32":
		t.SetContentFloat32(g, pick(zero, math.Float32frombits(uint32(o.Seed))))
	case "float64":
		t.SetContentFloat64(g, pick(zero, math.Float64frombits(o.Seed)))
	case "bool":
		t.SetContentBool(g, !zero && o.Seed&1 == 1)
	case "u32slice":
		if t.GetContentType() != treasure.ContentTypeUint32Slice && t.GetContentType() != treasure.ContentTypeVoid {
			t.SetContentVoid(g)
		}
		vals := make([]uint32, 0, o.Size%20)
		for i := 0; i < o.Size%20; i++ {
			vals = append(vals, uint32(o.Seed>>uint(i%32))+uint32(i))
		}
		_ = t.Uint32SlicePush(vals)
	default:
		t.SetContentVoid(g)
	}
}

func pick[T any](zero bool, v T) T {
	if zero {
		var z T
		return z
	}
	return v
}
