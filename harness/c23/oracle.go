package c23

import (
	"bytes"
	"crypto/sha256"
	"encoding/gob"
	"encoding/hex"
	"fmt"
	"io/fs"
	"math"
	"os"
	"path/filepath"
	"sort"
	"strings"

	"github.com/hydraide/hydraide/app/core/filesystem"
	"github.com/hydraide/hydraide/app/core/hydra/swamp/beacon"
	"github.com/hydraide/hydraide/app/core/hydra/swamp/chronicler"
	"github.com/hydraide/hydraide/app/core/hydra/swamp/metadata"
	"github.com/hydraide/hydraide/app/core/hydra/swamp/treasure"
	"github.com/hydraide/hydraide/app/core/hydra/swamp/treasure/guard"
)

type guardID = guard.ID

// snap renders everything a client can observe of a record (value and metadata) through
// the exported getters. The storage file name is deliberately not part of it.
func snap(t treasure.Treasure) string {
	var sb strings.Builder
	fmt.Fprintf(&sb, "key=%q type=%d", t.GetKey(), t.GetContentType())
	switch t.GetContentType() {
	case treasure.ContentTypeString:
		v, _ := t.GetContentString()
		fmt.Fprintf(&sb, " v=%q", v)
	case treasure.ContentTypeByteArray:
		v, _ := t.GetContentByteArray()
		fmt.Fprintf(&sb, " v=%x", v)
	case treasure.ContentTypeUint8:
		v, _ := t.GetContentUint8()
		fmt.Fprintf(&sb, " v=%d", v)
	case treasure.ContentTypeUint16:
		v, _ := t.GetContentUint16()
		fmt.Fprintf(&sb, " v=%d", v)
	case treasure.ContentTypeUint32:
		v, _ := t.GetContentUint32()
		fmt.Fprintf(&sb, " v=%d", v)
	case treasure.ContentTypeUint64:
		v, _ := t.GetContentUint64()
		fmt.Fprintf(&sb, " v=%d", v)
	case treasure.ContentTypeInt8:
		v, _ := t.GetContentInt8()
		fmt.Fprintf(&sb, " v=%d", v)
	case treasure.ContentTypeInt16:
		v, _ := t.GetContentInt16()
		fmt.Fprintf(&sb, " v=%d", v)
	case treasure.ContentTypeInt32:
		v, _ := t.GetContentInt32()
		fmt.Fprintf(&sb, " v=%d", v)
	case treasure.ContentTypeInt64:
		v, _ := t.GetContentInt64()
		fmt.Fprintf(&sb, " v=%d", v)
	case treasure.ContentTypeFloat32:
		v, _ := t.GetContentFloat32()
		fmt.Fprintf(&sb, " v=bits:%08x", math.Float32bits(v))
	case treasure.ContentTypeFloat64:
		v, _ := t.GetContentFloat64()
		fmt.Fprintf(&sb, " v=bits:%016x", math.Float64bits(v))
	case treasure.ContentTypeBoolean:
		v, _ := t.GetContentBool()
		fmt.Fprintf(&sb, " v=%v", v)
	case treasure.ContentTypeUint32Slice:
		v, _ := t.Uint32SliceGetAll()
		fmt.Fprintf(&sb, " v=%v", v)
	}
	fmt.Fprintf(&sb, " createdAt=%d createdBy=%q modifiedAt=%d modifiedBy=%q deletedAt=%d deletedBy=%q exp=%d",
		t.GetCreatedAt(), t.GetCreatedBy(), t.GetModifiedAt(), t.GetModifiedBy(), t.GetDeletedAt(), t.GetDeletedBy(), t.GetExpirationTime())
	return sb.String()
}

func short(s string) string {
	if len(s) > 300 {
		return s[:300] + "…"
	}
	return s
}

// Ref is what the legacy engine loads from a legacy folder.
type Ref struct {
	Name  string              // swamp name in the meta file ("" when there is no meta file)
	Cands map[string][]string // key -> every version some chunk file holds (V1 Load keeps one of them)
	Load  map[string]string   // what one run of the real V1 chronicler.Load returned
	Multi int                 // keys with more than one distinct version
	Files int                 // chunk files
}

// LoadV1 reads a legacy folder with the legacy engine's own readers: the real
// chronicler.Load for the state, and filesystem.GetAllFileContents + treasure.LoadFromByte
// (the two calls Load is made of) for the per-key version sets.
func LoadV1(folder string, maxFile int64) (*Ref, error) {
	ref := &Ref{Cands: map[string][]string{}, Load: map[string]string{}}
	if _, err := os.Stat(folder); err != nil {
		return ref, nil // no folder: nothing to load
	}
	if f, err := os.Open(filepath.Join(folder, metadata.MetaFile)); err == nil {
		var m metadata.Meta
		if derr := gob.NewDecoder(f).Decode(&m); derr == nil {
			ref.Name = m.SwampName
		}
		f.Close()
	}
	fsi := filesystem.New()
	contents, err := fsi.GetAllFileContents(folder, metadata.MetaFile)
	if err != nil {
		return nil, err
	}
	ref.Files = len(contents)
	for file, segs := range contents {
		for _, seg := range segs {
			t := treasure.New(nil)
			g := t.StartTreasureGuard(true, guard.BodyAuthID)
			lerr := t.LoadFromByte(g, seg, file)
			t.ReleaseTreasureGuard(g)
			if lerr != nil {
				return nil, fmt.Errorf("legacy segment in %s does not decode: %v", file, lerr)
			}
			s := snap(t)
			dup := false
			for _, c := range ref.Cands[t.GetKey()] {
				if c == s {
					dup = true
				}
			}
			if !dup {
				ref.Cands[t.GetKey()] = append(ref.Cands[t.GetKey()], s)
			}
		}
	}
	for _, c := range ref.Cands {
		if len(c) > 1 {
			ref.Multi++
		}
	}
	meta := metadata.New(folder)
	ch := chronicler.New(folder, maxFile, 1, fsi, meta)
	bk := beacon.New()
	ch.Load(bk)
	for k, t := range bk.GetAll() {
		ref.Load[k] = snap(t)
	}
	// self-check of the reference: the real Load result must be one of the version sets
	if len(ref.Load) != len(ref.Cands) {
		return nil, fmt.Errorf("reference self-check: V1 Load returned %d keys, chunk files hold %d", len(ref.Load), len(ref.Cands))
	}
	for k, s := range ref.Load {
		ok := false
		for _, c := range ref.Cands[k] {
			if c == s {
				ok = true
			}
		}
		if !ok {
			return nil, fmt.Errorf("reference self-check: V1 Load value of %q is in no chunk file", k)
		}
	}
	return ref, nil
}

// LoadV2 loads folder+".hyd" the way a V2 server does for that swamp.
func LoadV2(folder, swampName string) (state map[string]string, err error) {
	defer func() {
		if r := recover(); r != nil {
			err = fmt.Errorf("panic in V2 load: %v", r)
		}
	}()
	ch := chronicler.NewV2WithName(folder, 1, swampName)
	bk := beacon.New()
	ch.Load(bk)
	state = map[string]string{}
	for k, t := range bk.GetAll() {
		state[k] = snap(t)
	}
	return state, nil
}

// diffState compares a V2 state with the legacy reference; "" when equal.
func diffState(ref *Ref, got map[string]string) (clause, detail string) {
	var missing, extra, differ []string
	for k, cands := range ref.Cands {
		g, ok := got[k]
		if !ok {
			missing = append(missing, k)
			continue
		}
		match := false
		for _, c := range cands {
			if c == g {
				match = true
			}
		}
		if !match {
			differ = append(differ, k)
		}
	}
	for k := range got {
		if _, ok := ref.Cands[k]; !ok {
			extra = append(extra, k)
		}
	}
	sort.Strings(missing)
	sort.Strings(extra)
	sort.Strings(differ)
	switch {
	case len(missing) > 0:
		return "keys-missing", fmt.Sprintf("%d of %d legacy keys missing after migration, e.g. %q", len(missing), len(ref.Cands), short(missing[0]))
	case len(extra) > 0:
		return "keys-extra", fmt.Sprintf("%d keys the legacy engine does not load, e.g. %q", len(extra), short(extra[0]))
	case len(differ) > 0:
		k := differ[0]
		return "record-differs", fmt.Sprintf("%d records differ, e.g. legacy %s vs migrated %s", len(differ), short(ref.Cands[k][0]), short(got[k]))
	}
	return "", ""
}

// DirSnap is a byte-exact picture of a directory tree: relative path -> content hash.
type DirSnap map[string]string

func SnapDir(root string) DirSnap {
	out := DirSnap{}
	_ = filepath.WalkDir(root, func(p string, d fs.DirEntry, err error) error {
		if err != nil {
			return nil
		}
		rel, _ := filepath.Rel(root, p)
		if d.IsDir() {
			out[rel+"/"] = "dir"
			return nil
		}
		b, rerr := os.ReadFile(p)
		if rerr != nil {
			out[rel] = "unreadable:" + rerr.Error()
			return nil
		}
		h := sha256.Sum256(b)
		out[rel] = fmt.Sprintf("%d:%s", len(b), hex.EncodeToString(h[:8]))
		return nil
	})
	return out
}

// Sub returns the part of the snapshot below rel (a folder), keyed relative to it.
func (d DirSnap) Sub(rel string) DirSnap {
	out := DirSnap{}
	for k, v := range d {
		if k == rel+"/" {
			out["./"] = v
		} else if strings.HasPrefix(k, rel+"/") {
			out[k[len(rel)+1:]] = v
		}
	}
	return out
}

func (d DirSnap) Diff(o DirSnap) string {
	var diffs []string
	for k, v := range d {
		if w, ok := o[k]; !ok {
			diffs = append(diffs, "removed "+k)
		} else if w != v {
			diffs = append(diffs, "changed "+k)
		}
	}
	for k := range o {
		if _, ok := d[k]; !ok {
			diffs = append(diffs, "added "+k)
		}
	}
	sort.Strings(diffs)
	if len(diffs) > 6 {
		diffs = append(diffs[:6], fmt.Sprintf("… %d more", len(diffs)-6))
	}
	return strings.Join(diffs, ", ")
}

// CopyTree copies a directory tree (regular files and directories).
func CopyTree(src, dst string) error {
	return filepath.WalkDir(src, func(p string, d fs.DirEntry, err error) error {
		if err != nil {
			return err
		}
		rel, _ := filepath.Rel(src, p)
		target := filepath.Join(dst, rel)
		if d.IsDir() {
			return os.MkdirAll(target, 0o755)
		}
		b, err := os.ReadFile(p)
		if err != nil {
			return err
		}
		return os.WriteFile(target, b, 0o644)
	})
}

func readFileOrNil(p string) []byte {
	b, err := os.ReadFile(p)
	if err != nil {
		return nil
	}
	return bytes.Clone(b)
}
