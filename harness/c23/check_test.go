// C23 — V1 → V2 migration preserves exactly the loadable data.
//
// Monitor: legacy swamp folders are produced by the real legacy engine (real swamp on the
// real V1 chronicler with file-backed metadata, built the way hydra.createNewSwamp builds
// them) from generated set / modify / delete / flush / close histories with chunk sizes from
// "two records per chunk" to "one chunk". The data root is copied aside, migrator.Run is
// executed over it (Verify on/off, DeleteOld on/off, DryRun, 1..4 workers), and the two real
// loaders are compared: the V1 loader on the copy against chroniclerV2.Load of the produced
// .hyd (values and every metadata field through the exported getters), plus
// v2.ReadSwampName against the name in the legacy meta file.
// Faulted runs execute the same migration with RLIMIT_FSIZE (real short writes), under
// strace syscall fault injection (ENOSPC on the n-th write to the .hyd, EIO on the n-th read
// of a chunk file) or with the target directory on a read-only mount; for every swamp that
// Run reports as failed the legacy folder must be byte-identical to its copy and no .hyd may
// be left from which the V2 loader gets part of the data (an unloadable / empty stub is only
// counted). Afterwards the fault is cleared, the migration is run again and must yield the
// legacy state.
package c23

import (
	"encoding/binary"
	"encoding/json"
	"fmt"
	"os"
	"os/exec"
	"os/signal"
	"path/filepath"
	"sort"
	"strings"
	"syscall"
	"testing"
	"time"

	v2 "github.com/hydraide/hydraide/app/core/hydra/swamp/chronicler/v2"
	"github.com/hydraide/hydraide/app/core/hydra/swamp/chronicler/v2/migrator"

	"verifharness/rig"
)

type Cfg struct {
	Verify    bool `json:"verify"`
	DeleteOld bool `json:"delete_old"`
	DryRun    bool `json:"dry_run"`
	Parallel  int  `json:"parallel"`
}

// Fault describes the failure injected into one migration run.
type Fault struct {
	Kind   string `json:"kind"`   // rlimit | enospc | eio-read | eio-read-hyd | rodir | chunk-truncated | chunk-garbage | chunk-dangling
	Pos    string `json:"pos"`    // rlimit: structural position of the size limit inside the target .hyd
	N      int    `json:"n"`      // enospc / eio-read: which write / read fails (1-based); rlimit+Pos=rand: per-mille of the file size
	Target int    `json:"target"` // index (mod number of swamps) of the swamp the fault is aimed at
	Chunk  int    `json:"chunk"`  // eio-read / chunk-*: which chunk file in directory order (mod count; negative counts from the end)
}

// RootCase is one data root with its swamps, one migrator configuration and optionally a fault.
type RootCase struct {
	Idx    int         `json:"idx"`
	Swamps []SwampSpec `json:"swamps"`
	Cfg    Cfg         `json:"cfg"`
	Fault  *Fault      `json:"fault,omitempty"`
	// Rerun: after a first fault-free run that keeps the legacy files, every live key of the
	// legacy swamps gets a new value through the V1 engine (same key set) and the migrator runs
	// again with this configuration over the .hyd files the first run left.
	Rerun *Cfg `json:"rerun,omitempty"`
}

var rlimitPositions = []string{"zero", "in-header", "header-end", "in-name", "name-end", "in-block-header", "block-header-end", "in-block", "last-byte", "rand", "rand", "rand"}

func genRoot(c *rig.Check, idx int, faulted bool) RootCase {
	r := c.Rand(idx)
	rc := RootCase{Idx: idx}
	n := 1 + r.IntN(4)
	if faulted {
		n = 1 + r.IntN(2)
	}
	for i := 0; i < n; i++ {
		rc.Swamps = append(rc.Swamps, genSwamp(r, i, faulted && r.IntN(3) > 0))
	}
	rc.Cfg = Cfg{Verify: r.IntN(2) == 0, DeleteOld: r.IntN(2) == 0, DryRun: !faulted && r.IntN(6) == 0, Parallel: 1 + r.IntN(4)}
	if !faulted && !rc.Cfg.DryRun && !rc.Cfg.DeleteOld && r.IntN(4) > 0 {
		rc.Rerun = &Cfg{Verify: r.IntN(2) == 0, DeleteOld: r.IntN(3) > 0, Parallel: 1 + r.IntN(4)}
	}
	if faulted {
		f := &Fault{Target: r.IntN(4), Chunk: r.IntN(64) - 8}
		switch x := r.IntN(20); {
		case x < 8:
			f.Kind = "rlimit"
			f.Pos = rlimitPositions[r.IntN(len(rlimitPositions))]
			f.N = r.IntN(1000)
		case x < 10:
			f.Kind = "enospc"
			f.N = 1 + r.IntN(8)
		case x < 13:
			// a transient read error on one chunk file of the legacy folder
			f.Kind = "eio-read"
			f.N = 1
		case x < 17:
			// a chunk file that is damaged before the migration starts
			f.Kind = []string{"chunk-truncated", "chunk-garbage", "chunk-dangling"}[r.IntN(3)]
		case x < 18:
			// a read error on the freshly written .hyd: only the verify step reads it
			f.Kind = "eio-read-hyd"
			f.N = 1 + r.IntN(3)
			rc.Cfg.Verify = true
		default:
			f.Kind = "rodir"
		}
		if f.Kind == "eio-read" || strings.HasPrefix(f.Kind, "chunk-") {
			// these need a legacy folder with several chunk files: many records, small chunks
			for i := range rc.Swamps {
				for len(rc.Swamps[i].Ops) < 12 {
					rc.Swamps[i] = genSwamp(r, i, false)
				}
				rc.Swamps[i].MaxFile = []int64{40, 100, 300}[r.IntN(3)]
			}
		}
		rc.Fault = f
	}
	return rc
}

// RunResult is what one migrator.Run reported.
type RunResult struct {
	Failed     map[string]string `json:"failed"` // folder -> phase
	FailedErr  map[string]string `json:"failed_err"`
	Err        string            `json:"err,omitempty"`
	Panic      string            `json:"panic,omitempty"`
	SetupErr   string            `json:"setup_err,omitempty"`
	Total      int64             `json:"total"`
	Successful int64             `json:"successful"`
}

func runMigrator(dataPath string, cfg Cfg, limit int64) (res *RunResult) {
	res = &RunResult{Failed: map[string]string{}, FailedErr: map[string]string{}}
	defer func() {
		if r := recover(); r != nil {
			res.Panic = fmt.Sprint(r)
		}
	}()
	m, err := migrator.New(migrator.Config{DataPath: dataPath, DryRun: cfg.DryRun, Verify: cfg.Verify, DeleteOld: cfg.DeleteOld, Parallel: cfg.Parallel, ProgressReport: time.Hour})
	if err != nil {
		res.Err = err.Error()
		return res
	}
	if limit >= 0 {
		var old syscall.Rlimit
		_ = syscall.Getrlimit(syscall.RLIMIT_FSIZE, &old)
		signal.Ignore(syscall.SIGXFSZ)
		if err := syscall.Setrlimit(syscall.RLIMIT_FSIZE, &syscall.Rlimit{Cur: uint64(limit), Max: old.Max}); err != nil {
			res.SetupErr = "setrlimit: " + err.Error()
			return res
		}
		defer func() { _ = syscall.Setrlimit(syscall.RLIMIT_FSIZE, &old) }()
	}
	r, err := m.Run()
	if err != nil {
		res.Err = err.Error()
	}
	if r != nil {
		res.Total, res.Successful = r.TotalSwamps, r.SuccessfulSwamps
		for _, f := range r.FailedSwamps {
			res.Failed[f.Path] = f.Phase
			res.FailedErr[f.Path] = f.Error
		}
	}
	return res
}

// ExecSpec is the job of the helper process (TestMigrateExec).
type ExecSpec struct {
	DataPath string `json:"data_path"`
	Cfg      Cfg    `json:"cfg"`
	RODir    string `json:"ro_dir,omitempty"` // remount this directory read-only (private mount namespace) first
	Out      string `json:"out"`
}

// TestMigrateExec is the helper the monitor re-executes itself as (under strace, or in a
// private mount namespace): it runs one migration and writes what Run reported.
func TestMigrateExec(t *testing.T) {
	p := os.Getenv("VERIF_C23_EXEC")
	if p == "" {
		t.Skip("helper process only")
	}
	var sp ExecSpec
	rig.ReadJSON(p, &sp)
	rig.InstallSentinel()
	var res *RunResult
	if sp.RODir != "" {
		if err := syscall.Mount(sp.RODir, sp.RODir, "", syscall.MS_BIND, ""); err != nil {
			res = &RunResult{SetupErr: "bind mount: " + err.Error()}
		} else if err := syscall.Mount("", sp.RODir, "", syscall.MS_BIND|syscall.MS_REMOUNT|syscall.MS_RDONLY, ""); err != nil {
			res = &RunResult{SetupErr: "read-only remount: " + err.Error()}
		} else if f, err := os.Create(filepath.Join(sp.RODir, ".probe")); err == nil {
			f.Close()
			os.Remove(filepath.Join(sp.RODir, ".probe"))
			res = &RunResult{SetupErr: "directory still writable after read-only remount"}
		}
	}
	if res == nil {
		res = runMigrator(sp.DataPath, sp.Cfg, -1)
	}
	b, _ := json.Marshal(res)
	if err := os.WriteFile(sp.Out, b, 0o644); err != nil {
		t.Fatal(err)
	}
}

func execMigrator(work string, sp ExecSpec, strace []string) *RunResult {
	sp.Out = filepath.Join(work, "exec-result.json")
	_ = os.Remove(sp.Out)
	specPath := filepath.Join(work, "exec-spec.json")
	b, _ := json.Marshal(sp)
	_ = os.WriteFile(specPath, b, 0o644)
	args := []string{os.Args[0], "-test.run=^TestMigrateExec$", "-test.timeout=0"}
	var cmd *exec.Cmd
	if strace != nil {
		cmd = exec.Command("strace", append(append([]string{"-f", "-qq", "-o", os.DevNull}, strace...), args...)...)
	} else {
		cmd = exec.Command(args[0], args[1:]...)
	}
	cmd.Env = append(os.Environ(), "VERIF_C23_EXEC="+specPath, "VERIF_CHILD_OUT=", "GORACE=")
	if sp.RODir != "" {
		cmd.SysProcAttr = &syscall.SysProcAttr{Unshareflags: syscall.CLONE_NEWNS}
	}
	out, err := cmd.CombinedOutput()
	res := &RunResult{}
	rb, rerr := os.ReadFile(sp.Out)
	if rerr != nil || json.Unmarshal(rb, res) != nil {
		tail := string(out)
		if len(tail) > 600 {
			tail = tail[len(tail)-600:]
		}
		return &RunResult{SetupErr: fmt.Sprintf("helper produced no result (%v): %s", err, tail)}
	}
	if res.Failed == nil {
		res.Failed = map[string]string{}
	}
	return res
}

// hydLayout returns the structural offsets of a .hyd file.
func hydLayout(path string) (size, nameLen, firstBlockPayload int64) {
	b := readFileOrNil(path)
	size = int64(len(b))
	if size < 64 {
		return
	}
	nameLen = int64(binary.LittleEndian.Uint16(b[44:46]))
	if off := 64 + nameLen; size >= off+16 {
		firstBlockPayload = int64(binary.LittleEndian.Uint32(b[off : off+4]))
	}
	return
}

func rlimitFor(f *Fault, hyd string) int64 {
	size, nl, pay := hydLayout(hyd)
	if size == 0 {
		return 0
	}
	var l int64
	switch f.Pos {
	case "zero":
		l = 0
	case "in-header":
		l = 1 + int64(f.N)%63
	case "header-end":
		l = 64
	case "in-name":
		l = 64 + nl/2
	case "name-end":
		l = 64 + nl
	case "in-block-header":
		l = 64 + nl + 1 + int64(f.N)%15
	case "block-header-end":
		l = 64 + nl + 16
	case "in-block":
		l = 64 + nl + 16 + pay/2
	case "last-byte":
		l = size - 1
	default:
		l = size * int64(f.N) / 1000
	}
	if l >= size {
		l = size - 1
	}
	if l < 0 {
		l = 0
	}
	return l
}

type swampEval struct {
	sig, what string
}

// evaluate applies the oracle to one swamp after one Run.
func evaluate(mode string, faultMode bool, cfg Cfg, data string, sp *SwampSpec, ref, damagedRef *Ref, before DirSnap, res *RunResult) (out []swampEval, failedPhase string, stubLeft bool) {
	folder := SwampFolder(data, sp.Name)
	rel, _ := filepath.Rel(data, folder)
	hyd := folder + ".hyd"
	now := SnapDir(data)
	folderDiff := before.Sub(rel).Diff(now.Sub(rel))
	_, hydErr := os.Stat(hyd)
	hydExists := hydErr == nil
	// input class: a key the V2 entry format (16-bit key length) cannot represent
	cls := ""
	for k := range ref.Cands {
		if len(k) > 65535 {
			cls = ":key>65535"
		}
	}
	add := func(sig, what string) { out = append(out, swampEval{mode + ":" + sig + cls, what}) }

	phase, failed := res.Failed[folder]
	if res.Err != "" || res.Panic != "" {
		failed, phase = true, "run"
	}
	if failed {
		failedPhase = phase
		// a swamp the target format cannot hold may be refused (with the legacy folder intact, checked below)
		if !faultMode && cls == "" {
			add("reported-failure:phase="+phase, fmt.Sprintf("Run reported a failure without any injected fault: %s %s %s", res.FailedErr[folder], res.Err, res.Panic))
		}
	}
	loadV2 := func() (map[string]string, bool) {
		if !hydExists {
			return map[string]string{}, true
		}
		st, err := LoadV2(folder, ref.Name)
		if err != nil {
			add("v2-load-panics", err.Error())
			return nil, false
		}
		return st, true
	}
	switch {
	case cfg.DryRun:
		if folderDiff != "" {
			add("dryrun:legacy-folder-changed", "dry run changed the legacy folder: "+folderDiff)
		}
		if hydExists {
			add("dryrun:hyd-created", "dry run left a .hyd file")
		}
	case failed:
		if folderDiff != "" {
			add("failed-"+phase+":legacy-folder-changed", "Run reported failure but the legacy folder differs from its copy: "+folderDiff)
		}
		if st, ok := loadV2(); ok && hydExists {
			if clause, detail := diffState(ref, st); clause != "" {
				if len(st) == 0 {
					// a stub (cut inside its header/name, or without any block): a V2 server loads it
					// exactly like "no file", and a second migration run starts it afresh
					stubLeft = true
				} else {
					add("failed-"+phase+":partial-hyd-left:"+clause, "Run reported failure and left a .hyd with part of the data that a V2 server would serve: "+detail)
				}
			}
		}
	default:
		if st, ok := loadV2(); ok {
			if clause, detail := diffState(ref, st); clause != "" {
				nh := ""
				if !hydExists {
					nh = ":no-hyd"
				}
				// A chunk file damaged before the run: the legacy engine itself skips such a chunk, so
				// a migration that yields exactly what the legacy engine loads from the damaged folder
				// is tolerated as long as the legacy folder (with the damaged chunk) is still there
				// untouched. Anything else lost data.
				tolerated := false
				if damagedRef != nil && folderDiff == "" {
					if c2, _ := diffState(damagedRef, st); c2 == "" {
						tolerated = true
					}
				}
				if !tolerated {
					lost := ""
					if folderDiff != "" {
						lost = ":legacy-folder-gone-or-changed"
					}
					add("migrated:"+clause+nh+lost, "Run reported success but the V2 loader does not see the legacy state: "+detail)
				}
			}
		}
		if hydExists && ref.Name != "" {
			got, err := v2.ReadSwampName(hyd)
			if err != nil {
				add("migrated:name-unreadable", "ReadSwampName failed on the migrated file: "+err.Error())
			} else if got != ref.Name {
				cls := "differs"
				if got == "" {
					cls = "empty"
				}
				add("migrated:name-"+cls, fmt.Sprintf("ReadSwampName=%q, legacy meta file says %q", short(got), short(ref.Name)))
			}
		}
		if !cfg.DeleteOld && folderDiff != "" {
			add("keep-old:legacy-folder-changed", "DeleteOld is off but the legacy folder differs from its copy: "+folderDiff)
		}
	}
	return out, failedPhase, stubLeft
}

// runRoot executes one root case and records its cases in c.
func runRoot(c *rig.Check, rc *RootCase) {
	root := rig.TempRoot("c23")
	defer rig.RemoveAll(root)
	data := filepath.Join(root, "data")
	_ = os.MkdirAll(data, 0o755)
	type built struct{ rewrites, deletes int }
	bs := make([]built, len(rc.Swamps))
	for i := range rc.Swamps {
		bs[i].rewrites, bs[i].deletes = BuildV1(data, &rc.Swamps[i])
	}
	copyDir := filepath.Join(root, "copy")
	if err := CopyTree(data, copyDir); err != nil {
		c.Inconclusive("cannot copy the legacy data root: " + err.Error())
		return
	}
	before := SnapDir(data)
	refs := make([]*Ref, len(rc.Swamps))
	for i := range rc.Swamps {
		ref, err := LoadV1(SwampFolder(copyDir, rc.Swamps[i].Name), rc.Swamps[i].MaxFile)
		if err != nil {
			c.Case(rig.Dump(rc.Swamps[i]), false)
			c.Inconclusive("legacy reference: " + err.Error())
			return
		}
		refs[i] = ref
	}
	report := func(evs []swampEval, i int) {
		for _, ev := range evs {
			c.Violate(ev.sig, ev.what, map[string]any{"case": rc, "swamp": rc.Swamps[i].Name})
		}
	}
	describe := func(i int) {
		c.Count("legacy_records", int64(len(refs[i].Cands)))
		c.Count("legacy_chunk_files", int64(refs[i].Files))
		c.Count("keys_with_several_versions_in_chunks", int64(refs[i].Multi))
		switch {
		case refs[i].Files <= 1:
			c.Seen("chunk_count_class", "0-1")
		case refs[i].Files <= 4:
			c.Seen("chunk_count_class", "2-4")
		default:
			c.Seen("chunk_count_class", "5+")
		}
	}

	if rc.Fault == nil {
		res := runMigrator(data, rc.Cfg, -1)
		c.Count("migrator_runs", 1)
		c.Seen("configs", fmt.Sprintf("verify=%v delete=%v dry=%v", rc.Cfg.Verify, rc.Cfg.DeleteOld, rc.Cfg.DryRun))
		for i := range rc.Swamps {
			evs, _, _ := evaluate("nofault", false, rc.Cfg, data, &rc.Swamps[i], refs[i], nil, before, res)
			nontrivial := len(refs[i].Cands) > 0 && (refs[i].Files >= 2 || bs[i].rewrites > 0)
			c.Case(rig.Dump(map[string]any{"s": rc.Swamps[i], "c": rc.Cfg}), nontrivial)
			describe(i)
			report(evs, i)
		}
		c.Sample(map[string]any{"cfg": rc.Cfg, "swamps": len(rc.Swamps), "first_name": rc.Swamps[0].Name, "first_ops": len(rc.Swamps[0].Ops), "first_max_file": rc.Swamps[0].MaxFile})
		if rc.Rerun == nil || rc.Cfg.DryRun || rc.Cfg.DeleteOld {
			return
		}
		// ---- second run over the files the first run left, after the legacy data changed
		changed := 0
		for i := range rc.Swamps {
			last := map[string]Op{}
			for _, o := range rc.Swamps[i].Ops {
				if o.Op == "set" {
					last[o.Key] = o
				}
			}
			sp2 := SwampSpec{Name: rc.Swamps[i].Name, MaxFile: rc.Swamps[i].MaxFile}
			keys := make([]string, 0, len(refs[i].Load))
			for k := range refs[i].Load {
				keys = append(keys, k)
			}
			sort.Strings(keys)
			for _, k := range keys {
				o, ok := last[k]
				if !ok {
					continue
				}
				o.Seed = o.Seed*31 + 7
				if o.Size > 0 {
					o.Size++
				}
				sp2.Ops = append(sp2.Ops, o)
				changed++
			}
			sp2.Ops = append(sp2.Ops, Op{Op: "flush"}, Op{Op: "close"})
			BuildV1(data, &sp2)
		}
		copy2 := filepath.Join(root, "copy2")
		if err := CopyTree(data, copy2); err != nil {
			c.Inconclusive("cannot copy the legacy data root before the second run: " + err.Error())
			return
		}
		before2 := SnapDir(data)
		refs2 := make([]*Ref, len(rc.Swamps))
		for i := range rc.Swamps {
			ref, err := LoadV1(SwampFolder(copy2, rc.Swamps[i].Name), rc.Swamps[i].MaxFile)
			if err != nil {
				c.Inconclusive("legacy reference before the second run: " + err.Error())
				return
			}
			refs2[i] = ref
		}
		res2 := runMigrator(data, *rc.Rerun, -1)
		c.Count("migrator_reruns", 1)
		c.Count("rerun_changed_records", int64(changed))
		c.Seen("rerun_configs", fmt.Sprintf("verify=%v delete=%v", rc.Rerun.Verify, rc.Rerun.DeleteOld))
		for i := range rc.Swamps {
			// Only the case "same keys, new values" is judged: what a second run owes for keys that
			// left the legacy store between the runs (the writer appends to the first run's file)
			// is not specified. The legacy engine's own rewrite can drop stale chunk copies of a key.
			sameKeys := len(refs[i].Cands) == len(refs2[i].Cands) && len(refs[i].Load) == len(refs2[i].Load)
			for k := range refs[i].Cands {
				if _, ok := refs2[i].Cands[k]; !ok {
					sameKeys = false
				}
			}
			for k := range refs[i].Load {
				if _, ok := refs2[i].Load[k]; !ok {
					sameKeys = false
				}
			}
			if !sameKeys {
				c.Count("rerun_swamps_skipped_key_set_changed", 1)
				continue
			}
			c.Count("rerun_swamps_judged", 1)
			evs, _, _ := evaluate("rerun", false, *rc.Rerun, data, &rc.Swamps[i], refs2[i], nil, before2, res2)
			c.Case(rig.Dump(map[string]any{"s": rc.Swamps[i], "c": rc.Cfg, "rerun": rc.Rerun}), len(refs2[i].Cands) > 0 && changed > 0)
			for _, ev := range evs {
				c.Violate("rerun:"+ev.sig, "second migration run after the legacy values changed (same keys): "+ev.what, map[string]any{"case": rc, "swamp": rc.Swamps[i].Name})
			}
		}
		return
	}

	// ---- faulted run
	f := rc.Fault
	ti := f.Target % len(rc.Swamps)
	tFolder := SwampFolder(data, rc.Swamps[ti].Name)
	var res *RunResult
	var damaged string   // chunk file damaged on disk before the run ("" = none)
	var damagedRef *Ref  // what the legacy engine loads from the damaged folder
	restore := func() {} // puts the damaged chunk back (operator restores it from the backup)
	switch f.Kind {
	case "rlimit":
		// learn the layout of the target file from a fault-free migration of a second copy
		probe := filepath.Join(root, "probe")
		_ = CopyTree(data, probe)
		runMigrator(probe, Cfg{Parallel: 1}, -1)
		lim := rlimitFor(f, SwampFolder(probe, rc.Swamps[ti].Name)+".hyd")
		_ = os.RemoveAll(probe)
		res = runMigrator(data, rc.Cfg, lim)
	case "enospc":
		res = execMigrator(root, ExecSpec{DataPath: data, Cfg: rc.Cfg}, []string{"-e", "trace=write", "-e", fmt.Sprintf("inject=write:error=ENOSPC:when=%d", f.N), "-P", tFolder + ".hyd"})
	case "eio-read", "chunk-truncated", "chunk-garbage", "chunk-dangling":
		// the migrator reads the chunk files in os.ReadDir (name) order
		var chunks []string
		ents, _ := os.ReadDir(tFolder)
		for _, e := range ents {
			if e.Name() != "meta" && !e.IsDir() {
				chunks = append(chunks, filepath.Join(tFolder, e.Name()))
			}
		}
		sort.Strings(chunks)
		if len(chunks) == 0 {
			res = runMigrator(data, rc.Cfg, -1)
			break
		}
		ci := ((f.Chunk % len(chunks)) + len(chunks)) % len(chunks)
		damaged = chunks[ci]
		c.Count("chunk_faults", 1)
		if ci < len(chunks)-1 {
			c.Count("chunk_faults_on_a_non_last_chunk", 1)
		}
		switch {
		case ci == 0 && len(chunks) > 1:
			c.Seen("chunk_fault_positions", "first-of-several")
		case ci == len(chunks)-1 && len(chunks) > 1:
			c.Seen("chunk_fault_positions", "last-of-several")
		case len(chunks) > 1:
			c.Seen("chunk_fault_positions", "middle")
		default:
			c.Seen("chunk_fault_positions", "only-chunk")
		}
		if f.Kind == "eio-read" {
			res = execMigrator(root, ExecSpec{DataPath: data, Cfg: rc.Cfg}, []string{"-e", "trace=read", "-e", fmt.Sprintf("inject=read:error=EIO:when=%d", f.N), "-P", damaged})
			damaged = "" // transient: nothing on disk changed
			break
		}
		pristine := readFileOrNil(damaged)
		switch f.Kind {
		case "chunk-truncated":
			_ = os.WriteFile(damaged, pristine[:len(pristine)/2], 0o644)
		case "chunk-garbage":
			g := append([]byte(nil), pristine...)
			for k := range g {
				g[k] ^= byte(0xA5 + k)
			}
			_ = os.WriteFile(damaged, g, 0o644)
		case "chunk-dangling":
			_ = os.Remove(damaged)
			_ = os.Symlink(filepath.Join(root, "no-such-volume", filepath.Base(damaged)), damaged)
		}
		restore = func() {
			if _, err := os.Stat(tFolder); err == nil {
				_ = os.Remove(damaged)
				_ = os.WriteFile(damaged, pristine, 0o644)
			}
		}
		// the state the run starts from, and what the legacy engine itself loads from it
		before = SnapDir(data)
		if dr, err := LoadV1(tFolder, rc.Swamps[ti].MaxFile); err == nil {
			damagedRef = dr
		}
		res = runMigrator(data, rc.Cfg, -1)
	case "eio-read-hyd":
		res = execMigrator(root, ExecSpec{DataPath: data, Cfg: rc.Cfg}, []string{"-e", "trace=read", "-e", fmt.Sprintf("inject=read:error=EIO:when=%d", f.N), "-P", tFolder + ".hyd"})
	case "rodir":
		res = execMigrator(root, ExecSpec{DataPath: data, Cfg: rc.Cfg, RODir: filepath.Dir(tFolder)}, nil)
	}
	c.Count("faulted_runs", 1)
	c.Seen("fault_kinds", f.Kind)
	if res.SetupErr != "" {
		for i := range rc.Swamps {
			c.Case(rig.Dump(map[string]any{"s": rc.Swamps[i], "c": rc.Cfg, "f": f}), false)
		}
		c.Inconclusive("fault injector could not be set up (" + f.Kind + "): " + res.SetupErr)
		return
	}
	hit := false
	for i := range rc.Swamps {
		var dref *Ref
		if i == ti && damaged != "" {
			dref = damagedRef
			if dref == nil {
				dref = &Ref{Cands: map[string][]string{"\x00unloadable": {"-"}}} // tolerate nothing
			}
		}
		evs, phase, stub := evaluate("fault:"+f.Kind, true, rc.Cfg, data, &rc.Swamps[i], refs[i], dref, before, res)
		if stub {
			c.Count("failed_migrations_leaving_an_empty_hyd_stub", 1)
		}
		if phase != "" {
			hit = true
			c.Seen("failure_phases_under_fault", f.Kind+":"+phase)
		}
		c.Case(rig.Dump(map[string]any{"s": rc.Swamps[i], "c": rc.Cfg, "f": f}), phase != "")
		describe(i)
		report(evs, i)
	}
	if hit {
		c.Count("faulted_runs_where_run_reported_failure", 1)
	}
	// ---- the fault clears; the operator runs the migration again
	restore()
	res2 := runMigrator(data, Cfg{Verify: rc.Cfg.Verify, DeleteOld: rc.Cfg.DeleteOld, Parallel: rc.Cfg.Parallel}, -1)
	c.Count("reruns_after_fault", 1)
	for i := range rc.Swamps {
		// the legacy folder may legitimately be gone (first run succeeded with DeleteOld) — compare against what is there now
		evs, _, _ := evaluate("rerun-after:"+f.Kind, false, Cfg{Verify: rc.Cfg.Verify, DeleteOld: true, Parallel: rc.Cfg.Parallel}, data, &rc.Swamps[i], refs[i], nil, before, res2)
		report(evs, i)
	}
	c.Sample(map[string]any{"cfg": rc.Cfg, "fault": f, "swamps": len(rc.Swamps), "reported_failure": hit})
}

type batch struct {
	Roots []RootCase `json:"roots"`
}

func TestCheck(t *testing.T) {
	c := rig.NewCheck(t, "C23", "exploration")
	defer c.Finish()
	c.Rule = "a case is one legacy swamp folder (history of set/modify/delete/flush/close executed by a real swamp on the real V1 chronicler, chunk size 40 B … 1 MiB) inside a data root migrated by one migrator.Run (Verify/DeleteOld/DryRun/workers drawn per root); fault-free case non-trivial = the folder loads at least one record and has two or more chunk files or had an already persisted record rewritten/deleted; faulted case non-trivial = Run reported a failure for that swamp (the fault hit); distinct = distinct (history, config, fault) JSON"
	c.Assumptions = []string{
		"when the legacy chunk files hold several versions of a key (V1 keeps a stale copy in an older chunk in some histories and its Load picks one by map order), any of those versions is accepted after migration",
		"a .hyd left behind by a failed migration counts as a harmful partial file only when the V2 loader gets at least one record out of it and the result differs from the legacy state; a stub that loads as an empty swamp (cut inside header/name, no block) is served by a V2 server exactly like a missing file and is only counted (failed_migrations_leaving_an_empty_hyd_stub); the follow-up migration run over it must still yield the legacy state",
		"the record's storage file name (internal) is not compared; everything else is compared through the exported getters",
		"with DeleteOld off and with DryRun the legacy folder is required to stay byte-identical (Config documents both as not touching the old files)",
		"a legacy swamp holding a key longer than 65535 bytes cannot be represented in the V2 entry format: for it a reported failure that leaves the legacy folder intact is accepted, silent loss is not",
		"strace fault injection counts calls per thread; which write/read fails is therefore not pinned, every outcome is judged by the same oracle",
	}
	c.MinNontrivial = c.N(30, 600)

	if c.IsChild() {
		var b batch
		c.ChildSpec(&b)
		for i := range b.Roots {
			runRoot(c, &b.Roots[i])
		}
		return
	}
	if p := c.ReplayPath(); p != "" {
		var w struct {
			Witness struct {
				Case RootCase `json:"case"`
			} `json:"witness"`
		}
		rig.ReadJSON(p, &w)
		runRoot(c, &w.Witness.Case)
		return
	}

	var roots []RootCase
	folders := 0
	for i := 0; folders < c.N(60, 1500); i++ {
		rc := genRoot(c, i, false)
		folders += len(rc.Swamps)
		roots = append(roots, rc)
	}
	for i := 0; i < c.N(40, 1000); i++ {
		roots = append(roots, genRoot(c, 1_000_000+i, true))
	}
	for _, rc := range fixedRoots() {
		roots = append(roots, rc)
		if !rc.Cfg.DryRun && !rc.Cfg.DeleteOld {
			// the fixed swamps migrated twice: the second run finds the first run's .hyd files
			for j, c2 := range []Cfg{{Verify: true, DeleteOld: true, Parallel: 1}, {Verify: false, DeleteOld: false, Parallel: 3}} {
				r2 := rc
				r2.Idx = rc.Idx + 100*(j+1)
				r2.Rerun = &Cfg{Verify: c2.Verify, DeleteOld: c2.DeleteOld, Parallel: c2.Parallel}
				roots = append(roots, r2)
			}
		}
	}
	per := c.N(4, 24)
	var specs []any
	for i := 0; i < len(roots); i += per {
		j := i + per
		if j > len(roots) {
			j = len(roots)
		}
		specs = append(specs, batch{Roots: roots[i:j]})
	}
	results := c.Fanout(specs, rig.FanoutOpts{Par: 16, Timeout: 15 * time.Minute})
	for _, r := range results {
		if r.TimedOut {
			c.Inconclusive("child watchdog fired")
			continue
		}
		if len(r.Fatal) > 0 {
			c.Violate("process-died:"+sigOfFatal(r.Fatal[0]), "a migration child process died: "+r.Fatal[0], map[string]any{"log": r.LogPath, "batch": r.Spec})
			continue
		}
		if r.NoPartial || r.ExitErr != nil {
			c.Inconclusive(fmt.Sprintf("child %d ended without a result (%v), log %s", r.Index, r.ExitErr, r.LogPath))
		}
	}
}

func sigOfFatal(s string) string {
	s = strings.TrimSpace(s)
	if i := strings.IndexAny(s, "[0123456789"); i > 12 {
		s = s[:i]
	}
	return strings.ReplaceAll(strings.TrimSpace(s), " ", "-")
}

// fixedRoots are the hand-written corner cases.
func fixedRoots() []RootCase {
	set := func(k, kind string, seed uint64, size int) Op {
		return Op{Op: "set", Key: k, Kind: kind, Seed: seed, Size: size}
	}
	var out []RootCase
	// one record; many records in one chunk; record rewritten across sessions; all zero-like values
	one := SwampSpec{Name: "fixed/one/record", MaxFile: 8192, Ops: []Op{set("only", "string", 7, 10), {Op: "close"}}}
	var manyOps, zeroOps []Op
	for i := 0; i < 40; i++ {
		manyOps = append(manyOps, set(fmt.Sprintf("k%02d", i), kinds[i%len(kinds)], uint64(i)*977+1, 5+i))
	}
	manyOps = append(manyOps, Op{Op: "close"})
	for i := 0; i < 12; i++ {
		manyOps = append(manyOps, set(fmt.Sprintf("k%02d", i*3), "string", uint64(i)+5000, 30))
	}
	manyOps = append(manyOps, Op{Op: "flush"}, Op{Op: "del", Key: "k01"}, Op{Op: "del", Key: "k02"}, Op{Op: "close"})
	for i, k := range kinds {
		zeroOps = append(zeroOps, Op{Op: "set", Key: fmt.Sprintf("z%02d", i), Kind: k, Meta: 31, Seed: 0, Size: 0})
	}
	zeroOps = append(zeroOps, Op{Op: "close"})
	for i, cfg := range []Cfg{{Verify: true, DeleteOld: true, Parallel: 1}, {Verify: false, DeleteOld: false, Parallel: 4}, {DryRun: true, Parallel: 2}} {
		out = append(out, RootCase{Idx: 2_000_000 + i, Cfg: cfg, Swamps: []SwampSpec{
			one,
			{Name: "fixed/many/small-chunks", MaxFile: 60, Ops: manyOps},
			{Name: "fixed/many/one-chunk", MaxFile: 1 << 20, Ops: manyOps},
			{Name: "fixed/zero/values", MaxFile: 200, Ops: zeroOps},
			{Name: "fixed/meta/only", MaxFile: 8192, Ops: []Op{{Op: "close"}}},
		}})
	}
	// a key longer than the V2 entry format's 16-bit key length field (legal in the legacy engine)
	longKey := strings.Repeat("K", 70000)
	for i, cfg := range []Cfg{{Verify: true, DeleteOld: true, Parallel: 1}, {Verify: false, DeleteOld: true, Parallel: 1}} {
		out = append(out, RootCase{Idx: 2_000_100 + i, Cfg: cfg, Swamps: []SwampSpec{
			{Name: "fixed/long/key", MaxFile: 8192, Ops: []Op{set("a", "string", 1, 10), set(longKey, "string", 2, 10), set("z", "string", 3, 10), {Op: "close"}}},
		}})
	}
	// a failure on every position of a multi-chunk folder, under every Verify/DeleteOld combination
	k := 0
	for _, cfg := range []Cfg{{Verify: true, DeleteOld: true, Parallel: 1}, {Verify: false, DeleteOld: true, Parallel: 2}, {Verify: true, DeleteOld: false, Parallel: 1}, {Verify: false, DeleteOld: false, Parallel: 3}} {
		for ci, chunk := range []int{0, 1, -2, -1} {
			kind := []string{"chunk-truncated", "chunk-garbage", "chunk-dangling", "chunk-truncated"}[(ci+k)%4]
			if ci == k%4 {
				kind = "eio-read"
			}
			out = append(out, RootCase{Idx: 2_000_200 + k*4 + ci, Cfg: cfg, Fault: &Fault{Kind: kind, N: 1, Chunk: chunk},
				Swamps: []SwampSpec{{Name: "fixed/chunk/fault", MaxFile: 60, Ops: manyOps}}})
		}
		k++
	}
	return out
}
