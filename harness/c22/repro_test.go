package c22

import (
	"context"
	"fmt"
	"os"
	"testing"
	"time"

	"github.com/hydraide/hydraide/sdk/go/hydraidego/v3"
	"github.com/hydraide/hydraide/sdk/go/hydraidego/v3/name"

	"verifharness/rig"
)

// Minimal reproducers of the C22 findings with ordinary named struct types
// (C22_REPRO=1 go test -tags verif -v -run TestRepro ./c22).

type reproKeywords struct { // F1a: a body tag that contains "key" receives the record key on read
	ID       string `hydraide:"key"`
	Name     string `hydraide:"Name"`
	Keywords string `hydraide:"keywords"`
}

type reproKeyCount struct { // F1b: same, non-string field: CatalogRead panics in the caller
	ID      string `hydraide:"key"`
	APIKeys int32  `hydraide:"apikeys"`
}

type reproValues struct { // F1c: a body tag that contains "value" is also sent as the typed value, the body is lost
	ID     string `hydraide:"key"`
	Name   string `hydraide:"Name"`
	Values string `hydraide:"values"`
}

type reproSeenAt struct { // F1d: a body tag that contains "expireAt" overwrites / is overwritten by the expiry
	ID      string    `hydraide:"key"`
	Seen    time.Time `hydraide:"expireAtSeen"`
	Expires time.Time `hydraide:"expireAt"`
}

type reproNilBody struct { // F2: a nil slice body field without omitempty makes the record unreadable
	ID   string   `hydraide:"key"`
	Name string   `hydraide:"Name"`
	Tags []string `hydraide:"Tags"`
}

type reproStructValue struct { // F3: a struct (not pointer) value is dropped silently
	ID      string `hydraide:"key"`
	Payload Leaf   `hydraide:"value"`
}

type reproOldCreated struct { // F4: a creation time before 1970 is not reported back
	ID        string    `hydraide:"key"`
	CreatedAt time.Time `hydraide:"createdAt"`
}

func TestRepro(t *testing.T) {
	if os.Getenv("C22_REPRO") == "" {
		t.Skip("set C22_REPRO=1")
	}
	rig.InstallSentinel()
	s := newSDKRig("c22r")
	defer s.stop()
	ctx := context.Background()
	s.H.RegisterSwamp(ctx, &hydraidego.RegisterSwampRequest{SwampPattern: name.New().Sanctuary("c22r").Realm("*").Swamp("*"), CloseAfterIdle: time.Hour, IsInMemorySwamp: true})
	sw := name.New().Sanctuary("c22r").Realm("cat").Swamp("one")
	try := func(label string, in, out any, key string) {
		_, err := s.H.CatalogSave(ctx, sw, in)
		rerr, pan := safely(func() error { return s.H.CatalogRead(ctx, sw, key, out) })
		fmt.Printf("%-4s saved %+v (err %v)\n     read  %+v (err %v, panic %q)\n", label, in, err, out, rerr, pan)
	}
	try("F1a", &reproKeywords{ID: "k1", Name: "n", Keywords: "red,blue"}, &reproKeywords{}, "k1")
	try("F1b", &reproKeyCount{ID: "k2", APIKeys: 3}, &reproKeyCount{}, "k2")
	try("F1c", &reproValues{ID: "k3", Name: "n", Values: "v"}, &reproValues{}, "k3")
	try("F1d", &reproSeenAt{ID: "k4", Seen: time.Unix(1000, 0).UTC(), Expires: time.Unix(2000, 0).UTC()}, &reproSeenAt{}, "k4")
	try("F2", &reproNilBody{ID: "k5", Name: "n"}, &reproNilBody{}, "k5")
	try("F3", &reproStructValue{ID: "k6", Payload: Leaf{X: 7, Y: "y"}}, &reproStructValue{}, "k6")
	try("F4", &reproOldCreated{ID: "k7", CreatedAt: time.Date(1969, 7, 20, 20, 17, 0, 0, time.UTC)}, &reproOldCreated{}, "k7")
}
