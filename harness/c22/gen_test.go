package c22

import (
	"fmt"
	"math"
	"math/rand/v2"
	"reflect"
	"sort"
	"strings"
	"time"
)

// ---------------------------------------------------------------------------
// Case description (JSON-serialisable: this is what a replay file contains)

type fieldSpec struct {
	Name string `json:"name"`           // Go field name
	Role string `json:"role"`           // key value expireAt createdAt createdBy updatedAt updatedBy body prof
	Tag  string `json:"tag,omitempty"`  // catalog: tag head; profile: the whole tag ("" = untagged)
	Omit bool   `json:"omit,omitempty"` // catalog: ",omitempty" appended
	Type string `json:"type"`
	Pick uint64 `json:"pick"` // selects the value deterministically
}

type modelSpec struct {
	Shape   string      `json:"shape"` // single mapbody keyonly profile
	Enc     string      `json:"enc"`   // gob mp
	Save    string      `json:"save"`
	Reads   []string    `json:"reads"`
	Fields  []fieldSpec `json:"fields"`
	Twin    int         `json:"twin"` // body field whose tag is renamed in the metamorphic twin (-1: none)
	TwinTag string      `json:"twin_tag,omitempty"`
	Second  []uint64    `json:"second,omitempty"` // profile: picks of a second save over the first (nil: single save)
}

// ---------------------------------------------------------------------------
// Types of the SDK's documented supported list

type Leaf struct {
	X int32
	Y string
}

type Payload struct {
	S string
	N int64
	U uint16
	F float64
	B bool
	L []string
	M map[string]int32
	T time.Time
	P *Leaf
}

var typeTable = map[string]reflect.Type{
	"string":  reflect.TypeOf(""),
	"bool":    reflect.TypeOf(false),
	"int8":    reflect.TypeOf(int8(0)),
	"int16":   reflect.TypeOf(int16(0)),
	"int32":   reflect.TypeOf(int32(0)),
	"int64":   reflect.TypeOf(int64(0)),
	"int":     reflect.TypeOf(int(0)),
	"uint8":   reflect.TypeOf(uint8(0)),
	"uint16":  reflect.TypeOf(uint16(0)),
	"uint32":  reflect.TypeOf(uint32(0)),
	"uint64":  reflect.TypeOf(uint64(0)),
	"uint":    reflect.TypeOf(uint(0)),
	"float32": reflect.TypeOf(float32(0)),
	"float64": reflect.TypeOf(float64(0)),
	"time":    reflect.TypeOf(time.Time{}),
	"bytes":   reflect.TypeOf([]byte(nil)),
	"strs":    reflect.TypeOf([]string(nil)),
	"i64s":    reflect.TypeOf([]int64(nil)),
	"f32s":    reflect.TypeOf([]float32(nil)),
	"mapsi":   reflect.TypeOf(map[string]int32(nil)),
	"mapss":   reflect.TypeOf(map[string]string(nil)),
	"ptr":     reflect.TypeOf((*Payload)(nil)),
	"struct":  reflect.TypeOf(Payload{}),
}

var (
	scalarTypes = []string{"string", "bool", "int8", "int16", "int32", "int64", "int", "uint8", "uint16", "uint32", "uint64", "uint", "float32", "float64", "time"}
	complexType = []string{"bytes", "strs", "i64s", "f32s", "mapsi", "mapss", "ptr"}
)

var baseTime = time.Date(2024, 5, 6, 7, 8, 9, 123456789, time.UTC)

func strTable() []string {
	return []string{"", "a", "hello world", "key", "value", "ключ-🔑", "nul\x00mid", strings.Repeat("x", 300), " lead and trail ", "a/b.c*d"}
}

func timeTable() []time.Time {
	return []time.Time{
		{},
		baseTime,
		baseTime.In(time.FixedZone("plus2", 2*3600)),
		baseTime.In(time.FixedZone("minus930", -(9*3600 + 1800))),
		time.Date(1969, 12, 31, 23, 59, 58, 500000000, time.UTC), // before the epoch, fractional
		time.Date(1903, 1, 2, 3, 4, 5, 0, time.UTC),
		time.Date(2199, 12, 31, 23, 59, 59, 999999999, time.UTC),
		time.Unix(1, 0),
		time.Unix(1700000000, 0).UTC(),
	}
}

// table returns the fixed candidate values of a type (zero, extremes, typical).
func table(typ string) []any {
	switch typ {
	case "string":
		var o []any
		for _, s := range strTable() {
			o = append(o, s)
		}
		return o
	case "bool":
		return []any{false, true}
	case "int8":
		return []any{int8(0), int8(1), int8(-1), int8(math.MaxInt8), int8(math.MinInt8)}
	case "int16":
		return []any{int16(0), int16(1), int16(-1), int16(math.MaxInt16), int16(math.MinInt16)}
	case "int32":
		return []any{int32(0), int32(1), int32(-1), int32(math.MaxInt32), int32(math.MinInt32)}
	case "int64":
		return []any{int64(0), int64(1), int64(-1), int64(math.MaxInt64), int64(math.MinInt64)}
	case "int":
		return []any{int(0), int(1), int(-1), int(math.MaxInt64), int(math.MinInt64)}
	case "uint8":
		return []any{uint8(0), uint8(1), uint8(math.MaxUint8)}
	case "uint16":
		return []any{uint16(0), uint16(1), uint16(math.MaxUint16)}
	case "uint32":
		return []any{uint32(0), uint32(1), uint32(math.MaxUint32)}
	case "uint64":
		return []any{uint64(0), uint64(1), uint64(math.MaxUint64), uint64(math.MaxInt64) + 1}
	case "uint":
		return []any{uint(0), uint(1), uint(math.MaxUint64)}
	case "float32":
		return []any{float32(0), float32(math.Copysign(0, -1)), float32(1.5), float32(-2.25), float32(math.MaxFloat32), float32(math.SmallestNonzeroFloat32), float32(math.Inf(1)), float32(math.Inf(-1)), float32(math.NaN())}
	case "float64":
		return []any{float64(0), math.Copysign(0, -1), 1.5, -2.25, math.MaxFloat64, math.SmallestNonzeroFloat64, math.Inf(1), math.Inf(-1), math.NaN(), 0.1}
	case "time":
		var o []any
		for _, t := range timeTable() {
			o = append(o, t)
		}
		return o
	case "bytes":
		return []any{[]byte(nil), []byte{}, []byte{0}, []byte{0xC7, 0x00, 0x01}, []byte{1, 2, 3}, []byte("text bytes")}
	case "strs":
		return []any{[]string(nil), []string{}, []string{"a"}, []string{"", "b", "ключ"}}
	case "i64s":
		return []any{[]int64(nil), []int64{}, []int64{0}, []int64{math.MinInt64, math.MaxInt64, -1}}
	case "f32s":
		return []any{[]float32(nil), []float32{}, []float32{1.5, -2.25}, []float32{float32(math.Inf(1)), 0}}
	case "mapsi":
		return []any{map[string]int32(nil), map[string]int32{}, map[string]int32{"a": 1}, map[string]int32{"": 0, "b": -5, "ключ": math.MaxInt32}}
	case "mapss":
		return []any{map[string]string(nil), map[string]string{}, map[string]string{"a": "b"}, map[string]string{"": "", "k": "ключ"}}
	case "ptr":
		return []any{(*Payload)(nil), &Payload{}, fullPayload(1), fullPayload(2)}
	case "struct":
		return []any{Payload{}, *fullPayload(1), *fullPayload(2)}
	}
	panic("unknown type " + typ)
}

func fullPayload(v int) *Payload {
	if v == 1 {
		return &Payload{S: "s", N: -42, U: 65535, F: 2.5, B: true, L: []string{"x", ""}, M: map[string]int32{"m": 7}, T: baseTime, P: &Leaf{X: -3, Y: "leaf"}}
	}
	return &Payload{S: "ключ", N: math.MaxInt64, F: math.Inf(-1), L: []string{}, T: baseTime.In(time.FixedZone("plus2", 7200))}
}

func randString(r *rand.Rand) string {
	alpha := []rune("abcXYZ019 _-./:é漢🔑")
	n := 1 + r.IntN(24)
	var sb strings.Builder
	for i := 0; i < n; i++ {
		sb.WriteRune(alpha[r.IntN(len(alpha))])
	}
	return sb.String()
}

// makeValue builds the value selected by pick: three quarters of the picks come from the
// fixed table, the rest are PRNG values derived from the pick itself.
func makeValue(typ string, pick uint64) reflect.Value {
	if pick == pickNow && typ == "time" {
		return reflect.ValueOf(time.Now()) // wall + monotonic reading, local zone
	}
	tb := table(typ)
	if pick%4 != 3 {
		return reflect.ValueOf(tb[(pick/4)%uint64(len(tb))])
	}
	r := rand.New(rand.NewPCG(pick, 0x22))
	var v any
	switch typ {
	case "string":
		v = randString(r)
	case "bool":
		v = r.IntN(2) == 1
	case "int8":
		v = int8(r.Uint64())
	case "int16":
		v = int16(r.Uint64())
	case "int32":
		v = int32(r.Uint64())
	case "int64":
		v = int64(r.Uint64())
	case "int":
		v = int(r.Uint64())
	case "uint8":
		v = uint8(r.Uint64())
	case "uint16":
		v = uint16(r.Uint64())
	case "uint32":
		v = uint32(r.Uint64())
	case "uint64":
		v = r.Uint64()
	case "uint":
		v = uint(r.Uint64())
	case "float32":
		v = float32(r.NormFloat64() * 1e6)
	case "float64":
		v = r.NormFloat64() * 1e12
	case "time":
		v = time.Unix(int64(r.Uint64N(4e9)), int64(r.Uint64N(1e9))).In(time.FixedZone("z", int(r.IntN(24*3600))-12*3600))
	case "bytes":
		b := make([]byte, r.IntN(40))
		for i := range b {
			b[i] = byte(r.Uint64())
		}
		v = b
	case "strs":
		s := make([]string, r.IntN(5))
		for i := range s {
			s[i] = randString(r)
		}
		v = s
	case "i64s":
		s := make([]int64, r.IntN(6))
		for i := range s {
			s[i] = int64(r.Uint64())
		}
		v = s
	case "f32s":
		s := make([]float32, r.IntN(6))
		for i := range s {
			s[i] = float32(r.NormFloat64())
		}
		v = s
	case "mapsi":
		m := map[string]int32{}
		for i := r.IntN(5); i > 0; i-- {
			m[randString(r)] = int32(r.Uint64())
		}
		v = m
	case "mapss":
		m := map[string]string{}
		for i := r.IntN(5); i > 0; i-- {
			m[randString(r)] = randString(r)
		}
		v = m
	case "ptr", "struct":
		p := &Payload{S: randString(r), N: int64(r.Uint64()), U: uint16(r.Uint64()), F: r.NormFloat64(), B: r.IntN(2) == 1,
			T: time.Unix(int64(r.Uint64N(4e9)), int64(r.Uint64N(1e9))).UTC()}
		for i := r.IntN(3); i > 0; i-- {
			p.L = append(p.L, randString(r))
		}
		if r.IntN(2) == 0 {
			p.M = map[string]int32{randString(r): int32(r.Uint64())}
		}
		if r.IntN(2) == 0 {
			p.P = &Leaf{X: int32(r.Uint64()), Y: randString(r)}
		}
		if typ == "ptr" {
			v = p
		} else {
			v = *p
		}
	}
	return reflect.ValueOf(v)
}

const pickNow = ^uint64(0)

// ---------------------------------------------------------------------------
// Tag heads

var reservedWords = []string{"key", "value", "expireAt", "createdAt", "createdBy", "updatedAt", "updatedBy", "omitempty", "deletable"}

// tagClass classifies a tag head by the reserved words of the documentation it merely
// contains ("plain" if none). Used for signatures and coverage only.
func tagClass(head string) string {
	var c []string
	for _, w := range reservedWords {
		if head == w {
			return "=" + w
		}
		if strings.Contains(head, w) {
			c = append(c, "~"+w)
		}
	}
	if len(c) == 0 {
		return "plain"
	}
	return strings.Join(c, "+")
}

var plainHeads = []string{"Name", "ASN", "TLD", "Priority", "ClaimedBy", "ClaimedAt", "Score", "Flags", "Data", "Key", "Value", "ExpireAt", "CreatedAt", "UpdatedBy", "Omitempty", "KEY", "VALUE", "F1", "F2", "F3", "F4", "F5", "F6"}

// heads that are ordinary field names according to the documentation (not equal to any
// reserved tag) but contain a reserved word
var hostileHeads = []string{"keywords", "monkey", "keyX", "apikey", "key2", "values", "valueX", "myvalue", "expireAtX", "myexpireAt", "createdAtX", "createdByX", "updatedAtX", "updatedByX", "lastupdatedAt", "notomitempty", "omitemptyX", "deletableX", "keyvalue"}

var goNames = []string{"Key", "Value", "Values", "Keywords", "ExpireAt", "CreatedAt", "CreatedBy", "UpdatedAt", "UpdatedBy", "Omitempty", "Deletable", "Name", "Payload", "Data", "ID", "Domain", "Count", "Score", "Tags", "Meta", "Flag", "Email", "Age", "X"}

// ---------------------------------------------------------------------------
// Generator

var catalogSaves = []string{"CatalogSave", "CatalogCreate", "CatalogSaveMany", "CatalogCreateMany", "CatalogSaveManyToMany", "CatalogCreateManyToMany"}
var catalogReads = []string{"CatalogRead", "CatalogReadMany", "CatalogReadBatch", "CatalogReadManyStream", "CatalogReadManyFromMany"}
var profileSaves = []string{"ProfileSave", "ProfileSaveBatch"}
var profileReads = []string{"ProfileRead", "ProfileReadBatch"}

func pickSome(r *rand.Rand, from []string) []string {
	p := r.Perm(len(from))
	n := 1 + r.IntN(2)
	var o []string
	for _, i := range p[:n] {
		o = append(o, from[i])
	}
	sort.Strings(o)
	return o
}

func genPick(r *rand.Rand, typ string, nonEmpty bool) uint64 {
	for k := 0; ; k++ {
		p := r.Uint64() >> 1
		if typ == "time" && r.IntN(12) == 0 {
			p = pickNow
		}
		if !nonEmpty || k > 50 {
			return p
		}
		if !isEmptyDoc(makeValue(typ, p)) {
			return p
		}
	}
}

func gen(r *rand.Rand) modelSpec {
	m := modelSpec{Twin: -1, Enc: []string{"gob", "mp"}[r.IntN(2)]}
	names := r.Perm(len(goNames))
	nextName := func() string { n := goNames[names[0]]; names = names[1:]; return n }
	x := r.IntN(100)
	switch {
	case x < 45:
		m.Shape = "mapbody"
	case x < 70:
		m.Shape = "single"
	case x < 80:
		m.Shape = "keyonly"
	default:
		m.Shape = "profile"
	}
	if m.Shape == "profile" {
		m.Save = profileSaves[r.IntN(len(profileSaves))]
		m.Reads = pickSome(r, profileReads)
		n := 1 + r.IntN(6)
		types := append(append([]string{}, scalarTypes...), complexType...)
		for i := 0; i < n; i++ {
			f := fieldSpec{Name: nextName(), Role: "prof", Type: types[r.IntN(len(types))]}
			f.Tag = []string{"", "", "omitempty", "omitempty", "deletable", "omitempty,deletable"}[r.IntN(6)]
			f.Pick = genPick(r, f.Type, false)
			m.Fields = append(m.Fields, f)
		}
		if r.IntN(3) == 0 {
			for _, f := range m.Fields {
				m.Second = append(m.Second, genPick(r, f.Type, false))
			}
		}
		return m
	}
	m.Save = catalogSaves[r.IntN(len(catalogSaves))]
	m.Reads = pickSome(r, catalogReads)
	m.Fields = append(m.Fields, fieldSpec{Name: nextName(), Role: "key", Tag: "key", Type: "string", Pick: genPick(r, "string", true)})
	switch m.Shape {
	case "single":
		types := append(append([]string{"struct"}, scalarTypes...), complexType...)
		f := fieldSpec{Name: nextName(), Role: "value", Tag: "value", Type: types[r.IntN(len(types))], Omit: r.IntN(3) == 0}
		f.Pick = genPick(r, f.Type, false)
		m.Fields = append(m.Fields, f)
	case "mapbody":
		n := 1 + r.IntN(5)
		types := append(append([]string{}, scalarTypes...), complexType...)
		ph, hh := r.Perm(len(plainHeads)), r.Perm(len(hostileHeads))
		hostile := 0
		for i := 0; i < n; i++ {
			f := fieldSpec{Name: nextName(), Role: "body", Type: types[r.IntN(len(types))], Omit: r.IntN(10) < 3}
			if hostile < 2 && r.IntN(100) < 30 {
				f.Tag = hostileHeads[hh[hostile]]
				hostile++
			} else {
				f.Tag = plainHeads[ph[i]]
			}
			f.Pick = genPick(r, f.Type, r.IntN(4) != 0)
			m.Fields = append(m.Fields, f)
		}
	}
	for _, role := range []string{"expireAt", "createdAt", "createdBy", "updatedAt", "updatedBy"} {
		if r.IntN(100) >= 35 {
			continue
		}
		f := fieldSpec{Name: nextName(), Role: role, Tag: role, Omit: r.IntN(2) == 0, Type: "time"}
		if strings.HasSuffix(role, "By") {
			f.Type = "string"
		}
		// without omitempty the SDK documents that a zero time is rejected: mostly avoid it
		f.Pick = genPick(r, f.Type, !(f.Omit && r.IntN(2) == 0) && r.IntN(10) != 0)
		m.Fields = append(m.Fields, f)
	}
	r.Shuffle(len(m.Fields), func(i, j int) { m.Fields[i], m.Fields[j] = m.Fields[j], m.Fields[i] })
	if m.Shape == "mapbody" {
		var body, hostileIdx []int
		for i, f := range m.Fields {
			if f.Role == "body" {
				body = append(body, i)
				if tagClass(f.Tag) != "plain" {
					hostileIdx = append(hostileIdx, i)
				}
			}
		}
		if len(body) >= 2 {
			if len(hostileIdx) > 0 {
				m.Twin = hostileIdx[r.IntN(len(hostileIdx))]
				m.TwinTag = "Zq9"
			} else if r.IntN(2) == 0 {
				m.Twin = body[r.IntN(len(body))]
				used := map[string]bool{}
				for _, f := range m.Fields {
					used[f.Tag] = true
				}
				for _, k := range r.Perm(len(hostileHeads)) {
					if !used[hostileHeads[k]] {
						m.TwinTag = hostileHeads[k]
						break
					}
				}
			}
		}
	}
	return m
}

// fixedCases: the models the property text names explicitly, plus one plain model per shape.
func fixedCases() []modelSpec {
	key := fieldSpec{Name: "ID", Role: "key", Tag: "key", Type: "string", Pick: 4} // "a"
	body := func(name, tag, typ string, pick uint64) fieldSpec {
		return fieldSpec{Name: name, Role: "body", Tag: tag, Type: typ, Pick: pick}
	}
	rd := []string{"CatalogRead", "CatalogReadMany"}
	return []modelSpec{
		{Shape: "mapbody", Enc: "gob", Save: "CatalogSave", Reads: rd, Twin: 2, TwinTag: "Zq9",
			Fields: []fieldSpec{key, body("Name", "Name", "string", 8), body("Keywords", "keywords", "string", 16)}},
		{Shape: "mapbody", Enc: "mp", Save: "CatalogSave", Reads: rd, Twin: 2, TwinTag: "Zq9",
			Fields: []fieldSpec{key, body("Name", "Name", "string", 8), body("Values", "values", "string", 16)}},
		{Shape: "mapbody", Enc: "gob", Save: "CatalogSave", Reads: rd, Twin: 2, TwinTag: "Zq9",
			Fields: []fieldSpec{key, body("Name", "Name", "string", 8), body("Count", "keyX", "int32", 4)}},
		{Shape: "mapbody", Enc: "gob", Save: "CatalogSave", Reads: rd, Twin: 1, TwinTag: "Zq9",
			Fields: []fieldSpec{key, body("Seen", "expireAtX", "time", 4), body("Name", "Name", "string", 8),
				{Name: "Exp", Role: "expireAt", Tag: "expireAt", Type: "time", Pick: 8 * 4}}},
		{Shape: "mapbody", Enc: "mp", Save: "CatalogCreate", Reads: rd, Twin: -1,
			Fields: []fieldSpec{key, body("ASN", "ASN", "string", 8), body("Priority", "Priority", "int8", 12), body("ClaimedAt", "ClaimedAt", "time", 4)}},
		{Shape: "single", Enc: "gob", Save: "CatalogSave", Reads: rd, Twin: -1,
			Fields: []fieldSpec{key, {Name: "Payload", Role: "value", Tag: "value", Type: "ptr", Pick: 8}}},
		{Shape: "single", Enc: "mp", Save: "CatalogSave", Reads: rd, Twin: -1,
			Fields: []fieldSpec{key, {Name: "Payload", Role: "value", Tag: "value", Type: "struct", Pick: 4}}},
		{Shape: "keyonly", Enc: "gob", Save: "CatalogSave", Reads: rd, Twin: -1,
			Fields: []fieldSpec{key, {Name: "CreatedBy", Role: "createdBy", Tag: "createdBy", Type: "string", Pick: 8}}},
		{Shape: "profile", Enc: "gob", Save: "ProfileSave", Reads: []string{"ProfileRead"}, Twin: -1,
			Fields: []fieldSpec{{Name: "Key", Role: "prof", Type: "string", Pick: 8}, {Name: "Value", Role: "prof", Type: "int64", Pick: 12, Tag: "omitempty"}, {Name: "Keywords", Role: "prof", Type: "strs", Pick: 12}}},
	}
}

// ---------------------------------------------------------------------------
// Building the run-time struct type and its instance

func (m *modelSpec) fullTag(i int, twin bool) string {
	f := m.Fields[i]
	tag := f.Tag
	if twin && i == m.Twin {
		tag = m.TwinTag
	}
	if f.Role != "prof" && f.Omit {
		tag += ",omitempty"
	}
	return tag
}

func (m *modelSpec) structType(twin bool) reflect.Type {
	sf := make([]reflect.StructField, len(m.Fields))
	for i, f := range m.Fields {
		sf[i] = reflect.StructField{Name: f.Name, Type: typeTable[f.Type]}
		if t := m.fullTag(i, twin); t != "" {
			sf[i].Tag = reflect.StructTag(fmt.Sprintf(`hydraide:"%s"`, t))
		}
	}
	return reflect.StructOf(sf)
}

// instance returns a pointer to a new struct of type t holding the values selected by picks,
// or (twin variant) exactly the field values of from.
func (m *modelSpec) instance(t reflect.Type, picks []uint64, from reflect.Value) reflect.Value {
	p := reflect.New(t)
	for i, f := range m.Fields {
		if from.IsValid() {
			p.Elem().Field(i).Set(from.Elem().Field(i))
			continue
		}
		pick := f.Pick
		if picks != nil {
			pick = picks[i]
		}
		p.Elem().Field(i).Set(makeValue(f.Type, pick))
	}
	return p
}

// isEmptyDoc is "empty" as docs/sdk/go/go-sdk.md ("empty/zero/nil") and the SDK doc comments
// describe it for omitempty: zero value, nil, or an empty slice/map/string.
func isEmptyDoc(v reflect.Value) bool {
	switch v.Kind() {
	case reflect.Slice, reflect.Map:
		return v.Len() == 0
	case reflect.Ptr:
		return v.IsNil()
	case reflect.Bool:
		return false // a bool is never treated as absent (false is a storable value)
	case reflect.Struct:
		if t, ok := v.Interface().(time.Time); ok {
			return t.IsZero()
		}
		return false
	}
	return v.IsZero()
}
