// C22 — SDK model save/read round-trips exactly.
//
// Monitor: struct types are generated at run time with reflect.StructOf (single-value,
// map-body, key-only and profile shapes; tag heads and Go field names drawn from a pool that
// contains the reserved words and ordinary names that merely contain them; omitempty on/off;
// field types of the SDK's documented supported list; zero / extreme / random values). Every
// model is saved and read back through the public Go SDK against the real gateway on a real
// grpc.Server over bufconn. Oracle (written from docs/sdk/go/go-sdk.md,
// docs/features/map-body-catalog.md and the SDK doc comments): the model read equals the model
// saved after normalising what is documented as lossy; the key read is the key saved; and
// renaming one body field's tag leaves every other field's round-trip result unchanged.
package c22

import (
	"context"
	"errors"
	"fmt"
	"math"
	"reflect"
	"sort"
	"strings"
	"testing"
	"time"

	"github.com/hydraide/hydraide/sdk/go/hydraidego/v3"
	"github.com/hydraide/hydraide/sdk/go/hydraidego/v3/name"

	"verifharness/rig"
)

// ---------------------------------------------------------------------------
// comparison after normalisation

type cmpMode int

const (
	cmpExact   cmpMode = iota // instants compared with time.Equal (zone and monotonic part are lossy)
	cmpSeconds                // top-level time.Time stored "as int64 UNIX timestamp": whole seconds
)

// same reports whether got is the round-trip image of exp. nil and empty slices/maps are not
// distinguished (neither gob nor msgpack promise to), NaN equals NaN, times are compared as
// instants.
func same(exp, got reflect.Value, mode cmpMode) bool {
	if exp.Type() != got.Type() {
		return false
	}
	if et, ok := exp.Interface().(time.Time); ok {
		gt := got.Interface().(time.Time)
		if et.Equal(gt) {
			return true
		}
		if mode == cmpSeconds {
			return gt.Equal(time.Unix(et.Unix(), 0))
		}
		return false
	}
	switch exp.Kind() {
	case reflect.Float32, reflect.Float64:
		a, b := exp.Float(), got.Float()
		return a == b || (math.IsNaN(a) && math.IsNaN(b))
	case reflect.Slice:
		if exp.Len() != got.Len() {
			return false
		}
		for i := 0; i < exp.Len(); i++ {
			if !same(exp.Index(i), got.Index(i), cmpExact) {
				return false
			}
		}
		return true
	case reflect.Map:
		if exp.Len() != got.Len() {
			return false
		}
		for _, k := range exp.MapKeys() {
			gv := got.MapIndex(k)
			if !gv.IsValid() || !same(exp.MapIndex(k), gv, cmpExact) {
				return false
			}
		}
		return true
	case reflect.Ptr:
		if exp.IsNil() || got.IsNil() {
			return exp.IsNil() && got.IsNil()
		}
		return same(exp.Elem(), got.Elem(), cmpExact)
	case reflect.Struct:
		for i := 0; i < exp.NumField(); i++ {
			if !same(exp.Field(i), got.Field(i), cmpExact) {
				return false
			}
		}
		return true
	}
	return reflect.DeepEqual(exp.Interface(), got.Interface())
}

func show(v reflect.Value) string {
	s := fmt.Sprintf("%#v", v.Interface())
	if t, ok := v.Interface().(time.Time); ok {
		s = t.Format(time.RFC3339Nano)
	}
	if v.Kind() == reflect.Ptr && !v.IsNil() {
		s = fmt.Sprintf("&%+v", v.Elem().Interface())
	}
	if len(s) > 160 {
		s = s[:160] + "…"
	}
	return s
}

// ---------------------------------------------------------------------------
// running one model through the SDK

type env struct {
	c   *rig.Check
	s   *sdkRig
	ctx context.Context
}

// safely runs f and converts a panic inside the SDK into a string.
func safely(f func() error) (err error, pan string) {
	defer func() {
		if r := recover(); r != nil {
			pan = fmt.Sprint(r)
		}
	}()
	return f(), ""
}

type outcome struct {
	saveErr   error
	savePanic string
	reads     map[string]reflect.Value // api -> pointer to the struct read
	readErr   map[string]error
	readPanic map[string]string
	readCount map[string]int // ReadMany-like apis: number of records returned
}

func (e *env) swamp(m *modelSpec, idx int, twin bool) name.Name {
	sw := fmt.Sprintf("m%d", idx)
	if twin {
		sw += "t"
	}
	realm := m.Enc
	if m.Shape == "profile" {
		realm += "p"
	}
	return name.New().Sanctuary("c22").Realm(realm).Swamp(sw)
}

func (e *env) save(api string, sw name.Name, inst reflect.Value) (error, string) {
	h := e.s.H
	model := inst.Interface()
	return safely(func() error {
		switch api {
		case "CatalogSave":
			_, err := h.CatalogSave(e.ctx, sw, model)
			return err
		case "CatalogCreate":
			return h.CatalogCreate(e.ctx, sw, model)
		case "CatalogSaveMany":
			return h.CatalogSaveMany(e.ctx, sw, []any{model}, func(string, hydraidego.EventStatus) error { return nil })
		case "CatalogCreateMany":
			var itemErr error
			err := h.CatalogCreateMany(e.ctx, sw, []any{model}, func(_ string, err error) error { itemErr = err; return nil })
			if err == nil {
				err = itemErr
			}
			return err
		case "CatalogSaveManyToMany":
			return h.CatalogSaveManyToMany(e.ctx, []*hydraidego.CatalogManyToManyRequest{{SwampName: sw, Models: []any{model}}}, nil)
		case "CatalogCreateManyToMany":
			var itemErr error
			err := h.CatalogCreateManyToMany(e.ctx, []*hydraidego.CatalogManyToManyRequest{{SwampName: sw, Models: []any{model}}}, func(_ name.Name, _ string, err error) error { itemErr = err; return nil })
			if err == nil {
				err = itemErr
			}
			return err
		case "ProfileSave":
			return h.ProfileSave(e.ctx, sw, model)
		case "ProfileSaveBatch":
			var itemErr error
			err := h.ProfileSaveBatch(e.ctx, []name.Name{sw}, []any{model}, func(_ name.Name, err error) error { itemErr = err; return nil })
			if err == nil {
				err = itemErr
			}
			return err
		}
		return errors.New("unknown save api " + api)
	})
}

// read returns the pointer to the struct read, the number of records a multi-record api
// produced (1 for single-record apis), the error and the panic text.
func (e *env) read(api string, sw name.Name, t reflect.Type, key string) (got reflect.Value, n int, err error, pan string) {
	h := e.s.H
	idx := &hydraidego.Index{IndexType: hydraidego.IndexKey, IndexOrder: hydraidego.IndexOrderAsc}
	collect := func(model any) error {
		n++
		got = reflect.ValueOf(model)
		return nil
	}
	err, pan = safely(func() error {
		switch api {
		case "CatalogRead":
			p := reflect.New(t)
			if err := h.CatalogRead(e.ctx, sw, key, p.Interface()); err != nil {
				return err
			}
			got, n = p, 1
			return nil
		case "CatalogReadMany":
			return h.CatalogReadMany(e.ctx, sw, idx, reflect.Zero(t).Interface(), collect)
		case "CatalogReadBatch":
			return h.CatalogReadBatch(e.ctx, sw, []string{key}, reflect.Zero(t).Interface(), collect)
		case "CatalogReadManyStream":
			return h.CatalogReadManyStream(e.ctx, sw, idx, nil, reflect.Zero(t).Interface(), collect)
		case "CatalogReadManyFromMany":
			return h.CatalogReadManyFromMany(e.ctx, []*hydraidego.CatalogReadManyFromManyRequest{{SwampName: sw, Index: idx}}, reflect.Zero(t).Interface(),
				func(_ name.Name, model any) error { return collect(model) })
		case "ProfileRead":
			p := reflect.New(t)
			if err := h.ProfileRead(e.ctx, sw, p.Interface()); err != nil {
				return err
			}
			got, n = p, 1
			return nil
		case "ProfileReadBatch":
			var itemErr error
			err := h.ProfileReadBatch(e.ctx, []name.Name{sw}, reflect.New(t).Interface(), func(_ name.Name, model any, err error) error {
				if err != nil {
					itemErr = err
					return nil
				}
				return collect(model)
			})
			if err == nil {
				err = itemErr
			}
			return err
		}
		return errors.New("unknown read api " + api)
	})
	return
}

// runVariant saves and reads one variant (original or twin) of the model.
func (e *env) runVariant(m *modelSpec, idx int, twin bool, from1, from2 reflect.Value) (o outcome, saved reflect.Value, second reflect.Value) {
	o = outcome{reads: map[string]reflect.Value{}, readErr: map[string]error{}, readPanic: map[string]string{}, readCount: map[string]int{}}
	t := m.structType(twin)
	sw := e.swamp(m, idx, twin)
	saved = m.instance(t, nil, from1)
	defer func() { _, _ = safely(func() error { return e.s.H.Destroy(e.ctx, sw) }) }()
	o.saveErr, o.savePanic = e.save(m.Save, sw, saved)
	if o.saveErr != nil || o.savePanic != "" {
		return
	}
	if m.Second != nil {
		second = m.instance(t, m.Second, from2)
		o.saveErr, o.savePanic = e.save(m.Save, sw, second)
		if o.saveErr != nil || o.savePanic != "" {
			return
		}
	}
	key := ""
	for i, f := range m.Fields {
		if f.Role == "key" {
			key = saved.Elem().Field(i).String()
		}
	}
	for _, api := range m.Reads {
		got, n, err, pan := e.read(api, sw, t, key)
		e.c.Count("reads", 1)
		e.c.Seen("read_apis", api)
		switch {
		case pan != "":
			o.readPanic[api] = pan
		case err != nil:
			o.readErr[api] = err
		default:
			o.readCount[api] = n
			if n >= 1 {
				o.reads[api] = got
			}
		}
	}
	return
}

// hostileOthers lists the tag classes (other than plain / exact reserved) of all fields except skip.
func hostileOthers(m *modelSpec, skip int, twin bool) string {
	set := map[string]bool{}
	for i, f := range m.Fields {
		if i == skip || f.Role != "body" {
			continue
		}
		tag := f.Tag
		if twin && i == m.Twin {
			tag = m.TwinTag
		}
		if c := tagClass(tag); c != "plain" {
			set[c] = true
		}
	}
	if len(set) == 0 {
		return "none"
	}
	var l []string
	for c := range set {
		l = append(l, c)
	}
	sort.Strings(l)
	return strings.Join(l, ",")
}

func isTimeout(err error) bool {
	return err != nil && (hydraidego.IsCtxTimeout(err) || hydraidego.IsCtxClosedByClient(err) || errors.Is(err, context.DeadlineExceeded))
}

var panicNorm = strings.NewReplacer(" ", "_")

// shortPanic reduces a panic text to its kind: "reflect: call of reflect.Value.SetString on
// int8 Value" -> "reflect:_call_of_reflect.Value.SetString" (the operand kind varies with the
// generated field type, the defect does not).
func shortPanic(p string) string {
	if i := strings.Index(p, " on "); i > 0 {
		p = p[:i]
	}
	if len(p) > 90 {
		p = p[:90]
	}
	return panicNorm.Replace(p)
}

// errKind is the leading clause of an SDK error message, without operands.
func errKind(err error) string {
	m := hydraidego.GetErrorMessage(err)
	if m == "" {
		m = err.Error()
	}
	if i := strings.Index(m, ":"); i > 0 {
		m = m[:i]
	}
	if i := strings.Index(m, "\""); i > 0 { // quoted operand (a generated field name)
		m = strings.TrimSpace(m[:i])
	}
	if len(m) > 60 {
		m = m[:60]
	}
	return panicNorm.Replace(m)
}

type violation struct{ sig, what string }

// check compares one variant's outcome with the documented round-trip image of what was saved.
func (e *env) check(m *modelSpec, twin bool, o outcome, saved, second reflect.Value) (vs []violation, accepted bool, inconclusive string) {
	variant := "orig"
	if twin {
		variant = "twin"
	}
	ho := hostileOthers(m, -1, twin)
	if o.savePanic != "" {
		vs = append(vs, violation{fmt.Sprintf("save-panic:%s:hostile=%s:%s", m.Shape, ho, shortPanic(o.savePanic)),
			fmt.Sprintf("%s panicked inside the SDK (%s variant): %s", m.Save, variant, o.savePanic)})
		return
	}
	if o.saveErr != nil {
		if isTimeout(o.saveErr) {
			inconclusive = "save timed out (watchdog)"
		}
		return // the SDK rejected the model with an error: out of scope, not a violation
	}
	accepted = true
	key := ""
	for i, f := range m.Fields {
		if f.Role == "key" {
			key = saved.Elem().Field(i).String()
		}
	}
	for _, api := range m.Reads {
		if p, ok := o.readPanic[api]; ok {
			vs = append(vs, violation{fmt.Sprintf("read-panic:%s:hostile=%s:%s", m.Shape, ho, shortPanic(p)),
				fmt.Sprintf("%s of a model that %s accepted panicked inside the SDK: %s", api, m.Save, p)})
			continue
		}
		if err, ok := o.readErr[api]; ok {
			if isTimeout(err) {
				inconclusive = "read timed out (watchdog)"
				continue
			}
			if m.Shape == "profile" && hydraidego.IsSwampNotFound(err) && allExpectedZero(m, saved, second) {
				continue // documented: nothing was stored, the swamp does not exist
			}
			vs = append(vs, violation{fmt.Sprintf("read-error:%s:hostile=%s:%s", m.Shape, ho, errKind(err)),
				fmt.Sprintf("%s of a model that %s accepted failed: %v", api, m.Save, err)})
			continue
		}
		if n := o.readCount[api]; n != 1 {
			vs = append(vs, violation{fmt.Sprintf("read-count:%s:%s:got=%d", m.Shape, api, min(n, 2)),
				fmt.Sprintf("%s returned %d records for a swamp holding exactly the one saved record", api, n)})
			if n == 0 {
				continue
			}
		}
		got := o.reads[api].Elem()
		for i, f := range m.Fields {
			exp := saved.Elem().Field(i)
			if second.IsValid() {
				exp = second.Elem().Field(i)
			}
			g := got.Field(i)
			mode := cmpExact
			if exp.Type() == typeTable["time"] && (f.Role == "value" || f.Role == "prof") {
				mode = cmpSeconds
			}
			omit := f.Omit || (f.Role == "prof" && strings.Contains(f.Tag, "omitempty"))
			deletable := f.Role == "prof" && strings.Contains(f.Tag, "deletable")
			zero := reflect.Zero(exp.Type())
			ok := false
			switch {
			case (omit || deletable) && isEmptyDoc(exp):
				switch f.Role {
				case "expireAt", "createdAt", "createdBy", "updatedAt", "updatedBy":
					ok = true // an absent metadata slot: whatever the server reports is accepted
				default:
					ok = same(zero, g, mode)
					if !ok && second.IsValid() && !deletable {
						// second profile save skipped this field: the first save's value may remain
						ok = same(saved.Elem().Field(i), g, mode)
					}
				}
			default:
				ok = same(exp, g, mode)
				if !ok && second.IsValid() && isEmptyDoc(exp) && hasNoTypedZero(exp) {
					// second profile save of a nil pointer / zero time / nil slice or map: such a
					// value has no wire representation, the documentation does not say whether it
					// clears the stored value; the first save's value may remain
					ok = same(saved.Elem().Field(i), g, mode)
				}
			}
			if ok {
				continue
			}
			how := "other"
			switch {
			case f.Role != "key" && g.Kind() == reflect.String && key != "" && g.String() == key:
				how = "became-record-key"
			case same(zero, g, cmpExact):
				how = "zeroed"
			case second.IsValid() && same(saved.Elem().Field(i), g, mode):
				how = "kept-previous-save"
			}
			cls := "zero"
			if !isEmptyDoc(exp) {
				cls = "nonzero"
			}
			if f.Type == "time" && !exp.Interface().(time.Time).IsZero() && exp.Interface().(time.Time).Unix() < 0 {
				cls = "preepoch"
			}
			tag := f.Tag
			if twin && i == m.Twin {
				tag = m.TwinTag
			}
			own := tagClass(tag)
			if f.Role == "prof" {
				own = "name." + tagClass(strings.ToLower(f.Name[:1])+f.Name[1:])
			}
			enc := "-" // the swamp's encoding only matters where the SDK applies it: `value` and profile fields
			if f.Role == "value" || f.Role == "prof" {
				enc = m.Enc
			}
			sig := fmt.Sprintf("field-changed:%s:%s:%s/%s/%s:%s:%s:others=%s", m.Shape, enc, f.Role, f.Type, own, cls, how, hostileOthers(m, i, twin))
			vs = append(vs, violation{sig, fmt.Sprintf("%s then %s (%s variant): field %s `hydraide:\"%s\"` (%s) saved %s, read %s",
				m.Save, api, variant, f.Name, m.fullTag(i, twin), f.Type, show(exp), show(g))})
		}
	}
	return
}

// hasNoTypedZero: kinds whose empty value the wire format cannot carry as a typed value.
func hasNoTypedZero(v reflect.Value) bool {
	switch v.Kind() {
	case reflect.Ptr, reflect.Slice, reflect.Map:
		return true
	}
	_, isTime := v.Interface().(time.Time)
	return isTime
}

func allExpectedZero(m *modelSpec, saved, second reflect.Value) bool {
	for i := range m.Fields {
		if !isEmptyDoc(saved.Elem().Field(i)) {
			return false
		}
		if second.IsValid() && !isEmptyDoc(second.Elem().Field(i)) {
			return false
		}
	}
	return true
}

// metamorphic: both variants were accepted and read; every field other than the renamed one
// must have come back identical in both.
func metamorphic(m *modelSpec, a, b outcome) (vs []violation) {
	for _, api := range m.Reads {
		ga, oka := a.reads[api]
		gb, okb := b.reads[api]
		if !oka || !okb {
			continue
		}
		for i, f := range m.Fields {
			if i == m.Twin {
				continue
			}
			if !same(ga.Elem().Field(i), gb.Elem().Field(i), cmpExact) {
				vs = append(vs, violation{
					fmt.Sprintf("metamorphic:mapbody:renamed=%s->%s:affected=%s/%s", tagClass(m.Fields[m.Twin].Tag), tagClass(m.TwinTag), f.Role, f.Type),
					fmt.Sprintf("renaming the tag of body field %s from %q to %q changed what %s returns for the untouched field %s `%s`: %s vs %s",
						m.Fields[m.Twin].Name, m.Fields[m.Twin].Tag, m.TwinTag, api, f.Name, m.fullTag(i, false), show(ga.Elem().Field(i)), show(gb.Elem().Field(i)))})
			}
		}
	}
	return
}

// runCase executes one model (and its twin) and reports into the accumulator.
func (e *env) runCase(m modelSpec, idx int) {
	c := e.c
	o, saved, second := e.runVariant(&m, idx, false, reflect.Value{}, reflect.Value{})
	vs, accepted, inc := e.check(&m, false, o, saved, second)
	twinAccepted := false
	if m.Twin >= 0 && m.TwinTag != "" {
		ot, savedT, secondT := e.runVariant(&m, idx, true, saved, second)
		vt, acc, inc2 := e.check(&m, true, ot, savedT, secondT)
		twinAccepted = acc
		vs = append(vs, vt...)
		if inc == "" {
			inc = inc2
		}
		if accepted && acc {
			vs = append(vs, metamorphic(&m, o, ot)...)
			c.Count("metamorphic_pairs", 1)
		}
	}
	nonzero := false
	for i, f := range m.Fields {
		if f.Role != "key" && !isEmptyDoc(saved.Elem().Field(i)) {
			nonzero = true
		}
		if f.Role == "body" {
			c.Seen("tag_classes", tagClass(f.Tag))
		}
		c.Seen("field_types", f.Role+"/"+f.Type)
	}
	c.Case(rig.Dump(m), (accepted || twinAccepted) && nonzero)
	c.Sample(m)
	c.Seen("shapes", m.Shape+"/"+m.Enc)
	c.Seen("save_apis", m.Save)
	if accepted {
		c.Count("accepted", 1)
	} else {
		c.Count("rejected_by_sdk", 1)
		if o.saveErr != nil {
			c.Seen("reject_reasons", trimErr(o.saveErr))
		}
	}
	if inc != "" {
		c.Inconclusive(inc)
	}
	seen := map[string]bool{}
	for _, v := range vs {
		if seen[v.sig] {
			continue
		}
		seen[v.sig] = true
		c.Violate(v.sig, v.what, map[string]any{"model": m, "idx": idx})
	}
}

func trimErr(err error) string {
	s := err.Error()
	if len(s) > 70 {
		s = s[:70]
	}
	return s
}

func TestCheck(t *testing.T) {
	c := rig.NewCheck(t, "C22", "exploration")
	defer c.Finish()
	c.Rule = "one case = one generated model type (reflect.StructOf) with one value per field, saved through one SDK save API and read back through 1-2 read APIs (map-body models with >=2 body fields are also run as a twin with one body tag renamed); non-trivial = the SDK accepted the model (save returned no error) and at least one non-key field held a non-empty value; distinct = distinct model JSON"
	c.Assumptions = []string{
		"documented as lossy and therefore normalised: time zone and monotonic clock part (instants are compared); a top-level time.Time value / profile field is stored as whole UNIX seconds; nil and empty slices/maps are not distinguished; an empty field tagged omitempty (or deletable in profiles) reads back as the zero value; an absent (omitempty, empty) metadata slot may read back as anything",
		"a model the SDK rejects with an error is out of scope (counted as rejected_by_sdk, never a violation)",
		"only documented model shapes: one `key`, at most one `value` XOR unique non-reserved body tags, at most one of each metadata tag, profile tags omitempty/deletable only; metadata instants are kept inside the int64-nanosecond range",
		"one save per fresh key/swamp (profiles: optionally a second ProfileSave over the first; an empty omitempty field, and an empty pointer / time / slice / map field whose clearing the documentation does not specify, may keep the first save's value)",
		"a wall-clock watchdog (60 s per SDK call) only ever yields inconclusive",
	}
	c.MinNontrivial = 20
	n := c.N(300, 6000)

	s := newSDKRig("c22")
	defer s.stop()
	bg := context.Background()
	reg := func(realm string, inMem bool, enc hydraidego.EncodingFormat) {
		req := &hydraidego.RegisterSwampRequest{SwampPattern: name.New().Sanctuary("c22").Realm(realm).Swamp("*"), CloseAfterIdle: time.Hour, IsInMemorySwamp: inMem}
		if !inMem {
			req.FilesystemSettings = &hydraidego.SwampFilesystemSettings{WriteInterval: time.Second, EncodingFormat: enc}
		}
		if errs := s.H.RegisterSwamp(bg, req); errs != nil {
			t.Fatalf("register %s: %v", realm, errs)
		}
	}
	reg("gob", true, hydraidego.EncodingGOB)
	reg("gobp", true, hydraidego.EncodingGOB)
	reg("mp", false, hydraidego.EncodingMsgPack)
	reg("mpp", false, hydraidego.EncodingMsgPack)

	type job struct {
		m   modelSpec
		idx int
	}
	var jobs []job
	if p := c.ReplayPath(); p != "" {
		var w struct {
			Witness struct {
				Model modelSpec `json:"model"`
				Idx   int       `json:"idx"`
			} `json:"witness"`
		}
		rig.ReadJSON(p, &w)
		jobs = append(jobs, job{w.Witness.Model, w.Witness.Idx})
	} else {
		for i, m := range fixedCases() {
			jobs = append(jobs, job{m, 1000000 + i})
		}
		for i := 0; i < n; i++ {
			jobs = append(jobs, job{gen(c.Rand(i)), i})
		}
	}
	for _, j := range jobs {
		ctx, cancel := context.WithTimeout(bg, 60*time.Second)
		e := &env{c: c, s: s, ctx: ctx}
		e.runCase(j.m, j.idx)
		cancel()
	}
	for _, rec := range rig.InstallSentinel().Drain("panic") {
		c.Violate("server-panic:"+shortPanic(rec.Msg), "the gateway recovered a panic while serving SDK traffic: "+rec.Msg+" "+rec.Attrs, nil)
	}
}
