// C22 — SDK model save/read round-trips exactly.
//
// Monitor: struct types are generated at run time with reflect.StructOf (single-value,
// map-body, key-only and profile shapes; tag heads and Go field names drawn from a pool that
// contains the reserved words and ordinary names that merely contain them; omitempty on/off;
// field types of the SDK's documented supported list; zero / extreme / random values). Every
// model is saved and read back through the public Go SDK against the real gateway on a real
// grpc.Server over bufconn. Oracle (written from docs/sdk/go/go-sdk.md,
// docs/features/map-body-catalog.md and the SDK doc comments): the model read equals the model
// saved after normalising what is documented as lossy; the key read is the key saved; and
// renaming one body field's tag leaves every other field's round-trip result unchanged.
package c22

import (
	"context"
	"errors"
	"fmt"
	"math"
	"reflect"
	"sort"
	"strings"
	"testing"
	"time"

	"github.com/hydraide/hydraide/sdk/go/hydraidego/v3"
	"github.com/hydraide/hydraide/sdk/go/hydraidego/v3/name"

	"verifharness/rig"
)

// ---------------------------------------------------------------------------
// comparison after normalisation

type cmpMode int

const (
	cmpExact   cmpMode = iota // instants compared with time.Equal (zone and monotonic part are lossy)
	cmpSeconds                // top-level time.Time stored "as int64 UNIX timestamp": whole seconds
)

// same reports whether got is the round-trip image of exp. nil and empty slices/maps are not
// distinguished (neither gob nor msgpack promise to), NaN equals NaN, times are compared as
// instants.
func same(exp, got reflect.Value, mode cmpMode) bool {
	if exp.Type() != got.Type() {
		return false
	}
	if et, ok := exp.Interface().(time.Time); ok {
		gt := got.Interface().(time.Time)
		if et.Equal(gt) {
			return true
		}
		if mode == cmpSeconds {
			return gt.Equal(time.Unix(et.Unix(), 0))
		}
		return false
	}
	switch exp.Kind() {
	case reflect.Float32, reflect.Float64:
		a, b := exp.Float(), got.Float()
		return a == b || (math.IsNaN(a) && math.IsNaN(b))
	case reflect.Slice:
		if exp.Len() != got.Len() {
			return false
		}
		for i := 0; i < exp.Len(); i++ {
			if !same(exp.Index(i), got.Index(i), cmpExact) {
				return false
			}
		}
		return true
	case reflect.Map:
		if exp.Len() != got.Len() {
			return false
		}
		for _, k := range exp.MapKeys() {
			gv := got.MapIndex(k)
			if !gv.IsValid() || !same(exp.MapIndex(k), gv, cmpExact) {
				return false
			}
		}
		return true
	case reflect.Ptr:
		if exp.IsNil() || got.IsNil() {
			return exp.IsNil() && got.IsNil()
		}
		return same(exp.Elem(), got.Elem(), cmpExact)
	case reflect.Struct:
		for i := 0; i < exp.NumField(); i++ {
			if !same(exp.Field(i), got.Field(i), cmpExact) {
				return false
			}
		}
		return true
	}
	return reflect.DeepEqual(exp.Interface(), got.Interface())
}

func show(v reflect.Value) string {
	s := fmt.Sprintf("%#v", v.Interface())
	if t, ok := v.Interface().(time.Time); ok {
		s = t.Format(time.RFC3339Nano)
	}
	if v.Kind() == reflect.Ptr && !v.IsNil() {
		s = fmt.Sprintf("&%+v", v.Elem().Interface())
	}
	if len(s) > 160 {
		s = s[:160] + "…"
	}
	return s
}

// ---------------------------------------------------------------------------
// running one model through the SDK

type env struct {
	c   *rig.Check
	s   *sdkRig
	ctx context.Context
}

// safely runs f and converts a panic inside the SDK into a string.
func safely(f func() error) (err error, pan string) {
	defer func() {
		if r := recover(); r != nil {
			pan = fmt.Sprint(r)
		}
	}()
	return f(), ""
}

type outcome struct {
	saveErr   error
	savePanic string
	reads     map[string]reflect.Value // api -> pointer to the struct read
	readErr   map[string]error
	readPanic map[string]string
	readCount map[string]int // number of records returned that carry the saved key
	readTotal map[string]int // number of records returned
	// expectTotal: records the swamp holds (what the whole-swamp apis must return)
	expectTotal int
}

func (e *env) swamp(m *modelSpec, idx int, twin bool) name.Name {
	sw := fmt.Sprintf("m%d", idx)
	if twin {
		sw += "t"
	}
	realm := m.Enc
	if m.Shape == "profile" {
		realm += "p"
	}
	return name.New().Sanctuary("c22").Realm(realm).Swamp(sw)
}

func (e *env) save(api string, sw name.Name, inst reflect.Value) (error, string) {
	h := e.s.H
	model := inst.Interface()
	return safely(func() error {
		switch api {
		case "CatalogSave":
			_, err := h.CatalogSave(e.ctx, sw, model)
			return err
		case "CatalogCreate":
			return h.CatalogCreate(e.ctx, sw, model)
		case "CatalogSaveMany":
			return h.CatalogSaveMany(e.ctx, sw, []any{model}, func(string, hydraidego.EventStatus) error { return nil })
		case "CatalogCreateMany":
			var itemErr error
			err := h.CatalogCreateMany(e.ctx, sw, []any{model}, func(_ string, err error) error { itemErr = err; return nil })
			if err == nil {
				err = itemErr
			}
			return err
		case "CatalogSaveManyToMany":
			return h.CatalogSaveManyToMany(e.ctx, []*hydraidego.CatalogManyToManyRequest{{SwampName: sw, Models: []any{model}}}, nil)
		case "CatalogCreateManyToMany":
			var itemErr error
			err := h.CatalogCreateManyToMany(e.ctx, []*hydraidego.CatalogManyToManyRequest{{SwampName: sw, Models: []any{model}}}, func(_ name.Name, _ string, err error) error { itemErr = err; return nil })
			if err == nil {
				err = itemErr
			}
			return err
		case "ProfileSave":
			return h.ProfileSave(e.ctx, sw, model)
		case "ProfileSaveBatch":
			var itemErr error
			err := h.ProfileSaveBatch(e.ctx, []name.Name{sw}, []any{model}, func(_ name.Name, err error) error { itemErr = err; return nil })
			if err == nil {
				err = itemErr
			}
			return err
		}
		return errors.New("unknown save api " + api)
	})
}

// read returns the pointers to every struct the api produced (one for single-record apis,
// every record of the swamp for the multi-record apis), the error and the panic text.
func (e *env) read(api string, sw name.Name, t reflect.Type, key string) (all []reflect.Value, err error, pan string) {
	h := e.s.H
	idx := &hydraidego.Index{IndexType: hydraidego.IndexKey, IndexOrder: hydraidego.IndexOrderAsc}
	collect := func(model any) error {
		all = append(all, reflect.ValueOf(model))
		return nil
	}
	err, pan = safely(func() error {
		switch api {
		case "CatalogRead":
			p := reflect.New(t)
			if err := h.CatalogRead(e.ctx, sw, key, p.Interface()); err != nil {
				return err
			}
			all = append(all, p)
			return nil
		case "CatalogReadMany":
			return h.CatalogReadMany(e.ctx, sw, idx, reflect.Zero(t).Interface(), collect)
		case "CatalogReadBatch":
			return h.CatalogReadBatch(e.ctx, sw, []string{key}, reflect.Zero(t).Interface(), collect)
		case "CatalogReadManyStream":
			return h.CatalogReadManyStream(e.ctx, sw, idx, nil, reflect.Zero(t).Interface(), collect)
		case "CatalogReadManyFromMany":
			return h.CatalogReadManyFromMany(e.ctx, []*hydraidego.CatalogReadManyFromManyRequest{{SwampName: sw, Index: idx}}, reflect.Zero(t).Interface(),
				func(_ name.Name, model any) error { return collect(model) })
		case "ProfileRead":
			p := reflect.New(t)
			if err := h.ProfileRead(e.ctx, sw, p.Interface()); err != nil {
				return err
			}
			all = append(all, p)
			return nil
		case "ProfileReadBatch":
			var itemErr error
			err := h.ProfileReadBatch(e.ctx, []name.Name{sw}, reflect.New(t).Interface(), func(_ name.Name, model any, err error) error {
				if err != nil {
					itemErr = err
					return nil
				}
				return collect(model)
			})
			if err == nil {
				err = itemErr
			}
			return err
		}
		return errors.New("unknown read api " + api)
	})
	return
}

// wholeSwampAPI: read apis that return every record of the swamp.
var wholeSwampAPI = map[string]bool{"CatalogReadMany": true, "CatalogReadManyStream": true, "CatalogReadManyFromMany": true}

// phaseRun is one instance of the model type taken through save + read. A case runs several
// of them on the SAME reflect type in one process (state the SDK keeps per model type must
// not matter): "primer" (every omitempty / deletable field empty, own key), "real" (the
// generated values), "again" (other values, the omitempty fields filled), and afterwards a
// re-read of each of them ("reread-*").
type phaseRun struct {
	phase         string
	saved, second reflect.Value
	sw            name.Name
	o             outcome
}

func splitmix(x uint64) uint64 {
	x += 0x9E3779B97F4A7C15
	x = (x ^ (x >> 30)) * 0xBF58476D1CE4E5B9
	x = (x ^ (x >> 27)) * 0x94D049BB133111EB
	return x ^ (x >> 31)
}

func (f *fieldSpec) skippable() bool {
	return f.Omit || (f.Role == "prof" && (strings.Contains(f.Tag, "omitempty") || strings.Contains(f.Tag, "deletable")))
}

// phasePicks derives the value picks of a phase from the case description.
func (m *modelSpec) phasePicks(phase string) []uint64 {
	picks := make([]uint64, len(m.Fields))
	for i, f := range m.Fields {
		picks[i] = f.Pick
		switch phase {
		case "primer":
			if f.skippable() {
				picks[i] = 0 // entry 0 of every value table is the empty value
			}
		case "again":
			if f.Pick == pickNow {
				continue
			}
			wantFull := f.skippable() || !isEmptyDoc(makeValue(f.Type, f.Pick))
			p := splitmix(f.Pick) >> 1
			for k := 0; k < 64 && wantFull && isEmptyDoc(makeValue(f.Type, p)); k++ {
				p = splitmix(p) >> 1
			}
			picks[i] = p
		}
	}
	return picks
}

func (m *modelSpec) keyIndex() int {
	for i, f := range m.Fields {
		if f.Role == "key" {
			return i
		}
	}
	return -1
}

// readPhase reads one saved instance back through the given apis.
func (e *env) readPhase(m *modelSpec, t reflect.Type, pr *phaseRun, apis []string, expectTotal int) {
	o := &pr.o
	o.reads, o.readErr, o.readPanic, o.readCount = map[string]reflect.Value{}, map[string]error{}, map[string]string{}, map[string]int{}
	o.readTotal, o.expectTotal = map[string]int{}, expectTotal
	ki := m.keyIndex()
	key := ""
	if ki >= 0 {
		key = pr.saved.Elem().Field(ki).String()
	}
	for _, api := range apis {
		all, err, pan := e.read(api, pr.sw, t, key)
		e.c.Count("reads", 1)
		e.c.Seen("read_apis", api)
		switch {
		case pan != "":
			o.readPanic[api] = pan
		case err != nil:
			o.readErr[api] = err
		default:
			o.readTotal[api] = len(all)
			for _, g := range all {
				if ki < 0 || g.Elem().Field(ki).String() == key {
					o.readCount[api]++
					o.reads[api] = g
				}
			}
		}
	}
}

// runVariant takes one variant (original or twin) of the model type through the phases.
// from (twin variant) supplies the exact instances of the original variant's phases.
func (e *env) runVariant(m *modelSpec, idx int, twin bool, from []phaseRun) (runs []phaseRun) {
	t := m.structType(twin)
	base := e.swamp(m, idx, twin)
	var swamps []name.Name
	defer func() {
		for _, sw := range swamps {
			_, _ = safely(func() error { return e.s.H.Destroy(e.ctx, sw) })
		}
	}()
	stored := 0 // records accepted so far in the shared catalog swamp
	for pi, phase := range []string{"primer", "real", "again"} {
		pr := phaseRun{phase: phase, sw: base}
		if m.Shape == "profile" { // a profile is one swamp per entity
			pr.sw = name.Load(base.Get() + phase)
		}
		if pi == 0 || m.Shape == "profile" {
			swamps = append(swamps, pr.sw)
		}
		var f1, f2 reflect.Value
		if from != nil {
			f1, f2 = from[pi].saved, from[pi].second
		}
		pr.saved = m.instance(t, m.phasePicks(phase), f1)
		if ki := m.keyIndex(); ki >= 0 && from == nil && phase != "real" {
			pr.saved.Elem().Field(ki).SetString(pr.saved.Elem().Field(ki).String() + "#" + phase)
		}
		pr.o.saveErr, pr.o.savePanic = e.save(m.Save, pr.sw, pr.saved)
		if pr.o.saveErr == nil && pr.o.savePanic == "" && m.Second != nil && phase == "real" {
			pr.second = m.instance(t, m.Second, f2)
			pr.o.saveErr, pr.o.savePanic = e.save(m.Save, pr.sw, pr.second)
		}
		e.c.Count("phases", 1)
		if pr.o.saveErr == nil && pr.o.savePanic == "" {
			stored++
			e.readPhase(m, t, &pr, m.Reads, stored)
		}
		runs = append(runs, pr)
	}
	// the earlier instances must still read back correctly after the later operations
	for _, pr := range runs[:3] {
		if pr.o.saveErr != nil || pr.o.savePanic != "" {
			continue
		}
		rr := phaseRun{phase: "reread-" + pr.phase, saved: pr.saved, second: pr.second, sw: pr.sw}
		e.readPhase(m, t, &rr, m.Reads[:1], stored)
		runs = append(runs, rr)
	}
	return
}

// hostileOthers lists the tag classes (other than plain / exact reserved) of all fields except skip.
func hostileOthers(m *modelSpec, skip int, twin bool) string {
	set := map[string]bool{}
	for i, f := range m.Fields {
		if i == skip || f.Role != "body" {
			continue
		}
		tag := f.Tag
		if twin && i == m.Twin {
			tag = m.TwinTag
		}
		if c := tagClass(tag); c != "plain" {
			set[c] = true
		}
	}
	if len(set) == 0 {
		return "none"
	}
	var l []string
	for c := range set {
		l = append(l, c)
	}
	sort.Strings(l)
	return strings.Join(l, ",")
}

func isTimeout(err error) bool {
	return err != nil && (hydraidego.IsCtxTimeout(err) || hydraidego.IsCtxClosedByClient(err) || errors.Is(err, context.DeadlineExceeded))
}

var panicNorm = strings.NewReplacer(" ", "_")

// shortPanic reduces a panic text to its kind: "reflect: call of reflect.Value.SetString on
// int8 Value" -> "reflect:_call_of_reflect.Value.SetString" (the operand kind varies with the
// generated field type, the defect does not).
func shortPanic(p string) string {
	if i := strings.Index(p, " on "); i > 0 {
		p = p[:i]
	}
	if len(p) > 90 {
		p = p[:90]
	}
	return panicNorm.Replace(p)
}

// errKind is the leading clause of an SDK error message, without operands.
func errKind(err error) string {
	m := hydraidego.GetErrorMessage(err)
	if m == "" {
		m = err.Error()
	}
	if i := strings.Index(m, ":"); i > 0 {
		m = m[:i]
	}
	if i := strings.Index(m, "\""); i > 0 { // quoted operand (a generated field name)
		m = strings.TrimSpace(m[:i])
	}
	if len(m) > 60 {
		m = m[:60]
	}
	return panicNorm.Replace(m)
}

type violation struct{ sig, what string }

// check compares one variant's outcome with the documented round-trip image of what was saved.
func (e *env) check(m *modelSpec, twin bool, pr *phaseRun) (vs []violation, accepted bool, inconclusive string) {
	o, saved, second := pr.o, pr.saved, pr.second
	variant := "orig"
	if twin {
		variant = "twin"
	}
	variant += ", phase " + pr.phase
	defer func() {
		// the phase is part of every signature: a defect that needs earlier operations on the
		// same model type shows up from "real" on, a stateless one already in "primer"
		for i := range vs {
			vs[i].sig += ":phase=" + pr.phase
		}
	}()
	apis := m.Reads
	if strings.HasPrefix(pr.phase, "reread-") {
		apis = m.Reads[:1]
	}
	ho := hostileOthers(m, -1, twin)
	if o.savePanic != "" {
		vs = append(vs, violation{fmt.Sprintf("save-panic:%s:hostile=%s:%s", m.Shape, ho, shortPanic(o.savePanic)),
			fmt.Sprintf("%s panicked inside the SDK (%s variant): %s", m.Save, variant, o.savePanic)})
		return
	}
	if o.saveErr != nil {
		if isTimeout(o.saveErr) {
			inconclusive = "save timed out (watchdog)"
		}
		return // the SDK rejected the model with an error: out of scope, not a violation
	}
	accepted = true
	key := ""
	for i, f := range m.Fields {
		if f.Role == "key" {
			key = saved.Elem().Field(i).String()
		}
	}
	for _, api := range apis {
		if p, ok := o.readPanic[api]; ok {
			vs = append(vs, violation{fmt.Sprintf("read-panic:%s:hostile=%s:%s", m.Shape, ho, shortPanic(p)),
				fmt.Sprintf("%s of a model that %s accepted panicked inside the SDK: %s", api, m.Save, p)})
			continue
		}
		if err, ok := o.readErr[api]; ok {
			if isTimeout(err) {
				inconclusive = "read timed out (watchdog)"
				continue
			}
			if m.Shape == "profile" && hydraidego.IsSwampNotFound(err) && allExpectedZero(m, saved, second) {
				continue // documented: nothing was stored, the swamp does not exist
			}
			vs = append(vs, violation{fmt.Sprintf("read-error:%s:hostile=%s:%s", m.Shape, ho, errKind(err)),
				fmt.Sprintf("%s of a model that %s accepted failed: %v", api, m.Save, err)})
			continue
		}
		if wholeSwampAPI[api] && o.readTotal[api] != o.expectTotal {
			rel := "fewer"
			if o.readTotal[api] > o.expectTotal {
				rel = "more"
			}
			vs = append(vs, violation{fmt.Sprintf("read-count:%s:%s:%s-records-than-saved", m.Shape, api, rel),
				fmt.Sprintf("%s returned %d records for a swamp holding %d saved records", api, o.readTotal[api], o.expectTotal)})
		}
		if n := o.readCount[api]; n != 1 {
			vs = append(vs, violation{fmt.Sprintf("read-count:%s:%s:key-seen=%d", m.Shape, api, min(n, 2)),
				fmt.Sprintf("%s returned %d records with the saved key", api, n)})
			if n == 0 {
				continue
			}
		}
		got := o.reads[api].Elem()
		for i, f := range m.Fields {
			exp := saved.Elem().Field(i)
			if second.IsValid() {
				exp = second.Elem().Field(i)
			}
			g := got.Field(i)
			mode := cmpExact
			if exp.Type() == typeTable["time"] && (f.Role == "value" || f.Role == "prof") {
				mode = cmpSeconds
			}
			omit := f.Omit || (f.Role == "prof" && strings.Contains(f.Tag, "omitempty"))
			deletable := f.Role == "prof" && strings.Contains(f.Tag, "deletable")
			zero := reflect.Zero(exp.Type())
			ok := false
			switch {
			case (omit || deletable) && isEmptyDoc(exp):
				switch f.Role {
				case "expireAt", "createdAt", "createdBy", "updatedAt", "updatedBy":
					ok = true // an absent metadata slot: whatever the server reports is accepted
				default:
					ok = same(zero, g, mode)
					if !ok && second.IsValid() && !deletable {
						// second profile save skipped this field: the first save's value may remain
						ok = same(saved.Elem().Field(i), g, mode)
					}
				}
			default:
				ok = same(exp, g, mode)
				if !ok && second.IsValid() && isEmptyDoc(exp) && hasNoTypedZero(exp) {
					// second profile save of a nil pointer / zero time / nil slice or map: such a
					// value has no wire representation, the documentation does not say whether it
					// clears the stored value; the first save's value may remain
					ok = same(saved.Elem().Field(i), g, mode)
				}
			}
			if ok {
				continue
			}
			how := "other"
			switch {
			case f.Role != "key" && g.Kind() == reflect.String && key != "" && g.String() == key:
				how = "became-record-key"
			case same(zero, g, cmpExact):
				how = "zeroed"
			case second.IsValid() && same(saved.Elem().Field(i), g, mode):
				how = "kept-previous-save"
			}
			cls := "zero"
			if !isEmptyDoc(exp) {
				cls = "nonzero"
			}
			if f.Type == "time" && !exp.Interface().(time.Time).IsZero() && exp.Interface().(time.Time).Unix() < 0 {
				cls = "preepoch"
			}
			tag := f.Tag
			if twin && i == m.Twin {
				tag = m.TwinTag
			}
			own := tagClass(tag)
			if f.Role == "prof" {
				own = "name." + tagClass(strings.ToLower(f.Name[:1])+f.Name[1:])
			}
			enc := "-" // the swamp's encoding only matters where the SDK applies it: `value` and profile fields
			if f.Role == "value" || f.Role == "prof" {
				enc = m.Enc
			}
			sig := fmt.Sprintf("field-changed:%s:%s:%s/%s/%s:%s:%s:others=%s", m.Shape, enc, f.Role, f.Type, own, cls, how, hostileOthers(m, i, twin))
			vs = append(vs, violation{sig, fmt.Sprintf("%s then %s (%s variant): field %s `hydraide:\"%s\"` (%s) saved %s, read %s",
				m.Save, api, variant, f.Name, m.fullTag(i, twin), f.Type, show(exp), show(g))})
		}
	}
	return
}

// hasNoTypedZero: kinds whose empty value the wire format cannot carry as a typed value.
func hasNoTypedZero(v reflect.Value) bool {
	switch v.Kind() {
	case reflect.Ptr, reflect.Slice, reflect.Map:
		return true
	}
	_, isTime := v.Interface().(time.Time)
	return isTime
}

func allExpectedZero(m *modelSpec, saved, second reflect.Value) bool {
	for i := range m.Fields {
		if !isEmptyDoc(saved.Elem().Field(i)) {
			return false
		}
		if second.IsValid() && !isEmptyDoc(second.Elem().Field(i)) {
			return false
		}
	}
	return true
}

// metamorphic: both variants were accepted and read; every field other than the renamed one
// must have come back identical in both.
func metamorphic(m *modelSpec, a, b outcome) (vs []violation) {
	for _, api := range m.Reads {
		ga, oka := a.reads[api]
		gb, okb := b.reads[api]
		if !oka || !okb {
			continue
		}
		for i, f := range m.Fields {
			if i == m.Twin {
				continue
			}
			if !same(ga.Elem().Field(i), gb.Elem().Field(i), cmpExact) {
				vs = append(vs, violation{
					fmt.Sprintf("metamorphic:mapbody:renamed=%s->%s:affected=%s/%s", tagClass(m.Fields[m.Twin].Tag), tagClass(m.TwinTag), f.Role, f.Type),
					fmt.Sprintf("renaming the tag of body field %s from %q to %q changed what %s returns for the untouched field %s `%s`: %s vs %s",
						m.Fields[m.Twin].Name, m.Fields[m.Twin].Tag, m.TwinTag, api, f.Name, m.fullTag(i, false), show(ga.Elem().Field(i)), show(gb.Elem().Field(i)))})
			}
		}
	}
	return
}

// runCase executes one model (and its twin) and reports into the accumulator.
func (e *env) runCase(m modelSpec, idx int) {
	c := e.c
	runs := e.runVariant(&m, idx, false, nil)
	var vs []violation
	inc := ""
	checkAll := func(rs []phaseRun, twin bool) (realAccepted bool) {
		for i := range rs {
			v, acc, in := e.check(&m, twin, &rs[i])
			vs = append(vs, v...)
			if inc == "" {
				inc = in
			}
			if rs[i].phase == "real" {
				realAccepted = acc
			}
		}
		return
	}
	accepted := checkAll(runs, false)
	o, saved := runs[1].o, runs[1].saved
	twinAccepted := false
	if m.Twin >= 0 && m.TwinTag != "" {
		truns := e.runVariant(&m, idx, true, runs)
		twinAccepted = checkAll(truns, true)
		if accepted && twinAccepted {
			vs = append(vs, metamorphic(&m, runs[1].o, truns[1].o)...)
			c.Count("metamorphic_pairs", 1)
		}
	}
	// measured coverage of the order-sensitive situation: an omitempty body field that is empty
	// in the primer and declared before a body field that is written
	if m.Shape == "mapbody" {
		emptyOmit := false
		for _, f := range m.Fields {
			if f.Role != "body" {
				continue
			}
			if f.Omit {
				emptyOmit = true
			} else if emptyOmit {
				c.Count("mapbody_empty_omitempty_before_written_field", 1)
				break
			}
		}
	}
	nonzero := false
	for i, f := range m.Fields {
		if f.Role != "key" && !isEmptyDoc(saved.Elem().Field(i)) {
			nonzero = true
		}
		if f.Role == "body" {
			c.Seen("tag_classes", tagClass(f.Tag))
		}
		c.Seen("field_types", f.Role+"/"+f.Type)
	}
	c.Case(rig.Dump(m), (accepted || twinAccepted) && nonzero)
	c.Sample(m)
	c.Seen("shapes", m.Shape+"/"+m.Enc)
	c.Seen("save_apis", m.Save)
	if accepted {
		c.Count("accepted", 1)
	} else {
		c.Count("rejected_by_sdk", 1)
		if o.saveErr != nil {
			c.Seen("reject_reasons", trimErr(o.saveErr))
		}
	}
	if inc != "" {
		c.Inconclusive(inc)
	}
	seen := map[string]bool{}
	for _, v := range vs {
		if seen[v.sig] {
			continue
		}
		seen[v.sig] = true
		c.Violate(v.sig, v.what, map[string]any{"model": m, "idx": idx})
	}
}

func trimErr(err error) string {
	s := err.Error()
	if len(s) > 70 {
		s = s[:70]
	}
	return s
}

func TestCheck(t *testing.T) {
	c := rig.NewCheck(t, "C22", "exploration")
	defer c.Finish()
	c.Rule = "one case = one generated model type (reflect.StructOf) with one value per field, taken through a sequence on that one type in one process: a primer instance (all omitempty fields empty, own key) saved+read, the real instance saved+read, a third instance (other values, omitempty fields filled) saved+read, then all three re-read; one SDK save API and 1-2 read APIs per case (map-body models with >=2 body fields are also run as a twin with one body tag renamed); non-trivial = the SDK accepted the model (save returned no error) and at least one non-key field held a non-empty value; distinct = distinct model JSON"
	c.Assumptions = []string{
		"documented as lossy and therefore normalised: time zone and monotonic clock part (instants are compared); a top-level time.Time value / profile field is stored as whole UNIX seconds; nil and empty slices/maps are not distinguished; an empty field tagged omitempty (or deletable in profiles) reads back as the zero value; an absent (omitempty, empty) metadata slot may read back as anything",
		"a model the SDK rejects with an error is out of scope (counted as rejected_by_sdk, never a violation)",
		"only documented model shapes: one `key`, at most one `value` XOR unique non-reserved body tags, at most one of each metadata tag, profile tags omitempty/deletable only; metadata instants are kept inside the int64-nanosecond range",
		"every instance is saved under a fresh key (profiles: a fresh swamp; optionally a second ProfileSave over the first; an empty omitempty field, and an empty pointer / time / slice / map field whose clearing the documentation does not specify, may keep the first save's value)",
		"a wall-clock watchdog (60 s per SDK call) only ever yields inconclusive",
	}
	c.MinNontrivial = 20
	n := c.N(300, 6000)

	s := newSDKRig("c22")
	defer s.stop()
	bg := context.Background()
	reg := func(realm string, inMem bool, enc hydraidego.EncodingFormat) {
		req := &hydraidego.RegisterSwampRequest{SwampPattern: name.New().Sanctuary("c22").Realm(realm).Swamp("*"), CloseAfterIdle: time.Hour, IsInMemorySwamp: inMem}
		if !inMem {
			req.FilesystemSettings = &hydraidego.SwampFilesystemSettings{WriteInterval: time.Second, EncodingFormat: enc}
		}
		if errs := s.H.RegisterSwamp(bg, req); errs != nil {
			t.Fatalf("register %s: %v", realm, errs)
		}
	}
	reg("gob", true, hydraidego.EncodingGOB)
	reg("gobp", true, hydraidego.EncodingGOB)
	reg("mp", false, hydraidego.EncodingMsgPack)
	reg("mpp", false, hydraidego.EncodingMsgPack)

	type job struct {
		m   modelSpec
		idx int
	}
	var jobs []job
	if p := c.ReplayPath(); p != "" {
		var w struct {
			Witness struct {
				Model modelSpec `json:"model"`
				Idx   int       `json:"idx"`
			} `json:"witness"`
		}
		rig.ReadJSON(p, &w)
		jobs = append(jobs, job{w.Witness.Model, w.Witness.Idx})
	} else {
		for i, m := range fixedCases() {
			jobs = append(jobs, job{m, 1000000 + i})
		}
		for i := 0; i < n; i++ {
			jobs = append(jobs, job{gen(c.Rand(i)), i})
		}
	}
	for _, j := range jobs {
		ctx, cancel := context.WithTimeout(bg, 60*time.Second)
		e := &env{c: c, s: s, ctx: ctx}
		e.runCase(j.m, j.idx)
		cancel()
	}
	for _, rec := range rig.InstallSentinel().Drain("panic") {
		c.Violate("server-panic:"+shortPanic(rec.Msg), "the gateway recovered a panic while serving SDK traffic: "+rec.Msg+" "+rec.Attrs, nil)
	}
}
