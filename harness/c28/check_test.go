// C28 — lock bookkeeping does not grow without bound.
//
// Monitor: inside a synctest bubble K distinct keys go through lock / unlock / TTL expiry /
// hand-over to a waiter / cancelled wait / stale unlock / unlock of a never-locked key / Lock with a
// dead context, in waves. At every quiescent check point the number of per-key entries the lock
// keeps (lock.VerifQueueCount, a verif-tagged accessor) is compared with the number of keys that
// are, by observation, currently held or waited on: a key counts iff one of its Lock calls has not
// returned yet, or returned an id that was neither unlocked nor older than its TTL. At the end of
// every wave and of the case that number is 0. The raw lock and the lock behind the gateway's
// Lock/Unlock handlers are both driven. Hook-free corroboration (reported only): live heap after
// runtime.GC() once K, 2K, 4K distinct keys have been locked and unlocked.
package c28

import (
	"context"
	"fmt"
	"runtime"
	"strings"
	"sync"
	"testing"
	"testing/synctest"
	"time"

	"github.com/hydraide/hydraide/app/core/hydra/lock"
	hydrapb "github.com/hydraide/hydraide/sdk/go/hydraidego/v3/hydraidepbgo"

	"verifharness/rig"
)

type kase struct {
	Target string `json:"target"` // raw | gateway
	K      int    `json:"k"`      // distinct keys in total
	Wave   int    `json:"wave"`   // keys per wave
	Idx    int    `json:"idx"`    // PRNG stream
}

// what happens to one key during its wave
const (
	pLockUnlock       = iota // A locks, A unlocks
	pLockExpire              // A locks, never unlocks: TTL frees
	pHandoverUnlock          // A locks, B waits, A unlocks, B unlocks
	pHandoverTTL             // A locks, B waits, A's TTL expires, B unlocks
	pCancelledWait           // A locks, B waits, B's context is cancelled, A unlocks (then B, if the wait was not cancellable)
	pChainExpire             // A locks, B waits, nobody unlocks: both TTLs expire one after the other
	pStaleUnlock             // A locks, A unlocks, A unlocks again (must fail)
	pUnknownKeyUnlock        // nobody locks; Unlock with some id
	pDeadCtxLock             // Lock with an already-cancelled context on a fresh key; unlocked if it was granted
	nPatterns
)

const (
	shortTTL = 5000    // ms
	longTTL  = 3600000 // ms; locks with it are always unlocked explicitly
)

type locker interface {
	Lock(ctx context.Context, key string, ttlMs int64) (string, error)
	Unlock(key, id string) error
	Count() int
}

type rawLocker struct{ l lock.Lock }

func (r rawLocker) Lock(ctx context.Context, key string, ttlMs int64) (string, error) {
	return r.l.Lock(ctx, key, time.Duration(ttlMs)*time.Millisecond)
}
func (r rawLocker) Unlock(key, id string) error { return r.l.Unlock(key, id) }
func (r rawLocker) Count() int                  { return lock.VerifQueueCount(r.l) }

type gwLocker struct{ r *rig.Rig }

func (g gwLocker) Lock(ctx context.Context, key string, ttlMs int64) (string, error) {
	resp, err := g.r.GW.Lock(ctx, &hydrapb.LockRequest{Key: key, TTL: ttlMs})
	if err != nil {
		return "", err
	}
	if resp == nil {
		return "", fmt.Errorf("nil response and nil error")
	}
	return resp.GetLockID(), nil
}
func (g gwLocker) Unlock(key, id string) error {
	_, err := g.r.GW.Unlock(context.Background(), &hydrapb.UnlockRequest{Key: key, LockID: id})
	return err
}
func (g gwLocker) Count() int { return lock.VerifQueueCount(g.r.Zeus.GetHydra().GetLocker()) }

// call is one Lock call and what was observed of it.
type call struct {
	key      string
	ttl      int64
	mu       sync.Mutex
	returned bool
	ok       bool
	at       int64
	id       string
	unlocked bool
	cancel   context.CancelFunc
}

type keyState struct {
	pattern int
	a, b    *call
}

type result struct {
	viol   map[string]string // sig -> what
	incon  string
	causes map[string]int
	keys   int
	checks int
}

func runCase(t *testing.T, c *rig.Check, ks kase) (res result) {
	res.viol = map[string]string{}
	res.causes = map[string]int{}
	var root string
	if ks.Target == "gateway" {
		root = rig.TempRoot("c28")
		defer rig.RemoveAll(root)
	}
	synctest.Test(t, func(t *testing.T) {
		var L locker
		var rg *rig.Rig
		if ks.Target == "gateway" {
			rg = rig.New(rig.Options{Root: root})
			L = gwLocker{rg}
		} else {
			L = rawLocker{lock.New()}
		}
		synctest.Wait()
		start := time.Now()
		now := func() int64 { return int64(time.Since(start) / time.Millisecond) }
		if n := L.Count(); n != 0 {
			res.incon = fmt.Sprintf("VerifQueueCount=%d on a fresh lock (accessor not usable)", n)
			return
		}
		r := c.Rand(ks.Idx)
		var all []*call // calls of the current wave
		doLock := func(key string, ttl int64, dead bool) *call {
			cl := &call{key: key, ttl: ttl}
			ctx, cancel := context.WithCancel(context.Background())
			cl.cancel = cancel
			if dead {
				cancel()
			}
			all = append(all, cl)
			go func() {
				id, err := L.Lock(ctx, key, ttl)
				cl.mu.Lock()
				cl.returned, cl.ok, cl.id, cl.at = true, err == nil, id, now()
				cl.mu.Unlock()
			}()
			return cl
		}
		holding := func(cl *call) bool { // by observation: blocked, or granted and neither unlocked nor expired
			cl.mu.Lock()
			defer cl.mu.Unlock()
			if !cl.returned {
				return true
			}
			return cl.ok && !cl.unlocked && now() < cl.at+cl.ttl
		}
		doUnlock := func(cl *call) error {
			cl.mu.Lock()
			id, ok := cl.id, cl.returned && cl.ok
			cl.mu.Unlock()
			if !ok {
				return fmt.Errorf("not granted")
			}
			err := L.Unlock(cl.key, id)
			if err == nil {
				cl.mu.Lock()
				cl.unlocked = true
				cl.mu.Unlock()
			}
			return err
		}
		mismatch := 0 // VerifQueueCount - expected at the previous check point
		check := func(cause string) {
			synctest.Wait()
			live := map[string]bool{}
			for _, cl := range all {
				if holding(cl) {
					live[cl.key] = true
				}
			}
			got := L.Count()
			res.checks++
			res.causes[cause]++
			d := got - len(live)
			switch {
			case d > mismatch:
				res.viol["lock-state-retained:"+ks.Target+":after-"+cause] = fmt.Sprintf("after %s: the lock keeps %d per-key entries but only %d keys are held or waited on (excess was %d at the previous check point)", cause, got, len(live), mismatch)
			case d < mismatch:
				res.viol["lock-state-missing:"+ks.Target+":after-"+cause] = fmt.Sprintf("after %s: the lock keeps %d per-key entries but %d keys are held or waited on (difference was %d at the previous check point)", cause, got, len(live), mismatch)
			}
			mismatch = d
		}
		sleepTo := func(at int64) {
			if d := at - now(); d > 0 {
				time.Sleep(time.Duration(d) * time.Millisecond)
			}
		}
		sane := func(cond bool, what string) {
			if !cond && res.incon == "" {
				res.incon = "lock misbehaved (C14's business), bookkeeping not judged: " + what
			}
		}
		done := 0
		for wave := 0; done < ks.K && res.incon == ""; wave++ {
			n := min(ks.Wave, ks.K-done)
			t0 := now()
			all = all[:0]
			keys := make([]*keyState, n)
			byP := make([][]*keyState, nPatterns)
			name := func(i int) string { return fmt.Sprintf("c28/%d/w%d/key-%d", ks.Idx, wave, i) }
			for i := range keys {
				k := &keyState{pattern: r.IntN(nPatterns)}
				if i < nPatterns {
					k.pattern = i // every pattern at least once per wave
				}
				keys[i] = k
				byP[k.pattern] = append(byP[k.pattern], k)
				ttl := int64(longTTL)
				switch k.pattern {
				case pLockExpire, pHandoverTTL, pChainExpire:
					ttl = shortTTL
				case pUnknownKeyUnlock, pDeadCtxLock:
					continue
				}
				k.a = doLock(name(i), ttl, false)
			}
			check("first-lock")
			for i, k := range keys {
				if k.a != nil {
					k.a.mu.Lock()
					ok := k.a.returned && k.a.ok
					k.a.mu.Unlock()
					sane(ok, "Lock on a fresh key did not return an id")
				}
				switch k.pattern {
				case pHandoverUnlock, pHandoverTTL, pCancelledWait:
					k.b = doLock(name(i), longTTL, false)
				case pChainExpire:
					k.b = doLock(name(i), shortTTL, false)
				}
			}
			sleepTo(t0 + 1000)
			check("waiters-queued")
			for _, k := range byP[pCancelledWait] {
				k.b.cancel()
			}
			sleepTo(t0 + 2000)
			check("cancelled-wait")
			unlockA := func(p int, cause string) {
				for _, k := range byP[p] {
					sane(doUnlock(k.a) == nil, "holder's Unlock failed before its TTL")
				}
				check(cause)
			}
			unlockA(pLockUnlock, "unlock")
			unlockA(pStaleUnlock, "unlock")
			for _, k := range byP[pStaleUnlock] {
				sane(L.Unlock(k.a.key, k.a.id) != nil, "second Unlock with the same id succeeded")
			}
			check("stale-unlock")
			unlockA(pCancelledWait, "unlock-with-cancelled-waiter-behind")
			unlockA(pHandoverUnlock, "unlock-handing-over-to-waiter")
			for i, k := range keys {
				if k.pattern == pUnknownKeyUnlock {
					sane(L.Unlock(name(i), "00000000-0000-4000-8000-000000000000") != nil, "Unlock on a never-locked key succeeded")
				}
			}
			check("unlock-of-never-locked-key")
			for i, k := range keys {
				if k.pattern == pDeadCtxLock {
					k.a = doLock(name(i), longTTL, true)
				}
			}
			synctest.Wait()
			for _, k := range byP[pDeadCtxLock] {
				k.a.mu.Lock()
				ret, ok := k.a.returned, k.a.ok
				k.a.mu.Unlock()
				sane(ret, "Lock with a dead context on a fresh key blocked")
				if ok {
					sane(doUnlock(k.a) == nil, "holder's Unlock failed before its TTL")
				}
			}
			check("lock-with-dead-context")
			sleepTo(t0 + shortTTL + 1000) // first-lock short TTLs ran out at t0+5000
			check("ttl-expiry")
			for _, p := range []int{pHandoverUnlock, pHandoverTTL, pCancelledWait} {
				for _, k := range byP[p] {
					k.b.mu.Lock()
					ret, ok := k.b.returned, k.b.ok
					k.b.mu.Unlock()
					sane(ret, "waiter still blocked after the holder left")
					if ok { // (a cancelled waiter returned an error; behind the gateway it is not cancellable and now holds)
						sane(doUnlock(k.b) == nil, "holder's Unlock failed before its TTL")
					}
				}
			}
			check("unlock-by-handed-over-waiter")
			sleepTo(t0 + 2*shortTTL + 1000) // chain: B was granted at t0+5000 with 5000 ms
			check("ttl-expiry-after-handover")
			for _, cl := range all {
				sane(!holding(cl), "a caller still blocked or holding at the end of the wave")
				cl.cancel()
			}
			done += n
			res.keys += n
		}
		if res.incon == "" {
			synctest.Wait()
			if got := L.Count(); got != 0 {
				res.viol["lock-state-retained:"+ks.Target+":final"] = fmt.Sprintf("%d per-key entries kept after every lock on %d distinct keys was released or expired (must be 0)", got, res.keys)
			}
		}
		for _, cl := range all {
			cl.cancel()
		}
		// Time stops when the bubble's root returns: if the lock misbehaved, holders that were not
		// unlocked still have TTL watchdogs parked on their timers; let those run out first.
		for k := 0; k < 4; k++ {
			synctest.Wait()
			if lockGoroutines() == 0 {
				break
			}
			time.Sleep((longTTL + shortTTL) * time.Millisecond)
		}
		if rg != nil {
			rg.Stop()
			time.Sleep(2 * time.Minute)
		}
	})
	return
}

// lockGoroutines counts the goroutines that have a frame inside the lock package.
func lockGoroutines() int {
	buf := make([]byte, 1<<20)
	for {
		n := runtime.Stack(buf, true)
		if n < len(buf) {
			buf = buf[:n]
			break
		}
		buf = make([]byte, 2*len(buf))
	}
	return strings.Count(string(buf), "app/core/hydra/lock.(*lock)")
}

// heapAfter locks and unlocks n distinct keys on a fresh lock and returns the live heap growth.
func heapAfter(t *testing.T, n int) (grown int64) {
	synctest.Test(t, func(t *testing.T) {
		var m0, m1 runtime.MemStats
		l := lock.New()
		runtime.GC()
		runtime.ReadMemStats(&m0)
		for i := 0; i < n; i++ {
			key := fmt.Sprintf("c28/heap/key-%d", i)
			id, err := l.Lock(context.Background(), key, time.Hour)
			if err == nil {
				_ = l.Unlock(key, id)
			}
		}
		synctest.Wait()
		runtime.GC()
		runtime.GC()
		runtime.ReadMemStats(&m1)
		grown = int64(m1.HeapAlloc) - int64(m0.HeapAlloc)
		runtime.KeepAlive(l)
	})
	return
}

func TestCheck(t *testing.T) {
	c := rig.NewCheck(t, "C28", "exploration")
	defer c.Finish()
	if c.IsChild() {
		var ks kase
		c.ChildSpec(&ks)
		res := runCase(t, c, ks)
		c.Case(rig.Dump(ks), ks.K >= 2*nPatterns && len(res.causes) >= 8 && res.incon == "")
		c.Sample(ks)
		c.Count("distinct_keys", int64(res.keys))
		c.Count("check_points", int64(res.checks))
		for cause, n := range res.causes {
			c.Seen("causes", cause)
			c.Count("checks_after_"+cause, int64(n))
		}
		if res.incon != "" {
			c.Inconclusive(res.incon)
		}
		for sig, what := range res.viol {
			c.Violate(sig, what, map[string]any{"case": ks})
		}
		return
	}
	c.Rule = "a case = (target raw|gateway, K distinct keys, wave size, PRNG stream); each key runs one of 9 lock/unlock/TTL/hand-over/cancel/stale patterns, every pattern at least once per wave; after each group of releases the entry count is compared with the number of keys held or waited on; non-trivial = K >= 18, all check-point kinds reached, lock behaved; distinct = distinct case JSON"
	c.Assumptions = []string{
		"'keeps no per-key lock state' is measured as the number of entries of the lock's per-key queue map (VerifQueueCount); the heap measurement is reported as corroboration only",
		"a key is 'held or waited on' iff one of its Lock calls has not returned, or returned an id that was neither unlocked nor older than its TTL (TTL counted from the grant)",
		"check points never coincide with a TTL expiry instant",
	}
	var cases []kase
	if p := c.ReplayPath(); p != "" {
		var w struct {
			Witness struct {
				Case kase `json:"case"`
			} `json:"witness"`
		}
		rig.ReadJSON(p, &w)
		cases = append(cases, w.Witness.Case)
	} else if c.Quick() {
		cases = []kase{{"raw", 1000, 1000, 0}, {"raw", 1000, 250, 1}, {"gateway", 300, 300, 2}, {"gateway", 300, 100, 3}}
		for i := 0; i < 8; i++ {
			r := c.Rand(1000 + i)
			cases = append(cases, kase{"raw", 18 + r.IntN(300), 18 + r.IntN(100), 4 + i})
		}
	} else {
		cases = []kase{{"raw", 1000000, 20000, 0}, {"raw", 100000, 50000, 1}, {"raw", 1000, 1000, 2}, {"gateway", 20000, 5000, 3}, {"gateway", 300, 100, 4}}
		for i := 0; i < 60; i++ {
			r := c.Rand(1000 + i)
			tg := "raw"
			if i%4 == 3 {
				tg = "gateway"
			}
			cases = append(cases, kase{tg, 18 + r.IntN(3000), 18 + r.IntN(1000), 5 + i})
		}
	}
	var specs []any
	for _, ks := range cases {
		specs = append(specs, ks)
	}
	for _, r := range c.Fanout(specs, rig.FanoutOpts{Par: 8, Timeout: 15 * time.Minute}) {
		switch {
		case r.TimedOut:
			c.Inconclusive(fmt.Sprintf("child timed out (watchdog), log %s", r.LogPath))
		case len(r.Fatal) > 0:
			c.Inconclusive(fmt.Sprintf("child died: %v, log %s", r.Fatal, r.LogPath))
		case r.NoPartial || r.ExitErr != nil:
			c.Inconclusive(fmt.Sprintf("child ended without a verdict: %v, log %s", r.ExitErr, r.LogPath))
		}
	}
	// hook-free corroboration, not a decider
	if c.ReplayPath() == "" {
		k := c.N(20000, 100000)
		heap := map[string]int64{}
		var b [3]int64
		for i, n := range []int{k, 2 * k, 4 * k} {
			b[i] = heapAfter(t, n)
			heap[fmt.Sprintf("%d_keys", n)] = b[i]
		}
		c.Extra("heap_live_bytes_after_all_released", heap)
		slope := float64(b[2]-b[0]) / float64(3*k)
		c.Extra("heap_slope_bytes_per_released_key", slope)
		c.Extra("heap_grows_with_distinct_keys_ever_locked", slope > 32)
	}
	c.MinNontrivial = c.N(8, 40)
}
