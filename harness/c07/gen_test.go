package c07

import (
	"math"
	"math/rand/v2"
	"strconv"
	"time"
)

// baseNS is the instant at which a synctest bubble's clock starts (2000-01-01 UTC).
var baseNS = time.Date(2000, 1, 1, 0, 0, 0, 0, time.UTC).UnixNano()

// step is one action of a history. Everything is materialised (no PRNG at run time).
type step struct {
	Op  string `json:"op"` // set inc patch del sleep evict read | claim RPCs: pexp shexp shmatch shkeys
	Key string `json:"key,omitempty"`

	// set
	Kind string `json:"kind,omitempty"`
	Val  string `json:"val,omitempty"`
	CT   int64  `json:"ct,omitempty"` // unix nanos; 0 = field not sent
	UT   int64  `json:"ut,omitempty"`
	ET   int64  `json:"et,omitempty"`

	// inc: Val = delta; patch/inc metadata
	StampCreated bool `json:"stampCreated,omitempty"` // server stamps CreatedAt (on create)
	StampUpdated bool `json:"stampUpdated,omitempty"` // server stamps UpdatedAt = now
	ClearET      bool `json:"clearET,omitempty"`      // patch only

	SleepMS int64 `json:"sleepMs,omitempty"`

	Read *readReq `json:"read,omitempty"`

	// claim RPCs. pexp = PatchExpiredTreasures: Val "" = no Ops, else SET n := Val; Meta = a PatchMeta
	// message is sent (StampUpdated / ET / ClearET as for patch); Cond = PatchCondition n < Cond.
	// shexp = ShiftExpiredTreasures. shmatch = ShiftMatchingTreasures over Index/Desc/FromTime/ToTime.
	// shkeys = ShiftByKeys(Keys).
	HowMany  int32    `json:"howMany,omitempty"`
	Meta     bool     `json:"meta,omitempty"`
	Cond     string   `json:"cond,omitempty"`
	Index    string   `json:"index,omitempty"`
	Desc     bool     `json:"desc,omitempty"`
	FromTime *int64   `json:"fromTime,omitempty"`
	ToTime   *int64   `json:"toTime,omitempty"`
	Keys     []string `json:"keys,omitempty"`
}

func isClaimOp(op string) bool {
	return op == "pexp" || op == "shexp" || op == "shmatch" || op == "shkeys"
}

// hcase is one history.
type hcase struct {
	Kind   string `json:"kind"` // value kind of the swamp, or "mixed"
	InMem  bool   `json:"inMem,omitempty"`
	Forced bool   `json:"forced,omitempty"` // a save arrives inside the cold build (hook swamp.buildBeacon.afterInit)
	Claims bool   `json:"claims,omitempty"` // the history uses the claim RPCs (PatchExpired / Shift*)
	Steps  []step `json:"steps"`
}

var allKinds = []string{"int8", "int16", "int32", "int64", "uint8", "uint16", "uint32", "uint64", "float32", "float64", "string", "bytes"}

var keyPool = []string{"a", "b", "ab", "ba", "aa", "c", "abc", "z", "m", "mm", "q", "zz", "y", "x", "k", "ka", "d", "dd"}

func fmtF(f float64, bits int) string { return strconv.FormatFloat(f, 'g', -1, bits) }

// valuePool returns candidate values of a kind, chosen so that ties, extremes and
// "sorts differently when reinterpreted" values occur.
func valuePool(kind string) []string {
	switch kind {
	case "int8":
		return []string{"-128", "-1", "0", "1", "2", "5", "5", "100", "127"}
	case "int16":
		return []string{"-32768", "-300", "-1", "0", "1", "7", "7", "300", "32767"}
	case "int32":
		return []string{"-2147483648", "-70000", "-1", "0", "1", "9", "9", "70000", "2147483647"}
	case "int64":
		return []string{"-9223372036854775808", "-5000000000", "-1", "0", "1", "3", "3", "5000000000", "9223372036854775807"}
	case "uint8":
		return []string{"0", "1", "2", "9", "9", "128", "200", "255"}
	case "uint16":
		return []string{"0", "1", "2", "9", "9", "32768", "40000", "65535"}
	case "uint32":
		return []string{"0", "1", "2", "9", "9", "2147483648", "3000000000", "4294967295"}
	case "uint64":
		return []string{"0", "1", "2", "9", "9", "9223372036854775808", "12000000000000000000", "18446744073709551615"}
	case "float32":
		return []string{"-Inf", "-3.5e+30", "-1.5", "-0", "0", "1e-30", "0.5", "0.5", "1.25", "2.5", "7", "3.5e+30", "+Inf"}
	case "float64":
		return []string{"-Inf", "-1e+300", "-1.5", "-0", "0", "1e-300", "0.5", "0.5", "1.25", "2.5", "7", "1e+300", "+Inf"}
	case "string":
		return []string{"", "a", "aa", "ab", "b", "b", "ba", "m", "z", "zz"}
	case "bytes":
		return []string{"0", "1", "2", "3", "4", "5"}
	}
	return nil
}

func incPool(kind string) []string {
	switch kind {
	case "int8", "int16", "int32", "int64":
		return []string{"1", "-1", "3", "-3", "20", "-20", "100"}
	case "uint8", "uint16", "uint32", "uint64":
		return []string{"1", "2", "3", "20", "100"}
	case "float32", "float64":
		return []string{"0.5", "-0.5", "1", "-2.25", "10", "-10"}
	}
	return nil
}

// timePool: offsets from baseNS. Includes exact ties and 1 ns neighbours.
var timePool = []int64{
	int64(30 * time.Minute), int64(time.Hour), int64(time.Hour), int64(time.Hour) + 1, int64(time.Hour) - 1,
	int64(2 * time.Hour), int64(2*time.Hour) + 500, int64(3 * time.Hour), int64(90 * time.Minute),
	int64(5 * time.Second), int64(5*time.Second) + 1, int64(12 * time.Hour), int64(24 * time.Hour),
	int64(-time.Hour), int64(-24 * time.Hour), // already in the past for the bubble clock
}

// pastPool: expiry offsets that lie before the bubble clock (which only moves forward from
// baseNS), so that the claim RPCs (selection criterion ExpiredAt < now) select something. Ties
// and 1 ns neighbours included; the last two become "expired" after the first sleeps.
var pastPool = []int64{
	int64(-time.Hour), int64(-time.Hour), int64(-time.Hour) + 1, int64(-2 * time.Hour), int64(-30 * time.Minute),
	int64(-24 * time.Hour), int64(-3 * time.Hour), int64(-time.Second), int64(-1), int64(time.Millisecond), int64(2 * time.Second),
}

type gen struct {
	r      *rand.Rand
	kind   string
	keys   []string // key universe of the history
	live   map[string]bool
	now    int64 // predicted virtual clock offset from baseNS
	stamp  []int64
	claims bool // the history uses the claim RPCs: expiry times are biased into the past
}

func pick[T any](r *rand.Rand, l []T) T { return l[r.IntN(len(l))] }

func (g *gen) ts() int64 {
	if len(g.stamp) > 0 && g.r.IntN(6) == 0 {
		return baseNS + pick(g.r, g.stamp)
	}
	return baseNS + pick(g.r, timePool)
}

// ets is an expiry time: in claim histories half of them lie before virtual now.
func (g *gen) ets() int64 {
	if g.claims && g.r.IntN(2) == 0 {
		return baseNS + pick(g.r, pastPool)
	}
	return g.ts()
}

func (g *gen) recKind() string {
	if g.kind == "mixed" {
		return pick(g.r, allKinds)
	}
	return g.kind
}

func (g *gen) setStep(key string) step {
	k := g.recKind()
	s := step{Op: "set", Key: key, Kind: k, Val: pick(g.r, valuePool(k))}
	if (k == "float32" || k == "float64") && g.r.IntN(40) == 0 {
		s.Val = "NaN"
	}
	if g.r.IntN(10) < 7 {
		s.CT = g.ts()
	}
	if g.r.IntN(10) < 7 {
		s.UT = g.ts()
	}
	if g.r.IntN(10) < 6 || (g.claims && g.r.IntN(2) == 0) {
		s.ET = g.ets()
	}
	g.live[key] = true
	return s
}

func (g *gen) liveKeys() []string {
	var out []string
	for _, k := range g.keys {
		if g.live[k] {
			out = append(out, k)
		}
	}
	return out
}

func (g *gen) deadKeys() []string {
	var out []string
	for _, k := range g.keys {
		if !g.live[k] {
			out = append(out, k)
		}
	}
	return out
}

func (g *gen) sleepStep() step {
	ms := pick(g.r, []int64{1, 1, 10, 250, 1000, 1500})
	g.now += ms * int64(time.Millisecond)
	return step{Op: "sleep", SleepMS: ms}
}

// moveStep changes the sort attribute(s) of an existing record.
func (g *gen) moveStep() (step, bool) {
	lk := g.liveKeys()
	if len(lk) == 0 {
		return step{}, false
	}
	key := pick(g.r, lk)
	switch x := g.r.IntN(10); {
	case x < 4: // overwrite with another value and/or other metadata
		return g.setStep(key), true
	case x < 8:
		if g.kind == "bytes" {
			s := step{Op: "patch", Key: key, Val: pick(g.r, valuePool("bytes"))}
			switch g.r.IntN(4) {
			case 0:
				s.StampUpdated = true
			case 1:
				s.ET = g.ets()
			case 2:
				s.ClearET = true
			default:
				s.StampUpdated = true
				s.ET = g.ets()
			}
			if s.StampUpdated {
				g.stamp = append(g.stamp, g.now)
			}
			return s, true
		}
		if p := incPool(g.kind); p != nil {
			s := step{Op: "inc", Key: key, Kind: g.kind, Val: pick(g.r, p)}
			switch g.r.IntN(4) {
			case 0:
				s.StampUpdated = true
				g.stamp = append(g.stamp, g.now)
			case 1:
				s.ET = g.ets()
			}
			return s, true
		}
		return g.setStep(key), true
	default:
		return g.setStep(key), true
	}
}

func (g *gen) insertStep() (step, bool) {
	dk := g.deadKeys()
	if len(dk) == 0 {
		return step{}, false
	}
	key := pick(g.r, dk)
	// mostly Set; sometimes an increment / patch that creates the record with server-stamped times
	if g.r.IntN(6) == 0 {
		if g.kind == "bytes" {
			g.live[key] = true
			g.stamp = append(g.stamp, g.now)
			return step{Op: "patch", Key: key, Val: pick(g.r, valuePool("bytes")), StampCreated: true, StampUpdated: g.r.IntN(2) == 0}, true
		}
		if p := incPool(g.kind); p != nil {
			g.live[key] = true
			g.stamp = append(g.stamp, g.now)
			return step{Op: "inc", Key: key, Kind: g.kind, Val: pick(g.r, p), StampCreated: true, StampUpdated: g.r.IntN(2) == 0}, true
		}
	}
	return g.setStep(key), true
}

func (g *gen) deleteStep() (step, bool) {
	lk := g.liveKeys()
	if len(lk) == 0 {
		return step{}, false
	}
	key := pick(g.r, lk)
	delete(g.live, key)
	return step{Op: "del", Key: key}, true
}

func (g *gen) indexFor(mismatch bool) string {
	if g.claims && g.r.IntN(5) == 0 {
		return idxET // the index the claim RPCs select from and put back into
	}
	vi := valueIndexOfKind[g.kind]
	x := g.r.IntN(100)
	switch {
	case mismatch && x < 12:
		k := pick(g.r, allKinds[:11])
		return valueIndexOfKind[k]
	case x < 40 && vi != "":
		return vi
	case x < 40 && g.kind == "mixed":
		return valueIndexOfKind[pick(g.r, allKinds[:11])]
	case x < 55:
		return idxKey
	case x < 70:
		return idxCT
	case x < 85:
		return idxUT
	default:
		return idxET
	}
}

func (g *gen) bound() *int64 {
	var v int64
	switch g.r.IntN(8) {
	case 0:
		v = baseNS + pick(g.r, timePool) + 1
	case 1:
		v = baseNS + pick(g.r, timePool) - 1
	case 2:
		if len(g.stamp) > 0 {
			v = baseNS + pick(g.r, g.stamp)
		} else {
			v = baseNS + pick(g.r, timePool)
		}
	case 3:
		v = baseNS + int64(g.r.Int64N(int64(4*time.Hour)))
	default:
		v = baseNS + pick(g.r, timePool) // equal to a record's timestamp with high probability
		if g.claims && g.r.IntN(3) == 0 {
			v = baseNS + pick(g.r, pastPool)
		}
	}
	return &v
}

// claimStep is one call of a claim RPC. HowMany stays small so that records remain.
func (g *gen) claimStep() step {
	switch x := g.r.IntN(10); {
	case x < 5:
		s := step{Op: "pexp", HowMany: pick(g.r, []int32{1, 1, 2, 2, 3, 0})}
		if g.r.IntN(4) != 0 {
			s.Val = pick(g.r, valuePool("bytes"))
		}
		switch g.r.IntN(7) {
		case 0, 1: // ops only
		case 2: // Meta that does not touch ExpiredAt
			s.Meta = true
			s.StampUpdated = g.r.IntN(2) == 0
		case 3: // the lease pattern: slide ExpiredAt into the future
			s.Meta = true
			s.ET = g.ts()
		case 4: // ExpiredAt moves but stays expired (or lands on another record's)
			s.Meta = true
			s.ET = baseNS + pick(g.r, pastPool)
			s.StampUpdated = g.r.IntN(3) == 0
		case 5:
			s.Meta = true
			s.ClearET = true
		default:
			s.Meta = true
			s.StampUpdated = true
			s.ET = g.ets()
		}
		if s.Val == "" && !s.Meta { // "Empty Ops is allowed only when Meta is non-nil"
			s.Meta = true
		}
		if s.StampUpdated {
			g.stamp = append(g.stamp, g.now)
		}
		if g.r.IntN(6) == 0 {
			s.Cond = pick(g.r, valuePool("bytes"))
		}
		return s
	case x < 7:
		return step{Op: "shexp", HowMany: 1 + g.r.Int32N(2)}
	case x < 9:
		s := step{Op: "shmatch", Index: g.indexFor(false), Desc: g.r.IntN(2) == 0, HowMany: 1 + g.r.Int32N(2)}
		if isTimeIndex(s.Index) && g.r.IntN(3) == 0 {
			a, b := g.bound(), g.bound()
			if *a > *b {
				a, b = b, a
			}
			switch g.r.IntN(3) {
			case 0:
				s.FromTime = a
			case 1:
				s.ToTime = b
			default:
				s.FromTime, s.ToTime = a, b
			}
		}
		return s
	default:
		s := step{Op: "shkeys"}
		lk := g.liveKeys()
		nk := 1 + g.r.IntN(2)
		for i := 0; i < nk && len(lk) > 0; i++ {
			k := pick(g.r, lk)
			s.Keys = append(s.Keys, k)
			delete(g.live, k)
			lk = g.liveKeys()
		}
		if len(s.Keys) == 0 || g.r.IntN(4) == 0 {
			s.Keys = append(s.Keys, "nosuchkey")
		}
		return s
	}
}

func (g *gen) subset() []string {
	var out []string
	for _, k := range g.keys {
		if g.r.IntN(3) == 0 {
			out = append(out, k)
		}
	}
	if g.r.IntN(3) == 0 {
		out = append(out, "nosuchkey")
	}
	if len(out) == 0 {
		out = append(out, pick(g.r, g.keys))
	}
	return out
}

func (g *gen) readStep(mismatch bool) step {
	q := &readReq{Index: g.indexFor(mismatch), Desc: g.r.IntN(2) == 0, Stream: g.r.IntN(2) == 0}
	n := int32(len(g.liveKeys()))
	switch x := g.r.IntN(10); {
	case x < 4:
	case x < 8:
		q.From = 1 + g.r.Int32N(3)
	case x < 9:
		q.From = n
	default:
		q.From = n + 1 + g.r.Int32N(3)
	}
	switch x := g.r.IntN(20); {
	case x < 7:
	case x < 10:
		q.Limit = 1
	case x < 15:
		q.Limit = 2 + g.r.Int32N(3)
	case x < 17:
		q.Limit = n
	default:
		q.Limit = n + 1 + g.r.Int32N(5)
	}
	// time windows: on time indexes half of the reads; rarely on key/value indexes (unspecified)
	wantWindow := false
	if isTimeIndex(q.Index) {
		wantWindow = g.r.IntN(2) == 0
	} else {
		wantWindow = g.r.IntN(25) == 0
	}
	if wantWindow {
		switch g.r.IntN(10) {
		case 0, 1:
			q.FromTime = g.bound()
		case 2, 3:
			q.ToTime = g.bound()
		case 4: // empty window from == to
			b := g.bound()
			c := *b
			q.FromTime, q.ToTime = b, &c
		default:
			a, b := g.bound(), g.bound()
			if *a > *b && g.r.IntN(5) != 0 { // keep 1 in 5 of the inverted ones
				a, b = b, a
			}
			q.FromTime, q.ToTime = a, b
		}
	}
	q.KeysOnly = g.r.IntN(4) == 0
	if g.r.IntN(10) == 0 {
		q.Include = g.subset()
	}
	if g.r.IntN(7) == 0 {
		q.Exclude = g.subset()
	}
	if q.Stream {
		if g.r.IntN(5) == 0 {
			q.MaxResults = 1 + g.r.Int32N(4)
		}
		q.EmptyFilter = g.r.IntN(5) == 0
	}
	return step{Op: "read", Read: q}
}

// fullRead is an unpaged, unwindowed read (the strongest membership check).
func fullRead(index string, desc, stream bool) step {
	return step{Op: "read", Read: &readReq{Index: index, Desc: desc, Stream: stream}}
}

// genCase builds one history with `reads` index reads.
func genCase(r *rand.Rand, reads int) hcase {
	g := &gen{r: r, live: map[string]bool{}}
	switch x := r.IntN(100); {
	case x < 8:
		g.kind = "mixed"
	default:
		g.kind = allKinds[r.IntN(len(allKinds))]
	}
	// half of the histories use the claim RPCs; a third of those run on msgpack bodies, the only
	// kind PatchExpiredTreasures can actually patch (everything else is reported TYPE_MISMATCH)
	g.claims = r.IntN(2) == 0
	if g.claims && r.IntN(3) == 0 {
		g.kind = "bytes"
	}
	hc := hcase{Kind: g.kind, InMem: r.IntN(3) == 0, Claims: g.claims}
	perm := r.Perm(len(keyPool))
	nk := 4 + r.IntN(10)
	if g.claims {
		nk = 6 + r.IntN(10)
	}
	for _, i := range perm[:nk] {
		g.keys = append(g.keys, keyPool[i])
	}
	mismatch := r.IntN(10) == 0 // this history also reads value indexes of other kinds
	add := func(s step, ok bool) {
		if ok {
			hc.Steps = append(hc.Steps, s)
		}
	}
	// phase 0: initial contents (sometimes nothing: index read on a missing swamp)
	n0 := r.IntN(9)
	if g.claims {
		n0 = 3 + r.IntN(8)
	}
	if r.IntN(12) == 0 {
		n0 = 0
	}
	for i := 0; i < n0; i++ {
		add(g.insertStep())
		if r.IntN(4) == 0 {
			add(g.sleepStep(), true)
		}
	}
	if g.claims && r.IntN(3) == 0 {
		add(g.claimStep(), true) // a claim on cold indexes: the claim RPC builds the pair
	}
	left := reads
	phase := 0
	for left > 0 {
		// reads of this phase
		k := 2 + r.IntN(6)
		if k > left {
			k = left
		}
		for i := 0; i < k; i++ {
			if r.IntN(4) == 0 {
				idx := g.indexFor(false)
				add(fullRead(idx, r.IntN(2) == 0, r.IntN(2) == 0), true)
			} else {
				add(g.readStep(mismatch), true)
			}
		}
		left -= k
		if left == 0 {
			break
		}
		phase++
		// writes of the next phase: inserts, moves, deletes, sleeps, an occasional eviction
		nw := 1 + r.IntN(5)
		mode := r.IntN(4) // 0 inserts only, 1 moves only, 2 deletes+inserts, 3 anything
		// claim histories: 0..2 claim calls per write phase, before, between or after the other
		// writes; one phase in five consists of the claim call(s) alone
		claimAt := map[int]int{}
		if g.claims {
			switch r.IntN(5) {
			case 0:
			case 1:
				nw = 0
				claimAt[0] = 1 + r.IntN(2)
			default:
				nc := 1 + r.IntN(2)
				for j := 0; j < nc; j++ {
					claimAt[r.IntN(nw+1)]++
				}
			}
		}
		for i := 0; i <= nw; i++ {
			for j := 0; j < claimAt[i]; j++ {
				add(g.claimStep(), true)
				if r.IntN(4) == 0 {
					add(g.sleepStep(), true)
				}
			}
			if i == nw {
				break
			}
			switch x := r.IntN(10); {
			case mode == 0 || (mode == 3 && x < 4):
				s, ok := g.insertStep()
				if !ok {
					s, ok = g.moveStep()
				}
				add(s, ok)
			case mode == 1 || (mode == 3 && x < 8):
				s, ok := g.moveStep()
				if !ok {
					s, ok = g.insertStep()
				}
				add(s, ok)
			default:
				if x%2 == 0 {
					add(g.deleteStep())
				} else {
					add(g.insertStep())
				}
			}
			if r.IntN(3) == 0 {
				add(g.sleepStep(), true)
			}
		}
		if !hc.InMem && r.IntN(12) == 0 {
			add(step{Op: "evict"}, true)
			g.now += int64(evictSleep)
			if g.claims && r.IntN(2) == 0 {
				add(g.claimStep(), true) // claim on the reloaded swamp, indexes cold
			}
		}
	}
	return hc
}

// evictSleep is longer than the idle timeout the swamps are registered with.
const evictSleep = 20 * time.Second

// fixedCases are the sequences the property text names explicitly, one per value kind:
// cold build, insert into the built index, move of a sort value, each followed by full reads in
// both orders through both RPCs.
func fixedCases() []hcase {
	var out []hcase
	h := int64(time.Hour)
	for _, k := range allKinds {
		vp := valuePool(k)
		hc := hcase{Kind: k}
		keys := []string{"c", "a", "b", "ab", "d"}
		// three records with distinct values in non-sorted key order
		for i, key := range keys[:3] {
			hc.Steps = append(hc.Steps, step{Op: "set", Key: key, Kind: k, Val: vp[len(vp)-2-i*2], CT: baseNS + h*int64(3-i), UT: baseNS + h*int64(i+1), ET: baseNS + h*int64(5-i)})
		}
		reads := func() {
			idx := []string{idxKey, idxCT, idxUT, idxET}
			if vi := valueIndexOfKind[k]; vi != "" {
				idx = append(idx, vi)
			}
			for _, ix := range idx {
				hc.Steps = append(hc.Steps, fullRead(ix, false, false), fullRead(ix, true, true))
			}
		}
		reads()
		// insert below everything, then above everything
		hc.Steps = append(hc.Steps, step{Op: "set", Key: keys[3], Kind: k, Val: vp[0], CT: baseNS + 1, UT: baseNS + 1, ET: baseNS + 1})
		hc.Steps = append(hc.Steps, step{Op: "set", Key: keys[4], Kind: k, Val: vp[len(vp)-1], CT: baseNS + 9*h, UT: baseNS + 9*h, ET: baseNS + 9*h})
		reads()
		// move the smallest to the middle
		hc.Steps = append(hc.Steps, step{Op: "set", Key: keys[3], Kind: k, Val: vp[len(vp)/2], CT: baseNS + 2*h + 7, UT: baseNS + 2*h + 7, ET: baseNS + 4*h + 7})
		reads()
		out = append(out, hc)
	}
	return out
}

// fixedClaimCases: one history per value kind in which every claim RPC is applied to indexes that
// are already built (and once to a reloaded swamp), each followed by full reads of every index in
// both orders: PatchExpiredTreasures with ops only, with a Meta that leaves ExpiredAt alone, with
// SetExpiredAt, with ClearExpiredAt; ShiftExpiredTreasures; ShiftMatchingTreasures; ShiftByKeys.
func fixedClaimCases() []hcase {
	var out []hcase
	h := int64(time.Hour)
	for _, k := range allKinds {
		vp := valuePool(k)
		hc := hcase{Kind: k, Claims: true}
		// five expired records (e0 oldest), two that expire later, two without expiry
		keys := []string{"d", "b", "zz", "a", "m", "k", "c", "y", "q"}
		for i, key := range keys {
			s := step{Op: "set", Key: key, Kind: k, Val: vp[(i*2+1)%len(vp)], CT: baseNS + h*int64(1+(i*4)%9), UT: baseNS + h*int64(1+(i*7)%9)}
			switch {
			case i < 5:
				s.ET = baseNS - h*int64(10-i)
			case i < 7:
				s.ET = baseNS + h*int64(i)
			}
			hc.Steps = append(hc.Steps, s)
		}
		idx := []string{idxKey, idxCT, idxUT, idxET}
		if vi := valueIndexOfKind[k]; vi != "" {
			idx = append(idx, vi)
		}
		reads := func() {
			for _, ix := range idx {
				hc.Steps = append(hc.Steps, fullRead(ix, false, false), fullRead(ix, true, true))
			}
		}
		claim := func(s step) {
			hc.Steps = append(hc.Steps, s)
			reads()
		}
		reads()
		claim(step{Op: "pexp", HowMany: 2, Val: "3"})
		claim(step{Op: "pexp", HowMany: 3, Meta: true, StampUpdated: true})
		claim(step{Op: "pexp", HowMany: 1, Val: "4", Meta: true, ET: baseNS + 5*h})
		claim(step{Op: "pexp", HowMany: 1, Meta: true, ClearET: true})
		claim(step{Op: "shexp", HowMany: 1})
		claim(step{Op: "shmatch", Index: idx[len(idx)-1], Desc: true, HowMany: 1})
		claim(step{Op: "shkeys", Keys: []string{"k", "nosuchkey"}})
		hc.Steps = append(hc.Steps, step{Op: "evict"})
		claim(step{Op: "pexp", HowMany: 1, Val: "5"})
		out = append(out, hc)
	}
	return out
}

// forcedCase: records exist, the first read of an index family is issued, and while the index
// is being built (between "initialised" and "filled") a Set of a new key arrives.
func forcedCase(r *rand.Rand) hcase {
	k := allKinds[r.IntN(len(allKinds))]
	g := &gen{r: r, kind: k, live: map[string]bool{}}
	perm := r.Perm(len(keyPool))
	for _, i := range perm[:6] {
		g.keys = append(g.keys, keyPool[i])
	}
	hc := hcase{Kind: k, Forced: true, InMem: r.IntN(2) == 0}
	for i := 0; i < 4; i++ {
		s, _ := g.insertStep()
		hc.Steps = append(hc.Steps, s)
	}
	idx := g.indexFor(false)
	// the step after the first read is the save that the hook handler issues inside the build
	hc.Steps = append(hc.Steps, fullRead(idx, r.IntN(2) == 0, false))
	s, _ := g.insertStep()
	s.CT, s.UT, s.ET = g.ts(), g.ts(), g.ts() // carries every attribute
	hc.Steps = append(hc.Steps, s)
	hc.Steps = append(hc.Steps, fullRead(idx, false, false), fullRead(idx, true, true), fullRead(idx, false, true), fullRead(idx, true, false))
	return hc
}

func parseVal(kind, s string) (sv, bool) {
	switch kind {
	case "int8", "int16", "int32", "int64":
		v, err := strconv.ParseInt(s, 10, 64)
		return sv{cls: 'i', i: v}, err == nil
	case "uint8", "uint16", "uint32", "uint64":
		v, err := strconv.ParseUint(s, 10, 64)
		return sv{cls: 'u', u: v}, err == nil
	case "float32":
		v, err := strconv.ParseFloat(s, 32)
		return sv{cls: 'f', f: float64(float32(v))}, err == nil
	case "float64":
		v, err := strconv.ParseFloat(s, 64)
		return sv{cls: 'f', f: v}, err == nil
	case "string":
		return sv{cls: 's', s: s}, true
	}
	return sv{}, false
}

var _ = math.NaN
