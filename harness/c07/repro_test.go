package c07

import (
	"context"
	"fmt"
	"os"
	"testing"
	"testing/synctest"
	"time"

	hydrapb "github.com/hydraide/hydraide/sdk/go/hydraidego/v3/hydraidepbgo"

	"verifharness/rig"
)

// TestRepro prints the minimal reproducers of the C07 findings (run with C07_REPRO=1 and -v).
func TestRepro(t *testing.T) {
	if os.Getenv("C07_REPRO") == "" {
		t.Skip("set C07_REPRO=1")
	}
	rig.InstallSentinel()
	root := rig.TempRoot("c07r")
	defer rig.RemoveAll(root)
	synctest.Test(t, func(t *testing.T) {
		r := rig.New(rig.Options{Root: root})
		r.Register("r/*/*", true, 3600, 1)
		ctx := context.Background()
		h := int64(time.Hour)
		set := func(sw string, s step) {
			_, _ = r.GW.Set(ctx, &hydrapb.SetRequest{Swamps: []*hydrapb.SwampRequest{{IslandID: rig.Island(sw), SwampName: sw, CreateIfNotExist: true, Overwrite: true, KeyValues: []*hydrapb.KeyValuePair{kvOf(s)}}}})
		}
		get := func(sw, index string, desc bool) string {
			ot := hydrapb.OrderType_ASC
			if desc {
				ot = hydrapb.OrderType_DESC
			}
			resp, err := r.GW.GetByIndex(ctx, &hydrapb.GetByIndexRequest{IslandID: rig.Island(sw), SwampName: sw, IndexType: indexEnum[index], OrderType: ot})
			out := ""
			for _, tr := range resp.GetTreasures() {
				rec := recordOf(tr)
				out += fmt.Sprintf("%s(v=%s ct=%d) ", rec.Key, rec.Val, (rec.CT-baseNS)/h)
			}
			return fmt.Sprintf("%s err=%v", out, err)
		}
		// F1
		sw := "r/f1/a"
		set(sw, step{Key: "a", Kind: "int8", Val: "5"})
		set(sw, step{Key: "b", Kind: "int8", Val: "1"})
		fmt.Println("F1 cold      ", get(sw, "VALUE_INT8", false))
		set(sw, step{Key: "c", Kind: "int8", Val: "-128"})
		fmt.Println("F1 +insert c ", get(sw, "VALUE_INT8", false))
		// F2 value
		sw = "r/f2/a"
		set(sw, step{Key: "a", Kind: "int64", Val: "1"})
		set(sw, step{Key: "b", Kind: "int64", Val: "2"})
		fmt.Println("F2 cold      ", get(sw, "VALUE_INT64", false))
		set(sw, step{Key: "a", Kind: "int64", Val: "3"})
		fmt.Println("F2 a:=3      ", get(sw, "VALUE_INT64", false))
		// F2 creation time
		sw = "r/f2/b"
		set(sw, step{Key: "a", Kind: "int64", Val: "1"})
		set(sw, step{Key: "b", Kind: "int64", Val: "2", CT: baseNS + 2*h})
		set(sw, step{Key: "c", Kind: "int64", Val: "3", CT: baseNS + 3*h})
		fmt.Println("F2ct cold    ", get(sw, "CREATION_TIME", false))
		set(sw, step{Key: "a", Kind: "int64", Val: "1", CT: baseNS + 1*h})
		set(sw, step{Key: "b", Kind: "int64", Val: "2", CT: baseNS + 5*h})
		fmt.Println("F2ct a.ct=1h b.ct=5h", get(sw, "CREATION_TIME", false))
		// F3
		sw = "r/f3/a"
		for i, k := range []string{"a", "b", "c", "d", "e", "f"} {
			set(sw, step{Key: k, Kind: "int32", Val: fmt.Sprint(10 - i)})
		}
		_ = get(sw, "VALUE_STRING", false)
		fmt.Println("F3 after VALUE_STRING read", get(sw, "VALUE_INT32", false))
		// F4
		sw = "r/f4/a"
		set(sw, step{Key: "a", Kind: "int8", Val: "1"})
		set(sw, step{Key: "b", Kind: "int8", Val: "2"})
		fmt.Println("F4 1st VALUE_INT64 asc ", get(sw, "VALUE_INT64", false))
		fmt.Println("F4 2nd VALUE_INT64 desc", get(sw, "VALUE_INT64", true))
		set(sw, step{Key: "c", Kind: "int8", Val: "3"})
		set(sw, step{Key: "d", Kind: "int8", Val: "4"})
		fmt.Println("F4 +c,d VALUE_INT64 desc", get(sw, "VALUE_INT64", true))
		fmt.Println("F4 then VALUE_INT8 desc", get(sw, "VALUE_INT8", true))
		r.Stop()
		time.Sleep(2 * time.Minute)
	})
}
