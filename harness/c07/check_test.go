// C07 — ordered index reads return the correctly sorted, ranged page.
//
// Monitor: generated histories of Set / Increment* / PatchTreasures / Delete and the claim RPCs
// PatchExpiredTreasures / ShiftExpiredTreasures / ShiftMatchingTreasures / ShiftByKeys (plus virtual
// sleeps and idle evictions) run against the real gateway inside a synctest bubble, so that
// server-stamped created/updated times are exact functions of the virtual clock and can be made
// distinct or tied at will. Index reads (GetByIndex and GetByIndexStream through a fake server
// stream) are interleaved so that every index family is read (a) cold — first read after the
// writes, (b) after inserts into the already built index, (c) after a record's sort value moved.
// Before each read the swamp contents are fetched through the index-free GetAll path; the
// index reference model (model_test.go) turns contents + request into the set of admissible
// pages and the response is judged against it.
package c07

import (
	"context"
	"encoding/json"
	"fmt"
	"math"
	"os"
	"regexp"
	"sort"
	"strconv"
	"testing"
	"testing/synctest"
	"time"

	"github.com/hydraide/hydraide/app/verifhook"
	hydrapb "github.com/hydraide/hydraide/sdk/go/hydraidego/v3/hydraidepbgo"
	"google.golang.org/grpc/metadata"
	"google.golang.org/protobuf/types/known/timestamppb"

	"verifharness/rig"
)

const hookPoint = "swamp.buildBeacon.afterInit"

// ---------------------------------------------------------------------------------------------
// fake server stream

type fakeStream struct {
	ctx  context.Context
	msgs []*hydrapb.GetByIndexStreamResponse
}

func (s *fakeStream) Send(m *hydrapb.GetByIndexStreamResponse) error {
	s.msgs = append(s.msgs, m)
	return nil
}
func (s *fakeStream) SetHeader(metadata.MD) error  { return nil }
func (s *fakeStream) SendHeader(metadata.MD) error { return nil }
func (s *fakeStream) SetTrailer(metadata.MD)       {}
func (s *fakeStream) Context() context.Context     { return s.ctx }
func (s *fakeStream) SendMsg(any) error            { return nil }
func (s *fakeStream) RecvMsg(any) error            { return nil }

var _ hydrapb.HydraideService_GetByIndexStreamServer = (*fakeStream)(nil)

// ---------------------------------------------------------------------------------------------
// protobuf conversions

func ts(ns int64) *timestamppb.Timestamp {
	if ns == 0 {
		return nil
	}
	return timestamppb.New(time.Unix(0, ns).UTC())
}

func bytesBody(n byte) []byte { return []byte{0xC7, 0x00, 0x81, 0xA1, 'n', n} }

func kvOf(s step) *hydrapb.KeyValuePair {
	kv := &hydrapb.KeyValuePair{Key: s.Key, CreatedAt: ts(s.CT), UpdatedAt: ts(s.UT), ExpiredAt: ts(s.ET)}
	switch s.Kind {
	case "int8", "int16", "int32":
		v, _ := strconv.ParseInt(s.Val, 10, 32)
		x := int32(v)
		switch s.Kind {
		case "int8":
			kv.Int8Val = &x
		case "int16":
			kv.Int16Val = &x
		default:
			kv.Int32Val = &x
		}
	case "int64":
		v, _ := strconv.ParseInt(s.Val, 10, 64)
		kv.Int64Val = &v
	case "uint8", "uint16", "uint32":
		v, _ := strconv.ParseUint(s.Val, 10, 32)
		x := uint32(v)
		switch s.Kind {
		case "uint8":
			kv.Uint8Val = &x
		case "uint16":
			kv.Uint16Val = &x
		default:
			kv.Uint32Val = &x
		}
	case "uint64":
		v, _ := strconv.ParseUint(s.Val, 10, 64)
		kv.Uint64Val = &v
	case "float32":
		v, _ := strconv.ParseFloat(s.Val, 32)
		x := float32(v)
		kv.Float32Val = &x
	case "float64":
		v, _ := strconv.ParseFloat(s.Val, 64)
		kv.Float64Val = &v
	case "string":
		v := s.Val
		kv.StringVal = &v
	case "bytes":
		v, _ := strconv.ParseUint(s.Val, 10, 8)
		kv.BytesVal = bytesBody(byte(v))
	}
	return kv
}

// recordOf reduces a treasure from the index-free read path to the model's record.
func recordOf(t *hydrapb.Treasure) *record {
	r := &record{Key: t.GetKey(), Kind: "other"}
	set := func(kind string, v sv) {
		r.Kind, r.val, r.hasSV, r.Val = kind, v, true, v.String()
	}
	switch {
	case t.Int8Val != nil:
		set("int8", sv{cls: 'i', i: int64(*t.Int8Val)})
	case t.Int16Val != nil:
		set("int16", sv{cls: 'i', i: int64(*t.Int16Val)})
	case t.Int32Val != nil:
		set("int32", sv{cls: 'i', i: int64(*t.Int32Val)})
	case t.Int64Val != nil:
		set("int64", sv{cls: 'i', i: *t.Int64Val})
	case t.Uint8Val != nil:
		set("uint8", sv{cls: 'u', u: uint64(*t.Uint8Val)})
	case t.Uint16Val != nil:
		set("uint16", sv{cls: 'u', u: uint64(*t.Uint16Val)})
	case t.Uint32Val != nil:
		set("uint32", sv{cls: 'u', u: uint64(*t.Uint32Val)})
	case t.Uint64Val != nil:
		set("uint64", sv{cls: 'u', u: *t.Uint64Val})
	case t.Float32Val != nil:
		set("float32", sv{cls: 'f', f: float64(*t.Float32Val)})
	case t.Float64Val != nil:
		set("float64", sv{cls: 'f', f: *t.Float64Val})
	case t.StringVal != nil:
		set("string", sv{cls: 's', s: *t.StringVal})
	case t.BytesVal != nil:
		r.Kind = "bytes"
		r.Val = fmt.Sprintf("%x", t.BytesVal)
	}
	if t.CreatedAt != nil {
		r.CT = t.CreatedAt.AsTime().UnixNano()
	}
	if t.UpdatedAt != nil {
		r.UT = t.UpdatedAt.AsTime().UnixNano()
	}
	if t.ExpiredAt != nil {
		r.ET = t.ExpiredAt.AsTime().UnixNano()
	}
	return r
}

// retOf extracts the key and the returned sort attribute of one returned treasure.
func retOf(t *hydrapb.Treasure, q *readReq) ret {
	out := ret{Key: t.GetKey()}
	if q.Index == idxKey {
		out.attr, out.hasAttr = sv{cls: 's', s: t.GetKey()}, true
	} else if !q.KeysOnly {
		rec := recordOf(t)
		if v, ok := attr(rec, q.Index); ok {
			out.attr, out.hasAttr = v, true
		}
	}
	if out.hasAttr {
		out.Attr = out.attr.String()
	}
	return out
}

var indexEnum = func() map[string]hydrapb.IndexType_Type {
	m := map[string]hydrapb.IndexType_Type{}
	for name, v := range hydrapb.IndexType_Type_value {
		m[name] = hydrapb.IndexType_Type(v)
	}
	return m
}()

// ---------------------------------------------------------------------------------------------
// one history

type famState struct {
	built    bool
	types    map[string]bool // value family: the VALUE_* index types read since the swamp was (re)opened
	kinds    map[string]bool // value family: value kinds (and "NaN") the swamp held at any time since the index was first built
	ins, mov bool
	claim    string // "" | "patch-expired" | "shift": last claim RPC that reported >= 1 record while this index existed
}

type finding struct {
	Sig, What string
	Witness   map[string]any
}

type caseResult struct {
	findings     []finding
	reads        int
	strongReads  int
	strongBig    int // strong reads whose admissible page had >= 2 records
	sawWarmIndex bool
	tags         map[string]int
	weak         map[string]int
	indexes      map[string]int
	rpcs         map[string]int
	returned     int
	writes       int
	evictions    int
	hookHit      bool
	errorsEmpty  int
	claims       map[string]int // claim RPC outcomes: "<rpc>:<status>" -> records
}

type runner struct {
	r      *rig.Rig
	ctx    context.Context
	swamp  string
	island uint64
	hc     hcase
	res    *caseResult
	fam    map[string]*famState
	snap   map[string]*record
}

func (x *runner) snapshot() map[string]*record {
	out := map[string]*record{}
	resp, err := x.r.GW.GetAll(x.ctx, &hydrapb.GetAllRequest{IslandID: x.island, SwampName: x.swamp})
	if err != nil || resp == nil {
		return out
	}
	for _, t := range resp.GetTreasures() {
		out[t.GetKey()] = recordOf(t)
	}
	return out
}

func (x *runner) resetFam() {
	x.fam = map[string]*famState{"key": {}, "ctime": {}, "utime": {}, "etime": {}, "value": {}}
}

func famAttr(r *record, fam string) string {
	switch fam {
	case "key":
		return r.Key
	case "ctime":
		return strconv.FormatInt(r.CT, 10)
	case "utime":
		return strconv.FormatInt(r.UT, 10)
	case "etime":
		return strconv.FormatInt(r.ET, 10)
	}
	return r.Kind + ":" + r.Val
}

func famCarries(r *record, fam string) bool {
	switch fam {
	case "ctime":
		return r.CT != 0
	case "utime":
		return r.UT != 0
	case "etime":
		return r.ET != 0
	}
	return true
}

// afterWrite refreshes the contents snapshot and classifies what the write did to each built index.
func (x *runner) afterWrite() {
	old := x.snap
	x.snap = x.snapshot()
	if len(x.snap) == 0 {
		x.resetFam() // the swamp is gone (last record deleted): indexes start cold again
		return
	}
	for fam, st := range x.fam {
		if !st.built {
			continue
		}
		for k, n := range x.snap {
			o := old[k]
			switch {
			case o == nil:
				if famCarries(n, fam) {
					st.ins = true
				}
			case famAttr(o, fam) != famAttr(n, fam):
				st.mov = true
			}
		}
		for k, o := range old {
			if x.snap[k] == nil && famCarries(o, fam) {
				st.ins = true
			}
		}
	}
	x.noteKinds()
}

// noteKinds records which value kinds the swamp holds while the value index exists. A value
// index that was built or maintained while a record of another kind (or a NaN) was present is
// in unspecified territory, and stays there after that record is gone (nothing re-sorts it).
func (x *runner) noteKinds() {
	st := x.fam["value"]
	if !st.built {
		return
	}
	for _, r := range x.snap {
		st.kinds[r.Kind] = true
		if r.val.isNaN() {
			st.kinds["NaN"] = true
		}
	}
}

// valueIndexTainted: reading VALUE_T is only doc-determined if every record the index ever held is of kind T.
func (x *runner) valueIndexTainted(q *readReq) bool {
	if family(q.Index) != "value" {
		return false
	}
	want := kindOfValueIndex[q.Index]
	for k := range x.fam["value"].kinds {
		if k != want {
			return true
		}
	}
	return false
}

func (x *runner) tagFor(q *readReq) string {
	st := x.fam[family(q.Index)]
	other := false
	for ty := range st.types {
		if ty != q.Index {
			other = true
		}
	}
	switch {
	case !st.built:
		return "cold"
	case st.claim != "":
		return "after-" + st.claim // the index existed when a claim RPC took records out of it (and put them back)
	case st.mov:
		return "moved"
	case other:
		return "retyped" // the shared value index was read under another VALUE_* type before
	case st.ins:
		return "incremental"
	}
	return "warm"
}

func incMeta(s step, create bool) *hydrapb.IncrementRequestMetadata {
	m := &hydrapb.IncrementRequestMetadata{}
	some := false
	t := true
	if create && s.StampCreated {
		m.CreatedAt = &t
		some = true
	}
	if s.StampUpdated {
		m.UpdatedAt = &t
		some = true
	}
	if s.ET != 0 {
		m.ExpiredAt = ts(s.ET)
		some = true
	}
	if !some {
		return nil
	}
	return m
}

func (x *runner) doInc(s step) {
	gw, ctx := x.r.GW, x.ctx
	ne, e := incMeta(s, true), incMeta(s, false)
	switch s.Kind {
	case "int8", "int16", "int32":
		v, _ := strconv.ParseInt(s.Val, 10, 32)
		switch s.Kind {
		case "int8":
			_, _ = gw.IncrementInt8(ctx, &hydrapb.IncrementInt8Request{IslandID: x.island, SwampName: x.swamp, Key: s.Key, IncrementBy: int32(v), SetIfNotExist: ne, SetIfExist: e})
		case "int16":
			_, _ = gw.IncrementInt16(ctx, &hydrapb.IncrementInt16Request{IslandID: x.island, SwampName: x.swamp, Key: s.Key, IncrementBy: int32(v), SetIfNotExist: ne, SetIfExist: e})
		default:
			_, _ = gw.IncrementInt32(ctx, &hydrapb.IncrementInt32Request{IslandID: x.island, SwampName: x.swamp, Key: s.Key, IncrementBy: int32(v), SetIfNotExist: ne, SetIfExist: e})
		}
	case "int64":
		v, _ := strconv.ParseInt(s.Val, 10, 64)
		_, _ = gw.IncrementInt64(ctx, &hydrapb.IncrementInt64Request{IslandID: x.island, SwampName: x.swamp, Key: s.Key, IncrementBy: v, SetIfNotExist: ne, SetIfExist: e})
	case "uint8", "uint16", "uint32":
		v, _ := strconv.ParseUint(s.Val, 10, 32)
		switch s.Kind {
		case "uint8":
			_, _ = gw.IncrementUint8(ctx, &hydrapb.IncrementUint8Request{IslandID: x.island, SwampName: x.swamp, Key: s.Key, IncrementBy: uint32(v), SetIfNotExist: ne, SetIfExist: e})
		case "uint16":
			_, _ = gw.IncrementUint16(ctx, &hydrapb.IncrementUint16Request{IslandID: x.island, SwampName: x.swamp, Key: s.Key, IncrementBy: uint32(v), SetIfNotExist: ne, SetIfExist: e})
		default:
			_, _ = gw.IncrementUint32(ctx, &hydrapb.IncrementUint32Request{IslandID: x.island, SwampName: x.swamp, Key: s.Key, IncrementBy: uint32(v), SetIfNotExist: ne, SetIfExist: e})
		}
	case "uint64":
		v, _ := strconv.ParseUint(s.Val, 10, 64)
		_, _ = gw.IncrementUint64(ctx, &hydrapb.IncrementUint64Request{IslandID: x.island, SwampName: x.swamp, Key: s.Key, IncrementBy: v, SetIfNotExist: ne, SetIfExist: e})
	case "float32":
		v, _ := strconv.ParseFloat(s.Val, 32)
		_, _ = gw.IncrementFloat32(ctx, &hydrapb.IncrementFloat32Request{IslandID: x.island, SwampName: x.swamp, Key: s.Key, IncrementBy: float32(v), SetIfNotExist: ne, SetIfExist: e})
	case "float64":
		v, _ := strconv.ParseFloat(s.Val, 64)
		_, _ = gw.IncrementFloat64(ctx, &hydrapb.IncrementFloat64Request{IslandID: x.island, SwampName: x.swamp, Key: s.Key, IncrementBy: v, SetIfNotExist: ne, SetIfExist: e})
	}
}

// markBuilt: the index pair of the family exists from now on (a read or a claim RPC built it).
func (x *runner) markBuilt(fam, index string) {
	st := x.fam[fam]
	if !st.built {
		*st = famState{built: true, types: map[string]bool{}, kinds: map[string]bool{}}
		x.noteKinds()
	}
	if fam == "value" {
		st.types[index] = true
	}
}

func tsp(p *int64) *timestamppb.Timestamp {
	if p == nil {
		return nil
	}
	return timestamppb.New(time.Unix(0, *p).UTC())
}

// doClaim issues one claim RPC. These select from an ordered index (building it when cold), take
// the selected records out of it and either put them back (PatchExpiredTreasures) or delete them
// from the swamp (Shift*). What they select is not judged here (C18/C19); only the indexes they
// leave behind are, through the reads that follow.
func (x *runner) doClaim(s step) {
	gw, ctx := x.r.GW, x.ctx
	nonEmpty := len(x.snap) > 0
	if nonEmpty {
		switch s.Op {
		case "pexp", "shexp":
			x.markBuilt("etime", idxET)
		case "shmatch":
			x.markBuilt(family(s.Index), s.Index)
		}
	}
	rpc, reported := "", 0
	note := func(status string, n int) {
		x.res.claims[rpc+":"+status] += n
		reported += n
	}
	var err error
	switch s.Op {
	case "pexp":
		rpc = "PatchExpiredTreasures"
		req := &hydrapb.PatchExpiredTreasuresRequest{IslandID: x.island, SwampName: x.swamp, HowMany: s.HowMany}
		if s.Val != "" {
			v, _ := strconv.ParseUint(s.Val, 10, 8)
			req.Ops = []*hydrapb.PatchOp{{Op: hydrapb.PatchOp_SET, Path: "n", Value: []byte{byte(v)}}}
		}
		if s.Meta {
			req.Meta = &hydrapb.PatchMeta{SetUpdatedAt: s.StampUpdated, ClearExpiredAt: s.ClearET, SetExpiredAt: ts(s.ET)}
		}
		if s.Cond != "" {
			v, _ := strconv.ParseUint(s.Cond, 10, 8)
			req.Condition = &hydrapb.PatchCondition{Path: "n", Operator: hydrapb.PatchCondition_LESS_THAN, Threshold: []byte{byte(v)}}
		}
		var resp *hydrapb.PatchExpiredTreasuresResponse
		resp, err = gw.PatchExpiredTreasures(ctx, req)
		for _, p := range resp.GetPatched() {
			note(p.GetStatus().String(), 1)
		}
	case "shexp":
		rpc = "ShiftExpiredTreasures"
		var resp *hydrapb.ShiftExpiredTreasuresResponse
		resp, err = gw.ShiftExpiredTreasures(ctx, &hydrapb.ShiftExpiredTreasuresRequest{IslandID: x.island, SwampName: x.swamp, HowMany: s.HowMany})
		note("shifted", len(resp.GetTreasures()))
	case "shmatch":
		rpc = "ShiftMatchingTreasures"
		ot := hydrapb.OrderType_ASC
		if s.Desc {
			ot = hydrapb.OrderType_DESC
		}
		var resp *hydrapb.ShiftMatchingTreasuresResponse
		resp, err = gw.ShiftMatchingTreasures(ctx, &hydrapb.ShiftMatchingTreasuresRequest{IslandID: x.island, SwampName: x.swamp, IndexType: indexEnum[s.Index], OrderType: ot,
			HowMany: s.HowMany, FromTime: tsp(s.FromTime), ToTime: tsp(s.ToTime)})
		note("shifted", len(resp.GetTreasures()))
	case "shkeys":
		rpc = "ShiftByKeys"
		var resp *hydrapb.ShiftByKeysResponse
		resp, err = gw.ShiftByKeys(ctx, &hydrapb.ShiftByKeysRequest{IslandID: x.island, SwampName: x.swamp, Keys: s.Keys})
		note("shifted", len(resp.GetTreasures()))
	}
	x.res.claims[rpc+":calls"]++
	if err != nil {
		x.res.claims[rpc+":error"]++
	}
	if os.Getenv("C07_TRACE") != "" {
		fmt.Printf("TRACE claim %s reported=%d err=%v\n", rig.Dump(s), reported, err)
	}
	if reported > 0 {
		for fam, st := range x.fam {
			switch {
			case !st.built:
			case s.Op != "pexp":
				st.claim = "shift"
			case fam == "etime":
				st.claim = "patch-expired"
			}
		}
	}
	x.res.writes++
}

func (x *runner) doWrite(s step) {
	if isClaimOp(s.Op) {
		x.doClaim(s)
		return
	}
	switch s.Op {
	case "set":
		_, _ = x.r.GW.Set(x.ctx, &hydrapb.SetRequest{Swamps: []*hydrapb.SwampRequest{{IslandID: x.island, SwampName: x.swamp,
			CreateIfNotExist: true, Overwrite: true, KeyValues: []*hydrapb.KeyValuePair{kvOf(s)}}}})
	case "inc":
		x.doInc(s)
	case "patch":
		v, _ := strconv.ParseUint(s.Val, 10, 8)
		meta := &hydrapb.PatchMeta{SetUpdatedAt: s.StampUpdated, SetCreatedAt: s.StampCreated, ClearExpiredAt: s.ClearET, SetExpiredAt: ts(s.ET)}
		_, _ = x.r.GW.PatchTreasures(x.ctx, &hydrapb.PatchTreasuresRequest{IslandID: x.island, SwampName: x.swamp, CreateIfNotExist: true, Meta: meta,
			Patches: []*hydrapb.TreasurePatch{{Key: s.Key, Ops: []*hydrapb.PatchOp{{Op: hydrapb.PatchOp_SET, Path: "n", Value: []byte{byte(v)}}}}}})
	case "del":
		_, _ = x.r.GW.Delete(x.ctx, &hydrapb.DeleteRequest{Swamps: []*hydrapb.DeleteRequest_SwampKeys{{IslandID: x.island, SwampName: x.swamp, Keys: []string{s.Key}}}})
	}
	x.res.writes++
}

// issue performs the index read and returns the reduced result.
func (x *runner) issue(q *readReq) (R []ret, err error, nilResp bool) {
	it := indexEnum[q.Index]
	ot := hydrapb.OrderType_ASC
	if q.Desc {
		ot = hydrapb.OrderType_DESC
	}
	var ft, tt *timestamppb.Timestamp
	if q.FromTime != nil {
		ft = timestamppb.New(time.Unix(0, *q.FromTime).UTC())
	}
	if q.ToTime != nil {
		tt = timestamppb.New(time.Unix(0, *q.ToTime).UTC())
	}
	if q.Stream {
		req := &hydrapb.GetByIndexStreamRequest{IslandID: x.island, SwampName: x.swamp, IndexType: it, OrderType: ot, From: q.From, Limit: q.Limit,
			FromTime: ft, ToTime: tt, KeysOnly: q.KeysOnly, IncludedKeys: q.Include, ExcludeKeys: q.Exclude, MaxResults: q.MaxResults}
		if q.EmptyFilter {
			req.Filters = &hydrapb.FilterGroup{}
		}
		st := &fakeStream{ctx: x.ctx}
		err = x.r.GW.GetByIndexStream(req, st)
		for _, m := range st.msgs {
			if m.GetTreasure() != nil {
				R = append(R, retOf(m.GetTreasure(), q))
			}
		}
		return R, err, false
	}
	resp, err := x.r.GW.GetByIndex(x.ctx, &hydrapb.GetByIndexRequest{IslandID: x.island, SwampName: x.swamp, IndexType: it, OrderType: ot, From: q.From, Limit: q.Limit,
		FromTime: ft, ToTime: tt, KeysOnly: q.KeysOnly, IncludedKeys: q.Include, ExcludeKeys: q.Exclude})
	if resp == nil {
		return nil, err, err == nil
	}
	for _, t := range resp.GetTreasures() {
		R = append(R, retOf(t, q))
	}
	return R, err, false
}

func sortedContents(m map[string]*record) []*record {
	var out []*record
	for _, r := range m {
		out = append(out, r)
	}
	sort.Slice(out, func(a, b int) bool { return out[a].Key < out[b].Key })
	return out
}

func (x *runner) doRead(stepIdx int, q *readReq, forcedTag string) {
	res := x.res
	res.reads++
	tag := x.tagFor(q)
	if forcedTag != "" {
		tag = forcedTag
	}
	contents := x.snap
	strong, weakReason := strongOracle(contents, q)
	if strong && x.valueIndexTainted(q) {
		strong, weakReason = false, "value-index-held-other-kind-earlier"
	}
	rig.InstallSentinel().Drain() // forget everything logged so far (failed-sort errors pile up)
	R, err, nilResp := x.issue(q)
	var panics []rig.SentinelRecord
	for _, rec := range rig.InstallSentinel().Drain() {
		if rec.Class == "panic" {
			panics = append(panics, rec)
		}
	}
	if forcedTag == "racing-build" {
		// the handler changed the contents during the read: judge against the contents after it
		x.afterWrite()
		contents = x.snap
		strong, weakReason = strongOracle(contents, q)
		if strong && x.valueIndexTainted(q) {
			strong, weakReason = false, "value-index-held-other-kind-earlier"
		}
	}
	if os.Getenv("C07_TRACE") != "" {
		fmt.Printf("TRACE step %d %s %s %s tag=%s strong=%v(%s) err=%v got=%v contents=%s", stepIdx, q.rpc(), q.Index, q.ord(), tag, strong, weakReason, err, R, rig.Dump(sortedContents(contents)))
	}
	res.tags[tag]++
	res.indexes[q.Index]++
	res.rpcs[q.rpc()]++
	res.returned += len(R)
	base := fmt.Sprintf("%s:%s:%s:%s", q.rpc(), q.Index, q.ord(), tag)
	wit := func(extra map[string]any) map[string]any {
		w := map[string]any{"case": x.hc, "step": stepIdx, "read": q, "tag": tag, "got": R, "contents": sortedContents(contents)}
		for k, v := range extra {
			w[k] = v
		}
		return w
	}
	if len(panics) > 0 {
		res.findings = append(res.findings, finding{"panic:" + base, "index read panicked: " + panics[0].Attrs[:min(len(panics[0].Attrs), 300)], wit(nil)})
		return
	}
	if err != nil || nilResp {
		if len(contents) == 0 {
			res.errorsEmpty++
			return // unspecified: error or empty result on a missing swamp
		}
		if strong {
			res.findings = append(res.findings, finding{"error:" + base, fmt.Sprintf("index read on a non-empty swamp failed: err=%v nilResponse=%v", err, nilResp), wit(nil)})
		}
		return
	}
	if strong {
		res.strongReads++
	} else {
		res.weak[weakReason]++
	}
	v := judge(contents, q, R, strong)
	if strong {
		// size of the admissible page, for the non-triviality rule
		if len(R) >= 2 {
			res.strongBig++
			if tag == "incremental" || tag == "moved" || tag == "after-patch-expired" || tag == "after-shift" {
				res.sawWarmIndex = true
			}
		}
	}
	if v.Clause != "" {
		sig := v.Clause + ":" + base
		if !strong {
			sig += ":weak"
		}
		res.findings = append(res.findings, finding{sig, v.What, wit(map[string]any{"want": v.Want})})
	}
	// bookkeeping: the index family is now built
	if len(contents) > 0 {
		x.markBuilt(family(q.Index), q.Index)
	}
}

func runCase(t *testing.T, hc hcase) *caseResult {
	res := &caseResult{tags: map[string]int{}, weak: map[string]int{}, indexes: map[string]int{}, rpcs: map[string]int{}, claims: map[string]int{}}
	root := rig.TempRoot("c07")
	defer rig.RemoveAll(root)
	synctest.Test(t, func(t *testing.T) {
		r := rig.New(rig.Options{Root: root})
		idle := int64(10)
		if hc.InMem {
			idle = 3600
		}
		r.Register("c07/"+hc.Kind+"/*", hc.InMem, idle, 1)
		sw := "c07/" + hc.Kind + "/h"
		x := &runner{r: r, ctx: context.Background(), swamp: sw, island: rig.Island(sw), hc: hc, res: res, snap: map[string]*record{}}
		x.resetFam()
		firstRead := true
		skipNext := false
		for i, s := range hc.Steps {
			if skipNext {
				skipNext = false
				continue
			}
			switch s.Op {
			case "sleep":
				time.Sleep(time.Duration(s.SleepMS) * time.Millisecond)
			case "evict":
				time.Sleep(evictSleep)
				if r.Active() == 0 {
					res.evictions++
					x.resetFam()
				}
				x.snap = x.snapshot() // reloads the swamp
			case "read":
				if hc.Forced && firstRead && i+1 < len(hc.Steps) {
					firstRead = false
					next := hc.Steps[i+1]
					fired := false
					verifhook.Set(hookPoint, func(...any) {
						if fired {
							return
						}
						fired = true
						x.doWrite(next)
					})
					x.doRead(i, s.Read, "racing-build")
					verifhook.Set(hookPoint, nil)
					if fired {
						res.hookHit = true
						skipNext = true
						// the save arrived inside the build: every later read sees the raced index
						for _, st := range x.fam {
							st.ins = true
						}
					}
					continue
				}
				firstRead = false
				ft := ""
				if hc.Forced && res.hookHit {
					ft = "after-racing-build"
				}
				x.doRead(i, s.Read, ft)
			default:
				x.doWrite(s)
				x.afterWrite()
			}
		}
		r.Stop()
		time.Sleep(2 * time.Minute)
	})
	return res
}

// ---------------------------------------------------------------------------------------------

func TestCheck(t *testing.T) {
	c := rig.NewCheck(t, "C07", "exploration")
	defer c.Finish()
	c.Rule = "histories of Set/Increment*/PatchTreasures/Delete and, in half of them, the claim RPCs PatchExpiredTreasures (ops only / Meta without, with SetExpiredAt, with ClearExpiredAt / failing condition) / " +
		"ShiftExpiredTreasures / ShiftMatchingTreasures (every index type, both orders, time windows) / ShiftByKeys with small HowMany and expiry times before virtual now " +
		"(+virtual sleeps, idle evictions) on one swamp per value kind " +
		"(int8..uint64, float32/64 incl. ±Inf/−0/NaN, string, msgpack bytes, mixed) interleaved with GetByIndex/GetByIndexStream reads over " +
		"KEY / CREATION_TIME / UPDATE_TIME / EXPIRATION_TIME / VALUE_<kind>, ASC/DESC, From, Limit (incl. 0), FromTime/ToTime (equal to a record, ±1ns, empty, inverted), " +
		"KeysOnly, IncludedKeys/ExcludeKeys, MaxResults; each read is judged against the index model applied to the contents read through GetAll; " +
		"non-trivial = the history has a doc-determined read returning >= 2 records on an index that had been built earlier and then received an insert, a removal, a moved sort value or a claim RPC that reported >= 1 record; distinct = distinct history JSON"
	c.Assumptions = []string{
		"swamp contents are taken from the index-free GetAll path immediately before each read (the property is relative to the contents reached, not to write semantics)",
		"unspecified, any outcome accepted (only no-duplicates / keys-exist / Limit respected are demanded): index read on a missing or emptied swamp (error or empty)",
		"unspecified: VALUE_<T> index read while the swamp holds a record whose value kind is not T (membership and position of such records, and the effect on the others)",
		"unspecified: ordering when a NaN is among the indexed float values",
		"unspecified: a VALUE_<T> read after the value index was built or maintained while the swamp held a record of another kind or a NaN (e.g. a typed zero that came back void from disk, C05) — until the index is rebuilt after an eviction; earlier *reads* with another VALUE_* type do not excuse anything",
		"unspecified: inverted window FromTime > ToTime; FromTime/ToTime sent with KEY or VALUE_* indexes",
		"unspecified: whether IncludedKeys/ExcludeKeys are applied before or after From/Limit — both pages are accepted",
		"Limit=0 means all (proto comment); From beyond the end yields an empty page; FromTime==ToTime is the empty window [t,t)",
		"keys and string values are lower-case ASCII letters only, so that 'alphabetical' has one reading; −0 and +0 are one tie class",
		"negative From/Limit and pre-epoch timestamps are not generated (C26 / C30)",
		"which records a claim RPC selects, patches or removes is not judged here (C18/C19): the contents after it are read through GetAll like after any other write, and only the indexes it leaves behind are judged",
		"the racing-build cases need the hook swamp.buildBeacon.afterInit; while /repo has no such call site they are counted inconclusive",
	}
	nHist := c.N(300, 5000)
	reads := c.N(20, 60)
	nForced := c.N(8, 40)

	var cases []hcase
	if p := c.ReplayPath(); p != "" {
		var w struct {
			Witness struct {
				Case hcase `json:"case"`
			} `json:"witness"`
		}
		rig.ReadJSON(p, &w)
		cases = append(cases, w.Witness.Case)
	} else {
		cases = append(cases, fixedCases()...)
		cases = append(cases, fixedClaimCases()...)
		for i := 0; i < nHist; i++ {
			cases = append(cases, genCase(c.Rand(i), reads))
		}
		for i := 0; i < nForced; i++ {
			cases = append(cases, forcedCase(c.Rand(1_000_000+i)))
		}
	}

	// Thorough tier: the (deterministic) case list is sharded over child processes, case i goes to
	// shard i mod shards; every child regenerates the same list and runs its share.
	type shardSpec struct{ Shard, Shards int }
	if c.IsChild() {
		var sp shardSpec
		c.ChildSpec(&sp)
		var mine []hcase
		for i, hc := range cases {
			if i%sp.Shards == sp.Shard {
				mine = append(mine, hc)
			}
		}
		runCases(t, c, mine)
		return
	}
	c.MinNontrivial = len(cases) / 4
	if c.ReplayPath() != "" {
		c.MinNontrivial = 0
	}
	if c.Quick() || c.ReplayPath() != "" {
		runCases(t, c, cases)
		return
	}
	const shards = 16
	var specs []any
	for i := 0; i < shards; i++ {
		specs = append(specs, shardSpec{Shard: i, Shards: shards})
	}
	for _, r := range c.Fanout(specs, rig.FanoutOpts{Par: 16, Timeout: 40 * time.Minute}) {
		if r.NoPartial || r.TimedOut {
			// a lost shard is neither confirmed nor refuted: count its cases as inconclusive
			n := 0
			for i := range cases {
				if i%shards == r.Index {
					n++
				}
			}
			for i := 0; i < n; i++ {
				c.Inconclusive(fmt.Sprintf("shard lost (timeout=%v fatal=%v err=%v)", r.TimedOut, r.Fatal, r.ExitErr))
			}
			fmt.Printf("C07: shard %d lost: timeout=%v exit=%v fatal=%v log=%s\n", r.Index, r.TimedOut, r.ExitErr, r.Fatal, r.LogPath)
		}
	}
}

// runCases executes histories in this process and feeds the accumulator.
func runCases(t *testing.T, c *rig.Check, cases []hcase) {
	sigCounts := map[string]int{}
	var focus *regexp.Regexp
	if f := os.Getenv("C07_FOCUS"); f != "" {
		focus = regexp.MustCompile(f)
	}
	defer func() {
		if len(sigCounts) > 0 && !c.IsChild() {
			c.Extra("violation_signature_histories", sigCounts)
		}
		c.Count("hook_hits_"+hookPoint, verifhook.Hits(hookPoint))
		if d := os.Getenv("C07_SIGDIR"); d != "" && len(sigCounts) > 0 { // triage aid
			b, _ := json.Marshal(sigCounts)
			_ = os.WriteFile(fmt.Sprintf("%s/sig-%d.json", d, os.Getpid()), b, 0o644)
		}
	}()
	for _, hc := range cases {
		res := runCase(t, hc)
		nontrivial := res.strongBig > 0 && res.sawWarmIndex
		c.Case(rig.Dump(hc), nontrivial)
		c.Sample(hc)
		c.Count("reads", int64(res.reads))
		c.Count("reads_doc_determined", int64(res.strongReads))
		c.Count("records_returned", int64(res.returned))
		c.Count("writes", int64(res.writes))
		c.Count("evictions", int64(res.evictions))
		c.Count("reads_on_missing_swamp", int64(res.errorsEmpty))
		for tag, n := range res.tags {
			c.Seen("index_states", tag)
			c.Count("reads_"+tag, int64(n))
		}
		for w, n := range res.weak {
			c.Count("reads_unspecified_"+w, int64(n))
		}
		for ix := range res.indexes {
			c.Seen("index_types", ix)
		}
		for rp, n := range res.rpcs {
			c.Count("rpc_"+rp, int64(n))
		}
		for cl, n := range res.claims {
			c.Count("claim_"+cl, int64(n))
		}
		if hc.Claims {
			c.Count("histories_with_claim_rpcs", 1)
		}
		c.Seen("value_kinds", hc.Kind)
		if hc.Forced {
			if res.hookHit {
				c.Count("racing_build_hook_hit", 1)
			} else if len(res.findings) == 0 {
				c.Inconclusive("racing-build case: hook " + hookPoint + " not reached (no call site in this tree)")
			}
		}
		seen := map[string]bool{}
		for _, f := range res.findings {
			if seen[f.Sig] {
				continue
			}
			seen[f.Sig] = true
			sigCounts[f.Sig]++
			c.Seen("violated_signatures", f.Sig)
			if focus != nil && !focus.MatchString(f.Sig) {
				continue // triage aid: C07_FOCUS=<regexp> keeps only matching signatures' witnesses
			}
			c.Violate(f.Sig, f.What, f.Witness)
		}
	}
}

var _ = math.NaN
