package c07

// Index reference model, written from docs/features/query-engine.md and the proto comments on
// GetByIndexRequest / GetByIndexStreamRequest / IndexType / OrderType:
//
//   KEY                "Sort alphabetically by key"                     members: every record
//   CREATION_TIME ...  "a time-based index only contains the records that actually carry that
//                       timestamp"                                       members: ts != 0
//   VALUE_<T>          "Query by the actual value"                       members: records of kind T
//                                                                        (others: unspecified)
//   ASC "Oldest/smallest first", DESC "Newest/largest first"
//   From  "starting index (zero-based)"; Limit "how many items to return. Set to 0 to return all"
//   FromTime/ToTime: the property statement's [from, to) on the time indexes
//
// The contents of the swamp are not modelled: they are read through the index-free GetAll
// path immediately before the index read (the property quantifies over "swamp contents reached
// by any history").

import (
	"fmt"
	"math"
	"sort"
	"strconv"
)

// sv is a sort value. cls: 'i' signed, 'u' unsigned, 'f' float, 's' string.
type sv struct {
	cls byte
	i   int64
	u   uint64
	f   float64
	s   string
}

func (a sv) String() string {
	switch a.cls {
	case 'i':
		return strconv.FormatInt(a.i, 10)
	case 'u':
		return strconv.FormatUint(a.u, 10)
	case 'f':
		return strconv.FormatFloat(a.f, 'g', -1, 64)
	case 's':
		return strconv.Quote(a.s)
	}
	return "?"
}

func (a sv) isNaN() bool { return a.cls == 'f' && math.IsNaN(a.f) }

// cmpSV: -1, 0, +1. −0 and +0 are equal (IEEE). NaN never reaches here in a deciding oracle.
func cmpSV(a, b sv) int {
	switch a.cls {
	case 'i':
		switch {
		case a.i < b.i:
			return -1
		case a.i > b.i:
			return 1
		}
	case 'u':
		switch {
		case a.u < b.u:
			return -1
		case a.u > b.u:
			return 1
		}
	case 'f':
		switch {
		case a.f < b.f:
			return -1
		case a.f > b.f:
			return 1
		}
	case 's':
		switch {
		case a.s < b.s:
			return -1
		case a.s > b.s:
			return 1
		}
	}
	return 0
}

// record is one treasure as the index-free read path reports it.
type record struct {
	Key   string `json:"key"`
	Kind  string `json:"kind"` // int8 … uint64, float32, float64, string, bytes, other
	Val   string `json:"val,omitempty"`
	CT    int64  `json:"ct,omitempty"` // unix nanos, 0 = absent
	UT    int64  `json:"ut,omitempty"`
	ET    int64  `json:"et,omitempty"`
	val   sv
	hasSV bool
}

const (
	idxKey = "KEY"
	idxCT  = "CREATION_TIME"
	idxUT  = "UPDATE_TIME"
	idxET  = "EXPIRATION_TIME"
)

var valueIndexOfKind = map[string]string{
	"int8": "VALUE_INT8", "int16": "VALUE_INT16", "int32": "VALUE_INT32", "int64": "VALUE_INT64",
	"uint8": "VALUE_UINT8", "uint16": "VALUE_UINT16", "uint32": "VALUE_UINT32", "uint64": "VALUE_UINT64",
	"float32": "VALUE_FLOAT32", "float64": "VALUE_FLOAT64", "string": "VALUE_STRING",
}

var kindOfValueIndex = func() map[string]string {
	m := map[string]string{}
	for k, v := range valueIndexOfKind {
		m[v] = k
	}
	return m
}()

func family(index string) string {
	switch index {
	case idxKey:
		return "key"
	case idxCT:
		return "ctime"
	case idxUT:
		return "utime"
	case idxET:
		return "etime"
	}
	return "value"
}

func isTimeIndex(index string) bool { return index == idxCT || index == idxUT || index == idxET }

// attr returns the record's sort value under the index and whether the record carries it.
func attr(r *record, index string) (sv, bool) {
	switch index {
	case idxKey:
		return sv{cls: 's', s: r.Key}, true
	case idxCT:
		return sv{cls: 'i', i: r.CT}, r.CT != 0
	case idxUT:
		return sv{cls: 'i', i: r.UT}, r.UT != 0
	case idxET:
		return sv{cls: 'i', i: r.ET}, r.ET != 0
	}
	if kindOfValueIndex[index] == r.Kind && r.hasSV {
		return r.val, true
	}
	return sv{}, false
}

type item struct {
	Key string
	V   sv
}

// readReq is one generated index read.
type readReq struct {
	Stream      bool     `json:"stream,omitempty"`
	Index       string   `json:"index"`
	Desc        bool     `json:"desc,omitempty"`
	From        int32    `json:"from,omitempty"`
	Limit       int32    `json:"limit,omitempty"`
	FromTime    *int64   `json:"fromTime,omitempty"` // unix nanos
	ToTime      *int64   `json:"toTime,omitempty"`
	KeysOnly    bool     `json:"keysOnly,omitempty"`
	Include     []string `json:"include,omitempty"`
	Exclude     []string `json:"exclude,omitempty"`
	MaxResults  int32    `json:"maxResults,omitempty"`  // stream only
	EmptyFilter bool     `json:"emptyFilter,omitempty"` // stream only: Filters = empty FilterGroup
}

func (q *readReq) rpc() string {
	if q.Stream {
		return "GetByIndexStream"
	}
	return "GetByIndex"
}

func (q *readReq) ord() string {
	if q.Desc {
		return "desc"
	}
	return "asc"
}

func (q *readReq) windowed() bool { return q.FromTime != nil || q.ToTime != nil }

func (q *readReq) inverted() bool {
	return q.FromTime != nil && q.ToTime != nil && *q.FromTime > *q.ToTime
}

func (q *readReq) unpaged() bool {
	return q.From == 0 && q.Limit == 0 && q.MaxResults == 0 && len(q.Include) == 0 && len(q.Exclude) == 0
}

// ret is one returned treasure reduced to what the oracle looks at.
type ret struct {
	Key     string `json:"key"`
	Attr    string `json:"attr,omitempty"` // the returned attribute value, printed
	attr    sv
	hasAttr bool
}

// verdict of one read.
type verdict struct {
	Clause string // "" = held
	What   string
	Want   []string
}

func inWindow(v sv, q *readReq) bool {
	if q.FromTime != nil && v.i < *q.FromTime {
		return false
	}
	if q.ToTime != nil && v.i >= *q.ToTime {
		return false
	}
	return true
}

func keyset(l []string) map[string]bool {
	if len(l) == 0 {
		return nil
	}
	m := map[string]bool{}
	for _, k := range l {
		m[k] = true
	}
	return m
}

func page(l []item, from, limit int32) []item {
	if int(from) >= len(l) {
		return nil
	}
	l = l[from:]
	if limit > 0 && int(limit) < len(l) {
		l = l[:limit]
	}
	return l
}

func keep(l []item, inc, exc map[string]bool) []item {
	if inc == nil && exc == nil {
		return l
	}
	var out []item
	for _, it := range l {
		if inc != nil && !inc[it.Key] {
			continue
		}
		if exc != nil && exc[it.Key] {
			continue
		}
		out = append(out, it)
	}
	return out
}

func itemsStr(l []item) []string {
	out := make([]string, len(l))
	for i, it := range l {
		out[i] = it.Key + "=" + it.V.String()
	}
	return out
}

// strongOracle reports whether the documentation determines the outcome of q on these contents.
// reason names the unspecified point otherwise.
func strongOracle(contents map[string]*record, q *readReq) (bool, string) {
	if len(contents) == 0 {
		return false, "empty-or-missing-swamp"
	}
	if q.inverted() {
		return false, "inverted-window"
	}
	if q.windowed() && !isTimeIndex(q.Index) {
		return false, "time-window-on-non-time-index"
	}
	if family(q.Index) == "value" {
		want := kindOfValueIndex[q.Index]
		for _, r := range contents {
			if r.Kind != want {
				return false, "value-index-on-other-kind"
			}
			if r.val.isNaN() {
				return false, "nan-in-value-index"
			}
		}
	}
	return true, ""
}

// judge compares one result with the model. tagOK is false when only the weak oracle applies.
func judge(contents map[string]*record, q *readReq, R []ret, strong bool) verdict {
	// --- candidate-independent clauses -------------------------------------------------
	seen := map[string]bool{}
	for _, r := range R {
		if seen[r.Key] {
			return verdict{Clause: "dup", What: fmt.Sprintf("key %q returned more than once", r.Key)}
		}
		seen[r.Key] = true
	}
	for _, r := range R {
		if contents[r.Key] == nil {
			return verdict{Clause: "membership:ghost", What: fmt.Sprintf("key %q returned but not in the swamp", r.Key)}
		}
	}
	if q.Limit > 0 && len(R) > int(q.Limit) {
		return verdict{Clause: "page:over-limit", What: fmt.Sprintf("%d records returned with Limit=%d", len(R), q.Limit)}
	}
	if q.MaxResults > 0 && len(R) > int(q.MaxResults) {
		return verdict{Clause: "page:over-maxresults", What: fmt.Sprintf("%d records returned with MaxResults=%d", len(R), q.MaxResults)}
	}
	inc, exc := keyset(q.Include), keyset(q.Exclude)
	for _, r := range R {
		if inc != nil && !inc[r.Key] {
			return verdict{Clause: "filter:not-included", What: fmt.Sprintf("key %q returned but not in IncludedKeys", r.Key)}
		}
		if exc != nil && exc[r.Key] {
			return verdict{Clause: "filter:excluded", What: fmt.Sprintf("key %q returned although in ExcludeKeys", r.Key)}
		}
	}
	if !strong {
		return verdict{}
	}

	// --- members and their sort values ---------------------------------------------------
	var members []item
	for _, r := range contents {
		if v, ok := attr(r, q.Index); ok {
			members = append(members, item{r.Key, v})
		}
	}
	sort.Slice(members, func(a, b int) bool {
		c := cmpSV(members[a].V, members[b].V)
		if c == 0 {
			return members[a].Key < members[b].Key // arbitrary inside a tie class
		}
		if q.Desc {
			return c > 0
		}
		return c < 0
	})
	mv := map[string]sv{}
	for _, it := range members {
		mv[it.Key] = it.V
	}
	for _, r := range R {
		if _, ok := mv[r.Key]; !ok {
			return verdict{Clause: "membership:extra", What: fmt.Sprintf("key %q returned but does not carry the %s attribute", r.Key, q.Index)}
		}
	}
	// sortedness on the returned attribute values themselves (falls back to the contents' value
	// for KeysOnly responses, which carry no attribute)
	val := func(r ret) sv {
		if r.hasAttr {
			return r.attr
		}
		return mv[r.Key]
	}
	for i := 1; i < len(R); i++ {
		c := cmpSV(val(R[i-1]), val(R[i]))
		if (!q.Desc && c > 0) || (q.Desc && c < 0) {
			return verdict{Clause: "order", What: fmt.Sprintf("position %d (%s=%s) before position %d (%s=%s) in %s order",
				i-1, R[i-1].Key, val(R[i-1]), i, R[i].Key, val(R[i]), q.ord())}
		}
	}
	// window
	W := members
	if q.windowed() {
		W = nil
		for _, it := range members {
			if inWindow(it.V, q) {
				W = append(W, it)
			}
		}
		for _, r := range R {
			if !inWindow(mv[r.Key], q) {
				return verdict{Clause: "window:outside", What: fmt.Sprintf("key %q with %s=%s lies outside [%s, %s)", r.Key, q.Index, mv[r.Key], pi(q.FromTime), pi(q.ToTime))}
			}
		}
	}

	// --- candidate pages --------------------------------------------------------------------
	// The docs do not say whether IncludedKeys/ExcludeKeys apply before or after From/Limit:
	// both readings are accepted.
	v1 := matchPageThenFilter(q, R, W, mv, inc, exc)
	if v1.Clause == "" || (inc == nil && exc == nil) {
		return v1
	}
	E := page(keep(W, inc, exc), q.From, q.Limit)
	if q.MaxResults > 0 && len(E) > int(q.MaxResults) {
		E = E[:q.MaxResults]
	}
	if v2 := matchSequence(q, R, E, mv); v2.Clause == "" {
		return v2
	}
	return v1
}

func shortClause(q *readReq) string {
	if q.unpaged() {
		if q.windowed() {
			return "window:missing"
		}
		return "membership:missing"
	}
	return "page:short"
}

// matchPageThenFilter: R must equal keep(page(π(W)))[:MaxResults] for some order π of W that is
// sorted by the attribute (members of one tie class may stand in any order, so when the page
// boundary cuts a class, any of its members may be the ones inside the page).
func matchPageThenFilter(q *readReq, R []ret, W []item, mv map[string]sv, inc, exc map[string]bool) verdict {
	P := page(W, q.From, q.Limit)
	want := itemsStr(P)
	type class struct {
		v       sv
		k       int // positions of the page holding this sort value
		dropped int // members of the class (in the whole window) that the key filters remove
		got     int // members of the class in R
	}
	var cls []*class
	find := func(v sv) *class {
		for _, c := range cls {
			if cmpSV(c.v, v) == 0 {
				return c
			}
		}
		return nil
	}
	for _, it := range P {
		c := find(it.V)
		if c == nil {
			c = &class{v: it.V}
			cls = append(cls, c)
		}
		c.k++
	}
	for _, it := range W {
		if c := find(it.V); c != nil {
			if (inc != nil && !inc[it.Key]) || (exc != nil && exc[it.Key]) {
				c.dropped++
			}
		}
	}
	last := -1
	for _, r := range R {
		c := find(mv[r.Key])
		if c == nil {
			cl := "page:shifted"
			if len(R) > len(P) {
				cl = "page:long"
			}
			return verdict{Clause: cl, What: fmt.Sprintf("%s=%s returned, but no position of the model page [%d,+%d) holds that sort value", r.Key, mv[r.Key], q.From, q.Limit), Want: want}
		}
		c.got++
	}
	if len(R) > 0 {
		lc := find(mv[R[len(R)-1].Key])
		for j, c := range cls {
			if c == lc {
				last = j
			}
		}
	}
	maxed := q.MaxResults > 0 && len(R) == int(q.MaxResults)
	for j, c := range cls {
		if maxed && j > last {
			break
		}
		if c.got > c.k {
			cl := "page:shifted"
			if len(R) > len(P) {
				cl = "page:long"
			}
			return verdict{Clause: cl, What: fmt.Sprintf("%d records with sort value %s returned, the model page holds %d (page of %d, returned %d)", c.got, c.v, c.k, len(P), len(R)), Want: want}
		}
		if maxed && j == last {
			continue // truncated inside this class
		}
		if c.k-c.got > c.dropped {
			return verdict{Clause: shortClause(q), What: fmt.Sprintf("%d records with sort value %s returned, the model page holds %d and the key filters can remove at most %d (page of %d, returned %d)", c.got, c.v, c.k, c.dropped, len(P), len(R)), Want: want}
		}
	}
	return verdict{}
}

// matchSequence: R against a page whose sequence of sort values is fully determined.
func matchSequence(q *readReq, R []ret, E []item, mv map[string]sv) verdict {
	want := itemsStr(E)
	if len(R) < len(E) {
		return verdict{Clause: shortClause(q), What: fmt.Sprintf("%d records returned, model page has %d", len(R), len(E)), Want: want}
	}
	if len(R) > len(E) {
		return verdict{Clause: "page:long", What: fmt.Sprintf("%d records returned, model page has %d", len(R), len(E)), Want: want}
	}
	for i := range R {
		if cmpSV(mv[R[i].Key], E[i].V) != 0 {
			return verdict{Clause: "page:shifted", What: fmt.Sprintf("position %d holds %s=%s, model page has sort value %s there", i, R[i].Key, mv[R[i].Key], E[i].V), Want: want}
		}
	}
	return verdict{}
}

func pi(p *int64) string {
	if p == nil {
		return "-"
	}
	return strconv.FormatInt(*p, 10)
}
