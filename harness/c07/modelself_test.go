package c07

import "testing"

// TestModelSelf pins the oracle on hand-computed pages (ties cut by page boundaries and key filters).
func TestModelSelf(t *testing.T) {
	mk := func(k, v string) *record {
		return &record{Key: k, Kind: "string", Val: v, val: sv{cls: 's', s: v}, hasSV: true}
	}
	contents := map[string]*record{"a": mk("a", "ab"), "ab": mk("ab", "m"), "ba": mk("ba", "b"), "q": mk("q", "b"), "y": mk("y", "")}
	// desc: ab=m | ba=b q=b | a=ab | y=""
	type tcase struct {
		q    readReq
		keys []string
		ok   bool
	}
	for i, c := range []tcase{
		{readReq{Index: "VALUE_STRING", Desc: true, From: 2, Limit: 1}, []string{"ba"}, true},
		{readReq{Index: "VALUE_STRING", Desc: true, From: 2, Limit: 1}, []string{"q"}, true},
		{readReq{Index: "VALUE_STRING", Desc: true, From: 2, Limit: 1}, []string{"a"}, false},
		{readReq{Index: "VALUE_STRING", Desc: true, From: 2, Limit: 1, Exclude: []string{"q"}}, []string{"ba"}, true},
		{readReq{Index: "VALUE_STRING", Desc: true, From: 2, Limit: 1, Exclude: []string{"q"}}, nil, true},
		{readReq{Index: "VALUE_STRING", Desc: true, From: 2, Limit: 1, Exclude: []string{"q"}}, []string{"a"}, true}, // filter-then-page
		{readReq{Index: "VALUE_STRING", Desc: true, From: 2, Limit: 1, Exclude: []string{"q"}}, []string{"ab"}, false},
		{readReq{Index: "VALUE_STRING", Desc: true}, []string{"ab", "q", "ba", "a", "y"}, true},
		{readReq{Index: "VALUE_STRING", Desc: true}, []string{"ab", "q", "a", "ba", "y"}, false},
		{readReq{Index: "VALUE_STRING", Desc: true}, []string{"ab", "q", "ba", "a"}, false},
		{readReq{Index: "VALUE_STRING", Desc: true, Limit: 2}, []string{"ab", "q"}, true},
		{readReq{Index: "VALUE_STRING", Desc: true, Limit: 2}, []string{"ab", "a"}, false},
		{readReq{Index: "VALUE_STRING", Desc: true, Limit: 2}, []string{"ab"}, false},
		{readReq{Index: "VALUE_STRING", From: 5}, nil, true},
		{readReq{Index: "VALUE_STRING", From: 4}, []string{"ab"}, true},
		{readReq{Index: "VALUE_STRING", Stream: true, MaxResults: 2}, []string{"y", "a"}, true},
		{readReq{Index: "VALUE_STRING", Stream: true, MaxResults: 3}, []string{"y", "a", "q"}, true},
		{readReq{Index: "VALUE_STRING", Stream: true, MaxResults: 3}, []string{"y", "a"}, false},
		{readReq{Index: "VALUE_STRING", Stream: true, MaxResults: 3, Exclude: []string{"a"}}, []string{"y", "ba", "q"}, true},
		{readReq{Index: "VALUE_STRING", Stream: true, MaxResults: 3, Exclude: []string{"a"}}, []string{"y", "ba", "ab"}, false},
	} {
		var R []ret
		for _, k := range c.keys {
			R = append(R, ret{Key: k})
		}
		v := judge(contents, &c.q, R, true)
		if (v.Clause == "") != c.ok {
			t.Errorf("case %d %+v keys %v: verdict %+v, want ok=%v", i, c.q, c.keys, v, c.ok)
		}
	}
}
