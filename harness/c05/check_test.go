// C05 — close and reload preserve every record exactly.
//
// Monitor: generated request histories (Set of every value kind with zero-like and extreme
// values and optional metadata, Increment*, PatchTreasures, Uint32SlicePush/Delete, Delete,
// pauses) run against a persistent swamp through the real gateway handlers inside a synctest
// bubble. After the last write everything the read API says about the swamp is recorded
// (observation A), the swamp is closed — by idle eviction (virtual sleep) or by a graceful
// engine stop followed by a new engine on the same data root — and the same reads are
// recorded again (observation B). Oracle: B equals A, key by key: same existence, same value
// kind and value, same created/updated/expired metadata. No reference model is involved.
package c05

import (
	"context"
	"fmt"
	"math"
	"os"
	"runtime"
	"sort"
	"strings"
	"testing"
	"testing/synctest"
	"time"

	"github.com/hydraide/hydraide/app/name"
	hydrapb "github.com/hydraide/hydraide/sdk/go/hydraidego/v3/hydraidepbgo"

	"verifharness/rig"
)

type caseResult struct {
	Findings     []finding
	Inconclusive string
	Nontrivial   bool
	Requests     int
	KeysInA      int
	HydAfter     bool
	Sentinel     []string
	Seen         map[string][]string
}

func (cr *caseResult) seen(set, v string) {
	if cr.Seen == nil {
		cr.Seen = map[string][]string{}
	}
	cr.Seen[set] = append(cr.Seen[set], v)
}

func caseKeys(cs caseSpec) []string {
	seen := map[string]bool{"never-written": true}
	for _, st := range cs.Steps {
		if st.Key != "" {
			seen[st.Key] = true
		}
		for _, k := range st.Keys {
			seen[k] = true
		}
	}
	var out []string
	for k := range seen {
		out = append(out, k)
	}
	sort.Strings(out)
	return out
}

// lastOp names, per key, the kind of the last request of the history that addressed the key
// (part of the signature: it separates what the storage encoding loses from what a request
// left unsaved in memory).
func lastOp(cs caseSpec) map[string]string {
	out := map[string]string{}
	cond := map[string]bool{}
	for _, st := range cs.Steps {
		op := st.Op
		if op == "inc" && st.Cond != 0 {
			op = "inccond"
			cond[st.Key] = true
		}
		if st.Key != "" {
			out[st.Key] = op
		}
		for _, k := range st.Keys {
			out[k] = op
		}
	}
	// a conditional increment anywhere earlier in the key's history stays visible in the label
	for k := range cond {
		if out[k] != "inccond" {
			out[k] += "+inccond"
		}
	}
	return out
}

func pattern(sw string) string { return sw[:strings.LastIndex(sw, "/")] + "/*" }

func apply(r *rig.Rig, cs caseSpec, st step, cr *caseResult) {
	ctx := context.Background()
	sw, isl := cs.Swamp, rig.Island(cs.Swamp)
	cr.Requests++
	switch st.Op {
	case "set":
		resp, err := r.GW.Set(ctx, wire(&hydrapb.SetRequest{Swamps: []*hydrapb.SwampRequest{{IslandID: isl, SwampName: sw,
			CreateIfNotExist: st.Create, Overwrite: st.Overwrite, KeyValues: []*hydrapb.KeyValuePair{buildKV(st)}}}}))
		cr.seen("rpcs", "Set")
		cr.seen("set_inputs", st.Kind+":"+st.Class)
		if err == nil && resp != nil {
			for _, s := range resp.Swamps {
				for _, ks := range s.KeysAndStatuses {
					cr.seen("set_status", ks.Status.String())
				}
			}
		}
	case "inc":
		doInc(r, cs, st, cr)
	case "patch":
		p := st.Patch
		var ops []*hydrapb.PatchOp
		for _, i := range p.Ops {
			ops = append(ops, patchOps[i%len(patchOps)])
		}
		req := &hydrapb.PatchTreasuresRequest{IslandID: isl, SwampName: sw, CreateIfNotExist: p.Create,
			InitialMsgpackOnCreate: patchInitials[p.Initial%len(patchInitials)], Meta: patchMeta(p.ReqMeta, p.Clear && p.KeyMeta == nil),
			Patches: []*hydrapb.TreasurePatch{{Key: st.Key, Ops: ops, Meta: patchMeta(p.KeyMeta, p.Clear)}}}
		resp, err := r.GW.PatchTreasures(ctx, wire(req))
		cr.seen("rpcs", "PatchTreasures")
		if err == nil && resp != nil {
			for _, res := range resp.Results {
				cr.seen("patch_status", res.Status.String())
			}
		}
	case "push":
		_, _ = r.GW.Uint32SlicePush(ctx, wire(&hydrapb.AddToUint32SlicePushRequest{IslandID: isl, SwampName: sw, KeySlicePairs: []*hydrapb.KeySlicePair{{Key: st.Key, Values: st.Vals}}}))
		cr.seen("rpcs", "Uint32SlicePush")
	case "sdel":
		// Steering around a defect of another property (C15/C17): in Gateway.Uint32SliceDelete the
		// handler still holds the record guard when it calls DeleteTreasure for a record whose slice
		// became empty (or that is no slice at all); deleteHandler then waits for the same guard and
		// the request never returns. Such a request would freeze the case, so it is not issued.
		if sdelWouldBlock(r, cs, st) {
			cr.Requests--
			cr.seen("notes", "sdel-skipped-would-self-deadlock")
			return
		}
		_, _ = r.GW.Uint32SliceDelete(ctx, wire(&hydrapb.Uint32SliceDeleteRequest{IslandID: isl, SwampName: sw, KeySlicePairs: []*hydrapb.KeySlicePair{{Key: st.Key, Values: st.Vals}}}))
		cr.seen("rpcs", "Uint32SliceDelete")
	case "del":
		_, _ = r.GW.Delete(ctx, wire(&hydrapb.DeleteRequest{Swamps: []*hydrapb.DeleteRequest_SwampKeys{{IslandID: isl, SwampName: sw, Keys: st.Keys}}}))
		cr.seen("rpcs", "Delete")
	case "flush":
		// explicit flush of the write queue (what GracefulStop's fallback and embedders call); not a gateway RPC
		cr.Requests--
		h := r.Zeus.GetHydra()
		n := name.Load(sw)
		if ok, err := h.IsExistSwamp(isl, n); err == nil && ok {
			if so, err := h.SummonSwamp(ctx, isl, n); err == nil {
				so.BeginVigil()
				so.WriteTreasuresToFilesystem()
				so.CeaseVigil()
				cr.seen("notes", "explicit-flush")
			}
		}
	case "sleep":
		cr.Requests--
		time.Sleep(time.Duration(st.Ms) * time.Millisecond)
	}
}

// sdelWouldBlock reads the record (reads do not change it) and says whether Uint32SliceDelete
// would take the "delete the emptied record" path.
func sdelWouldBlock(r *rig.Rig, cs caseSpec, st step) bool {
	resp, err := r.GW.Get(context.Background(), wire(&hydrapb.GetRequest{Swamps: []*hydrapb.GetSwamp{{IslandID: rig.Island(cs.Swamp), SwampName: cs.Swamp, Keys: []string{st.Key}}}}))
	if err != nil || resp == nil || len(resp.Swamps) != 1 || !resp.Swamps[0].IsExist || len(resp.Swamps[0].Treasures) != 1 {
		return false // swamp or key does not exist: the handler returns before touching anything
	}
	tr := resp.Swamps[0].Treasures[0]
	if !tr.IsExist {
		return false
	}
	if kindOf(tr) != "uint32slice" {
		return true
	}
	left := 0
	for _, v := range tr.Uint32Slice {
		del := false
		for _, d := range st.Vals {
			if d == v {
				del = true
			}
		}
		if !del {
			left++
		}
	}
	return left == 0
}

func doInc(r *rig.Rig, cs caseSpec, st step, cr *caseResult) {
	ctx := context.Background()
	sw, isl := cs.Swamp, rig.Island(cs.Swamp)
	ne, ex := incMeta(st.Meta), incMeta(st.Meta2)
	rel := hydrapb.Relational_EQUAL
	if st.Cond == 2 {
		rel = hydrapb.Relational_GREATER_THAN
	}
	cr.seen("rpcs", "Increment"+strings.ToUpper(st.Kind[:1])+st.Kind[1:])
	var incremented bool
	switch st.Kind {
	case "int8", "int16", "int32":
		by := int32(intVal(st.Kind, st.Class, st.Bits))
		if by == 0 {
			by = 1
		}
		cv := int32(0)
		if st.Cond == 2 {
			cv = int32(intLimits[st.Kind][1])
		}
		switch st.Kind {
		case "int8":
			req := &hydrapb.IncrementInt8Request{IslandID: isl, SwampName: sw, Key: st.Key, IncrementBy: by, SetIfNotExist: ne, SetIfExist: ex}
			if st.Cond != 0 {
				req.Condition = &hydrapb.IncrementInt8Condition{RelationalOperator: rel, Value: cv}
			}
			resp, _ := r.GW.IncrementInt8(ctx, wire(req))
			incremented = resp.GetIsIncremented()
		case "int16":
			req := &hydrapb.IncrementInt16Request{IslandID: isl, SwampName: sw, Key: st.Key, IncrementBy: by, SetIfNotExist: ne, SetIfExist: ex}
			if st.Cond != 0 {
				req.Condition = &hydrapb.IncrementInt16Condition{RelationalOperator: rel, Value: cv}
			}
			resp, _ := r.GW.IncrementInt16(ctx, wire(req))
			incremented = resp.GetIsIncremented()
		default:
			req := &hydrapb.IncrementInt32Request{IslandID: isl, SwampName: sw, Key: st.Key, IncrementBy: by, SetIfNotExist: ne, SetIfExist: ex}
			if st.Cond != 0 {
				req.Condition = &hydrapb.IncrementInt32Condition{RelationalOperator: rel, Value: cv}
			}
			resp, _ := r.GW.IncrementInt32(ctx, wire(req))
			incremented = resp.GetIsIncremented()
		}
	case "int64":
		by := intVal(st.Kind, st.Class, st.Bits)
		if by == 0 {
			by = 1
		}
		req := &hydrapb.IncrementInt64Request{IslandID: isl, SwampName: sw, Key: st.Key, IncrementBy: by, SetIfNotExist: ne, SetIfExist: ex}
		if st.Cond != 0 {
			cv := int64(0)
			if st.Cond == 2 {
				cv = math.MaxInt64
			}
			req.Condition = &hydrapb.IncrementInt64Condition{RelationalOperator: rel, Value: cv}
		}
		resp, _ := r.GW.IncrementInt64(ctx, wire(req))
		incremented = resp.GetIsIncremented()
	case "uint8", "uint16", "uint32":
		by := uint32(uintVal(st.Kind, st.Class, st.Bits))
		if by == 0 {
			by = 1
		}
		cv := uint32(0)
		if st.Cond == 2 {
			cv = uint32(uintLimits[st.Kind])
		}
		switch st.Kind {
		case "uint8":
			req := &hydrapb.IncrementUint8Request{IslandID: isl, SwampName: sw, Key: st.Key, IncrementBy: by, SetIfNotExist: ne, SetIfExist: ex}
			if st.Cond != 0 {
				req.Condition = &hydrapb.IncrementUint8Condition{RelationalOperator: rel, Value: cv}
			}
			resp, _ := r.GW.IncrementUint8(ctx, wire(req))
			incremented = resp.GetIsIncremented()
		case "uint16":
			req := &hydrapb.IncrementUint16Request{IslandID: isl, SwampName: sw, Key: st.Key, IncrementBy: by, SetIfNotExist: ne, SetIfExist: ex}
			if st.Cond != 0 {
				req.Condition = &hydrapb.IncrementUint16Condition{RelationalOperator: rel, Value: cv}
			}
			resp, _ := r.GW.IncrementUint16(ctx, wire(req))
			incremented = resp.GetIsIncremented()
		default:
			req := &hydrapb.IncrementUint32Request{IslandID: isl, SwampName: sw, Key: st.Key, IncrementBy: by, SetIfNotExist: ne, SetIfExist: ex}
			if st.Cond != 0 {
				req.Condition = &hydrapb.IncrementUint32Condition{RelationalOperator: rel, Value: cv}
			}
			resp, _ := r.GW.IncrementUint32(ctx, wire(req))
			incremented = resp.GetIsIncremented()
		}
	case "uint64":
		by := uintVal(st.Kind, st.Class, st.Bits)
		if by == 0 {
			by = 1
		}
		req := &hydrapb.IncrementUint64Request{IslandID: isl, SwampName: sw, Key: st.Key, IncrementBy: by, SetIfNotExist: ne, SetIfExist: ex}
		if st.Cond != 0 {
			cv := uint64(0)
			if st.Cond == 2 {
				cv = math.MaxUint64
			}
			req.Condition = &hydrapb.IncrementUint64Condition{RelationalOperator: rel, Value: cv}
		}
		resp, _ := r.GW.IncrementUint64(ctx, wire(req))
		incremented = resp.GetIsIncremented()
	case "float32":
		by := float32(floatVal(st.Kind, st.Class, st.Bits))
		if by == 0 {
			by = 1
		}
		req := &hydrapb.IncrementFloat32Request{IslandID: isl, SwampName: sw, Key: st.Key, IncrementBy: by, SetIfNotExist: ne, SetIfExist: ex}
		if st.Cond != 0 {
			cv := float32(0)
			if st.Cond == 2 {
				cv = float32(math.Inf(1))
			}
			req.Condition = &hydrapb.IncrementFloat32Condition{RelationalOperator: rel, Value: cv}
		}
		resp, _ := r.GW.IncrementFloat32(ctx, wire(req))
		incremented = resp.GetIsIncremented()
	case "float64":
		by := floatVal(st.Kind, st.Class, st.Bits)
		if by == 0 {
			by = 1
		}
		req := &hydrapb.IncrementFloat64Request{IslandID: isl, SwampName: sw, Key: st.Key, IncrementBy: by, SetIfNotExist: ne, SetIfExist: ex}
		if st.Cond != 0 {
			cv := float64(0)
			if st.Cond == 2 {
				cv = math.Inf(1)
			}
			req.Condition = &hydrapb.IncrementFloat64Condition{RelationalOperator: rel, Value: cv}
		}
		resp, _ := r.GW.IncrementFloat64(ctx, wire(req))
		incremented = resp.GetIsIncremented()
	}
	cr.seen("inc_outcome", fmt.Sprint(incremented))
}

// runCase executes one case in its own bubble on its own data root.
func runCase(t *testing.T, cs caseSpec) (cr caseResult) {
	root := rig.TempRoot("c05")
	defer rig.RemoveAll(root)
	sent := rig.InstallSentinel()
	sent.Drain()
	keys := caseKeys(cs)
	// wall-clock watchdog (outside the bubble): a frozen case can only be reported, never decided
	wd := time.AfterFunc(3*time.Minute, func() {
		fmt.Printf("INCONCLUSIVE property=C05: case %s did not finish within 3 minutes wall time (a request never returned?)\n%s\n", cs.Name, rig.Dump(cs))
		buf := make([]byte, 1<<20)
		fmt.Printf("%s\n", buf[:runtime.Stack(buf, true)])
		os.Exit(1)
	})
	defer wd.Stop()
	synctest.Test(t, func(t *testing.T) {
		r := rig.New(rig.Options{Root: root})
		r.Register(pattern(cs.Swamp), false, cs.IdleSec, cs.WriteSec)
		for _, st := range cs.Steps {
			apply(r, cs, st, &cr)
		}
		// all writes have returned; let background work (event fan-out, write tick of this instant) settle
		synctest.Wait()
		if cs.SettleMs > 0 {
			time.Sleep(time.Duration(cs.SettleMs) * time.Millisecond)
		}
		a := observe(r, cs.Swamp, keys)
		cr.Requests += a.Requests
		cr.KeysInA = len(a.Get)
		for _, tr := range a.Get {
			cr.seen("stored_kinds", kindOf(tr)+":"+classOf(tr))
			if tr.CreatedAt != nil || tr.UpdatedAt != nil || tr.ExpiredAt != nil || tr.CreatedBy != nil || tr.UpdatedBy != nil {
				cr.seen("stored_meta", "some")
			} else {
				cr.seen("stored_meta", "none")
			}
		}
		// reads must not change what is stored: a second pass right away has to agree with the first
		a2 := observe(r, cs.Swamp, keys)
		cr.Requests += a2.Requests
		if d := compare(a, a2, keys); len(d) > 0 {
			cr.Inconclusive = "observation A is not stable under re-reading: " + d[0].Clause
		}

		switch cs.Close {
		case "idle":
			time.Sleep(time.Duration(cs.IdleSec+4) * time.Second)
			if n := r.Active(); n != 0 {
				cr.Inconclusive = fmt.Sprintf("swamp was not evicted after idle+4s (active=%d)", n)
			}
		default: // restart
			r.Stop()
			time.Sleep(2 * time.Minute)
			if n := r.Active(); n != 0 {
				cr.Inconclusive = fmt.Sprintf("engine stop left %d swamps open", n)
			}
			r = rig.New(rig.Options{Root: root})
			r.Register(pattern(cs.Swamp), false, cs.IdleSec, cs.WriteSec)
		}
		if _, err := os.Stat(r.HydPath(cs.Swamp)); err == nil {
			cr.HydAfter = true
		}
		if cr.KeysInA > 0 && !cr.HydAfter && cr.Inconclusive == "" {
			// records existed but there is no storage file: observation B will say so key by key
			cr.seen("notes", "no-hyd-file-after-close")
		}
		b := observe(r, cs.Swamp, keys)
		cr.Requests += b.Requests
		if cr.Inconclusive == "" {
			cr.Findings = compare(a, b, keys)
		}
		cr.Nontrivial = cr.KeysInA > 0 && cr.Inconclusive == ""
		r.Stop()
		time.Sleep(2 * time.Minute)
	})
	for _, rec := range sent.Drain("panic", "load", "decode") {
		s := rec.Class + ": " + rec.Msg + " " + rec.Attrs
		if len(s) > 400 {
			s = s[:400]
		}
		cr.Sentinel = append(cr.Sentinel, s)
	}
	sent.Drain()
	return cr
}

func TestCheck(t *testing.T) {
	c := rig.NewCheck(t, "C05", "exploration")
	defer c.Finish()
	c.Rule = "a case = one request history (Set of every value kind incl. zero-like/extreme values with metadata set/unset, Increment*, PatchTreasures, Uint32SlicePush/Delete, Delete, pauses incl. mid-history evictions) on a persistent swamp in a synctest bubble (short histories of 1-15 requests; plus long histories of 100-400 writes over 3-10 keys spread over many write ticks that push the storage file across its inline-compaction trigger, some sized to cross it in the last batch before the close; plus histories whose last change to a key alters only a chosen subset of the five metadata fields, value identical, via Set / Increment SetIfExist+SetIfNotExist / PatchTreasures Meta, on flushed and on reloaded records; plus histories whose last change to a key is a value change of identical encoded size (PatchTreasures ops without Meta, Set, Increment*) on a record already written by immediate mode / a write tick / an explicit flush / an eviction), x write mode (interval 1s / immediate) x close kind (idle eviction / graceful stop + new engine on the same root); Get, GetByKeys, GetAll, GetByIndex (15 index types x 2 orders), Count, IsKeyExist, Uint32SliceSize are recorded before the close and after the reload and compared key by key; non-trivial = at least one key existed in observation A and the close was confirmed (active swamps == 0); distinct = distinct case JSON"
	c.Assumptions = []string{
		"values are compared with proto.Equal after a protobuf wire round-trip of every response: NaN equals NaN and -0.0 equals +0.0 (weaker reading of 'same value'); a sign or NaN-payload change would not be reported",
		"a swamp that does not exist is read as 'no key exists, count 0'; existence of the swamp as a container is not compared (the statement speaks about keys)",
		"GetByIndex results are compared as sets of records; their order only for the KEY and the three time indexes, when every record is unchanged and the sort keys are pairwise distinct (ties have no documented order; the order of VALUE_* indexes depends on which value type was queried first on the live swamp, which belongs to C07)",
		"metadata timestamps are chosen far before / far after the virtual clock so that expiry status cannot change between the two observations",
		"requests go through a protobuf wire round-trip first: an empty repeated Uint32Slice in Set is indistinguishable from 'no value' for a real client and is generated as such; empty uint32 slices are produced with Uint32SlicePush instead",
		"graceful shutdown = zeus' panic-signal path (StopHydra) as driven by rig.Stop; the SIGTERM path of server.Stop is not driven",
		"V2 storage engine only; single client, no concurrency during the close",
	}
	n := c.N(150, 3000)
	cases := append(matrixCases(), metaOnlyCases()...)
	cases = append(cases, sameSizeCases()...)
	nExact, nLong := c.N(24, 240), c.N(16, 360)
	for i := 0; i < nExact; i++ {
		cases = append(cases, genLongExact(c.Rand(1_000_000+i), i))
	}
	for i := 0; i < nLong; i++ {
		cases = append(cases, genLongRandom(c.Rand(2_000_000+i), i))
	}
	for i := 0; len(cases) < n; i++ {
		cases = append(cases, genCase(c.Rand(i), i))
	}
	if p := c.ReplayPath(); p != "" {
		var w struct {
			Witness struct {
				Case caseSpec `json:"case"`
			} `json:"witness"`
		}
		rig.ReadJSON(p, &w)
		cases = []caseSpec{w.Witness.Case}
	}
	for _, cs := range cases {
		cr := runCase(t, cs)
		c.Case(rig.Dump(cs), cr.Nontrivial)
		c.Sample(cs)
		c.Count("requests", int64(cr.Requests))
		c.Count("steps", int64(len(cs.Steps)))
		c.Count("keys_compared", int64(cr.KeysInA))
		if cr.HydAfter {
			c.Count("hyd_file_present_after_close", 1)
		}
		c.Seen("close_kinds", fmt.Sprintf("%s/write=%ds", cs.Close, cs.WriteSec))
		for set, vs := range cr.Seen {
			for _, v := range vs {
				c.Seen(set, v)
			}
		}
		if cr.Inconclusive != "" {
			c.Inconclusive(cr.Inconclusive)
			continue
		}
		// one violation per distinct (clause, last request kind on the key) of this case
		last := lastOp(cs)
		byClause := map[string][]finding{}
		var order []string
		for _, f := range cr.Findings {
			g := f.Clause + "\x00" + last[f.Key]
			if _, ok := byClause[g]; !ok {
				order = append(order, g)
			}
			byClause[g] = append(byClause[g], f)
		}
		for _, cl := range order {
			fs := byClause[cl]
			cl = fs[0].Clause
			sig := "reload:" + cl
			if fs[0].Key != "" {
				sig += ":last=" + last[fs[0].Key]
			}
			sig += ":" + cs.Close
			c.Seen("observed_signatures", sig)
			if os.Getenv("C05_DEBUG") != "" {
				fmt.Printf("SIG %s\t%s\t%s\n", sig, cs.Name, fs[0].Key)
			}
			what := fmt.Sprintf("%s key %q: before close %s, after %s reload %s (write interval %ds, case %s)", fs[0].API, fs[0].Key, fs[0].Before, cs.Close, fs[0].After, cs.WriteSec, cs.Name)
			if len(fs) > 4 {
				fs = fs[:4]
			}
			c.Violate(sig, what, map[string]any{"case": cs, "findings": fs, "sentinel": cr.Sentinel})
		}
	}
}
