package c05

import (
	"encoding/binary"
	"fmt"
	"math"
	"math/rand/v2"
	"strings"
	"time"

	hydrapb "github.com/hydraide/hydraide/sdk/go/hydraidego/v3/hydraidepbgo"
	"google.golang.org/protobuf/types/known/timestamppb"
)

// ---------------------------------------------------------------------------
// Case description (JSON-serialisable; this is what a replay file contains)

type metaSpec struct {
	CA int `json:"ca,omitempty"` // index into tsChoices, 0 = unset
	CB int `json:"cb,omitempty"` // index into byChoices, 0 = unset
	UA int `json:"ua,omitempty"`
	UB int `json:"ub,omitempty"`
	EA int `json:"ea,omitempty"`
}

type patchSpec struct {
	Create  bool      `json:"create,omitempty"`
	Initial int       `json:"initial,omitempty"` // index into patchInitials
	Ops     []int     `json:"ops,omitempty"`     // indexes into patchOps
	ReqMeta *metaSpec `json:"reqMeta,omitempty"`
	KeyMeta *metaSpec `json:"keyMeta,omitempty"`
	Clear   bool      `json:"clear,omitempty"` // ClearExpiredAt on the effective meta
}

type step struct {
	Op        string     `json:"op"` // set inc patch push sdel del sleep
	Key       string     `json:"key,omitempty"`
	Kind      string     `json:"kind,omitempty"`
	Class     string     `json:"class,omitempty"`
	Bits      uint64     `json:"bits,omitempty"`
	Meta      *metaSpec  `json:"meta,omitempty"`  // set: metadata; inc: SetIfNotExist
	Meta2     *metaSpec  `json:"meta2,omitempty"` // inc: SetIfExist
	Create    bool       `json:"create,omitempty"`
	Overwrite bool       `json:"overwrite,omitempty"`
	Cond      int        `json:"cond,omitempty"` // inc: 0 none, 1 "== 0", 2 never true
	Vals      []uint32   `json:"vals,omitempty"`
	Keys      []string   `json:"keys,omitempty"`
	Ms        int        `json:"ms,omitempty"`
	Patch     *patchSpec `json:"patch,omitempty"`
}

type caseSpec struct {
	Name     string `json:"name"`
	WriteSec int64  `json:"writeSec"` // 1 = default interval, 0 = immediate mode
	IdleSec  int64  `json:"idleSec"`
	Close    string `json:"close"`    // idle | restart
	SettleMs int    `json:"settleMs"` // virtual pause between the last write and observation A
	Swamp    string `json:"swamp"`
	Steps    []step `json:"steps"`
}

// ---------------------------------------------------------------------------
// Value tables

var numericKinds = []string{"int8", "int16", "int32", "int64", "uint8", "uint16", "uint32", "uint64", "float32", "float64"}
var allKinds = append(append([]string{}, numericKinds...), "string", "bool", "bytes", "uint32slice", "void", "none")

func classesOf(kind string) []string {
	switch kind {
	case "int8", "int16", "int32", "int64":
		return []string{"zero", "one", "neg1", "max", "min", "rand"}
	case "uint8", "uint16", "uint32", "uint64":
		return []string{"zero", "one", "max", "rand"}
	case "float32", "float64":
		return []string{"zero", "negzero", "one", "nan", "inf", "ninf", "max", "denorm", "rand"}
	case "string":
		return []string{"empty", "a", "nul", "uni", "long", "rand"}
	case "bool":
		return []string{"false", "true"}
	case "bytes":
		return []string{"empty", "zero1", "nul4", "msgpack", "big", "rand", "msgpack2"}
	case "uint32slice":
		return []string{"empty", "zero", "many", "rand"}
	case "void":
		return []string{"true", "false"}
	default: // none
		return []string{"none"}
	}
}

var intLimits = map[string][2]int64{
	"int8": {math.MinInt8, math.MaxInt8}, "int16": {math.MinInt16, math.MaxInt16},
	"int32": {math.MinInt32, math.MaxInt32}, "int64": {math.MinInt64, math.MaxInt64},
}
var uintLimits = map[string]uint64{"uint8": math.MaxUint8, "uint16": math.MaxUint16, "uint32": math.MaxUint32, "uint64": math.MaxUint64}

func intVal(kind, class string, bits uint64) int64 {
	lim := intLimits[kind]
	switch class {
	case "zero":
		return 0
	case "one":
		return 1
	case "neg1":
		return -1
	case "max":
		return lim[1]
	case "min":
		return lim[0]
	}
	span := uint64(lim[1]-lim[0]) + 1
	if span == 0 {
		return int64(bits)
	}
	return lim[0] + int64(bits%span)
}

func uintVal(kind, class string, bits uint64) uint64 {
	switch class {
	case "zero":
		return 0
	case "one":
		return 1
	case "max", "neg1":
		return uintLimits[kind]
	}
	if uintLimits[kind] == math.MaxUint64 {
		return bits
	}
	return bits % (uintLimits[kind] + 1)
}

func floatVal(kind, class string, bits uint64) float64 {
	switch class {
	case "zero":
		return 0
	case "negzero":
		return math.Copysign(0, -1)
	case "one":
		return 1
	case "neg1":
		return -1
	case "nan":
		return math.NaN()
	case "inf":
		return math.Inf(1)
	case "ninf":
		return math.Inf(-1)
	case "max":
		if kind == "float32" {
			return math.MaxFloat32
		}
		return math.MaxFloat64
	case "denorm":
		if kind == "float32" {
			return math.SmallestNonzeroFloat32
		}
		return math.SmallestNonzeroFloat64
	}
	if kind == "float32" {
		return float64(math.Float32frombits(uint32(bits)))
	}
	return math.Float64frombits(bits)
}

var msgpackDoc = []byte{0x83, 0xa1, 'a', 0x01, 0xa1, 'n', 0x00, 0xa1, 'l', 0x90} // {"a":1,"n":0,"l":[]}

// msgpackDoc2 = {"a":1,"n":0,"b":true,"s":"abc","i":int64(5),"f":float64(0.5),"u":uint8(16),"l":[]}
var msgpackDoc2 = []byte{0x88, 0xa1, 'a', 0x01, 0xa1, 'n', 0x00, 0xa1, 'b', 0xc3, 0xa1, 's', 0xa3, 'a', 'b', 'c',
	0xa1, 'i', 0xd3, 0, 0, 0, 0, 0, 0, 0, 5, 0xa1, 'f', 0xcb, 0x3f, 0xe0, 0, 0, 0, 0, 0, 0, 0xa1, 'u', 0xcc, 0x10, 0xa1, 'l', 0x90}

func stringVal(class string, bits uint64) string {
	switch class {
	case "empty":
		return ""
	case "a":
		return "a"
	case "nul":
		return "\x00"
	case "uni":
		return "árvíztűrő tükörfúrógép ✓\n\t 0"
	case "long":
		return strings.Repeat("0123456789abcdef", 130)
	}
	return fmt.Sprintf("s-%x", bits)
}

func bytesVal(class string, bits uint64) []byte {
	switch class {
	case "empty":
		return []byte{}
	case "zero1":
		return []byte{0}
	case "nul4":
		return []byte{0, 0, 0, 0}
	case "msgpack":
		return append([]byte{0xC7, 0x00}, msgpackDoc...)
	case "msgpack2":
		return append([]byte{0xC7, 0x00}, msgpackDoc2...)
	case "big":
		b := make([]byte, 20000)
		for i := range b {
			b[i] = byte(uint64(i) * (bits | 1) >> 3)
		}
		return b
	}
	b := make([]byte, 8)
	binary.LittleEndian.PutUint64(b, bits)
	return b
}

func sliceVal(class string, bits uint64) []uint32 {
	switch class {
	case "empty":
		return []uint32{}
	case "zero":
		return []uint32{0}
	case "many":
		return []uint32{0, 1, math.MaxUint32}
	}
	return []uint32{uint32(bits), uint32(bits >> 32), 7}
}

// virtual time starts at 2000-01-01; every choice is either far before or far after the
// window a case runs in, so "is it expired" never changes between the two observations.
var tsChoices = []*timestamppb.Timestamp{
	nil,
	{Seconds: 0, Nanos: 1},
	{Seconds: 1, Nanos: 0},
	timestamppb.New(time.Date(1999, 12, 31, 23, 59, 59, 500000000, time.UTC)),
	timestamppb.New(time.Date(2100, 1, 1, 0, 0, 0, 0, time.UTC)),
	timestamppb.New(time.Unix(0, math.MaxInt64).UTC()),
	timestamppb.New(time.Date(9999, 12, 31, 23, 59, 59, 999999999, time.UTC)),
	{Seconds: 0, Nanos: 0}, // present but "invalid" for the server: ignored
	timestamppb.New(time.Date(2033, 5, 18, 3, 33, 20, 123456789, time.UTC)),
}

var byChoices = []*string{nil, sp(""), sp("u1"), sp("üser ✓ with space"), sp(strings.Repeat("x", 300))}

func sp(s string) *string { return &s }

// buildKV builds the wire KeyValuePair of a set step.
func buildKV(st step) *hydrapb.KeyValuePair {
	kv := &hydrapb.KeyValuePair{Key: st.Key}
	switch st.Kind {
	case "int8":
		v := int32(intVal(st.Kind, st.Class, st.Bits))
		kv.Int8Val = &v
	case "int16":
		v := int32(intVal(st.Kind, st.Class, st.Bits))
		kv.Int16Val = &v
	case "int32":
		v := int32(intVal(st.Kind, st.Class, st.Bits))
		kv.Int32Val = &v
	case "int64":
		v := intVal(st.Kind, st.Class, st.Bits)
		kv.Int64Val = &v
	case "uint8":
		v := uint32(uintVal(st.Kind, st.Class, st.Bits))
		kv.Uint8Val = &v
	case "uint16":
		v := uint32(uintVal(st.Kind, st.Class, st.Bits))
		kv.Uint16Val = &v
	case "uint32":
		v := uint32(uintVal(st.Kind, st.Class, st.Bits))
		kv.Uint32Val = &v
	case "uint64":
		v := uintVal(st.Kind, st.Class, st.Bits)
		kv.Uint64Val = &v
	case "float32":
		v := float32(floatVal(st.Kind, st.Class, st.Bits))
		kv.Float32Val = &v
	case "float64":
		v := floatVal(st.Kind, st.Class, st.Bits)
		kv.Float64Val = &v
	case "string":
		v := stringVal(st.Class, st.Bits)
		kv.StringVal = &v
	case "bool":
		v := hydrapb.Boolean_FALSE
		if st.Class == "true" {
			v = hydrapb.Boolean_TRUE
		}
		kv.BoolVal = &v
	case "bytes":
		kv.BytesVal = bytesVal(st.Class, st.Bits)
	case "uint32slice":
		kv.Uint32Slice = sliceVal(st.Class, st.Bits)
	case "void":
		v := st.Class == "true"
		kv.VoidVal = &v
	}
	if m := st.Meta; m != nil {
		kv.CreatedAt = tsChoices[m.CA%len(tsChoices)]
		kv.CreatedBy = byChoices[m.CB%len(byChoices)]
		kv.UpdatedAt = tsChoices[m.UA%len(tsChoices)]
		kv.UpdatedBy = byChoices[m.UB%len(byChoices)]
		kv.ExpiredAt = tsChoices[m.EA%len(tsChoices)]
	}
	return kv
}

func incMeta(m *metaSpec) *hydrapb.IncrementRequestMetadata {
	if m == nil {
		return nil
	}
	out := &hydrapb.IncrementRequestMetadata{}
	t := true
	if m.CA != 0 {
		out.CreatedAt = &t
	}
	if m.UA != 0 {
		out.UpdatedAt = &t
	}
	out.CreatedBy = byChoices[m.CB%len(byChoices)]
	out.UpdatedBy = byChoices[m.UB%len(byChoices)]
	out.ExpiredAt = tsChoices[m.EA%len(tsChoices)]
	return out
}

func patchMeta(m *metaSpec, clear bool) *hydrapb.PatchMeta {
	if m == nil {
		return nil
	}
	return &hydrapb.PatchMeta{
		SetUpdatedAt: m.UA != 0, SetUpdatedBy: byChoices[m.UB%len(byChoices)],
		SetCreatedAt: m.CA != 0, SetCreatedBy: byChoices[m.CB%len(byChoices)],
		SetExpiredAt: tsChoices[m.EA%len(tsChoices)], ClearExpiredAt: clear,
	}
}

var patchInitials = [][]byte{nil, {0x80}, msgpackDoc, {0xc1}, msgpackDoc2}

var patchOps = []*hydrapb.PatchOp{
	{Op: hydrapb.PatchOp_SET, Path: "a", Value: []byte{0x00}},
	{Op: hydrapb.PatchOp_SET, Path: "a", Value: []byte{0x01}},
	{Op: hydrapb.PatchOp_SET, Path: "s", Value: []byte{0xa0}},
	{Op: hydrapb.PatchOp_SET, Path: "b", Value: []byte{0xc2}},
	{Op: hydrapb.PatchOp_SET, Path: "z", Value: []byte{0xc0}},
	{Op: hydrapb.PatchOp_SET, Path: "f", Value: []byte{0xcb, 0, 0, 0, 0, 0, 0, 0, 0}},
	{Op: hydrapb.PatchOp_INC, Path: "n", Value: []byte{0x01}},
	{Op: hydrapb.PatchOp_INC, Path: "n", Value: []byte{0xff}},
	{Op: hydrapb.PatchOp_DELETE, Path: "a"},
	{Op: hydrapb.PatchOp_APPEND, Path: "l[]", Value: []byte{0x00}},
	{Op: hydrapb.PatchOp_REMOVE_AT, Path: "l[0]"},
	{Op: hydrapb.PatchOp_SET, Path: "deep.x.y", Value: []byte{0x90}},
	{Op: hydrapb.PatchOp_MERGE, Path: "deep", Value: []byte{0x81, 0xa1, 'm', 0x00}},
	{Op: hydrapb.PatchOp_SET, Path: "a", Value: []byte{0xc4, 0x00}},
	{Op: hydrapb.PatchOp_DELETE, Path: "n"},
	// 15..: changes that keep the encoded length of msgpackDoc2 (and mostly of msgpackDoc)
	{Op: hydrapb.PatchOp_SET, Path: "b", Value: []byte{0xc2}},
	{Op: hydrapb.PatchOp_SET, Path: "s", Value: []byte{0xa3, 'x', 'y', 'z'}},
	{Op: hydrapb.PatchOp_INC, Path: "i", Value: []byte{0xd3, 0, 0, 0, 0, 0, 0, 0, 1}},
	{Op: hydrapb.PatchOp_SET, Path: "i", Value: []byte{0xd3, 0x7f, 0xff, 0xff, 0xff, 0xff, 0xff, 0xff, 0xff}},
	{Op: hydrapb.PatchOp_SET, Path: "f", Value: []byte{0xcb, 0x3f, 0xf8, 0, 0, 0, 0, 0, 0}},
	{Op: hydrapb.PatchOp_INC, Path: "f", Value: []byte{0xcb, 0x3f, 0xf0, 0, 0, 0, 0, 0, 0}},
	{Op: hydrapb.PatchOp_SET, Path: "u", Value: []byte{0xcc, 0x7f}},
	{Op: hydrapb.PatchOp_INC, Path: "u", Value: []byte{0x01}},
	{Op: hydrapb.PatchOp_SET, Path: "a", Value: []byte{0x02}},
	{Op: hydrapb.PatchOp_SET, Path: "b", Value: []byte{0xc3}},
}

const firstSameSizeOp = 15

// ---------------------------------------------------------------------------
// Generation

var keyPool = []string{"k0", "k1", "k2", "k3", "k4", "k5", "kulcs ✓", "k/with:odd chars", "0"}

func genMeta(r *rand.Rand, p int) *metaSpec {
	if r.IntN(100) >= p {
		return nil
	}
	m := &metaSpec{}
	pick := func(n int) int {
		if r.IntN(3) == 0 {
			return 0
		}
		return 1 + r.IntN(n-1)
	}
	m.CA, m.UA, m.EA = pick(len(tsChoices)), pick(len(tsChoices)), pick(len(tsChoices))
	m.CB, m.UB = pick(len(byChoices)), pick(len(byChoices))
	return m
}

func genSet(r *rand.Rand, key string) step {
	kind := allKinds[r.IntN(len(allKinds))]
	cl := classesOf(kind)
	// bias towards the zero-like classes, which sit at the front of every class list
	var class string
	if r.IntN(100) < 45 {
		class = cl[0]
		if len(cl) > 1 && (kind == "float32" || kind == "float64") && r.IntN(3) == 0 {
			class = cl[1]
		}
	} else {
		class = cl[r.IntN(len(cl))]
	}
	st := step{Op: "set", Key: key, Kind: kind, Class: class, Bits: r.Uint64(), Meta: genMeta(r, 55), Create: true, Overwrite: true}
	switch r.IntN(12) {
	case 0:
		st.Create = false
	case 1:
		st.Overwrite = false
	}
	return st
}

func genCase(r *rand.Rand, idx int) caseSpec {
	cs := caseSpec{Name: fmt.Sprintf("rand-%d", idx)}
	cs.WriteSec = int64(idx % 2) // alternate immediate / interval mode
	if (idx/2)%2 == 0 {
		cs.Close = "idle"
	} else {
		cs.Close = "restart"
	}
	cs.IdleSec = int64(2 + r.IntN(4))
	cs.SettleMs = []int{0, 0, 300, 1500}[r.IntN(4)]
	cs.Swamp = fmt.Sprintf("c05/w%d/s%d", cs.WriteSec, idx)
	nk := 2 + r.IntN(5)
	keys := make([]string, nk)
	perm := r.Perm(len(keyPool))
	for i := range keys {
		keys[i] = keyPool[perm[i]]
	}
	key := func() string { return keys[r.IntN(len(keys))] }
	n := 1 + r.IntN(14)
	for len(cs.Steps) < n {
		x := r.IntN(100)
		switch {
		case x < 40:
			cs.Steps = append(cs.Steps, genSet(r, key()))
		case x < 46:
			// repeat an earlier Set of the history with the identical value and a random subset of the metadata only
			var prev *step
			for i := len(cs.Steps) - 1; i >= 0; i-- {
				if cs.Steps[i].Op == "set" && cs.Steps[i].Class != "nan" {
					prev = &cs.Steps[i]
					break
				}
			}
			if prev == nil {
				cs.Steps = append(cs.Steps, genSet(r, key()))
				continue
			}
			st := *prev
			st.Create, st.Overwrite = true, true
			st.Meta = metaFor(1+r.IntN(31), r.IntN(5))
			if r.IntN(2) == 0 {
				cs.Steps = append(cs.Steps, step{Op: "sleep", Ms: []int{1100, int(cs.IdleSec+4) * 1000}[r.IntN(2)]})
			}
			cs.Steps = append(cs.Steps, st)
		case x < 54:
			// a typed value brought to its zero by an increment
			k := key()
			kind := numericKinds[r.IntN(len(numericKinds))]
			set := step{Op: "set", Key: k, Kind: kind, Class: "one", Meta: genMeta(r, 40), Create: true, Overwrite: true}
			inc := step{Op: "inc", Key: k, Kind: kind, Class: "neg1", Meta2: genMeta(r, 40)}
			if strings.HasPrefix(kind, "uint") {
				set.Class, inc.Class = "max", "one" // wraps to 0
			}
			cs.Steps = append(cs.Steps, set, inc)
		case x < 62:
			kind := numericKinds[r.IntN(len(numericKinds))]
			cl := []string{"one", "neg1", "max", "rand"}
			if strings.HasPrefix(kind, "float") {
				cl = append(cl, "nan", "inf", "denorm")
			}
			cs.Steps = append(cs.Steps, step{Op: "inc", Key: key(), Kind: kind, Class: cl[r.IntN(len(cl))], Bits: r.Uint64(),
				Meta: genMeta(r, 50), Meta2: genMeta(r, 50), Cond: []int{0, 0, 0, 1, 2}[r.IntN(5)]})
		case x < 72:
			p := &patchSpec{Create: r.IntN(4) != 0, Initial: r.IntN(len(patchInitials)), ReqMeta: genMeta(r, 40), KeyMeta: genMeta(r, 25), Clear: r.IntN(6) == 0}
			if r.IntN(3) == 0 { // a bare patch: no metadata stamping in the call
				p.ReqMeta, p.KeyMeta, p.Clear = nil, nil, false
			}
			if p.Initial == 3 && r.IntN(3) != 0 {
				p.Initial = 0
			}
			for i, m := 0, r.IntN(4); i < m; i++ {
				p.Ops = append(p.Ops, r.IntN(len(patchOps)))
			}
			cs.Steps = append(cs.Steps, step{Op: "patch", Key: key(), Patch: p})
		case x < 79:
			var vals []uint32
			for i, m := 0, r.IntN(4); i < m; i++ {
				vals = append(vals, []uint32{0, 1, 2, math.MaxUint32}[r.IntN(4)])
			}
			cs.Steps = append(cs.Steps, step{Op: "push", Key: key(), Vals: vals})
		case x < 84:
			var vals []uint32
			for i, m := 0, r.IntN(4); i < m; i++ {
				vals = append(vals, []uint32{0, 1, 2, math.MaxUint32}[r.IntN(4)])
			}
			cs.Steps = append(cs.Steps, step{Op: "sdel", Key: key(), Vals: vals})
		case x < 91:
			ks := []string{key()}
			if r.IntN(3) == 0 {
				ks = append(ks, key(), "never-written")
			}
			cs.Steps = append(cs.Steps, step{Op: "del", Keys: ks})
		default:
			// pauses: shorter than a write tick, longer than one, or long enough for an eviction + reload mid-history
			if r.IntN(5) == 0 {
				cs.Steps = append(cs.Steps, step{Op: "flush"})
				continue
			}
			ms := []int{300, 1100, 2500, int(cs.IdleSec+4) * 1000}[r.IntN(4)]
			cs.Steps = append(cs.Steps, step{Op: "sleep", Ms: ms})
		}
	}
	return cs
}

// matrixCases: every value kind x class stored under its own key in one swamp, with and
// without metadata, for both write modes and both close kinds.
func matrixCases() []caseSpec {
	var out []caseSpec
	i := 0
	for _, ws := range []int64{1, 0} {
		for _, cl := range []string{"idle", "restart"} {
			for _, withMeta := range []bool{false, true} {
				cs := caseSpec{Name: fmt.Sprintf("matrix-w%d-%s-meta%v", ws, cl, withMeta), WriteSec: ws, IdleSec: 3, Close: cl,
					Swamp: fmt.Sprintf("c05/m%d/%s%v", ws, cl, withMeta)}
				n := 0
				for _, kind := range allKinds {
					for _, class := range classesOf(kind) {
						st := step{Op: "set", Key: kind + ":" + class, Kind: kind, Class: class, Bits: 0x9E3779B97F4A7C15 * uint64(n+1), Create: true, Overwrite: true}
						if withMeta {
							st.Meta = &metaSpec{CA: 1 + n%(len(tsChoices)-1), CB: 1 + n%(len(byChoices)-1), UA: 1 + (n+3)%(len(tsChoices)-1), UB: 1 + (n+2)%(len(byChoices)-1), EA: 1 + (n+5)%(len(tsChoices)-1)}
						}
						cs.Steps = append(cs.Steps, st)
						n++
					}
				}
				// typed zeros reached through other operations than Set
				for _, kind := range numericKinds {
					k := "inc0:" + kind
					set := step{Op: "set", Key: k, Kind: kind, Class: "one", Create: true, Overwrite: true}
					inc := step{Op: "inc", Key: k, Kind: kind, Class: "neg1"}
					if strings.HasPrefix(kind, "uint") {
						set.Class, inc.Class = "max", "one"
					}
					if withMeta {
						inc.Meta2 = &metaSpec{UA: 1, UB: 2}
					}
					cs.Steps = append(cs.Steps, set, inc)
				}
				cs.Steps = append(cs.Steps,
					step{Op: "push", Key: "push:empty"},
					step{Op: "push", Key: "push:zero", Vals: []uint32{0}},
					step{Op: "patch", Key: "patch:empty-map", Patch: &patchSpec{Create: true}},
					step{Op: "patch", Key: "patch:zeros", Patch: &patchSpec{Create: true, Initial: 2, Ops: []int{0, 2, 3, 4, 5, 7, 7}}},
				)
				// requests that end without a save, issued after everything above has been flushed:
				// conditional increments whose condition is false, on a valueless and on a typed record
				cs.Steps = append(cs.Steps,
					step{Op: "set", Key: "inccond:void", Kind: "void", Class: "true", Meta: &metaSpec{CB: 2, UB: 2}, Create: true, Overwrite: true},
					step{Op: "set", Key: "inccond:int8", Kind: "int8", Class: "rand", Bits: 5, Meta: &metaSpec{CB: 2, UB: 2}, Create: true, Overwrite: true},
					step{Op: "sleep", Ms: 1500},
					step{Op: "inc", Key: "inccond:void", Kind: "int32", Class: "one", Cond: 2, Meta: &metaSpec{UB: 3}},
					step{Op: "inc", Key: "inccond:int8", Kind: "int8", Class: "one", Cond: 2, Meta2: &metaSpec{UB: 3}},
				)
				if i%2 == 1 {
					cs.SettleMs = 1500
				}
				i++
				out = append(out, cs)
			}
		}
	}
	return out
}

// ---------------------------------------------------------------------------
// Long histories: few keys overwritten / deleted / re-created over more than a hundred flushed
// entries, so that the storage file crosses the inline-compaction trigger (>= 100 entries in
// the file, entries >= 2 x live keys, dead fraction > 0.3) while the swamp is being written.

// uniqueSet writes a value that no other write of the history uses (seq >= 1, never zero-like).
func uniqueSet(r *rand.Rand, key string, seq uint64) step {
	kind := []string{"int64", "string", "bytes", "uint32", "float64"}[r.IntN(5)]
	st := step{Op: "set", Key: key, Kind: kind, Class: "rand", Bits: seq, Create: true, Overwrite: true}
	if kind == "float64" {
		st.Bits = math.Float64bits(float64(seq) + 0.5)
	}
	if r.IntN(3) == 0 {
		st.Meta = &metaSpec{CB: 2 + int(seq%3), UA: 1 + int(seq%6), UB: 2 + int((seq+1)%3), EA: []int{0, 3, 4}[seq%3]}
	}
	return st
}

// genLongExact: the history is sized so that the file reaches the compaction trigger in the
// very last flushed batch before the close (or within a few writes of it); that batch holds an
// update, and possibly a delete of an old key and the insert of a new one.
func genLongExact(r *rand.Rand, idx int) caseSpec {
	cs := caseSpec{Name: fmt.Sprintf("long-exact-%d", idx), WriteSec: int64(idx % 2), IdleSec: 3}
	cs.Close = []string{"idle", "restart"}[(idx/2)%2]
	cs.Swamp = fmt.Sprintf("c05/x%d/s%d", cs.WriteSec, idx)
	k := 3 + r.IntN(8)
	keys := make([]string, k)
	for i := range keys {
		keys[i] = fmt.Sprintf("L%d", i)
	}
	seq := uint64(0)
	next := func(key string) step { seq++; return uniqueSet(r, key, seq) }
	special := r.IntN(3) // what else the trigger batch holds: 0 nothing, 1 a delete, 2 an insert, (interval mode: both for 1)
	if cs.WriteSec == 0 {
		// immediate mode: every changing request appends one entry
		for i := 0; i < 99; i++ {
			cs.Steps = append(cs.Steps, next(keys[i%k]))
		}
		trigger := keys[99%k]
		switch special {
		case 0:
			cs.Steps = append(cs.Steps, next(trigger))
		case 1:
			cs.Steps = append(cs.Steps, step{Op: "del", Keys: []string{trigger}})
		default:
			trigger = "L-fresh"
			cs.Steps = append(cs.Steps, next(trigger))
		}
		// a few more writes, none of them to the key of the 100th entry
		for i, m := 0, r.IntN(3); i < m; i++ {
			key := keys[r.IntN(k)]
			if key != trigger {
				cs.Steps = append(cs.Steps, next(key))
			}
		}
	} else {
		// interval mode: one batch over all keys per write tick, k entries per flush
		batches := (100 + k - 1) / k
		for b := 0; b < batches-1; b++ {
			for _, key := range keys {
				cs.Steps = append(cs.Steps, next(key))
			}
			cs.Steps = append(cs.Steps, step{Op: "sleep", Ms: 1100})
		}
		for i, key := range keys {
			if i == 0 && special >= 1 {
				cs.Steps = append(cs.Steps, step{Op: "del", Keys: []string{key}})
				continue
			}
			cs.Steps = append(cs.Steps, next(key))
		}
		if special >= 1 {
			cs.Steps = append(cs.Steps, next("L-fresh"))
		}
		// flushed by the write tick (pause first) or by the close itself
		if r.IntN(2) == 0 {
			cs.Steps = append(cs.Steps, step{Op: "sleep", Ms: 1100})
		}
		cs.SettleMs = []int{0, 1500}[r.IntN(2)]
	}
	return cs
}

// genLongRandom: 150-400 writes over 3-10 keys in batches spread over many write ticks (or in
// immediate mode), with deletes, re-creations, increments, patches and an occasional eviction
// in the middle (the entry counter is restored from the file header), ending at a random point.
func genLongRandom(r *rand.Rand, idx int) caseSpec {
	cs := caseSpec{Name: fmt.Sprintf("long-rand-%d", idx), WriteSec: int64(idx % 2), IdleSec: int64(2 + r.IntN(3))}
	cs.Close = []string{"idle", "restart"}[(idx/2)%2]
	cs.SettleMs = []int{0, 0, 1500}[r.IntN(3)]
	cs.Swamp = fmt.Sprintf("c05/y%d/s%d", cs.WriteSec, idx)
	k := 3 + r.IntN(8)
	keys := make([]string, k)
	for i := range keys {
		keys[i] = fmt.Sprintf("L%d", i)
	}
	n := 150 + r.IntN(251)
	seq := uint64(0)
	writes := 0
	for writes < n {
		batch := 1 + r.IntN(k)
		for i := 0; i < batch && writes < n; i++ {
			key := keys[r.IntN(k)]
			seq++
			writes++
			switch x := r.IntN(100); {
			case x < 72:
				cs.Steps = append(cs.Steps, uniqueSet(r, key, seq))
			case x < 84:
				cs.Steps = append(cs.Steps, step{Op: "del", Keys: []string{key}})
			case x < 92:
				cs.Steps = append(cs.Steps, step{Op: "inc", Key: key, Kind: "int64", Class: "one", Meta2: genMeta(r, 30)})
			default:
				cs.Steps = append(cs.Steps, step{Op: "patch", Key: key, Patch: &patchSpec{Create: true, Initial: 2, Ops: []int{6, r.IntN(len(patchOps))}}})
			}
		}
		switch {
		case r.IntN(60) == 0:
			cs.Steps = append(cs.Steps, step{Op: "sleep", Ms: int(cs.IdleSec+4) * 1000})
		case cs.WriteSec == 1 || r.IntN(8) == 0:
			cs.Steps = append(cs.Steps, step{Op: "sleep", Ms: 1100})
		}
	}
	return cs
}

// ---------------------------------------------------------------------------
// Metadata-only last changes: the final request on a key changes exactly a chosen subset of
// {CreatedAt, CreatedBy, UpdatedAt, UpdatedBy, ExpiredAt} and leaves the value identical, on a
// record that has been flushed (and in half of the cases evicted and reloaded) before.

var metaFields = []string{"CA", "CB", "UA", "UB", "EA"}

// metaFor returns a metaSpec that sets exactly the fields of mask (bit i = metaFields[i]) to
// the variant-th valid choice of each field.
func metaFor(mask, variant int) *metaSpec {
	ts := []int{4, 8, 3, 2, 6} // valid timestamp choices
	by := []int{2, 3, 4}       // valid (non-empty) identities
	m := &metaSpec{}
	if mask&1 != 0 {
		m.CA = ts[variant%len(ts)]
	}
	if mask&2 != 0 {
		m.CB = by[variant%len(by)]
	}
	if mask&4 != 0 {
		m.UA = ts[(variant+1)%len(ts)]
	}
	if mask&8 != 0 {
		m.UB = by[(variant+1)%len(by)]
	}
	if mask&16 != 0 {
		m.EA = ts[(variant+2)%len(ts)]
	}
	return m
}

func maskName(mask int) string {
	var fs []string
	for i, f := range metaFields {
		if mask&(1<<i) != 0 {
			fs = append(fs, f)
		}
	}
	return strings.Join(fs, "+")
}

func metaOnlyCases() []caseSpec {
	var out []caseSpec
	for _, ws := range []int64{1, 0} {
		for _, cl := range []string{"idle", "restart"} {
			for _, reloaded := range []bool{false, true} {
				cs := caseSpec{Name: fmt.Sprintf("metaonly-w%d-%s-reloaded%v", ws, cl, reloaded), WriteSec: ws, IdleSec: 3, Close: cl,
					Swamp: fmt.Sprintf("c05/o%d/%s%v", ws, cl, reloaded)}
				var base, last []step
				n := uint64(0)
				for _, baseMeta := range []int{0, 31} { // record starts without any / with all metadata
					sfx := fmt.Sprintf(":base%d", baseMeta)
					var bm *metaSpec
					if baseMeta != 0 {
						bm = metaFor(baseMeta, 0)
					}
					kinds := []string{"int64", "string", "bytes", "uint8", "float64", "bool", "void"}
					for mask := 1; mask < 32; mask++ {
						n++
						// Set with the identical value and only the chosen metadata fields
						key := "set:" + maskName(mask) + sfx
						st := step{Op: "set", Key: key, Kind: kinds[mask%len(kinds)], Class: "rand", Bits: 1000 + n, Meta: bm, Create: true, Overwrite: true}
						if st.Kind == "bool" || st.Kind == "void" {
							st.Class = "true"
						}
						base = append(base, st)
						st.Meta = metaFor(mask, 1)
						last = append(last, st)
					}
					// PatchTreasures: Meta can set UpdatedAt(now), UpdatedBy, ExpiredAt (or clear it); the ops leave the body as it is
					for mask := 4; mask < 32; mask += 4 {
						for vi, ops := range [][]int{nil, {1}} {
							key := fmt.Sprintf("patch%d:%s%s", vi, maskName(mask), sfx)
							base = append(base, step{Op: "set", Key: key, Kind: "bytes", Class: "msgpack", Meta: bm, Create: true, Overwrite: true})
							p := &patchSpec{Ops: ops}
							if vi == 0 {
								p.ReqMeta = metaFor(mask, 1)
							} else {
								p.KeyMeta = metaFor(mask, 1)
							}
							last = append(last, step{Op: "patch", Key: key, Patch: p})
						}
					}
					key := "patch:clearEA" + sfx
					base = append(base, step{Op: "set", Key: key, Kind: "bytes", Class: "msgpack", Meta: bm, Create: true, Overwrite: true})
					last = append(last, step{Op: "patch", Key: key, Patch: &patchSpec{ReqMeta: &metaSpec{}, Clear: true}})
					// Increment*: SetIfExist on a typed record, SetIfNotExist on a valueless one (the value changes by one),
					// and SetIfExist with a condition that is not met (value identical)
					for mask := 1; mask < 32; mask += 2 + mask%3 {
						n++
						kind := numericKinds[mask%len(numericKinds)]
						k1, k2, k3 := "incE:"+maskName(mask)+sfx, "incN:"+maskName(mask)+sfx, "incC:"+maskName(mask)+sfx
						base = append(base,
							step{Op: "set", Key: k1, Kind: kind, Class: "one", Meta: bm, Create: true, Overwrite: true},
							step{Op: "set", Key: k2, Kind: "void", Class: "true", Meta: bm, Create: true, Overwrite: true},
							step{Op: "set", Key: k3, Kind: kind, Class: "one", Meta: bm, Create: true, Overwrite: true})
						last = append(last,
							step{Op: "inc", Key: k1, Kind: kind, Class: "one", Meta2: metaFor(mask, 1)},
							step{Op: "inc", Key: k2, Kind: kind, Class: "one", Meta: metaFor(mask, 1)},
							step{Op: "inc", Key: k3, Kind: kind, Class: "one", Cond: 2, Meta2: metaFor(mask, 1)})
					}
				}
				cs.Steps = append(cs.Steps, base...)
				if reloaded {
					cs.Steps = append(cs.Steps, step{Op: "sleep", Ms: int(cs.IdleSec+4) * 1000}) // flushed, evicted, loaded again by the next request
				} else {
					cs.Steps = append(cs.Steps, step{Op: "sleep", Ms: 1500}) // flushed by the write tick
				}
				cs.Steps = append(cs.Steps, last...)
				out = append(out, cs)
			}
		}
	}
	return out
}

// ---------------------------------------------------------------------------
// Same-size last changes: the final request on a key changes the value without changing its
// encoded size, on a record whose previous state has already reached the file — by immediate
// mode, by a write tick, by an explicit flush (swamp.WriteTreasuresToFilesystem) or by an
// eviction and reload. Routes: PatchTreasures ops without Meta, Set, Increment*.

func sameSizeCases() []caseSpec {
	var out []caseSpec
	for _, ws := range []int64{1, 0} {
		for ci, cl := range []string{"idle", "restart"} {
			for mi, mode := range []string{"tick", "flush", "reload"} {
				cs := caseSpec{Name: fmt.Sprintf("samesize-w%d-%s-%s", ws, cl, mode), WriteSec: ws, IdleSec: 3, Close: cl,
					Swamp: fmt.Sprintf("c05/z%d/%s%s", ws, cl, mode)}
				var base, last []step
				// PatchTreasures: single ops and pairs, on a record created by Set and on one created by a patch
				add := func(name string, ops []int) {
					k1, k2 := "patchS:"+name, "patchP:"+name
					base = append(base,
						step{Op: "set", Key: k1, Kind: "bytes", Class: "msgpack2", Create: true, Overwrite: true},
						step{Op: "patch", Key: k2, Patch: &patchSpec{Create: true, Initial: 4}})
					last = append(last, step{Op: "patch", Key: k1, Patch: &patchSpec{Ops: ops}}, step{Op: "patch", Key: k2, Patch: &patchSpec{Ops: ops}})
				}
				for i := firstSameSizeOp; i < len(patchOps)-1; i++ {
					add(fmt.Sprint(i), []int{i})
				}
				add("n+1", []int{6})
				add("b+s", []int{15, 16})
				add("flip-twice", []int{15, 24, 15})
				add("i+f+u", []int{17, 20, 22})
				// Set with a value of the same size
				for i, kind := range []string{"string", "bytes", "int8", "int16", "int32", "int64", "uint8", "uint16", "uint32", "uint64", "float32", "float64"} {
					k := "set:" + kind
					b := uint64(0x1010 + 16*i)
					if kind == "int8" || kind == "uint8" {
						b = uint64(0x11 + i)
					}
					if strings.HasPrefix(kind, "float") {
						b = math.Float64bits(1.25 + float64(i))
						if kind == "float32" {
							b = uint64(math.Float32bits(1.25 + float32(i)))
						}
					}
					base = append(base, step{Op: "set", Key: k, Kind: kind, Class: "rand", Bits: b, Create: true, Overwrite: true})
					last = append(last, step{Op: "set", Key: k, Kind: kind, Class: "rand", Bits: b + 1, Create: true, Overwrite: true})
				}
				base = append(base, step{Op: "set", Key: "set:bool", Kind: "bool", Class: "false", Create: true, Overwrite: true})
				last = append(last, step{Op: "set", Key: "set:bool", Kind: "bool", Class: "true", Create: true, Overwrite: true})
				// Increment* by one
				for _, kind := range numericKinds {
					k := "inc:" + kind
					base = append(base, step{Op: "set", Key: k, Kind: kind, Class: "one", Create: true, Overwrite: true})
					last = append(last, step{Op: "inc", Key: k, Kind: kind, Class: "one"})
				}
				// Uint32Slice: replace one element (push one, the size grows; kept for completeness of the routes)
				base = append(base, step{Op: "push", Key: "slice", Vals: []uint32{1, 2, 3}})
				last = append(last, step{Op: "push", Key: "slice", Vals: []uint32{4}})
				cs.Steps = append(cs.Steps, base...)
				switch mode {
				case "tick":
					cs.Steps = append(cs.Steps, step{Op: "sleep", Ms: 1500})
				case "flush":
					cs.Steps = append(cs.Steps, step{Op: "flush"})
				default:
					cs.Steps = append(cs.Steps, step{Op: "sleep", Ms: int(cs.IdleSec+4) * 1000})
				}
				cs.Steps = append(cs.Steps, last...)
				if (ci+mi)%2 == 1 {
					cs.SettleMs = 1500
				}
				out = append(out, cs)
			}
		}
	}
	return out
}
