package c05

import (
	"context"
	"fmt"
	"math"
	"sort"
	"strings"

	hydrapb "github.com/hydraide/hydraide/sdk/go/hydraidego/v3/hydraidepbgo"
	"google.golang.org/grpc/codes"
	"google.golang.org/grpc/status"
	"google.golang.org/protobuf/encoding/prototext"
	"google.golang.org/protobuf/proto"

	"verifharness/rig"
)

// wire passes a message through the protobuf wire format, so that requests are exactly
// what a client can send and responses exactly what a client would receive.
func wire[M proto.Message](m M) M {
	var zero M
	if any(m) == nil || !m.ProtoReflect().IsValid() {
		return zero
	}
	b, err := proto.Marshal(m)
	if err != nil {
		panic(fmt.Sprintf("marshal %T: %v", m, err))
	}
	out := m.ProtoReflect().New().Interface().(M)
	if err := proto.Unmarshal(b, out); err != nil {
		panic(fmt.Sprintf("unmarshal %T: %v", m, err))
	}
	return out
}

func code(err error) string {
	if err == nil {
		return "OK"
	}
	return status.Code(err).String()
}

// observation is the canonical form of everything the read API says about one swamp.
type observation struct {
	SwampExists bool
	Count       int32
	Get         map[string]*hydrapb.Treasure   // nil entry = key reported as not existing
	ByKeys      map[string]*hydrapb.Treasure   // absent = not returned
	All         map[string]*hydrapb.Treasure   // absent = not returned
	Index       map[string][]*hydrapb.Treasure // "<INDEX>/<ORDER>" -> result in response order
	KeyExist    map[string]string              // true | false
	SliceSize   map[string]string              // <n> | notslice | absent
	Errs        map[string]string              // api -> unexpected status / malformed response
	Requests    int
}

var indexTypes = func() []hydrapb.IndexType_Type {
	var out []hydrapb.IndexType_Type
	for n := range hydrapb.IndexType_Type_name {
		out = append(out, hydrapb.IndexType_Type(n))
	}
	sort.Slice(out, func(i, j int) bool { return out[i] < out[j] })
	return out
}()

// observe issues only read RPCs. A swamp that does not exist is canonicalised to "no key
// exists, count 0" (the property speaks about keys, not about the swamp as a container), and
// RPCs that would summon (= create in memory) a non-existing swamp are skipped in that case.
func observe(r *rig.Rig, sw string, keys []string) *observation {
	ctx := context.Background()
	isl := rig.Island(sw)
	o := &observation{Get: map[string]*hydrapb.Treasure{}, ByKeys: map[string]*hydrapb.Treasure{}, All: map[string]*hydrapb.Treasure{},
		Index: map[string][]*hydrapb.Treasure{}, KeyExist: map[string]string{}, SliceSize: map[string]string{}, Errs: map[string]string{}}

	// Count
	o.Requests++
	cr, err := r.GW.Count(ctx, wire(&hydrapb.CountRequest{Swamps: []*hydrapb.CountRequest_SwampIdentifier{{IslandID: isl, SwampName: sw}}}))
	cr = wire(cr)
	switch {
	case status.Code(err) == codes.FailedPrecondition:
		// swamp does not exist (Count answers a missing swamp with this status, not with IsExist=false)
	case err != nil:
		o.Errs["Count"] = code(err)
	case cr == nil || len(cr.Swamps) != 1:
		o.Errs["Count"] = "malformed-response"
	default:
		o.SwampExists = cr.Swamps[0].IsExist
		if o.SwampExists {
			o.Count = cr.Swamps[0].Count
		}
	}

	// Get
	o.Requests++
	gr, err := r.GW.Get(ctx, wire(&hydrapb.GetRequest{Swamps: []*hydrapb.GetSwamp{{IslandID: isl, SwampName: sw, Keys: keys}}}))
	gr = wire(gr)
	switch {
	case status.Code(err) == codes.FailedPrecondition:
		// swamp does not exist: no key exists
	case err != nil:
		o.Errs["Get"] = code(err)
	case gr == nil || len(gr.Swamps) != 1:
		o.Errs["Get"] = "malformed-response"
	case gr.Swamps[0].IsExist:
		for _, t := range gr.Swamps[0].Treasures {
			if t.IsExist {
				o.Get[t.Key] = t
			}
		}
	}

	// GetByKeys
	o.Requests++
	kr, err := r.GW.GetByKeys(ctx, wire(&hydrapb.GetByKeysRequest{IslandID: isl, SwampName: sw, Keys: keys}))
	kr = wire(kr)
	switch {
	case status.Code(err) == codes.FailedPrecondition:
	case err != nil:
		o.Errs["GetByKeys"] = code(err)
	case kr == nil:
		o.Errs["GetByKeys"] = "malformed-response"
	default:
		for _, t := range kr.Treasures {
			if _, dup := o.ByKeys[t.Key]; dup {
				o.Errs["GetByKeys"] = "duplicate-key"
			}
			o.ByKeys[t.Key] = t
		}
	}

	// GetAll
	o.Requests++
	ar, err := r.GW.GetAll(ctx, wire(&hydrapb.GetAllRequest{IslandID: isl, SwampName: sw}))
	ar = wire(ar)
	switch {
	case status.Code(err) == codes.FailedPrecondition:
	case err != nil:
		o.Errs["GetAll"] = code(err)
	case ar == nil:
		o.Errs["GetAll"] = "malformed-response"
	default:
		for _, t := range ar.Treasures {
			if _, dup := o.All[t.Key]; dup {
				o.Errs["GetAll"] = "duplicate-key"
			}
			o.All[t.Key] = t
		}
	}

	// GetByIndex, every index type, both orders, whole swamp
	for _, it := range indexTypes {
		for _, ot := range []hydrapb.OrderType_Type{hydrapb.OrderType_ASC, hydrapb.OrderType_DESC} {
			name := it.String() + "/" + ot.String()
			o.Requests++
			ir, err := r.GW.GetByIndex(ctx, wire(&hydrapb.GetByIndexRequest{IslandID: isl, SwampName: sw, IndexType: it, OrderType: ot}))
			ir = wire(ir)
			switch {
			case status.Code(err) == codes.FailedPrecondition:
				o.Index[name] = nil
			case err != nil:
				o.Errs["GetByIndex:"+name] = code(err)
			case ir == nil:
				o.Errs["GetByIndex:"+name] = "malformed-response"
			default:
				o.Index[name] = ir.Treasures
			}
		}
	}

	// IsKeyExist
	for _, k := range keys {
		o.Requests++
		er, err := r.GW.IsKeyExist(ctx, wire(&hydrapb.IsKeyExistRequest{IslandID: isl, SwampName: sw, Key: k}))
		er = wire(er)
		switch {
		case status.Code(err) == codes.FailedPrecondition:
			o.KeyExist[k] = "false"
		case err != nil:
			o.Errs["IsKeyExist"] = code(err)
		case er == nil:
			o.Errs["IsKeyExist"] = "malformed-response"
		default:
			o.KeyExist[k] = fmt.Sprint(er.IsExist)
		}
	}

	// Uint32SliceSize summons without an existence check, so it is asked only when the swamp exists
	for _, k := range keys {
		if !o.SwampExists {
			o.SliceSize[k] = "absent"
			continue
		}
		o.Requests++
		sr, err := r.GW.Uint32SliceSize(ctx, wire(&hydrapb.Uint32SliceSizeRequest{IslandID: isl, SwampName: sw, Key: k}))
		sr = wire(sr)
		switch {
		case status.Code(err) == codes.InvalidArgument:
			o.SliceSize[k] = "absent"
		case status.Code(err) == codes.FailedPrecondition:
			o.SliceSize[k] = "notslice"
		case err != nil:
			o.Errs["Uint32SliceSize"] = code(err)
		case sr == nil:
			o.Errs["Uint32SliceSize"] = "malformed-response"
		default:
			o.SliceSize[k] = fmt.Sprint(sr.Size)
		}
	}
	return o
}

// ---------------------------------------------------------------------------
// Comparison

func kindOf(t *hydrapb.Treasure) string {
	switch {
	case t == nil:
		return "absent"
	case t.Int8Val != nil:
		return "int8"
	case t.Int16Val != nil:
		return "int16"
	case t.Int32Val != nil:
		return "int32"
	case t.Int64Val != nil:
		return "int64"
	case t.Uint8Val != nil:
		return "uint8"
	case t.Uint16Val != nil:
		return "uint16"
	case t.Uint32Val != nil:
		return "uint32"
	case t.Uint64Val != nil:
		return "uint64"
	case t.Float32Val != nil:
		return "float32"
	case t.Float64Val != nil:
		return "float64"
	case t.StringVal != nil:
		return "string"
	case t.BoolVal != nil:
		return "bool"
	case t.BytesVal != nil:
		return "bytes"
	case len(t.Uint32Slice) > 0:
		return "uint32slice"
	}
	return "void"
}

// classOf names the input class of a value for the signature (never the value itself).
func classOf(t *hydrapb.Treasure) string {
	ic := func(v, lo, hi int64) string {
		switch v {
		case 0:
			return "zero"
		case lo:
			return "min"
		case hi:
			return "max"
		}
		return "nonzero"
	}
	uc := func(v, hi uint64) string {
		switch v {
		case 0:
			return "zero"
		case hi:
			return "max"
		}
		return "nonzero"
	}
	fc := func(v float64) string {
		switch {
		case v == 0 && math.Signbit(v):
			return "negzero"
		case v == 0:
			return "zero"
		case math.IsNaN(v):
			return "nan"
		case math.IsInf(v, 0):
			return "inf"
		}
		return "nonzero"
	}
	switch kindOf(t) {
	case "int8":
		return ic(int64(*t.Int8Val), math.MinInt8, math.MaxInt8)
	case "int16":
		return ic(int64(*t.Int16Val), math.MinInt16, math.MaxInt16)
	case "int32":
		return ic(int64(*t.Int32Val), math.MinInt32, math.MaxInt32)
	case "int64":
		return ic(*t.Int64Val, math.MinInt64, math.MaxInt64)
	case "uint8":
		return uc(uint64(*t.Uint8Val), math.MaxUint8)
	case "uint16":
		return uc(uint64(*t.Uint16Val), math.MaxUint16)
	case "uint32":
		return uc(uint64(*t.Uint32Val), math.MaxUint32)
	case "uint64":
		return uc(*t.Uint64Val, math.MaxUint64)
	case "float32":
		return fc(float64(*t.Float32Val))
	case "float64":
		return fc(*t.Float64Val)
	case "string":
		if *t.StringVal == "" {
			return "empty"
		}
		return "nonempty"
	case "bool":
		if *t.BoolVal == hydrapb.Boolean_TRUE {
			return "true"
		}
		return "false"
	case "bytes":
		if len(t.BytesVal) == 0 {
			return "empty"
		}
		return "nonempty"
	case "uint32slice":
		return "nonempty"
	}
	return "-"
}

func valueOnly(t *hydrapb.Treasure) *hydrapb.Treasure {
	c := proto.Clone(t).(*hydrapb.Treasure)
	c.Key, c.IsExist = "", false
	c.CreatedAt, c.CreatedBy, c.UpdatedAt, c.UpdatedBy, c.ExpiredAt = nil, nil, nil, nil, nil
	return c
}

func presence(aSet, bSet bool) string {
	switch {
	case aSet && !bSet:
		return "set->unset"
	case !aSet && bSet:
		return "unset->set"
	}
	return "changed"
}

// diffTreasure lists the clauses of the property on which the record a (before the close)
// and b (after the reload) differ. Values are compared with proto.Equal (NaN equals NaN,
// -0 equals +0 — the weaker reading of "same value").
func diffTreasure(a, b *hydrapb.Treasure) []string {
	if a == nil && b == nil {
		return nil
	}
	if a == nil {
		return []string{"existence-changed:absent->present:" + kindOf(b)}
	}
	if b == nil {
		return []string{"existence-changed:present->absent:" + kindOf(a) + ":" + classOf(a)}
	}
	var out []string
	ka, kb := kindOf(a), kindOf(b)
	if ka != kb {
		out = append(out, fmt.Sprintf("value-kind-changed:%s->%s:%s", ka, kb, classOf(a)))
	} else if !proto.Equal(valueOnly(a), valueOnly(b)) {
		out = append(out, fmt.Sprintf("value-changed:%s:%s->%s", ka, classOf(a), classOf(b)))
	}
	if !proto.Equal(a.CreatedAt, b.CreatedAt) {
		out = append(out, "metadata-changed:CreatedAt:"+presence(a.CreatedAt != nil, b.CreatedAt != nil))
	}
	if a.GetCreatedBy() != b.GetCreatedBy() || (a.CreatedBy != nil) != (b.CreatedBy != nil) {
		out = append(out, "metadata-changed:CreatedBy:"+presence(a.CreatedBy != nil, b.CreatedBy != nil))
	}
	if !proto.Equal(a.UpdatedAt, b.UpdatedAt) {
		out = append(out, "metadata-changed:UpdatedAt:"+presence(a.UpdatedAt != nil, b.UpdatedAt != nil))
	}
	if a.GetUpdatedBy() != b.GetUpdatedBy() || (a.UpdatedBy != nil) != (b.UpdatedBy != nil) {
		out = append(out, "metadata-changed:UpdatedBy:"+presence(a.UpdatedBy != nil, b.UpdatedBy != nil))
	}
	if !proto.Equal(a.ExpiredAt, b.ExpiredAt) {
		out = append(out, "metadata-changed:ExpiredAt:"+presence(a.ExpiredAt != nil, b.ExpiredAt != nil))
	}
	return out
}

type finding struct {
	Clause string `json:"clause"` // goes into the signature
	API    string `json:"api"`
	Key    string `json:"key,omitempty"`
	Before string `json:"before"`
	After  string `json:"after"`
}

func show(t *hydrapb.Treasure) string {
	if t == nil {
		return "<absent>"
	}
	s := prototext.MarshalOptions{Multiline: false}.Format(t)
	if len(s) > 300 {
		s = s[:300] + "…"
	}
	return s
}

func unionKeys(ms ...map[string]*hydrapb.Treasure) []string {
	seen := map[string]bool{}
	var out []string
	for _, m := range ms {
		for k := range m {
			if !seen[k] {
				seen[k] = true
				out = append(out, k)
			}
		}
	}
	sort.Strings(out)
	return out
}

func indexMap(l []*hydrapb.Treasure) map[string]*hydrapb.Treasure {
	m := map[string]*hydrapb.Treasure{}
	for _, t := range l {
		m[t.Key] = t
	}
	return m
}

// compare returns the refutations of "observation B equals observation A". The per-key
// comparison of the Get answers is primary; what another API says about a key is reported
// separately (clause suffixed with the API) only when it is not the very same difference.
func compare(a, b *observation, keys []string) []finding {
	var out []finding
	getDiff := map[string]string{}
	for _, k := range unionKeys(a.Get, b.Get) {
		d := diffTreasure(a.Get[k], b.Get[k])
		getDiff[k] = strings.Join(d, "|")
		for _, c := range d {
			out = append(out, finding{Clause: c, API: "Get", Key: k, Before: show(a.Get[k]), After: show(b.Get[k])})
		}
	}
	perKey := func(api string, ma, mb map[string]*hydrapb.Treasure) {
		for _, k := range unionKeys(ma, mb) {
			d := diffTreasure(ma[k], mb[k])
			if strings.Join(d, "|") == getDiff[k] {
				continue
			}
			// an index lists a record or not depending on the record's own content; a membership
			// change of a record that Get already reports as changed is the same difference
			if strings.HasPrefix(api, "GetByIndex") && getDiff[k] != "" && (ma[k] == nil || mb[k] == nil) {
				continue
			}
			for _, c := range d {
				out = append(out, finding{Clause: c + ":api=" + api, API: api, Key: k, Before: show(ma[k]), After: show(mb[k])})
			}
		}
	}
	perKey("GetByKeys", a.ByKeys, b.ByKeys)
	perKey("GetAll", a.All, b.All)
	var names []string
	for n := range a.Index {
		names = append(names, n)
	}
	sort.Strings(names)
	anyChanged := false
	for _, d := range getDiff {
		if d != "" {
			anyChanged = true
		}
	}
	for _, n := range names {
		la, lb := a.Index[n], b.Index[n]
		if len(indexMap(la)) != len(la) || len(indexMap(lb)) != len(lb) {
			out = append(out, finding{Clause: "index-duplicates:" + n, API: "GetByIndex", Before: fmt.Sprint(len(la)), After: fmt.Sprint(len(lb))})
			continue
		}
		perKey("GetByIndex:"+n, indexMap(la), indexMap(lb))
		// order: only where every record is unchanged and the index defines a total order on the result
		if !anyChanged && len(la) == len(lb) && totalOrder(n, la) {
			for i := range la {
				if la[i].Key != lb[i].Key {
					out = append(out, finding{Clause: "index-order-changed:" + n, API: "GetByIndex", Before: keysOf(la), After: keysOf(lb)})
					break
				}
			}
		}
	}
	if a.Count != b.Count {
		explained := false // a count change is the sum of the existence changes Get reports
		for _, d := range getDiff {
			if strings.HasPrefix(d, "existence-changed") {
				explained = true
			}
		}
		if !explained {
			out = append(out, finding{Clause: "count-changed", API: "Count", Before: fmt.Sprint(a.Count), After: fmt.Sprint(b.Count)})
		}
	}
	for _, k := range keys {
		if a.KeyExist[k] != b.KeyExist[k] && !strings.HasPrefix(getDiff[k], "existence-changed") {
			out = append(out, finding{Clause: "key-existence-changed:api=IsKeyExist", API: "IsKeyExist", Key: k, Before: a.KeyExist[k], After: b.KeyExist[k]})
		}
		sa, sb := a.SliceSize[k], b.SliceSize[k]
		if sa != sb {
			ca, cb := sa, sb
			if ca != "absent" && ca != "notslice" && ca != "0" {
				ca = "n"
			}
			if cb != "absent" && cb != "notslice" && cb != "0" {
				cb = "n"
			}
			// a slice that Get already reports as lost / changed in kind is the same difference
			if getDiff[k] != "" && ca == "n" {
				continue
			}
			if getDiff[k] != "" && strings.HasPrefix(getDiff[k], "existence-changed") {
				continue
			}
			out = append(out, finding{Clause: fmt.Sprintf("slice-size-changed:%s->%s:%s", ca, cb, kindOf(a.Get[k])), API: "Uint32SliceSize", Key: k, Before: sa + " (Get: " + show(a.Get[k]) + ")", After: sb + " (Get: " + show(b.Get[k]) + ")"})
		}
	}
	var apis []string
	for api := range a.Errs {
		apis = append(apis, api)
	}
	for api := range b.Errs {
		if _, ok := a.Errs[api]; !ok {
			apis = append(apis, api)
		}
	}
	sort.Strings(apis)
	for _, api := range apis {
		if a.Errs[api] != b.Errs[api] {
			ea, eb := a.Errs[api], b.Errs[api]
			if ea == "" {
				ea = "OK"
			}
			if eb == "" {
				eb = "OK"
			}
			out = append(out, finding{Clause: fmt.Sprintf("api-status-changed:%s:%s->%s", api, ea, eb), API: api, Before: ea, After: eb})
		}
	}
	return out
}

func keysOf(l []*hydrapb.Treasure) string {
	var ks []string
	for _, t := range l {
		ks = append(ks, t.Key)
	}
	return strings.Join(ks, ",")
}

// totalOrder says whether index n defines a strict total order on the records in l
// (distinct, comparable sort keys), so that the response order is determined.
func totalOrder(n string, l []*hydrapb.Treasure) bool {
	idx := n[:strings.Index(n, "/")]
	seen := map[string]bool{}
	for _, t := range l {
		var sk string
		switch idx {
		case "KEY":
			sk = t.Key
		case "CREATION_TIME":
			if t.CreatedAt == nil {
				return false
			}
			sk = fmt.Sprintf("%d.%09d", t.CreatedAt.Seconds, t.CreatedAt.Nanos)
		case "UPDATE_TIME":
			if t.UpdatedAt == nil {
				return false
			}
			sk = fmt.Sprintf("%d.%09d", t.UpdatedAt.Seconds, t.UpdatedAt.Nanos)
		case "EXPIRATION_TIME":
			if t.ExpiredAt == nil {
				return false
			}
			sk = fmt.Sprintf("%d.%09d", t.ExpiredAt.Seconds, t.ExpiredAt.Nanos)
		default:
			// value indexes: one shared in-memory index serves all eleven VALUE_* types and is sorted for
			// whichever type was asked first, so the order of the others is not determined by the
			// records (a defect of the ordering property C07, not of persistence)
			return false
		}
		if seen[sk] {
			return false
		}
		seen[sk] = true
	}
	return true
}
