// C27 — Hydrex reverse index stays consistent with core data.
//
// Monitor: generated sequences of hydrex.Save (additions, removals, value updates, empty
// and identical re-saves), hydrex.Destroy and the two read accessors over <=3 indexes x <=4
// domains x <=8 keys are run through the real SDK (hydrex on top of hydraidego) against the
// real gateway on a grpc.Server over bufconn, single client. Index names, domains and keys are
// drawn from ONE small identifier pool, so an identifier routinely serves as a domain and as
// a key of the same index (and as an index name; the pool also holds the literal sanctuary
// names hydrex uses). Reference model (from the package documentation of hydrex):
// core[index][domain] = last saved items, rev[index][key] = domains whose core data holds the
// key. After every step, in an order that changes from step to step,
//   - GetCoreData of every (index, domain) and GetIndexData of every (index, key) on the Hydrex
//     instance under test must equal the model, and
//   - (second oracle, independent of any state the Hydrex instance keeps) the documented swamps
//     hydraideCoreData/<index>/<domain> and hydraideIndex/<index>/<key> are read directly through
//     the SDK and must hold exactly the model's items / domains;
//
// at the end of a sequence a fresh Hydrex instance on the same server must agree as well.
package c27

import (
	"context"
	"fmt"
	"math/rand/v2"
	"sort"
	"strings"
	"testing"
	"time"

	"github.com/hydraide/hydraide/sdk/go/hydraidego/v3"
	"github.com/hydraide/hydraide/sdk/go/hydraidego/v3/hydrex"
	"github.com/hydraide/hydraide/sdk/go/hydraidego/v3/name"

	"verifharness/rig"
)

type step struct {
	Op     string            `json:"op"` // save | destroy | getcore | getindex
	Index  int               `json:"index"`
	Domain int               `json:"domain,omitempty"` // save destroy getcore
	Key    int               `json:"key,omitempty"`    // getindex
	Items  map[string]string `json:"items,omitempty"`  // key name -> value (save)
}

// sequence is self-contained: the names are spelled out (index names carry a per-sequence
// suffix so that sequences cannot see each other's swamps).
type sequence struct {
	Indexes []string `json:"indexes"`
	Domains []string `json:"domains"`
	Keys    []string `json:"keys"`
	ObsSeed uint64   `json:"obs_seed"` // order of the observations after each step
	Steps   []step   `json:"steps"`
}

// one vocabulary for index names, domains and keys
var idPool = []string{"x", "seo", "example.com", "hydraideCoreData", "hydraideIndex", "a", "tag-2", "K8", "productTags", "lang.en"}

var valuePool = []string{"software", "AI", "", "v", "значение", "a b c", "0", strings.Repeat("long", 40)}

// ---------------------------------------------------------------------------
// generator (drives a private copy of the reference model so that removals / updates hit
// existing data)

type model map[int]map[int]map[string]string // index -> domain -> key name -> value

func (m model) items(i, d int) map[string]string {
	if m[i] == nil {
		m[i] = map[int]map[string]string{}
	}
	if m[i][d] == nil {
		m[i][d] = map[string]string{}
	}
	return m[i][d]
}

func gen(r *rand.Rand, nSteps int, tag string) sequence {
	ni, nd, nk := 1+r.IntN(3), 1+r.IntN(4), 2+r.IntN(7)
	sq := sequence{ObsSeed: r.Uint64()}
	for _, p := range r.Perm(len(idPool))[:ni] {
		sq.Indexes = append(sq.Indexes, idPool[p]+tag)
	}
	// the sequence's vocabulary: a few pool identifiers plus (sometimes) its own index names;
	// domains and keys are two independent draws from it, so they overlap most of the time
	var vocab []string
	for _, p := range r.Perm(len(idPool))[:3+r.IntN(6)] {
		vocab = append(vocab, idPool[p])
	}
	if r.IntN(3) == 0 {
		vocab = append(vocab, sq.Indexes...)
	}
	draw := func(n int) []string {
		var o []string
		for _, p := range r.Perm(len(vocab)) {
			if len(o) < n {
				o = append(o, vocab[p])
			}
		}
		return o
	}
	sq.Domains, sq.Keys = draw(nd), draw(nk)
	nd, nk = len(sq.Domains), len(sq.Keys)
	m := model{}
	for len(sq.Steps) < nSteps {
		i, d := r.IntN(ni), r.IntN(nd)
		cur := m.items(i, d)
		x := r.IntN(100)
		switch {
		case x < 8:
			sq.Steps = append(sq.Steps, step{Op: "getcore", Index: i, Domain: d})
			continue
		case x < 16:
			sq.Steps = append(sq.Steps, step{Op: "getindex", Index: i, Key: r.IntN(nk)})
			continue
		case x < 27:
			sq.Steps = append(sq.Steps, step{Op: "destroy", Index: i, Domain: d})
			m[i][d] = map[string]string{}
			continue
		}
		next := map[string]string{}
		for k, v := range cur {
			next[k] = v
		}
		var keys []string
		for k := range cur {
			keys = append(keys, k)
		}
		sort.Strings(keys)
		switch x := r.IntN(100); {
		case x < 30 || len(cur) == 0: // additions
			for n := 1 + r.IntN(3); n > 0; n-- {
				k := sq.Keys[r.IntN(nk)]
				if _, ok := next[k]; !ok {
					next[k] = valuePool[r.IntN(len(valuePool))]
				}
			}
		case x < 50: // removals
			for n := 1 + r.IntN(2); n > 0 && len(keys) > 0; n-- {
				j := r.IntN(len(keys))
				delete(next, keys[j])
				keys = append(keys[:j], keys[j+1:]...)
			}
		case x < 70: // value updates
			for n := 1 + r.IntN(2); n > 0; n-- {
				k := keys[r.IntN(len(keys))]
				next[k] = valuePool[r.IntN(len(valuePool))]
			}
		case x < 85: // mixed: fresh subset with fresh values
			next = map[string]string{}
			for n := r.IntN(nk + 1); n > 0; n-- {
				next[sq.Keys[r.IntN(nk)]] = valuePool[r.IntN(len(valuePool))]
			}
		case x < 92: // identical re-save
		default: // empty item set
			next = map[string]string{}
		}
		sq.Steps = append(sq.Steps, step{Op: "save", Index: i, Domain: d, Items: next})
		m[i][d] = next
	}
	return sq
}

// fixed sequences: the documented life cycle (add, update, remove, destroy) with a key
// shared by two domains, and the same with identifiers that are domain and key at once.
func fixedCases(tag string) []sequence {
	return []sequence{
		{Indexes: []string{"productTags" + tag}, Domains: []string{"example.com", "shop-42"}, Keys: []string{"seo", "ai", "feature"}, ObsSeed: 1, Steps: []step{
			{Op: "save", Index: 0, Domain: 0, Items: map[string]string{"seo": "software", "ai": "AI"}},
			{Op: "save", Index: 0, Domain: 1, Items: map[string]string{"seo": "v"}},
			{Op: "save", Index: 0, Domain: 0, Items: map[string]string{"seo": "software", "feature": "v"}}, // removes ai, adds feature
			{Op: "destroy", Index: 0, Domain: 1},
			{Op: "save", Index: 0, Domain: 0, Items: map[string]string{}},
		}},
		{Indexes: []string{"idx2" + tag}, Domains: []string{"example.com"}, Keys: []string{"seo", "ai"}, ObsSeed: 2, Steps: []step{
			{Op: "save", Index: 0, Domain: 0, Items: map[string]string{"seo": "software"}},
			{Op: "save", Index: 0, Domain: 0, Items: map[string]string{"seo": "AI"}}, // value update
		}},
		// "links to" index: the keys of a domain are the ids of other domains
		{Indexes: []string{"links" + tag}, Domains: []string{"x", "y", "z"}, Keys: []string{"x", "y", "z"}, ObsSeed: 3, Steps: []step{
			{Op: "save", Index: 0, Domain: 0, Items: map[string]string{"y": "v", "z": "v"}},
			{Op: "save", Index: 0, Domain: 1, Items: map[string]string{"x": "back", "z": ""}},
			{Op: "getindex", Index: 0, Key: 0},
			{Op: "save", Index: 0, Domain: 2, Items: map[string]string{"z": "self"}},
			{Op: "destroy", Index: 0, Domain: 0},
			{Op: "save", Index: 0, Domain: 1, Items: map[string]string{"x": "again"}},
		}},
		// first touch by a read accessor; identifiers equal to the sanctuary names and the index name
		{Indexes: []string{"hydraideIndex" + tag, "a" + tag}, Domains: []string{"hydraideCoreData", "hydraideIndex", "a" + tag}, Keys: []string{"hydraideIndex", "hydraideCoreData", "a" + tag}, ObsSeed: 4, Steps: []step{
			{Op: "getindex", Index: 0, Key: 0},
			{Op: "getcore", Index: 1, Domain: 2},
			{Op: "save", Index: 0, Domain: 1, Items: map[string]string{"hydraideIndex": "self", "hydraideCoreData": "v"}},
			{Op: "save", Index: 1, Domain: 2, Items: map[string]string{"a" + tag: "self", "hydraideIndex": "0"}},
			{Op: "save", Index: 0, Domain: 0, Items: map[string]string{"hydraideIndex": "v"}},
			{Op: "destroy", Index: 0, Domain: 1},
			{Op: "destroy", Index: 1, Domain: 2},
		}},
	}
}

// ---------------------------------------------------------------------------
// execution + oracle

type violation struct{ sig, what string }

// classify says what the step changes relative to the model state before it.
func classify(s step, before map[string]string) string {
	switch s.Op {
	case "getcore", "getindex":
		return s.Op
	case "destroy":
		if len(before) == 0 {
			return "destroy-empty"
		}
		return "destroy"
	}
	set := map[string]bool{}
	for k, v := range s.Items {
		if old, ok := before[k]; !ok {
			set["add"] = true
		} else if old != v {
			set["update"] = true
		} else {
			set["keep"] = true
		}
	}
	for k := range before {
		if _, ok := s.Items[k]; !ok {
			set["remove"] = true
		}
	}
	if len(set) == 0 {
		return "save:noop-empty"
	}
	var l []string
	for k := range set {
		l = append(l, k)
	}
	sort.Strings(l)
	return "save:" + strings.Join(l, "+")
}

// raw models for the direct reads of the documented swamps
type rawCore struct {
	Key   string `hydraide:"key"`
	Value string `hydraide:"value"`
}
type rawIndexed struct {
	Domain string `hydraide:"key"`
}

type runner struct {
	ctx   context.Context
	h     hydraidego.Hydraidego
	hx    hydrex.Hydrex
	sq    sequence
	m     model
	count func(string, int64)
	vs    []violation
	seen  map[string]bool
	inc   string
	role  map[string]string // identifier -> shared | domain-only | key-only
}

func (r *runner) add(sig, what string) {
	if !r.seen[sig] {
		r.seen[sig] = true
		r.vs = append(r.vs, violation{sig, what})
	}
}

// readRaw reads every record of a swamp directly through the SDK ("" error text = fine).
func (r *runner) readRaw(sw name.Name, model any, each func(any)) {
	err := r.h.CatalogReadMany(r.ctx, sw, &hydraidego.Index{IndexType: hydraidego.IndexKey, IndexOrder: hydraidego.IndexOrderAsc}, model, func(m any) error { each(m); return nil })
	if err != nil && !hydraidego.IsSwampNotFound(err) && !hydraidego.IsNotFound(err) && r.inc == "" {
		r.inc = "direct read failed: " + err.Error()
	}
}

// compareCore checks one (index, domain) core list from source ("hydrex", "direct", "fresh").
func (r *runner) compareCore(source, cls, target string, n, i, d int, got map[string]string, dups []string) {
	ix, dom := r.sq.Indexes[i], r.sq.Domains[d]
	want := r.m.items(i, d)
	pfx := "core"
	if source != "hydrex" {
		pfx = source + "-core"
	}
	tail := fmt.Sprintf("after-%s:%s:id=%s", cls, target, r.role[dom])
	for _, k := range dups {
		r.add(fmt.Sprintf("%s:duplicate-key:%s", pfx, tail), fmt.Sprintf("step %d: %s core data of (%s,%s) lists key %q twice", n, source, ix, dom, k))
	}
	for k, v := range want {
		gv, ok := got[k]
		switch {
		case !ok:
			r.add(fmt.Sprintf("%s:missing-key:%s", pfx, tail), fmt.Sprintf("step %d (%s): %s core data of (%s,%s) lacks key %q saved with value %q; got %v", n, cls, source, ix, dom, k, v, got))
		case gv != v:
			r.add(fmt.Sprintf("%s:stale-value:%s", pfx, tail), fmt.Sprintf("step %d (%s): %s core data of (%s,%s) key %q has value %q, last saved %q", n, cls, source, ix, dom, k, gv, v))
		}
	}
	for k := range got {
		if _, ok := want[k]; !ok {
			r.add(fmt.Sprintf("%s:extra-key:%s", pfx, tail), fmt.Sprintf("step %d (%s): %s core data of (%s,%s) lists key %q which the model does not hold there; got %v", n, cls, source, ix, dom, k, got))
		}
	}
}

func (r *runner) compareIndex(source, cls, target string, n, i, k int, got map[string]bool, dups []string) {
	ix, key := r.sq.Indexes[i], r.sq.Keys[k]
	want := map[string]bool{}
	for d := range r.sq.Domains {
		if _, ok := r.m.items(i, d)[key]; ok {
			want[r.sq.Domains[d]] = true
		}
	}
	pfx := "index"
	if source != "hydrex" {
		pfx = source + "-index"
	}
	tail := fmt.Sprintf("after-%s:%s:id=%s", cls, target, r.role[key])
	for _, dn := range dups {
		r.add(fmt.Sprintf("%s:duplicate-domain:%s", pfx, tail), fmt.Sprintf("step %d: %s reverse index (%s,%s) lists domain %q twice", n, source, ix, key, dn))
	}
	for dn := range want {
		if !got[dn] {
			r.add(fmt.Sprintf("%s:missing-domain:%s", pfx, tail), fmt.Sprintf("step %d (%s): %s reverse index (%s,%s) lacks domain %q whose core data holds the key; got %v", n, cls, source, ix, key, dn, got))
		}
	}
	for dn := range got {
		if !want[dn] {
			r.add(fmt.Sprintf("%s:extra-domain:%s", pfx, tail), fmt.Sprintf("step %d (%s): %s reverse index (%s,%s) lists %q, which is not a domain whose core data holds the key; got %v", n, cls, source, ix, key, dn, got))
		}
	}
}

func coreMap(l []*hydrex.CoreData) (m map[string]string, dups []string) {
	m = map[string]string{}
	for _, cd := range l {
		if _, dup := m[cd.Key]; dup {
			dups = append(dups, cd.Key)
		}
		m[cd.Key] = cd.Value
	}
	return
}

func indexSet(l []*hydrex.IndexedData) (m map[string]bool, dups []string) {
	m = map[string]bool{}
	for _, id := range l {
		if m[id.Domain] {
			dups = append(dups, id.Domain)
		}
		m[id.Domain] = true
	}
	return
}

// observe compares everything with the model: through hx (source "hydrex" or "fresh") and,
// when direct is set, by reading the documented swamps through the SDK. The order of the
// observations is shuffled with ord.
func (r *runner) observe(hx hydrex.Hydrex, source string, direct bool, ord *rand.Rand, n int, cls string, s step) {
	type obs struct {
		core bool
		i, j int
	}
	var l []obs
	for i := range r.sq.Indexes {
		for d := range r.sq.Domains {
			l = append(l, obs{true, i, d})
		}
		for k := range r.sq.Keys {
			l = append(l, obs{false, i, k})
		}
	}
	ord.Shuffle(len(l), func(a, b int) { l[a], l[b] = l[b], l[a] })
	for _, o := range l {
		if o.core {
			target := "other-domain"
			switch {
			case o.i != s.Index:
				target = "other-index"
			case s.Op != "getindex" && o.j == s.Domain:
				target = "stepped-domain"
			}
			got, dups := coreMap(hx.GetCoreData(r.ctx, r.sq.Indexes[o.i], r.sq.Domains[o.j]))
			r.count("core_reads", 1)
			r.compareCore(source, cls, target, n, o.i, o.j, got, dups)
			if direct {
				dg, dd := map[string]string{}, []string(nil)
				r.readRaw(name.New().Sanctuary("hydraideCoreData").Realm(r.sq.Indexes[o.i]).Swamp(r.sq.Domains[o.j]), rawCore{}, func(m any) {
					c := m.(*rawCore)
					if _, dup := dg[c.Key]; dup {
						dd = append(dd, c.Key)
					}
					dg[c.Key] = c.Value
				})
				r.count("direct_reads", 1)
				r.compareCore("direct", cls, target, n, o.i, o.j, dg, dd)
			}
			continue
		}
		target := "stepped-index"
		if o.i != s.Index {
			target = "other-index"
		}
		got, dups := indexSet(hx.GetIndexData(r.ctx, r.sq.Indexes[o.i], r.sq.Keys[o.j]))
		r.count("index_reads", 1)
		r.compareIndex(source, cls, target, n, o.i, o.j, got, dups)
		if direct {
			dg, dd := map[string]bool{}, []string(nil)
			r.readRaw(name.New().Sanctuary("hydraideIndex").Realm(r.sq.Indexes[o.i]).Swamp(r.sq.Keys[o.j]), rawIndexed{}, func(m any) {
				c := m.(*rawIndexed)
				if dg[c.Domain] {
					dd = append(dd, c.Domain)
				}
				dg[c.Domain] = true
			})
			r.count("direct_reads", 1)
			r.compareIndex("direct", cls, target, n, o.i, o.j, dg, dd)
		}
	}
}

// runSequence runs one sequence on a Hydrex instance of its own.
func runSequence(ctx context.Context, h hydraidego.Hydraidego, sq sequence, count func(string, int64)) (vs []violation, nontrivial bool, inconclusive string, trace []string) {
	r := &runner{ctx: ctx, h: h, hx: hydrex.New(h), sq: sq, m: model{}, count: count, seen: map[string]bool{}, role: map[string]string{}}
	for _, d := range sq.Domains {
		r.role[d] = "domain-only"
	}
	for _, k := range sq.Keys {
		if r.role[k] == "" {
			r.role[k] = "key-only"
		} else {
			r.role[k] = "shared"
			count("identifiers_both_domain_and_key", 1)
		}
	}
	ord := rand.New(rand.NewPCG(sq.ObsSeed, 27))
	var last step
	for n, s := range sq.Steps {
		last = s
		cls := s.Op
		ix := sq.Indexes[s.Index]
		switch s.Op {
		case "getcore":
			got, dups := coreMap(r.hx.GetCoreData(ctx, ix, sq.Domains[s.Domain]))
			r.compareCore("hydrex", cls, "stepped-domain", n, s.Index, s.Domain, got, dups)
		case "getindex":
			got, dups := indexSet(r.hx.GetIndexData(ctx, ix, sq.Keys[s.Key]))
			r.compareIndex("hydrex", cls, "stepped-index", n, s.Index, s.Key, got, dups)
		case "destroy":
			cls = classify(s, r.m.items(s.Index, s.Domain))
			r.hx.Destroy(ctx, ix, sq.Domains[s.Domain])
			r.m[s.Index][s.Domain] = map[string]string{}
		case "save":
			cls = classify(s, r.m.items(s.Index, s.Domain))
			items := map[string]*hydrex.CoreData{}
			next := map[string]string{}
			for k, v := range s.Items {
				items[k] = &hydrex.CoreData{Key: k, Value: v}
				next[k] = v
			}
			r.hx.Save(ctx, ix, sq.Domains[s.Domain], items)
			r.m[s.Index][s.Domain] = next
		}
		switch cls {
		case "save:add", "save:noop-empty", "destroy-empty", "save:keep", "save:add+keep", "getcore", "getindex":
		default:
			nontrivial = true
		}
		trace = append(trace, fmt.Sprintf("%d:%s %s %v", n, cls, ix, s))
		count("steps", 1)
		r.observe(r.hx, "hydrex", true, ord, n, cls, s)
		if ctx.Err() != nil {
			// hydrex swallows errors: a cancelled context looks like lost data. Never decide on it.
			return nil, nontrivial, "sequence watchdog fired (context deadline)", trace
		}
		if r.inc != "" {
			return nil, nontrivial, r.inc, trace
		}
		if len(r.vs) > 0 {
			return r.vs, nontrivial, "", trace // later steps would only repeat the divergence
		}
	}
	// a fresh Hydrex instance on the same server sees the same data
	r.observe(hydrex.New(h), "fresh", false, ord, len(sq.Steps), "end", last)
	if ctx.Err() != nil {
		return nil, nontrivial, "sequence watchdog fired (context deadline)", trace
	}
	return r.vs, nontrivial, r.inc, trace
}

type job struct {
	Seq sequence `json:"seq"`
	Idx int      `json:"idx"`
}

type shard struct {
	From, To, Steps int
}

func runJobs(c *rig.Check, jobs []job) {
	s := newSDKRig("c27")
	defer s.stop()
	cleaner := hydrex.New(s.H)
	for _, j := range jobs {
		ctx, cancel := context.WithTimeout(context.Background(), 10*time.Minute)
		vs, nontrivial, inc, trace := runSequence(ctx, s.H, j.Seq, c.Count)
		// leave nothing behind (index names are unique per sequence anyway)
		for _, ix := range j.Seq.Indexes {
			for _, d := range j.Seq.Domains {
				cleaner.Destroy(ctx, ix, d)
			}
		}
		cancel()
		c.Case(rig.Dump(j.Seq), nontrivial)
		c.Sample(j.Seq)
		if inc != "" {
			c.Inconclusive(inc)
			continue
		}
		for _, v := range vs {
			c.Violate(v.sig, v.what, map[string]any{"seq": j.Seq, "idx": j.Idx, "trace": trace})
		}
	}
	for _, rec := range rig.InstallSentinel().Drain("panic") {
		c.Violate("server-panic", "the gateway recovered a panic while serving hydrex traffic: "+rec.Msg+" "+rec.Attrs, nil)
	}
}

func TestCheck(t *testing.T) {
	c := rig.NewCheck(t, "C27", "exploration")
	defer c.Finish()
	c.Rule = "one case = one generated sequence of hydrex.Save / Destroy / GetCoreData / GetIndexData on a Hydrex instance of its own, over <=3 indexes x <=4 domains x <=8 keys whose names come from one shared identifier pool (identifiers serve as domain and key at once, also as index name); after each step every (index,domain) core list and every (index,key) reverse list is compared with the reference model in a shuffled order, through hydrex and by reading the documented swamps directly; a fresh Hydrex instance is compared at the end; non-trivial = the sequence contains a step that removes or updates existing items or destroys a non-empty domain; distinct = distinct sequence JSON"
	c.Assumptions = []string{
		"an item is its (key, value) pair: a Save that carries an existing key with a new value is an update and GetCoreData must return the new value (package doc: 'Save: Adds/updates core data'); CreatedAt and list order are not compared",
		"map key and CoreData.Key are always equal; index, domain and key names follow the documented naming constraints (no '/', no '*'); domains and keys of one index are independent name spaces (the documentation places them in different sanctuaries: hydraideCoreData/<index>/<domain>, hydraideIndex/<index>/<key>), which is also what the direct-read oracle relies on",
		"single client, sequential calls; the engine runs in real time (hydrex registers its swamps with 1 s idle close), the oracle never uses the clock; a 10 min per-sequence watchdog and a failing direct read only yield inconclusive",
	}
	c.MinNontrivial = 10

	tagOf := func(i int) string { return fmt.Sprintf("S%d", i) }
	if c.IsChild() {
		var sh shard
		c.ChildSpec(&sh)
		var jobs []job
		for i := sh.From; i < sh.To; i++ {
			jobs = append(jobs, job{gen(c.Rand(i), sh.Steps, tagOf(i)), i})
		}
		runJobs(c, jobs)
		return
	}
	if p := c.ReplayPath(); p != "" {
		var w struct {
			Witness job `json:"witness"`
		}
		rig.ReadJSON(p, &w)
		runJobs(c, []job{w.Witness})
		return
	}
	n, steps := c.N(150, 3000), c.N(25, 60)
	var jobs []job
	for i, sq := range fixedCases("F") {
		jobs = append(jobs, job{sq, 1000000 + i})
	}
	if c.Quick() {
		for i := 0; i < n; i++ {
			jobs = append(jobs, job{gen(c.Rand(i), steps, tagOf(i)), i})
		}
		runJobs(c, jobs)
		return
	}
	runJobs(c, jobs)
	const shards = 32
	var specs []any
	for k := 0; k < shards; k++ {
		specs = append(specs, shard{From: k * n / shards, To: (k + 1) * n / shards, Steps: steps})
	}
	for _, r := range c.Fanout(specs, rig.FanoutOpts{Par: 16, Timeout: 40 * time.Minute}) {
		switch {
		case r.TimedOut:
			c.Inconclusive("child watchdog fired")
		case r.NoPartial || r.ExitErr != nil || len(r.Fatal) > 0:
			c.Inconclusive(fmt.Sprintf("child %d died (%v %v), log %s", r.Index, r.ExitErr, r.Fatal, r.LogPath))
		}
	}
}
