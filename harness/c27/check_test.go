// C27 — Hydrex reverse index stays consistent with core data.
//
// Monitor: generated sequences of hydrex.Save (additions, removals, value updates, empty
// and identical re-saves) and hydrex.Destroy over <=3 indexes x <=4 domains x <=8 keys are run
// through the real SDK (hydrex on top of hydraidego) against the real gateway on a grpc.Server
// over bufconn, single client. Reference model (from the package documentation of hydrex):
// core[index][domain] = last saved items, rev[index][key] = domains whose core data holds the
// key. After every step GetCoreData of every (index, domain) must equal the model's items and
// GetIndexData of every (index, key) must be exactly the model's domain set.
package c27

import (
	"context"
	"fmt"
	"math/rand/v2"
	"sort"
	"strings"
	"testing"
	"time"

	"github.com/hydraide/hydraide/sdk/go/hydraidego/v3/hydrex"

	"verifharness/rig"
)

type step struct {
	Op     string            `json:"op"` // save | destroy
	Index  int               `json:"index"`
	Domain int               `json:"domain"`
	Items  map[string]string `json:"items,omitempty"` // key -> value (save)
}

type sequence struct {
	NI    int    `json:"ni"`
	ND    int    `json:"nd"`
	NK    int    `json:"nk"`
	Steps []step `json:"steps"`
}

var (
	indexPool  = []string{"productTags", "idx2", "a"}
	domainPool = []string{"example.com", "shop-42", "Alice", "d4"}
	keyPool    = []string{"seo", "ai", "feature", "tag-2", "K8", "x", "category", "lang.en"}
	valuePool  = []string{"software", "AI", "", "v", "значение", "a b c", "0", strings.Repeat("long", 40)}
)

// ---------------------------------------------------------------------------
// generator (drives a private copy of the reference model so that removals / updates hit
// existing data)

type model map[int]map[int]map[string]string // index -> domain -> key -> value

func (m model) items(i, d int) map[string]string {
	if m[i] == nil {
		m[i] = map[int]map[string]string{}
	}
	if m[i][d] == nil {
		m[i][d] = map[string]string{}
	}
	return m[i][d]
}

func gen(r *rand.Rand, nSteps int) sequence {
	sq := sequence{NI: 1 + r.IntN(3), ND: 1 + r.IntN(4), NK: 2 + r.IntN(7)}
	m := model{}
	for len(sq.Steps) < nSteps {
		i, d := r.IntN(sq.NI), r.IntN(sq.ND)
		cur := m.items(i, d)
		if r.IntN(100) < 12 {
			sq.Steps = append(sq.Steps, step{Op: "destroy", Index: i, Domain: d})
			m[i][d] = map[string]string{}
			continue
		}
		next := map[string]string{}
		for k, v := range cur {
			next[k] = v
		}
		var keys []string
		for k := range cur {
			keys = append(keys, k)
		}
		sort.Strings(keys)
		switch x := r.IntN(100); {
		case x < 30 || len(cur) == 0: // additions
			for n := 1 + r.IntN(3); n > 0; n-- {
				k := keyPool[r.IntN(sq.NK)]
				if _, ok := next[k]; !ok {
					next[k] = valuePool[r.IntN(len(valuePool))]
				}
			}
		case x < 50: // removals
			for n := 1 + r.IntN(2); n > 0 && len(keys) > 0; n-- {
				j := r.IntN(len(keys))
				delete(next, keys[j])
				keys = append(keys[:j], keys[j+1:]...)
			}
		case x < 70: // value updates
			for n := 1 + r.IntN(2); n > 0; n-- {
				k := keys[r.IntN(len(keys))]
				next[k] = valuePool[r.IntN(len(valuePool))]
			}
		case x < 85: // mixed: fresh subset with fresh values
			next = map[string]string{}
			for n := r.IntN(sq.NK + 1); n > 0; n-- {
				next[keyPool[r.IntN(sq.NK)]] = valuePool[r.IntN(len(valuePool))]
			}
		case x < 92: // identical re-save
		default: // empty item set
			next = map[string]string{}
		}
		sq.Steps = append(sq.Steps, step{Op: "save", Index: i, Domain: d, Items: next})
		m[i][d] = next
	}
	return sq
}

// fixed sequences: the documented life cycle (add, update, remove, destroy) with a key
// shared by two domains.
func fixedCases() []sequence {
	return []sequence{
		{NI: 1, ND: 2, NK: 3, Steps: []step{
			{Op: "save", Index: 0, Domain: 0, Items: map[string]string{"seo": "software", "ai": "AI"}},
			{Op: "save", Index: 0, Domain: 1, Items: map[string]string{"seo": "v"}},
			{Op: "save", Index: 0, Domain: 0, Items: map[string]string{"seo": "software", "feature": "v"}}, // removes ai, adds feature
			{Op: "destroy", Index: 0, Domain: 1},
			{Op: "save", Index: 0, Domain: 0, Items: map[string]string{}},
		}},
		{NI: 1, ND: 1, NK: 2, Steps: []step{
			{Op: "save", Index: 0, Domain: 0, Items: map[string]string{"seo": "software"}},
			{Op: "save", Index: 0, Domain: 0, Items: map[string]string{"seo": "AI"}}, // value update
		}},
		{NI: 2, ND: 2, NK: 2, Steps: []step{
			{Op: "save", Index: 0, Domain: 0, Items: map[string]string{"seo": "a b c"}},
			{Op: "save", Index: 1, Domain: 0, Items: map[string]string{"seo": "0", "ai": ""}},
			{Op: "destroy", Index: 0, Domain: 0},
			{Op: "save", Index: 1, Domain: 1, Items: map[string]string{"ai": "v"}},
			{Op: "destroy", Index: 1, Domain: 0},
		}},
	}
}

// ---------------------------------------------------------------------------
// execution + oracle

type violation struct{ sig, what string }

// classify says what the step changes relative to the model state before it.
func classify(s step, before map[string]string) string {
	if s.Op == "destroy" {
		if len(before) == 0 {
			return "destroy-empty"
		}
		return "destroy"
	}
	set := map[string]bool{}
	for k, v := range s.Items {
		if old, ok := before[k]; !ok {
			set["add"] = true
		} else if old != v {
			set["update"] = true
		} else {
			set["keep"] = true
		}
	}
	for k := range before {
		if _, ok := s.Items[k]; !ok {
			set["remove"] = true
		}
	}
	if len(set) == 0 {
		return "save:noop-empty"
	}
	var l []string
	for k := range set {
		l = append(l, k)
	}
	sort.Strings(l)
	return "save:" + strings.Join(l, "+")
}

func indexName(tag string, i int) string { return indexPool[i] + tag }

// runSequence runs one sequence on hx under index names made unique by tag.
func runSequence(ctx context.Context, hx hydrex.Hydrex, sq sequence, tag string, count func(string, int64)) (vs []violation, nontrivial bool, inconclusive string, trace []string) {
	m := model{}
	seen := map[string]bool{}
	add := func(sig, what string) {
		if !seen[sig] {
			seen[sig] = true
			vs = append(vs, violation{sig, what})
		}
	}
	for n, s := range sq.Steps {
		before := m.items(s.Index, s.Domain)
		cls := classify(s, before)
		if cls != "save:add" && cls != "save:noop-empty" && cls != "destroy-empty" && cls != "save:keep" && cls != "save:add+keep" {
			nontrivial = true
		}
		trace = append(trace, fmt.Sprintf("%d:%s %s/%s %v", n, cls, indexPool[s.Index], domainPool[s.Domain], s.Items))
		ix, dom := indexName(tag, s.Index), domainPool[s.Domain]
		if s.Op == "destroy" {
			hx.Destroy(ctx, ix, dom)
			m[s.Index][s.Domain] = map[string]string{}
		} else {
			items := map[string]*hydrex.CoreData{}
			next := map[string]string{}
			for k, v := range s.Items {
				items[k] = &hydrex.CoreData{Key: k, Value: v}
				next[k] = v
			}
			hx.Save(ctx, ix, dom, items)
			m[s.Index][s.Domain] = next
		}
		count("steps", 1)
		// observe everything
		for i := 0; i < sq.NI; i++ {
			for d := 0; d < sq.ND; d++ {
				want := m.items(i, d)
				got := hx.GetCoreData(ctx, indexName(tag, i), domainPool[d])
				count("core_reads", 1)
				target := "other-domain"
				if i == s.Index && d == s.Domain {
					target = "stepped-domain"
				} else if i != s.Index {
					target = "other-index"
				}
				gm := map[string]string{}
				for _, cd := range got {
					if _, dup := gm[cd.Key]; dup {
						add(fmt.Sprintf("core:duplicate-key:after-%s:%s", cls, target), fmt.Sprintf("step %d: GetCoreData(%s,%s) lists key %q twice", n, indexPool[i], domainPool[d], cd.Key))
					}
					gm[cd.Key] = cd.Value
				}
				for k, v := range want {
					gv, ok := gm[k]
					switch {
					case !ok:
						add(fmt.Sprintf("core:missing-key:after-%s:%s", cls, target), fmt.Sprintf("step %d (%s %s/%s): GetCoreData(%s,%s) lacks key %q saved with value %q; got %v", n, cls, indexPool[s.Index], domainPool[s.Domain], indexPool[i], domainPool[d], k, v, gm))
					case gv != v:
						add(fmt.Sprintf("core:stale-value:after-%s:%s", cls, target), fmt.Sprintf("step %d (%s %s/%s): GetCoreData(%s,%s) key %q has value %q, last saved %q", n, cls, indexPool[s.Index], domainPool[s.Domain], indexPool[i], domainPool[d], k, gv, v))
					}
				}
				for k := range gm {
					if _, ok := want[k]; !ok {
						add(fmt.Sprintf("core:extra-key:after-%s:%s", cls, target), fmt.Sprintf("step %d (%s %s/%s): GetCoreData(%s,%s) still lists key %q which the last save/destroy removed", n, cls, indexPool[s.Index], domainPool[s.Domain], indexPool[i], domainPool[d], k))
					}
				}
			}
			for k := 0; k < sq.NK; k++ {
				key := keyPool[k]
				want := map[string]bool{}
				for d := 0; d < sq.ND; d++ {
					if _, ok := m.items(i, d)[key]; ok {
						want[domainPool[d]] = true
					}
				}
				got := hx.GetIndexData(ctx, indexName(tag, i), key)
				count("index_reads", 1)
				target := "stepped-index"
				if i != s.Index {
					target = "other-index"
				}
				gs := map[string]bool{}
				for _, id := range got {
					if gs[id.Domain] {
						add(fmt.Sprintf("index:duplicate-domain:after-%s:%s", cls, target), fmt.Sprintf("step %d: GetIndexData(%s,%s) lists domain %q twice", n, indexPool[i], key, id.Domain))
					}
					gs[id.Domain] = true
				}
				for dname := range want {
					if !gs[dname] {
						add(fmt.Sprintf("index:missing-domain:after-%s:%s", cls, target), fmt.Sprintf("step %d (%s %s/%s): GetIndexData(%s,%s) lacks domain %q whose core data holds the key; got %v", n, cls, indexPool[s.Index], domainPool[s.Domain], indexPool[i], key, dname, gs))
					}
				}
				for dname := range gs {
					if !want[dname] {
						add(fmt.Sprintf("index:extra-domain:after-%s:%s", cls, target), fmt.Sprintf("step %d (%s %s/%s): GetIndexData(%s,%s) lists domain %q whose core data does not hold the key", n, cls, indexPool[s.Index], domainPool[s.Domain], indexPool[i], key, dname))
					}
				}
			}
		}
		if ctx.Err() != nil {
			// hydrex swallows errors: a cancelled context looks like lost data. Never decide on it.
			return nil, nontrivial, "sequence watchdog fired (context deadline)", trace
		}
		if len(vs) > 0 {
			break // later steps would only repeat the divergence
		}
	}
	return
}

type job struct {
	Seq sequence `json:"seq"`
	Idx int      `json:"idx"`
}

type shard struct {
	From, To, Steps int
}

func runJobs(c *rig.Check, jobs []job) {
	s := newSDKRig("c27")
	defer s.stop()
	hx := hydrex.New(s.H)
	for _, j := range jobs {
		ctx, cancel := context.WithTimeout(context.Background(), 10*time.Minute)
		vs, nontrivial, inc, trace := runSequence(ctx, hx, j.Seq, fmt.Sprintf("S%d", j.Idx), c.Count)
		// leave nothing behind for the next sequence (names are unique anyway)
		for i := 0; i < j.Seq.NI; i++ {
			for d := 0; d < j.Seq.ND; d++ {
				hx.Destroy(ctx, indexName(fmt.Sprintf("S%d", j.Idx), i), domainPool[d])
			}
		}
		cancel()
		c.Case(rig.Dump(j.Seq), nontrivial)
		c.Sample(j.Seq)
		if inc != "" {
			c.Inconclusive(inc)
			continue
		}
		for _, v := range vs {
			c.Violate(v.sig, v.what, map[string]any{"seq": j.Seq, "idx": j.Idx, "trace": trace})
		}
	}
	for _, rec := range rig.InstallSentinel().Drain("panic") {
		c.Violate("server-panic", "the gateway recovered a panic while serving hydrex traffic: "+rec.Msg+" "+rec.Attrs, nil)
	}
}

func TestCheck(t *testing.T) {
	c := rig.NewCheck(t, "C27", "exploration")
	defer c.Finish()
	c.Rule = "one case = one generated sequence of hydrex.Save / hydrex.Destroy over <=3 indexes x <=4 domains x <=8 keys, every (index,domain) core list and every (index,key) reverse list compared with the reference model after each step; non-trivial = the sequence contains a step that removes or updates existing items or destroys a non-empty domain; distinct = distinct sequence JSON"
	c.Assumptions = []string{
		"an item is its (key, value) pair: a Save that carries an existing key with a new value is an update and GetCoreData must return the new value (package doc: 'Save: Adds/updates core data'); CreatedAt and list order are not compared",
		"map key and CoreData.Key are always equal; index, domain and key names follow the documented naming constraints (no '/', no '*')",
		"single client, sequential calls; the engine runs in real time (hydrex registers its swamps with 1 s idle close), the oracle never uses the clock; a 10 min per-sequence watchdog only yields inconclusive",
	}
	c.MinNontrivial = 10

	if c.IsChild() {
		var sh shard
		c.ChildSpec(&sh)
		var jobs []job
		for i := sh.From; i < sh.To; i++ {
			jobs = append(jobs, job{gen(c.Rand(i), sh.Steps), i})
		}
		runJobs(c, jobs)
		return
	}
	if p := c.ReplayPath(); p != "" {
		var w struct {
			Witness job `json:"witness"`
		}
		rig.ReadJSON(p, &w)
		runJobs(c, []job{w.Witness})
		return
	}
	n, steps := c.N(150, 3000), c.N(25, 60)
	var jobs []job
	for i, sq := range fixedCases() {
		jobs = append(jobs, job{sq, 1000000 + i})
	}
	if c.Quick() {
		for i := 0; i < n; i++ {
			jobs = append(jobs, job{gen(c.Rand(i), steps), i})
		}
		runJobs(c, jobs)
		return
	}
	runJobs(c, jobs)
	const shards = 32
	var specs []any
	for k := 0; k < shards; k++ {
		specs = append(specs, shard{From: k * n / shards, To: (k + 1) * n / shards, Steps: steps})
	}
	for _, r := range c.Fanout(specs, rig.FanoutOpts{Par: 16, Timeout: 40 * time.Minute}) {
		switch {
		case r.TimedOut:
			c.Inconclusive("child watchdog fired")
		case r.NoPartial || r.ExitErr != nil || len(r.Fatal) > 0:
			c.Inconclusive(fmt.Sprintf("child %d died (%v %v), log %s", r.Index, r.ExitErr, r.Fatal, r.LogPath))
		}
	}
}
