package c27

import (
	"context"
	"fmt"
	"os"
	"testing"

	"github.com/hydraide/hydraide/sdk/go/hydraidego/v3/hydrex"

	"verifharness/rig"
)

// Minimal reproducer of C27-F1 (C27_REPRO=1 go test -tags verif -v -run TestRepro ./c27):
// a Save that carries an existing key with a new value leaves the old value in the core data.
func TestRepro(t *testing.T) {
	if os.Getenv("C27_REPRO") == "" {
		t.Skip("set C27_REPRO=1")
	}
	rig.InstallSentinel()
	s := newSDKRig("c27r")
	defer s.stop()
	hx := hydrex.New(s.H)
	ctx := context.Background()
	hx.Save(ctx, "productTags", "example.com", map[string]*hydrex.CoreData{"category": {Key: "category", Value: "software"}})
	hx.Save(ctx, "productTags", "example.com", map[string]*hydrex.CoreData{"category": {Key: "category", Value: "hardware"}})
	for _, cd := range hx.GetCoreData(ctx, "productTags", "example.com") {
		fmt.Printf("after Save(category=software); Save(category=hardware): GetCoreData -> %s=%s\n", cd.Key, cd.Value)
	}
	hx.Destroy(ctx, "productTags", "example.com")
}
