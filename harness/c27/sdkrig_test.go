package c27

// The in-process engine (rig) registered on a real grpc.Server over bufconn with insecure
// credentials, and a fake client.Client that hands the generated stub to hydraidego.New —
// so the SDK's real encode -> protobuf wire -> gateway -> decode path is exercised
// (DESIGN §2.1). Real time: gRPC networking cannot run inside a synctest bubble.

import (
	"context"
	"net"

	"github.com/hydraide/hydraide/sdk/go/hydraidego/v3"
	"github.com/hydraide/hydraide/sdk/go/hydraidego/v3/client"
	"github.com/hydraide/hydraide/sdk/go/hydraidego/v3/hydraidepbgo"
	"github.com/hydraide/hydraide/sdk/go/hydraidego/v3/name"
	"google.golang.org/grpc"
	"google.golang.org/grpc/credentials/insecure"
	"google.golang.org/grpc/test/bufconn"

	"verifharness/rig"
)

const allIslands = 1000 // what rig.Island and the server's folder layout assume

type fakeClient struct {
	sc   hydraidepbgo.HydraideServiceClient
	conn *grpc.ClientConn
}

func (f *fakeClient) Connect(bool) error { return nil }
func (f *fakeClient) CloseConnection()   { _ = f.conn.Close() }
func (f *fakeClient) GetServiceClient(name.Name) hydraidepbgo.HydraideServiceClient {
	return f.sc
}
func (f *fakeClient) GetServiceClientAndHost(name.Name) *client.ServiceClient {
	return &client.ServiceClient{GrpcClient: f.sc, Host: "bufconn"}
}
func (f *fakeClient) GetUniqueServiceClients() []hydraidepbgo.HydraideServiceClient {
	return []hydraidepbgo.HydraideServiceClient{f.sc}
}
func (f *fakeClient) GetAllIslands() uint64 { return allIslands }

type sdkRig struct {
	root string
	r    *rig.Rig
	srv  *grpc.Server
	fc   *fakeClient
	H    hydraidego.Hydraidego
}

func newSDKRig(tag string) *sdkRig {
	s := &sdkRig{root: rig.TempRoot(tag)}
	s.r = rig.New(rig.Options{Root: s.root, WithShutdownCtx: true})
	lis := bufconn.Listen(4 << 20)
	s.srv = grpc.NewServer(grpc.MaxRecvMsgSize(64<<20), grpc.MaxSendMsgSize(64<<20))
	hydraidepbgo.RegisterHydraideServiceServer(s.srv, &s.r.GW)
	go func() { _ = s.srv.Serve(lis) }()
	conn, err := grpc.NewClient("passthrough:///bufnet",
		grpc.WithContextDialer(func(ctx context.Context, _ string) (net.Conn, error) { return lis.DialContext(ctx) }),
		grpc.WithTransportCredentials(insecure.NewCredentials()),
		grpc.WithDefaultCallOptions(grpc.MaxCallRecvMsgSize(64<<20), grpc.MaxCallSendMsgSize(64<<20)))
	if err != nil {
		panic(err)
	}
	s.fc = &fakeClient{sc: hydraidepbgo.NewHydraideServiceClient(conn), conn: conn}
	s.H = hydraidego.New(s.fc)
	return s
}

func (s *sdkRig) stop() {
	s.fc.CloseConnection()
	s.srv.Stop()
	s.r.Stop()
	rig.RemoveAll(s.root)
}
