package c16

import (
	"context"
	"fmt"

	"github.com/hydraide/hydraide/app/name"
	hydrapb "github.com/hydraide/hydraide/sdk/go/hydraidego/v3/hydraidepbgo"
	"google.golang.org/grpc/metadata"
	"google.golang.org/grpc/status"

	"verifharness/rig"
)

// The prefix: real gateway requests that take a vigil on the live swamp instance and do not change
// what is stored (reads, streams with and without their limits reached, existence / count / slice
// probes, requests that fail on the engine side, one request that panics inside the handler).
// They run before the lifecycle scenario on the very instance the scenario then races against,
// so that whatever a request leaves behind on that instance (an unbalanced vigil counter) meets
// the drain of the auto-destroy / the idle close with exactly one request in flight.
var prefixVariants = []string{
	"Get", "GetAll", "GetByKeys", "GetByIndex", "Count", "IsKeyExist", "AreKeysExist",
	"Uint32SliceSize", "Uint32SliceIsValueExist", "Uint32SliceDelete/absent-key",
	"GetByIndexStream", "GetByIndexStream/MaxResults-reached",
	"GetByIndexStreamFromMany", "GetByIndexStreamFromMany/request-MaxResults-reached",
	"GetByIndexStreamFromMany/query-MaxResults-reached", "GetByIndexStreamFromMany/two-queries-request-MaxResults-reached",
	"PatchTreasures/key-not-found", "Set/no-create-key-not-found", "Delete/key-not-found", "ShiftByKeys/absent-key",
	"IncrementInt64/wrong-type", "Set/panics-in-handler",
}

// sink is a server stream that swallows what is sent.
type sink[T any] struct {
	ctx context.Context
	n   int
}

func (s *sink[T]) Send(*T) error                { s.n++; return nil }
func (s *sink[T]) SetHeader(metadata.MD) error  { return nil }
func (s *sink[T]) SendHeader(metadata.MD) error { return nil }
func (s *sink[T]) SetTrailer(metadata.MD)       {}
func (s *sink[T]) Context() context.Context     { return s.ctx }
func (s *sink[T]) SendMsg(any) error            { return nil }
func (s *sink[T]) RecvMsg(any) error            { return nil }

// prefixRequest issues one prefix request; it returns a short outcome text ("" = variant not
// applicable to this case, nothing was sent).
func (x *runner) prefixRequest(variant string) string {
	ctx := context.Background()
	r := x.rigNow()
	isl := rig.Island(swampName)
	absent := "zz-never-written"
	var stringKey string // a key that holds a string (written with Set in the setup)
	for _, o := range x.cs.Pre {
		if o.Kind == "set" && stringKey == "" {
			stringKey = o.Key
		}
	}
	anyKey := absent
	if len(x.keys) > 0 {
		anyKey = x.keys[0]
	}
	code := func(err error) string {
		if err == nil {
			return "OK"
		}
		return status.Code(err).String()
	}
	query := func(max int32) *hydrapb.SwampQuery {
		return &hydrapb.SwampQuery{IslandID: isl, SwampName: swampName, IndexType: hydrapb.IndexType_KEY, OrderType: hydrapb.OrderType_ASC, MaxResults: max}
	}
	many := func(globalMax int32, qs ...*hydrapb.SwampQuery) string {
		st := &sink[hydrapb.GetByIndexStreamFromManyResponse]{ctx: ctx}
		err := r.GW.GetByIndexStreamFromMany(wire(&hydrapb.GetByIndexStreamFromManyRequest{Queries: qs, MaxResults: globalMax}), st)
		return fmt.Sprintf("%s:sent=%d", code(err), st.n)
	}
	switch variant {
	case "Get":
		_, err := r.GW.Get(ctx, wire(&hydrapb.GetRequest{Swamps: []*hydrapb.GetSwamp{{IslandID: isl, SwampName: swampName, Keys: []string{anyKey, absent}}}}))
		return code(err)
	case "GetAll":
		_, err := r.GW.GetAll(ctx, wire(&hydrapb.GetAllRequest{IslandID: isl, SwampName: swampName}))
		return code(err)
	case "GetByKeys":
		_, err := r.GW.GetByKeys(ctx, wire(&hydrapb.GetByKeysRequest{IslandID: isl, SwampName: swampName, Keys: []string{anyKey, absent}}))
		return code(err)
	case "GetByIndex":
		_, err := r.GW.GetByIndex(ctx, wire(&hydrapb.GetByIndexRequest{IslandID: isl, SwampName: swampName, IndexType: hydrapb.IndexType_KEY, OrderType: hydrapb.OrderType_ASC}))
		return code(err)
	case "Count":
		_, err := r.GW.Count(ctx, wire(&hydrapb.CountRequest{Swamps: []*hydrapb.CountRequest_SwampIdentifier{{IslandID: isl, SwampName: swampName}}}))
		return code(err)
	case "IsKeyExist":
		_, err := r.GW.IsKeyExist(ctx, wire(&hydrapb.IsKeyExistRequest{IslandID: isl, SwampName: swampName, Key: anyKey}))
		return code(err)
	case "AreKeysExist":
		_, err := r.GW.AreKeysExist(ctx, wire(&hydrapb.AreKeysExistRequest{IslandID: isl, SwampName: swampName, Keys: []string{anyKey, absent}}))
		return code(err)
	case "Uint32SliceSize":
		_, err := r.GW.Uint32SliceSize(ctx, wire(&hydrapb.Uint32SliceSizeRequest{IslandID: isl, SwampName: swampName, Key: anyKey}))
		return code(err)
	case "Uint32SliceIsValueExist":
		_, err := r.GW.Uint32SliceIsValueExist(ctx, wire(&hydrapb.Uint32SliceIsValueExistRequest{IslandID: isl, SwampName: swampName, Key: anyKey, Value: 7}))
		return code(err)
	case "Uint32SliceDelete/absent-key":
		_, err := r.GW.Uint32SliceDelete(ctx, wire(&hydrapb.Uint32SliceDeleteRequest{IslandID: isl, SwampName: swampName, KeySlicePairs: []*hydrapb.KeySlicePair{{Key: absent, Values: []uint32{1}}}}))
		return code(err)
	case "GetByIndexStream", "GetByIndexStream/MaxResults-reached":
		var max int32
		if variant != "GetByIndexStream" {
			max = 1
		}
		st := &sink[hydrapb.GetByIndexStreamResponse]{ctx: ctx}
		err := r.GW.GetByIndexStream(wire(&hydrapb.GetByIndexStreamRequest{IslandID: isl, SwampName: swampName, IndexType: hydrapb.IndexType_KEY, OrderType: hydrapb.OrderType_ASC, MaxResults: max}), st)
		return fmt.Sprintf("%s:sent=%d", code(err), st.n)
	case "GetByIndexStreamFromMany":
		return many(0, query(0))
	case "GetByIndexStreamFromMany/request-MaxResults-reached":
		return many(1, query(0))
	case "GetByIndexStreamFromMany/query-MaxResults-reached":
		return many(0, query(1))
	case "GetByIndexStreamFromMany/two-queries-request-MaxResults-reached":
		return many(1, query(0), query(0))
	case "PatchTreasures/key-not-found":
		_, err := r.GW.PatchTreasures(ctx, wire(&hydrapb.PatchTreasuresRequest{IslandID: isl, SwampName: swampName,
			Patches: []*hydrapb.TreasurePatch{{Key: absent, Ops: []*hydrapb.PatchOp{{Op: hydrapb.PatchOp_SET, Path: "a", Value: []byte{0x01}}}}}}))
		return code(err)
	case "Set/no-create-key-not-found":
		v := "x"
		_, err := r.GW.Set(ctx, wire(&hydrapb.SetRequest{Swamps: []*hydrapb.SwampRequest{{IslandID: isl, SwampName: swampName, CreateIfNotExist: false, Overwrite: true,
			KeyValues: []*hydrapb.KeyValuePair{{Key: absent, StringVal: &v}}}}}))
		return code(err)
	case "Delete/key-not-found":
		_, err := r.GW.Delete(ctx, wire(&hydrapb.DeleteRequest{Swamps: []*hydrapb.DeleteRequest_SwampKeys{{IslandID: isl, SwampName: swampName, Keys: []string{absent}}}}))
		return code(err)
	case "ShiftByKeys/absent-key":
		_, err := r.GW.ShiftByKeys(ctx, wire(&hydrapb.ShiftByKeysRequest{IslandID: isl, SwampName: swampName, Keys: []string{absent}}))
		return code(err)
	case "IncrementInt64/wrong-type":
		if stringKey == "" {
			return ""
		}
		_, err := r.GW.IncrementInt64(ctx, wire(&hydrapb.IncrementInt64Request{IslandID: isl, SwampName: swampName, Key: stringKey, IncrementBy: 1}))
		return code(err)
	case "Set/panics-in-handler":
		// a nil element in KeyValues (not expressible on the wire, a handler-level fault): the handler
		// dereferences it after BeginVigil; the panic is recovered by the gateway
		resp, err := r.GW.Set(ctx, &hydrapb.SetRequest{Swamps: []*hydrapb.SwampRequest{{IslandID: isl, SwampName: swampName, CreateIfNotExist: true, Overwrite: true,
			KeyValues: []*hydrapb.KeyValuePair{nil}}}})
		return fmt.Sprintf("%s:resp-nil=%v", code(err), resp == nil)
	}
	panic("unknown prefix variant " + variant)
}

// vigilCount reads the vigil counter of the swamp instance hydra currently holds, through the
// verif-tagged accessor (*swamp).VerifVigilCount. ok=false: no instance in memory, the engine is
// shutting down, or the tree under test does not have the accessor.
func (x *runner) vigilCount() (n int64, ok bool, why string) {
	r := x.rigNow()
	if r.Active() == 0 {
		return 0, false, "no-instance"
	}
	sw, err := r.Zeus.GetHydra().SummonSwamp(context.Background(), rig.Island(swampName), name.Load(swampName))
	if err != nil || sw == nil {
		return 0, false, "not-summonable"
	}
	acc, has := sw.(interface{ VerifVigilCount() int64 })
	if !has {
		return 0, false, "accessor-absent"
	}
	return acc.VerifVigilCount(), true, ""
}
