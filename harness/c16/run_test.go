package c16

import (
	"context"
	"fmt"
	"io"
	"log/slog"
	"math"
	"os"
	"path/filepath"
	"runtime"
	"sort"
	"strconv"
	"strings"
	"sync"
	"sync/atomic"
	"testing"
	"testing/synctest"
	"time"

	"github.com/hydraide/hydraide/app/verifhook"
	hydrapb "github.com/hydraide/hydraide/sdk/go/hydraidego/v3/hydraidepbgo"
	"google.golang.org/grpc/status"
	"google.golang.org/protobuf/proto"
	"google.golang.org/protobuf/types/known/timestamppb"

	"verifharness/rig"
)

// ---------------------------------------------------------------------------
// Case description (serialisable; this is what a replay file contains)

// opSpec is one client request. Keys are typed by their first letter so that the read-back value
// identifies the writes it contains:
//
//	s…  register, written with Set (string "v<id>")
//	x…  register, written with Set + an expiry time in the past (so that ShiftExpired removes it)
//	i…  accumulator, IncrementInt64 by 2^id
//	u…  accumulator, Uint32SlicePush of element id
//	p…  accumulator, PatchTreasures SET field "f<id>" (CreateIfNotExist)
//	b…  register, written N at a time by one Set request (kind "bulk")
type opSpec struct {
	Id   int      `json:"id"`             // unique in the case, 1..62
	Kind string   `json:"kind"`           // set setexp inc push patch | del shiftkeys shiftexp destroy | stop
	Key  string   `json:"key,omitempty"`  // writers
	Keys []string `json:"keys,omitempty"` // del / shiftkeys
	N    int      `json:"n,omitempty"`    // bulk: one Set request with N keys b<id>_<i>, all with the value "v<id>"
}

func bulkKey(id, i int) string { return fmt.Sprintf("b%d_%d", id, i) }

type caseSpec struct {
	Name     string   `json:"name"`
	Scen     string   `json:"scen"`   // idle | autodestroy | destroy | stop | marker
	Forced   string   `json:"forced"` // "" | afterRead | beforeClose | parked | beforeDestroy | afterDrain | inflight | tail
	IdleSec  int64    `json:"idleSec"`
	WriteSec int64    `json:"writeSec"`         // 0 = immediate
	Pre      []opSpec `json:"pre"`              // sequential, at T0 (the instant the swamp is created)
	GapMs    int      `json:"gapMs"`            // virtual pause after Pre
	Prefix   []string `json:"prefix,omitempty"` // at T0+GapMs, before Touch: vigil-taking requests that store nothing (prefix_test.go)
	Touch    []opSpec `json:"touch,omitempty"`  // sequential, at T0+GapMs (sets the last-interaction time)
	TickK    int      `json:"tickK,omitempty"`  // idle: race instant = closing tick + TickK seconds
	Trigger  *opSpec  `json:"trigger,omitempty"`
	Writers  []opSpec `json:"writers,omitempty"` // concurrent with the trigger / the tick, same virtual instant
	Post     []opSpec `json:"post,omitempty"`    // sequential, after everything above has returned
	Reopen   string   `json:"reopen"`            // idle | restart
	Init     string   `json:"init,omitempty"`    // marker: disk | buffer | absent (state of the key before the sequence)
	Seq      string   `json:"seq,omitempty"`     // marker: the sequence, W = write, D = Delete
}

const swampName = "c16/life/one"
const swampPattern = "c16/life/*"

// histEntry is one executed request as the client saw it.
type histEntry struct {
	Op      opSpec `json:"op"`
	Role    string `json:"role"`
	Call    int64  `json:"call"`
	Ret     int64  `json:"ret"`
	At      string `json:"at"`      // virtual time of the call
	Outcome string `json:"outcome"` // textual reply
	// per key: "ack" | "maybe" | "noop"
	Keys map[string]string `json:"keys"`
}

type caseResult struct {
	Hist            []histEntry
	Obs             map[string]string // key -> rendered observation
	Verdicts        []finding
	Inconclusive    string
	Nontrivial      bool
	HookHits        map[string]int64
	Notes           []string
	AckedRacers     int
	FailedRacers    int
	Overlap         bool // at least one racer really overlapped the trigger on the logical clock
	Sentinel        []string
	BalanceChecks   int
	BalanceNoAccess int
	PrefixLog       []string
	StopInFlush     bool
	ActiveAtReturn  int
	BubbleDone      bool
	RaceAbort       bool     // the race detector fired inside the bubble (reported, not judged here)
	CloseTicks      []string // idle: offsets from T0 at which the close listener decided to close
	PredictedClose  string
}

type finding struct {
	Sig  string     `json:"sig"`
	What string     `json:"what"`
	Key  string     `json:"key"`
	Effs []effect   `json:"effects"`
	Obs  string     `json:"observed"`
	V    keyVerdict `json:"-"`
}

// ---------------------------------------------------------------------------
// Requests

func wire[M proto.Message](m M) M {
	var zero M
	if any(m) == nil || !m.ProtoReflect().IsValid() {
		return zero
	}
	b, err := proto.Marshal(m)
	if err != nil {
		panic(fmt.Sprintf("marshal %T: %v", m, err))
	}
	out := m.ProtoReflect().New().Interface().(M)
	if err := proto.Unmarshal(b, out); err != nil {
		panic(fmt.Sprintf("unmarshal %T: %v", m, err))
	}
	return out
}

func isWriter(kind string) bool {
	switch kind {
	case "set", "setexp", "inc", "push", "patch", "bulk":
		return true
	}
	return false
}

// allKeys lists every key the case addresses.
func allKeys(cs caseSpec) []string {
	seen := map[string]bool{}
	add := func(ops []opSpec) {
		for _, o := range ops {
			if o.Key != "" {
				seen[o.Key] = true
			}
			for _, k := range o.Keys {
				seen[k] = true
			}
			for i := 0; i < o.N; i++ {
				seen[bulkKey(o.Id, i)] = true
			}
		}
	}
	add(cs.Pre)
	add(cs.Touch)
	add(cs.Writers)
	add(cs.Post)
	if cs.Trigger != nil {
		add([]opSpec{*cs.Trigger})
	}
	var out []string
	for k := range seen {
		out = append(out, k)
	}
	sort.Strings(out)
	return out
}

type runner struct {
	r     *rig.Rig
	rmu   sync.Mutex
	cs    caseSpec
	keys  []string
	clock atomic.Int64
	mu    sync.Mutex
	hist  []histEntry

	// what was observed at the very moment zeus.StopHydra returned
	snapRoot        string // copy of the data root taken then
	stopInFlush     bool   // the stop was issued while a close started by somebody else was still flushing
	activeAtReturn  int
	createdAtReturn int64
	closedAtReturn  int64
	snapErr         string

	// vigil balance at quiescent points
	lastBalance     int64
	balanceChecks   int
	balanceNoAccess int
	balanceFindings []finding
	liveFindings    []finding
	prefixLog       []string
}

// balance reads the vigil counter of the live instance while no request is in flight: it must be 0.
// A deviation is attributed to the step after which the counter moved.
func (x *runner) balance(after string) {
	n, ok, why := x.vigilCount()
	if !ok {
		if why == "accessor-absent" {
			x.balanceNoAccess++
		}
		return
	}
	x.balanceChecks++
	if n != 0 && n != x.lastBalance {
		sign := "negative"
		if n > 0 {
			sign = "positive"
		}
		x.balanceFindings = append(x.balanceFindings, finding{Sig: "vigil-balance:" + sign + ":after=" + after,
			What: fmt.Sprintf("no request is in flight, yet the vigil counter of the live swamp instance is %d after %s (was %d before): %s", n, after, x.lastBalance,
				map[bool]string{true: "the next request in flight is invisible to the drain of auto-destroy / idle close / shutdown", false: "the swamp can never be closed or destroyed again"}[n < 0])})
	}
	x.lastBalance = n
}

// logTap sits in front of the sentinel on the process-wide slog stream. While armed it also lets
// debug records through and calls fn when the record with the given message is logged: the engine
// logs "Destroy: chronicler destroyed" between chronicler.Destroy() and sendClosedEvent(), i.e. inside
// the tail of a destroy — a yield point that needs no call site in the repository.
type logTap struct {
	next slog.Handler
	msg  atomic.Pointer[string]
	fn   atomic.Pointer[func()]
}

func (t *logTap) arm(msg string, fn func()) { t.fn.Store(&fn); t.msg.Store(&msg) }
func (t *logTap) disarm()                   { t.msg.Store(nil) }
func (t *logTap) Enabled(ctx context.Context, l slog.Level) bool {
	return t.msg.Load() != nil || t.next.Enabled(ctx, l)
}
func (t *logTap) WithAttrs([]slog.Attr) slog.Handler { return t }
func (t *logTap) WithGroup(string) slog.Handler      { return t }
func (t *logTap) Handle(ctx context.Context, r slog.Record) error {
	if m := t.msg.Load(); m != nil && r.Message == *m {
		(*t.fn.Load())()
	}
	if t.next.Enabled(ctx, r.Level) {
		return t.next.Handle(ctx, r)
	}
	return nil
}

// copyTree copies a data root (regular files and directories) as it is on disk right now.
func copyTree(src, dst string) error {
	return filepath.Walk(src, func(p string, fi os.FileInfo, err error) error {
		if err != nil {
			if os.IsNotExist(err) {
				return nil // removed while walking
			}
			return err
		}
		rel, _ := filepath.Rel(src, p)
		to := filepath.Join(dst, rel)
		if fi.IsDir() {
			return os.MkdirAll(to, 0o755)
		}
		if !fi.Mode().IsRegular() {
			return nil
		}
		in, err := os.Open(p)
		if err != nil {
			if os.IsNotExist(err) {
				return nil
			}
			return err
		}
		defer in.Close()
		out, err := os.Create(to)
		if err != nil {
			return err
		}
		defer out.Close()
		_, err = io.Copy(out, in)
		return err
	})
}

func (x *runner) rigNow() *rig.Rig {
	x.rmu.Lock()
	defer x.rmu.Unlock()
	return x.r
}

// do executes one request and records it. Safe for concurrent use.
func (x *runner) do(o opSpec, role string) {
	ctx := context.Background()
	r := x.rigNow()
	isl := rig.Island(swampName)
	h := histEntry{Op: o, Role: role, Keys: map[string]string{}, At: time.Now().UTC().Format("15:04:05.000")}
	all := func(v string) {
		if o.Key != "" {
			h.Keys[o.Key] = v
		}
		for _, k := range o.Keys {
			h.Keys[k] = v
		}
	}
	h.Call = x.clock.Add(1)
	switch o.Kind {
	case "set", "setexp":
		v := "v" + strconv.Itoa(o.Id)
		kv := &hydrapb.KeyValuePair{Key: o.Key, StringVal: &v}
		if o.Kind == "setexp" {
			kv.ExpiredAt = timestamppb.New(time.Now().Add(-time.Hour))
		}
		resp, err := r.GW.Set(ctx, wire(&hydrapb.SetRequest{Swamps: []*hydrapb.SwampRequest{{IslandID: isl, SwampName: swampName,
			CreateIfNotExist: true, Overwrite: true, KeyValues: []*hydrapb.KeyValuePair{kv}}}}))
		h.Ret = x.clock.Add(1)
		resp = wire(resp)
		switch {
		case err != nil:
			h.Outcome = "error:" + status.Code(err).String() + ":" + err.Error()
			all("maybe")
		case resp == nil || len(resp.Swamps) != 1 || len(resp.Swamps[0].KeysAndStatuses) != 1:
			h.Outcome = "malformed-or-refused:" + fmt.Sprint(resp)
			all("maybe")
		default:
			st := resp.Swamps[0].KeysAndStatuses[0].Status
			h.Outcome = st.String()
			if st == hydrapb.Status_NEW || st == hydrapb.Status_UPDATED {
				all("ack")
			} else {
				all("noop")
			}
		}
	case "bulk":
		v := "v" + strconv.Itoa(o.Id)
		kvs := make([]*hydrapb.KeyValuePair, 0, o.N)
		for i := 0; i < o.N; i++ {
			h.Keys[bulkKey(o.Id, i)] = "maybe"
			kvs = append(kvs, &hydrapb.KeyValuePair{Key: bulkKey(o.Id, i), StringVal: &v})
		}
		resp, err := r.GW.Set(ctx, wire(&hydrapb.SetRequest{Swamps: []*hydrapb.SwampRequest{{IslandID: isl, SwampName: swampName,
			CreateIfNotExist: true, Overwrite: true, KeyValues: kvs}}}))
		h.Ret = x.clock.Add(1)
		resp = wire(resp)
		switch {
		case err != nil:
			h.Outcome = "error:" + status.Code(err).String() + ":" + err.Error()
		case resp == nil || len(resp.Swamps) != 1:
			h.Outcome = "malformed-or-refused"
		default:
			n := 0
			for _, ks := range resp.Swamps[0].KeysAndStatuses {
				if _, mine := h.Keys[ks.Key]; !mine {
					continue
				}
				if ks.Status == hydrapb.Status_NEW || ks.Status == hydrapb.Status_UPDATED {
					h.Keys[ks.Key] = "ack"
					n++
				} else {
					h.Keys[ks.Key] = "noop"
				}
			}
			h.Outcome = fmt.Sprintf("acknowledged:%d/%d", n, o.N)
		}
	case "inc":
		resp, err := r.GW.IncrementInt64(ctx, wire(&hydrapb.IncrementInt64Request{IslandID: isl, SwampName: swampName, Key: o.Key, IncrementBy: int64(1) << uint(o.Id)}))
		h.Ret = x.clock.Add(1)
		switch {
		case err != nil:
			h.Outcome = "error:" + status.Code(err).String() + ":" + err.Error()
			all("maybe")
		case resp == nil:
			h.Outcome = "nil-response"
			all("maybe")
		case resp.IsIncremented:
			h.Outcome = fmt.Sprintf("incremented:%d", resp.Value)
			all("ack")
		default:
			h.Outcome = "not-incremented"
			all("noop")
		}
	case "push":
		_, err := r.GW.Uint32SlicePush(ctx, wire(&hydrapb.AddToUint32SlicePushRequest{IslandID: isl, SwampName: swampName,
			KeySlicePairs: []*hydrapb.KeySlicePair{{Key: o.Key, Values: []uint32{uint32(o.Id)}}}}))
		h.Ret = x.clock.Add(1)
		if err != nil {
			h.Outcome = "error:" + status.Code(err).String() + ":" + err.Error()
			all("maybe")
		} else {
			h.Outcome = "OK"
			all("ack")
		}
	case "patch":
		resp, err := r.GW.PatchTreasures(ctx, wire(&hydrapb.PatchTreasuresRequest{IslandID: isl, SwampName: swampName, CreateIfNotExist: true,
			Patches: []*hydrapb.TreasurePatch{{Key: o.Key, Ops: []*hydrapb.PatchOp{{Op: hydrapb.PatchOp_SET, Path: "f" + strconv.Itoa(o.Id), Value: []byte{0x01}}}}}}))
		h.Ret = x.clock.Add(1)
		resp = wire(resp)
		switch {
		case err != nil:
			h.Outcome = "error:" + status.Code(err).String() + ":" + err.Error()
			all("maybe")
		case resp == nil || len(resp.Results) != 1:
			h.Outcome = "malformed:" + fmt.Sprint(resp)
			all("maybe")
		default:
			st := resp.Results[0].Status
			h.Outcome = st.String()
			switch st {
			case hydrapb.PatchResult_PATCHED, hydrapb.PatchResult_CREATED:
				all("ack")
			case hydrapb.PatchResult_INTERNAL_ERROR:
				all("maybe")
			default:
				all("noop")
			}
		}
	case "del":
		resp, err := r.GW.Delete(ctx, wire(&hydrapb.DeleteRequest{Swamps: []*hydrapb.DeleteRequest_SwampKeys{{IslandID: isl, SwampName: swampName, Keys: o.Keys}}}))
		h.Ret = x.clock.Add(1)
		resp = wire(resp)
		switch {
		case err != nil:
			h.Outcome = "error:" + status.Code(err).String() + ":" + err.Error()
			all("maybe")
		case resp == nil || len(resp.Responses) != 1:
			h.Outcome = "malformed:" + fmt.Sprint(resp)
			all("maybe")
		case resp.Responses[0].ErrorCode != nil:
			h.Outcome = "swamp-error:" + resp.Responses[0].ErrorCode.String()
			all("noop")
		default:
			all("maybe") // keys the reply does not mention
			var parts []string
			for _, ks := range resp.Responses[0].KeyStatuses {
				parts = append(parts, ks.Key+"="+ks.Status.String())
				if ks.Status == hydrapb.Status_DELETED {
					h.Keys[ks.Key] = "ack"
				} else {
					h.Keys[ks.Key] = "noop"
				}
			}
			h.Outcome = strings.Join(parts, ",")
		}
	case "shiftkeys":
		resp, err := r.GW.ShiftByKeys(ctx, wire(&hydrapb.ShiftByKeysRequest{IslandID: isl, SwampName: swampName, Keys: o.Keys}))
		h.Ret = x.clock.Add(1)
		resp = wire(resp)
		switch {
		case err != nil:
			h.Outcome = "error:" + status.Code(err).String() + ":" + err.Error()
			all("maybe")
		case resp == nil:
			h.Outcome = "nil-response"
			all("maybe")
		default:
			all("noop")
			var parts []string
			for _, t := range resp.Treasures {
				parts = append(parts, t.Key)
				h.Keys[t.Key] = "ack"
			}
			h.Outcome = "shifted:" + strings.Join(parts, ",")
		}
	case "shiftexp":
		// addresses every expirable key of the case
		for _, k := range x.keys {
			if strings.HasPrefix(k, "x") {
				h.Keys[k] = "noop"
			}
		}
		resp, err := r.GW.ShiftExpiredTreasures(ctx, wire(&hydrapb.ShiftExpiredTreasuresRequest{IslandID: isl, SwampName: swampName, HowMany: 0}))
		h.Ret = x.clock.Add(1)
		resp = wire(resp)
		switch {
		case err != nil:
			h.Outcome = "error:" + status.Code(err).String() + ":" + err.Error()
			for k := range h.Keys {
				h.Keys[k] = "maybe"
			}
		case resp == nil:
			h.Outcome = "nil-response"
			for k := range h.Keys {
				h.Keys[k] = "maybe"
			}
		default:
			var parts []string
			for _, t := range resp.Treasures {
				parts = append(parts, t.Key)
				h.Keys[t.Key] = "ack"
			}
			h.Outcome = "shifted:" + strings.Join(parts, ",")
		}
	case "destroy":
		_, err := r.GW.Destroy(ctx, wire(&hydrapb.DestroyRequest{IslandID: isl, SwampName: swampName}))
		h.Ret = x.clock.Add(1)
		v := "ack"
		h.Outcome = "OK"
		if err != nil {
			h.Outcome = "error:" + status.Code(err).String() + ":" + err.Error()
			v = "maybe"
		}
		for _, k := range x.keys { // an explicit destroy removes every key
			h.Keys[k] = v
		}
	case "stop":
		// The real shutdown step (what server.Stop and zeus' panic monitor call), and the observation
		// the property is about taken at the very moment it returns — the process may exit then:
		// the data root as it is on disk, the number of swamps hydra still holds, created vs closed.
		_, statErr := os.Stat(r.HydPath(swampName))
		x.stopInFlush = statErr == nil && verifhook.Hits("hydra.swamp.closed") < verifhook.Hits("hydra.swamp.created")
		r.Zeus.StopHydra()
		x.activeAtReturn = r.Active()
		x.createdAtReturn, x.closedAtReturn = verifhook.Hits("hydra.swamp.created"), verifhook.Hits("hydra.swamp.closed")
		snap := rig.TempRoot("c16snap")
		if err := copyTree(r.Opt.Root, snap); err != nil {
			x.snapErr = err.Error()
		}
		x.snapRoot = snap
		h.Ret = x.clock.Add(1)
		h.Outcome = fmt.Sprintf("stopped:active=%d:created=%d:closed=%d", x.activeAtReturn, x.createdAtReturn, x.closedAtReturn)
	default:
		panic("unknown op kind " + o.Kind)
	}
	if len(h.Outcome) > 200 {
		h.Outcome = h.Outcome[:200]
	}
	x.mu.Lock()
	x.hist = append(x.hist, h)
	x.mu.Unlock()
}

// launch starts the given requests concurrently and returns a function that reports how many
// of them have returned.
type flight struct {
	n    atomic.Int64
	done atomic.Int64
	tick chan struct{} // one token per returned request (buffered, created inside the bubble)
}

func (f *flight) pending() int { return int(f.n.Load() - f.done.Load()) }

func (x *runner) launch(f *flight, ops []opSpec, role string) {
	for _, o := range ops {
		f.n.Add(1)
		go func() {
			x.do(o, role)
			f.done.Add(1)
			select {
			case f.tick <- struct{}{}:
			default:
			}
		}()
	}
}

// ---------------------------------------------------------------------------
// Observation after the reload

type observed struct {
	Present bool
	Reg     int          // register keys: id of the value read (0 with Present: unparsable)
	Acc     map[int]bool // accumulator keys
	Raw     string
}

func (x *runner) observe(r *rig.Rig) (map[string]observed, string) {
	out := map[string]observed{}
	isl := rig.Island(swampName)
	resp, err := r.GW.Get(context.Background(), wire(&hydrapb.GetRequest{Swamps: []*hydrapb.GetSwamp{{IslandID: isl, SwampName: swampName, Keys: x.keys}}}))
	resp = wire(resp)
	if status.Code(err).String() == "FailedPrecondition" {
		for _, k := range x.keys { // the swamp does not exist: no key exists
			out[k] = observed{Raw: "<absent: no swamp>"}
		}
		return out, ""
	}
	if err != nil {
		return nil, "final Get failed: " + err.Error()
	}
	if resp == nil || len(resp.Swamps) != 1 {
		return nil, "final Get: malformed response"
	}
	for _, k := range x.keys {
		out[k] = observed{Raw: "<absent>"}
	}
	if !resp.Swamps[0].IsExist {
		return out, ""
	}
	for _, t := range resp.Swamps[0].Treasures {
		if !t.IsExist {
			continue
		}
		o := observed{Present: true, Acc: map[int]bool{}}
		switch t.Key[0] {
		case 's', 'x', 'b':
			o.Raw = "string:" + t.GetStringVal()
			if t.StringVal != nil && strings.HasPrefix(*t.StringVal, "v") {
				o.Reg, _ = strconv.Atoi((*t.StringVal)[1:])
			}
			if o.Reg == 0 {
				o.Reg = -1
			}
		case 'i':
			o.Raw = fmt.Sprintf("int64:%#x", t.GetInt64Val())
			if t.Int64Val == nil {
				o.Acc[-1] = true
				o.Raw = "not-an-int64"
			} else {
				for b := 0; b < 63; b++ {
					if *t.Int64Val&(int64(1)<<uint(b)) != 0 {
						o.Acc[b] = true
					}
				}
				if *t.Int64Val < 0 {
					o.Acc[-1] = true
				}
			}
		case 'u':
			o.Raw = fmt.Sprintf("uint32slice:%v", t.Uint32Slice)
			for _, v := range t.Uint32Slice {
				if o.Acc[int(v)] {
					o.Acc[-2] = true // duplicate element
				}
				o.Acc[int(v)] = true
			}
		case 'p':
			o.Raw = fmt.Sprintf("bytes:%x", t.BytesVal)
			ids, ok := parsePatchDoc(t.BytesVal)
			if !ok {
				o.Acc[-1] = true
			}
			for _, id := range ids {
				o.Acc[id] = true
			}
		}
		out[t.Key] = o
	}
	return out, ""
}

// parsePatchDoc reads the field names "f<id>" of the msgpack map a patched record holds
// (0xC7 0x00 magic, then a map of short strings to the positive fixint 1).
func parsePatchDoc(b []byte) ([]int, bool) {
	if len(b) < 3 || b[0] != 0xC7 || b[1] != 0x00 {
		return nil, false
	}
	b = b[2:]
	n := 0
	switch {
	case b[0]&0xf0 == 0x80:
		n = int(b[0] & 0x0f)
		b = b[1:]
	case b[0] == 0xde && len(b) >= 3:
		n = int(b[1])<<8 | int(b[2])
		b = b[3:]
	default:
		return nil, false
	}
	var ids []int
	for i := 0; i < n; i++ {
		if len(b) < 1 {
			return nil, false
		}
		l := 0
		switch {
		case b[0]&0xe0 == 0xa0:
			l = int(b[0] & 0x1f)
			b = b[1:]
		case b[0] == 0xd9 && len(b) >= 2:
			l = int(b[1])
			b = b[2:]
		default:
			return nil, false
		}
		if len(b) < l+1 {
			return nil, false
		}
		name := string(b[:l])
		b = b[l+1:] // value: one byte
		if !strings.HasPrefix(name, "f") {
			return nil, false
		}
		id, err := strconv.Atoi(name[1:])
		if err != nil {
			return nil, false
		}
		ids = append(ids, id)
	}
	return ids, len(b) == 0
}

// ---------------------------------------------------------------------------
// One case

// closeTick returns the virtual instant of the close-listener tick on which a swamp created at t0
// and last touched at last is closed: the listener ticks every second from the creation and closes
// on the first tick that is strictly later than last + closeAfterIdle + 1 s.
func closeTick(t0, last time.Time, idleSec int64) time.Time {
	d := last.Add(time.Duration(idleSec+1) * time.Second).Sub(t0)
	k := int64(d/time.Second) + 1
	return t0.Add(time.Duration(k) * time.Second)
}

// runCase executes one case in its own bubble on its own data root. The bubble runs in a
// subtest: when the race detector reports a data race inside a bubble (engine races are C10's
// business), testing/synctest ends the calling test with FailNow, which must not take the
// remaining cases of this process with it.
func runCase(t *testing.T, cs caseSpec) caseResult {
	var cr caseResult
	x := &runner{cs: cs, keys: allKeys(cs)}
	ok := t.Run("case", func(st *testing.T) { runBubble(st, cs, x, &cr) })
	if !ok {
		cr.RaceAbort = true
		if !cr.BubbleDone && cr.Inconclusive == "" {
			cr.Inconclusive = "the case's bubble was aborted by the test framework before it finished"
			cr.Verdicts = nil
		}
	}
	x.finish(&cr)
	return cr
}

func runBubble(t *testing.T, cs caseSpec, x *runner, cr *caseResult) {
	root := rig.TempRoot("c16")
	defer rig.RemoveAll(root)
	defer func() { rig.RemoveAll(x.snapRoot) }()
	sent := rig.InstallSentinel()
	sent.Drain()
	tap := &logTap{next: sent}
	slog.SetDefault(slog.New(tap))
	defer rig.InstallSentinel()
	verifhook.Reset()
	cr.HookHits = map[string]int64{}
	defer func() {
		// a bubble that ends with goroutines still parked panics in this goroutine
		if p := recover(); p != nil {
			s := fmt.Sprint(p)
			if len(s) > 300 {
				s = s[:300]
			}
			if cr.Inconclusive == "" {
				cr.Inconclusive = "bubble did not end cleanly: " + s
			}
			cr.Verdicts = nil
			// which engine goroutines are left behind (they stay parked in the dead bubble)
			buf := make([]byte, 1<<20)
			buf = buf[:runtime.Stack(buf, true)]
			for _, g := range strings.Split(string(buf), "\n\n") {
				if strings.Contains(g, "synctest bubble") && strings.Contains(g, "hydraide/app/") {
					if len(g) > 1500 {
						g = g[:1500]
					}
					cr.Notes = append(cr.Notes, "left behind: "+g)
				}
			}
		}
		for _, n := range []string{"swamp.closeListener.afterRead", "swamp.closeListener.beforeClose", "swamp.autodestroy.beforeDestroy", "swamp.destroy.afterDrain", "hydra.summon.beforeRelease", "swamp.save.underGuard", "swamp.teardown.afterCancel"} {
			cr.HookHits[n] = verifhook.Hits(n)
		}
		verifhook.Reset()
		for _, rec := range sent.Drain("panic") {
			s := rec.Class + ": " + rec.Msg + " " + rec.Attrs
			if len(s) > 300 {
				s = s[:300]
			}
			cr.Sentinel = append(cr.Sentinel, s)
		}
		sent.Drain()
	}()
	synctest.Test(t, func(t *testing.T) {
		defer func() { cr.BubbleDone = true }()
		r := rig.New(rig.Options{Root: root})
		x.r = r
		r.Register(swampPattern, false, cs.IdleSec, cs.WriteSec)
		note := func(f string, a ...any) { cr.Notes = append(cr.Notes, fmt.Sprintf(f, a...)) }

		t0 := time.Now()
		for _, o := range cs.Pre {
			x.do(o, "pre")
		}
		if cs.GapMs > 0 {
			time.Sleep(time.Duration(cs.GapMs) * time.Millisecond)
		}
		last := t0
		if len(cs.Touch) > 0 || len(cs.Prefix) > 0 {
			last = time.Now()
		}
		for _, v := range cs.Prefix {
			out := x.prefixRequest(v)
			if out == "" {
				continue
			}
			x.prefixLog = append(x.prefixLog, v+" -> "+out)
			x.balance(v)
		}
		role := "pre"
		if cs.Scen == "marker" {
			role = "seq"
		}
		for _, o := range cs.Touch {
			x.do(o, role)
		}

		fl := &flight{tick: make(chan struct{}, 64)}
		var fired atomic.Bool   // forced: the hook handler has launched the racers
		var parkArm atomic.Bool // forced parked: the next summon parks
		raceAt := time.Now()
		sleepTo := func(at time.Time) {
			if d := at.Sub(time.Now()); d > 0 {
				time.Sleep(d)
			}
		}
		startRacers := func() {
			if cs.Trigger != nil {
				x.launch(fl, []opSpec{*cs.Trigger}, "trigger")
			}
			x.launch(fl, cs.Writers, "racer")
		}

		// 'tail' placement: the racers are started from inside the tail of a teardown (after the closing
		// instance has released the summoners that wait for it, before it has reported closed) and
		// the tearing-down goroutine is held there. It cannot be held in virtual time: a correct
		// SummonSwamp polls the closing instance until it has left hydra's map, and a polling goroutine
		// keeps the bubble from going idle. It is held for a bounded number of scheduler yields instead,
		// or until the racers have returned (which they only can if they did not wait for the teardown).
		var tailArmed atomic.Bool
		tailAt := func() bool { return true }
		tailPark := func() {
			if !tailAt() || !tailArmed.Swap(false) {
				return
			}
			fired.Store(true)
			base, want := fl.done.Load(), int64(len(cs.Writers))
			x.launch(fl, cs.Writers, "racer")
			for i := 0; i < 400000 && fl.done.Load()-base < want; i++ {
				runtime.Gosched()
			}
		}
		if cs.Forced == "tail" {
			tailArmed.Store(true)
			verifhook.Set("swamp.teardown.afterCancel", func(...any) { tailPark() })
		}

		switch cs.Scen {
		case "idle":
			tick := closeTick(t0, last, cs.IdleSec)
			raceAt = tick.Add(time.Duration(cs.TickK) * time.Second)
			note("t0=%s last=+%s closeTick=+%s raceAt=+%s", t0.UTC().Format("15:04:05.000"), last.Sub(t0), tick.Sub(t0), raceAt.Sub(t0))
			// self-check of the tick arithmetic (only observable when the hook exists)
			var closeMu sync.Mutex
			verifhook.Set("swamp.closeListener.beforeClose", func(...any) {
				closeMu.Lock()
				// (a forced case holds the listener for 1 ms after its tick: the tick is the full second)
				cr.CloseTicks = append(cr.CloseTicks, time.Now().Sub(t0).Truncate(time.Second).String())
				closeMu.Unlock()
				if cs.Forced == "beforeClose" && time.Now().Equal(raceAt) && !fired.Swap(true) {
					// this point is reached with closeWriteMutex held; the write listener, whose tick falls
					// on the same instant, waits for that mutex, and a mutex wait keeps the bubble from going
					// idle, so virtual time cannot pass here. The racers are run to completion instead
					// (a channel wait lets every other goroutine run), which is the same placement.
					startRacers()
					for fl.pending() > 0 {
						<-fl.tick
					}
				}
			})
			if cs.Forced != "inflight" { // (no race instant there; later, legitimate closes are recorded too)
				cr.PredictedClose = tick.Sub(t0).String()
			}
			switch cs.Forced {
			case "":
				sleepTo(raceAt)
				startRacers()
			case "beforeClose":
			case "afterRead":
				verifhook.Set("swamp.closeListener.afterRead", func(...any) {
					if time.Now().Equal(raceAt) && !fired.Swap(true) {
						startRacers()
						time.Sleep(time.Millisecond)
					}
				})
			case "parked":
				// the listener has read the stale last-interaction time and is held for 1 ms; the first
				// racer is held for 2 ms between obtaining the swamp from hydra and its BeginVigil
				verifhook.Set("swamp.closeListener.afterRead", func(...any) {
					if time.Now().Equal(raceAt) && !fired.Swap(true) {
						parkArm.Store(true)
						startRacers()
						time.Sleep(time.Millisecond)
					}
				})
				verifhook.Set("hydra.summon.beforeRelease", func(...any) {
					if parkArm.Swap(false) {
						time.Sleep(2 * time.Millisecond)
					}
				})
			case "tail":
				// tail of the idle close (needs the proposed call site swamp.teardown.afterCancel)
				tailAt = func() bool { return time.Now().Equal(raceAt) }
			case "inflight":
				// exactly one request in flight, and for long: the racer is held inside SaveFunction (after
				// its BeginVigil, before its insert) for longer than the idle time; only its vigil keeps the
				// close listener from evicting the swamp under it
				var armed atomic.Bool
				armed.Store(true)
				verifhook.Set("swamp.save.underGuard", func(...any) {
					if armed.Swap(false) {
						fired.Store(true)
						time.Sleep(time.Duration(cs.IdleSec+3) * time.Second)
					}
				})
				x.launch(fl, cs.Writers[:1], "racer")
			}
			if cs.Forced != "" && cs.Forced != "inflight" {
				sleepTo(raceAt.Add(10 * time.Millisecond))
			}
			if cs.Forced == "tail" {
				synctest.Wait()
			}
		case "autodestroy", "destroy":
			switch cs.Forced {
			case "":
				startRacers()
			case "beforeDestroy", "afterDrain":
				hook := "swamp.autodestroy.beforeDestroy"
				if cs.Forced == "afterDrain" {
					hook = "swamp.destroy.afterDrain"
				}
				verifhook.Set(hook, func(...any) {
					if !fired.Swap(true) {
						x.launch(fl, cs.Writers, "racer")
						time.Sleep(time.Millisecond)
					}
				})
				x.launch(fl, []opSpec{*cs.Trigger}, "trigger")
			case "tail":
				// tail of the auto-destroy: after chronicler.Destroy(), before sendClosedEvent()
				tap.arm("Destroy: chronicler destroyed", tailPark)
				x.launch(fl, []opSpec{*cs.Trigger}, "trigger")
			case "inflight":
				// exactly one request in flight: the racer is held inside SaveFunction (after its BeginVigil,
				// before its insert) while the remover deletes the last record and runs the whole auto-destroy;
				// only the racer's vigil makes the destroy wait for the insert
				var armed atomic.Bool
				armed.Store(true)
				verifhook.Set("swamp.save.underGuard", func(...any) {
					if armed.Swap(false) {
						fired.Store(true)
						x.launch(fl, []opSpec{*cs.Trigger}, "trigger")
						time.Sleep(5 * time.Millisecond)
					}
				})
				x.launch(fl, cs.Writers[:1], "racer")
			case "parked":
				// the remover has seen the swamp empty and is held for 1 ms; the racers start; the first of
				// them is held for 2 ms between obtaining the swamp from hydra and its BeginVigil (it owns
				// hydra's summon slot meanwhile, so the other racers queue behind it); the remover resumes
				// and runs the whole auto-destroy while that racer holds the swamp without a vigil
				var parked atomic.Bool
				verifhook.Set("swamp.autodestroy.beforeDestroy", func(...any) {
					if !parked.Load() && !parkArm.Swap(true) {
						x.launch(fl, cs.Writers, "racer")
						time.Sleep(time.Millisecond)
					}
				})
				verifhook.Set("hydra.summon.beforeRelease", func(...any) {
					if parkArm.Load() && !parked.Swap(true) {
						fired.Store(true)
						time.Sleep(2 * time.Millisecond)
					}
				})
				x.launch(fl, []opSpec{*cs.Trigger}, "trigger")
			}
		case "stop":
			switch cs.Forced {
			case "":
				startRacers()
			case "parked":
				parkArm.Store(true)
				verifhook.Set("hydra.summon.beforeRelease", func(...any) {
					if parkArm.Swap(false) {
						fired.Store(true)
						x.launch(fl, []opSpec{*cs.Trigger}, "trigger")
						time.Sleep(time.Millisecond)
					}
				})
				x.launch(fl, cs.Writers, "racer")
			}
		case "stopflush":
			// The swamp holds thousands of acknowledged records that no write tick has flushed yet
			// (write interval > idle time). On the evicting tick the close listener starts to flush them;
			// the shutdown is issued while that flush is running (the storage file exists, the swamp has
			// not reported closed): Close() called by the shutdown finds closing=1 and returns at once, so
			// only the shutdown's own waiting stands between "returned" and "flushed".
			tick := closeTick(t0, last, cs.IdleSec)
			raceAt = tick
			hyd := r.HydPath(swampName)
			verifhook.Set("swamp.closeListener.beforeClose", func(...any) {
				if time.Now().Equal(raceAt) && !fired.Swap(true) {
					fl.n.Add(1)
					go func() {
						// file I/O runs in real time inside a bubble: poll (never sleep) until the flush has begun
						for i := 0; i < 200_000_000; i++ {
							if _, err := os.Stat(hyd); err == nil {
								break
							}
							if verifhook.Hits("hydra.swamp.closed") > 0 {
								break
							}
							runtime.Gosched()
						}
						x.do(*cs.Trigger, "trigger")
						fl.done.Add(1)
						select {
						case fl.tick <- struct{}{}:
						default:
						}
					}()
				}
			})
			sleepTo(raceAt.Add(10 * time.Millisecond))
		case "marker":
			// nothing concurrent: Touch already ran the sequence inside one write interval
		}

		// bounded progress: every request has returned at the first quiescent point; a summon that
		// found a closing swamp may wait up to 30 s, a graceful stop up to 10 + 30 s
		synctest.Wait()
		for i := 0; i < 4 && fl.pending() > 0; i++ {
			time.Sleep(25 * time.Second)
			synctest.Wait()
		}
		verifhook.Set("swamp.closeListener.afterRead", nil)
		verifhook.Set("swamp.closeListener.beforeClose", nil)
		verifhook.Set("swamp.autodestroy.beforeDestroy", nil)
		verifhook.Set("swamp.destroy.afterDrain", nil)
		verifhook.Set("hydra.summon.beforeRelease", nil)
		verifhook.Set("swamp.save.underGuard", nil)
		verifhook.Set("swamp.teardown.afterCancel", nil)
		tap.disarm()
		hung := fl.pending()
		if cs.Forced != "" && !fired.Load() {
			cr.Inconclusive = "forced case: hook for " + cs.Forced + " was never reached at the planned point"
		}
		if hung > 0 {
			buf := make([]byte, 1<<20)
			buf = buf[:runtimeStack(buf)]
			where := ""
			if strings.Contains(string(buf), "WaitForActiveVigilsClosed") {
				where = ": a Destroy is parked in vigil.WaitForActiveVigilsClosed although no request holds a vigil"
			}
			cr.Inconclusive = fmt.Sprintf("%d request(s) had not returned 100 virtual seconds after the race (a lifecycle wait did not terminate, C17's clause)%s", hung, where)
			if len(buf) > 1<<16 {
				buf = buf[:1<<16]
			}
			note("stacks: %s", buf)
		}

		stopped := cs.Scen == "stop" || cs.Scen == "stopflush"
		if cs.Scen == "stopflush" && cr.Inconclusive == "" && hung == 0 {
			cr.StopInFlush = x.stopInFlush
			cr.ActiveAtReturn = x.activeAtReturn
			if !x.stopInFlush {
				cr.Inconclusive = "the eviction flush was over (or had not produced a file) when the stop could be issued"
			}
		}
		if hung == 0 && !stopped {
			for _, o := range cs.Post {
				x.do(o, "post")
			}
			synctest.Wait()
		}
		if hung == 0 && !stopped {
			f := cs.Forced
			if f == "" {
				f = "natural"
			}
			x.balance("scenario:" + cs.Scen + "/" + f)
			// what the next request sees right now (a new summon): every acknowledged effect has to be
			// visible already, whatever instance it was acknowledged on
			if live, problem := x.observe(r); problem == "" && live != nil {
				x.liveFindings = x.judge(live)
				for i := range x.liveFindings {
					x.liveFindings[i].What = strings.Replace(x.liveFindings[i].What, "observed after "+cs.Reopen+" re-open", "observed LIVE by the next request (before any re-open)", 1)
				}
			}
		}

		// ---- close and re-open
		if hung == 0 {
			if cs.Reopen == "idle" && !stopped {
				time.Sleep(time.Duration(cs.IdleSec+4) * time.Second)
				if n := r.Active(); n != 0 && cr.Inconclusive == "" {
					cr.Inconclusive = fmt.Sprintf("swamp was not evicted %d s after the last request (active=%d)", cs.IdleSec+4, n)
				}
			} else {
				if x.snapRoot == "" {
					// the shutdown step itself, observed at the moment it returns (see "stop" in do)
					x.do(opSpec{Kind: "stop"}, "reopen")
				}
				r.Stop()
				time.Sleep(2 * time.Minute)
				if n := r.Active(); n != 0 && cr.Inconclusive == "" {
					cr.Inconclusive = fmt.Sprintf("engine stop left %d swamps open", n)
				}
				from := root
				if x.snapRoot != "" {
					// what a process that exits when StopHydra returns leaves behind
					from = x.snapRoot
					if x.snapErr != "" && cr.Inconclusive == "" {
						cr.Inconclusive = "could not snapshot the data root: " + x.snapErr
					}
				}
				r = rig.New(rig.Options{Root: from})
				x.rmu.Lock()
				x.r = r
				x.rmu.Unlock()
				r.Register(swampPattern, false, cs.IdleSec, cs.WriteSec)
			}
			obs, problem := x.observe(r)
			if problem != "" && cr.Inconclusive == "" {
				cr.Inconclusive = problem
			}
			if obs != nil {
				cr.Obs = map[string]string{}
				for k, o := range obs {
					cr.Obs[k] = o.Raw
				}
				if cr.Inconclusive == "" {
					cr.Verdicts = append(append(x.judge(obs), x.liveFindings...), x.balanceFindings...)
					if cs.Scen == "stopflush" && (x.activeAtReturn != 0 || x.closedAtReturn < x.createdAtReturn) {
						// no request is in flight in this scenario: when the shutdown step returns, every swamp
						// must be closed (StopHydra: "blocker function until all … are stopped gracefully")
						cr.Verdicts = append(cr.Verdicts, finding{Sig: "stop-returned-before-closed:stopflush:trigger=stop:beforeClose",
							What: fmt.Sprintf("zeus.StopHydra returned while hydra still held %d swamp(s) (created %d, reported closed %d): an idle eviction that had started before the stop was still flushing", x.activeAtReturn, x.createdAtReturn, x.closedAtReturn)})
					}
				}
			}
		}
		r.Stop()
		time.Sleep(2 * time.Minute)
	})
}

// finish derives the per-case statistics from the recorded history.
func (x *runner) finish(cr *caseResult) {
	cr.BalanceChecks, cr.BalanceNoAccess, cr.PrefixLog = x.balanceChecks, x.balanceNoAccess, x.prefixLog
	x.mu.Lock()
	cr.Hist = append([]histEntry(nil), x.hist...)
	x.mu.Unlock()
	sort.Slice(cr.Hist, func(i, j int) bool { return cr.Hist[i].Call < cr.Hist[j].Call })
	var trig *histEntry
	for i := range cr.Hist {
		if cr.Hist[i].Role == "trigger" {
			trig = &cr.Hist[i]
		}
	}
	for _, h := range cr.Hist {
		if h.Role != "racer" && h.Role != "seq" {
			continue
		}
		acked := false
		for _, v := range h.Keys {
			if v == "ack" {
				acked = true
			}
		}
		if acked {
			cr.AckedRacers++
		} else {
			cr.FailedRacers++
		}
		if trig != nil && h.Call < trig.Ret && trig.Call < h.Ret {
			cr.Overlap = true
		}
	}
}

func runtimeStack(buf []byte) int { return runtime.Stack(buf, true) }

// judge applies the oracle key by key.
func (x *runner) judge(obs map[string]observed) []finding {
	x.mu.Lock()
	hist := append([]histEntry(nil), x.hist...)
	x.mu.Unlock()
	var out []finding
	var trig string
	if x.cs.Trigger != nil {
		trig = x.cs.Trigger.Kind
	}
	for _, k := range x.keys {
		var effs []effect
		for _, h := range hist {
			v, ok := h.Keys[k]
			if !ok || v == "noop" {
				continue
			}
			ret := h.Ret
			if ret == 0 {
				ret = math.MaxInt64
			}
			effs = append(effs, effect{Id: h.Op.Id, Op: h.Op.Kind, Role: h.Role, Write: isWriter(h.Op.Kind), Acked: v == "ack", Call: h.Call, Ret: ret})
		}
		sort.Slice(effs, func(i, j int) bool { return effs[i].Call < effs[j].Call })
		o := obs[k]
		var v keyVerdict
		switch k[0] {
		case 's', 'x', 'b':
			reg := 0
			if o.Present {
				reg = o.Reg
			}
			v = checkRegister(effs, reg)
		default:
			v = checkAccumulator(effs, o.Acc)
		}
		if v.Clause == "" {
			continue
		}
		// does the trigger address the culprit's key itself?
		same := "otherkey"
		if x.cs.Trigger != nil {
			for _, tk := range x.cs.Trigger.Keys {
				if tk == k {
					same = "samekey"
				}
			}
			if x.cs.Trigger.Kind == "shiftexp" && k[0] == 'x' {
				same = "samekey"
			}
			if x.cs.Trigger.Kind == "destroy" || x.cs.Trigger.Kind == "stop" {
				same = "allkeys"
			}
		} else {
			same = "-"
		}
		wi := "interval"
		if x.cs.WriteSec == 0 {
			wi = "immediate"
		}
		forced := x.cs.Forced
		if forced == "" {
			forced = "natural"
		}
		t := trig
		if t == "" {
			t = "tick"
		}
		// signature: clause, scenario, trigger kind, placement, what the contradicted operation was
		// (a write or a removal) and its role in the schedule, whether the trigger addressed that very
		// key, and the write mode. The writer's RPC kind and the kind of re-open are in the witness only
		// (every writer goes through the same Save path; both re-opens read the same file).
		cw := "write"
		if !v.Culprit.Write {
			cw = "removal"
		}
		sig := fmt.Sprintf("%s:%s:trigger=%s:%s:%s:role=%s:%s:write=%s", v.Clause, x.cs.Scen, t, forced, cw, v.Culprit.Role, same, wi)
		if x.cs.Scen == "marker" {
			sig = fmt.Sprintf("%s:marker:init=%s:ends=%s:write=%s", v.Clause, x.cs.Init, x.cs.Seq[len(x.cs.Seq)-1:], wi)
		}
		if v.Clause == "foreign-value" {
			sig = fmt.Sprintf("%s:%s:trigger=%s:%s:keytype=%c:write=%s", v.Clause, x.cs.Scen, t, forced, k[0], wi)
		}
		what := fmt.Sprintf("key %q: %s; observed after %s re-open: %s (scenario %s/%s, closeAfterIdle %ds, write interval %ds)", k, v.Detail, x.cs.Reopen, o.Raw, x.cs.Scen, forced, x.cs.IdleSec, x.cs.WriteSec)
		out = append(out, finding{Sig: sig, What: what, Key: k, Effs: effs, Obs: o.Raw, V: v})
	}
	return out
}
