// C16 — acknowledged writes survive eviction, auto-destroy and shutdown.
//
// Monitor: inside a synctest bubble a persistent swamp (closeAfterIdle 1–3 s, write interval 1 s or
// immediate) is driven through the real gateway handlers. Writers with unique values (Set,
// IncrementInt64 by a unique power of two, Uint32SlicePush of a unique element, PatchTreasures SET of
// a unique field) are started AT THE SAME VIRTUAL INSTANT as
//
//	(a) the close-listener tick that evicts the swamp (the tick is computed from the listener's own
//	    arithmetic: ticks every second from the creation, closes on the first tick strictly later
//	    than lastInteraction + closeAfterIdle + 1 s), also one tick earlier / later,
//	(b) a Delete / ShiftByKeys / ShiftExpiredTreasures that removes the last record (auto-destroy),
//	(c) an explicit Destroy,
//	(d) the engine's graceful stop,
//
// and, in the forced variants, from inside a verifhook handler that then sleeps 1 ms of virtual time,
// which places the whole write inside the window between two lines of the lifecycle code. Every
// request is recorded at the client boundary with a logical clock (taken before the call and after
// the reply) and with what the reply acknowledged. Afterwards the swamp is evicted (idle) or the
// engine is stopped and a new one started on the same data root, every key is read, and the
// conservation oracle of oracle_test.go is applied per key.
//
// A fifth family ("marker") runs, without any concurrency, Delete/write sequences on one key inside a
// single write interval (key already on disk / only in the write buffer / absent) and applies the same
// oracle after the reload.
package c16

import (
	"fmt"
	"math/rand/v2"
	"os"
	"sort"
	"strings"
	"testing"
	"time"

	"verifharness/rig"
)

var writerKinds = []string{"set", "inc", "push", "patch"}

func keyFor(kind string, n int) string {
	switch kind {
	case "set":
		return fmt.Sprintf("s%d", n)
	case "setexp":
		return fmt.Sprintf("x%d", n)
	case "inc":
		return fmt.Sprintf("i%d", n)
	case "push":
		return fmt.Sprintf("u%d", n)
	}
	return fmt.Sprintf("p%d", n)
}

type combo struct{ scen, forced string }

// one cycle of the generated part: every (scenario, placement) pair, natural races weighted up
var cycle = []combo{
	{"idle", ""}, {"idle", ""}, {"idle", ""}, {"idle", ""}, {"idle", "afterRead"}, {"idle", "beforeClose"}, {"idle", "parked"}, {"idle", "parked"},
	{"autodestroy", ""}, {"autodestroy", ""}, {"autodestroy", ""}, {"autodestroy", ""}, {"autodestroy", "beforeDestroy"}, {"autodestroy", "beforeDestroy"}, {"autodestroy", "afterDrain"}, {"autodestroy", "parked"}, {"autodestroy", "parked"},
	{"destroy", ""}, {"destroy", ""}, {"destroy", "afterDrain"},
	{"stop", ""}, {"stop", ""}, {"stop", "parked"},
	{"stopflush", "beforeClose"},
	{"autodestroy", "inflight"}, {"autodestroy", "inflight"}, {"idle", "inflight"},
	{"autodestroy", "tail"}, {"autodestroy", "tail"}, {"idle", "tail"},
}

func genCase(r *rand.Rand, idx int) caseSpec {
	cb := cycle[idx%len(cycle)]
	cs := caseSpec{Scen: cb.scen, Forced: cb.forced, IdleSec: int64(1 + r.IntN(3)), WriteSec: 1}
	if r.IntN(5) < 2 {
		cs.WriteSec = 0
	}
	id := 0
	next := func() int { id++; return id }
	writer := func(kind string, n int) opSpec { return opSpec{Id: next(), Kind: kind, Key: keyFor(kind, n)} }
	randWriter := func(maxKey int) opSpec { return writer(writerKinds[r.IntN(len(writerKinds))], 1+r.IntN(maxKey)) }
	cs.Reopen = []string{"idle", "restart"}[r.IntN(2)]

	switch cs.Scen {
	case "idle":
		for i, n := 0, 1+r.IntN(3); i < n; i++ {
			cs.Pre = append(cs.Pre, randWriter(2))
		}
		cs.GapMs = []int{0, 0, 300, 1000, 1500}[r.IntN(5)]
		if cs.GapMs > 0 {
			cs.Touch = []opSpec{randWriter(2)}
		}
		if cs.Forced == "" {
			cs.TickK = []int{0, 0, 0, 0, -1, 1}[r.IntN(6)]
		}
		for i, n := 0, 1+r.IntN(4); i < n; i++ {
			cs.Writers = append(cs.Writers, randWriter(3))
		}
		if r.IntN(3) == 0 {
			cs.Post = []opSpec{randWriter(3)}
		}
	case "autodestroy":
		trig := []string{"del", "shiftkeys", "shiftexp"}[r.IntN(3)]
		nLast := 1 + r.IntN(2)
		var lastKeys []string
		for i := 0; i < nLast; i++ {
			var o opSpec
			if trig == "shiftexp" {
				o = writer("setexp", i+1)
			} else {
				o = writer(writerKinds[r.IntN(len(writerKinds))], i+1)
			}
			dup := false
			for _, k := range lastKeys {
				if k == o.Key {
					dup = true
				}
			}
			if !dup {
				lastKeys = append(lastKeys, o.Key)
			}
			cs.Pre = append(cs.Pre, o)
		}
		cs.GapMs = []int{0, 1100, 1100, 300}[r.IntN(4)] // last record only in the write buffer / already on disk
		t := opSpec{Id: next(), Kind: trig}
		if trig != "shiftexp" {
			t.Keys = lastKeys
		}
		cs.Trigger = &t
		var same *opSpec
		for i, n := 0, 1+r.IntN(4); i < n; i++ {
			w := randWriter(3)
			w.Key = keyFor(w.Kind, 5+r.IntN(3)) // a key the trigger does not address
			if r.IntN(5) == 0 && trig != "shiftexp" {
				// a racer on one of the very keys that are being removed (same value type)
				p := cs.Pre[r.IntN(len(cs.Pre))]
				w = opSpec{Id: w.Id, Kind: p.Kind, Key: p.Key}
				same = &w
			}
			cs.Writers = append(cs.Writers, w)
		}
		switch {
		case same != nil && r.IntN(2) == 0:
			// a write to that key strictly after the race: whatever the race did to the record, this
			// acknowledged write has to be there after the reload
			cs.Post = []opSpec{{Id: next(), Kind: same.Kind, Key: same.Key}}
		case r.IntN(3) == 0:
			cs.Post = []opSpec{randWriter(8)}
		}
	case "destroy":
		for i, n := 0, 1+r.IntN(3); i < n; i++ {
			cs.Pre = append(cs.Pre, randWriter(3))
		}
		cs.GapMs = []int{0, 1100, 300}[r.IntN(3)]
		cs.Trigger = &opSpec{Id: next(), Kind: "destroy"}
		for i, n := 0, 1+r.IntN(4); i < n; i++ {
			cs.Writers = append(cs.Writers, randWriter(4))
		}
		for i, n := 0, 1+r.IntN(2); i < n; i++ {
			cs.Post = append(cs.Post, randWriter(4))
		}
	case "stopflush":
		// thousands of acknowledged records that only the eviction's own flush will write
		cs.IdleSec = int64(1 + r.IntN(2))
		cs.WriteSec = 30
		for i, n := 0, 2+r.IntN(2); i < n; i++ {
			cs.Pre = append(cs.Pre, opSpec{Id: next(), Kind: "bulk", N: 500 + 150*r.IntN(3)})
		}
		if r.IntN(2) == 0 {
			cs.GapMs = []int{300, 1000}[r.IntN(2)]
			cs.Touch = []opSpec{randWriter(2)}
		}
		cs.Trigger = &opSpec{Id: next(), Kind: "stop"}
		cs.Reopen = "restart"
	case "stop":
		for i, n := 0, 1+r.IntN(3); i < n; i++ {
			cs.Pre = append(cs.Pre, randWriter(3))
		}
		cs.GapMs = []int{0, 1100, 300}[r.IntN(3)]
		cs.Trigger = &opSpec{Id: next(), Kind: "stop"}
		for i, n := 0, 1+r.IntN(4); i < n; i++ {
			cs.Writers = append(cs.Writers, randWriter(4))
		}
		cs.Reopen = "restart"
	}
	if cs.Forced == "tail" {
		// one or two racers on keys the trigger does not address
		if len(cs.Writers) > 2 {
			cs.Writers = cs.Writers[:2]
		}
		for i := range cs.Writers {
			cs.Writers[i].Key = keyFor(cs.Writers[i].Kind, 5+r.IntN(3))
		}
		cs.TickK = 0
	}
	if cs.Forced == "inflight" {
		// exactly one request in flight, on a key that was never written before: the racer is held
		// under its record guard, and a record that already sits in the write buffer would make the
		// write tick wait for that guard while holding the mutex the close listener needs (a mutex
		// wait freezes virtual time, see BUILDING.md)
		w := cs.Writers[0]
		w.Key = keyFor(w.Kind, 5+r.IntN(3))
		cs.Writers = []opSpec{w}
		cs.TickK = 0
	}
	// a random prefix of vigil-taking requests on the instance the scenario then races against
	if n := r.IntN(6); cs.Forced == "inflight" || n >= 2 {
		if cs.Forced == "inflight" {
			n = 2 + r.IntN(5)
		}
		for i := 0; i < n; i++ {
			cs.Prefix = append(cs.Prefix, prefixVariants[r.IntN(len(prefixVariants))])
		}
	}
	f := cs.Forced
	if f == "" {
		f = "natural"
	}
	cs.Name = fmt.Sprintf("g%04d-%s-%s", idx, cs.Scen, f)
	return cs
}

// markerCases: Delete / write sequences on one key inside a single write interval.
//
//	init: disk = the key was written and flushed before; buffer = written in the same interval;
//	      absent = never written.   seq: letters W (write with the key's writer) and D (Delete).
func markerCases(maxLen int, full bool) []caseSpec {
	var seqs []string
	var rec func(p string)
	rec = func(p string) {
		if len(p) > 0 {
			seqs = append(seqs, p)
		}
		if len(p) == maxLen {
			return
		}
		rec(p + "W")
		rec(p + "D")
	}
	rec("")
	sort.Slice(seqs, func(i, j int) bool {
		if len(seqs[i]) != len(seqs[j]) {
			return len(seqs[i]) < len(seqs[j])
		}
		return seqs[i] < seqs[j]
	})
	var out []caseSpec
	n := 0
	for _, init := range []string{"disk", "buffer", "absent"} {
		for _, wi := range []int64{1, 0} {
			for _, seq := range seqs {
				if !full && init != "disk" && (len(seq) != 3 || wi == 0) {
					continue
				}
				kind := writerKinds[n%len(writerKinds)]
				companion := n%5 != 4
				n++
				id := 0
				next := func() int { id++; return id }
				k := keyFor(kind, 1)
				cs := caseSpec{Scen: "marker", IdleSec: 2, WriteSec: wi, Reopen: []string{"idle", "restart"}[n%2], Init: init, Seq: seq}
				if companion {
					cs.Pre = append(cs.Pre, opSpec{Id: next(), Kind: "set", Key: "s9"})
				}
				switch init {
				case "disk":
					cs.Pre = append(cs.Pre, opSpec{Id: next(), Kind: kind, Key: k})
					cs.GapMs = 1100
				case "buffer":
					cs.GapMs = 1100
					cs.Touch = append(cs.Touch, opSpec{Id: next(), Kind: kind, Key: k})
				case "absent":
					cs.GapMs = 1100
				}
				for _, ch := range seq {
					if ch == 'W' {
						cs.Touch = append(cs.Touch, opSpec{Id: next(), Kind: kind, Key: k})
					} else {
						cs.Touch = append(cs.Touch, opSpec{Id: next(), Kind: "del", Keys: []string{k}})
					}
				}
				comp := "alone"
				if companion {
					comp = "companion"
				}
				cs.Name = fmt.Sprintf("marker-%s-%s-%s-wi%d-%s", init, seq, kind, wi, comp)
				out = append(out, cs)
			}
		}
	}
	return out
}

type childSpec struct {
	Cases []caseSpec `json:"cases"`
}

type witness struct {
	Case     caseSpec          `json:"case"`
	Findings []finding         `json:"findings"`
	History  []histEntry       `json:"history"`
	Observed map[string]string `json:"observed"`
	Notes    []string          `json:"notes,omitempty"`
	Hooks    map[string]int64  `json:"hook_hits"`
	Sentinel []string          `json:"sentinel,omitempty"`
}

// slimHist / slimObs keep the witness of a bulk case readable.
func slimHist(hs []histEntry) []histEntry {
	out := make([]histEntry, len(hs))
	for i, h := range hs {
		out[i] = h
		if len(h.Keys) > 20 {
			cnt := map[string]int{}
			for _, v := range h.Keys {
				cnt[v]++
			}
			out[i].Keys = map[string]string{}
			for v, n := range cnt {
				out[i].Keys[fmt.Sprintf("<%d keys>", n)] = v
			}
		}
	}
	return out
}

func slimObs(o map[string]string) map[string]string {
	if len(o) <= 40 {
		return o
	}
	out, absent, present := map[string]string{}, 0, 0
	for k, v := range o {
		if k[0] != 'b' {
			out[k] = v
		} else if strings.HasPrefix(v, "<absent") {
			absent++
		} else {
			present++
		}
	}
	out["<bulk keys present>"] = fmt.Sprint(present)
	out["<bulk keys absent>"] = fmt.Sprint(absent)
	return out
}

// account books one executed case into the accumulator.
func account(c *rig.Check, cs caseSpec, cr caseResult) {
	c.Case(rig.Dump(cs), cr.Nontrivial)
	c.Sample(cs)
	c.Count("requests", int64(len(cr.Hist)))
	c.Count("racers_acknowledged", int64(cr.AckedRacers))
	c.Count("racers_refused_or_failed", int64(cr.FailedRacers))
	if cr.Overlap {
		c.Count("cases_with_racer_overlapping_trigger", 1)
	}
	f := cs.Forced
	if f == "" {
		f = "natural"
	}
	c.Seen("scenario_placements", cs.Scen+"/"+f)
	if cs.Trigger != nil {
		c.Seen("triggers", cs.Trigger.Kind)
	}
	for _, h := range cr.Hist {
		c.Seen("request_kinds", h.Op.Kind)
		out := h.Outcome
		if i := strings.IndexAny(out, ":,="); i > 0 && !strings.HasPrefix(out, "error:") {
			out = out[:i]
		}
		if strings.HasPrefix(out, "error:") {
			p := strings.SplitN(out, ":", 3)
			out = p[0] + ":" + p[1]
			if strings.Contains(h.Outcome, "shutting down") {
				out += ":shutting-down"
			}
		}
		c.Seen("reply_classes", h.Op.Kind+"→"+out)
	}
	for n, v := range cr.HookHits {
		c.Count("hook_hits:"+n, v)
	}
	if cs.Scen == "idle" && cr.PredictedClose != "" && cr.HookHits["swamp.closeListener.afterRead"] > 0 {
		// self-check of the tick arithmetic: while the recorder was installed (until the racers had
		// returned) the listener may have decided to close only on the predicted tick (or not at all,
		// when a racer refreshed the last-interaction time first)
		switch {
		case len(cr.CloseTicks) == 0:
			c.Count("idle_no_close_at_race_instant(racer_came_first)", 1)
		case cr.CloseTicks[0] == cr.PredictedClose:
			c.Count("idle_close_on_predicted_tick", 1)
		default:
			c.Count("idle_close_on_unpredicted_tick", 1)
			if cr.Inconclusive == "" {
				cr.Inconclusive = "close-listener closed at +" + cr.CloseTicks[0] + ", predicted +" + cr.PredictedClose + " (tick arithmetic of the monitor is off)"
			}
		}
	}
	c.Count("vigil_balance_checks(counter_read_at_quiescence)", int64(cr.BalanceChecks))
	if cr.BalanceNoAccess > 0 {
		c.Count("vigil_balance_unchecked(accessor_absent)", int64(cr.BalanceNoAccess))
	}
	for _, l := range cr.PrefixLog {
		c.Count("prefix_requests", 1)
		c.Seen("prefix_requests_and_replies", l)
	}
	if cs.Scen == "stopflush" && cr.StopInFlush {
		c.Count("stops_issued_inside_a_running_eviction_flush", 1)
	}
	if cr.RaceAbort {
		c.Count("cases_in_which_the_race_detector_fired", 1)
	}
	if len(cr.Sentinel) > 0 {
		c.Count("recovered_panics_logged", int64(len(cr.Sentinel)))
	}
	if cr.Inconclusive != "" {
		c.Inconclusive(cr.Inconclusive)
		if p := os.Getenv("C16_DEBUG"); strings.HasPrefix(p, "/") { // development aid
			if f, err := os.OpenFile(p, os.O_APPEND|os.O_CREATE|os.O_WRONLY, 0o644); err == nil {
				fmt.Fprintf(f, "INCONCLUSIVE %s: %s\n  case %s  hist %s\n  notes %s\n", cs.Name, cr.Inconclusive, rig.Dump(cs), rig.Dump(cr.Hist), strings.Join(cr.Notes, "\n"))
				f.Close()
			}
		}
		return
	}
	bySig := map[string][]finding{}
	var order []string
	for _, f := range cr.Verdicts {
		if _, ok := bySig[f.Sig]; !ok {
			order = append(order, f.Sig)
		}
		bySig[f.Sig] = append(bySig[f.Sig], f)
	}
	for _, sig := range order {
		fs := bySig[sig]
		c.Seen("observed_signatures", sig)
		if os.Getenv("C16_DEBUG") != "" {
			fmt.Printf("SIG %s\t%s\t%s\n", sig, cs.Name, fs[0].What)
		}
		what := fs[0].What
		if len(fs) > 1 {
			what += fmt.Sprintf(" (and %d more keys)", len(fs)-1)
		}
		if len(fs) > 5 {
			fs = fs[:5]
		}
		c.Violate(sig, what+" [case "+cs.Name+"]", witness{Case: cs, Findings: fs, History: slimHist(cr.Hist), Observed: slimObs(cr.Obs), Notes: cr.Notes, Hooks: cr.HookHits, Sentinel: cr.Sentinel})
	}
}

func runAndAccount(t *testing.T, c *rig.Check, cs caseSpec) {
	cr := runCase(t, cs)
	if os.Getenv("C16_TRACE") != "" { // development aid
		fmt.Printf("TRACE %s\n  case: %s  predictedClose=%s closeTicks=%v hooks=%v inconclusive=%q\n", cs.Name, rig.Dump(cs), cr.PredictedClose, cr.CloseTicks, cr.HookHits, cr.Inconclusive)
		for _, h := range cr.Hist {
			fmt.Printf("  [%3d,%3d] %-7s %s #%d %s%v at %s -> %s %v\n", h.Call, h.Ret, h.Role, h.Op.Kind, h.Op.Id, h.Op.Key, h.Op.Keys, h.At, h.Outcome, h.Keys)
		}
		fmt.Printf("  observed: %v\n  notes: %v\n", cr.Obs, cr.Notes)
		for _, f := range cr.Verdicts {
			fmt.Printf("  FINDING %s\n    %s\n", f.Sig, f.What)
		}
	}
	acked := cr.AckedRacers > 0
	if cs.Scen == "stopflush" {
		acked = cr.StopInFlush // the stop really fell into the running eviction flush
	}
	cr.Nontrivial = cr.Inconclusive == "" && acked
	account(c, cs, cr)
}

func TestCheck(t *testing.T) {
	c := rig.NewCheck(t, "C16", "exploration")
	defer c.Finish()
	c.Rule = "a case = one schedule in a synctest bubble on a persistent swamp (closeAfterIdle 1-3 s, write interval 1 s or immediate): setup writes, then writers with unique values (Set / IncrementInt64 / Uint32SlicePush / PatchTreasures) started at the same virtual instant as the evicting close-listener tick (also one tick earlier/later), a last-record Delete/ShiftByKeys/ShiftExpired (auto-destroy), an explicit Destroy, or the graceful stop (zeus.StopHydra called directly; the data root is copied at the very moment it returns and that copy is what is re-opened; 'stopflush' = 1000-2400 acknowledged records that no write tick has flushed (write interval 30 s > idle), the stop issued from closeListener.beforeClose as soon as the eviction's own flush has produced the storage file, so that Close() called by the shutdown finds the swamp already closing) — natural (truly parallel goroutines) or forced (started from a verifhook handler that then sleeps 1 ms virtual: closeListener.afterRead/beforeClose, autodestroy.beforeDestroy, destroy.afterDrain, and 'parked' = first racer held at hydra.summon.beforeRelease between summon and BeginVigil while the close/destroy/stop runs, 'inflight' = exactly ONE request in flight, held at swamp.save.underGuard after its BeginVigil and before its insert, while the last-record removal and its whole auto-destroy run, or for longer than the idle time); before the scenario a random prefix (0-6) of vigil-taking gateway requests that store nothing runs on the same live instance (all read / stream RPCs incl. GetByIndexStream and GetByIndexStreamFromMany with request-level and per-query MaxResults reached or not, Count / existence / slice probes, engine-side failing requests, a request that panics in the handler), and after every prefix request and after the scenario — no request in flight — the vigil counter of the live instance is read through the verif-tagged accessor (*swamp).VerifVigilCount and must be exactly 0 (unchecked, and counted as such, when the tree lacks the accessor); plus sequential Delete/write sequences on one key inside one write interval (marker family); then eviction or engine restart on the same root and a Get of every key; oracle = per-key conservation over acknowledged effects with a logical clock; non-trivial = at least one racing (or sequence) request was acknowledged and the re-open was confirmed (stopflush: the stop was issued while the eviction flush was running); distinct = distinct case JSON"
	c.Assumptions = []string{
		"acknowledged = Set status NEW/UPDATED, Increment IsIncremented, PatchResult PATCHED/CREATED, Uint32SlicePush nil error, Delete status DELETED, a record returned by ShiftByKeys/ShiftExpiredTreasures, Destroy nil error; any gRPC error, INTERNAL_ERROR or missing reply = not acknowledged (the request may or may not have taken effect, both accepted)",
		"requests that overlap on the logical clock may take effect in either order; an explicit Destroy counts as an acknowledged removal of every key, so writes that precede or overlap it may be gone; the automatic destroy after a last-record removal is not a client operation",
		"a key whose last acknowledged operation is a removal must be absent after the reload (a removal that re-appears is reported with the clause 'resurrected', a lost write with 'lost-ack')",
		"accumulator keys (Increment / Uint32SlicePush / PatchTreasures) are judged as sets of unique contributions; orderings among contributions that all overlap the same removal are not checked, and old contributions that survive a removal are not reported when a write on the same key overlapped that removal (the read-modify-write may have carried them; a live write/removal interleaving is C09/C11's question) — weaker reading",
		"graceful stop = zeus.StopHydra called directly (the step server.Stop and zeus' panic monitor both end with), possibly while handlers are in flight; the process is assumed to exit when it returns, so the observation is a copy of the data root taken at that moment; in the stopflush scenario (no request in flight) hydra must hold no swamp and every created swamp must have reported closed by then; server.Stop() first drains gRPC (up to 60 s) before StopHydra, so the 'stop' scenario corresponds to that drain timing out or to the panic-signal path; requests refused with 'hydra is shutting down' are not acknowledged",
		"V2 storage engine, one swamp, one island; subscribers, in-memory swamps and the V1 engine are not driven",
		"a request that has not returned 100 virtual seconds after the race makes the case inconclusive here (bounded progress is C17's clause)",
	}
	c.MaxInconclusiveFrac = 0.10

	if p := c.ReplayPath(); p != "" {
		var w struct {
			Witness witness `json:"witness"`
		}
		rig.ReadJSON(p, &w)
		// forced schedules are deterministic; natural races are re-run a few times
		reps := 5
		if w.Witness.Case.Forced != "" || w.Witness.Case.Scen == "marker" {
			reps = 1
		}
		hit := 0
		for i := 0; i < reps; i++ {
			cr := runCase(t, w.Witness.Case)
			cr.Nontrivial = cr.Inconclusive == "" && cr.AckedRacers > 0
			if len(cr.Verdicts) > 0 {
				hit++
			}
			account(c, w.Witness.Case, cr)
		}
		fmt.Printf("REPLAY property=C16 case=%s repetitions=%d violated=%d\n", w.Witness.Case.Name, reps, hit)
		return
	}

	if c.IsChild() {
		var sp childSpec
		c.ChildSpec(&sp)
		for _, cs := range sp.Cases {
			st := time.Now()
			runAndAccount(t, c, cs)
			if p := os.Getenv("C16_DEBUG"); strings.HasPrefix(p, "/") { // development aid: per-case timing log
				if f, err := os.OpenFile(p, os.O_APPEND|os.O_CREATE|os.O_WRONLY, 0o644); err == nil {
					fmt.Fprintf(f, "CASE %s wall=%.2fs pid=%d\n", cs.Name, time.Since(st).Seconds(), os.Getpid())
					f.Close()
				}
			}
		}
		return
	}

	n := c.N(300, 6000)
	cases := markerCases(c.N(3, 5), !c.Quick())
	nm := len(cases)
	for i := 0; len(cases) < n; i++ {
		cases = append(cases, genCase(c.Rand(i), i))
	}
	c.Extra("marker_cases", nm)
	c.Extra("generated_cases", len(cases)-nm)

	// The 'parked' placements need hydra.summon.beforeRelease, a call site another property (C17/C18)
	// owns. When the tree under test does not have it, those schedules cannot be forced at all; they
	// are then run as natural races (and the evidence says so) instead of drowning the run in
	// inconclusive cases. The four call sites this monitor proposes itself are not treated this way:
	// a forced case whose own hook is not reached is inconclusive.
	if !c.IsChild() {
		probe := runCase(t, caseSpec{Name: "probe", Scen: "marker", IdleSec: 1, WriteSec: 1, Reopen: "idle", Init: "absent", Seq: "W",
			Touch: []opSpec{{Id: 1, Kind: "set", Key: "s1"}}})
		have := probe.HookHits["hydra.summon.beforeRelease"] > 0
		c.Extra("hook_present:hydra.summon.beforeRelease", have)
		c.Extra("hook_present:swamp.closeListener.afterRead", probe.HookHits["swamp.closeListener.afterRead"] > 0)
		haveTail := probe.HookHits["swamp.teardown.afterCancel"] > 0
		c.Extra("hook_present:swamp.teardown.afterCancel", haveTail)
		if !haveTail {
			// the tail of an idle close has no log line to hang on; without the proposed call site the
			// idle/tail schedules cannot be placed and run as natural races
			for i := range cases {
				if cases[i].Scen == "idle" && cases[i].Forced == "tail" {
					cases[i].Forced = ""
					cases[i].Name += "-as-natural"
				}
			}
		}
		if !have {
			conv := 0
			for i := range cases {
				if cases[i].Forced == "parked" {
					cases[i].Forced = ""
					cases[i].Name += "-as-natural"
					conv++
				}
			}
			c.Extra("parked_cases_run_as_natural(hook_absent)", conv)
		}
	}

	if only := os.Getenv("C16_ONLY"); only != "" { // development aid: run the matching cases in this process
		for _, cs := range cases {
			if strings.Contains(cs.Name, only) {
				st := time.Now()
				runAndAccount(t, c, cs)
				fmt.Printf("CASE %s wall=%.2fs\n", cs.Name, time.Since(st).Seconds())
			}
		}
		return
	}
	batch := c.N(6, 20)
	var specs []any
	var batches [][]caseSpec
	for i := 0; i < len(cases); i += batch {
		j := min(i+batch, len(cases))
		specs = append(specs, childSpec{Cases: cases[i:j]})
		batches = append(batches, cases[i:j])
	}
	res := c.Fanout(specs, rig.FanoutOpts{Par: 16, Timeout: 240 * time.Second, KeepLogs: os.Getenv("C16_DEBUG") != ""})
	for i, r := range res {
		if os.Getenv("C16_DEBUG") != "" && (r.ExitErr != nil || r.TimedOut || r.NoPartial || len(r.Fatal) > 0) {
			fmt.Printf("CHILD %d first=%s exit=%v timedout=%v nopartial=%v fatal=%v races=%d log=%s\n", i, batches[i][0].Name, r.ExitErr, r.TimedOut, r.NoPartial, r.Fatal, len(r.Races), r.LogPath)
		}
		for _, rr := range r.Races {
			c.Count("race_reports_in_children", 1)
			c.Seen("race_signatures(not judged here, C10)", rr.Sig)
		}
		if r.NoPartial || r.TimedOut {
			why := "child process died"
			if r.TimedOut {
				why = "child process exceeded its wall-clock watchdog (a request or the engine stop never finished)"
			}
			if len(r.Fatal) > 0 {
				why += ": " + r.Fatal[0]
			}
			for _, cs := range batches[i] {
				c.Case(rig.Dump(cs), false)
				c.Inconclusive(why + " [batch of " + cs.Name + ", log " + r.LogPath + "]")
			}
		}
	}
}
