package c16

import (
	"fmt"
	"math"
	"sort"
)

// An effect is what one client operation may have done to ONE key, with the logical-clock
// interval [Call, Ret] in which the operation was outstanding at the client boundary.
//
//	Write=true   the operation stores its unique value Id under the key (register keys) or adds
//	             its unique element Id to the key's accumulator (counter bit / slice element / map field)
//	Write=false  the operation removes the key (Delete, ShiftByKeys, ShiftExpired of that key, or an
//	             explicit Destroy of the swamp, which counts as a removal of every key)
//	Acked=true   the reply said so (NEW/UPDATED/DELETED/incremented/…); Acked=false: the client got an
//	             error or no reply at all — the operation may or may not have taken effect
type effect struct {
	Id    int    `json:"id"`
	Op    string `json:"op"`
	Role  string `json:"role"` // pre | racer | post | trigger | seq
	Write bool   `json:"write"`
	Acked bool   `json:"acked"`
	Call  int64  `json:"call"`
	Ret   int64  `json:"ret"` // math.MaxInt64 when the operation never returned
}

// before: a finished before b was invoked (real-time order at the client).
func before(a, b effect) bool { return a.Ret < b.Call }

var initial = effect{Id: 0, Op: "initial", Write: false, Acked: true, Call: math.MinInt64, Ret: math.MinInt64}

// verdict of one key.
type keyVerdict struct {
	Clause  string // "" = held; lost-ack | resurrected | foreign-value
	Culprit effect // the acknowledged operation whose effect is contradicted
	Detail  string
}

// checkRegister decides a key that holds the unique value of its last writer. obs = 0: the key
// is absent after the reload, otherwise the id of the write whose value was read.
//
// Held iff the observed state is the effect of some operation o (a write, a removal, or "never
// written") such that no ACKNOWLEDGED operation on the key was invoked after o had returned
// (o is in the last-acknowledged-writer set). Unacknowledged operations may be o, but never
// constrain anything.
func checkRegister(effs []effect, obs int) keyVerdict {
	if obs != 0 {
		var o *effect
		for i := range effs {
			if effs[i].Write && effs[i].Id == obs {
				o = &effs[i]
			}
		}
		if o == nil {
			return keyVerdict{Clause: "foreign-value", Detail: fmt.Sprintf("value of write #%d was read but no such write addressed this key", obs)}
		}
		// the latest acknowledged operation that was invoked after o had returned is the telling one
		var late *effect
		for i, e := range effs {
			if e.Acked && e.Id != o.Id && before(*o, e) && (late == nil || e.Call > late.Call) {
				late = &effs[i]
			}
		}
		if late == nil {
			return keyVerdict{}
		}
		if late.Write {
			return keyVerdict{Clause: "lost-ack", Culprit: *late, Detail: fmt.Sprintf("reloaded value is that of write #%d, but write #%d was acknowledged after #%d had returned", o.Id, late.Id, o.Id)}
		}
		return keyVerdict{Clause: "resurrected", Culprit: *late, Detail: fmt.Sprintf("reloaded value is that of write #%d, but removal #%d (%s) was acknowledged after #%d had returned", o.Id, late.Id, late.Op, o.Id)}
	}
	// absent: some removal (or the initial state) must not be followed by an acknowledged write
	cands := []effect{initial}
	for _, e := range effs {
		if !e.Write {
			cands = append(cands, e)
		}
	}
	var worst effect
	for _, r := range cands {
		ok := true
		for _, w := range effs {
			if w.Write && w.Acked && before(r, w) {
				ok = false
				if w.Call > worst.Call || worst.Id == 0 {
					worst = w
				}
			}
		}
		if ok {
			return keyVerdict{}
		}
	}
	return keyVerdict{Clause: "lost-ack", Culprit: worst, Detail: fmt.Sprintf("key is absent after the reload, but write #%d (%s) was acknowledged and no removal of the key was outstanding at or after it", worst.Id, worst.Op)}
}

// checkAccumulator decides a key whose value is the set of the unique contributions of its
// writers (Increment by distinct powers of two, Uint32SlicePush of distinct elements,
// PatchTreasures SET of distinct fields). obs = the contributions found after the reload
// (nil map and present=false: key absent).
//
// Held iff there is a "last removal" r (a removal of the key, acknowledged or not, or the initial
// state) such that
//
//	(1) no acknowledged removal was invoked after r returned,
//	(2) every acknowledged write invoked after r returned is in obs,
//	(2') every acknowledged write invoked after a write that is in obs returned is in obs,
//	(3) no write in obs had returned before r was invoked — unless some write overlaps r.
func checkAccumulator(effs []effect, obs map[int]bool) keyVerdict {
	byId := map[int]effect{}
	for _, e := range effs {
		if e.Write {
			byId[e.Id] = e
		}
	}
	var ids []int
	for id := range obs {
		ids = append(ids, id)
	}
	sort.Ints(ids)
	for _, id := range ids {
		if _, ok := byId[id]; !ok {
			return keyVerdict{Clause: "foreign-value", Detail: fmt.Sprintf("contribution #%d was read but no such write addressed this key", id)}
		}
	}
	cands := []effect{initial}
	for _, e := range effs {
		if !e.Write {
			cands = append(cands, e)
		}
	}
	try := func(r effect) keyVerdict {
		for _, e := range effs {
			if !e.Write && e.Acked && before(r, e) {
				// r is not the last removal; a verdict against this candidate only
				return keyVerdict{Clause: "not-last", Culprit: e}
			}
		}
		// (3) is not judged when some write overlaps r: such a write is a read-modify-write that may
		// have read the old contributions before r removed them and stored them again with its own
		// (the reloaded value is then "the value an acknowledged write produced"); whether that
		// interleaving of a live write and a live removal is acceptable is a question of C09/C11.
		carried := false
		for _, w := range effs {
			if w.Write && w.Call < r.Ret && r.Call < w.Ret {
				carried = true
			}
		}
		for _, id := range ids {
			if !carried && before(byId[id], r) {
				return keyVerdict{Clause: "resurrected", Culprit: r, Detail: fmt.Sprintf("contribution #%d (%s) is present after the reload although removal #%d (%s) was acknowledged after it had returned", id, byId[id].Op, r.Id, r.Op)}
			}
		}
		for _, w := range effs {
			if !w.Write || !w.Acked || obs[w.Id] {
				continue
			}
			if before(r, w) {
				return keyVerdict{Clause: "lost-ack", Culprit: w, Detail: fmt.Sprintf("contribution #%d (%s) was acknowledged after every removal of the key had returned, but is missing after the reload (present: %v)", w.Id, w.Op, ids)}
			}
			for _, id := range ids {
				if before(byId[id], w) {
					return keyVerdict{Clause: "lost-ack", Culprit: w, Detail: fmt.Sprintf("contribution #%d (%s) was acknowledged after contribution #%d had returned; #%d survived the reload, #%d did not (present: %v)", w.Id, w.Op, id, id, w.Id, ids)}
				}
			}
		}
		return keyVerdict{}
	}
	for _, r := range cands {
		if v := try(r); v.Clause == "" {
			return v
		}
	}
	// refuted. Report against the definitive last removal: the acknowledged removal (or the initial
	// state) that no other acknowledged removal follows and that was invoked last.
	best := initial
	for _, r := range cands {
		if r.Acked && r.Call >= best.Call && try(r).Clause != "not-last" {
			best = r
		}
	}
	return try(best)
}
