package c17

import (
	"context"
	"fmt"
	"math/rand/v2"
	"sort"
	"strings"
	"sync"
	"sync/atomic"
	"testing"
	"testing/synctest"
	"time"

	"github.com/hydraide/hydraide/app/core/hydra/swamp"
	"github.com/hydraide/hydraide/app/name"
	"github.com/hydraide/hydraide/app/verifhook"
	hydrapb "github.com/hydraide/hydraide/sdk/go/hydraidego/v3/hydraidepbgo"

	"verifharness/rig"
)

// eop is one step of an engine-level schedule. Kinds:
//
//	hold       in-flight operation, exactly the handler protocol: SummonSwamp, BeginVigil, stay Hold
//	           ms (virtual), CeaseVigil
//	set get    gateway requests (instantaneous in virtual time)
//	destroy    SummonSwamp + Destroy() at the engine API (what the Destroy handler does)
//	gwdestroy  gateway Destroy request
//	dellast    gateway Delete of every key: the last one triggers the automatic destroy inside the
//	           request (CeaseVigil + Destroy + the handler's deferred CeaseVigil)
//	summon     SummonSwamp (waits while the swamp is closing), context cancelled after Cancel ms if >0
//	wgc        WaitForGracefulClose(background) on the most recent object the schedule has seen
//	stop       zeus.StopHydra (GracefulStop + safeops.WaitForUnlock)
//	unlockwait safeops.WaitForUnlock
//	panic      a request that panics inside its handler (recovered by the gateway)
//	storm      N gateway requests of mixed kinds at the same instant
type eop struct {
	At     int64  `json:"at"` // virtual ms since script start
	K      string `json:"k"`
	Hold   int64  `json:"hold,omitempty"`
	Cancel int64  `json:"cancel,omitempty"`
	N      int    `json:"n,omitempty"`
	Salt   uint64 `json:"salt,omitempty"`
}

type escript struct {
	InMem  bool  `json:"inmem"`
	Idle   int64 `json:"idle"`   // seconds
	Forced bool  `json:"forced"` // the vigil hook makes every in-flight hold cease while a Destroy stands between its check and cond.Wait
	Ops    []eop `json:"ops"`
}

func genEngine(r *rand.Rand, idx int) escript {
	sc := escript{InMem: r.IntN(3) == 0, Idle: int64(1 + r.IntN(3)), Forced: idx%3 != 2}
	at := int64(0)
	step := func() int64 {
		switch r.IntN(4) {
		case 0:
			return 0 // same virtual instant as the previous step
		case 1:
			return int64(1 + r.IntN(900))
		case 2:
			return 1000 * int64(1+r.IntN(3))
		default:
			return int64(100 * (1 + r.IntN(60)))
		}
	}
	holdLen := func() int64 {
		switch r.IntN(6) {
		case 0:
			return 31000 + int64(r.IntN(15000)) // longer than the 30 s a summon waits for a closing swamp
		case 1:
			return 10500 + int64(r.IntN(15000)) // longer than GracefulStop's 10 s
		default:
			return 200 + int64(r.IntN(6000))
		}
	}
	nHold := 1 + r.IntN(4)
	for i := 0; i < nHold; i++ {
		sc.Ops = append(sc.Ops, eop{At: at, K: "hold", Hold: holdLen()})
		at += step()
	}
	closer := []string{"destroy", "gwdestroy", "dellast"}[r.IntN(3)]
	if idx%11 == 10 {
		closer = "stop"
	}
	sc.Ops = append(sc.Ops, eop{At: at, K: closer})
	n := 2 + r.IntN(7)
	stopped := closer == "stop"
	for i := 0; i < n; i++ {
		at += step()
		var o eop
		switch x := r.IntN(100); {
		case x < 14:
			o = eop{K: "summon"}
			if r.IntN(3) == 0 {
				o.Cancel = int64(1 + r.IntN(5000))
			}
		case x < 26:
			o = eop{K: "wgc"}
		case x < 36:
			o = eop{K: "hold", Hold: holdLen()}
		case x < 46:
			o = eop{K: "set"}
		case x < 54:
			o = eop{K: "get"}
		case x < 62:
			o = eop{K: []string{"destroy", "gwdestroy", "dellast"}[r.IntN(3)]}
		case x < 72:
			o = eop{K: "unlockwait"}
		case x < 80:
			o = eop{K: "panic"}
		case x < 90:
			o = eop{K: "storm", N: 4 + r.IntN(28), Salt: r.Uint64()}
		default:
			if stopped {
				o = eop{K: "get"}
			} else {
				o = eop{K: "stop"}
				stopped = true
			}
		}
		o.At = at
		sc.Ops = append(sc.Ops, o)
	}
	return sc
}

// fixedEngine: the schedules the property text names.
func fixedEngine() []escript {
	var out []escript
	for _, closer := range []string{"destroy", "gwdestroy", "dellast"} {
		for _, inmem := range []bool{false, true} {
			// the last in-flight operation ends exactly while the destroyer stands between check and wait
			out = append(out, escript{InMem: inmem, Idle: 2, Forced: true, Ops: []eop{{At: 0, K: "hold", Hold: 5000}, {At: 100, K: closer}, {At: 200, K: "wgc"}, {At: 300, K: "summon"}, {At: 400, K: "unlockwait"}}})
			// same, unforced: the hold ends by itself
			out = append(out, escript{InMem: inmem, Idle: 2, Ops: []eop{{At: 0, K: "hold", Hold: 5000}, {At: 0, K: "hold", Hold: 7000}, {At: 100, K: closer}, {At: 200, K: "wgc"}, {At: 300, K: "summon"}, {At: 400, K: "unlockwait"}, {At: 8000, K: "set"}}})
			// shutdown while a destroy waits for an operation that outlives the 10 s of GracefulStop
			out = append(out, escript{InMem: inmem, Idle: 2, Ops: []eop{{At: 0, K: "hold", Hold: 25000}, {At: 100, K: closer}, {At: 500, K: "stop"}, {At: 600, K: "summon"}}})
			// a summon that waits for a closing swamp longer than its own 30 s
			out = append(out, escript{InMem: inmem, Idle: 2, Ops: []eop{{At: 0, K: "hold", Hold: 41000}, {At: 100, K: closer}, {At: 500, K: "summon"}, {At: 600, K: "summon", Cancel: 1000}, {At: 700, K: "set"}}})
		}
	}
	// request storm with panicking requests, then the shutdown wait
	out = append(out, escript{Idle: 2, Ops: []eop{{At: 0, K: "hold", Hold: 3000}, {At: 100, K: "storm", N: 32, Salt: 7}, {At: 100, K: "panic"}, {At: 100, K: "gwdestroy"}, {At: 200, K: "unlockwait"}, {At: 300, K: "storm", N: 16, Salt: 9}, {At: 4000, K: "stop"}}})
	return out
}

type actor struct {
	idx      int
	op       eop
	started  atomic.Bool
	began    atomic.Bool // hold: BeginVigil done
	ceased   atomic.Bool // hold: CeaseVigil returned
	returned atomic.Bool
	waited   bool  // not returned at the quiescent point right after its start
	retAt    int64 // virtual ms
	startAt  int64
	err      string
	timely   bool
	goid     atomic.Int64
}

type eoutcome struct {
	Sigs         []string
	Whats        []string
	Witness      map[string]any
	Inconclusive string
	Nontrivial   bool
	Stuck        bool
	Counts       map[string]int64
	HookHits     int64
}

//go:noinline
func holdCease(sw swamp.Swamp, a *actor) {
	sw.CeaseVigil()
	a.ceased.Store(true)
}

const swampName = "c17/life/one"

func strp(s string) *string { return &s }

func runEngine(t *testing.T, sc escript) (out eoutcome) {
	root := rig.TempRoot("c17")
	defer rig.RemoveAll(root)
	out.Counts = map[string]int64{}
	hits0 := verifhook.Hits(hookVigil)
	defer func() { out.HookHits = verifhook.Hits(hookVigil) - hits0 }()
	log := &eventLog{}
	sent := rig.InstallSentinel()
	sent.Drain()
	count := func(k string, n int64) { out.Counts[k] += n }

	synctest.Test(t, func(t *testing.T) {
		r := rig.New(rig.Options{Root: root})
		r.Register("c17/life/*", sc.InMem, sc.Idle, 1)
		hy := r.Zeus.GetHydra()
		so := r.Zeus.GetSafeops()
		nm := name.Load(swampName)
		island := rig.Island(swampName)
		bg := context.Background()
		start := time.Now()
		now := func() int64 { return int64(time.Since(start) / time.Millisecond) }

		var objMu sync.Mutex
		var objs []swamp.Swamp
		remember := func(sw swamp.Swamp) {
			objMu.Lock()
			defer objMu.Unlock()
			for _, o := range objs {
				if o == sw {
					return
				}
			}
			objs = append(objs, sw)
		}
		lastObj := func() swamp.Swamp {
			objMu.Lock()
			defer objMu.Unlock()
			if len(objs) == 0 {
				return nil
			}
			return objs[len(objs)-1]
		}
		var keyMu sync.Mutex
		keys := []string{"seed"}
		var keySeq atomic.Int64

		gwSet := func(k string) error {
			_, err := r.GW.Set(bg, &hydrapb.SetRequest{Swamps: []*hydrapb.SwampRequest{{IslandID: island, SwampName: swampName, CreateIfNotExist: true, Overwrite: true,
				KeyValues: []*hydrapb.KeyValuePair{{Key: k, StringVal: strp("v-" + k)}}}}})
			return err
		}
		gwGet := func() error {
			_, err := r.GW.Get(bg, &hydrapb.GetRequest{Swamps: []*hydrapb.GetSwamp{{IslandID: island, SwampName: swampName, Keys: []string{"seed"}}}})
			return err
		}
		gwDestroy := func() error {
			_, err := r.GW.Destroy(bg, &hydrapb.DestroyRequest{IslandID: island, SwampName: swampName})
			return err
		}
		gwDelAll := func() error {
			keyMu.Lock()
			ks := append([]string(nil), keys...)
			keyMu.Unlock()
			_, err := r.GW.Delete(bg, &hydrapb.DeleteRequest{Swamps: []*hydrapb.DeleteRequest_SwampKeys{{IslandID: island, SwampName: swampName, Keys: ks}}})
			return err
		}
		gwPanic := func() error {
			_, err := r.GW.RegisterSwamp(bg, nil) // nil message: the handler dereferences it after LockSystem
			return err
		}

		if err := gwSet("seed"); err != nil {
			out.Inconclusive = "seed write failed: " + err.Error()
			r.Stop()
			time.Sleep(2 * time.Minute)
			return
		}
		if sw, err := hy.SummonSwamp(bg, island, nm); err == nil {
			remember(sw)
		}

		ceaseNow := make(chan struct{})
		var ceaseOnce sync.Once
		var actors []*actor
		var actMu sync.Mutex
		allActors := func() []*actor {
			actMu.Lock()
			defer actMu.Unlock()
			return append([]*actor(nil), actors...)
		}
		var hookPlaced atomic.Int32
		verifhook.Set(hookVigil, func(...any) {
			who := "engine"
			me := int64(goid())
			for _, a := range allActors() {
				if a.goid.Load() == me {
					who = fmt.Sprintf("%s#%d", a.op.K, a.idx)
				}
			}
			log.add(fmt.Sprintf("%d ms hit %s by %s", now(), hookVigil, who))
			if !sc.Forced {
				return
			}
			ceaseOnce.Do(func() { close(ceaseNow) })
			// stay between the emptiness check and cond.Wait() until every operation in flight on the
			// swamp has finished its CeaseVigil — or is blocked on the mutex this waiter holds
			pending := func() int {
				n := 0
				for _, a := range allActors() {
					if a.op.K == "hold" && a.began.Load() && !a.ceased.Load() {
						n++
					}
				}
				return n
			}
			switch settle(pending, "c17.holdCease") {
			case "done":
				hookPlaced.Add(1)
				log.add(fmt.Sprintf("%d ms every in-flight operation ceased while %s stood between check and wait", now(), who))
			case "mutex":
				hookPlaced.Add(1)
				log.add(fmt.Sprintf("%d ms in-flight CeaseVigil blocked on the mutex %s holds", now(), who))
			default:
				log.add("window could not be placed")
			}
		})
		defer verifhook.Set(hookVigil, nil)

		launch := func(a *actor) {
			a.startAt = now()
			a.started.Store(true)
			finish := func(err error) {
				if err != nil {
					a.err = err.Error()
				}
				a.retAt = now()
				a.returned.Store(true)
			}
			go func() {
				a.goid.Store(int64(goid()))
				switch a.op.K {
				case "hold":
					sw, err := hy.SummonSwamp(bg, island, nm)
					if err != nil {
						finish(err)
						return
					}
					remember(sw)
					sw.BeginVigil()
					a.began.Store(true)
					if sc.Forced {
						select {
						case <-time.After(time.Duration(a.op.Hold) * time.Millisecond):
						case <-ceaseNow:
						}
					} else {
						time.Sleep(time.Duration(a.op.Hold) * time.Millisecond)
					}
					holdCease(sw, a)
					finish(nil)
				case "set":
					k := fmt.Sprintf("k%d", keySeq.Add(1))
					err := gwSet(k)
					if err == nil {
						keyMu.Lock()
						keys = append(keys, k)
						keyMu.Unlock()
					}
					finish(err)
				case "get":
					finish(gwGet())
				case "destroy":
					sw, err := hy.SummonSwamp(bg, island, nm)
					if err != nil {
						finish(err)
						return
					}
					remember(sw)
					sw.Destroy()
					finish(nil)
				case "gwdestroy":
					finish(gwDestroy())
				case "dellast":
					finish(gwDelAll())
				case "summon":
					ctx, cancel := bg, context.CancelFunc(func() {})
					if a.op.Cancel > 0 {
						ctx, cancel = context.WithTimeout(bg, time.Duration(a.op.Cancel)*time.Millisecond)
					}
					sw, err := hy.SummonSwamp(ctx, island, nm)
					cancel()
					if err == nil {
						remember(sw)
						sw.BeginVigil()
						sw.CeaseVigil()
					}
					finish(err)
				case "wgc":
					sw := lastObj()
					if sw == nil {
						finish(nil)
						return
					}
					finish(sw.WaitForGracefulClose(bg))
				case "stop":
					r.Zeus.StopHydra()
					finish(nil)
				case "unlockwait":
					so.WaitForUnlock()
					finish(nil)
				case "panic":
					finish(gwPanic())
				case "storm":
					rr := rand.New(rand.NewPCG(a.op.Salt, 17))
					var wg sync.WaitGroup
					for i := 0; i < a.op.N; i++ {
						x := rr.IntN(100)
						wg.Add(1)
						go func() {
							defer wg.Done()
							switch {
							case x < 35:
								_ = gwSet(fmt.Sprintf("s%d", keySeq.Add(1)))
							case x < 60:
								_ = gwGet()
							case x < 85:
								_ = gwPanic()
							case x < 93:
								_ = gwDelAll()
							default:
								_ = gwDestroy()
							}
						}()
					}
					wg.Wait()
					finish(nil)
				}
			}()
		}

		ops := append([]eop(nil), sc.Ops...)
		sort.SliceStable(ops, func(i, j int) bool { return ops[i].At < ops[j].At })
		i := 0
		for i < len(ops) {
			at := ops[i].At
			if d := at - now(); d > 0 {
				time.Sleep(time.Duration(d) * time.Millisecond)
			}
			var batch []*actor
			for i < len(ops) && ops[i].At == at {
				a := &actor{idx: i, op: ops[i]}
				actMu.Lock()
				actors = append(actors, a)
				actMu.Unlock()
				batch = append(batch, a)
				i++
			}
			for _, a := range batch {
				launch(a)
			}
			synctest.Wait()
			for _, a := range batch {
				if !a.returned.Load() {
					a.waited = true
				}
			}
		}
		// let every in-flight operation finish
		holdsDone := func() bool {
			for _, a := range actors {
				if a.op.K == "hold" && a.began.Load() && !a.ceased.Load() {
					return false
				}
			}
			return true
		}
		for k := 0; k < 120 && !holdsDone(); k++ {
			time.Sleep(time.Second)
			synctest.Wait()
		}
		synctest.Wait()
		tEnd := now()
		for _, a := range actors {
			if a.returned.Load() {
				a.timely = true
			}
		}
		// horizon: far beyond every time-out the engine has (30 s summon wait, 10+30 s shutdown)
		time.Sleep(2 * time.Minute)
		synctest.Wait()

		// ---- oracle: nobody is still waiting
		dump := dumpAll()
		mode := "free"
		if sc.Forced {
			mode = "forced"
		}
		var all []string
		stacks := map[string]string{}
		type stuckInfo struct {
			a  *actor
			in string
		}
		var stuck []stuckInfo
		for _, a := range actors {
			if a.returned.Load() {
				if !a.timely && a.op.K != "hold" {
					count("returned_only_after_a_timeout_or_force_path:"+a.op.K, 1)
				}
				continue
			}
			si := stuckInfo{a: a, in: "harness"}
			for _, g := range dump {
				if int64(g.ID) == a.goid.Load() {
					if f := blockedIn(g); f != "" {
						si.in = f
					}
					stacks[fmt.Sprintf("%s#%d", a.op.K, a.idx)] = trimStack(g.Stack, 2500)
				}
			}
			all = append(all, fmt.Sprintf("%s#%d(in %s)", a.op.K, a.idx, si.in))
			stuck = append(stuck, si)
		}
		if len(stuck) > 0 {
			seen := map[string]bool{}
			add := func(sig, what string) {
				if !seen[sig] {
					seen[sig] = true
					out.Sigs = append(out.Sigs, sig)
					out.Whats = append(out.Whats, what)
				}
			}
			// root cause first: goroutines (of actors or of requests inside a storm) parked in the
			// vigil drain although no vigil is active any more
			roots := withFrame(dump, "vigil.(*vigil).WaitForActiveVigilsClosed")
			for k, g := range roots {
				entry := entryOf(g)
				stacks[fmt.Sprintf("vigil-drain-%d", k)] = trimStack(g.Stack, 2500)
				add(fmt.Sprintf("engine:%s:never-returns:in=vigil.WaitForActiveVigilsClosed:%s", entry, mode),
					fmt.Sprintf("%s is still blocked in vigil.WaitForActiveVigilsClosed at %d ms; the last in-flight operation finished at %d ms and 2 virtual minutes (every engine time-out) have passed since; blocked waiters of the schedule: %s", entry, now(), tEnd, strings.Join(all, ", ")))
			}
			if len(roots) == 0 {
				for _, s := range stuck {
					add(fmt.Sprintf("engine:%s:never-returns:in=%s:%s", s.a.op.K, s.in, mode),
						fmt.Sprintf("%s started at %d ms is still blocked in %s at %d ms; the last in-flight operation finished at %d ms and 2 virtual minutes (every engine time-out) have passed since; all blocked waiters: %s", s.a.op.K, s.a.startAt, s.in, now(), tEnd, strings.Join(all, ", ")))
				}
			}
			out.Witness = map[string]any{"script": sc, "hook_sequence": log.list(), "blocked": all, "stacks": stacks}
		}
		// every object whose closing flag is set (idle Close, shutdown Close, Destroy) has finished
		// closing: WaitForGracefulClose on it returns at once
		if len(stuck) == 0 {
			objMu.Lock()
			os := append([]swamp.Swamp(nil), objs...)
			objMu.Unlock()
			var pendingClose atomic.Int32
			for _, sw := range os {
				if !isClosed(sw) {
					count("objects_still_open_at_the_horizon", 1)
					continue
				}
				count("objects_closed_or_destroyed", 1)
				pendingClose.Add(1)
				go func() {
					if sw.WaitForGracefulClose(bg) == nil {
						pendingClose.Add(-1)
					}
				}()
			}
			synctest.Wait()
			if n := pendingClose.Load(); n > 0 {
				out.Sigs = append(out.Sigs, "engine:close-begun-but-not-finished:"+mode)
				out.Whats = append(out.Whats, fmt.Sprintf("%d swamp object(s) have their closing flag set but their internal context is still not cancelled 2 virtual minutes after the last operation: the close/destroy never completed", n))
				out.Witness = map[string]any{"script": sc, "hook_sequence": log.list()}
			}
		}
		// safeops: every request has returned => the lock counter is back at zero
		allBack := true
		for _, a := range actors {
			if !a.returned.Load() {
				allBack = false
			}
		}
		if allBack && so.SystemLocked() {
			out.Sigs = append(out.Sigs, "safeops:counter-above-zero-after-all-requests-returned")
			out.Whats = append(out.Whats, "every request has returned but safeops.SystemLocked() is still true: WaitForUnlock can never return")
			if out.Witness == nil {
				out.Witness = map[string]any{"script": sc, "hook_sequence": log.list()}
			}
		}
		if allBack && !so.SystemLocked() {
			so.LockSystem()
			if !so.SystemLocked() {
				count("safeops_counter_negative", 1)
			}
			so.UnlockSystem()
		}

		// ---- measurements
		for _, a := range actors {
			if a.waited {
				count("waiters_that_really_waited:"+a.op.K, 1)
				if a.op.K != "hold" && a.op.K != "set" && a.op.K != "get" && a.op.K != "panic" && a.op.K != "storm" {
					out.Nontrivial = true
				}
			}
			count("ops:"+a.op.K, 1)
			if a.op.K == "stop" && a.returned.Load() {
				if a.retAt-a.startAt >= 40000 {
					count("stop_returned_only_via_30s_force_path", 1)
				} else {
					count("stop_returned_cleanly", 1)
				}
			}
			if a.op.K == "summon" && strings.Contains(a.err, "context is done") && a.retAt-a.startAt >= 30000 {
				count("summon_gave_up_after_30s", 1)
			}
		}
		if sc.Forced {
			if hookPlaced.Load() > 0 {
				count("forced_windows_placed", int64(hookPlaced.Load()))
			} else {
				count("forced_scripts_without_window", 1)
			}
		}
		for _, rec := range sent.Drain() {
			switch {
			case rec.Class == "panic":
				count("recovered_panics", 1)
			case strings.Contains(rec.Msg, "can not close all swamps within 10 seconds"):
				count("gracefulstop_force_path_logged", 1)
			case strings.Contains(rec.Msg, "can not be closed in 30 seconds"):
				count("summon_30s_timeout_logged", 1)
			}
		}

		// ---- free whatever is parked, then leave the bubble
		objMu.Lock()
		os := append([]swamp.Swamp(nil), objs...)
		objMu.Unlock()
		// a vigil counter below zero after the automatic destroy: one Begin does not make it active
		for _, sw := range os {
			sw.BeginVigil()
			if !sw.HasActiveVigils() && isClosed(sw) {
				count("vigil_counter_negative_on_destroyed_object", 1)
			}
			sw.CeaseVigil() // broadcasts: frees a waiter that lost its wake-up
		}
		ceaseOnce.Do(func() { close(ceaseNow) })
		synctest.Wait()
		r.Stop()
		time.Sleep(3 * time.Minute)
		synctest.Wait()
		for _, a := range actors {
			if !a.returned.Load() {
				out.Stuck = true
			}
		}
		if gs := withFrame(dumpAll(), "zeus.(*zeus).StopHydra"); len(gs) > 0 {
			out.Stuck = true
			if len(out.Sigs) == 0 {
				out.Sigs = append(out.Sigs, "engine:final-shutdown:never-returns:in="+blockedIn(gs[0]))
				out.Whats = append(out.Whats, "StopHydra issued after the schedule is still blocked 3 virtual minutes later")
				out.Witness = map[string]any{"script": sc, "hook_sequence": log.list(), "stacks": trimStack(gs[0].Stack, 2500)}
			}
		}
		if out.Stuck {
			stuckHook(out, sc)
		}
	})
	return
}

// entryOf names the request a parked goroutine belongs to by the outermost engine frame.
func entryOf(g gor) string {
	switch {
	case strings.Contains(g.Stack, "gateway.Gateway.Destroy("):
		return "gateway.Destroy"
	case strings.Contains(g.Stack, "gateway.Gateway.Delete("):
		return "gateway.Delete-autodestroy"
	case strings.Contains(g.Stack, "swamp.(*swamp).DeleteTreasure("):
		return "DeleteTreasure-autodestroy"
	case strings.Contains(g.Stack, "swamp.(*swamp).Destroy("):
		return "swamp.Destroy"
	}
	return "other"
}

func cancelled() context.Context {
	ctx, c := context.WithCancel(context.Background())
	c()
	return ctx
}

// isClosed: the object's closing flag is set (WaitForGracefulClose refuses only while it is not).
func isClosed(sw swamp.Swamp) bool {
	err := sw.WaitForGracefulClose(cancelled())
	return err == nil || !strings.Contains(err.Error(), "not closing")
}
