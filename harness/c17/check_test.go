// C17 — lifecycle waits always terminate.
//
// Bounded-progress restatement: at the first quiescent point (synctest.Wait) after the last
// in-flight operation finished — and, for waits that have a documented time-out / force path, after
// two further virtual minutes — every waiter (Destroy, the automatic destroy inside a Delete, Close,
// GracefulStop/StopHydra, WaitForGracefulClose, a summon that waits for a closing swamp,
// safeops.WaitForUnlock, raw vigil.WaitForActiveVigilsClosed) has returned.
//
// (a) raw vigil (vigil_test.go): Begin/Cease pairs from several goroutines against waiters; the hook
// vigil.wait.beforeWait keeps one waiter between its emptiness check and cond.Wait() until the last
// CeaseVigil has completed (or is blocked on that waiter's own mutex); plus hook-free stress in real
// parallelism. (b)+(c) engine level through rig.New (engine_test.go): in-flight operations that
// follow the handler protocol and finish at chosen virtual instants against Destroy / automatic
// destroy / shutdown / WaitForGracefulClose / waiting summons / WaitForUnlock, request storms with
// panicking requests. Every case runs in a child process: a waiter that cannot be freed would
// otherwise take the monitor down with synctest's "blocked goroutines remain" panic.
package c17

import (
	"fmt"
	"os"
	"regexp"
	"testing"
	"time"

	"verifharness/rig"
)

type spec struct {
	Mode    string    `json:"mode"` // vigil | engine
	From    int       `json:"from"`
	To      int       `json:"to"`
	Fixed   bool      `json:"fixed,omitempty"`
	Vigil   []vcase   `json:"vigil,omitempty"`
	Engine  []escript `json:"engine,omitempty"`
	Repeats int       `json:"repeats,omitempty"`
}

// stuckHook is called from inside a bubble that cannot end (a goroutine is parked for good): the
// child records the verdict, writes its partial and exits.
var stuckHook = func(out any, cs any) {}

func child(t *testing.T, c *rig.Check) {
	var sp spec
	c.ChildSpec(&sp)
	recV := func(o voutcome, vc vcase) {
		c.Case("vigil/"+rig.Dump(vc), o.Nontrivial)
		c.Sample(vc)
		c.Count("vigil_cases_"+vc.Kind, 1)
		c.Count("hook_hits_"+hookVigil+"_raw", o.HookHits)
		if o.LastCease != "" {
			c.Count("vigil_window_last_cease_"+o.LastCease, 1)
		}
		if o.Negative {
			c.Count("vigil_counter_negative_raw", 1)
		}
		if o.Inconclusive != "" {
			c.Inconclusive("vigil: " + o.Inconclusive)
		}
		if o.Sig != "" {
			c.Violate(o.Sig, o.What, o.Witness)
		}
	}
	recE := func(o eoutcome, sc escript) {
		c.Case("engine/"+rig.Dump(sc), o.Nontrivial)
		c.Sample(sc)
		if sc.Forced {
			c.Count("engine_scripts_forced", 1)
		} else {
			c.Count("engine_scripts_free", 1)
		}
		c.Count("hook_hits_"+hookVigil+"_engine", o.HookHits)
		for k, n := range o.Counts {
			c.Count(k, n)
		}
		if o.Inconclusive != "" {
			c.Inconclusive("engine: " + o.Inconclusive)
		}
		for i, sig := range o.Sigs {
			c.Violate(sig, o.Whats[i], o.Witness)
		}
	}
	stuckHook = func(out any, cs any) {
		switch o := out.(type) {
		case voutcome:
			o.HookHits = 0
			recV(o, cs.(vcase))
		case eoutcome:
			recE(o, cs.(escript))
		}
		c.Count("children_ended_early_because_a_goroutine_stayed_parked", 1)
		c.Finish()
		os.Exit(0)
	}
	reps := sp.Repeats
	if reps < 1 {
		reps = 1
	}
	for rep := 0; rep < reps; rep++ {
		switch sp.Mode {
		case "vigil":
			cases := append([]vcase(nil), sp.Vigil...)
			if sp.Fixed {
				cases = append(cases, fixedVigil()...)
			}
			for i := sp.From; i < sp.To; i++ {
				cases = append(cases, genVigil(c.Rand(i), i))
			}
			for _, vc := range cases {
				recV(runVigil(t, vc), vc)
			}
		case "engine":
			cases := append([]escript(nil), sp.Engine...)
			if sp.Fixed {
				cases = append(cases, fixedEngine()...)
			}
			for i := sp.From; i < sp.To; i++ {
				cases = append(cases, genEngine(c.Rand(1_000_000+i), i))
			}
			for _, sc := range cases {
				recE(runEngine(t, sc), sc)
			}
		}
	}
}

var digits = regexp.MustCompile(`0x[0-9a-f]+|\d+`)

func TestCheck(t *testing.T) {
	c := rig.NewCheck(t, "C17", "exploration")
	defer c.Finish()
	if c.IsChild() {
		child(t, c)
		return
	}
	c.Rule = "raw vigil: forced schedules (anchors / early waiters / one waiter held by the hook between check and cond.Wait until the last CeaseVigil completed or blocked on its mutex / parallel workers) and hook-free stress rounds; engine: schedules of in-flight operations (handler protocol, chosen virtual durations) against Destroy, gateway Destroy, Delete-of-last-key, StopHydra, WaitForGracefulClose, waiting summons, WaitForUnlock and request storms with panicking requests, two thirds with the hook making the in-flight operations end while the destroyer stands in its window. Oracle: after the last in-flight operation finished (+2 virtual minutes) no waiter is still blocked. Non-trivial: vigil = the window was placed (or, control/stress, waiters really slept); engine = at least one lifecycle waiter was still blocked at the quiescent point after its start. Distinct = distinct case JSON"
	c.Assumptions = []string{
		"'finishes' is read as 'returns at all': a wait that only ends through a documented time-out or force path (summon: 30 s, GracefulStop: 10 x 1 s + 30 s) still terminates; such returns are counted (returned_only_after_a_timeout_or_force_path:*, stop_returned_only_via_30s_force_path), not flagged",
		"'never returns' is decided 2 virtual minutes after the last in-flight operation finished, with no goroutine runnable; every time-out in the engine is shorter",
		"in-flight operations are simulated at the engine API with the exact handler sequence SummonSwamp / BeginVigil / ... / CeaseVigil; real gateway requests are instantaneous in virtual time",
		"a waiter that is blocked only because another waiter of the same schedule lost its wake-up is listed in the witness, not given a signature of its own",
		"a vigil or safeops counter below zero lets waits end early; that is not a termination failure and is only counted here (C16 owns the consequence)",
	}
	var specs []any
	if p := c.ReplayPath(); p != "" {
		var w struct {
			Witness struct {
				Case   *vcase   `json:"case"`
				Script *escript `json:"script"`
			} `json:"witness"`
		}
		rig.ReadJSON(p, &w)
		switch {
		case w.Witness.Case != nil && w.Witness.Case.Kind == "stress":
			for i := 0; i < 8; i++ {
				specs = append(specs, spec{Mode: "vigil", Vigil: []vcase{*w.Witness.Case}, Repeats: 10})
			}
		case w.Witness.Case != nil:
			specs = append(specs, spec{Mode: "vigil", Vigil: []vcase{*w.Witness.Case}})
		case w.Witness.Script != nil:
			specs = append(specs, spec{Mode: "engine", Engine: []escript{*w.Witness.Script}})
		}
	} else {
		nV, nE := c.N(240, 6000), c.N(200, 4000)
		chV, chE := c.N(8, 48), c.N(24, 160)
		for i := 0; i < chV; i++ {
			specs = append(specs, spec{Mode: "vigil", From: i * nV / chV, To: (i + 1) * nV / chV, Fixed: i == 0})
		}
		for i := 0; i < chE; i++ {
			specs = append(specs, spec{Mode: "engine", From: i * nE / chE, To: (i + 1) * nE / chE, Fixed: i == 0})
		}
	}
	res := c.Fanout(specs, rig.FanoutOpts{Par: 16, Timeout: 6 * time.Minute})
	for _, r := range res {
		sp := r.Spec.(spec)
		switch {
		case r.TimedOut:
			// A bubble only advances when every goroutine is durably blocked, and a mutex wait is not a
			// durable block: an engine that dead-locks on a mutex keeps the bubble from ever reaching
			// quiescence. The watchdog's goroutine dump then shows engine goroutines that the runtime
			// itself reports as waiting for a mutex for minutes (a whole child normally takes seconds).
			if parked := rig.MutexParked(r.LogPath, 3); len(parked) > 0 {
				c.Violate("engine:never-returns:parked-on-mutex", fmt.Sprintf("child %s [%d,%d) never reached quiescence: engine goroutines have been waiting for a mutex for minutes in %v (goroutine dump: %s)", sp.Mode, sp.From, sp.To, parked, r.LogPath), map[string]any{"spec": sp})
			} else {
				c.Inconclusive(fmt.Sprintf("child %s [%d,%d) timed out (watchdog), log %s", sp.Mode, sp.From, sp.To, r.LogPath))
			}
		case len(r.Fatal) > 0:
			line := digits.ReplaceAllString(r.Fatal[0], "N")
			if len(line) > 100 {
				line = line[:100]
			}
			c.Violate("child-crash:"+sp.Mode+":"+line, fmt.Sprintf("child process died: %v (log %s)", r.Fatal, r.LogPath), map[string]any{"spec": sp})
		case r.NoPartial || r.ExitErr != nil:
			c.Inconclusive(fmt.Sprintf("child %s [%d,%d) ended without a verdict: %v, log %s", sp.Mode, sp.From, sp.To, r.ExitErr, r.LogPath))
		}
	}
	c.Extra("hooks", []string{hookVigil})
	c.MinNontrivial = c.N(150, 2500)
	c.MaxInconclusiveFrac = 0.05
}
