package c17

import (
	"fmt"
	"math/rand/v2"
	"runtime"
	"strings"
	"sync"
	"sync/atomic"
	"testing"
	"testing/synctest"

	"github.com/hydraide/hydraide/app/core/hydra/swamp/vigil"
	"github.com/hydraide/hydraide/app/verifhook"
)

const hookVigil = "vigil.wait.beforeWait"

// vcase is one raw-vigil schedule.
//
// forced: `Anchors` vigils are begun; `Early` waiters call WaitForActiveVigilsClosed and go to sleep
// in cond.Wait; one more waiter is held by the hook between its emptiness check and cond.Wait()
// (Late=true) — or not held (Late=false, control case); `Workers` goroutines run `Pairs`
// Begin/Cease pairs each in real parallelism; the anchors are ceased one after the other; only when
// the last CeaseVigil has completed (or is blocked on the waiter's own mutex — the repaired
// protocol) the held waiter is let go. At the next quiescent point every waiter must have returned.
//
// stress: no handler; `Workers` goroutines x `Pairs` Begin/Cease pairs against `Early` waiters that
// call WaitForActiveVigilsClosed `Rounds` times each, all in real parallelism inside the bubble.
type vcase struct {
	Kind    string `json:"kind"` // forced | stress
	Anchors int    `json:"anchors,omitempty"`
	Early   int    `json:"early"`
	Late    bool   `json:"late,omitempty"`
	Workers int    `json:"workers"`
	Pairs   int    `json:"pairs"`
	Rounds  int    `json:"rounds,omitempty"`
	Yield   int    `json:"yield,omitempty"`
	Salt    uint64 `json:"salt,omitempty"`
}

func genVigil(r *rand.Rand, idx int) vcase {
	if idx%6 == 5 {
		return vcase{Kind: "stress", Early: 1 + r.IntN(4), Workers: 2 + r.IntN(14), Pairs: 200 + r.IntN(1800), Rounds: 50 + r.IntN(400), Yield: r.IntN(3), Salt: r.Uint64()}
	}
	return vcase{Kind: "forced", Anchors: 1 + r.IntN(3), Early: r.IntN(4), Late: r.IntN(8) != 0, Workers: r.IntN(5), Pairs: 1 + r.IntN(6)}
}

// fixedVigil: the minimal schedules.
func fixedVigil() []vcase {
	return []vcase{
		{Kind: "forced", Anchors: 1, Late: true},            // one vigil, one waiter in the window, one cease
		{Kind: "forced", Anchors: 1, Late: false, Early: 1}, // control: waiter already asleep
		{Kind: "forced", Anchors: 2, Late: true, Early: 2, Workers: 2, Pairs: 3},
	}
}

type voutcome struct {
	Sig, What    string
	Witness      map[string]any
	Inconclusive string
	Nontrivial   bool
	Stuck        bool // a waiter could not be freed: the bubble cannot end
	HookHits     int64
	LastCease    string // done | mutex  (state of the last CeaseVigil while the waiter was in the window)
	Negative     bool
}

//go:noinline
func ceaseMarker(v interface{ CeaseVigil() }, done *atomic.Bool) {
	v.CeaseVigil()
	done.Store(true)
}

//go:noinline
func vigilWorker(v vigil.Vigil, pairs int, done *atomic.Int32) {
	for p := 0; p < pairs; p++ {
		v.BeginVigil()
		runtime.Gosched()
		v.CeaseVigil()
	}
	done.Add(1)
}

// settle yields until pending() is zero ("done") or exactly the pending goroutines — those with the
// frame `frame` on their stack — all sit in a mutex wait ("mutex"); "" when the watchdog fired.
func settle(pending func() int, frame string) string {
	iter := 0
	res := ""
	spinUntil(2_000_000, func() bool {
		if pending() == 0 {
			res = "done"
			return true
		}
		if iter++; iter%200 != 0 {
			return false
		}
		blocked := 0
		for _, g := range withFrame(dumpAll(), frame) {
			if mutexBlocked(g.State) {
				blocked++
			}
		}
		if p := pending(); p > 0 && blocked == p {
			res = "mutex"
			return true
		}
		return false
	})
	return res
}

func vigilStacks() (int, []string) {
	gs := withFrame(dumpAll(), "vigil.(*vigil).WaitForActiveVigilsClosed")
	var st []string
	for i, g := range gs {
		if i < 3 {
			st = append(st, trimStack(g.Stack, 1600))
		}
	}
	return len(gs), st
}

func runVigil(t *testing.T, vc vcase) (out voutcome) {
	hits0 := verifhook.Hits(hookVigil)
	defer func() { out.HookHits = verifhook.Hits(hookVigil) - hits0 }()
	if vc.Kind == "stress" {
		return runVigilStress(t, vc)
	}
	log := &eventLog{}
	synctest.Test(t, func(t *testing.T) {
		v := vigil.New()
		for i := 0; i < vc.Anchors; i++ {
			v.BeginVigil()
		}
		nW := vc.Early + 1
		returned := make([]atomic.Bool, nW)
		var lateGoid atomic.Int64
		var lateIn atomic.Bool
		hold := make(chan struct{})
		verifhook.Set(hookVigil, func(...any) {
			if int64(goid()) != lateGoid.Load() || !vc.Late {
				log.add("hit:early-waiter")
				return
			}
			if lateIn.Swap(true) {
				log.add("hit:held-waiter-again")
				return
			}
			log.add("hit:held-waiter:parked-between-check-and-wait")
			<-hold
			log.add("held-waiter:released")
		})
		defer verifhook.Set(hookVigil, nil)
		fail := func(sig, what string) {
			if out.Sig == "" {
				n, st := vigilStacks()
				out.Sig, out.What = sig, what
				out.Witness = map[string]any{"case": vc, "hook_sequence": log.list(), "goroutines_in_WaitForActiveVigilsClosed": n, "stacks": st}
			}
		}
		for i := 0; i < vc.Early; i++ {
			go func() {
				v.WaitForActiveVigilsClosed()
				returned[i].Store(true)
			}()
		}
		synctest.Wait() // early waiters sleep in cond.Wait, the mutex is free
		for i := 0; i < vc.Early; i++ {
			if returned[i].Load() {
				fail("vigil:raw:wait-returned-with-active-vigils", fmt.Sprintf("WaitForActiveVigilsClosed returned while %d vigils were active", vc.Anchors))
			}
		}
		go func() {
			lateGoid.Store(int64(goid()))
			v.WaitForActiveVigilsClosed()
			returned[vc.Early].Store(true)
		}()
		if vc.Late {
			// no synctest.Wait from here on until the waiter is released: it keeps the vigil's mutex
			// inside the handler and everybody who needs that mutex is blocked non-durably
			if !spinUntil(2_000_000, lateIn.Load) {
				out.Inconclusive = "hook vigil.wait.beforeWait not reached by the waiter"
				close(hold)
				for i := 0; i < vc.Anchors; i++ {
					v.CeaseVigil()
				}
				synctest.Wait()
				return
			}
		} else {
			synctest.Wait()
		}
		// workers: pairs that never bring the count to zero (the anchors are still held)
		var wdone atomic.Int32
		for w := 0; w < vc.Workers; w++ {
			go vigilWorker(v, vc.Pairs, &wdone)
		}
		switch settle(func() int { return vc.Workers - int(wdone.Load()) }, "c17.vigilWorker") {
		case "done":
		case "mutex":
			log.add("workers:blocked-in-CeaseVigil-on-the-waiter's-mutex")
		default:
			out.Inconclusive = "state of the worker goroutines could not be determined"
		}
		// the anchors go, one after the other; the last one brings the count to zero
		dones := make([]atomic.Bool, vc.Anchors)
		for i := 0; i < vc.Anchors; i++ {
			go ceaseMarker(v, &dones[i])
			log.add(fmt.Sprintf("cease:anchor-%d-of-%d:issued", i+1, vc.Anchors))
			pending := func() int {
				n := 0
				for k := 0; k <= i; k++ {
					if !dones[k].Load() {
						n++
					}
				}
				return n
			}
			switch settle(pending, "c17.ceaseMarker") {
			case "done":
				out.LastCease = "done"
				log.add(fmt.Sprintf("cease:anchor-%d:completed", i+1))
			case "mutex":
				out.LastCease = "mutex"
				log.add(fmt.Sprintf("cease:anchor-%d:blocked-on-the-waiter's-mutex", i+1))
			default:
				out.Inconclusive = "state of the CeaseVigil goroutine could not be determined"
			}
		}
		if vc.Late {
			out.Nontrivial = out.Inconclusive == ""
			close(hold)
		} else {
			out.Nontrivial = vc.Early > 0 && out.Inconclusive == ""
		}
		synctest.Wait()
		for i := range dones {
			if !dones[i].Load() {
				fail("vigil:raw:cease-blocked", "CeaseVigil has not returned at quiescence")
			}
		}
		var stuckW []string
		for i := 0; i < nW; i++ {
			if !returned[i].Load() {
				if i == vc.Early {
					stuckW = append(stuckW, "held")
				} else {
					stuckW = append(stuckW, "early")
				}
			}
		}
		if len(stuckW) > 0 {
			who := "early"
			if stuckW[len(stuckW)-1] == "held" {
				who = "window"
				if len(stuckW) > 1 {
					who = "window+early"
				}
			}
			fail("vigil:raw:lost-wakeup:forced:waiter="+who,
				fmt.Sprintf("%d of %d waiters (%s) still blocked in WaitForActiveVigilsClosed at quiescence although every vigil was ceased (last CeaseVigil %s while the waiter stood between its emptiness check and cond.Wait): the broadcast was lost", len(stuckW), nW, strings.Join(stuckW, ","), out.LastCease))
			// free them so that the bubble can end: any later Cease broadcasts again
			for k := 0; k < 5; k++ {
				v.BeginVigil()
				v.CeaseVigil()
				synctest.Wait()
			}
			for i := 0; i < nW; i++ {
				if !returned[i].Load() {
					out.Stuck = true
				}
			}
		}
		// counter sanity: the count is back at zero, one Begin makes it active again
		v.BeginVigil()
		if !v.HasActiveVigils() {
			out.Negative = true
		}
		v.CeaseVigil()
		if out.Stuck {
			stuckHook(out, vc)
		}
	})
	return
}

func runVigilStress(t *testing.T, vc vcase) (out voutcome) {
	synctest.Test(t, func(t *testing.T) {
		v := vigil.New()
		var done atomic.Int32
		total := vc.Workers + vc.Early
		var start sync.WaitGroup
		start.Add(1)
		for w := 0; w < vc.Workers; w++ {
			go func() {
				r := rand.New(rand.NewPCG(vc.Salt, uint64(w)))
				start.Wait()
				for p := 0; p < vc.Pairs; p++ {
					v.BeginVigil()
					for y := r.IntN(vc.Yield + 1); y > 0; y-- {
						runtime.Gosched()
					}
					v.CeaseVigil()
					if r.IntN(4) == 0 {
						runtime.Gosched()
					}
				}
				done.Add(1)
			}()
		}
		for w := 0; w < vc.Early; w++ {
			go func() {
				start.Wait()
				for k := 0; k < vc.Rounds; k++ {
					v.WaitForActiveVigilsClosed()
					runtime.Gosched()
				}
				done.Add(1)
			}()
		}
		start.Done()
		synctest.Wait()
		if int(done.Load()) != total {
			n, st := vigilStacks()
			out.Sig = "vigil:raw:lost-wakeup:stress"
			out.What = fmt.Sprintf("%d goroutine(s) still blocked in WaitForActiveVigilsClosed at quiescence, every Begin had its Cease (no hook involved)", n)
			out.Witness = map[string]any{"case": vc, "stacks": st}
			for k := 0; k < 4*vc.Rounds*vc.Early+8 && int(done.Load()) != total; k++ {
				v.BeginVigil()
				v.CeaseVigil()
				synctest.Wait()
			}
			if int(done.Load()) != total {
				out.Stuck = true
				stuckHook(out, vc)
			}
		}
		out.Nontrivial = true
	})
	return
}
