// C02 — crash at any point never loses durable data or the swamp.
//
// Generated write histories are executed once each against the real V2 chronicler in a child
// process under the strace recorder. The recorded write/lseek/fsync/rename log is cut at every
// operation boundary and inside in-flight writes (process death), and reduced to what fsync made
// durable plus a prefix of the later writes (power loss). Every distinct image is loaded by the
// real loader and compared with the reference states at flush boundaries; then the recovered
// swamp is written to again, closed and reloaded.
package c02

import (
	"encoding/json"
	"fmt"
	"os"
	"path/filepath"
	"testing"
	"time"

	"verifharness/rig"
	"verifharness/stor"
	"verifharness/systrace"
)

func TestStorExec(t *testing.T) {
	if !stor.ExecFromEnv() {
		t.Skip("helper")
	}
}

type spec struct {
	Idx  int          `json:"idx"`
	Hist stor.History `json:"hist"`
	// replay of a single crash point
	Only *stor.CrashPoint `json:"only,omitempty"`
}

func genHistory(c *rig.Check, idx int) stor.History {
	r := c.Rand(idx)
	h := stor.History{Name: fmt.Sprintf("verif/c02/h%d", idx)}
	nkeys := 3 + r.IntN(10)
	shape := r.IntN(4) // 0 small values many entries (crosses compaction threshold), 1 big values, 2 mixed, 3 tiny
	nsteps := 6 + r.IntN(18)
	if shape == 0 {
		nsteps = 25 + r.IntN(25)
	}
	if shape == 3 {
		nsteps = 3 + r.IntN(5)
	}
	live := map[string]bool{}
	h.Steps = append(h.Steps, stor.Step{Op: "open"})
	vn := 0
	for s := 0; s < nsteps; s++ {
		x := r.IntN(100)
		switch {
		case x < 62:
			n := 1 + r.IntN(6)
			if shape == 0 {
				n = 2 + r.IntN(nkeys)
			}
			used := map[string]bool{}
			var ents []stor.Ent
			for len(ents) < n && len(used) < nkeys {
				k := fmt.Sprintf("k%d", r.IntN(nkeys))
				if used[k] {
					continue
				}
				used[k] = true
				if live[k] && r.IntN(100) < 22 {
					ents = append(ents, stor.Ent{Key: k, Del: true})
					delete(live, k)
					continue
				}
				vn++
				v := fmt.Sprintf("v%d", vn)
				if shape == 1 || (shape == 2 && r.IntN(3) == 0) {
					v = fmt.Sprintf("big:%d:%d", vn, 1500+r.IntN(9000))
				}
				ents = append(ents, stor.Ent{Key: k, Val: v})
				live[k] = true
			}
			h.Steps = append(h.Steps, stor.Step{Op: "write", Ents: ents})
		case x < 82:
			h.Steps = append(h.Steps, stor.Step{Op: "sync"})
		case x < 94:
			h.Steps = append(h.Steps, stor.Step{Op: "close"}, stor.Step{Op: "open"})
		default:
			h.Steps = append(h.Steps, stor.Step{Op: "close"})
		}
	}
	if r.IntN(2) == 0 {
		h.Steps = append(h.Steps, stor.Step{Op: "sync"})
	}
	if r.IntN(2) == 0 {
		h.Steps = append(h.Steps, stor.Step{Op: "close"})
	}
	return h
}

func crashPoints(c *rig.Check, lg *systrace.Log, idx int) []stor.CrashPoint {
	var out []stor.CrashPoint
	r := c.Rand(1_000_000 + idx)
	for p := 0; p <= len(lg.Ops); p++ {
		if p < len(lg.Ops) && (lg.Ops[p].Kind == systrace.Mark || lg.Ops[p].Kind == systrace.Fail) {
			continue
		}
		out = append(out, stor.CrashPoint{Family: "death", Op: p, Torn: -1})
		if p < len(lg.Ops) && lg.Ops[p].Kind == systrace.Write {
			n := len(lg.Ops[p].Data)
			if c.Quick() {
				for _, b := range []int{1, n / 2, n - 1} {
					if b > 0 && b < n {
						out = append(out, stor.CrashPoint{Family: "death", Op: p, Torn: b})
					}
				}
			} else {
				step := 1
				if n > 4096 {
					step = n / 4096
				}
				for b := 1; b < n; b += step {
					out = append(out, stor.CrashPoint{Family: "death", Op: p, Torn: b})
				}
			}
		}
		// power loss right before op p
		out = append(out, stor.CrashPoint{Family: "power", Op: p, Keep: 0, Torn: -1})
		out = append(out, stor.CrashPoint{Family: "power", Op: p, Keep: -1, Torn: 1 + r.IntN(64)})
		out = append(out, stor.CrashPoint{Family: "power", Op: p, Keep: -2, Torn: -1, Salt: r.Uint64()})
		if !c.Quick() {
			for k := 1; k <= 6; k++ {
				out = append(out, stor.CrashPoint{Family: "power", Op: p, Keep: k, Torn: []int{-1, 1, 9, 17}[r.IntN(4)]})
			}
			out = append(out, stor.CrashPoint{Family: "power", Op: p, Keep: -2, Torn: 5, Salt: r.Uint64()})
		}
	}
	return out
}

var fresh = []stor.Ent{{Key: "zz-after-1", Val: "fresh-1"}, {Key: "k0", Val: "fresh-k0"}, {Key: "zz-after-2", Val: "big:99:3000"}, {Key: "k1", Del: true}}

func runHistory(c *rig.Check, sp spec) {
	root := rig.TempRoot("c02")
	defer rig.RemoveAll(root)
	h := sp.Hist
	t0 := time.Now()
	tr, err := stor.Trace(&h, root, nil, nil, false)
	c.Count("ms_tracing", time.Since(t0).Milliseconds())
	defer func() { c.Count("ms_total_children", time.Since(t0).Milliseconds()) }()
	if err != nil {
		c.Case(fmt.Sprintf("h%d-trace-failed", sp.Idx), false)
		c.Inconclusive("trace failed: " + err.Error())
		return
	}
	if tr.Res.Panic != "" {
		c.Violate("exec-panic", "executor panicked on a fault-free history: "+tr.Res.Panic, map[string]any{"hist": h})
		return
	}
	lg := tr.Log
	main := stor.HydFile(stor.SwampPath(root))
	if d := lg.CompareWithDisk(filepath.Join(root, "d"), nil); d != "" {
		c.Case(fmt.Sprintf("h%d-selfcheck", sp.Idx), false)
		c.Inconclusive("recorder self-check failed: " + d)
		return
	}
	c.Count("recorder_selfchecks_ok", 1)
	lay := stor.Analyze(lg, main, &h)
	if len(lay.Problems) > 0 {
		c.Case(fmt.Sprintf("h%d-layout", sp.Idx), false)
		c.Inconclusive("trace layout not understood: " + lay.Problems[0])
		return
	}
	// sanity: the complete trace must load to the full reference state
	nblocks, renames := 0, 0
	for _, ii := range lay.Inodes {
		nblocks += len(ii.Blocks)
		if ii.RenameOp >= 0 {
			renames++
		}
	}
	c.Count("trace_ops", int64(len(lg.Ops)))
	c.Count("blocks_recorded", int64(nblocks))
	c.Count("compactions_recorded", int64(renames))
	cps := crashPoints(c, lg, sp.Idx)
	if sp.Only != nil {
		cps = []stor.CrashPoint{*sp.Only}
	}
	seen := map[string]bool{}
	imgDir := filepath.Join(root, "img")
	through := make([]int, len(h.Steps))
	issued := 0
	for i, s := range h.Steps {
		if s.Op == "write" {
			issued += len(s.Ents)
		}
		through[i] = issued
	}
	for _, cp := range cps {
		img := cp.Image(lg)
		ex := stor.Expect(lg, lay, cp, img, main)
		// Durability as the caller was told: every entry issued before a Sync / Close that returned nil
		// (and completed before the crash point) must be there, whatever the engine did or did not fsync.
		api := 0
		for si, st := range h.Steps {
			if (st.Op == "sync" || st.Op == "close") && tr.Res.Steps[si].Err == "" {
				if end, ok := lay.StepEnd[si]; ok && end < cp.Op && through[si]-ex.BaseUpTo > api {
					api = through[si] - ex.BaseUpTo
				}
			}
		}
		if !ex.MainPresent && api > 0 {
			// (BaseUpTo is 0 without a main file, so api is the global entry index here.) The engine
			// replaces the file by an atomic rename only, so once data was acknowledged there is no
			// moment without a file under the swamp's name.
			c.Count("images_without_storage_file_after_acknowledged_data", 1)
			ex.AckedWithoutMain = api
		}
		if ex.MainPresent && ex.BaseBroken == "" && api > ex.Durable {
			c.Count("images_where_acknowledged_barrier_exceeds_fsynced_data", 1)
			ex.Durable = api
			var bs []int
			for _, j := range ex.Boundaries {
				if j >= api {
					bs = append(bs, j)
				}
			}
			ex.Boundaries = bs
		}
		key := fmt.Sprintf("%x/%d/%d/%v/%d", stor.ImageHash(img), ex.Durable, ex.BaseUpTo, ex.MainPresent, ex.AckedWithoutMain)
		if seen[key] {
			c.Count("images_deduplicated", 1)
			continue
		}
		seen[key] = true
		path, err := stor.Materialise(img, root, imgDir)
		if err != nil {
			c.Inconclusive("materialise: " + err.Error())
			continue
		}
		role := stor.Role(lg, lay, cp.Op, main)
		v := stor.Judge(path, h.Name, &h, ex, fresh)
		nontrivial := ex.MainPresent && ex.Durable > 0 && cp.Op < len(lg.Ops)
		c.Case(fmt.Sprintf("h%d/%s/%d/%d/%d/%d", sp.Idx, cp.Family, cp.Op, cp.Torn, cp.Keep, cp.Salt), nontrivial)
		c.Seen("inflight_roles", cp.Family+":"+role)
		c.Count("images_"+cp.Family, 1)
		if ex.Compacting {
			c.Count("images_during_compaction", 1)
		}
		if ex.Flushed > ex.Durable {
			c.Count("images_with_unsynced_complete_blocks", 1)
		}
		if v.Class != "" {
			comp := ""
			if ex.Compacting {
				comp = ":compacting"
			}
			sig := fmt.Sprintf("crash:%s:%s:%s%s", v.Class, cp.Family, role, comp)
			logs := rig.InstallSentinel().Drain()
			var lm []string
			for i, l := range logs {
				if i < 5 {
					lm = append(lm, l.Msg+" "+l.Attrs)
				}
			}
			c.Violate(sig, v.Detail, map[string]any{"spec": spec{Idx: sp.Idx, Hist: h, Only: &cp}, "crash_point": cp, "role": role, "loader_logs": lm})
		} else {
			rig.InstallSentinel().Drain()
		}
	}
	c.Sample(map[string]any{"history_steps": len(h.Steps), "entries": len(h.Entries()), "trace_ops": len(lg.Ops), "blocks": nblocks, "compactions": renames, "crash_points": len(cps), "first_steps": h.Steps[:min(4, len(h.Steps))]})
}

func TestCheck(t *testing.T) {
	c := rig.NewCheck(t, "C02", "fault_enumeration")
	defer c.Finish()
	c.Rule = "each case is one crash image (process death at an op boundary or inside an in-flight write; power loss = fsynced content + a prefix of later writes, last one torn) of the syscall log recorded from a generated history run against the real chronicler; identical images with identical durability requirement are evaluated once; non-trivial = the storage file exists, at least one entry was covered by an fsync before the crash point, and the crash point is before the end of the trace"
	c.Assumptions = []string{
		"power-loss model: namespace operations persist in order (journalled metadata); per file, everything up to the last fsync is durable and of the later writes an in-order prefix persists, the last one possibly torn; reordering inside the unsynced suffix of one file and loss of directory entries are not modelled",
		"V2 engine only; the chronicler is driven directly through its Chronicler interface with real treasures (the swamp layer above it is covered by C16/C05)",
		"entry order inside a compacted file is map order, so prefix consistency restarts at each successful compaction rename (epoch)",
	}
	if c.IsChild() {
		var sp spec
		c.ChildSpec(&sp)
		runHistory(c, sp)
		return
	}
	var specs []any
	if p := c.ReplayPath(); p != "" {
		var w struct {
			Witness struct{ Spec spec } `json:"witness"`
		}
		rig.ReadJSON(p, &w)
		specs = append(specs, w.Witness.Spec)
	} else {
		n := c.N(40, 400)
		for i := 0; i < n; i++ {
			specs = append(specs, spec{Idx: i, Hist: genHistory(c, i)})
		}
	}
	res := c.Fanout(specs, rig.FanoutOpts{Par: 16, Timeout: 20 * time.Minute})
	for _, r := range res {
		sp := r.Spec.(spec)
		switch {
		case r.TimedOut:
			c.Inconclusive(fmt.Sprintf("history %d: child watchdog fired (log %s)", sp.Idx, r.LogPath))
		case len(r.Fatal) > 0:
			b, _ := json.Marshal(sp)
			_ = os.MkdirAll(filepath.Join(rig.VerifDir(), "replays", "C02"), 0o755)
			c.Violate("loader-died:"+r.Fatal[0], fmt.Sprintf("loader process died on a crash image of history %d: %s (log %s)", sp.Idx, r.Fatal[0], r.LogPath), map[string]any{"spec": json.RawMessage(b)})
		case r.NoPartial:
			c.Inconclusive(fmt.Sprintf("history %d: child produced no result (%v, log %s)", sp.Idx, r.ExitErr, r.LogPath))
		}
	}
}
