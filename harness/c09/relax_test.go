package c09

import (
	"os"
	"strings"
)

// relax switches single clauses of the model off (C09_RELAX=setstatus,delstatus); a diagnosis aid only,
// never set by the registered commands.
var relax = func() map[string]bool {
	m := map[string]bool{}
	for _, k := range strings.Split(os.Getenv("C09_RELAX"), ",") {
		if k != "" {
			m[k] = true
		}
	}
	return m
}()
