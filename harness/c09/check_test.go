// C09 — concurrent writes on a key are linearizable; no lost updates.
//
// Several client goroutines hammer 1-3 keys of one swamp through the real gateway handlers (real
// time, race detector on). Every call is recorded at the client boundary (call stamp before the
// handler is invoked, return stamp after the reply, one monotonic clock); every written value is
// unique. The history is checked per key with porcupine against a small sequential model; final
// sequential reads are part of the history, so a lost acknowledged increment or patch makes it illegal.
package c09

import (
	"context"
	"fmt"
	"os"
	"sort"
	"strings"
	"sync"
	"sync/atomic"
	"testing"
	"time"

	"github.com/anishathalye/porcupine"
	"github.com/vmihailenco/msgpack/v5"

	hydrapb "github.com/hydraide/hydraide/sdk/go/hydraidego/v3/hydraidepbgo"

	"verifharness/rig"
)

type cfg struct {
	Name  string `json:"name"`
	InMem bool   `json:"inmem"`
	Write int64  `json:"write"` // write interval seconds; 0 = immediate
}

var cfgs = []cfg{{"persistent-immediate", false, 0}, {"persistent-1s", false, 1}, {"in-memory", true, 0}, {"persistent-5s", false, 5}}

type spec struct {
	Cfg   cfg `json:"cfg"`
	First int `json:"first"`
	N     int `json:"n"`
}

// ---- history ---------------------------------------------------------------

type in struct {
	Key  string
	Kind string // str | int | doc
	Op   string // set get del shift inc patchinc patchset
	Arg  string // set / patchset: value
	D    int64  // inc / patchinc: delta
	Cond *cond
	// Create: patch with CreateIfNotExist and the seed {n:0,s:"seed"} (kind docdel)
	Create bool
}

// valueKind maps a key kind to the representation of its value.
func valueKind(kind string) string {
	switch kind {
	case "str", "strdel":
		return "str"
	case "int", "intdel":
		return "int"
	}
	return "doc"
}

type cond struct {
	Op string // gt lt eq
	V  int64
}

type out struct {
	OK     bool   // request returned without transport/handler error
	Status string // Set: NEW/UPDATED…; del: DELETED/NOT_FOUND; patch: PATCHED/CONDITION_NOT_MET/KEY_NOT_FOUND
	Exists bool   // get / shift
	S      string // get str / doc s
	N      int64  // get int / inc new value / doc n
	Inc    bool   // inc: IsIncremented
	HasN   bool   // patch returned the new body
	Err    string
	Open   bool // the call never returned (kept open to the end of the history)
}

type st struct {
	Exists bool
	S      string
	N      int64
}

func condHolds(c *cond, n int64) bool {
	if c == nil {
		return true
	}
	switch c.Op {
	case "gt":
		return n > c.V
	case "lt":
		return n < c.V
	default:
		return n == c.V
	}
}

// step is the sequential specification of one key.
func step(state, input, output any) (bool, any) {
	s := state.(st)
	i := input.(in)
	o := output.(out)
	if o.Open {
		// unknown outcome: the operation may or may not have taken effect — both are explored by
		// giving the checker the "took effect" reading only when it leads somewhere; porcupine has no
		// native "maybe", so an open call is modelled as a no-op (sound: open calls only occur when a
		// request hangs, which is reported separately)
		return true, s
	}
	if !o.OK {
		// an error reply must not have had an effect
		return true, s
	}
	switch i.Op {
	case "set":
		want := "UPDATED"
		if !s.Exists {
			want = "NEW"
		}
		if relax["setstatus"] {
			return true, st{Exists: true, S: i.Arg}
		}
		return o.Status == want, st{Exists: true, S: i.Arg}
	case "get":
		if !s.Exists {
			return !o.Exists, s
		}
		if !o.Exists {
			return false, s
		}
		switch valueKind(i.Kind) {
		case "str":
			return o.S == s.S, s
		case "int":
			return o.N == s.N, s
		default:
			return o.S == s.S && o.N == s.N, s
		}
	case "del":
		if relax["delstatus"] {
			return true, st{}
		}
		if !s.Exists {
			return o.Status == "NOT_FOUND", s
		}
		return o.Status == "DELETED", st{}
	case "shift":
		if !s.Exists {
			return !o.Exists, s
		}
		switch valueKind(i.Kind) {
		case "str":
			return o.Exists && o.S == s.S, st{}
		case "int":
			return o.Exists && o.N == s.N, st{}
		}
		return o.Exists && o.S == s.S && o.N == s.N, st{}
	case "inc":
		// an absent key counts from 0 (swamp.IncrementInt64: void content -> 0); a failed condition
		// on an absent key leaves it absent
		base := s
		if !s.Exists {
			base = st{}
		}
		if !condHolds(i.Cond, base.N) {
			return !o.Inc && o.N == base.N, s
		}
		return o.Inc && o.N == base.N+i.D, st{Exists: true, N: base.N + i.D}
	case "patchinc", "patchset":
		base, okStatus := s, "PATCHED"
		if !s.Exists {
			if !i.Create {
				return o.Status == "KEY_NOT_FOUND", s
			}
			// CreateIfNotExist: the seed is patched (condition evaluated against the seed)
			base, okStatus = st{Exists: true, S: "seed", N: 0}, "CREATED"
		}
		if !condHolds(i.Cond, base.N) {
			return o.Status == "CONDITION_NOT_MET", s
		}
		ns := st{Exists: true, S: base.S, N: base.N + i.D}
		if i.Op == "patchset" {
			ns = st{Exists: true, S: i.Arg, N: base.N}
		}
		return o.Status == okStatus && (!o.HasN || (o.N == ns.N && o.S == ns.S)), ns
	}
	return false, s
}

var model = porcupine.Model{
	Partition: func(ops []porcupine.Operation) [][]porcupine.Operation {
		m := map[string][]porcupine.Operation{}
		var keys []string
		for _, op := range ops {
			k := op.Input.(in).Key
			if _, ok := m[k]; !ok {
				keys = append(keys, k)
			}
			m[k] = append(m[k], op)
		}
		sort.Strings(keys)
		var out [][]porcupine.Operation
		for _, k := range keys {
			out = append(out, m[k])
		}
		return out
	},
	Init: func() any { return st{} },
	Step: step,
	DescribeOperation: func(input, output any) string {
		i, o := input.(in), output.(out)
		c := ""
		if i.Cond != nil {
			c = fmt.Sprintf(" if %s %d", i.Cond.Op, i.Cond.V)
		}
		return fmt.Sprintf("%s(%s %s %d%s) -> ok=%v status=%s exists=%v s=%s n=%d inc=%v open=%v %s", i.Op, i.Key, i.Arg, i.D, c, o.OK, o.Status, o.Exists, o.S, o.N, o.Inc, o.Open, o.Err)
	},
}

// ---- driving the gateway ---------------------------------------------------

func docBody(n int64, s string) []byte {
	b, _ := msgpack.Marshal(map[string]any{"n": n, "s": s})
	return append([]byte{0xC7, 0x00}, b...)
}

func decodeDoc(b []byte) (n int64, s string, ok bool) {
	if len(b) < 2 || b[0] != 0xC7 || b[1] != 0x00 {
		return 0, "", false
	}
	var m map[string]any
	if err := msgpack.Unmarshal(b[2:], &m); err != nil {
		return 0, "", false
	}
	switch v := m["n"].(type) {
	case int64:
		n = v
	case int8:
		n = int64(v)
	case int16:
		n = int64(v)
	case int32:
		n = int64(v)
	case uint64:
		n = int64(v)
	case uint8:
		n = int64(v)
	case uint16:
		n = int64(v)
	case uint32:
		n = int64(v)
	default:
		return 0, "", false
	}
	s, _ = m["s"].(string)
	return n, s, true
}

func mp(v any) []byte { b, _ := msgpack.Marshal(v); return b }

func pbCond(c *cond) *hydrapb.PatchCondition {
	if c == nil {
		return nil
	}
	op := map[string]hydrapb.PatchCondition_Op{"gt": hydrapb.PatchCondition_GREATER_THAN, "lt": hydrapb.PatchCondition_LESS_THAN, "eq": hydrapb.PatchCondition_EQUAL}[c.Op]
	return &hydrapb.PatchCondition{Path: "n", Operator: op, Threshold: mp(c.V)}
}

func relOp(c *cond) hydrapb.Relational_Operator {
	return map[string]hydrapb.Relational_Operator{"gt": hydrapb.Relational_GREATER_THAN, "lt": hydrapb.Relational_LESS_THAN, "eq": hydrapb.Relational_EQUAL}[c.Op]
}

func exec(r *rig.Rig, sw string, i in) (o out) {
	ctx := context.Background()
	isl := rig.Island(sw)
	defer func() {
		if p := recover(); p != nil {
			o = out{Err: fmt.Sprint("panic: ", p)}
		}
	}()
	switch i.Op {
	case "set":
		v := i.Arg
		resp, err := r.GW.Set(ctx, &hydrapb.SetRequest{Swamps: []*hydrapb.SwampRequest{{IslandID: isl, SwampName: sw, CreateIfNotExist: true, Overwrite: true,
			KeyValues: []*hydrapb.KeyValuePair{{Key: i.Key, StringVal: &v}}}}})
		if err != nil || resp == nil || len(resp.Swamps) != 1 || len(resp.Swamps[0].KeysAndStatuses) != 1 {
			return out{Err: fmt.Sprint("set: ", err, resp)}
		}
		return out{OK: true, Status: resp.Swamps[0].KeysAndStatuses[0].Status.String()}
	case "get":
		resp, err := r.GW.Get(ctx, &hydrapb.GetRequest{Swamps: []*hydrapb.GetSwamp{{IslandID: isl, SwampName: sw, Keys: []string{i.Key}}}})
		if err != nil || resp == nil || len(resp.Swamps) != 1 {
			return out{Err: fmt.Sprint("get: ", err)}
		}
		o = out{OK: true}
		for _, t := range resp.Swamps[0].Treasures {
			if t.Key != i.Key || !t.IsExist {
				continue
			}
			o.Exists = true
			switch valueKind(i.Kind) {
			case "str":
				o.S = t.GetStringVal()
			case "int":
				o.N = t.GetInt64Val()
			default:
				n, s, ok := decodeDoc(t.GetBytesVal())
				if !ok {
					return out{Err: fmt.Sprintf("get: undecodable body %x", t.GetBytesVal())}
				}
				o.N, o.S = n, s
			}
		}
		return o
	case "del":
		resp, err := r.GW.Delete(ctx, &hydrapb.DeleteRequest{Swamps: []*hydrapb.DeleteRequest_SwampKeys{{IslandID: isl, SwampName: sw, Keys: []string{i.Key}}}})
		if err != nil || resp == nil || len(resp.Responses) != 1 || len(resp.Responses[0].KeyStatuses) != 1 {
			return out{Err: fmt.Sprint("del: ", err, resp)}
		}
		return out{OK: true, Status: resp.Responses[0].KeyStatuses[0].Status.String()}
	case "shift":
		resp, err := r.GW.ShiftByKeys(ctx, &hydrapb.ShiftByKeysRequest{IslandID: isl, SwampName: sw, Keys: []string{i.Key}})
		if err != nil || resp == nil {
			return out{Err: fmt.Sprint("shift: ", err)}
		}
		o = out{OK: true}
		for _, t := range resp.Treasures {
			if t.Key == i.Key {
				o.Exists = true
				switch valueKind(i.Kind) {
				case "str":
					o.S = t.GetStringVal()
				case "int":
					o.N = t.GetInt64Val()
				default:
					n, s, ok := decodeDoc(t.GetBytesVal())
					if !ok {
						return out{Err: fmt.Sprintf("shift: undecodable body %x", t.GetBytesVal())}
					}
					o.N, o.S = n, s
				}
			}
		}
		return o
	case "inc":
		req := &hydrapb.IncrementInt64Request{IslandID: isl, SwampName: sw, Key: i.Key, IncrementBy: i.D}
		if i.Cond != nil {
			req.Condition = &hydrapb.IncrementInt64Condition{RelationalOperator: relOp(i.Cond), Value: i.Cond.V}
		}
		resp, err := r.GW.IncrementInt64(ctx, req)
		if err != nil || resp == nil {
			return out{Err: fmt.Sprint("inc: ", err)}
		}
		return out{OK: true, N: resp.Value, Inc: resp.IsIncremented}
	case "patchinc", "patchset":
		op := &hydrapb.PatchOp{Op: hydrapb.PatchOp_INC, Path: "n", Value: mp(i.D)}
		if i.Op == "patchset" {
			op = &hydrapb.PatchOp{Op: hydrapb.PatchOp_SET, Path: "s", Value: mp(i.Arg)}
		}
		preq := &hydrapb.PatchTreasuresRequest{IslandID: isl, SwampName: sw,
			Patches: []*hydrapb.TreasurePatch{{Key: i.Key, Ops: []*hydrapb.PatchOp{op}, Condition: pbCond(i.Cond)}}}
		if i.Create {
			preq.CreateIfNotExist = true
			preq.InitialMsgpackOnCreate = mp(map[string]any{"n": int64(0), "s": "seed"})
		}
		resp, err := r.GW.PatchTreasures(ctx, preq)
		if err != nil || resp == nil || len(resp.Results) != 1 {
			return out{Err: fmt.Sprint("patch: ", err, resp)}
		}
		res := resp.Results[0]
		o = out{OK: true, Status: res.Status.String()}
		if res.NewMsgpack != nil {
			if n, s, ok := decodeDoc(res.NewMsgpack); ok {
				o.HasN, o.N, o.S = true, n, s
			} else if n, s, ok := decodeDoc(append([]byte{0xC7, 0x00}, res.NewMsgpack...)); ok {
				o.HasN, o.N, o.S = true, n, s
			}
		}
		return o
	}
	return out{Err: "unknown op"}
}

type keyDef struct {
	Key  string
	Kind string
}

func runHistory(c *rig.Check, r *rig.Rig, cf cfg, idx int) {
	rnd := c.Rand(idx)
	sw := fmt.Sprintf("c09/%s/h%d", strings.ReplaceAll(cf.Name, "-", ""), idx)
	nkeys := 1 + rnd.IntN(3)
	if relax["small"] {
		nkeys = 1
	}
	// intdel / docdel: a counter / document key with ONE writing client (increments, creating
	// patches) while all other clients read, delete and shift it: the removal of a record races
	// with a writer that looked the record up before. Only where every acknowledged record has
	// reached the storage file (immediate write mode): elsewhere a removed record keeps its
	// content and the stale writer continues from it (root cause of known finding C09-F1).
	kinds := []string{"str", "strdel", "int", "doc"}
	if cf.Write == 0 && !cf.InMem {
		kinds = append(kinds, "intdel", "docdel")
	}
	if only := os.Getenv("C09_ONLY"); only != "" && len(kinds) > 4 { // diagnostic runs
		kinds = []string{only}
	}
	var keys []keyDef
	for k := 0; k < nkeys; k++ {
		keys = append(keys, keyDef{Key: fmt.Sprintf("k%d", k), Kind: kinds[rnd.IntN(len(kinds))]})
		if relax["small"] {
			keys[k].Kind = "strdel"
		}
	}
	var mu sync.Mutex
	var ops []porcupine.Operation
	t0 := time.Now()
	var opID atomic.Int64
	record := func(client int, i in) out {
		call := time.Since(t0).Nanoseconds()
		o := exec(r, sw, i)
		ret := time.Since(t0).Nanoseconds()
		if ret <= call {
			ret = call + 1
		}
		mu.Lock()
		ops = append(ops, porcupine.Operation{ClientId: client, Input: i, Call: call, Output: o, Return: ret})
		mu.Unlock()
		opID.Add(1)
		return o
	}
	// sequential set-up (part of the history): sentinel key keeps the swamp alive; int and doc keys are created
	sv := "sentinel"
	if _, err := r.GW.Set(context.Background(), &hydrapb.SetRequest{Swamps: []*hydrapb.SwampRequest{{IslandID: rig.Island(sw), SwampName: sw, CreateIfNotExist: true, Overwrite: true,
		KeyValues: []*hydrapb.KeyValuePair{{Key: "zz-sentinel", StringVal: &sv}}}}}); err != nil {
		c.Inconclusive("set-up failed: " + err.Error())
		return
	}
	for _, k := range keys {
		switch k.Kind {
		case "int":
			// creates the key with value 0+1
			req := &hydrapb.IncrementInt64Request{IslandID: rig.Island(sw), SwampName: sw, Key: k.Key, IncrementBy: 1}
			call := time.Since(t0).Nanoseconds()
			resp, err := r.GW.IncrementInt64(context.Background(), req)
			ret := time.Since(t0).Nanoseconds() + 1
			if err != nil || resp == nil || !resp.IsIncremented || resp.Value != 1 {
				c.Inconclusive(fmt.Sprint("int set-up failed: ", err, resp))
				return
			}
			// modelled as a set of the integer state
			ops = append(ops, porcupine.Operation{ClientId: 0, Input: in{Key: k.Key, Kind: "int", Op: "init"}, Call: call, Output: out{OK: true, N: 1}, Return: ret})
		case "doc":
			call := time.Since(t0).Nanoseconds()
			resp, err := r.GW.Set(context.Background(), &hydrapb.SetRequest{Swamps: []*hydrapb.SwampRequest{{IslandID: rig.Island(sw), SwampName: sw, CreateIfNotExist: true, Overwrite: true,
				KeyValues: []*hydrapb.KeyValuePair{{Key: k.Key, BytesVal: docBody(0, "init")}}}}})
			ret := time.Since(t0).Nanoseconds() + 1
			if err != nil || resp == nil {
				c.Inconclusive(fmt.Sprint("doc set-up failed: ", err))
				return
			}
			ops = append(ops, porcupine.Operation{ClientId: 0, Input: in{Key: k.Key, Kind: "doc", Op: "init", Arg: "init"}, Call: call, Output: out{OK: true}, Return: ret})
		}
	}
	nclients := 4 + rnd.IntN(5)
	nreq := 30 + rnd.IntN(31)
	if relax["small"] {
		nclients, nreq = 3, 6
	}
	// pre-generate each client's requests (deterministic in the seed)
	plans := make([][]in, nclients)
	seq := 0
	for cl := range plans {
		for q := 0; q < nreq; q++ {
			ki := rnd.IntN(len(keys))
			k := keys[ki]
			isWriter := cl == (ki+idx)%nclients
			seq++
			i := in{Key: k.Key, Kind: k.Kind}
			var cnd *cond
			if rnd.IntN(3) == 0 {
				cnd = &cond{Op: []string{"gt", "lt", "eq"}[rnd.IntN(3)], V: int64(rnd.IntN(40)) - 5}
			}
			switch k.Kind {
			case "str":
				// written and read concurrently, never removed
				if rnd.IntN(10) < 6 {
					i.Op, i.Arg = "set", fmt.Sprintf("c%d#%d", cl, seq)
				} else {
					i.Op = "get"
				}
			case "strdel":
				switch x := rnd.IntN(10); {
				case x < 4:
					i.Op, i.Arg = "set", fmt.Sprintf("c%d#%d", cl, seq)
				case x < 7:
					i.Op = "get"
				case x < 9:
					i.Op = "del"
				default:
					i.Op = "shift"
				}
			case "int":
				if rnd.IntN(4) == 0 {
					i.Op = "get"
				} else {
					i.Op, i.D, i.Cond = "inc", int64(1+rnd.IntN(3)), cnd
					if rnd.IntN(5) == 0 {
						i.D = -i.D
					}
				}
			case "intdel", "docdel":
				x := rnd.IntN(10)
				switch {
				case isWriter && x < 8 && k.Kind == "intdel":
					i.Op, i.D, i.Cond = "inc", int64(1+rnd.IntN(3)), cnd
				case isWriter && x < 5:
					i.Op, i.D, i.Cond, i.Create = "patchinc", int64(1+rnd.IntN(3)), cnd, true
				case isWriter && x < 8:
					i.Op, i.Arg, i.Cond, i.Create = "patchset", fmt.Sprintf("c%d#%d", cl, seq), cnd, true
				case x < 4 || isWriter:
					i.Op = "get"
				case x < 8:
					i.Op = "del"
				default:
					i.Op = "shift"
				}
			default:
				switch x := rnd.IntN(10); {
				case x < 3:
					i.Op = "get"
				case x < 7:
					i.Op, i.D, i.Cond = "patchinc", int64(1+rnd.IntN(3)), cnd
				default:
					i.Op, i.Arg, i.Cond = "patchset", fmt.Sprintf("c%d#%d", cl, seq), cnd
				}
			}
			plans[cl] = append(plans[cl], i)
		}
	}
	var wg sync.WaitGroup
	start := make(chan struct{})
	for cl := range plans {
		wg.Add(1)
		go func(cl int) {
			defer wg.Done()
			<-start
			for _, i := range plans[cl] {
				record(cl+1, i)
			}
		}(cl)
	}
	close(start)
	wg.Wait()
	// final sequential reads
	for _, k := range keys {
		record(0, in{Key: k.Key, Kind: k.Kind, Op: "get"})
	}
	// overlap statistics
	overlaps := 0
	byKey := map[string][]porcupine.Operation{}
	for _, op := range ops {
		byKey[op.Input.(in).Key] = append(byKey[op.Input.(in).Key], op)
	}
	for _, l := range byKey {
		for a := 0; a < len(l); a++ {
			for b := a + 1; b < len(l) && b < a+12; b++ {
				if l[a].Call < l[b].Return && l[b].Call < l[a].Return {
					overlaps++
				}
			}
		}
	}
	errs := 0
	for _, op := range ops {
		if !op.Output.(out).OK {
			errs++
		}
	}
	res, info := porcupine.CheckOperationsVerbose(model, ops, 90*time.Second)
	desc := fmt.Sprintf("%s/h%d keys=%v clients=%d ops=%d", cf.Name, idx, keys, nclients, len(ops))
	c.Case(desc, overlaps >= 2)
	c.Count("operations", int64(len(ops)))
	c.Count("overlapping_pairs_same_key", int64(overlaps))
	c.Count("error_replies", int64(errs))
	for _, k := range keys {
		c.Seen("key_kinds_x_config", cf.Name+":"+k.Kind)
	}
	switch res {
	case porcupine.Ok:
	case porcupine.Unknown:
		c.Inconclusive("porcupine timed out on " + desc)
	case porcupine.Illegal:
		// one violation per illegal key, so that each key kind keeps its own signature
		_ = info
		var bkeys []string
		for k := range byKey {
			bkeys = append(bkeys, k)
		}
		sort.Strings(bkeys)
		for _, bk := range bkeys {
			l := byKey[bk]
			var lines []string
			kindsBad := map[string]bool{}
			if r2, inf2 := porcupine.CheckOperationsVerbose(model, l, 30*time.Second); r2 == porcupine.Illegal {
				// where does the longest partial linearization get stuck?
				best := []int{}
				for _, part := range inf2.PartialLinearizations() {
					for _, lin := range part {
						if len(lin) > len(best) {
							best = lin
						}
					}
				}
				done := map[int]bool{}
				s := any(st{})
				for _, ix := range best {
					done[ix] = true
					_, s = model.Step(s, l[ix].Input, l[ix].Output)
				}
				lines = append(lines, fmt.Sprintf("longest partial linearization covers %d of %d operations and ends in state %+v; operations it cannot place (earliest calls first):", len(best), len(l), s))
				var stuck []porcupine.Operation
				for ix, op := range l {
					if !done[ix] {
						stuck = append(stuck, op)
					}
				}
				sort.Slice(stuck, func(a, b int) bool { return stuck[a].Call < stuck[b].Call })
				for i, op := range stuck {
					if i < 6 {
						lines = append(lines, fmt.Sprintf("  STUCK [%d..%d] c%d %s", op.Call, op.Return, op.ClientId, model.DescribeOperation(op.Input, op.Output)))
					}
				}
				var lastDone []porcupine.Operation
				for _, ix := range best {
					lastDone = append(lastDone, l[ix])
				}
				for i := max(0, len(lastDone)-8); i < len(lastDone); i++ {
					op := lastDone[i]
					lines = append(lines, fmt.Sprintf("  placed#%d [%d..%d] c%d %s", i, op.Call, op.Return, op.ClientId, model.DescribeOperation(op.Input, op.Output)))
				}
				sort.Slice(l, func(a, b int) bool { return l[a].Call < l[b].Call })
				opsUsed := map[string]bool{}
				for _, op := range l {
					kindsBad[op.Input.(in).Kind] = true
					opsUsed[op.Input.(in).Op] = true
					// the operations around the first one that cannot be placed
					if len(lines) < 100 && (len(stuck) == 0 || op.Return >= stuck[0].Call-4_000_000) {
						lines = append(lines, fmt.Sprintf("[%d..%d] c%d %s", op.Call, op.Return, op.ClientId, model.DescribeOperation(op.Input, op.Output)))
					}
				}
				var ks []string
				for k := range kindsBad {
					ks = append(ks, k)
				}
				sort.Strings(ks)
				c.Violate(fmt.Sprintf("not-linearizable:%s:%s", cf.Name, strings.Join(ks, "+")),
					fmt.Sprintf("key %s of history %s has no serial order consistent with the responses and real-time order", bk, desc),
					map[string]any{"cfg": cf, "idx": idx, "key": bk, "history": lines})
			}
		}
	}
	c.Sample(map[string]any{"config": cf.Name, "keys": keys, "clients": nclients, "requests_per_client": nreq, "operations": len(ops), "overlapping_pairs": overlaps, "first_ops": describe(ops, 6)})
}

func describe(ops []porcupine.Operation, n int) []string {
	var out []string
	for i, op := range ops {
		if i >= n {
			break
		}
		out = append(out, model.DescribeOperation(op.Input, op.Output))
	}
	return out
}

func init() {
	// the set-up operations are modelled as plain state initialisation
	inner := model.Step
	model.Step = func(state, input, output any) (bool, any) {
		i := input.(in)
		if i.Op == "init" {
			if i.Kind == "int" {
				return true, st{Exists: true, N: 1}
			}
			return true, st{Exists: true, S: "init", N: 0}
		}
		return inner(state, input, output)
	}
}

func TestCheck(t *testing.T) {
	c := rig.NewCheck(t, "C09", "exploration")
	defer c.Finish()
	c.Rule = "a case is one short concurrent history (4-8 client goroutines x 30-60 requests on 1-3 keys of one swamp, key kinds string / int64 counter / msgpack document) recorded at the client boundary and checked per key with porcupine against a sequential model; final sequential reads are part of the history; non-trivial = at least two operations on the same key overlapped in real time; distinct = distinct (configuration, history index)"
	c.Assumptions = []string{
		"counter (int) and document (doc) keys are created before the concurrent phase and never deleted; string keys are set, read, deleted and shifted concurrently",
		"intdel / docdel keys (immediate write mode only): one client increments / patches with CreateIfNotExist while all others read, delete and shift the key; an absent counter counts from 0 and a failed condition leaves it absent (swamp.IncrementInt64), a creating patch patches the seed. With several writers, or where removed records keep their content (buffered and in-memory swamps), the stale-object defect of known finding C09-F1 applies and would hide every other cause",
		"a sentinel key keeps the swamp from becoming empty (auto-destroy is C16's subject)",
		"an error reply is required to have had no effect",
		"schedules are whatever the Go scheduler and the race detector's slowdown produce on this machine; no interleaving is forced",
	}
	if c.IsChild() {
		var sp spec
		c.ChildSpec(&sp)
		root := rig.TempRoot("c09")
		defer rig.RemoveAll(root)
		r := rig.New(rig.Options{Root: root})
		r.Register("c09/*/*", sp.Cfg.InMem, 3600, sp.Cfg.Write)
		for i := 0; i < sp.N; i++ {
			runHistory(c, r, sp.Cfg, sp.First+i)
		}
		// recovered panics under concurrency are C10's subject (never crashes / panics a request);
		// here the panicking request counted as an error reply without effect
		c.Count("recovered_panics_seen_not_judged_here", int64(len(rig.InstallSentinel().Drain("panic"))))
		done := make(chan struct{})
		go func() { r.Stop(); close(done) }()
		select {
		case <-done:
		case <-time.After(2 * time.Minute):
			c.Count("slow_shutdowns", 1)
		}
		return
	}
	per := c.N(150, 3000)
	chunk := per / 4
	var specs []any
	for _, cf := range cfgs {
		for first := 0; first < per; first += chunk {
			n := chunk
			if first+n > per {
				n = per - first
			}
			specs = append(specs, spec{Cfg: cf, First: first, N: n})
		}
	}
	res := c.Fanout(specs, rig.FanoutOpts{Par: 8, Timeout: 30 * time.Minute})
	races := map[string]int{}
	for _, r := range res {
		sp := r.Spec.(spec)
		for _, rc := range r.Races {
			races[rc.Sig]++
		}
		switch {
		case r.TimedOut:
			c.Inconclusive(fmt.Sprintf("%s from %d: child watchdog fired (a request may hang; log %s)", sp.Cfg.Name, sp.First, r.LogPath))
		case len(r.Fatal) > 0:
			c.Violate("process-died:"+sp.Cfg.Name+":"+r.Fatal[0], fmt.Sprintf("server process died under concurrent writes: %s (log %s)", r.Fatal[0], r.LogPath), nil)
		case r.NoPartial:
			c.Inconclusive(fmt.Sprintf("%s from %d: child produced no result (%v, log %s)", sp.Cfg.Name, sp.First, r.ExitErr, r.LogPath))
		}
	}
	// data races are C10's subject; reported here as supporting observation only
	c.Extra("race_signatures_seen_not_judged_here", races)
}
