// C26 — malformed requests fail cleanly without side effects.
//
// Monitor: for every RPC registered in HydraideService_ServiceDesc (taken by reflection, a new
// RPC is picked up automatically) requests are generated structurally: a hand-written valid
// request that reaches the engine (existing swamp, existing keys) damaged in one to three
// fields with boundary / malformed values, plus requests filled field by field from hostile
// pools by walking the protobuf descriptors. Half of the cases run against the in-process rig
// inside a synctest bubble through the generated grpc handlers ("never returns" is observable
// at quiescence), half over a real grpc server/client pair on bufconn, so that the reply is
// judged as the client sees it. Every batch runs on a fresh engine that also holds a canary
// swamp; afterwards the system-lock counter, the canary, shutdown and a reload of every
// storage file by a fresh engine are checked. Batches run in child processes: a request that
// kills the process is seen by the parent.
package c26

import (
	"context"
	"encoding/hex"
	"fmt"
	"io/fs"
	"os"
	"path/filepath"
	"regexp"
	"runtime"
	"sort"
	"strconv"
	"strings"
	"sync"
	"syscall"
	"testing"
	"testing/synctest"
	"time"

	v2 "github.com/hydraide/hydraide/app/core/hydra/swamp/chronicler/v2"
	"github.com/hydraide/hydraide/app/core/settings"
	"github.com/hydraide/hydraide/app/name"
	"github.com/hydraide/hydraide/app/server/gateway"
	"github.com/hydraide/hydraide/app/server/telemetry"
	hydrapb "github.com/hydraide/hydraide/sdk/go/hydraidego/v3/hydraidepbgo"
	"google.golang.org/protobuf/proto"
	"google.golang.org/protobuf/reflect/protoreflect"

	"verifharness/rig"
)

// ---- specs ---------------------------------------------------------------------------------

type unit struct {
	Mode string `json:"mode"` // bubble | grpc
	RPC  string `json:"rpc"`
	From int    `json:"from"`
	N    int    `json:"n"`
}

type childSpec struct {
	Units []unit   `json:"units"`
	Skip  []string `json:"skip,omitempty"` // "<mode>/<rpc>/<idx>" cases that killed an earlier child
	Round int      `json:"round"`
}

type witness struct {
	Unit   unit     `json:"unit"` // replay: this unit is re-run up to and including Idx
	Idx    int      `json:"idx"`  // -1: batch-level observation
	Style  string   `json:"style,omitempty"`
	Labels []string `json:"labels,omitempty"`
	Req    string   `json:"request,omitempty"`
	Detail string   `json:"detail,omitempty"`
}

func caseKey(mode, rpc string, idx int) string { return fmt.Sprintf("%s/%s/%d", mode, rpc, idx) }

const grpcIdxBase = 1 << 20 // grpc-mode cases are different cases than bubble-mode ones

// ---- finding: a batch-level observation that is bisected to a single request ---------------

type finding struct {
	kind, class, what string
}

func (f finding) key() string { return f.kind + ":" + f.class }

// ---- one batch -----------------------------------------------------------------------------

type batchRun struct {
	c      *rig.Check
	t      *testing.T
	ri     rpcInfo
	u      unit
	ui     int
	idxs   []int
	skip   map[string]bool
	count  bool // count cases / report per-request violations (false in bisect re-runs)
	outF   []finding
	culled map[string]*genCase
	hang   bool
	cat    map[string]rpcInfo
}

func short(s string, n int) string {
	if len(s) > n {
		return s[:n] + "…"
	}
	return s
}

func reqText(gc *genCase) string {
	var sb strings.Builder
	for i, m := range gc.Msgs {
		if i > 0 {
			sb.WriteString(" | ")
		}
		sb.WriteString(short(fmt.Sprint(m), 600))
	}
	return sb.String()
}

func (b *batchRun) violate(kind, class, what string, gc *genCase, detail string) {
	w := witness{Unit: b.u, Idx: -1, Detail: short(detail, 3000)}
	if gc != nil {
		w.Idx, w.Style, w.Labels, w.Req = gc.Idx, gc.Style, gc.Labels, reqText(gc)
		what += fmt.Sprintf(" [%s case %d, %s: %s]", b.u.Mode, gc.Idx, gc.Style, short(strings.Join(gc.Labels, "; "), 300))
	}
	b.c.Violate(b.ri.Name+":"+kind+":"+class, what, w)
}

var ctxBG = context.Background()

func seedTargets(gw *gateway.Gateway, w *world) error {
	for _, t := range append(append([]string{}, w.Targets...), w.Mem) {
		_, err := gw.Set(ctxBG, &hydrapb.SetRequest{Swamps: []*hydrapb.SwampRequest{{IslandID: safeIsland(t), SwampName: t, CreateIfNotExist: true, Overwrite: true, KeyValues: seedKVs(w.Now)}}})
		if err != nil {
			return fmt.Errorf("seed %s: %v", t, err)
		}
	}
	return nil
}

func seedAll(gw *gateway.Gateway, w *world, tc telemetry.Collector) error {
	for _, p := range []struct {
		pat string
		mem bool
	}{{"c26/main/*", false}, {"c26/mem/*", true}, {"canary/main/*", false}} {
		if _, err := gw.RegisterSwamp(ctxBG, &hydrapb.RegisterSwampRequest{SwampPattern: p.pat, IsInMemorySwamp: p.mem, CloseAfterIdle: 3600, WriteInterval: ptr(int64(1)), MaxFileSize: ptr(int64(8192))}); err != nil {
			return err
		}
	}
	// immediate write mode: the gateway replaces a zero interval by its default, the settings API takes it
	gw.SettingsInterface.RegisterPattern(name.Load("c26/imm/*"), false, 3600, &settings.FileSystemSettings{WriteIntervalSec: 0, MaxFileSizeByte: 8192})
	if err := seedTargets(gw, w); err != nil {
		return err
	}
	if _, err := gw.Set(ctxBG, &hydrapb.SetRequest{Swamps: []*hydrapb.SwampRequest{{IslandID: safeIsland(canarySwamp), SwampName: canarySwamp, CreateIfNotExist: true, Overwrite: true, KeyValues: seedKVs(w.Now)}}}); err != nil {
		return err
	}
	for i := 0; i < 3; i++ {
		k := fmt.Sprintf("held-%d", i)
		resp, err := gw.Lock(ctxBG, &hydrapb.LockRequest{Key: k, TTL: 600000})
		if err != nil {
			return err
		}
		w.Locks[k] = resp.GetLockID()
	}
	for i := 0; i < 24; i++ {
		id := fmt.Sprintf("ev-%d", i)
		ev := telemetry.Event{ID: id, Timestamp: w.Now, Method: []string{"Set", "Get", "Delete"}[i%3], SwampName: w.Targets[i%len(w.Targets)], Keys: []string{"str"}, DurationUs: int64(i), Success: i%3 != 0, ClientIP: "10.0.0.1"}
		if !ev.Success {
			ev.ErrorCode, ev.ErrorMsg = "Internal", "decompress failed"
		}
		tc.Record(ev)
		w.Events = append(w.Events, id)
	}
	return nil
}

func snapshotCanary(gw *gateway.Gateway) (string, error) {
	resp, err := gw.GetAll(ctxBG, &hydrapb.GetAllRequest{IslandID: safeIsland(canarySwamp), SwampName: canarySwamp})
	if err != nil {
		return "", err
	}
	if resp == nil {
		return "", fmt.Errorf("nil response")
	}
	var rows []string
	for _, tr := range resp.Treasures {
		b, _ := proto.MarshalOptions{Deterministic: true}.Marshal(tr)
		rows = append(rows, tr.GetKey()+"="+hex.EncodeToString(b))
	}
	sort.Strings(rows)
	return strings.Join(rows, "\n"), nil
}

func canaryDiff(a, b string) string {
	am := map[string]string{}
	for _, l := range strings.Split(a, "\n") {
		k, v, _ := strings.Cut(l, "=")
		am[k] = v
	}
	var d []string
	for _, l := range strings.Split(b, "\n") {
		k, v, _ := strings.Cut(l, "=")
		if old, ok := am[k]; !ok {
			d = append(d, "+"+k)
		} else if old != v {
			d = append(d, "~"+k)
		}
		delete(am, k)
	}
	for k := range am {
		d = append(d, "-"+k)
	}
	sort.Strings(d)
	return strings.Join(d, ",")
}

// handlerStack returns the goroutine dump block of the request goroutine.
func handlerStack() string {
	buf := make([]byte, 8<<20)
	n := runtime.Stack(buf, true)
	for _, blk := range strings.Split(string(buf[:n]), "\n\n") {
		if strings.Contains(blk, "c26HandlerTrampoline") {
			return blk
		}
	}
	return ""
}

var reloadMsgs = []string{"cannot open swamp file", "cannot load index from swamp file", "cannot decode treasure", "self-heal compaction failed", "failed to load settings"}

func isReloadAlarm(msg string) bool {
	for _, m := range reloadMsgs {
		if strings.Contains(msg, m) {
			return true
		}
	}
	return false
}

func attrErr(attrs string) string {
	if i := strings.Index(attrs, "error="); i >= 0 {
		attrs = attrs[i+6:]
	}
	if i := strings.Index(attrs, " stack="); i >= 0 {
		attrs = attrs[:i]
	}
	return strings.TrimSpace(attrs)
}

// run executes the batch. In bubble mode everything happens inside one synctest bubble.
func (b *batchRun) run() {
	if b.u.Mode == "bubble" {
		synctest.Test(b.t, func(t *testing.T) { b.body(true) })
	} else {
		b.body(false)
	}
}

func (b *batchRun) body(bubble bool) {
	c := b.c
	root := rig.TempRoot("c26")
	defer rig.RemoveAll(root)
	sent := rig.InstallSentinel()
	sent.Drain()
	settle := func() {
		if bubble {
			synctest.Wait()
		}
	}
	// let the bubble drain completely before it ends, whatever happens
	endBubble := func() {
		if bubble {
			time.Sleep(3 * time.Minute)
		}
	}

	r := rig.New(rig.Options{Root: root})
	shutCtx, shutCancel := context.WithCancel(ctxBG)
	gw := r.GW
	gw.ShutdownCtx = shutCtx
	tc := telemetry.New(telemetry.Config{Capacity: 4096, ErrorStoreCapacity: 256})
	gw.TelemetryCollector = tc
	w := newWorld(time.Now())
	if err := seedAll(&gw, w, tc); err != nil {
		c.Inconclusive("seeding failed: " + err.Error())
		shutCancel()
		r.Zeus.GetSafeops().TriggerPanic()
		endBubble()
		return
	}
	canary0, err := snapshotCanary(&gw)
	if err != nil || canary0 == "" {
		c.Inconclusive(fmt.Sprintf("canary snapshot failed: %v", err))
	}
	sent.Drain()

	var wr *wire
	if !bubble {
		if wr, err = newWire(&gw); err != nil {
			c.Inconclusive("bufconn: " + err.Error())
			shutCancel()
			r.Zeus.GetSafeops().TriggerPanic()
			return
		}
	}
	poke := func() {
		tc.Record(telemetry.Event{Method: "Set", SwampName: w.Targets[0], Success: true})
		for _, t := range w.Targets {
			_, _ = gw.Set(ctxBG, &hydrapb.SetRequest{Swamps: []*hydrapb.SwampRequest{{IslandID: safeIsland(t), SwampName: t, CreateIfNotExist: true, Overwrite: true,
				KeyValues: []*hydrapb.KeyValuePair{{Key: "poke", Int64Val: ptr(int64(w.next()))}}}}})
		}
	}

	anyTimeout := false
	var heldLocks [][2]string // business locks granted to requests: released before the bubble ends
	for k, id := range w.Locks {
		heldLocks = append(heldLocks, [2]string{k, id})
	}
	b.culled = map[string]*genCase{}
	var executed []*genCase
	// execute sends one request (the case itself or a follow-up) and decides "returned".
	execute := func(ri rpcInfo, msgs []proto.Message, wires [][]byte, idx int, gc *genCase, what string) (o outcome, panics []rig.SentinelRecord) {
		phaseBegin(b, ri.Name, idx, gc, what, bubble)
		defer phaseEnd()
		if bubble {
			ctx, cancel := context.WithCancel(ctxBG)
			fin := false
			go func() {
				o = invokeDirect(ctx, &gw, ri, wires)
				fin = true
			}()
			synctest.Wait()
			blocked := false
			if !fin && ri.ServerStream {
				// a subscription: make it deliver something, then hang up, then change data again
				poke()
				synctest.Wait()
				cancel()
				synctest.Wait()
				blocked = fin
				poke()
				synctest.Wait()
			}
			if !fin {
				time.Sleep(60 * time.Second) // bounded waits inside the engine (30 s close wait, 1 s lock TTL floor …)
				synctest.Wait()
			}
			if !fin {
				stack := handlerStack()
				cancel()
				synctest.Wait()
				class := topFrame(stack)
				after := "and still has not after its context was cancelled"
				if fin {
					after = "it returned only when the caller gave up (context cancelled)"
				}
				if b.count {
					kind := "hang"
					if what != "the request" {
						kind, class = "follow-up-wedged", ri.Name+"@"+class
					}
					b.violate(kind, class, what+" had not returned at quiescence 60 virtual seconds after it was issued; "+after, gc, stack)
				}
				if !fin {
					// the goroutine can never be released: this bubble cannot end
					fmt.Printf("C26HANGEXIT %d %d\n", b.ui, idx)
					b.hang = true
					if b.count {
						c.Case(caseKey(b.u.Mode, b.ri.Name, idx)+hex.EncodeToString(firstBytes(gc)), gc.Style != "seed")
					}
					c.Finish()
					os.Exit(3)
				}
			}
			cancel()
			o.Blocked = blocked
		} else {
			o = wr.invokeGRPC(ri, msgs, poke)
		}
		if lr, ok := o.Resp.(*hydrapb.LockResponse); ok && len(msgs) > 0 {
			if q, ok := msgs[0].(*hydrapb.LockRequest); ok {
				heldLocks = append(heldLocks, [2]string{q.GetKey(), lr.GetLockID()})
			}
		}
		return o, sent.Drain("panic")
	}
	// judge applies the per-request oracle; the signature always carries the batch's RPC
	judge := func(ri rpcInfo, o outcome, panics []rig.SentinelRecord, gc *genCase, what string) {
		switch {
		case o.Timeout:
			anyTimeout = true
			if b.count {
				c.Inconclusive("grpc request exceeded the wall-clock guard: " + ri.Name)
			}
		case o.Escaped != "":
			if b.count {
				b.violate("crash", normMsg(o.Escaped)+"@"+topFrame(o.EscStack), what+": a panic left the handler; grpc-go does not recover handler panics, the server process dies: "+short(o.Escaped, 200), gc, o.EscStack)
			}
		case len(panics) > 0 && o.OK:
			if b.count {
				b.violate("nil-nil", panicClass(panics[0].Attrs), fmt.Sprintf("%s: the handler panicked (%s), the recover path reported success: the client gets OK with an empty reply for a request that was abandoned half-way", what, short(attrErr(panics[0].Attrs), 120)), gc, panics[0].Attrs)
			}
		case len(panics) > 0:
			if b.count {
				c.Count("recovered_panics_reported_as_error", int64(len(panics)))
			}
		case o.OK && o.RespNil && ri.Out.Fields().Len() > 0:
			if b.count {
				b.violate("nil-nil", "no-panic", what+": the handler returned a nil "+string(ri.Out.Name())+" with a nil error", gc, "")
			}
		}
	}

	for i, idx := range b.idxs {
		if b.skip[caseKey(b.u.Mode, b.ri.Name, idx)] {
			continue
		}
		if anyTimeout {
			// a handler is stuck in this engine (grpc mode cannot decide why): every further
			// request could wait for it; the rest of the batch is not run
			if b.count {
				c.Count("cases_not_run_after_a_stuck_grpc_handler", 1)
			}
			continue
		}
		if i > 0 && i%6 == 0 {
			_ = seedTargets(&gw, w)
			settle()
			for _, p := range sent.Drain("panic") {
				b.outF = append(b.outF, finding{"background-panic", panicClass(p.Attrs), "panic while re-seeding the target swamps: " + short(p.Attrs, 400)})
			}
		}
		gc := buildCase(b.ri, idx, w, c.RandFor(caseKey("case", b.ri.Name, idx)))
		executed = append(executed, gc)
		b.culled[strconv.Itoa(gc.Idx)] = gc
		fmt.Printf("C26REQ %d %s %d %s %s\n", b.ui, b.ri.Name, idx, gc.Style, short(strings.Join(gc.Labels, ";"), 400))
		pre := map[string]claimState{}
		for _, t := range gc.PatchT {
			pre[t] = readClaimState(&gw, t)
		}
		o, panics := execute(b.ri, gc.Msgs, gc.Wires, idx, gc, "the request")
		fmt.Printf("C26RET %d %d %s\n", b.ui, idx, o.Code)
		tc.Record(telemetry.Event{Method: b.ri.Name, Success: o.OK, ErrorCode: o.Code, ErrorMsg: short(o.ErrText, 100), ClientIP: "10.0.0.2"})

		if b.count {
			c.Case(caseKey(b.u.Mode, b.ri.Name, idx)+hex.EncodeToString(firstBytes(gc)), gc.Style != "seed")
			c.Sample(map[string]any{"rpc": gc.RPC, "mode": b.u.Mode, "style": gc.Style, "labels": gc.Labels, "bytes": gc.Bytes, "outcome": o.Code})
			c.Count("requests_"+b.u.Mode, 1)
			c.Count("style_"+gc.Style, 1)
			c.Count("request_bytes", int64(gc.Bytes))
			c.Seen("rpcs", gc.RPC)
			c.Seen("outcome_codes", o.Code)
			if o.OK || (o.Code != "InvalidArgument" && o.Code != "FailedPrecondition") {
				c.Count("requests_past_validation", 1)
			}
			if o.Blocked {
				c.Count("streams_ended_by_cancel", 1)
			}
			c.Count("stream_messages_received", int64(o.Sent))
			c.Count("recovered_panics", int64(len(panics)))
			for _, l := range gc.Labels {
				if i := strings.LastIndex(l, "="); i >= 0 {
					c.Seen("mutation_classes", l[i+1:])
				}
			}
		}
		judge(b.ri, o, panics, gc, "the request")

		// the claim paths of the swamps must still work: a well-formed PatchExpired (metadata
		// only, keeps the records expired) returns and finds the expired records
		if hasSwampName(b.ri.In) && !anyTimeout {
			fmt.Printf("C26REQ %d %s %d %s followed-by-claim-probe;%s\n", b.ui, b.ri.Name, idx, gc.Style, short(strings.Join(gc.Labels, ";"), 300))
			probeTargets := w.Targets
			if len(gc.PatchT) > 0 {
				probeTargets = gc.PatchT
				if o.OK && b.count {
					for _, v := range patchOracle(gc, o, pre, &gw) {
						b.violate(v[0], v[1], v[2], gc, "")
					}
				}
			}
			for _, t := range probeTargets {
				if anyTimeout {
					break
				}
				q := &hydrapb.PatchExpiredTreasuresRequest{IslandID: safeIsland(t), SwampName: t, Meta: &hydrapb.PatchMeta{SetUpdatedAt: true}}
				wb, _ := proto.Marshal(q)
				po, pp := execute(b.cat["PatchExpiredTreasures"], []proto.Message{q}, [][]byte{wb}, idx, gc, "well-formed PatchExpiredTreasures after the request")
				judge(b.cat["PatchExpiredTreasures"], po, pp, gc, "well-formed PatchExpiredTreasures after the request")
				if b.count {
					c.Count("claim_probes", 1)
				}
				st, had := pre[t]
				if !had || !po.OK || !b.count {
					continue
				}
				got := map[string]bool{}
				if r, ok := po.Resp.(*hydrapb.PatchExpiredTreasuresResponse); ok {
					for _, e := range r.GetPatched() {
						got[e.GetKey()] = true
					}
				}
				if miss := missing(st.expired, got); len(miss) > 0 {
					b.violate("claim-path-lost-records", "patch-expired-probe", fmt.Sprintf("expired records %v of %s are no longer found by a well-formed PatchExpiredTreasures after the request (they were expired before it and nothing changed their expiry)", miss, t), gc, "")
				}
				sq := &hydrapb.ShiftExpiredTreasuresRequest{IslandID: safeIsland(t), SwampName: t, HowMany: 0}
				sb, _ := proto.Marshal(sq)
				so, sp := execute(b.cat["ShiftExpiredTreasures"], []proto.Message{sq}, [][]byte{sb}, idx, gc, "well-formed ShiftExpiredTreasures after the request")
				judge(b.cat["ShiftExpiredTreasures"], so, sp, gc, "well-formed ShiftExpiredTreasures after the request")
				if r, ok := so.Resp.(*hydrapb.ShiftExpiredTreasuresResponse); ok && so.OK {
					got := map[string]bool{}
					for _, e := range r.GetTreasures() {
						got[e.GetKey()] = true
					}
					if miss := missing(st.expired, got); len(miss) > 0 {
						b.violate("claim-path-lost-records", "shift-expired", fmt.Sprintf("expired records %v of %s are not handed out by ShiftExpiredTreasures(HowMany=0) after the request", miss, t), gc, "")
					}
				}
			}
			if len(gc.PatchT) > 0 {
				_ = seedTargets(&gw, w)
				settle()
				sent.Drain("panic")
			}
			fmt.Printf("C26RET %d %d claim-probe\n", b.ui, idx)
		}

		// what the request configured is now used: valid requests that exercise it. The process
		// may die here (a panic in an engine goroutine): the marker below attributes it.
		if fus := followUps(b.ri, gc, o, w, idx); len(fus) > 0 && !anyTimeout {
			fmt.Printf("C26REQ %d %s %d %s followed-by-%s;%s\n", b.ui, b.ri.Name, idx, gc.Style, fus[0].Name, short(strings.Join(gc.Labels, ";"), 300))
			for _, fu := range fus {
				if anyTimeout {
					break
				}
				if fu.Sleep > 0 {
					if bubble {
						time.Sleep(fu.Sleep)
						synctest.Wait()
					} else if fu.Name == "flush-wait" {
						time.Sleep(1200 * time.Millisecond) // lets the 1 s write tick happen; decides nothing
					}
					continue
				}
				fri, ok := b.cat[fu.RPC]
				if !ok {
					continue
				}
				wb, err := proto.Marshal(fu.Msg)
				if err != nil {
					continue
				}
				what := "valid follow-up " + fu.Name
				fo, fp := execute(fri, []proto.Message{fu.Msg}, [][]byte{wb}, idx, gc, what)
				if b.count {
					c.Count("follow_up_requests", 1)
					c.Seen("follow_up_kinds", fu.Name)
					c.Count("recovered_panics", int64(len(fp)))
				}
				judge(fri, fo, fp, gc, what)
				if fu.After != nil {
					if more := fu.After(fo); more != nil {
						wb2, _ := proto.Marshal(more.Msg)
						if mri, ok := b.cat[more.RPC]; ok {
							mo, mpn := execute(mri, []proto.Message{more.Msg}, [][]byte{wb2}, idx, gc, "valid follow-up "+more.Name)
							judge(mri, mo, mpn, gc, "valid follow-up "+more.Name)
							if b.count {
								c.Count("follow_up_requests", 1)
								c.Seen("follow_up_kinds", more.Name)
							}
						}
					}
				}
			}
			settle()
			fmt.Printf("C26RET %d %d follow-ups\n", b.ui, idx)
		}
	}

	// ---- after the batch --------------------------------------------------------------------
	for _, l := range heldLocks {
		// a lock's TTL watchdog may legitimately outlive the batch by years; a bubble cannot end
		// while it waits
		_, _ = gw.Unlock(ctxBG, &hydrapb.UnlockRequest{Key: l[0], LockID: l[1]})
	}
	settle()
	if wr != nil && anyTimeout {
		go wr.close()
	} else if wr != nil && !wr.close() {
		anyTimeout = true
		if b.count {
			c.Inconclusive("a grpc handler was still running 15 s (wall) after its client had gone: " + b.ri.Name)
		}
	}
	so := r.Zeus.GetSafeops()
	if !anyTimeout && so.SystemLocked() {
		b.outF = append(b.outF, finding{"syslock-leak", "locked-after-all-requests-returned", "safeops.SystemLocked() is still true after every request of the batch has returned: shutdown would wait forever"})
		for i := 0; i < 1000 && so.SystemLocked(); i++ {
			so.UnlockSystem() // let this engine stop anyway
		}
	}
	for _, p := range sent.Drain("panic") {
		b.outF = append(b.outF, finding{"background-panic", panicClass(p.Attrs), "a goroutine of the engine panicked after the request had returned: " + short(p.Attrs, 400)})
	}
	// a vigil that outlives its request keeps the swamp from ever being closed when idle and
	// makes every later Destroy of it wait forever
	if !anyTimeout {
		for _, nm := range r.Zeus.GetHydra().ListActiveSwamps() {
			if strings.Count(nm, "/") < 2 {
				continue
			}
			sctx, scancel := context.WithCancel(ctxBG)
			sw, err := r.Zeus.GetHydra().SummonSwamp(sctx, safeIsland(nm), name.Load(nm))
			scancel()
			if err == nil && sw != nil && sw.HasActiveVigils() {
				b.outF = append(b.outF, finding{"vigil-leak", "active-vigil-after-all-requests-returned", fmt.Sprintf("swamp %q still has an active vigil after every request of the batch has returned: it can never be closed when idle, and a Destroy of it never returns", short(nm, 80))})
				for i := 0; i < 100000 && sw.HasActiveVigils(); i++ {
					sw.CeaseVigil() // let this engine stop anyway
				}
			}
		}
	}
	if canary0 != "" {
		if now, err := snapshotCanary(&gw); err != nil {
			b.outF = append(b.outF, finding{"canary-changed", "unreadable", "canary swamp cannot be read after the batch: " + err.Error()})
		} else if now != canary0 {
			b.outF = append(b.outF, finding{"canary-changed", "live", "content of the canary swamp changed (" + canaryDiff(canary0, now) + ") although no request addressed it"})
		}
	}
	for _, e := range sent.Drain() {
		if b.count && (strings.Contains(e.Msg, "cannot write entry") || strings.Contains(e.Msg, "cannot encode treasure")) {
			c.Count("write_errors_logged", 1)
		}
	}

	// an idle period in virtual time: write tickers, idle eviction and TTL watchdogs run with
	// whatever settings the batch's requests left behind
	if bubble {
		time.Sleep(12 * time.Second)
		synctest.Wait()
		for _, p := range sent.Drain("panic") {
			b.outF = append(b.outF, finding{"background-panic", panicClass(p.Attrs), "a goroutine of the engine panicked while the server was idle after the batch: " + short(p.Attrs, 400)})
		}
	}

	// what a restart must bring back: the storable keys each persistent swamp holds right now
	memKeys := map[string]map[string]bool{}
	if !anyTimeout && !strings.Contains(b.ri.Name, "RegisterSwamp") {
		for _, t := range w.Targets {
			if ks, ok := swampKeys(&gw, t); ok {
				memKeys[t] = ks
			}
		}
	}

	// shutdown
	stop := func(rr *rig.Rig, cancel context.CancelFunc, what string) bool {
		cancel()
		rr.Zeus.GetSafeops().TriggerPanic()
		for i := 0; i < 900 && rr.Active() > 0; i++ { // force path: 10 s + close; give it 90 s
			time.Sleep(100 * time.Millisecond)
		}
		forced := false
		for _, e := range sent.Drain("error") {
			if strings.Contains(e.Msg, "can not close all swamps") {
				forced = true
			}
		}
		if n := rr.Active(); n > 0 {
			b.outF = append(b.outF, finding{"stop-stuck", what, fmt.Sprintf("%d swamp(s) still open 90 s after shutdown began, the force-close path did not end it either: %v", n, rr.Zeus.GetHydra().ListActiveSwamps())})
			return false
		}
		if forced {
			b.outF = append(b.outF, finding{"stop-forced", what, "graceful stop could not close every swamp within 10 s, only the force-close path ended the shutdown"})
		}
		return true
	}
	if !stop(r, shutCancel, "after-batch") {
		if bubble {
			// goroutines are parked for good; the bubble cannot end cleanly
			b.report(executed)
			fmt.Printf("C26HANGEXIT %d %d\n", b.ui, -1)
			c.Finish()
			os.Exit(3)
		}
		return
	}
	endBubble()
	sent.Drain()

	// reload by a fresh engine on the same root
	r2 := rig.New(rig.Options{Root: root})
	for _, e := range sent.Drain() {
		if isReloadAlarm(e.Msg) {
			b.outF = append(b.outF, finding{"reload-settings", normMsg(e.Msg + ":" + attrErr(e.Attrs)), "the restarted engine could not load what the batch left behind: " + e.Msg + " " + short(e.Attrs, 300)})
		}
	}
	gw2 := r2.GW
	dataDir := filepath.Join(root, "data")
	files := 0
	_ = filepath.WalkDir(dataDir, func(p string, d fs.DirEntry, err error) error {
		if err != nil || d.IsDir() || !strings.HasSuffix(p, ".hyd") {
			return nil
		}
		files++
		rd, err := v2.NewFileReader(p)
		var nm string
		if err == nil {
			_, nm, err = rd.LoadIndex()
			_ = rd.Close()
		}
		if err != nil {
			nmHint, _ := v2.ReadSwampName(p)
			b.outF = append(b.outF, finding{"reload-unloadable", normMsg(err.Error()), fmt.Sprintf("storage file of swamp %q can no longer be loaded: %v", short(nmHint, 80), err)})
			return nil
		}
		rel, _ := filepath.Rel(dataDir, p)
		island, perr := strconv.ParseUint(strings.Split(rel, string(filepath.Separator))[0], 10, 64)
		if perr != nil || strings.Count(nm, "/") != 2 {
			return nil
		}
		_, _ = gw2.GetAll(ctxBG, &hydrapb.GetAllRequest{IslandID: island, SwampName: nm})
		settle()
		for _, e := range sent.Drain() {
			if e.Class == "panic" {
				b.outF = append(b.outF, finding{"reload-panic", panicClass(e.Attrs), fmt.Sprintf("loading swamp %q after the restart panicked: %s", short(nm, 80), short(e.Attrs, 300))})
			} else if isReloadAlarm(e.Msg) {
				b.outF = append(b.outF, finding{"reload-decode", normMsg(e.Msg + ":" + attrErr(e.Attrs)), fmt.Sprintf("swamp %q did not load cleanly after the restart: %s %s", short(nm, 80), e.Msg, short(e.Attrs, 300))})
			}
		}
		return nil
	})
	if b.count {
		c.Count("storage_files_reloaded", int64(files))
		c.Count("batches", 1)
	}
	if canary0 != "" {
		if now, err := snapshotCanary(&gw2); err != nil {
			b.outF = append(b.outF, finding{"canary-changed", "unreadable-after-restart", "canary swamp cannot be read after the restart: " + err.Error()})
		} else if now != canary0 {
			b.outF = append(b.outF, finding{"canary-changed", "after-restart", "content of the canary swamp differs after the restart (" + canaryDiff(canary0, now) + ") although no request addressed it"})
		}
	}
	for t, want := range memKeys {
		got, ok := swampKeys(&gw2, t)
		if !ok {
			got = map[string]bool{}
		}
		var lost, extra []string
		for k := range want {
			if k != "" && len(k) <= 65535 && !got[k] {
				lost = append(lost, short(k, 40))
			}
		}
		for k := range got {
			if !want[k] {
				extra = append(extra, short(k, 40))
			}
		}
		sort.Strings(lost)
		sort.Strings(extra)
		if len(lost) > 0 {
			b.outF = append(b.outF, finding{"reload-keys", "lost", fmt.Sprintf("swamp %s held storable keys %v before shutdown that are gone after the restart", t, lost)})
		}
		if len(extra) > 0 {
			b.outF = append(b.outF, finding{"reload-keys", "resurrected", fmt.Sprintf("swamp %s holds keys %v after the restart that it did not hold before shutdown", t, extra)})
		}
	}
	if b.count {
		c.Count("swamps_key_set_compared_after_restart", int64(len(memKeys)))
	}
	if !stop(r2, func() {}, "after-reload") && bubble {
		b.report(executed)
		fmt.Printf("C26HANGEXIT %d %d\n", b.ui, -1)
		c.Finish()
		os.Exit(3)
	}
	endBubble()
}

func firstBytes(gc *genCase) []byte {
	h := uint64(14695981039346656037)
	for _, w := range gc.Wires {
		for _, x := range w {
			h = (h ^ uint64(x)) * 1099511628211
		}
	}
	return []byte(strconv.FormatUint(h, 16))
}

// report turns batch-level findings into violations (no bisect possible / wanted).
func (b *batchRun) report(executed []*genCase) {
	for _, f := range b.outF {
		var lbl []string
		for _, gc := range executed {
			lbl = append(lbl, fmt.Sprintf("%d:%s", gc.Idx, strings.Join(gc.Labels, ";")))
		}
		b.c.Violate(b.ri.Name+":"+f.kind+":"+f.class, f.what+fmt.Sprintf(" [%s batch %s from %d, %d requests]", b.u.Mode, b.u.RPC, b.u.From, len(executed)),
			witness{Unit: b.u, Idx: -1, Detail: short(strings.Join(lbl, "\n"), 3000)})
	}
	b.outF = nil
}

var theCat map[string]rpcInfo

// ---- patch / claim oracles -----------------------------------------------------------------

type claimState struct {
	expired map[string]bool   // keys whose expiry lies in the past
	body    map[string]string // key -> BytesVal
}

func readClaimState(gw *gateway.Gateway, t string) claimState {
	st := claimState{expired: map[string]bool{}, body: map[string]string{}}
	resp, err := gw.GetAll(ctxBG, &hydrapb.GetAllRequest{IslandID: safeIsland(t), SwampName: t})
	if err != nil || resp == nil {
		return st
	}
	now := time.Now()
	for _, tr := range resp.GetTreasures() {
		if tr.GetExpiredAt() != nil && tr.GetExpiredAt().AsTime().Before(now) {
			st.expired[tr.GetKey()] = true
		}
		st.body[tr.GetKey()] = string(tr.GetBytesVal())
	}
	return st
}

// swampKeys returns the key set of an existing swamp (false: it does not exist / cannot be read).
func swampKeys(gw *gateway.Gateway, t string) (map[string]bool, bool) {
	ex, err := gw.IsSwampExist(ctxBG, &hydrapb.IsSwampExistRequest{IslandID: safeIsland(t), SwampName: t})
	if err != nil || ex == nil || !ex.GetIsExist() {
		return nil, false
	}
	resp, err := gw.GetAll(ctxBG, &hydrapb.GetAllRequest{IslandID: safeIsland(t), SwampName: t})
	if err != nil || resp == nil {
		return nil, false
	}
	ks := map[string]bool{}
	for _, tr := range resp.GetTreasures() {
		ks[tr.GetKey()] = true
	}
	return ks, true
}

func missing(want, got map[string]bool) []string {
	var out []string
	for k := range want {
		if !got[k] {
			out = append(out, k)
		}
	}
	sort.Strings(out)
	return out
}

func hasSwampName(md protoreflect.MessageDescriptor) bool {
	var walk func(md protoreflect.MessageDescriptor, depth int) bool
	walk = func(md protoreflect.MessageDescriptor, depth int) bool {
		fds := md.Fields()
		for i := 0; i < fds.Len(); i++ {
			fd := fds.Get(i)
			if fd.Name() == "SwampName" {
				return true
			}
			if fd.Message() != nil && depth > 0 && walk(fd.Message(), depth-1) {
				return true
			}
		}
		return false
	}
	return walk(md, 2)
}

// patchOracle checks the reply of a patch-sweep request: one status per addressed / selected
// key, and a refused patch leaves the stored body as it was. Returns (kind, class, what).
func patchOracle(gc *genCase, o outcome, pre map[string]claimState, gw *gateway.Gateway) (out [][3]string) {
	refusedUnchanged := func(t, key string, status hydrapb.PatchResult_StatusCode, post claimState) {
		if status == hydrapb.PatchResult_PATCHED || status == hydrapb.PatchResult_CREATED {
			return
		}
		if before, ok := pre[t].body[key]; ok && post.body[key] != before {
			out = append(out, [3]string{"refused-patch-changed-record", status.String(), fmt.Sprintf("record %s/%s was answered %s but its stored body changed", t, key, status)})
		}
	}
	perKey := func(t string, req *hydrapb.PatchTreasuresRequest, res []*hydrapb.PatchResult) {
		post := readClaimState(gw, t)
		if len(res) != len(req.GetPatches()) {
			out = append(out, [3]string{"patch-status", "results-count", fmt.Sprintf("%d patches sent to %s, %d results returned", len(req.GetPatches()), t, len(res))})
			return
		}
		for i, r := range res {
			if r.GetKey() != req.GetPatches()[i].GetKey() {
				out = append(out, [3]string{"patch-status", "result-key", fmt.Sprintf("result %d is for key %q, patch %d addressed %q", i, r.GetKey(), i, req.GetPatches()[i].GetKey())})
			}
			refusedUnchanged(t, r.GetKey(), r.GetStatus(), post)
		}
	}
	expired := func(t string, res []*hydrapb.PatchedExpiredTreasure) {
		post := readClaimState(gw, t)
		seen := map[string]bool{}
		for _, r := range res {
			if seen[r.GetKey()] {
				out = append(out, [3]string{"patch-status", "duplicate-key", fmt.Sprintf("key %q of %s has more than one status", r.GetKey(), t)})
			}
			seen[r.GetKey()] = true
			refusedUnchanged(t, r.GetKey(), r.GetStatus(), post)
		}
		if miss := missing(pre[t].expired, seen); len(miss) > 0 {
			out = append(out, [3]string{"patch-status", "selected-key-without-status", fmt.Sprintf("HowMany=0 selects every expired record of %s, but %v got no status", t, miss)})
		}
	}
	if len(gc.Msgs) == 0 || o.Resp == nil {
		return
	}
	switch q := gc.Msgs[0].(type) {
	case *hydrapb.PatchTreasuresRequest:
		if r, ok := o.Resp.(*hydrapb.PatchTreasuresResponse); ok {
			perKey(q.GetSwampName(), q, r.GetResults())
		}
	case *hydrapb.PatchTreasuresManyRequest:
		if r, ok := o.Resp.(*hydrapb.PatchTreasuresManyResponse); ok {
			if len(r.GetResponses()) != len(q.GetRequests()) {
				out = append(out, [3]string{"patch-status", "responses-count", fmt.Sprintf("%d requests, %d responses", len(q.GetRequests()), len(r.GetResponses()))})
				return
			}
			for i, e := range r.GetResponses() {
				if e.Error == nil {
					perKey(q.GetRequests()[i].GetSwampName(), q.GetRequests()[i], e.GetResults())
				}
			}
		}
	case *hydrapb.PatchExpiredTreasuresRequest:
		if r, ok := o.Resp.(*hydrapb.PatchExpiredTreasuresResponse); ok {
			expired(q.GetSwampName(), r.GetPatched())
		}
	case *hydrapb.PatchExpiredTreasuresManyRequest:
		if r, ok := o.Resp.(*hydrapb.PatchExpiredTreasuresManyResponse); ok {
			if len(r.GetResponses()) != len(q.GetRequests()) {
				out = append(out, [3]string{"patch-status", "responses-count", fmt.Sprintf("%d requests, %d responses", len(q.GetRequests()), len(r.GetResponses()))})
				return
			}
			for i, e := range r.GetResponses() {
				if e.Error == nil {
					expired(q.GetRequests()[i].GetSwampName(), e.GetPatched())
				}
			}
		}
	}
	return
}

// ---- wedge watchdog ------------------------------------------------------------------------
//
// A goroutine that waits for a sync.Mutex is not durably blocked for synctest: a bubble whose
// request dead-locks on a mutex never reaches quiescence and synctest.Wait never returns. This
// watchdog lives outside the bubbles. Wall time only triggers it; what it decides on is the
// goroutine dump: the request's goroutine is parked in Mutex.Lock and no goroutine of the
// bubble is running or runnable, in two dumps taken seconds apart - nobody can ever unlock.

var phase struct {
	sync.Mutex
	seq    int64
	active bool
	bubble bool
	b      *batchRun
	rpc    string
	idx    int
	gc     *genCase
	what   string
}

func phaseBegin(b *batchRun, rpc string, idx int, gc *genCase, what string, bubble bool) {
	phase.Lock()
	phase.seq++
	phase.active, phase.bubble, phase.b, phase.rpc, phase.idx, phase.gc, phase.what = true, bubble, b, rpc, idx, gc, what
	phase.Unlock()
}

func phaseEnd() {
	phase.Lock()
	phase.seq++
	phase.active = false
	phase.Unlock()
}

var reGoHeader = regexp.MustCompile(`^goroutine (\d+) \[([^\],]+)([^\]]*)\]:`)

// mutexWedge looks for the request goroutine parked on a mutex with nothing able to run.
func mutexWedge(dump string) (gid, frame, block string, ok bool) {
	for _, blk := range strings.Split(dump, "\n\n") {
		m := reGoHeader.FindStringSubmatch(blk)
		if m == nil || !strings.Contains(m[3], "synctest bubble") {
			continue
		}
		switch m[2] {
		case "running", "runnable", "syscall":
			return "", "", "", false // somebody can still make progress
		}
		if strings.Contains(blk, "c26HandlerTrampoline") && (strings.HasPrefix(m[2], "sync.Mutex") || strings.HasPrefix(m[2], "sync.RWMutex")) {
			gid, frame, block = m[1], topFrame(blk), blk
		}
	}
	return gid, frame, block, gid != ""
}

func dumpAll() string {
	buf := make([]byte, 16<<20)
	return string(buf[:runtime.Stack(buf, true)])
}

func wedgeWatch(c *rig.Check) {
	var lastSeq int64 = -1
	var since time.Time
	for {
		time.Sleep(2 * time.Second)
		phase.Lock()
		seq, active, bubble := phase.seq, phase.active, phase.bubble
		phase.Unlock()
		if !active || !bubble {
			lastSeq = -1
			continue
		}
		if seq != lastSeq {
			lastSeq, since = seq, time.Now()
			continue
		}
		if time.Since(since) < 10*time.Second {
			continue
		}
		g1, f1, _, ok1 := mutexWedge(dumpAll())
		time.Sleep(3 * time.Second)
		g2, _, blk, ok2 := mutexWedge(dumpAll())
		phase.Lock()
		same := phase.seq == seq && phase.active
		b, rpc, idx, gc, what := phase.b, phase.rpc, phase.idx, phase.gc, phase.what
		phase.Unlock()
		if !same || !ok1 || !ok2 || g1 != g2 {
			since = time.Now() // busy, not wedged: look again later
			continue
		}
		kind, class := "hang", "mutex@"+f1
		if strings.Contains(rpc, "Expired") || strings.Contains(rpc, "Shift") {
			kind = "claim-path-wedged"
		} else if what != "the request" {
			kind, class = "follow-up-wedged", rpc+"@mutex@"+f1
		}
		b.violate(kind, class, what+" ("+rpc+") is parked in a mutex Lock while no goroutine of the engine can run: whoever took the mutex left without unlocking it, the request can never return", gc, blk)
		fmt.Printf("C26HANGEXIT %d %d\n", b.ui, idx)
		c.Finish()
		os.Exit(3)
	}
}

// ---- child ---------------------------------------------------------------------------------

func runUnit(c *rig.Check, t *testing.T, ri rpcInfo, u unit, ui int, skip map[string]bool, upTo int) {
	base := 0
	if u.Mode == "grpc" {
		base = grpcIdxBase
	}
	var idxs []int
	for i := 0; i < u.N; i++ {
		idx := base + u.From + i
		idxs = append(idxs, idx)
		if upTo >= 0 && idx == upTo {
			break
		}
	}
	b := &batchRun{c: c, t: t, ri: ri, u: u, ui: ui, idxs: idxs, skip: skip, count: true, cat: theCat}
	b.run()
	if len(b.outF) == 0 {
		return
	}
	// something is wrong after the batch: find a single request that does it (binary search,
	// every probe on a fresh engine)
	open := map[string]finding{}
	for _, f := range b.outF {
		open[f.key()] = f
	}
	var live []int
	for _, idx := range idxs {
		if !skip[caseKey(u.Mode, ri.Name, idx)] {
			live = append(live, idx)
		}
	}
	probe := func(sub []int) *batchRun {
		s := &batchRun{c: c, t: t, ri: ri, u: u, ui: ui, idxs: sub, skip: skip, count: false, cat: theCat}
		s.run()
		c.Count("bisect_reruns", 1)
		return s
	}
	var bisect func(sub []int, want map[string]finding)
	bisect = func(sub []int, want map[string]finding) {
		if len(want) == 0 || len(sub) == 0 {
			return
		}
		if len(sub) == 1 {
			s := b
			if len(live) > 1 {
				s = probe(sub)
			}
			gc := s.culled[strconv.Itoa(sub[0])]
			for _, f := range s.outF {
				if _, ok := want[f.key()]; ok {
					delete(want, f.key())
					delete(open, f.key())
					s.violate(f.kind, f.class, f.what+" — this request alone does it on a fresh engine", gc, "")
				}
			}
			return
		}
		left, right := sub[:len(sub)/2], sub[len(sub)/2:]
		s := probe(left)
		inLeft := map[string]finding{}
		for _, f := range s.outF {
			if _, ok := want[f.key()]; ok {
				inLeft[f.key()] = f
			}
		}
		rest := map[string]finding{}
		for k, f := range want {
			if _, ok := inLeft[k]; !ok {
				rest[k] = f
			}
		}
		bisect(left, inLeft)
		bisect(right, rest)
	}
	bisect(live, open)
	var rest []finding
	for _, f := range b.outF {
		if _, ok := open[f.key()]; ok {
			rest = append(rest, f)
			delete(open, f.key())
		}
	}
	b.outF = rest
	var ex []*genCase
	for _, gc := range b.culled {
		ex = append(ex, gc)
	}
	sort.Slice(ex, func(i, j int) bool { return ex[i].Idx < ex[j].Idx })
	b.report(ex)
}

func runChild(c *rig.Check, t *testing.T, cat map[string]rpcInfo) {
	var spec childSpec
	c.ChildSpec(&spec)
	// a request that makes the server allocate without bound must kill this child, not the host
	lim := uint64(12 << 30)
	_ = syscall.Setrlimit(syscall.RLIMIT_AS, &syscall.Rlimit{Cur: lim, Max: lim})
	go wedgeWatch(c)
	skip := map[string]bool{}
	for _, s := range spec.Skip {
		skip[s] = true
	}
	for ui, u := range spec.Units {
		ri, ok := cat[u.RPC]
		if !ok {
			c.Inconclusive("unknown rpc in spec: " + u.RPC)
			continue
		}
		fmt.Printf("C26UNIT %d %s %s %d %d\n", ui, u.Mode, u.RPC, u.From, u.N)
		runUnit(c, t, ri, u, ui, skip, -1)
		fmt.Printf("C26UNITDONE %d\n", ui)
	}
	fmt.Println("C26ALLDONE")
}

// ---- parent --------------------------------------------------------------------------------

var (
	reReq  = regexp.MustCompile(`^C26REQ (\d+) (\S+) (\d+) (\S+) ?(.*)$`)
	reRet  = regexp.MustCompile(`^C26RET (\d+) (\d+)`)
	reDone = regexp.MustCompile(`^C26UNITDONE (\d+)`)
	reHang = regexp.MustCompile(`^C26HANGEXIT (\d+) (-?\d+)`)
)

type childLog struct {
	allDone  bool
	unitDone map[int]bool
	lastUnit int
	inflight *[4]string // unit, rpc, idx, labels of the request that had not returned
	hangUnit int
	hangIdx  int
	hang     bool
	fatal    string // first fatal line
	frame    string // first hydraide frame after it
	tail     string
}

func parseChildLog(path string) childLog {
	cl := childLog{unitDone: map[int]bool{}, lastUnit: -1}
	b, err := os.ReadFile(path)
	if err != nil {
		return cl
	}
	s := string(b)
	if len(s) > 6000 {
		cl.tail = s[len(s)-6000:]
	} else {
		cl.tail = s
	}
	fatalAt := -1
	lines := strings.Split(s, "\n")
	for i, ln := range lines {
		switch {
		case strings.HasPrefix(ln, "C26ALLDONE"):
			cl.allDone = true
		case strings.HasPrefix(ln, "C26UNIT "):
			var ui int
			fmt.Sscanf(ln, "C26UNIT %d", &ui)
			cl.lastUnit = ui
		case reDone.MatchString(ln):
			ui, _ := strconv.Atoi(reDone.FindStringSubmatch(ln)[1])
			cl.unitDone[ui] = true
		case reReq.MatchString(ln):
			m := reReq.FindStringSubmatch(ln)
			cl.inflight = &[4]string{m[1], m[2], m[3], m[4] + " " + m[5]}
		case reRet.MatchString(ln):
			cl.inflight = nil
		case reHang.MatchString(ln):
			m := reHang.FindStringSubmatch(ln)
			cl.hang = true
			cl.hangUnit, _ = strconv.Atoi(m[1])
			cl.hangIdx, _ = strconv.Atoi(m[2])
		case fatalAt < 0 && (strings.HasPrefix(ln, "panic: ") || strings.HasPrefix(ln, "fatal error: ") || strings.HasPrefix(ln, "runtime: out of memory")):
			if strings.Contains(ln, "test timed out") {
				continue
			}
			fatalAt = i
			cl.fatal = ln
		}
	}
	if fatalAt >= 0 {
		rest := strings.Join(lines[fatalAt:], "\n")
		if len(rest) > 200000 {
			rest = rest[:200000]
		}
		cl.frame = topFrame(rest)
		if len(rest) > 5000 {
			rest = rest[:5000]
		}
		cl.tail = rest
	}
	return cl
}

func TestCheck(t *testing.T) {
	c := rig.NewCheck(t, "C26", "exploration")
	defer c.Finish()
	list, err := catalogue()
	if err != nil {
		t.Fatal(err)
	}
	cat := map[string]rpcInfo{}
	for _, ri := range list {
		cat[ri.Name] = ri
	}
	theCat = cat
	sweepPerMode, sweepGrpcOffset = c.N(6, 150), c.N(6, 0)
	patchSweepPerMode, patchSweepGrpcOffset = c.N(6, 168), c.N(6, 0)
	if c.IsChild() {
		runChild(c, t, cat)
		return
	}
	c.Rule = "per RPC of HydraideService_ServiceDesc: a valid request that reaches the engine, damaged in 1-3 fields (boundary / malformed value of that field's kind: swamp names with 0,1,2,4 parts and empty parts, empty/absent/duplicated/huge lists, absent and empty sub-messages, out-of-range enums, min/max/negative numbers, NaN/Inf, 65 535..70 000-byte keys, invalid and hostile msgpack, out-of-range timestamps), or a request filled field by field from the same pools, or no request message at all on a client stream; the first cases of every unit are a deterministic sweep (each numeric/enum field of the valid request x the boundary values of its kind, most extreme first); every accepted RegisterSwamp/DeRegisterSwamp is followed by valid Set/Get/idle/Set/Get/Delete/Count on a swamp its pattern covers, every granted Lock by Heartbeat/Unlock/Lock-again/Unlock, every subscription by data changes before and after the hang-up, the four patch RPCs then sweep (stored array x index relative to its length: 0, len-1, len, len+1, -1, -len, -len-1, -len-5, huge, MinInt64 x path in an op | in a condition) against expired records, checked for one status per addressed/selected key and unchanged bodies of refused patches; every request that names a swamp is followed by a well-formed PatchExpiredTreasures on the target swamps (after a patch sweep also ShiftExpiredTreasures, which must still hand out every record that was expired); a request parked on a mutex with no runnable goroutine in the bubble is reported from a goroutine dump; every batch by 12 virtual idle seconds, shutdown and reload, all under the same oracles (a death of the process is attributed to the sequence); half run through the generated grpc handlers in a synctest bubble, half over grpc/bufconn; non-trivial = not the undamaged valid request; distinct = distinct (mode, RPC, request bytes)"
	c.Assumptions = []string{
		"a request is what the server can receive: every generated message is marshalled and unmarshalled first (nil list elements, invalid UTF-8 and other states that cannot cross the wire are not generated)",
		"a recovered handler panic is a violation only when the client is told OK (the recover path returns nil, nil, which grpc delivers as an empty successful reply); recovered panics that surface as an error status are counted, not reported",
		"a nil reply with a nil error and without a panic is accepted for reply types that have no fields (the reply is then exactly the documented empty message)",
		"any gRPC error status is a clean failure; reply contents of successful calls are not compared with a model (C06 does that)",
		"a server stream that ends only when the client hangs up is accepted (subscriptions); a unary request must return by itself within 60 virtual seconds",
		"Lock keys are made unique per request: waiting for another request's business lock is not a hang (C14 covers contention)",
		"an acknowledged write whose record the storage layer later refuses is not reported here (C01/C16); only: the file must load again, the canary swamp must be unchanged, shutdown must not need the force-close path",
		"not driven: the server's unary interceptor (telemetry extraction, shutdown rejection), TLS, V1 engine, requests larger than 3 MB",
	}
	perMode := c.N(20, 750)
	batch := c.N(20, 50)
	var units []unit
	only := map[string]bool{}
	for _, n := range strings.Split(os.Getenv("C26_RPCS"), ",") { // debugging aid: restrict the run
		if n != "" {
			only[n] = true
		}
	}
	for _, ri := range list {
		if len(only) > 0 && !only[ri.Name] {
			continue
		}
		for _, mode := range []string{"bubble", "grpc"} {
			for from := 0; from < perMode; from += batch {
				n := batch
				if from+n > perMode {
					n = perMode - from
				}
				units = append(units, unit{Mode: mode, RPC: ri.Name, From: from, N: n})
			}
		}
	}
	c.Extra("rpcs_in_service_desc", len(list))
	c.Extra("cases_per_rpc", 2*perMode)
	c.MinNontrivial = len(list) * perMode
	if len(only) > 0 {
		c.MinNontrivial = len(only) * perMode / 2
	}

	if p := c.ReplayPath(); p != "" {
		// re-run the witness' unit up to and including its case, in a child like the original
		var w struct {
			Witness witness `json:"witness"`
		}
		rig.ReadJSON(p, &w)
		u := w.Witness.Unit
		if _, ok := cat[u.RPC]; !ok {
			t.Fatalf("replay: unknown rpc %q", u.RPC)
		}
		if w.Witness.Idx >= 0 {
			base := 0
			if u.Mode == "grpc" {
				base = grpcIdxBase
			}
			if n := w.Witness.Idx - base - u.From + 1; n > 0 && n < u.N {
				u.N = n
			}
		}
		units = []unit{u}
		c.MinNontrivial = 0
	}

	nChildren := c.N(32, 128)
	if nChildren > len(units) {
		nChildren = len(units)
	}
	specs := make([]childSpec, nChildren)
	for i, u := range units {
		k := i % nChildren
		specs[k].Units = append(specs[k].Units, u)
	}
	pending := specs
	deaths := map[string]int{}
	timeout := time.Duration(c.N(6, 25)) * time.Minute
	for round := 0; len(pending) > 0; round++ {
		if round >= 12 {
			c.Inconclusive(fmt.Sprintf("%d child specs still unfinished after 12 rounds", len(pending)))
			break
		}
		var as []any
		for i := range pending {
			pending[i].Round = round
			as = append(as, pending[i])
		}
		t0 := time.Now()
		res := c.Fanout(as, rig.FanoutOpts{Par: 16, Timeout: timeout})
		fmt.Printf("round %d: %d children, %.1fs\n", round, len(as), time.Since(t0).Seconds())
		var next []childSpec
		for i, cr := range res {
			spec := pending[i]
			if cr.ExitErr == nil && !cr.NoPartial && !cr.TimedOut {
				continue // finished normally (its log is already gone)
			}
			cl := parseChildLog(cr.LogPath)
			if cl.allDone && !cr.NoPartial && !cr.TimedOut {
				continue
			}
			c.Count("children_respawned", 1)
			remainder := func(fromUnit int, afterIdx int) childSpec {
				ns := childSpec{Skip: spec.Skip}
				for ui, u := range spec.Units {
					switch {
					case ui < fromUnit || cl.unitDone[ui]:
					case ui == fromUnit && afterIdx >= 0:
						base := 0
						if u.Mode == "grpc" {
							base = grpcIdxBase
						}
						done := afterIdx - base - u.From + 1
						if done < u.N {
							ns.Units = append(ns.Units, unit{Mode: u.Mode, RPC: u.RPC, From: u.From + done, N: u.N - done})
						}
					default:
						ns.Units = append(ns.Units, u)
					}
				}
				return ns
			}
			switch {
			case cl.hang && !cr.NoPartial:
				// the child reported a hang / stuck shutdown and left on purpose
				ns := remainder(cl.hangUnit, cl.hangIdx)
				if cl.hangIdx < 0 { // batch-level: that unit is finished
					ns = remainder(cl.hangUnit+1, -1)
				}
				if cl.hangUnit < len(spec.Units) {
					hu := spec.Units[cl.hangUnit]
					deaths[hu.Mode+"/"+hu.RPC]++
					if deaths[hu.Mode+"/"+hu.RPC] >= 4 {
						var keep []unit
						for _, x := range ns.Units {
							if x.Mode == hu.Mode && x.RPC == hu.RPC {
								c.Count("cases_not_run_after_4_process_deaths_in_their_unit", int64(x.N))
							} else {
								keep = append(keep, x)
							}
						}
						ns.Units = keep
					}
				}
				if len(ns.Units) > 0 {
					next = append(next, ns)
				}
			case cr.TimedOut:
				where := "between requests"
				ns := spec
				if cl.inflight != nil {
					where = fmt.Sprintf("in %s case %s (%s)", cl.inflight[1], cl.inflight[2], cl.inflight[3])
					ui, _ := strconv.Atoi(cl.inflight[0])
					idx, _ := strconv.Atoi(cl.inflight[2])
					ns.Skip = append(append([]string{}, spec.Skip...), caseKey(spec.Units[ui].Mode, cl.inflight[1], idx))
				} else if cl.lastUnit >= 0 {
					ns = remainder(cl.lastUnit+1, -1)
				}
				c.Inconclusive("child watchdog fired " + where + "; log " + cr.LogPath)
				if len(ns.Units) > 0 && (cl.inflight != nil || cl.lastUnit >= 0) {
					next = append(next, ns)
				}
			default:
				// the process died
				fatal := cl.fatal
				if fatal == "" {
					fatal = fmt.Sprintf("exit: %v", cr.ExitErr)
					if len(cr.Fatal) > 0 {
						fatal = cr.Fatal[0]
					}
				}
				class := normMsg(strings.TrimPrefix(strings.TrimPrefix(fatal, "panic: "), "fatal error: ")) + "@" + cl.frame
				if cl.inflight != nil {
					ui, _ := strconv.Atoi(cl.inflight[0])
					idx, _ := strconv.Atoi(cl.inflight[2])
					u := spec.Units[ui]
					c.Violate(cl.inflight[1]+":crash:"+class,
						fmt.Sprintf("the process died while this request was in flight: %s [%s case %d, %s]", short(fatal, 200), u.Mode, idx, short(cl.inflight[3], 300)),
						witness{Unit: u, Idx: idx, Labels: []string{cl.inflight[3]}, Detail: cl.tail})
					ns := spec
					if !cr.NoPartial { // counts up to the crash are already merged: continue behind it
						ns = remainder(ui, idx)
					}
					skipNow := append(append([]string{}, spec.Skip...), caseKey(u.Mode, cl.inflight[1], idx))
					// the unit that kills processes continues alone (bounded), the rest separately
					ukey := u.Mode + "/" + u.RPC
					deaths[ukey]++
					var own, others childSpec
					own.Skip, others.Skip = skipNow, skipNow
					for _, x := range ns.Units {
						if x.Mode == u.Mode && x.RPC == u.RPC {
							own.Units = append(own.Units, x)
						} else {
							others.Units = append(others.Units, x)
						}
					}
					if deaths[ukey] >= 4 {
						for _, x := range own.Units {
							c.Count("cases_not_run_after_4_process_deaths_in_their_unit", int64(x.N))
						}
						own.Units = nil
					}
					if len(own.Units) > 0 {
						next = append(next, own)
					}
					if len(others.Units) > 0 {
						next = append(next, others)
					}
				} else if cl.lastUnit >= 0 && cl.lastUnit < len(spec.Units) {
					u := spec.Units[cl.lastUnit]
					c.Violate(u.RPC+":crash-after-requests:"+class,
						fmt.Sprintf("the process died after the requests of a batch had returned (post-batch checks, shutdown or reload): %s [%s batch from %d]", short(fatal, 200), u.Mode, u.From),
						witness{Unit: u, Idx: -1, Detail: cl.tail})
					if ns := remainder(cl.lastUnit+1, -1); len(ns.Units) > 0 {
						next = append(next, ns)
					}
				} else {
					c.Inconclusive("child died before its first unit: " + short(fatal, 200) + "; log " + cr.LogPath)
				}
			}
		}
		pending = next
	}
}
