package c26

import (
	"fmt"
	"math"
	"math/rand/v2"
	"strings"
	"time"

	"github.com/cespare/xxhash/v2"
	hydrapb "github.com/hydraide/hydraide/sdk/go/hydraidego/v3/hydraidepbgo"
	"github.com/vmihailenco/msgpack/v5"
	"google.golang.org/protobuf/proto"
	"google.golang.org/protobuf/reflect/protoreflect"
	"google.golang.org/protobuf/types/known/timestamppb"
)

// ---- the world a batch runs against --------------------------------------------------------

const (
	canarySwamp = "canary/main/data"
	nTargets    = 4
)

type world struct {
	Now     time.Time
	Targets []string          // persisted swamps with data of every kind
	Mem     string            // in-memory swamp
	Locks   map[string]string // business locks taken while seeding: key -> lock id
	Events  []string          // ids of recorded telemetry events
	uniq    int
}

func newWorld(now time.Time) *world {
	w := &world{Now: now, Mem: "c26/mem/m0", Locks: map[string]string{}}
	for i := 0; i < nTargets; i++ {
		w.Targets = append(w.Targets, fmt.Sprintf("c26/main/t%d", i)) // buffered writes (1 s interval)
	}
	w.Targets = append(w.Targets, "c26/imm/t0", "c26/imm/t1") // immediate write mode (interval 0)
	return w
}

func (w *world) next() int { w.uniq++; return w.uniq }

// safeIsland is the SDK's island computation (1000 islands) without name.Load, which cannot
// take short names.
func safeIsland(swamp string) uint64 {
	p := strings.Split(swamp, "/")
	if len(p) < 3 {
		return 1
	}
	return xxhash.Sum64([]byte(p[0]+p[1]+p[2]))%1000 + 1
}

func mp(v any) []byte {
	b, err := msgpack.Marshal(v)
	if err != nil {
		panic(err)
	}
	return b
}

func doc(n int) []byte {
	body := mp(map[string]any{
		"n": n, "s": "word one two", "arr": []int{1, 2, 3}, "tags": []string{"a", "b"},
		"m": map[string]any{"a": 1, "b": "x"}, "lat": 47.5, "lng": 19.04, "vec": []float32{0.1, 0.2, 0.3},
		"items": []map[string]any{{"q": 1, "name": "x"}, {"q": 5, "name": "y"}},
		"grid":  [][]int{{1, 2}, {3, 4}},
	})
	return append([]byte{0xC7, 0x00}, body...)
}

func ptr[T any](v T) *T { return &v }

// seedKVs is the content of every target swamp: one key per value type, three expired records,
// three msgpack documents.
func seedKVs(now time.Time) []*hydrapb.KeyValuePair {
	past := timestamppb.New(now.Add(-time.Hour))
	created := timestamppb.New(now.Add(-2 * time.Hour))
	kv := []*hydrapb.KeyValuePair{
		{Key: "i8", Int8Val: ptr(int32(5))}, {Key: "i16", Int16Val: ptr(int32(500))}, {Key: "i32", Int32Val: ptr(int32(5))},
		{Key: "i64", Int64Val: ptr(int64(5))}, {Key: "u8", Uint8Val: ptr(uint32(5))}, {Key: "u16", Uint16Val: ptr(uint32(5))},
		{Key: "u32", Uint32Val: ptr(uint32(5))}, {Key: "u64", Uint64Val: ptr(uint64(5))},
		{Key: "f32", Float32Val: ptr(float32(1.5))}, {Key: "f64", Float64Val: ptr(2.5)},
		{Key: "str", StringVal: ptr("hello"), CreatedAt: created, CreatedBy: ptr("seed"), UpdatedAt: created, UpdatedBy: ptr("seed")},
		{Key: "bool", BoolVal: hydrapb.Boolean_TRUE.Enum()}, {Key: "bytes", BytesVal: []byte{1, 2, 3}},
		{Key: "slice", Uint32Slice: []uint32{1, 2, 3}}, {Key: "void", VoidVal: ptr(true)},
	}
	for i := 1; i <= 3; i++ {
		kv = append(kv, &hydrapb.KeyValuePair{Key: fmt.Sprintf("exp%d", i), Int32Val: ptr(int32(i)), ExpiredAt: past, CreatedAt: created, UpdatedAt: created})
		d := &hydrapb.KeyValuePair{Key: fmt.Sprintf("doc%d", i), BytesVal: doc(i), CreatedAt: created, UpdatedAt: created}
		if i == 3 {
			d.ExpiredAt = past
		}
		kv = append(kv, d)
		kv = append(kv, &hydrapb.KeyValuePair{Key: fmt.Sprintf("xdoc%d", i), BytesVal: doc(10 + i), ExpiredAt: past, CreatedAt: created, UpdatedAt: created})
	}
	return kv
}

// docArrays are the arrays stored in every msgpack document of the world, with their lengths:
// index paths are generated relative to them.
var docArrays = []struct {
	path, suffix string
	n            int
}{{"tags", "", 2}, {"arr", "", 3}, {"grid", "", 2}, {"grid[0]", "", 2}, {"items", ".q", 2}, {"grid", "[1]", 2}, {"vec", "", 3}}

type idxRel struct {
	class string
	at    func(n int) string
}

// most hostile first
var idxRels = []idxRel{
	{"minus-len-minus-5", func(n int) string { return fmt.Sprint(-n - 5) }},
	{"minus-len-minus-1", func(n int) string { return fmt.Sprint(-n - 1) }},
	{"min-int64", func(int) string { return "-9223372036854775808" }},
	{"huge", func(int) string { return "99999999999999999999" }},
	{"len-plus-1", func(n int) string { return fmt.Sprint(n + 1) }},
	{"len", func(n int) string { return fmt.Sprint(n) }},
	{"minus-len", func(n int) string { return fmt.Sprint(-n) }},
	{"minus-1", func(int) string { return "-1" }},
	{"len-minus-1", func(n int) string { return fmt.Sprint(n - 1) }},
	{"zero", func(int) string { return "0" }},
	{"max-int64", func(int) string { return "9223372036854775807" }},
	{"minus-zero", func(int) string { return "-0" }},
}

func indexPath(a, r int) (string, string) {
	da, ir := docArrays[a%len(docArrays)], idxRels[r%len(idxRels)]
	return da.path + "[" + ir.at(da.n) + "]" + da.suffix, "index:" + da.path + da.suffix + ":" + ir.class
}

var existingKeys = []string{"xdoc1", "xdoc2", "xdoc3", "i8", "i16", "i32", "i64", "u8", "u16", "u32", "u64", "f32", "f64", "str", "bool", "bytes", "slice", "void", "exp1", "exp2", "exp3", "doc1", "doc2", "doc3"}

// ---- hostile pools -------------------------------------------------------------------------

type strChoice struct {
	class string
	gen   func(w *world, r *rand.Rand) string
}

func long(n int, ch string) string { return strings.Repeat(ch, n) }

var namePool = []strChoice{
	{"existing", func(w *world, r *rand.Rand) string { return w.Targets[r.IntN(len(w.Targets))] }},
	{"existing", func(w *world, r *rand.Rand) string { return w.Targets[r.IntN(len(w.Targets))] }},
	{"in-memory", func(w *world, r *rand.Rand) string { return w.Mem }},
	{"missing", func(w *world, r *rand.Rand) string { return fmt.Sprintf("c26/main/nope%d", r.IntN(4)) }},
	{"empty", func(*world, *rand.Rand) string { return "" }},
	{"one-part", func(*world, *rand.Rand) string { return "solo" }},
	{"two-part", func(*world, *rand.Rand) string { return "c26/main" }},
	{"four-part", func(w *world, r *rand.Rand) string { return w.Targets[r.IntN(len(w.Targets))] + "/extra" }},
	{"empty-middle-part", func(*world, *rand.Rand) string { return "c26//t0" }},
	{"all-parts-empty", func(*world, *rand.Rand) string { return "//" }},
	{"slash-only", func(*world, *rand.Rand) string { return "/" }},
	{"trailing-slash", func(*world, *rand.Rand) string { return "c26/main/" }},
	{"leading-slash", func(*world, *rand.Rand) string { return "/main/t0" }},
	{"wildcard-swamp", func(*world, *rand.Rand) string { return "c26/main/*" }},
	{"wildcard-all", func(*world, *rand.Rand) string { return "*/*/*" }},
	{"wildcard-realm", func(*world, *rand.Rand) string { return "c26/*/*" }},
	{"long-part-300", func(*world, *rand.Rand) string { return "c26/main/" + long(300, "x") }},
	{"long-part-70000", func(*world, *rand.Rand) string { return "c26/main/" + long(70000, "y") }},
	{"unicode", func(*world, *rand.Rand) string { return "c26/main/ünï-码-🙂" }},
	{"dotdot", func(*world, *rand.Rand) string { return "../../etc" }},
	{"nul-byte", func(*world, *rand.Rand) string { return "c26/main/a\x00b" }},
	{"spaces", func(*world, *rand.Rand) string { return " c26 / main / t0 " }},
}

var keyPool = []strChoice{
	{"existing", func(w *world, r *rand.Rand) string { return existingKeys[r.IntN(len(existingKeys))] }},
	{"existing", func(w *world, r *rand.Rand) string { return existingKeys[r.IntN(len(existingKeys))] }},
	{"missing", func(w *world, r *rand.Rand) string { return fmt.Sprintf("nokey%d", r.IntN(5)) }},
	{"empty", func(*world, *rand.Rand) string { return "" }},
	{"len-65535", func(*world, *rand.Rand) string { return long(65535, "k") }},
	{"len-65536", func(*world, *rand.Rand) string { return long(65536, "k") }},
	{"len-70000", func(*world, *rand.Rand) string { return long(70000, "k") }},
	{"unicode", func(*world, *rand.Rand) string { return "kulcs-ключ-🔑" }},
	{"slashes", func(*world, *rand.Rand) string { return "a/b/c" }},
	{"wildcard", func(*world, *rand.Rand) string { return "*" }},
	{"wildcard-path", func(*world, *rand.Rand) string { return "a/*/*" }},
	{"nul-byte", func(*world, *rand.Rand) string { return "a\x00b" }},
	{"newline", func(*world, *rand.Rand) string { return "a\nb" }},
}

var pathPool = []strChoice{
	{"valid", func(*world, *rand.Rand) string { return "n" }},
	{"valid-nested", func(*world, *rand.Rand) string { return "m.a" }},
	{"valid-array", func(*world, *rand.Rand) string { return "arr" }},
	{"missing", func(*world, *rand.Rand) string { return "zz.yy" }},
	{"empty", func(*world, *rand.Rand) string { return "" }},
	{"dot", func(*world, *rand.Rand) string { return "." }},
	{"double-dot", func(*world, *rand.Rand) string { return "m..a" }},
	{"trailing-dot", func(*world, *rand.Rand) string { return "m." }},
	{"open-bracket", func(*world, *rand.Rand) string { return "arr[" }},
	{"append-marker", func(*world, *rand.Rand) string { return "arr[]" }},
	{"index", func(*world, *rand.Rand) string { return "arr[1]" }},
	{"negative-index", func(*world, *rand.Rand) string { return "arr[-1]" }},
	{"huge-index", func(*world, *rand.Rand) string { return "arr[99999999999999999999]" }},
	{"wildcard", func(*world, *rand.Rand) string { return "items[*].q" }},
	{"len", func(*world, *rand.Rand) string { return "arr#len" }},
	{"long", func(*world, *rand.Rand) string { return long(70000, "p") }},
	{"deep", func(*world, *rand.Rand) string { return strings.TrimSuffix(strings.Repeat("a.", 5000), ".") }},
}

func init() {
	// array indices relative to the stored arrays' lengths (half of the path pool)
	n := len(pathPool)
	for i := 0; i < n+8; i++ {
		pathPool = append(pathPool, strChoice{"relative-index", func(_ *world, r *rand.Rand) string {
			p, _ := indexPath(r.IntN(len(docArrays)), r.IntN(len(idxRels)))
			return p
		}})
	}
}

var textPool = []strChoice{
	{"plain", func(*world, *rand.Rand) string { return "x" }},
	{"empty", func(*world, *rand.Rand) string { return "" }},
	{"len-70000", func(*world, *rand.Rand) string { return long(70000, "t") }},
	{"unicode", func(*world, *rand.Rand) string { return "szöveg-текст-🙂" }},
	{"format-verbs", func(*world, *rand.Rand) string { return "%s%n%d%!" }},
	{"nul-byte", func(*world, *rand.Rand) string { return "a\x00b" }},
}

type bytesChoice struct {
	class string
	gen   func() []byte
}

func magic(b []byte) []byte { return append([]byte{0xC7, 0x00}, b...) }

var bytesPool = []bytesChoice{
	{"msgpack-int", func() []byte { return mp(7) }},
	{"msgpack-str", func() []byte { return mp("v") }},
	{"msgpack-map", func() []byte { return mp(map[string]any{"a": 1}) }},
	{"doc-with-magic", func() []byte { return doc(9) }},
	{"empty", func() []byte { return []byte{} }},
	{"one-byte-c1", func() []byte { return []byte{0xC1} }},
	{"magic-only", func() []byte { return []byte{0xC7, 0x00} }},
	{"truncated-doc", func() []byte { d := doc(1); return d[:len(d)/2] }},
	{"truncated-str", func() []byte { return []byte{0xDB, 0x00, 0x00, 0x10, 0x00, 'a'} }},
	{"map32-huge-count", func() []byte { return []byte{0xDF, 0xFF, 0xFF, 0xFF, 0xFF} }},
	{"array32-huge-count", func() []byte { return []byte{0xDD, 0xFF, 0xFF, 0xFF, 0xFF} }},
	{"str32-huge-len", func() []byte { return []byte{0xDB, 0xFF, 0xFF, 0xFF, 0xFF} }},
	{"bin32-huge-len", func() []byte { return magic([]byte{0xC6, 0xFF, 0xFF, 0xFF, 0xFF}) }},
	{"magic-map32-huge-count", func() []byte { return magic([]byte{0xDF, 0xFF, 0xFF, 0xFF, 0xFF}) }},
	{"ext-type", func() []byte { return []byte{0xD4, 0x05, 0x01} }},
	{"nan-float", func() []byte { return mp(math.NaN()) }},
	{"nested-arrays-100000", func() []byte { return append([]byte(strings.Repeat("\x91", 100000)), 0xC0) }},
	{"magic-nested-maps-100000", func() []byte {
		return magic(append([]byte(strings.Repeat("\x81\xa1a", 100000)), 0xC0))
	}},
	{"trailing-garbage", func() []byte { return append(mp(1), 0xFF, 0xFE) }},
	{"non-map-doc", func() []byte { return magic(mp([]int{1, 2})) }},
	{"random-1k", func() []byte {
		b := make([]byte, 1024)
		for i := range b {
			b[i] = byte(i*131 + 7)
		}
		return b
	}},
}

var (
	int32Pool  = []int64{math.MaxInt32, math.MinInt32, -1, 0, 1, math.MaxInt32 - 1, 2, 10, 1000, -1000}
	int64Pool  = []int64{math.MaxInt64, math.MinInt64, -1, 0, math.MaxInt64/1000000000 + 1, math.MaxInt64/1000000 + 1, 1, math.MaxInt32, math.MaxInt64 / 1000000000, math.MaxInt64/1000000000 - 1, math.MaxInt64 / 1000000, math.MaxInt32 + 1, math.MinInt32 - 1, 1 << 53, 1000, 3000, -62135596801, 253402300800}
	uint32Pool = []uint64{math.MaxUint32, 0, 1, 65536, 256, 255, 65535, 5}
	uint64Pool = []uint64{math.MaxUint64, 0, 1 << 63, 1, 1001, 1000, 1 << 31}
	floatPool  = []float64{math.NaN(), math.Inf(1), math.Inf(-1), math.MaxFloat64, math.Copysign(0, -1), 0, math.SmallestNonzeroFloat64, -1, 1.5, math.MaxFloat32, 90, 180, -91}
)

func intClass(v int64) string {
	switch v {
	case 0:
		return "zero"
	case math.MinInt32:
		return "min-int32"
	case math.MaxInt32:
		return "max-int32"
	case math.MinInt64:
		return "min-int64"
	case math.MaxInt64:
		return "max-int64"
	}
	if v < 0 {
		return "negative"
	}
	if v > 1<<30 {
		return "huge"
	}
	return "small"
}

func uintClass(v uint64) string {
	switch v {
	case 0:
		return "zero"
	case math.MaxUint32:
		return "max-uint32"
	case math.MaxUint64:
		return "max-uint64"
	}
	if v > 1<<30 {
		return "huge"
	}
	return "small"
}

func floatClass(f float64) string {
	switch {
	case math.IsNaN(f):
		return "nan"
	case math.IsInf(f, 1):
		return "+inf"
	case math.IsInf(f, -1):
		return "-inf"
	case f == 0 && math.Signbit(f):
		return "neg-zero"
	case f == 0:
		return "zero"
	case math.Abs(f) > 1e30:
		return "huge"
	case math.Abs(f) < 1e-300:
		return "denormal"
	}
	return "plain"
}

func lname(fd protoreflect.FieldDescriptor) string { return strings.ToLower(string(fd.Name())) }

func strPoolFor(fd protoreflect.FieldDescriptor) []strChoice {
	n := lname(fd)
	switch {
	case strings.Contains(n, "swampname") || strings.Contains(n, "swamppattern") || strings.Contains(n, "swamp_pattern") || n == "swamp_name":
		return namePool
	case n == "key" || n == "keys" || strings.HasSuffix(n, "keys") || n == "treasurekey":
		return keyPool
	case strings.Contains(n, "path"):
		return pathPool
	}
	return textPool
}

// scalar draws a value for a scalar (non-message) field. hostile=false restricts to the mild
// entries of the pools (used by the generic filler to keep part of a request sensible).
func scalar(fd protoreflect.FieldDescriptor, w *world, r *rand.Rand) (protoreflect.Value, string) {
	switch fd.Kind() {
	case protoreflect.StringKind:
		p := strPoolFor(fd)
		c := p[r.IntN(len(p))]
		return protoreflect.ValueOfString(c.gen(w, r)), c.class
	case protoreflect.BytesKind:
		c := bytesPool[r.IntN(len(bytesPool))]
		return protoreflect.ValueOfBytes(c.gen()), c.class
	case protoreflect.BoolKind:
		b := r.IntN(2) == 0
		return protoreflect.ValueOfBool(b), fmt.Sprint(b)
	case protoreflect.EnumKind:
		vals := fd.Enum().Values()
		pool := []int32{-1, int32(vals.Len()), 1 << 30, math.MinInt32, math.MaxInt32}
		for i := 0; i < vals.Len(); i++ {
			pool = append(pool, int32(vals.Get(i).Number()))
		}
		v := pool[r.IntN(len(pool))]
		cl := "out-of-range"
		if vals.ByNumber(protoreflect.EnumNumber(v)) != nil {
			cl = "valid"
		}
		return protoreflect.ValueOfEnum(protoreflect.EnumNumber(v)), cl
	case protoreflect.Int32Kind, protoreflect.Sint32Kind, protoreflect.Sfixed32Kind:
		v := int32Pool[r.IntN(len(int32Pool))]
		return protoreflect.ValueOfInt32(int32(v)), intClass(v)
	case protoreflect.Int64Kind, protoreflect.Sint64Kind, protoreflect.Sfixed64Kind:
		v := int64Pool[r.IntN(len(int64Pool))]
		return protoreflect.ValueOfInt64(v), intClass(v)
	case protoreflect.Uint32Kind, protoreflect.Fixed32Kind:
		v := uint32Pool[r.IntN(len(uint32Pool))]
		return protoreflect.ValueOfUint32(uint32(v)), uintClass(v)
	case protoreflect.Uint64Kind, protoreflect.Fixed64Kind:
		if lname(fd) == "islandid" && r.IntN(3) == 0 {
			return protoreflect.ValueOfUint64(uint64(1 + r.IntN(1000))), "other-island"
		}
		v := uint64Pool[r.IntN(len(uint64Pool))]
		return protoreflect.ValueOfUint64(v), uintClass(v)
	case protoreflect.FloatKind:
		f := floatPool[r.IntN(len(floatPool))]
		return protoreflect.ValueOfFloat32(float32(f)), floatClass(float64(float32(f)))
	case protoreflect.DoubleKind:
		f := floatPool[r.IntN(len(floatPool))]
		return protoreflect.ValueOfFloat64(f), floatClass(f)
	}
	return fd.Default(), "default"
}

// fill populates every field of m from the pools, recursively (the "generic" request style).
func fill(m protoreflect.Message, w *world, r *rand.Rand, depth int) {
	fds := m.Descriptor().Fields()
	for i := 0; i < fds.Len(); i++ {
		fd := fds.Get(i)
		if fd.ContainingOneof() != nil && !fd.ContainingOneof().IsSynthetic() && r.IntN(3) != 0 {
			continue // most oneof members stay unset; the last one set wins
		}
		switch {
		case fd.IsMap():
			continue
		case fd.IsList():
			n := []int{0, 1, 1, 2, 3, 12}[r.IntN(6)]
			l := m.Mutable(fd).List()
			for k := 0; k < n; k++ {
				if fd.Message() != nil {
					if depth <= 0 {
						break
					}
					e := l.NewElement()
					fill(e.Message(), w, r, depth-1)
					l.Append(e)
				} else {
					v, _ := scalar(fd, w, r)
					l.Append(v)
				}
			}
		case fd.Message() != nil:
			if depth <= 0 || r.IntN(5) < 2 {
				continue // absent sub-message
			}
			fill(m.Mutable(fd).Message(), w, r, depth-1)
		default:
			if fd.HasPresence() && r.IntN(3) == 0 {
				continue
			}
			v, _ := scalar(fd, w, r)
			m.Set(fd, v)
		}
	}
}

// ---- mutations of a valid seed request -----------------------------------------------------

type site struct {
	m    protoreflect.Message
	fd   protoreflect.FieldDescriptor
	path string
}

func collectSites(m protoreflect.Message, prefix string, depth int, out *[]site) {
	fds := m.Descriptor().Fields()
	for i := 0; i < fds.Len(); i++ {
		fd := fds.Get(i)
		*out = append(*out, site{m, fd, prefix + string(fd.Name())})
		if fd.Message() == nil || fd.IsMap() || depth <= 0 || !m.Has(fd) {
			continue
		}
		if fd.IsList() {
			l := m.Get(fd).List()
			for k := 0; k < l.Len() && k < 2; k++ {
				collectSites(l.Get(k).Message(), prefix+string(fd.Name())+"[].", depth-1, out)
			}
		} else {
			collectSites(m.Get(fd).Message(), prefix+string(fd.Name())+".", depth-1, out)
		}
	}
}

// mutate damages one field of the request and says which one and how.
func mutate(root protoreflect.Message, w *world, r *rand.Rand) string {
	var sites []site
	collectSites(root, "", 5, &sites)
	if len(sites) == 0 {
		return "no-fields"
	}
	// half of the mutations go to the top-level fields, where names and key lists live
	var top []site
	for _, s := range sites {
		if !strings.Contains(s.path, ".") {
			top = append(top, s)
		}
	}
	s := sites[r.IntN(len(sites))]
	if len(top) > 0 && r.IntN(2) == 0 {
		s = top[r.IntN(len(top))]
	}
	fd, m := s.fd, s.m
	switch {
	case fd.IsMap():
		m.Clear(fd)
		return s.path + "=cleared"
	case fd.IsList():
		l := m.Mutable(fd).List()
		switch op := r.IntN(6); {
		case op == 0:
			m.Clear(fd)
			return s.path + "=empty-list"
		case fd.Message() != nil && op == 1:
			l.Append(l.NewElement())
			return s.path + "=plus-empty-element"
		case fd.Message() != nil && op == 2:
			m.Clear(fd)
			m.Mutable(fd).List().Append(m.Mutable(fd).List().NewElement())
			return s.path + "=only-empty-element"
		case fd.Message() != nil && op == 3:
			e := l.NewElement()
			fill(e.Message(), w, r, 3)
			l.Append(e)
			return s.path + "=plus-generated-element"
		case fd.Message() != nil:
			if l.Len() > 0 {
				first := l.Get(0).Message().Interface()
				for k := 0; k < 40; k++ {
					l.Append(protoreflect.ValueOfMessage(proto.Clone(first).ProtoReflect()))
				}
				return s.path + "=element-repeated-40x"
			}
			l.Append(l.NewElement())
			return s.path + "=plus-empty-element"
		case op == 1:
			m.Clear(fd)
			v, cl := scalar(fd, w, r)
			m.Mutable(fd).List().Append(v)
			return s.path + "=only[" + cl + "]"
		case op == 2:
			v, cl := scalar(fd, w, r)
			l.Append(v)
			return s.path + "=plus[" + cl + "]"
		case op == 3:
			m.Clear(fd)
			v, cl := scalar(fd, w, r)
			m.Mutable(fd).List().Append(v)
			m.Mutable(fd).List().Append(v)
			return s.path + "=duplicate[" + cl + "]"
		case op == 4 && fd.Kind() != protoreflect.StringKind && fd.Kind() != protoreflect.BytesKind:
			for k := 0; k < 5000; k++ {
				v, _ := scalar(fd, w, r)
				l.Append(v)
			}
			return s.path + "=5000-elements"
		default:
			m.Clear(fd)
			l = m.Mutable(fd).List()
			for k := 0; k < 300; k++ {
				if fd.Kind() == protoreflect.StringKind {
					l.Append(protoreflect.ValueOfString(fmt.Sprintf("k%d", k)))
				} else {
					v, _ := scalar(fd, w, r)
					l.Append(v)
				}
			}
			return s.path + "=300-elements"
		}
	case fd.Message() != nil:
		if fd.Message().FullName() == "google.protobuf.Timestamp" {
			type tsc struct {
				class string
				s     int64
				n     int32
			}
			c := []tsc{{"zero", 0, 0}, {"now", w.Now.Unix(), 0}, {"pre-epoch", -5, 0}, {"below-min", -62135596801, 0}, {"above-max", 253402300800, 0},
				{"negative-nanos", 10, -1}, {"nanos-1e9", 10, 1000000000}, {"min-int64", math.MinInt64, 0}, {"max-int64", math.MaxInt64, 999999999}, {"far-future", 4102444800, 0}}[r.IntN(10)]
			if r.IntN(8) == 0 {
				m.Clear(fd)
				return s.path + "=absent"
			}
			m.Set(fd, protoreflect.ValueOfMessage((&timestamppb.Timestamp{Seconds: c.s, Nanos: c.n}).ProtoReflect()))
			return s.path + "=" + c.class
		}
		switch r.IntN(3) {
		case 0:
			m.Clear(fd)
			return s.path + "=absent"
		case 1:
			m.Set(fd, protoreflect.ValueOfMessage(m.NewField(fd).Message()))
			return s.path + "=empty-message"
		default:
			nm := m.NewField(fd).Message()
			fill(nm, w, r, 3)
			m.Set(fd, protoreflect.ValueOfMessage(nm))
			return s.path + "=generated"
		}
	default:
		if fd.HasPresence() && r.IntN(6) == 0 {
			m.Clear(fd)
			return s.path + "=absent"
		}
		v, cl := scalar(fd, w, r)
		m.Set(fd, v)
		return s.path + "=" + cl
	}
}

// ---- hand-written valid requests -----------------------------------------------------------

func (w *world) target(r *rand.Rand) string { return w.Targets[r.IntN(len(w.Targets))] }

func seedFilter(r *rand.Rand) *hydrapb.FilterGroup {
	switch r.IntN(7) {
	case 0:
		return nil
	case 1:
		return &hydrapb.FilterGroup{Filters: []*hydrapb.TreasureFilter{{Operator: hydrapb.Relational_GREATER_THAN_OR_EQUAL, CompareValue: &hydrapb.TreasureFilter_Int32Val{Int32Val: 1}}}}
	case 2:
		return &hydrapb.FilterGroup{Logic: hydrapb.FilterLogic_OR, Filters: []*hydrapb.TreasureFilter{
			{Operator: hydrapb.Relational_EQUAL, CompareValue: &hydrapb.TreasureFilter_Int64Val{Int64Val: 2}, BytesFieldPath: ptr("n"), Label: ptr("l1")},
			{Operator: hydrapb.Relational_CONTAINS, CompareValue: &hydrapb.TreasureFilter_StringVal{StringVal: "one"}, BytesFieldPath: ptr("s")}}}
	case 3:
		return &hydrapb.FilterGroup{PhraseFilters: []*hydrapb.PhraseFilter{{BytesFieldPath: "s", Words: []string{"one", "two"}}},
			VectorFilters: []*hydrapb.VectorFilter{{BytesFieldPath: "vec", QueryVector: []float32{0.1, 0.2, 0.3}, MinSimilarity: 0.5, Label: ptr("v")}}}
	case 4:
		return &hydrapb.FilterGroup{GeoDistanceFilters: []*hydrapb.GeoDistanceFilter{{LatFieldPath: "lat", LngFieldPath: "lng", RefLatitude: 47.4, RefLongitude: 19.0, RadiusKm: 50}},
			SubGroups: []*hydrapb.FilterGroup{{Filters: []*hydrapb.TreasureFilter{{Operator: hydrapb.Relational_SLICE_CONTAINS, CompareValue: &hydrapb.TreasureFilter_StringVal{StringVal: "a"}, BytesFieldPath: ptr("tags")}}}}}
	case 5:
		return &hydrapb.FilterGroup{NestedSliceWhereFilters: []*hydrapb.NestedSliceWhereFilter{{EvalMode: hydrapb.NestedSliceWhereFilter_ANY, SlicePath: "items",
			Conditions: &hydrapb.FilterGroup{Filters: []*hydrapb.TreasureFilter{{Operator: hydrapb.Relational_GREATER_THAN, CompareValue: &hydrapb.TreasureFilter_Int64Val{Int64Val: 2}, BytesFieldPath: ptr("q")}}}}}}
	default:
		return &hydrapb.FilterGroup{Filters: []*hydrapb.TreasureFilter{
			{Operator: hydrapb.Relational_INT64_IN, Int64InVals: []int64{1, 2, 3}, BytesFieldPath: ptr("n")},
			{Operator: hydrapb.Relational_LESS_THAN, CompareValue: &hydrapb.TreasureFilter_ExpiredAtVal{ExpiredAtVal: timestamppb.New(time.Unix(4102444800, 0))}}}}
	}
}

func bodyFilter() *hydrapb.FilterGroup {
	return &hydrapb.FilterGroup{Filters: []*hydrapb.TreasureFilter{{Operator: hydrapb.Relational_GREATER_THAN_OR_EQUAL, CompareValue: &hydrapb.TreasureFilter_Int64Val{Int64Val: 1}, BytesFieldPath: ptr("n")}}}
}

func seedOps(r *rand.Rand) []*hydrapb.PatchOp {
	all := []*hydrapb.PatchOp{
		{Op: hydrapb.PatchOp_SET, Path: "n", Value: mp(7)}, {Op: hydrapb.PatchOp_INC, Path: "n", Value: mp(1)},
		{Op: hydrapb.PatchOp_APPEND, Path: "arr", Value: mp(4)}, {Op: hydrapb.PatchOp_PREPEND, Path: "tags", Value: mp("z")},
		{Op: hydrapb.PatchOp_REMOVE_AT, Path: "arr[0]"}, {Op: hydrapb.PatchOp_REMOVE_VAL, Path: "tags", Value: mp("a")},
		{Op: hydrapb.PatchOp_MERGE, Path: "m", Value: mp(map[string]any{"c": 3})}, {Op: hydrapb.PatchOp_DELETE, Path: "s"},
	}
	n := 1 + r.IntN(3)
	var out []*hydrapb.PatchOp
	for i := 0; i < n; i++ {
		out = append(out, proto.Clone(all[r.IntN(len(all))]).(*hydrapb.PatchOp))
	}
	return out
}

func typedKey(rpc string) string {
	m := map[string]string{"Int8": "i8", "Int16": "i16", "Int32": "i32", "Int64": "i64", "Uint8": "u8", "Uint16": "u16", "Uint32": "u32", "Uint64": "u64", "Float32": "f32", "Float64": "f64"}
	return m[strings.TrimPrefix(rpc, "Increment")]
}

// seedRequest returns a valid request of the RPC that reaches the engine (existing swamp,
// existing keys), or nil when the RPC is not known here (new RPC: generic generation only).
func seedRequest(rpc string, w *world, r *rand.Rand) []proto.Message {
	t := w.target(r)
	is := safeIsland(t)
	future := timestamppb.New(w.Now.Add(time.Hour))
	one := func(m proto.Message) []proto.Message { return []proto.Message{m} }
	shiftM := func() *hydrapb.ShiftMatchingTreasuresRequest {
		q := &hydrapb.ShiftMatchingTreasuresRequest{IslandID: is, SwampName: t, IndexType: hydrapb.IndexType_EXPIRATION_TIME, HowMany: 1, MaxResults: 2, Filters: seedFilter(r)}
		if r.IntN(2) == 0 {
			q.ToTime = future
			q.FromTime = timestamppb.New(w.Now.Add(-48 * time.Hour))
		}
		if r.IntN(3) == 0 {
			q.Cap = &hydrapb.Cap{Filter: seedFilter(r), MaxMatching: 5}
			if q.Cap.Filter == nil {
				q.Cap.Filter = bodyFilter()
			}
		}
		return q
	}
	patchReq := func() *hydrapb.PatchTreasuresRequest {
		q := &hydrapb.PatchTreasuresRequest{IslandID: is, SwampName: t, CreateIfNotExist: r.IntN(2) == 0,
			Patches: []*hydrapb.TreasurePatch{{Key: fmt.Sprintf("doc%d", 1+r.IntN(3)), Ops: seedOps(r)}}}
		if r.IntN(2) == 0 {
			q.Patches = append(q.Patches, &hydrapb.TreasurePatch{Key: fmt.Sprintf("newdoc%d", r.IntN(3)), Ops: seedOps(r),
				Condition: &hydrapb.PatchCondition{Path: "n", Operator: hydrapb.PatchCondition_GREATER_THAN, Threshold: mp(0)},
				Meta:      &hydrapb.PatchMeta{SetUpdatedAt: true, SetUpdatedBy: ptr("p"), SetExpiredAt: future}})
			q.InitialMsgpackOnCreate = doc(0)[2:]
		}
		if r.IntN(3) == 0 {
			q.Meta = &hydrapb.PatchMeta{SetCreatedAt: true, SetCreatedBy: ptr("c"), ClearExpiredAt: true}
		}
		if r.IntN(3) == 0 {
			q.Cap = &hydrapb.Cap{Filter: bodyFilter(), MaxMatching: 10}
		}
		return q
	}
	patchExp := func() *hydrapb.PatchExpiredTreasuresRequest {
		q := &hydrapb.PatchExpiredTreasuresRequest{IslandID: is, SwampName: t, HowMany: 1, Ops: seedOps(r), Meta: &hydrapb.PatchMeta{SetExpiredAt: future, SetUpdatedAt: true}}
		if r.IntN(2) == 0 {
			q.Filters = seedFilter(r)
		}
		if r.IntN(3) == 0 {
			q.Condition = &hydrapb.PatchCondition{Path: "n", Operator: hydrapb.PatchCondition_EXISTS}
		}
		if r.IntN(3) == 0 {
			q.Cap = &hydrapb.Cap{Filter: seedFilter(r), MaxMatching: 3}
			if q.Cap.Filter == nil {
				q.Cap.Filter = bodyFilter()
			}
		}
		return q
	}
	query := func() *hydrapb.SwampQuery {
		return &hydrapb.SwampQuery{IslandID: is, SwampName: t, IndexType: hydrapb.IndexType_Type(r.IntN(15)), OrderType: hydrapb.OrderType_Type(r.IntN(2)), Limit: int32(r.IntN(5)), Filters: seedFilter(r), MaxResults: int32(r.IntN(3))}
	}
	incMeta := func() *hydrapb.IncrementRequestMetadata {
		if r.IntN(2) == 0 {
			return nil
		}
		return &hydrapb.IncrementRequestMetadata{CreatedAt: ptr(true), CreatedBy: ptr("i"), UpdatedAt: ptr(true), UpdatedBy: ptr("i"), ExpiredAt: future}
	}
	switch rpc {
	case "Heartbeat":
		return one(&hydrapb.HeartbeatRequest{Ping: "ping"})
	case "Lock":
		return one(&hydrapb.LockRequest{Key: "lk", TTL: 2000})
	case "Unlock":
		k := fmt.Sprintf("held-%d", r.IntN(3))
		id := w.Locks[k]
		if id == "" {
			id = "00000000-0000-0000-0000-000000000000"
		}
		return one(&hydrapb.UnlockRequest{Key: k, LockID: id})
	case "RegisterSwamp":
		return one(&hydrapb.RegisterSwampRequest{SwampPattern: fmt.Sprintf("c26/reg%d/*", r.IntN(3)), CloseAfterIdle: 10, WriteInterval: ptr(int64(1)), MaxFileSize: ptr(int64(8192))})
	case "DeRegisterSwamp":
		return one(&hydrapb.DeRegisterSwampRequest{SwampPattern: fmt.Sprintf("c26/reg%d/*", r.IntN(3))})
	case "Set":
		return one(&hydrapb.SetRequest{Swamps: []*hydrapb.SwampRequest{{IslandID: is, SwampName: t, CreateIfNotExist: true, Overwrite: true,
			KeyValues: []*hydrapb.KeyValuePair{{Key: fmt.Sprintf("new%d", r.IntN(5)), StringVal: ptr("v"), CreatedAt: future, CreatedBy: ptr("s"), ExpiredAt: future}, {Key: "i32", Int32Val: ptr(int32(9))}}}}})
	case "Get":
		return one(&hydrapb.GetRequest{Swamps: []*hydrapb.GetSwamp{{IslandID: is, SwampName: t, Keys: []string{"str", "i32", "nokey"}}}})
	case "GetAll":
		return one(&hydrapb.GetAllRequest{IslandID: is, SwampName: t})
	case "GetByIndex":
		return one(&hydrapb.GetByIndexRequest{IslandID: is, SwampName: t, IndexType: hydrapb.IndexType_Type(r.IntN(15)), OrderType: hydrapb.OrderType_Type(r.IntN(2)), From: int32(r.IntN(3)), Limit: int32(r.IntN(10)), ExcludeKeys: []string{"void"}})
	case "GetByKeys":
		return one(&hydrapb.GetByKeysRequest{IslandID: is, SwampName: t, Keys: []string{"str", "doc1", "nokey"}, KeysOnly: r.IntN(2) == 0})
	case "ShiftByKeys":
		return one(&hydrapb.ShiftByKeysRequest{IslandID: is, SwampName: t, Keys: []string{"u8", "nokey"}})
	case "ShiftExpiredTreasures":
		return one(&hydrapb.ShiftExpiredTreasuresRequest{IslandID: is, SwampName: t, HowMany: 1})
	case "ShiftExpiredTreasuresMany":
		return one(&hydrapb.ShiftExpiredTreasuresManyRequest{Requests: []*hydrapb.ShiftExpiredTreasuresRequest{{IslandID: is, SwampName: t, HowMany: 1}, {IslandID: safeIsland(w.Targets[0]), SwampName: w.Targets[0]}}})
	case "ShiftMatchingTreasures":
		return one(shiftM())
	case "ShiftMatchingTreasuresMany":
		return one(&hydrapb.ShiftMatchingTreasuresManyRequest{Requests: []*hydrapb.ShiftMatchingTreasuresRequest{shiftM(), shiftM()}})
	case "Destroy":
		return one(&hydrapb.DestroyRequest{IslandID: is, SwampName: t})
	case "DestroyBulk":
		n := fmt.Sprintf("c26/main/bulk%d", r.IntN(4))
		return []proto.Message{
			&hydrapb.DestroyBulkRequest{Targets: []*hydrapb.DestroyBulkTarget{{IslandID: safeIsland(n), SwampName: n}, {IslandID: is, SwampName: t}}},
			&hydrapb.DestroyBulkRequest{Targets: []*hydrapb.DestroyBulkTarget{{IslandID: safeIsland(n + "b"), SwampName: n + "b"}}}}
	case "Delete":
		return one(&hydrapb.DeleteRequest{Swamps: []*hydrapb.DeleteRequest_SwampKeys{{IslandID: is, SwampName: t, Keys: []string{"str", "nokey"}}}})
	case "Count":
		return one(&hydrapb.CountRequest{Swamps: []*hydrapb.CountRequest_SwampIdentifier{{IslandID: is, SwampName: t}, {IslandID: 1, SwampName: "c26/main/nope0"}}})
	case "IsSwampExist":
		return one(&hydrapb.IsSwampExistRequest{IslandID: is, SwampName: t})
	case "IsKeyExist":
		return one(&hydrapb.IsKeyExistRequest{IslandID: is, SwampName: t, Key: "str"})
	case "AreKeysExist":
		return one(&hydrapb.AreKeysExistRequest{IslandID: is, SwampName: t, Keys: []string{"str", "nokey"}})
	case "SubscribeToEvents":
		return one(&hydrapb.SubscribeToEventsRequest{IslandID: is, SwampName: t})
	case "SubscribeToInfo":
		return one(&hydrapb.SubscribeToInfoRequest{IslandID: is, SwampName: t})
	case "Uint32SlicePush":
		return one(&hydrapb.AddToUint32SlicePushRequest{IslandID: is, SwampName: t, KeySlicePairs: []*hydrapb.KeySlicePair{{Key: "slice", Values: []uint32{7, 8}}, {Key: "newslice", Values: []uint32{1}}}})
	case "Uint32SliceDelete":
		return one(&hydrapb.Uint32SliceDeleteRequest{IslandID: is, SwampName: t, KeySlicePairs: []*hydrapb.KeySlicePair{{Key: "slice", Values: []uint32{1}}}})
	case "Uint32SliceSize":
		return one(&hydrapb.Uint32SliceSizeRequest{IslandID: is, SwampName: t, Key: "slice"})
	case "Uint32SliceIsValueExist":
		return one(&hydrapb.Uint32SliceIsValueExistRequest{IslandID: is, SwampName: t, Key: "slice", Value: 2})
	case "IncrementInt8":
		return one(&hydrapb.IncrementInt8Request{IslandID: is, SwampName: t, Key: typedKey(rpc), IncrementBy: 1, Condition: &hydrapb.IncrementInt8Condition{RelationalOperator: hydrapb.Relational_LESS_THAN, Value: 100}, SetIfExist: incMeta(), SetIfNotExist: incMeta()})
	case "IncrementInt16":
		return one(&hydrapb.IncrementInt16Request{IslandID: is, SwampName: t, Key: typedKey(rpc), IncrementBy: 1, Condition: &hydrapb.IncrementInt16Condition{RelationalOperator: hydrapb.Relational_LESS_THAN, Value: 1000}, SetIfExist: incMeta(), SetIfNotExist: incMeta()})
	case "IncrementInt32":
		return one(&hydrapb.IncrementInt32Request{IslandID: is, SwampName: t, Key: typedKey(rpc), IncrementBy: 1, Condition: &hydrapb.IncrementInt32Condition{RelationalOperator: hydrapb.Relational_LESS_THAN, Value: 1000}, SetIfExist: incMeta(), SetIfNotExist: incMeta()})
	case "IncrementInt64":
		return one(&hydrapb.IncrementInt64Request{IslandID: is, SwampName: t, Key: typedKey(rpc), IncrementBy: 1, Condition: &hydrapb.IncrementInt64Condition{RelationalOperator: hydrapb.Relational_NOT_EQUAL, Value: 1000}, SetIfExist: incMeta(), SetIfNotExist: incMeta()})
	case "IncrementUint8":
		return one(&hydrapb.IncrementUint8Request{IslandID: is, SwampName: t, Key: typedKey(rpc), IncrementBy: 1, Condition: &hydrapb.IncrementUint8Condition{RelationalOperator: hydrapb.Relational_LESS_THAN, Value: 100}, SetIfExist: incMeta(), SetIfNotExist: incMeta()})
	case "IncrementUint16":
		return one(&hydrapb.IncrementUint16Request{IslandID: is, SwampName: t, Key: typedKey(rpc), IncrementBy: 1, Condition: &hydrapb.IncrementUint16Condition{RelationalOperator: hydrapb.Relational_LESS_THAN, Value: 1000}, SetIfExist: incMeta(), SetIfNotExist: incMeta()})
	case "IncrementUint32":
		return one(&hydrapb.IncrementUint32Request{IslandID: is, SwampName: t, Key: typedKey(rpc), IncrementBy: 1, Condition: &hydrapb.IncrementUint32Condition{RelationalOperator: hydrapb.Relational_GREATER_THAN, Value: 0}, SetIfExist: incMeta(), SetIfNotExist: incMeta()})
	case "IncrementUint64":
		return one(&hydrapb.IncrementUint64Request{IslandID: is, SwampName: t, Key: typedKey(rpc), IncrementBy: 1, Condition: &hydrapb.IncrementUint64Condition{RelationalOperator: hydrapb.Relational_GREATER_THAN_OR_EQUAL, Value: 0}, SetIfExist: incMeta(), SetIfNotExist: incMeta()})
	case "IncrementFloat32":
		return one(&hydrapb.IncrementFloat32Request{IslandID: is, SwampName: t, Key: typedKey(rpc), IncrementBy: 0.5, Condition: &hydrapb.IncrementFloat32Condition{RelationalOperator: hydrapb.Relational_LESS_THAN, Value: 1000}, SetIfExist: incMeta(), SetIfNotExist: incMeta()})
	case "IncrementFloat64":
		return one(&hydrapb.IncrementFloat64Request{IslandID: is, SwampName: t, Key: typedKey(rpc), IncrementBy: 0.5, Condition: &hydrapb.IncrementFloat64Condition{RelationalOperator: hydrapb.Relational_LESS_THAN, Value: 1000}, SetIfExist: incMeta(), SetIfNotExist: incMeta()})
	case "PatchTreasures":
		return one(patchReq())
	case "PatchTreasuresMany":
		return one(&hydrapb.PatchTreasuresManyRequest{Requests: []*hydrapb.PatchTreasuresRequest{patchReq(), patchReq()}})
	case "PatchExpiredTreasures":
		return one(patchExp())
	case "PatchExpiredTreasuresMany":
		return one(&hydrapb.PatchExpiredTreasuresManyRequest{Requests: []*hydrapb.PatchExpiredTreasuresRequest{patchExp(), patchExp()}})
	case "SubscribeToTelemetry":
		return one(&hydrapb.TelemetrySubscribeRequest{FilterMethods: []string{"Set"}, FilterSwampPattern: "c26/*", IncludeSuccesses: true})
	case "GetTelemetryHistory":
		return one(&hydrapb.TelemetryHistoryRequest{FromTime: timestamppb.New(w.Now.Add(-time.Hour)), ToTime: future, Limit: 10, FilterMethods: []string{"Set", "Get"}})
	case "GetErrorDetails":
		id := "nope"
		if len(w.Events) > 0 {
			id = w.Events[r.IntN(len(w.Events))]
		}
		return one(&hydrapb.ErrorDetailsRequest{EventId: id})
	case "GetTelemetryStats":
		return one(&hydrapb.TelemetryStatsRequest{WindowMinutes: 5})
	case "GetByIndexStream":
		return one(&hydrapb.GetByIndexStreamRequest{IslandID: is, SwampName: t, IndexType: hydrapb.IndexType_Type(r.IntN(15)), OrderType: hydrapb.OrderType_Type(r.IntN(2)), Limit: int32(r.IntN(10)), Filters: seedFilter(r), MaxResults: int32(r.IntN(4)), ExcludeKeys: []string{"void"}})
	case "GetByIndexStreamFromMany":
		return one(&hydrapb.GetByIndexStreamFromManyRequest{Queries: []*hydrapb.SwampQuery{query(), query()}, MaxResults: int32(r.IntN(5))})
	case "CompactSwamp":
		return one(&hydrapb.CompactSwampRequest{IslandID: is, SwampName: t})
	case "GetStream":
		return one(&hydrapb.GetStreamRequest{Queries: []*hydrapb.ProfileSwampQuery{{IslandID: is, SwampName: t, Keys: []string{"str", "i32", "doc1", "nokey"}, Filters: profileFilter(r)}}, MaxResults: int32(r.IntN(3))})
	}
	return nil
}

func profileFilter(r *rand.Rand) *hydrapb.FilterGroup {
	if r.IntN(2) == 0 {
		return nil
	}
	return &hydrapb.FilterGroup{Filters: []*hydrapb.TreasureFilter{
		{Operator: hydrapb.Relational_GREATER_THAN, CompareValue: &hydrapb.TreasureFilter_Int32Val{Int32Val: 1}, TreasureKey: ptr("i32")},
		{Operator: hydrapb.Relational_GREATER_THAN_OR_EQUAL, CompareValue: &hydrapb.TreasureFilter_Int64Val{Int64Val: 1}, TreasureKey: ptr("doc1"), BytesFieldPath: ptr("n")}}}
}

// ---- boundary sweep ------------------------------------------------------------------------

// The first cases of every unit are not random: they walk (numeric or enum field of the valid
// request) x (boundary value of its kind, most extreme first), one field per case, so that
// every configuration-like number meets its extremes at every seed.
var sweepPerMode, sweepGrpcOffset = 6, 6

func boundaryValues(fd protoreflect.FieldDescriptor) []protoreflect.Value {
	var out []protoreflect.Value
	switch fd.Kind() {
	case protoreflect.Int32Kind, protoreflect.Sint32Kind, protoreflect.Sfixed32Kind:
		for _, v := range int32Pool {
			out = append(out, protoreflect.ValueOfInt32(int32(v)))
		}
	case protoreflect.Int64Kind, protoreflect.Sint64Kind, protoreflect.Sfixed64Kind:
		for _, v := range int64Pool {
			out = append(out, protoreflect.ValueOfInt64(v))
		}
	case protoreflect.Uint32Kind, protoreflect.Fixed32Kind:
		for _, v := range uint32Pool {
			out = append(out, protoreflect.ValueOfUint32(uint32(v)))
		}
	case protoreflect.Uint64Kind, protoreflect.Fixed64Kind:
		for _, v := range uint64Pool {
			out = append(out, protoreflect.ValueOfUint64(v))
		}
	case protoreflect.FloatKind:
		for _, v := range floatPool {
			out = append(out, protoreflect.ValueOfFloat32(float32(v)))
		}
	case protoreflect.DoubleKind:
		for _, v := range floatPool {
			out = append(out, protoreflect.ValueOfFloat64(v))
		}
	case protoreflect.EnumKind:
		for _, v := range []int32{math.MaxInt32, math.MinInt32, -1, int32(fd.Enum().Values().Len())} {
			out = append(out, protoreflect.ValueOfEnum(protoreflect.EnumNumber(v)))
		}
	}
	return out
}

// sweep applies combination k to the valid request; false when k is past the cross product.
func sweep(root protoreflect.Message, k int) (string, bool) {
	var all, sites []site
	collectSites(root, "", 5, &all)
	for _, s := range all {
		if s.fd.IsList() || s.fd.IsMap() || s.fd.Message() != nil || lname(s.fd) == "islandid" {
			continue
		}
		if len(boundaryValues(s.fd)) > 0 {
			sites = append(sites, s)
		}
	}
	if len(sites) == 0 {
		return "", false
	}
	// top-level fields first
	var ordered []site
	for _, s := range sites {
		if !strings.Contains(s.path, ".") {
			ordered = append(ordered, s)
		}
	}
	for _, s := range sites {
		if strings.Contains(s.path, ".") {
			ordered = append(ordered, s)
		}
	}
	s := ordered[k%len(ordered)]
	vals := boundaryValues(s.fd)
	vi := k / len(ordered)
	if vi >= len(vals) {
		return "", false
	}
	s.m.Set(s.fd, vals[vi])
	return fmt.Sprintf("%s=boundary(%v)", s.path, vals[vi].Interface()), true
}

// ---- patch sweep ---------------------------------------------------------------------------

// After the numeric sweep, the patch-capable RPCs walk (stored array) x (index relative to its
// length, most hostile first) x (path used in an op | in a condition), all four RPCs with the
// same hostile paths, against records that are expired (so PatchExpired selects them).
var patchSweepPerMode, patchSweepGrpcOffset = 6, 6

var patchKinds = []hydrapb.PatchOp_Kind{hydrapb.PatchOp_REMOVE_AT, hydrapb.PatchOp_SET, hydrapb.PatchOp_INC, hydrapb.PatchOp_DELETE, hydrapb.PatchOp_APPEND, hydrapb.PatchOp_PREPEND, hydrapb.PatchOp_REMOVE_VAL, hydrapb.PatchOp_MERGE}

func patchSweep(rpc string, k int, w *world) (msgs []proto.Message, label string, targets []string, ok bool) {
	rel := k / (2 * len(docArrays))
	if rel >= len(idxRels) {
		return nil, "", nil, false
	}
	arr, inCond := (k/2)%len(docArrays), k%2 == 1
	path, class := indexPath(arr, rel)
	kind := patchKinds[(k/2+rel)%len(patchKinds)]
	ops := func() []*hydrapb.PatchOp {
		if inCond {
			return []*hydrapb.PatchOp{{Op: hydrapb.PatchOp_SET, Path: "n", Value: mp(77)}}
		}
		op := &hydrapb.PatchOp{Op: kind, Path: path, Value: mp(1)}
		if kind == hydrapb.PatchOp_MERGE {
			op.Value = mp(map[string]any{"z": 1})
		}
		return []*hydrapb.PatchOp{op}
	}
	cond := func() *hydrapb.PatchCondition {
		if !inCond {
			return nil
		}
		return &hydrapb.PatchCondition{Path: path, Operator: hydrapb.PatchCondition_Op(k / 2 % 8), Threshold: mp(1)}
	}
	t1, t2 := w.Targets[k%len(w.Targets)], w.Targets[(k+1)%len(w.Targets)]
	pt := func(t string) *hydrapb.PatchTreasuresRequest {
		q := &hydrapb.PatchTreasuresRequest{IslandID: safeIsland(t), SwampName: t}
		for _, key := range []string{"doc1", "xdoc2", "doc3"} {
			q.Patches = append(q.Patches, &hydrapb.TreasurePatch{Key: key, Ops: ops(), Condition: cond()})
		}
		return q
	}
	pe := func(t string) *hydrapb.PatchExpiredTreasuresRequest {
		return &hydrapb.PatchExpiredTreasuresRequest{IslandID: safeIsland(t), SwampName: t, HowMany: 0, Ops: ops(), Condition: cond(), Meta: &hydrapb.PatchMeta{SetUpdatedAt: true}}
	}
	label = "Ops[].Path=" + class
	if inCond {
		label = "Condition.Path=" + class
	} else {
		label += "(" + kind.String() + ")"
	}
	label += "{" + path + "}"
	switch rpc {
	case "PatchTreasures":
		return []proto.Message{pt(t1)}, label, []string{t1}, true
	case "PatchTreasuresMany":
		return []proto.Message{&hydrapb.PatchTreasuresManyRequest{Requests: []*hydrapb.PatchTreasuresRequest{pt(t1), pt(t2)}}}, label, []string{t1, t2}, true
	case "PatchExpiredTreasures":
		return []proto.Message{pe(t1)}, label, []string{t1}, true
	case "PatchExpiredTreasuresMany":
		return []proto.Message{&hydrapb.PatchExpiredTreasuresManyRequest{Requests: []*hydrapb.PatchExpiredTreasuresRequest{pe(t1), pe(t2)}}}, label, []string{t1, t2}, true
	}
	return nil, "", nil, false
}

// ---- strange keys ---------------------------------------------------------------------------

func strangeKey(k string) bool {
	if k == "" || len(k) > 1000 {
		return true
	}
	for _, c := range k {
		if c < 0x20 || c > 0x7e || c == '/' || c == '*' {
			return true
		}
	}
	return false
}

type swampKey struct{ Swamp, Key string }

// strangeKeys lists the (swamp, key) pairs of a request whose key is empty, very long or has
// unusual characters: every message that names a swamp, its own Key/Keys and those one list
// level below (KeyValues[].Key, KeySlicePairs[].Key, Patches[].Key).
func strangeKeys(m protoreflect.Message, depth int, out *[]swampKey) {
	fds := m.Descriptor().Fields()
	sw := ""
	if fd := fds.ByName("SwampName"); fd != nil && fd.Kind() == protoreflect.StringKind && !fd.IsList() {
		sw = m.Get(fd).String()
	}
	keysOf := func(x protoreflect.Message) (ks []string) {
		xf := x.Descriptor().Fields()
		if fd := xf.ByName("Key"); fd != nil && fd.Kind() == protoreflect.StringKind && !fd.IsList() {
			ks = append(ks, x.Get(fd).String())
		}
		if fd := xf.ByName("Keys"); fd != nil && fd.Kind() == protoreflect.StringKind && fd.IsList() {
			l := x.Get(fd).List()
			for i := 0; i < l.Len() && i < 50; i++ {
				ks = append(ks, l.Get(i).String())
			}
		}
		return
	}
	if strings.Count(sw, "/") >= 2 && len(sw) < 1000 {
		ks := keysOf(m)
		for i := 0; i < fds.Len(); i++ {
			fd := fds.Get(i)
			if fd.Message() != nil && fd.IsList() && !fd.IsMap() {
				l := m.Get(fd).List()
				for k := 0; k < l.Len() && k < 50; k++ {
					ks = append(ks, keysOf(l.Get(k).Message())...)
				}
			}
		}
		for _, k := range ks {
			if strangeKey(k) {
				*out = append(*out, swampKey{sw, k})
			}
		}
	}
	if depth <= 0 {
		return
	}
	for i := 0; i < fds.Len(); i++ {
		fd := fds.Get(i)
		if fd.Message() == nil || fd.IsMap() || !m.Has(fd) {
			continue
		}
		if fd.IsList() {
			l := m.Get(fd).List()
			for k := 0; k < l.Len() && k < 20; k++ {
				strangeKeys(l.Get(k).Message(), depth-1, out)
			}
		} else {
			strangeKeys(m.Get(fd).Message(), depth-1, out)
		}
	}
}

// strangeKeyFollowUps: after a flush, read that very key, read the whole swamp in every way,
// write and delete the key again, and (every other case) destroy the swamp.
func strangeKeyFollowUps(sk swampKey, idx int) []followUp {
	t, k, is := sk.Swamp, sk.Key, safeIsland(sk.Swamp)
	fu := []followUp{
		{Name: "flush-wait", Sleep: 2500 * time.Millisecond},
		{Name: "Get-strange-key", RPC: "Get", Msg: &hydrapb.GetRequest{Swamps: []*hydrapb.GetSwamp{{IslandID: is, SwampName: t, Keys: []string{"str", k}}}}},
		{Name: "GetByKeys-strange-key", RPC: "GetByKeys", Msg: &hydrapb.GetByKeysRequest{IslandID: is, SwampName: t, Keys: []string{k}}},
		{Name: "IsKeyExist-strange-key", RPC: "IsKeyExist", Msg: &hydrapb.IsKeyExistRequest{IslandID: is, SwampName: t, Key: k}},
		{Name: "GetAll-after-strange-key", RPC: "GetAll", Msg: &hydrapb.GetAllRequest{IslandID: is, SwampName: t}},
		{Name: "Count-after-strange-key", RPC: "Count", Msg: &hydrapb.CountRequest{Swamps: []*hydrapb.CountRequest_SwampIdentifier{{IslandID: is, SwampName: t}}}},
		{Name: "GetByIndex-after-strange-key", RPC: "GetByIndex", Msg: &hydrapb.GetByIndexRequest{IslandID: is, SwampName: t, IndexType: hydrapb.IndexType_KEY}},
		{Name: "Set-strange-key-again", RPC: "Set", Msg: &hydrapb.SetRequest{Swamps: []*hydrapb.SwampRequest{{IslandID: is, SwampName: t, CreateIfNotExist: true, Overwrite: true,
			KeyValues: []*hydrapb.KeyValuePair{{Key: k, StringVal: ptr("again")}}}}}},
		{Name: "flush-wait", Sleep: 2500 * time.Millisecond},
		{Name: "Delete-strange-key", RPC: "Delete", Msg: &hydrapb.DeleteRequest{Swamps: []*hydrapb.DeleteRequest_SwampKeys{{IslandID: is, SwampName: t, Keys: []string{k}}}}},
		{Name: "flush-wait", Sleep: 2500 * time.Millisecond},
		{Name: "GetAll-after-strange-key", RPC: "GetAll", Msg: &hydrapb.GetAllRequest{IslandID: is, SwampName: t}},
	}
	if idx%2 == 1 {
		fu = append(fu, followUp{Name: "Destroy-after-strange-key", RPC: "Destroy", Msg: &hydrapb.DestroyRequest{IslandID: is, SwampName: t}})
	}
	return fu
}

// ---- follow-ups: requests that use what a request configured ---------------------------------

type followUp struct {
	Name  string
	RPC   string
	Msg   proto.Message
	Sleep time.Duration             // a virtual idle period instead of a request
	After func(o outcome) *followUp // one more request derived from this one's reply
}

// followUps returns the valid requests that exercise what the (accepted) request set up.
func followUps(ri rpcInfo, gc *genCase, o outcome, w *world, idx int) []followUp {
	if !o.OK || len(gc.Msgs) == 0 {
		return nil
	}
	var sks []swampKey
	for _, m := range gc.Msgs {
		strangeKeys(m.ProtoReflect(), 3, &sks)
	}
	if len(sks) > 0 {
		var fu []followUp
		seen := map[swampKey]bool{}
		for _, sk := range sks {
			if seen[sk] || len(seen) >= 2 {
				continue
			}
			seen[sk] = true
			fu = append(fu, strangeKeyFollowUps(sk, idx)...)
		}
		return fu
	}
	switch q := gc.Msgs[0].(type) {
	case *hydrapb.RegisterSwampRequest:
		return patternFollowUps(q.GetSwampPattern(), "RegisterSwamp", idx)
	case *hydrapb.DeRegisterSwampRequest:
		return patternFollowUps(q.GetSwampPattern(), "DeRegisterSwamp", idx)
	case *hydrapb.LockRequest:
		lr, ok := o.Resp.(*hydrapb.LockResponse)
		if !ok || q.GetKey() == "" {
			return nil
		}
		key := q.GetKey()
		return []followUp{
			{Name: "Heartbeat-after-Lock", RPC: "Heartbeat", Msg: &hydrapb.HeartbeatRequest{Ping: "p"}},
			{Name: "Unlock-after-Lock", RPC: "Unlock", Msg: &hydrapb.UnlockRequest{Key: key, LockID: lr.GetLockID()}},
			// whether the TTL already let go or the Unlock did: the key must be free again
			{Name: "Lock-again-after-Unlock", RPC: "Lock", Msg: &hydrapb.LockRequest{Key: key, TTL: 1000}, After: func(o2 outcome) *followUp {
				l2, ok := o2.Resp.(*hydrapb.LockResponse)
				if !ok {
					return nil
				}
				return &followUp{Name: "Unlock-again", RPC: "Unlock", Msg: &hydrapb.UnlockRequest{Key: key, LockID: l2.GetLockID()}}
			}},
		}
	}
	return nil
}

// patternFollowUps writes to, reads from, idles and re-reads a swamp that the pattern covers.
func patternFollowUps(pattern, after string, idx int) []followUp {
	p := strings.Split(pattern, "/")
	if len(p) < 3 {
		return nil
	}
	p = p[:3]
	for i := range p {
		if p[i] == "*" && i > 0 {
			p[i] = fmt.Sprintf("fz%d", idx%7)
		}
	}
	nm := strings.Join(p, "/")
	if strings.HasPrefix(nm, "canary/") || len(nm) > 60000 {
		return nil
	}
	is := safeIsland(nm)
	set := func(k string) proto.Message {
		return &hydrapb.SetRequest{Swamps: []*hydrapb.SwampRequest{{IslandID: is, SwampName: nm, CreateIfNotExist: true, Overwrite: true,
			KeyValues: []*hydrapb.KeyValuePair{{Key: k, StringVal: ptr("v-" + k)}, {Key: k + "-n", Int64Val: ptr(int64(idx))}}}}}
	}
	get := &hydrapb.GetRequest{Swamps: []*hydrapb.GetSwamp{{IslandID: is, SwampName: nm, Keys: []string{"a", "b"}}}}
	return []followUp{
		{Name: "Set-after-" + after, RPC: "Set", Msg: set("a")},
		{Name: "Get-after-" + after, RPC: "Get", Msg: get},
		{Name: "idle", Sleep: 8 * time.Second},
		{Name: "Set-after-idle-after-" + after, RPC: "Set", Msg: set("b")},
		{Name: "Get-after-idle-after-" + after, RPC: "Get", Msg: proto.Clone(get)},
		{Name: "Delete-after-" + after, RPC: "Delete", Msg: &hydrapb.DeleteRequest{Swamps: []*hydrapb.DeleteRequest_SwampKeys{{IslandID: is, SwampName: nm, Keys: []string{"a"}}}}},
		{Name: "Count-after-" + after, RPC: "Count", Msg: &hydrapb.CountRequest{Swamps: []*hydrapb.CountRequest_SwampIdentifier{{IslandID: is, SwampName: nm}}}},
	}
}

// ---- one generated case ---------------------------------------------------------------------

type genCase struct {
	RPC    string
	Idx    int
	Style  string   // seed | sweep | patch-sweep | mutate1 | mutateN | generic | no-message
	PatchT []string // patch-sweep: the swamps whose expired records must stay claimable
	Labels []string
	Msgs   []proto.Message // canonical (as decoded from the wire)
	Wires  [][]byte
	Bytes  int
}

const maxCaseBytes = 3 << 20

// buildCase derives case idx of an RPC. Everything random comes from r.
func buildCase(ri rpcInfo, idx int, w *world, r *rand.Rand) *genCase {
	gc := &genCase{RPC: ri.Name, Idx: idx}
	seed := seedRequest(ri.Name, w, r)
	x := r.IntN(100)
	var msgs []proto.Message
	local := idx % grpcIdxBase
	k := -1
	if local < sweepPerMode {
		k = local
		if idx >= grpcIdxBase {
			k += sweepGrpcOffset
		}
	}
	swept := false
	if seed != nil && k >= 0 {
		if lb, ok := sweep(seed[0].ProtoReflect(), k); ok {
			gc.Style, gc.Labels, msgs, swept = "sweep", []string{lb}, seed, true
		}
	}
	if kk := local - sweepPerMode; !swept && kk >= 0 && kk < patchSweepPerMode {
		if idx >= grpcIdxBase {
			kk += patchSweepGrpcOffset
		}
		if pm, lb, ts, ok := patchSweep(ri.Name, kk, w); ok {
			gc.Style, gc.Labels, gc.PatchT, msgs, swept = "patch-sweep", []string{lb}, ts, pm, true
		}
	}
	switch {
	case swept:
	case seed == nil || x < 15:
		gc.Style = "generic"
		n := 1
		if ri.ClientStream {
			n = 1 + r.IntN(3)
		}
		for i := 0; i < n; i++ {
			m := newMessage(ri.In)
			fill(m.ProtoReflect(), w, r, 4)
			msgs = append(msgs, m)
		}
		gc.Labels = []string{"all-fields-generated"}
	case x < 22:
		gc.Style = "seed"
		msgs = seed
	case ri.ClientStream && x < 27:
		gc.Style = "no-message"
		gc.Labels = []string{"stream-closed-without-request"}
	default:
		n := 1
		gc.Style = "mutate1"
		if x >= 70 {
			n = 2 + r.IntN(2)
			gc.Style = "mutateN"
		}
		msgs = seed
		for i := 0; i < n; i++ {
			k := r.IntN(len(msgs))
			lb := mutate(msgs[k].ProtoReflect(), w, r)
			if len(msgs) > 1 {
				lb = fmt.Sprintf("msg%d.%s", k, lb)
			}
			gc.Labels = append(gc.Labels, lb)
		}
	}
	if ri.Name == "Lock" {
		// business-lock contention between requests is C14's subject; here a Lock that waits
		// for an earlier request's lock would be indistinguishable from a hang
		for _, m := range msgs {
			if lr, ok := m.(*hydrapb.LockRequest); ok && lr.Key != "" {
				lr.Key = fmt.Sprintf("%s#%d", lr.Key, idx)
			}
		}
	}
	for _, m := range msgs {
		b, err := proto.Marshal(m)
		if err != nil || gc.Bytes+len(b) > maxCaseBytes {
			// not transmittable (or too big for this harness): fall back to the empty request
			m = newMessage(ri.In)
			b, _ = proto.Marshal(m)
			gc.Labels = append(gc.Labels, "replaced-by-empty-request")
		}
		c := newMessage(ri.In)
		if err := proto.Unmarshal(b, c); err != nil {
			c = newMessage(ri.In)
			b = nil
		}
		gc.Msgs = append(gc.Msgs, c)
		gc.Wires = append(gc.Wires, b)
		gc.Bytes += len(b)
	}
	return gc
}
