package c26

import (
	"context"
	"errors"
	"fmt"
	"io"
	"net"
	"regexp"
	"runtime/debug"
	"sort"
	"strings"
	"sync"
	"time"

	hydrapb "github.com/hydraide/hydraide/sdk/go/hydraidego/v3/hydraidepbgo"
	"google.golang.org/grpc"
	"google.golang.org/grpc/codes"
	"google.golang.org/grpc/credentials/insecure"
	"google.golang.org/grpc/metadata"
	"google.golang.org/grpc/status"
	"google.golang.org/grpc/test/bufconn"
	"google.golang.org/protobuf/proto"
	"google.golang.org/protobuf/reflect/protoreflect"
	"google.golang.org/protobuf/reflect/protoregistry"
	"google.golang.org/protobuf/types/dynamicpb"
)

// ---- RPC catalogue, by reflection ----------------------------------------------------------

type rpcInfo struct {
	Name         string
	Full         string
	Unary        *grpc.MethodDesc
	Stream       *grpc.StreamDesc
	In, Out      protoreflect.MessageDescriptor
	ClientStream bool
	ServerStream bool
}

// catalogue lists every RPC registered in HydraideService_ServiceDesc (what the real server
// dispatches on) and joins it with the method's message descriptors from the file descriptor.
func catalogue() ([]rpcInfo, error) {
	sd := hydrapb.HydraideService_ServiceDesc
	svc := hydrapb.File_hydraide_proto.Services().ByName(protoreflect.Name(sd.ServiceName[strings.LastIndex(sd.ServiceName, ".")+1:]))
	if svc == nil {
		return nil, fmt.Errorf("service %s not in file descriptor", sd.ServiceName)
	}
	var out []rpcInfo
	add := func(name string, u *grpc.MethodDesc, s *grpc.StreamDesc) error {
		md := svc.Methods().ByName(protoreflect.Name(name))
		if md == nil {
			return fmt.Errorf("method %s not in descriptor", name)
		}
		out = append(out, rpcInfo{Name: name, Full: "/" + sd.ServiceName + "/" + name, Unary: u, Stream: s,
			In: md.Input(), Out: md.Output(), ClientStream: md.IsStreamingClient(), ServerStream: md.IsStreamingServer()})
		return nil
	}
	for i := range sd.Methods {
		if err := add(sd.Methods[i].MethodName, &sd.Methods[i], nil); err != nil {
			return nil, err
		}
	}
	for i := range sd.Streams {
		if err := add(sd.Streams[i].StreamName, nil, &sd.Streams[i]); err != nil {
			return nil, err
		}
	}
	if len(out) != svc.Methods().Len() {
		return nil, fmt.Errorf("service desc has %d RPCs, descriptor %d", len(out), svc.Methods().Len())
	}
	sort.Slice(out, func(i, j int) bool { return out[i].Name < out[j].Name })
	return out, nil
}

func newMessage(md protoreflect.MessageDescriptor) proto.Message {
	if mt, err := protoregistry.GlobalTypes.FindMessageByName(md.FullName()); err == nil {
		return mt.New().Interface()
	}
	return dynamicpb.NewMessage(md)
}

// ---- outcome of one request -----------------------------------------------------------------

type outcome struct {
	Returned bool
	OK       bool   // handler / client call ended without error
	RespNil  bool   // unary handler handed back a nil message with a nil error
	Code     string // status code (or "OK")
	ErrText  string
	Sent     int    // messages the server streamed
	Escaped  string // panic value that left the handler (direct mode only)
	EscStack string
	Timeout  bool          // grpc mode: wall-clock guard fired (inconclusive only)
	Blocked  bool          // stream that only ended when its context was cancelled
	Resp     proto.Message // direct mode, unary: the reply
}

func errCode(err error) string {
	if err == nil {
		return "OK"
	}
	if errors.Is(err, context.Canceled) {
		return "Canceled"
	}
	if st, ok := status.FromError(err); ok {
		return st.Code().String()
	}
	return "non-status"
}

// ---- direct mode: the generated grpc handlers, without a transport --------------------------

type fakeSS struct {
	ctx  context.Context
	mu   sync.Mutex
	in   [][]byte
	pos  int
	sent int
}

func (s *fakeSS) SetHeader(metadata.MD) error  { return nil }
func (s *fakeSS) SendHeader(metadata.MD) error { return nil }
func (s *fakeSS) SetTrailer(metadata.MD)       {}
func (s *fakeSS) Context() context.Context     { return s.ctx }
func (s *fakeSS) SendMsg(m any) error {
	if err := s.ctx.Err(); err != nil {
		return status.FromContextError(err).Err()
	}
	pm, ok := m.(proto.Message)
	if !ok {
		return status.Error(codes.Internal, "not a proto message")
	}
	if _, err := proto.Marshal(pm); err != nil { // what the transport would do
		return status.Error(codes.Internal, "marshal: "+err.Error())
	}
	s.mu.Lock()
	s.sent++
	s.mu.Unlock()
	return nil
}
func (s *fakeSS) RecvMsg(m any) error {
	s.mu.Lock()
	defer s.mu.Unlock()
	if s.pos >= len(s.in) {
		return io.EOF
	}
	b := s.in[s.pos]
	s.pos++
	return proto.Unmarshal(b, m.(proto.Message))
}

// c26HandlerTrampoline is the frame the hang reporter looks for in goroutine dumps.
//
//go:noinline
func c26HandlerTrampoline(f func()) { f() }

// invokeDirect runs the request through the same generated handler grpc would call. A panic
// that leaves the handler is captured (grpc-go does not recover handler panics: in the real
// server it terminates the process).
func invokeDirect(ctx context.Context, srv any, ri rpcInfo, wires [][]byte) (o outcome) {
	c26HandlerTrampoline(func() {
		defer func() {
			if r := recover(); r != nil {
				o.Escaped = fmt.Sprint(r)
				o.EscStack = string(debug.Stack())
				o.Returned = true
			}
		}()
		if ri.Unary != nil {
			dec := func(v any) error {
				if len(wires) == 0 {
					return io.EOF
				}
				return proto.Unmarshal(wires[0], v.(proto.Message))
			}
			resp, err := ri.Unary.Handler(srv, ctx, dec, nil)
			o.Returned, o.OK, o.Code = true, err == nil, errCode(err)
			if err != nil {
				o.ErrText = err.Error()
			} else {
				pm, ok := resp.(proto.Message)
				if !ok || pm == nil || !pm.ProtoReflect().IsValid() {
					o.RespNil = true
				} else if _, merr := proto.Marshal(pm); merr != nil {
					o.OK, o.Code, o.ErrText = false, "Internal", "marshal: "+merr.Error()
				} else {
					o.Resp = pm
				}
			}
			return
		}
		ss := &fakeSS{ctx: ctx, in: wires}
		err := ri.Stream.Handler(srv, ss)
		o.Returned, o.OK, o.Code, o.Sent = true, err == nil, errCode(err), ss.sent
		if err != nil {
			o.ErrText = err.Error()
		}
	})
	return
}

// ---- grpc mode: real server + client over bufconn -------------------------------------------

type wire struct {
	lis  *bufconn.Listener
	srv  *grpc.Server
	conn *grpc.ClientConn
}

const maxMsg = 100 << 20 // the server's default GRPC_MAX_MESSAGE_SIZE

func newWire(srv any) (*wire, error) {
	w := &wire{lis: bufconn.Listen(4 << 20)}
	// WaitForHandlers: Stop returns only when every handler has returned, so that the
	// post-batch checks never look at a handler that is still running
	w.srv = grpc.NewServer(grpc.MaxRecvMsgSize(maxMsg), grpc.MaxSendMsgSize(maxMsg), grpc.WaitForHandlers(true))
	w.srv.RegisterService(&hydrapb.HydraideService_ServiceDesc, srv)
	go func() { _ = w.srv.Serve(w.lis) }()
	conn, err := grpc.NewClient("passthrough:///c26",
		grpc.WithContextDialer(func(ctx context.Context, _ string) (net.Conn, error) { return w.lis.DialContext(ctx) }),
		grpc.WithTransportCredentials(insecure.NewCredentials()),
		grpc.WithDefaultCallOptions(grpc.MaxCallRecvMsgSize(maxMsg), grpc.MaxCallSendMsgSize(maxMsg)))
	if err != nil {
		return nil, err
	}
	w.conn = conn
	return w, nil
}

// close shuts the pair down and reports whether every handler had returned (Stop waits for
// them; a handler that never returns is given 15 s of wall time, then left behind).
func (w *wire) close() bool {
	_ = w.conn.Close()
	done := make(chan struct{})
	go func() { w.srv.Stop(); close(done) }()
	select {
	case <-done:
		_ = w.lis.Close()
		return true
	case <-time.After(15 * time.Second):
		return false
	}
}

const (
	grpcGuard      = 40 * time.Second       // wall-clock guard, produces "inconclusive" only
	grpcStreamPeek = 100 * time.Millisecond // how long a server stream may stay silent before the client cancels
)

// invokeGRPC sends the request as a client would and reports what the client sees.
func (w *wire) invokeGRPC(ri rpcInfo, msgs []proto.Message, poke func()) (o outcome) {
	ctx, cancel := context.WithTimeout(context.Background(), grpcGuard)
	defer cancel()
	if ri.Unary != nil {
		resp := newMessage(ri.Out)
		var req proto.Message = newMessage(ri.In)
		if len(msgs) > 0 {
			req = msgs[0]
		}
		err := w.conn.Invoke(ctx, ri.Full, req, resp)
		o.Returned, o.OK, o.Code = true, err == nil, errCode(err)
		if err == nil {
			o.Resp = resp
		}
		if err != nil {
			o.ErrText = err.Error()
			if ctx.Err() != nil && status.Code(err) == codes.DeadlineExceeded {
				o.Timeout = true
			}
		}
		return
	}
	cs, err := w.conn.NewStream(ctx, &grpc.StreamDesc{ServerStreams: ri.ServerStream, ClientStreams: ri.ClientStream}, ri.Full)
	if err != nil {
		o.Returned, o.Code, o.ErrText = true, errCode(err), err.Error()
		return
	}
	for _, m := range msgs {
		if err := cs.SendMsg(m); err != nil {
			break // the status comes from RecvMsg
		}
	}
	_ = cs.CloseSend()
	type res struct {
		n   int
		err error
	}
	done := make(chan res, 1)
	first := make(chan struct{}, 1)
	go func() {
		n := 0
		for {
			m := newMessage(ri.Out)
			if err := cs.RecvMsg(m); err != nil {
				done <- res{n, err}
				return
			}
			n++
			select {
			case first <- struct{}{}:
			default:
			}
		}
	}()
	finish := func(r res) {
		o.Returned, o.Sent = true, r.n
		if r.err == io.EOF {
			o.OK, o.Code = true, "OK"
		} else {
			o.Code, o.ErrText = errCode(r.err), r.err.Error()
		}
	}
	select {
	case r := <-done:
		finish(r)
		return
	case <-time.After(grpcStreamPeek):
	}
	// silent or long-running stream: a subscription. Make it deliver something, then hang up:
	// the server must let go.
	poke()
	select {
	case r := <-done:
		finish(r)
		return
	case <-time.After(grpcStreamPeek):
	}
	cancel()
	select {
	case r := <-done:
		finish(r)
		o.Blocked = true
	case <-time.After(grpcGuard):
		o.Timeout = true
	}
	return
}

// ---- classes for signatures -----------------------------------------------------------------

var (
	reDigits = regexp.MustCompile(`0x[0-9a-fA-F]+|\d+`)
	reSpace  = regexp.MustCompile(`[^A-Za-z0-9_.:/\[\]()<>=*#-]+`)
	reFrame  = regexp.MustCompile(`(?m)^(github\.com/hydraide/hydraide/app/[^\s(]+(?:\([^)]*\))?[^\s(]*)\(`)
	reClos   = regexp.MustCompile(`\.func\d+(\.\d+)*|\.gowrap\d+`)
)

func normMsg(s string) string {
	s = strings.TrimSpace(s)
	if i := strings.IndexByte(s, '\n'); i >= 0 {
		s = s[:i]
	}
	s = reDigits.ReplaceAllString(s, "N")
	s = reSpace.ReplaceAllString(s, "_")
	if len(s) > 90 {
		s = s[:90]
	}
	return strings.Trim(s, "_")
}

func shortFrame(f string) string {
	f = strings.TrimPrefix(f, "github.com/hydraide/hydraide/app/")
	f = reClos.ReplaceAllString(f, "")
	return f
}

// topFrame finds the first hydraide frame below the panic() call in a stack dump (or the
// first hydraide frame at all when there is no panic line), skipping the recover helpers.
func topFrame(stack string) string {
	if i := strings.Index(stack, "\npanic("); i >= 0 {
		stack = stack[i:]
	}
	for _, m := range reFrame.FindAllStringSubmatch(stack, -1) {
		f := shortFrame(m[1])
		if strings.HasSuffix(f, "handlePanic") || strings.HasPrefix(f, "panichandler.") || strings.HasPrefix(f, "paniclogger.") {
			continue
		}
		return f
	}
	return "?"
}

// panicClass reduces a sentinel panic record ("error=<value> stack=<trace>") to
// <normalised message>@<function that panicked>.
func panicClass(attrs string) string {
	msg, stack := attrs, ""
	if i := strings.Index(attrs, "error="); i >= 0 {
		msg = attrs[i+6:]
	}
	if i := strings.Index(msg, " stack="); i >= 0 {
		stack = msg[i+7:]
		msg = msg[:i]
	}
	return normMsg(msg) + "@" + topFrame(stack)
}
