package c14

// FIFO-with-TTL reference model of the business lock, written from
// docs/features/built-in-business-lock.md, the Lock/Unlock comments in proto/hydraide.proto, the
// SDK doc comments of Lock/Unlock and the interface comment of lock.Lock:
//
//   * the first caller on a free key gets the lock at once; later callers block and are granted
//     in arrival order ("queueing ... FIFO ordering"), immediately when the previous holder leaves;
//   * a lock ends by Unlock(key, id-of-that-grant) or when its TTL — "how long the lock should
//     remain valid", i.e. counted from the grant — has run out; then the next live waiter proceeds;
//   * Unlock with an id that is not the id of the current grant on that key fails and changes nothing;
//   * a waiter whose context ends returns an error and does not take a turn (raw lock); cancelling
//     the context of a caller that already holds the lock does not release it.
//
// Deliberately permissive points (documentation silent or contradictory), decided from what the
// real lock did:
//   * gateway handler + cancelled request context: the handler may ignore it (what it does today,
//     context.WithoutCancel) or return an error at that instant and leave the queue;
//   * a waiter that has waited exactly its own TTL may give up with an error at that instant
//     (proto: "If the lock cannot be acquired within this TTL, the call returns an error") or keep
//     waiting (what the code does);
//   * Lock with an already-cancelled context on a free key: granted or refused.

const (
	stWaiting = iota
	stHolding
	stReleased // was granted, grant is over
	stFailed   // returned an error without ever holding
)

type mCaller struct {
	Key       int
	TTL       int64 // effective TTL, ms
	CallAt    int64
	DL        int64 // absolute context deadline (0 = none)
	State     int
	GrantAt   int64
	Cause     string // how it was granted: free-key | after-unlock | after-ttl
	EndAt     int64
	EndCause  string
	Cancelled bool // its context has ended (cancel op or deadline)
	WaitDone  bool // the instant CallAt+TTL has passed while it was waiting
}

type mKey struct {
	Queue  []int // head = holder
	Expiry int64
	Past   []int  // callers whose grant on this key is over (their ids are stale)
	Last   string // last thing that happened on this key (signature context)
}

// obsFn reports what the real caller goroutine has done so far.
type obsFn func(c int) (returned bool, at int64, ok bool)

type model struct {
	Gateway bool
	Callers map[int]*mCaller
	Order   []int
	Keys    []*mKey
	Now     int64
	Tie     string // set when two events coincide: expected order undefined
	obs     obsFn

	// coverage
	Handoffs, TTLHandoffs, TTLFrees, CancelledWaiters, BadUnlockWhileHeld, CancelOfHolder, AltTaken int
}

func newModel(gateway bool, nkeys int, obs obsFn) *model {
	m := &model{Gateway: gateway, Callers: map[int]*mCaller{}, obs: obs}
	for i := 0; i < nkeys+1; i++ { // +1: a key nobody ever locks
		m.Keys = append(m.Keys, &mKey{Last: "start"})
	}
	return m
}

func (m *model) effTTL(ttl int64) int64 {
	if m.Gateway && ttl <= 1000 {
		return 1000 // handler: "Set the TTL to the required minimum value"
	}
	return ttl
}

func (m *model) holder(k int) int {
	if q := m.Keys[k].Queue; len(q) > 0 {
		return q[0]
	}
	return -1
}

func (m *model) waiters() []int {
	var out []int
	for _, c := range m.Order {
		if m.Callers[c].State == stWaiting {
			out = append(out, c)
		}
	}
	return out
}

func (m *model) grant(c int, at int64, cause string) {
	mc := m.Callers[c]
	mc.State, mc.GrantAt, mc.Cause = stHolding, at, cause
	m.Keys[mc.Key].Expiry = at + mc.TTL
}

func (m *model) releaseHead(k int, at int64, cause string) {
	key := m.Keys[k]
	h := key.Queue[0]
	mc := m.Callers[h]
	mc.State, mc.EndAt, mc.EndCause = stReleased, at, cause
	key.Queue = key.Queue[1:]
	key.Past = append(key.Past, h)
	key.Last = cause
	if len(key.Queue) > 0 {
		m.Handoffs++
		if cause == "ttl" {
			m.TTLHandoffs++
		}
		m.grant(key.Queue[0], at, "after-"+cause)
	} else if cause == "ttl" {
		m.TTLFrees++
	}
}

func (m *model) dropWaiter(c int, at int64, cause string) {
	mc := m.Callers[c]
	key := m.Keys[mc.Key]
	for i, x := range key.Queue {
		if x == c {
			key.Queue = append(key.Queue[:i:i], key.Queue[i+1:]...)
			break
		}
	}
	mc.State, mc.EndAt, mc.EndCause = stFailed, at, cause
	key.Last = cause
}

func (m *model) erroredAt(c int, at int64) bool {
	if m.obs == nil {
		return false
	}
	ret, t, ok := m.obs(c)
	return ret && !ok && t == at
}

// ctxEnded applies "the context of caller c ended at instant at".
func (m *model) ctxEnded(c int, at int64, cause string) {
	mc := m.Callers[c]
	mc.Cancelled = true
	switch mc.State {
	case stWaiting:
		if m.Gateway {
			if m.erroredAt(c, at) { // permissive alternative
				m.AltTaken++
				m.dropWaiter(c, at, cause)
				m.CancelledWaiters++
			} else {
				m.Keys[mc.Key].Last = cause + "-ignored"
			}
			return
		}
		m.dropWaiter(c, at, cause)
		m.CancelledWaiters++
	case stHolding:
		m.CancelOfHolder++
		m.Keys[mc.Key].Last = cause + "-of-holder"
	}
}

type mEvent struct {
	At   int64
	Kind string // ttl | deadline | wait-ttl
	Key  int
	C    int
}

// next returns the earliest pending timer events (all those at the earliest instant).
func (m *model) next() []mEvent {
	var evs []mEvent
	add := func(e mEvent) {
		if len(evs) > 0 && e.At > evs[0].At {
			return
		}
		if len(evs) > 0 && e.At < evs[0].At {
			evs = evs[:0]
		}
		evs = append(evs, e)
	}
	for k, key := range m.Keys {
		if len(key.Queue) > 0 {
			add(mEvent{At: key.Expiry, Kind: "ttl", Key: k, C: key.Queue[0]})
		}
	}
	for _, c := range m.Order {
		mc := m.Callers[c]
		if mc.State != stWaiting {
			continue
		}
		if mc.DL > 0 && !mc.Cancelled {
			add(mEvent{At: mc.DL, Kind: "deadline", Key: mc.Key, C: c})
		}
		if !mc.WaitDone {
			add(mEvent{At: mc.CallAt + mc.TTL, Kind: "wait-ttl", Key: mc.Key, C: c})
		}
	}
	return evs
}

// advance applies every timer event up to instant to (exclusive unless incl).
func (m *model) advance(to int64, incl bool) {
	for m.Tie == "" {
		evs := m.next()
		if len(evs) == 0 || evs[0].At > to || (evs[0].At == to && !incl) {
			if len(evs) > 0 && evs[0].At == to && !incl {
				m.Tie = "timer-at-step-instant:" + evs[0].Kind
			}
			break
		}
		if len(evs) > 1 {
			m.Tie = "timers-coincide:" + evs[0].Kind + "+" + evs[1].Kind
			break
		}
		e := evs[0]
		m.Now = e.At
		switch e.Kind {
		case "ttl":
			m.releaseHead(e.Key, e.At, "ttl")
		case "deadline":
			m.ctxEnded(e.C, e.At, "deadline")
		case "wait-ttl":
			// consumed either way: the instant has passed
			m.Callers[e.C].WaitDone = true
			if m.erroredAt(e.C, e.At) {
				m.AltTaken++
				m.dropWaiter(e.C, e.At, "wait-ttl")
			}
		}
	}
	if m.Now < to {
		m.Now = to
	}
}

func (m *model) pending() bool { return len(m.next()) > 0 }

// lock applies a Lock call at the current instant. pre = context already cancelled.
func (m *model) lock(c, k int, ttl, dl int64, pre bool) {
	mc := &mCaller{Key: k, TTL: m.effTTL(ttl), CallAt: m.Now, State: stWaiting}
	if dl > 0 {
		mc.DL = m.Now + dl
	}
	m.Callers[c] = mc
	m.Order = append(m.Order, c)
	key := m.Keys[k]
	if pre {
		mc.Cancelled = true
		if !m.Gateway {
			if len(key.Queue) > 0 {
				mc.State, mc.EndAt, mc.EndCause = stFailed, m.Now, "pre-cancelled"
				key.Last = "pre-cancelled-lock"
				m.CancelledWaiters++
				return
			}
			if m.erroredAt(c, m.Now) { // free key + dead context: either outcome
				m.AltTaken++
				mc.State, mc.EndAt, mc.EndCause = stFailed, m.Now, "pre-cancelled"
				return
			}
		} else if m.erroredAt(c, m.Now) {
			m.AltTaken++
			mc.State, mc.EndAt, mc.EndCause = stFailed, m.Now, "pre-cancelled"
			return
		}
	}
	key.Queue = append(key.Queue, c)
	key.Last = "lock"
	if len(key.Queue) == 1 {
		m.grant(c, m.Now, "free-key")
	}
}

// unlockHolder applies the holder's own unlock on key k.
func (m *model) unlockHolder(k int) { m.releaseHead(k, m.Now, "unlock") }

// badUnlock notes an unlock that must fail and change nothing.
func (m *model) badUnlock(k int, who string) {
	if len(m.Keys[k].Queue) > 0 {
		m.BadUnlockWhileHeld++
	}
	m.Keys[k].Last = "unlock-" + who
}
