// C14 — business lock: exclusive, FIFO, TTL-released, deadlock-free.
//
// W1: generated scripts (Lock with TTL / optional context deadline / already-dead context, Unlock
// by the holder / with a stale id / with the id of another key's holder / with a never-issued id /
// on a never-locked key, context cancellation of waiters and of holders, "never unlock") are run at
// generated virtual instants inside a synctest bubble against the real lock.Lock and against the
// gateway's Lock/Unlock handlers (rig). After every step the bubble is run to quiescence and every
// caller's observation (returned?, virtual instant, id / error) is compared with the FIFO-with-TTL
// reference model in model_test.go. At the end of each script virtual time is driven past every
// TTL: nobody may still be blocked and no goroutine may remain inside the lock package.
// W2: real-time stress under -race (exclusivity counter, plain shared variable, own unlock must
// succeed) plus the same workload inside a bubble where quiescence decides "nobody lost a wake-up".
// Everything runs in child processes so that a stuck bubble cannot take the monitor down.
package c14

import (
	"context"
	"fmt"
	"math/rand/v2"
	"os"
	"regexp"
	"runtime"
	"strings"
	"sync"
	"sync/atomic"
	"testing"
	"testing/synctest"
	"time"

	"github.com/hydraide/hydraide/app/core/hydra/lock"
	hydrapb "github.com/hydraide/hydraide/sdk/go/hydraidego/v3/hydraidepbgo"

	"verifharness/rig"
)

const step = 10000 // ms between two script steps

type op struct {
	At   int64  `json:"at"`            // virtual ms since script start (multiple of step)
	K    string `json:"k"`             // lock | unlock | cancel
	C    int    `json:"c,omitempty"`   // lock: the new caller; cancel: whose context
	Key  int    `json:"key"`           // key index
	TTL  int64  `json:"ttl,omitempty"` // ms
	DL   int64  `json:"dl,omitempty"`  // context deadline, ms after the call (0 = none)
	Pre  bool   `json:"pre,omitempty"` // context already cancelled when Lock is called
	Who  string `json:"who,omitempty"` // unlock: holder | stale | foreign | bogus | unused-key
	Pick int    `json:"pick,omitempty"`
}

type script struct {
	Target string `json:"target"` // raw | gateway
	NKeys  int    `json:"nkeys"`
	Ops    []op   `json:"ops"`
}

var bogusIDs = []string{"not-a-lock-id", "00000000-0000-4000-8000-000000000000", "0", " "}

// ---------------------------------------------------------------------------------------------
// generation

func genTTL(r *rand.Rand, gateway bool) int64 {
	if gateway && r.IntN(8) == 0 {
		return []int64{0, -3, 1, 999, 1000, 1001}[r.IntN(6)]
	}
	res := int64(1 + r.IntN(step-1))
	switch x := r.IntN(10); {
	case x < 3:
		return res
	case x < 7:
		return int64(1+r.IntN(4))*step + res
	default:
		return 200*step + res // longer than any script: only an unlock ends it before the drain
	}
}

func genOnce(r *rand.Rand, target string) (script, bool) {
	sc := script{Target: target, NKeys: 1 + r.IntN(3)}
	m := newModel(target == "gateway", sc.NKeys, nil)
	maxCallers := 2 + r.IntN(7)
	nops := 4 + r.IntN(21)
	callers := 0
	at := int64(0)
	for tries := 0; len(sc.Ops) < nops && tries < 400; tries++ {
		if at > 0 && r.IntN(4) == 0 {
			at += 300 // a close follow-up (lets callers queue behind a holder with the gateway's 1000 ms floor TTL)
		} else {
			at = (at/step + int64(1+r.IntN(3))) * step
		}
		m.advance(at, false)
		if m.Tie != "" {
			return sc, false
		}
		var held, past []int
		for k := 0; k < sc.NKeys; k++ {
			if m.holder(k) >= 0 {
				held = append(held, k)
			}
			if len(m.Keys[k].Past) > 0 {
				past = append(past, k)
			}
		}
		o := op{At: at}
		x := r.IntN(100)
		if callers < 2 && x >= 40 {
			x = r.IntN(40)
		}
		switch {
		case x < 40:
			if callers >= maxCallers {
				continue
			}
			callers++
			o.K, o.C, o.Key, o.TTL = "lock", callers, r.IntN(sc.NKeys), genTTL(r, m.Gateway)
			if len(held) > 0 && r.IntN(3) > 0 {
				o.Key = held[r.IntN(len(held))] // prefer contention
			}
			if r.IntN(2) == 0 {
				res := int64(1 + r.IntN(step-1))
				if r.IntN(2) == 0 {
					o.DL = res
				} else {
					o.DL = int64(1+r.IntN(4))*step + res
				}
			}
			if r.IntN(20) == 0 && (m.Gateway || m.holder(o.Key) >= 0) {
				o.Pre = true
			}
			m.lock(o.C, o.Key, o.TTL, o.DL, o.Pre)
		case x < 64:
			if len(held) == 0 {
				continue
			}
			o.K, o.Who, o.Key = "unlock", "holder", held[r.IntN(len(held))]
			m.unlockHolder(o.Key)
		case x < 73:
			if len(past) == 0 {
				continue
			}
			o.K, o.Who, o.Key, o.Pick = "unlock", "stale", past[r.IntN(len(past))], r.IntN(1<<16)
			m.badUnlock(o.Key, o.Who)
		case x < 80:
			if len(held) == 0 || sc.NKeys < 2 {
				continue
			}
			// id of the holder of another key, presented on key o.Key
			o.K, o.Who, o.Key, o.Pick = "unlock", "foreign", r.IntN(sc.NKeys), r.IntN(1<<16)
			if len(held) == 1 && held[0] == o.Key {
				o.Key = (o.Key + 1) % sc.NKeys
			}
			m.badUnlock(o.Key, o.Who)
		case x < 84:
			o.K, o.Who, o.Key, o.Pick = "unlock", "bogus", r.IntN(sc.NKeys), r.IntN(len(bogusIDs))
			m.badUnlock(o.Key, o.Who)
		case x < 86:
			if len(held) == 0 {
				continue
			}
			// a live id presented on a key nobody ever locked
			o.K, o.Who, o.Key, o.Pick = "unlock", "unused-key", sc.NKeys, r.IntN(1<<16)
			m.badUnlock(o.Key, o.Who)
		case x < 96:
			w := m.waiters()
			if len(w) == 0 {
				continue
			}
			o.K, o.C = "cancel", w[r.IntN(len(w))]
			o.Key = m.Callers[o.C].Key
			m.ctxEnded(o.C, at, "cancel")
		default:
			if len(held) == 0 {
				continue
			}
			o.K, o.Key = "cancel", held[r.IntN(len(held))]
			o.C = m.holder(o.Key)
			m.ctxEnded(o.C, at, "cancel")
		}
		sc.Ops = append(sc.Ops, o)
	}
	for m.pending() && m.Tie == "" {
		m.advance(m.next()[0].At, true)
	}
	return sc, m.Tie == "" && callers >= 2 && len(sc.Ops) >= 3
}

func gen(c *rig.Check, idx int) script {
	r := c.Rand(idx)
	target := "raw"
	if r.IntN(5) < 2 {
		target = "gateway"
	}
	for {
		if sc, ok := genOnce(r, target); ok {
			return sc
		}
	}
}

// fixedCases: the sequences the property text and the documentation name explicitly.
func fixedCases() []script {
	var out []script
	for _, tg := range []string{"raw", "gateway"} {
		// three callers, holder never unlocks: TTL frees, FIFO hand-over, second unlocks, third expires
		out = append(out, script{Target: tg, NKeys: 1, Ops: []op{
			{At: 1 * step, K: "lock", C: 1, Key: 0, TTL: 2*step + 137},
			{At: 2 * step, K: "lock", C: 2, Key: 0, TTL: 5*step + 211},
			{At: 3 * step, K: "lock", C: 3, Key: 0, TTL: 1 * step / 2},
			{At: 5 * step, K: "unlock", Who: "stale", Key: 0},
			{At: 6 * step, K: "unlock", Who: "holder", Key: 0},
		}})
		// waiter cancelled in the middle of the queue must not take a turn and must not block the one behind
		out = append(out, script{Target: tg, NKeys: 1, Ops: []op{
			{At: 1 * step, K: "lock", C: 1, Key: 0, TTL: 200*step + 1},
			{At: 2 * step, K: "lock", C: 2, Key: 0, TTL: 3*step + 7},
			{At: 3 * step, K: "lock", C: 3, Key: 0, TTL: 1*step + 9},
			{At: 4 * step, K: "cancel", C: 2, Key: 0},
			{At: 5 * step, K: "unlock", Who: "holder", Key: 0},
		}})
		// foreign id (holder of key 1) presented on key 0 and on a never-locked key; bogus ids
		out = append(out, script{Target: tg, NKeys: 2, Ops: []op{
			{At: 1 * step, K: "lock", C: 1, Key: 0, TTL: 200*step + 3},
			{At: 2 * step, K: "lock", C: 2, Key: 1, TTL: 200*step + 5},
			{At: 3 * step, K: "lock", C: 3, Key: 0, TTL: 1*step + 11},
			{At: 4 * step, K: "unlock", Who: "foreign", Key: 0},
			{At: 5 * step, K: "unlock", Who: "unused-key", Key: 2},
			{At: 6 * step, K: "unlock", Who: "bogus", Key: 0, Pick: 1},
			{At: 7 * step, K: "unlock", Who: "holder", Key: 1},
			{At: 8 * step, K: "unlock", Who: "holder", Key: 0},
			{At: 9 * step, K: "unlock", Who: "stale", Key: 0},
		}})
		// deadline of a waiter passes, later the holder's TTL expires with a live waiter behind
		out = append(out, script{Target: tg, NKeys: 1, Ops: []op{
			{At: 1 * step, K: "lock", C: 1, Key: 0, TTL: 4*step + 13},
			{At: 2 * step, K: "lock", C: 2, Key: 0, TTL: 1*step + 17, DL: 1*step + 19},
			{At: 3 * step, K: "lock", C: 3, Key: 0, TTL: 1*step + 23, DL: 4*step + 29},
			{At: 4 * step, K: "cancel", C: 1, Key: 0}, // context of the holder: must not release
		}})
	}
	// gateway TTL floor
	out = append(out, script{Target: "gateway", NKeys: 1, Ops: []op{
		{At: 1 * step, K: "lock", C: 1, Key: 0, TTL: 0},
		{At: 1*step + 300, K: "lock", C: 2, Key: 0, TTL: 7},
		{At: 1*step + 600, K: "lock", C: 3, Key: 0, TTL: 2500},
		{At: 3 * step, K: "lock", C: 4, Key: 0, TTL: -1},
		{At: 3*step + 300, K: "lock", C: 5, Key: 0, TTL: 1000},
	}})
	return out
}

// ---------------------------------------------------------------------------------------------
// the lock under test

type locker interface {
	Lock(ctx context.Context, key string, ttlMs int64) (string, error)
	Unlock(key, id string) error
}

type rawLocker struct{ l lock.Lock }

func (r rawLocker) Lock(ctx context.Context, key string, ttlMs int64) (string, error) {
	return r.l.Lock(ctx, key, time.Duration(ttlMs)*time.Millisecond)
}
func (r rawLocker) Unlock(key, id string) error { return r.l.Unlock(key, id) }

type gwLocker struct{ r *rig.Rig }

func (g gwLocker) Lock(ctx context.Context, key string, ttlMs int64) (string, error) {
	resp, err := g.r.GW.Lock(ctx, &hydrapb.LockRequest{Key: key, TTL: ttlMs})
	if err != nil {
		return "", err
	}
	if resp == nil {
		return "", fmt.Errorf("nil response and nil error")
	}
	return resp.GetLockID(), nil
}
func (g gwLocker) Unlock(key, id string) error {
	resp, err := g.r.GW.Unlock(context.Background(), &hydrapb.UnlockRequest{Key: key, LockID: id})
	if err == nil && resp == nil {
		return fmt.Errorf("nil response and nil error")
	}
	return err
}

// lockGoroutines counts the goroutines that have a frame inside the lock package.
func lockGoroutines() (int, []string) {
	buf := make([]byte, 1<<20)
	for {
		n := runtime.Stack(buf, true)
		if n < len(buf) {
			buf = buf[:n]
			break
		}
		buf = make([]byte, 2*len(buf))
	}
	var stacks []string
	n := 0
	for _, g := range strings.Split(string(buf), "\n\n") {
		if strings.Contains(g, "app/core/hydra/lock.") {
			n++
			if len(stacks) < 4 {
				if len(g) > 1500 {
					g = g[:1500]
				}
				stacks = append(stacks, g)
			}
		}
	}
	return n, stacks
}

// ---------------------------------------------------------------------------------------------
// W1 runner

type rec struct {
	mu       sync.Mutex
	returned bool
	at       int64
	id       string
	err      string
	cancel   context.CancelFunc
}

type outcome struct {
	Sig, What    string
	Trace        []string
	Inconclusive string
	Stuck        bool // goroutines inside the lock package could not be freed: the bubble cannot end
	Nontrivial   bool
	M            *model
	Skipped      int
}

func keyName(k int) string { return fmt.Sprintf("c14/key-%d", k) }

func runScript(t *testing.T, sc script) (out outcome) {
	var root string
	if sc.Target == "gateway" {
		root = rig.TempRoot("c14")
		defer rig.RemoveAll(root)
	}
	synctest.Test(t, func(t *testing.T) {
		var L locker
		var rg *rig.Rig
		if sc.Target == "gateway" {
			rg = rig.New(rig.Options{Root: root})
			L = gwLocker{rg}
		} else {
			L = rawLocker{lock.New()}
		}
		synctest.Wait()
		start := time.Now()
		now := func() int64 { return int64(time.Since(start) / time.Millisecond) }
		recs := map[int]*rec{}
		snap := func(c int) (ret bool, at int64, ok bool, id, errs string) {
			rc := recs[c]
			if rc == nil {
				return
			}
			rc.mu.Lock()
			defer rc.mu.Unlock()
			return rc.returned, rc.at, rc.err == "", rc.id, rc.err
		}
		m := newModel(sc.Target == "gateway", sc.NKeys, func(c int) (bool, int64, bool) {
			ret, at, ok, _, _ := snap(c)
			return ret, at, ok
		})
		out.M = m
		tg := sc.Target
		fail := func(sig, what string) {
			if out.Sig == "" {
				out.Sig, out.What = sig, what
			}
		}
		sleepUntil := func(at int64) {
			if d := at - now(); d > 0 {
				time.Sleep(time.Duration(d) * time.Millisecond)
			}
			synctest.Wait()
		}
		verify := func(phase string) {
			if out.Sig != "" || m.Tie != "" {
				return
			}
			var early, missing []int
			ids := map[string]int{}
			for _, c := range m.Order {
				mc := m.Callers[c]
				ret, at, ok, id, errs := snap(c)
				last := m.Keys[mc.Key].Last
				switch mc.State {
				case stWaiting:
					if ret && ok {
						early = append(early, c)
					} else if ret {
						fail("spurious-lock-error:"+tg+":after-"+last, fmt.Sprintf("caller %d waiting on key %d got error %q at %d ms although nothing ended its wait (%s)", c, mc.Key, errs, at, phase))
					}
				case stHolding, stReleased:
					switch {
					case !ret:
						missing = append(missing, c)
					case !ok:
						fail("lock-error:"+tg+":"+mc.Cause, fmt.Sprintf("caller %d on key %d must be granted at %d ms (%s) but Lock returned error %q at %d ms", c, mc.Key, mc.GrantAt, mc.Cause, errs, at))
					case at < mc.GrantAt:
						fail("grant-time:"+tg+":early:"+mc.Cause, fmt.Sprintf("caller %d on key %d granted at %d ms, model says %d ms (%s): the previous holder was still holding", c, mc.Key, at, mc.GrantAt, mc.Cause))
					case at > mc.GrantAt:
						fail("grant-time:"+tg+":late:"+mc.Cause, fmt.Sprintf("caller %d on key %d granted at %d ms, model says %d ms (%s)", c, mc.Key, at, mc.GrantAt, mc.Cause))
					case id == "":
						fail("lock-id:"+tg+":empty", fmt.Sprintf("caller %d granted with an empty lock id", c))
					default:
						if o, dup := ids[id]; dup {
							fail("lock-id:"+tg+":duplicate", fmt.Sprintf("callers %d and %d got the same lock id", o, c))
						}
						ids[id] = c
					}
				case stFailed:
					switch {
					case !ret:
						fail("cancel:"+tg+":waiter-still-blocked:"+mc.EndCause, fmt.Sprintf("caller %d on key %d: context ended at %d ms (%s) but Lock has not returned at quiescence (%s)", c, mc.Key, mc.EndAt, mc.EndCause, phase))
					case ok:
						fail("cancel:"+tg+":granted-after-"+mc.EndCause, fmt.Sprintf("caller %d on key %d was granted at %d ms although its wait ended at %d ms (%s)", c, mc.Key, at, mc.EndAt, mc.EndCause))
					case at != mc.EndAt:
						fail("cancel:"+tg+":error-at-wrong-instant:"+mc.EndCause, fmt.Sprintf("caller %d on key %d returned its error at %d ms, context ended at %d ms", c, mc.Key, at, mc.EndAt))
					}
				}
			}
			for _, c := range early {
				mc := m.Callers[c]
				_, at, _, _, _ := snap(c)
				last := m.Keys[mc.Key].Last
				other := -1
				for _, x := range missing {
					if m.Callers[x].Key == mc.Key {
						other = x
					}
				}
				if other >= 0 {
					fail("order:"+tg+":after-"+last, fmt.Sprintf("key %d: caller %d was granted at %d ms but arrival order says caller %d (queue %v) (%s)", mc.Key, c, at, other, m.Keys[mc.Key].Queue, phase))
				} else {
					fail("exclusivity:"+tg+":after-"+last, fmt.Sprintf("key %d: caller %d was granted at %d ms while caller %d still holds (until %d ms unless unlocked) (%s)", mc.Key, c, at, m.holder(mc.Key), m.Keys[mc.Key].Expiry, phase))
				}
			}
			for _, c := range missing {
				mc := m.Callers[c]
				fail("progress:"+tg+":not-granted:"+mc.Cause, fmt.Sprintf("caller %d on key %d must hold since %d ms (%s) but Lock has not returned at quiescence, now %d ms (%s)", c, mc.Key, mc.GrantAt, mc.Cause, now(), phase))
			}
		}
		idOf := func(c int) string { _, _, _, id, _ := snap(c); return id }

		for i, o := range sc.Ops {
			if out.Sig != "" || m.Tie != "" {
				break
			}
			sleepUntil(o.At)
			m.advance(o.At, false)
			verify(fmt.Sprintf("before step %d", i))
			if out.Sig != "" || m.Tie != "" {
				break
			}
			out.Trace = append(out.Trace, fmt.Sprintf("%d ms: %s c=%d key=%d ttl=%d dl=%d pre=%v who=%s", o.At, o.K, o.C, o.Key, o.TTL, o.DL, o.Pre, o.Who))
			switch o.K {
			case "lock":
				rc := &rec{}
				ctx, cancel := context.WithCancel(context.Background())
				rc.cancel = cancel
				if o.DL > 0 {
					var c2 context.CancelFunc
					ctx, c2 = context.WithTimeout(ctx, time.Duration(o.DL)*time.Millisecond)
					rc.cancel = func() { c2(); cancel() }
				}
				if o.Pre {
					cancel()
				}
				recs[o.C] = rc
				go func() {
					id, err := L.Lock(ctx, keyName(o.Key), o.TTL)
					at := now()
					rc.mu.Lock()
					rc.returned, rc.at, rc.id = true, at, id
					if err != nil {
						rc.err = "error: " + err.Error()
					}
					rc.mu.Unlock()
				}()
				synctest.Wait()
				m.lock(o.C, o.Key, o.TTL, o.DL, o.Pre)
			case "cancel":
				if rc := recs[o.C]; rc != nil {
					rc.cancel()
				}
				synctest.Wait()
				m.ctxEnded(o.C, o.At, "cancel")
			case "unlock":
				var id string
				wantOK := false
				switch o.Who {
				case "holder":
					h := m.holder(o.Key)
					if h < 0 {
						out.Skipped++
						continue
					}
					id, wantOK = idOf(h), true
				case "stale":
					p := m.Keys[o.Key].Past
					if len(p) == 0 {
						out.Skipped++
						continue
					}
					id = idOf(p[o.Pick%len(p)])
				case "foreign", "unused-key":
					var hs []int
					for k := 0; k < sc.NKeys; k++ {
						if k != o.Key && m.holder(k) >= 0 {
							hs = append(hs, m.holder(k))
						}
					}
					if len(hs) == 0 {
						out.Skipped++
						continue
					}
					id = idOf(hs[o.Pick%len(hs)])
				default:
					id = bogusIDs[o.Pick%len(bogusIDs)]
				}
				heldBefore := m.holder(o.Key) >= 0
				err := L.Unlock(keyName(o.Key), id)
				synctest.Wait()
				if wantOK {
					if err != nil {
						fail("unlock:"+tg+":holder:rejected", fmt.Sprintf("key %d: Unlock with the id of the current holder (caller %d, granted %d ms, TTL until %d ms) failed at %d ms: %v", o.Key, m.holder(o.Key), m.Callers[m.holder(o.Key)].GrantAt, m.Keys[o.Key].Expiry, o.At, err))
					}
					m.unlockHolder(o.Key)
				} else {
					if err == nil {
						fail(fmt.Sprintf("unlock:%s:%s:accepted:held=%v", tg, o.Who, heldBefore), fmt.Sprintf("key %d: Unlock with a %s id returned success at %d ms (must fail: the id is not the id of the current grant on that key)", o.Key, o.Who, o.At))
					}
					m.badUnlock(o.Key, o.Who)
				}
			}
			verify(fmt.Sprintf("after step %d (%s %s)", i, o.K, o.Who))
		}
		// drain: follow the model through every remaining timer instant
		for out.Sig == "" && m.Tie == "" && m.pending() {
			at := m.next()[0].At
			sleepUntil(at)
			m.advance(at, true)
			verify("drain")
		}
		var maxTTL int64 = step
		for _, mc := range m.Callers {
			if mc.TTL > maxTTL {
				maxTTL = mc.TTL
			}
		}
		if out.Sig == "" && m.Tie == "" {
			// all holders are gone in the model; let virtual time pass the largest TTL once more
			time.Sleep(time.Duration(maxTTL+step) * time.Millisecond)
			synctest.Wait()
			m.advance(now(), true)
			verify("end")
			for _, c := range m.Order {
				if ret, _, _, _, _ := snap(c); !ret {
					fail("deadlock:"+tg+":caller-blocked-after-all-holders-gone", fmt.Sprintf("caller %d still blocked in Lock at %d ms, every lock was released or expired", c, now()))
				}
			}
			if n, st := lockGoroutines(); n > 0 && out.Sig == "" {
				fail("leak:"+tg+":goroutine-in-lock-package-after-drain", fmt.Sprintf("%d goroutine(s) still inside the lock package after every lock was released or expired and all callers returned: %s", n, strings.Join(st, " | ")))
			}
		}
		if m.Tie != "" && out.Sig == "" {
			out.Inconclusive = "tie: " + m.Tie
		}
		// free whatever is still parked so that the bubble can end
		for _, rc := range recs {
			rc.cancel()
		}
		for k := 0; k < 12; k++ {
			synctest.Wait()
			if n, _ := lockGoroutines(); n == 0 {
				break
			} else if k == 11 {
				out.Stuck = true
			}
			time.Sleep(time.Duration(maxTTL+step) * time.Millisecond)
		}
		if rg != nil && !out.Stuck {
			rg.Stop()
			time.Sleep(2 * time.Minute)
		}
		out.Nontrivial = m.Handoffs > 0
		if out.Stuck {
			// leaving the bubble now would panic ("blocked goroutines remain") and kill the child
			// without a verdict: hand the verdict over first, then stop the process.
			n, st := lockGoroutines()
			fail("leak:"+tg+":goroutines-stuck-for-good", fmt.Sprintf("%d goroutine(s) inside the lock package cannot be freed by cancelling every context and waiting 12 x the largest TTL: %s", n, strings.Join(st, " | ")))
			stuckHook(out, sc)
		}
	})
	if recs := rig.InstallSentinel().Drain("panic"); len(recs) > 0 && out.Sig == "" {
		out.Sig, out.What = "panic:"+sc.Target+":recovered-in-handler", fmt.Sprintf("%d recovered panic(s): %s %s", len(recs), recs[0].Msg, recs[0].Attrs)
	}
	return
}

// stuckHook is set by the child: records the violation, writes the partial and exits the process.
var stuckHook = func(outcome, script) {}

// ---------------------------------------------------------------------------------------------
// W2: stress

type w2spec struct {
	Round int `json:"round"`
}

type w2params struct {
	Target     string `json:"target"`
	Keys       int    `json:"keys"`
	Goroutines int    `json:"goroutines"`
	Iters      int    `json:"iters"`
}

const w2TTLms = 10 * 60 * 1000 // far longer than a child may live (watchdog 5 min): a TTL can only fire late

type w2state struct {
	inside   []atomic.Int32
	shared   []int64 // plain variables: written only between Lock return and Unlock call
	acquired []atomic.Int64
	viol     sync.Map // sig -> what
	refused  atomic.Int64
	start    time.Time
	late     atomic.Bool
}

// violate records a stress violation — unless half a TTL has already gone by on this state's clock
// (a hopelessly slow host, or the bubble's bail-out sleeps): from then on a TTL may legitimately
// have fired, so nothing is concluded any more.
func (s *w2state) violate(sig, what string) {
	if time.Since(s.start) > w2TTLms/2*time.Millisecond {
		s.late.Store(true)
		return
	}
	s.viol.LoadOrStore(sig, what)
}

// hammer is one caller of the stress workload. cancelMode: "timeout" (real time) or "helper" (a
// second goroutine cancels after a few yields; usable in a bubble where time stands still).
func hammer(L locker, s *w2state, r *rand.Rand, p w2params, phase string) {
	for i := 0; i < p.Iters; i++ {
		k := r.IntN(p.Keys)
		ctx, cancel := context.WithCancel(context.Background())
		var helper sync.WaitGroup
		if p.Target == "raw" && r.IntN(4) == 0 {
			spins := r.IntN(30)
			helper.Add(1)
			go func() {
				defer helper.Done()
				for j := 0; j < spins; j++ {
					runtime.Gosched()
				}
				cancel()
			}()
		}
		id, err := L.Lock(ctx, keyName(k), w2TTLms)
		if err != nil {
			s.refused.Add(1)
			cancel()
			helper.Wait()
			continue
		}
		if n := s.inside[k].Add(1); n != 1 {
			s.violate("w2:"+phase+":exclusivity:"+p.Target, fmt.Sprintf("%d callers between Lock return and Unlock call on one key at the same time (TTL %d ms cannot have expired)", n, w2TTLms))
		}
		s.shared[k]++
		for j := r.IntN(3); j > 0; j-- {
			runtime.Gosched()
		}
		s.shared[k]++
		s.acquired[k].Add(1)
		s.inside[k].Add(-1)
		if err := L.Unlock(keyName(k), id); err != nil {
			s.violate("w2:"+phase+":unlock-holder-rejected:"+p.Target, fmt.Sprintf("Unlock with the id just returned by Lock failed long before the TTL: %v", err))
		}
		cancel()
		helper.Wait()
	}
}

func (s *w2state) finalCheck(p w2params, phase string) {
	for k := range s.shared {
		if s.shared[k] != 2*s.acquired[k].Load() {
			s.violate("w2:"+phase+":lost-update-in-critical-section:"+p.Target, fmt.Sprintf("plain counter written only while holding the lock is %d after %d critical sections (want %d)", s.shared[k], s.acquired[k].Load(), 2*s.acquired[k].Load()))
		}
	}
}

func newW2state(keys int) *w2state {
	return &w2state{inside: make([]atomic.Int32, keys), shared: make([]int64, keys), acquired: make([]atomic.Int64, keys), start: time.Now()}
}

func runW2(t *testing.T, c *rig.Check, sp w2spec) {
	r := c.RandFor(fmt.Sprintf("w2/%d", sp.Round))
	p := w2params{Target: "raw", Keys: 1 + r.IntN(3), Goroutines: 8 + r.IntN(57), Iters: 40 + r.IntN(160)}
	if sp.Round%2 == 1 {
		p.Target = "gateway"
	}
	seeds := make([]uint64, 2*p.Goroutines)
	for i := range seeds {
		seeds[i] = r.Uint64()
	}
	// phase 1: the workload in a bubble; virtual time stands still, so at quiescence every caller
	// must be finished (holders never block) — a caller still parked has lost its wake-up.
	lost := false
	pb := p
	pb.Target = "raw"
	synctest.Test(t, func(t *testing.T) {
		L := rawLocker{lock.New()}
		s := newW2state(pb.Keys)
		var done atomic.Int32
		for g := 0; g < pb.Goroutines; g++ {
			go func() {
				hammer(L, s, rand.New(rand.NewPCG(seeds[pb.Goroutines+g], 2)), pb, "bubble")
				done.Add(1)
			}()
		}
		synctest.Wait()
		if int(done.Load()) != pb.Goroutines {
			n, st := lockGoroutines()
			s.violate("w2:bubble:lost-wakeup:raw", fmt.Sprintf("%d of %d callers still parked at quiescence with no time elapsed (holders never block, so somebody lost a wake-up); %d goroutines in the lock package: %s", pb.Goroutines-int(done.Load()), pb.Goroutines, n, strings.Join(st, " | ")))
			for k := 0; k < 2000 && int(done.Load()) != pb.Goroutines; k++ {
				time.Sleep(time.Duration(w2TTLms+1) * time.Millisecond) // TTLs bail the stuck ones out
				synctest.Wait()
			}
		}
		if int(done.Load()) == pb.Goroutines {
			s.finalCheck(pb, "bubble")
			if n, st := lockGoroutines(); n > 0 {
				s.violate("w2:bubble:leak:goroutine-in-lock-package-after-run", fmt.Sprintf("%d goroutine(s) inside the lock package at quiescence after every caller unlocked: %s", n, strings.Join(st, " | ")))
				time.Sleep(time.Duration(w2TTLms+1) * time.Millisecond)
			}
			_, lost = s.viol.Load("w2:bubble:lost-wakeup:raw")
			report(c, s, pb, sp)
			return
		}
		report(c, s, pb, sp)
		c.Finish()
		os.Exit(0)
	})
	if lost {
		// the real-time phase would hang until the child watchdog; the bubble already decided
		c.Count("w2_realtime_phase_skipped", 1)
		return
	}
	// phase 2: real time
	{
		var L locker
		var rg *rig.Rig
		var root string
		if p.Target == "gateway" {
			root = rig.TempRoot("c14w2")
			rg = rig.New(rig.Options{Root: root})
			L = gwLocker{rg}
		} else {
			L = rawLocker{lock.New()}
		}
		s := newW2state(p.Keys)
		var wg sync.WaitGroup
		gate := make(chan struct{})
		for g := 0; g < p.Goroutines; g++ {
			wg.Add(1)
			go func() {
				defer wg.Done()
				<-gate
				hammer(L, s, rand.New(rand.NewPCG(seeds[g], 1)), p, "realtime")
			}()
		}
		close(gate)
		wg.Wait()
		s.finalCheck(p, "realtime")
		if rg != nil {
			rg.Stop()
			rig.RemoveAll(root)
		}
		report(c, s, p, sp)
	}
}

func report(c *rig.Check, s *w2state, p w2params, sp w2spec) {
	var acq int64
	for k := range s.acquired {
		acq += s.acquired[k].Load()
	}
	c.Count("w2_critical_sections", acq)
	c.Count("w2_cancelled_waits", s.refused.Load())
	if s.late.Load() {
		c.Inconclusive("w2: half a TTL elapsed during the round, later observations discarded")
	}
	s.viol.Range(func(k, v any) bool {
		c.Violate(k.(string), v.(string), map[string]any{"w2": sp, "params": p})
		return true
	})
}

// ---------------------------------------------------------------------------------------------

type spec struct {
	Mode    string   `json:"mode"` // w1 | w2
	From    int      `json:"from,omitempty"`
	To      int      `json:"to,omitempty"`
	Fixed   bool     `json:"fixed,omitempty"`
	Scripts []script `json:"scripts,omitempty"`
	W2      w2spec   `json:"w2,omitempty"`
}

func child(t *testing.T, c *rig.Check) {
	var sp spec
	c.ChildSpec(&sp)
	if sp.Mode == "w2" {
		runW2(t, c, sp.W2)
		c.Case(fmt.Sprintf("w2/%d", sp.W2.Round), true)
		return
	}
	scripts := sp.Scripts
	if sp.Fixed {
		scripts = append(scripts, fixedCases()...)
	}
	for i := sp.From; i < sp.To; i++ {
		scripts = append(scripts, gen(c, i))
	}
	record := func(o outcome, sc script) {
		c.Case(rig.Dump(sc), o.Nontrivial)
		c.Sample(sc)
		c.Count("w1_steps", int64(len(sc.Ops)))
		c.Count("w1_steps_skipped", int64(o.Skipped))
		c.Count("w1_scripts_"+sc.Target, 1)
		if m := o.M; m != nil {
			c.Count("w1_lock_calls", int64(len(m.Order)))
			c.Count("w1_handoffs", int64(m.Handoffs))
			c.Count("w1_handoffs_by_ttl", int64(m.TTLHandoffs))
			c.Count("w1_ttl_frees_without_waiter", int64(m.TTLFrees))
			c.Count("w1_cancelled_waiters", int64(m.CancelledWaiters))
			c.Count("w1_cancel_of_holder", int64(m.CancelOfHolder))
			c.Count("w1_bad_unlocks_while_held", int64(m.BadUnlockWhileHeld))
			c.Count("w1_permissive_alternative_taken", int64(m.AltTaken))
		}
		if o.Inconclusive != "" {
			c.Inconclusive(o.Inconclusive)
		}
		if o.Sig != "" {
			c.Violate(o.Sig, o.What, map[string]any{"script": sc, "trace": o.Trace})
		}
	}
	stuckHook = func(o outcome, sc script) {
		record(o, sc)
		c.Finish()
		os.Exit(0)
	}
	for _, sc := range scripts {
		record(runScript(t, sc), sc)
	}
}

var digits = regexp.MustCompile(`0x[0-9a-f]+|\d+`)

func TestCheck(t *testing.T) {
	c := rig.NewCheck(t, "C14", "exploration")
	defer c.Finish()
	if c.IsChild() {
		child(t, c)
		return
	}
	c.Rule = "W1: scripts of Lock(ttl, optional ctx deadline / dead ctx) / Unlock(holder | stale id | id of another key's holder | never-issued id | never-locked key) / cancel(waiter | holder) / never-unlock over 1-3 keys and 2-8 callers at generated virtual instants (no two timers coincide), on the raw lock and through the gateway handlers, compared step by step with a FIFO-with-TTL model in a synctest bubble; non-trivial = at least one hand-over of a key from a holder to a queued waiter happened; distinct = distinct script JSON. W2: stress rounds (real time under -race + the same in a bubble), each counted as one non-trivial case"
	c.Assumptions = []string{
		"TTL counts from the instant the lock is granted (docs: 'how long the lock should remain valid'); gateway TTL <= 1000 ms means 1000 ms (handler floor)",
		"arrival order is pinned by running the bubble to quiescence between steps; simultaneous arrivals and coinciding timers are never generated (their order is unobservable); a script in which two model events coincide is rejected by the generator",
		"a waiter has no lock id until it is granted, so 'unlock with a waiter's id' cannot be issued by any client; an id is a capability: Unlock(key, id of the current grant) is the holder's unlock whoever sends it, 'foreign' = the id of a live grant on a different key",
		"accepted either way (documentation silent or contradictory): gateway Lock whose request context ends while waiting (ignored, or error at that instant); a waiter giving up with an error exactly one TTL after its call; Lock with an already-cancelled context on a free key",
		"W2: TTL 10 min > child watchdog 5 min, so within a child no TTL can have fired; timers never fire early",
	}
	var specs []any
	if p := c.ReplayPath(); p != "" {
		var w struct {
			Witness struct {
				Script *script `json:"script"`
				W2     *w2spec `json:"w2"`
			} `json:"witness"`
		}
		rig.ReadJSON(p, &w)
		if w.Witness.Script != nil {
			specs = append(specs, spec{Mode: "w1", Scripts: []script{*w.Witness.Script}})
		} else if w.Witness.W2 != nil {
			for i := 0; i < 8; i++ {
				specs = append(specs, spec{Mode: "w2", W2: *w.Witness.W2})
			}
		}
	} else {
		n := c.N(500, 20000)
		rounds := c.N(20, 300)
		chunks := c.N(16, 64)
		for i := 0; i < chunks; i++ {
			specs = append(specs, spec{Mode: "w1", From: i * n / chunks, To: (i + 1) * n / chunks, Fixed: i == 0})
		}
		for i := 0; i < rounds; i++ {
			specs = append(specs, spec{Mode: "w2", W2: w2spec{Round: i}})
		}
	}
	res := c.Fanout(specs, rig.FanoutOpts{Par: 16, Timeout: 5 * time.Minute})
	unrelated := 0
	for _, r := range res {
		sp := r.Spec.(spec)
		for _, rr := range r.Races {
			if strings.Contains(rr.Sig, "hydra/lock") || strings.Contains(rr.Sig, "gateway.Gateway.Lock") || strings.Contains(rr.Sig, "gateway.Gateway.Unlock") || strings.Contains(rr.Sig, "c14.") {
				w := map[string]any{"spec": sp, "report": rr.Text}
				if sp.Mode == "w2" {
					w["w2"] = sp.W2
				}
				c.Violate("race:"+rr.Sig, "data race reported while exercising the lock ("+sp.Mode+"): "+rr.Entry, w)
			} else {
				unrelated++
			}
		}
		switch {
		case r.TimedOut:
			c.Inconclusive(fmt.Sprintf("child %s timed out (watchdog), log %s", sp.Mode, r.LogPath))
		case len(r.Fatal) > 0:
			line := digits.ReplaceAllString(r.Fatal[0], "N")
			if len(line) > 100 {
				line = line[:100]
			}
			w := map[string]any{"spec": sp}
			if sp.Mode == "w2" {
				w["w2"] = sp.W2
			}
			c.Violate("child-crash:"+sp.Mode+":"+line, fmt.Sprintf("child process died: %v (log %s)", r.Fatal, r.LogPath), w)
		case r.NoPartial || (r.ExitErr != nil && len(r.Races) == 0): // (a child that printed race reports exits 1 with its verdict written)
			c.Inconclusive(fmt.Sprintf("child %s ended without a verdict: %v, log %s", sp.Mode, r.ExitErr, r.LogPath))
		}
	}
	c.Extra("races_outside_lock_code", unrelated)
	c.MinNontrivial = c.N(100, 4000)
}
