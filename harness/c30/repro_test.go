package c30

// Minimal reproducers for the findings of the C30 monitor. They only log what the real code
// answers (go test -tags verif -run TestRepro -v ./c30); the deciding check is TestCheck.

import (
	"context"
	"testing"
	"testing/synctest"
	"time"

	hydrapb "github.com/hydraide/hydraide/sdk/go/hydraidego/v3/hydraidepbgo"

	"verifharness/rig"
)

type reproEnv struct {
	t   *testing.T
	r   *rig.Rig
	ctx context.Context
}

func withRig(t *testing.T, f func(e *reproEnv)) {
	root := rig.TempRoot("c30r")
	defer rig.RemoveAll(root)
	rig.InstallSentinel()
	synctest.Test(t, func(t *testing.T) {
		r := rig.New(rig.Options{Root: root, CloseAfterIdle: idleSec})
		r.Register("c30/h/*", false, idleSec, 1)
		defer func() { r.Stop(); time.Sleep(2 * time.Minute) }()
		f(&reproEnv{t: t, r: r, ctx: context.Background()})
	})
}

func (e *reproEnv) setI32(sw, key string, v int32, exp *time.Time) {
	kv := &hydrapb.KeyValuePair{Key: key, Int32Val: &v}
	if exp != nil {
		kv.ExpiredAt = ts(exp.UnixNano())
	}
	_, err := e.r.GW.Set(e.ctx, &hydrapb.SetRequest{Swamps: []*hydrapb.SwampRequest{{IslandID: rig.Island(sw), SwampName: sw, CreateIfNotExist: true, Overwrite: true, KeyValues: []*hydrapb.KeyValuePair{kv}}}})
	if err != nil {
		e.t.Fatal(err)
	}
}

func (e *reproEnv) getExp(sw, key string) string {
	resp, err := e.r.GW.Get(e.ctx, &hydrapb.GetRequest{Swamps: []*hydrapb.GetSwamp{{IslandID: rig.Island(sw), SwampName: sw, Keys: []string{key}}}})
	if err != nil {
		return "error " + err.Error()
	}
	tr := resp.GetSwamps()[0].GetTreasures()[0]
	if !tr.GetIsExist() {
		return "not-exist"
	}
	return fmtT(tsNanos(tr.ExpiredAt))
}

func (e *reproEnv) shiftExpired(sw string) []string {
	resp, err := e.r.GW.ShiftExpiredTreasures(e.ctx, &hydrapb.ShiftExpiredTreasuresRequest{IslandID: rig.Island(sw), SwampName: sw})
	if err != nil {
		return []string{"error " + err.Error()}
	}
	var ks []string
	for _, tr := range resp.GetTreasures() {
		ks = append(ks, tr.GetKey()+"@"+fmtT(tsNanos(tr.ExpiredAt)))
	}
	return ks
}

func (e *reproEnv) index(sw string) []string {
	resp, err := e.r.GW.GetByIndex(e.ctx, &hydrapb.GetByIndexRequest{IslandID: rig.Island(sw), SwampName: sw, IndexType: hydrapb.IndexType_EXPIRATION_TIME})
	if err != nil {
		return []string{"error " + err.Error()}
	}
	var ks []string
	for _, tr := range resp.GetTreasures() {
		ks = append(ks, tr.GetKey()+"@"+fmtT(tsNanos(tr.ExpiredAt)))
	}
	return ks
}

// F1: a pre-1970 expiry is stored, indexed and claimed, but every response leaves ExpiredAt unset.
func TestReproPreEpochResponseField(t *testing.T) {
	withRig(t, func(e *reproEnv) {
		sw := "c30/h/f1"
		pre := time.Unix(-1, 500_000_000).UTC() // 1969-12-31T23:59:59.5Z
		e.setI32(sw, "k", 1, &pre)
		t.Logf("Get.ExpiredAt           = %s   (written %s)", e.getExp(sw, "k"), fmtT(pre.UnixNano()))
		t.Logf("GetByIndex(EXPIRATION)  = %v", e.index(sw))
		t.Logf("ShiftExpiredTreasures   = %v", e.shiftExpired(sw))
	})
}

// F2: Set drops a pre-1970 ExpiredAt whose Nanos part is zero, keeps one whose Nanos part is not.
func TestReproPreEpochSetDropped(t *testing.T) {
	withRig(t, func(e *reproEnv) {
		sw := "c30/h/f2"
		whole := time.Unix(-1, 0).UTC()
		frac := time.Unix(-2, 500_000_000).UTC()
		e.setI32(sw, "whole", 1, &whole)
		e.setI32(sw, "frac", 1, &frac)
		t.Logf("GetByIndex(EXPIRATION)  = %v   (want both keys)", e.index(sw))
		t.Logf("ShiftExpiredTreasures   = %v   (want both keys)", e.shiftExpired(sw))
		t.Logf("Get whole               = %s", e.getExp(sw, "whole"))
	})
}

// F3: IncrementInt32 whose condition is not met applies SetIfExist.ExpiredAt to the live record
// without saving it: the new expiry is visible (Get, claims) until the swamp is reloaded.
func TestReproIncrementConditionNotMet(t *testing.T) {
	withRig(t, func(e *reproEnv) {
		now := time.Now().UTC()
		future, past := now.Add(time.Hour), now.Add(-time.Minute)
		for _, sw := range []string{"c30/h/f3a", "c30/h/f3b"} {
			e.setI32(sw, "k", 5, &future)
			time.Sleep(3 * time.Second) // let the write interval flush the Set to disk first
			resp, err := e.r.GW.IncrementInt32(e.ctx, &hydrapb.IncrementInt32Request{IslandID: rig.Island(sw), SwampName: sw, Key: "k", IncrementBy: 1,
				Condition:  &hydrapb.IncrementInt32Condition{RelationalOperator: hydrapb.Relational_EQUAL, Value: -1},
				SetIfExist: &hydrapb.IncrementRequestMetadata{ExpiredAt: ts(past.UnixNano())}})
			t.Logf("%s: Increment isIncremented=%v value=%d meta.ExpiredAt=%s err=%v", sw, resp.GetIsIncremented(), resp.GetValue(), fmtT(tsNanos(resp.GetMetadata().GetExpiredAt())), err)
		}
		t.Logf("f3a before reload: Get.ExpiredAt=%s index=%v", e.getExp("c30/h/f3a", "k"), e.index("c30/h/f3a"))
		t.Logf("f3a before reload: ShiftExpired=%v   (record written with expiry %s)", e.shiftExpired("c30/h/f3a"), fmtT(future.UnixNano()))
		time.Sleep(reloadGap)
		t.Logf("active swamps after idle: %d", e.r.Active())
		t.Logf("f3b after reload : Get.ExpiredAt=%s index=%v", e.getExp("c30/h/f3b", "k"), e.index("c30/h/f3b"))
		t.Logf("f3b after reload : ShiftExpired=%v", e.shiftExpired("c30/h/f3b"))
	})
}

// By-catch (not a C30 question, see check_test.go): a key that is written and deleted again within
// one write interval can be back after the next reload.
func TestReproByCatchDeleteUndoneByReload(t *testing.T) {
	withRig(t, func(e *reproEnv) {
		del := func(sw, key string) {
			_, err := e.r.GW.Delete(e.ctx, &hydrapb.DeleteRequest{Swamps: []*hydrapb.DeleteRequest_SwampKeys{{IslandID: rig.Island(sw), SwampName: sw, Keys: []string{key}}}})
			if err != nil {
				t.Fatal(err)
			}
		}
		a, b := "c30/h/bc-a", "c30/h/bc-b"
		// a: first life flushed, deleted, flushed; second life written and deleted in the same interval
		// b: only one life, written and deleted in the same interval
		for _, sw := range []string{a, b} {
			e.setI32(sw, "keep", 1, nil)
		}
		e.setI32(a, "k", 1, nil)
		time.Sleep(2500 * time.Millisecond)
		del(a, "k")
		time.Sleep(2500 * time.Millisecond)
		e.setI32(a, "k", 2, nil)
		del(a, "k")
		e.setI32(b, "k", 2, nil)
		del(b, "k")
		// c: k is on disk; delete, re-create and delete again within one write interval
		c := "c30/h/bc-c"
		e.setI32(c, "keep", 1, nil)
		e.setI32(c, "k", 1, nil)
		time.Sleep(2500 * time.Millisecond)
		del(c, "k")
		e.setI32(c, "k", 2, nil)
		del(c, "k")
		t.Logf("before reload: c/k=%s", e.getExp(c, "k"))
		defer func() { t.Logf("after reload : c/k=%s   (want not-exist)", e.getExp(c, "k")) }()
		t.Logf("before reload: a/k=%s b/k=%s", e.getExp(a, "k"), e.getExp(b, "k"))
		time.Sleep(reloadGap)
		t.Logf("active=%d", e.r.Active())
		t.Logf("after reload : a/k=%s b/k=%s   (want not-exist)", e.getExp(a, "k"), e.getExp(b, "k"))
	})
}
