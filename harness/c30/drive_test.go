package c30

import (
	"context"
	"fmt"
	"sort"
	"strings"
	"testing"
	"testing/synctest"
	"time"

	hydrapb "github.com/hydraide/hydraide/sdk/go/hydraidego/v3/hydraidepbgo"
	"google.golang.org/grpc/metadata"
	"google.golang.org/protobuf/types/known/timestamppb"

	"verifharness/rig"
)

const (
	idleSec   = 10
	reloadGap = 30 * time.Second
)

// ---- case description ----------------------------------------------------------------------

type step struct {
	Op       string    `json:"op"` // set patch inc del adv reload peek shiftmid pexpmid
	Key      string    `json:"key,omitempty"`
	Key2     string    `json:"key2,omitempty"` // patch: second key, always under the request-level Meta
	Exp      *expSpec  `json:"exp,omitempty"`  // set: ExpiredAt; inc: SetIfNotExist.ExpiredAt
	Exp2     *expSpec  `json:"exp2,omitempty"` // inc: SetIfExist.ExpiredAt
	Meta     *metaSpec `json:"meta,omitempty"` // patch: Meta of Key (per-key if PerKey, else request-level); pexpmid: Meta
	ReqMeta  *metaSpec `json:"reqmeta,omitempty"`
	PerKey   bool      `json:"perkey,omitempty"`
	Create   bool      `json:"create,omitempty"`
	NoOps    bool      `json:"noops,omitempty"`
	Void     bool      `json:"void,omitempty"`
	CondFail bool      `json:"condfail,omitempty"`
	Dur      int64     `json:"dur,omitempty"` // adv: ns
}

type hist struct {
	Steps  []step   `json:"steps"`
	Win    [2]int64 `json:"win"`    // window ask: [now+Win0, now+Win1)
	WinPre bool     `json:"winpre"` // window ask: lower bound is a pre-epoch instant instead
	Lim    int32    `json:"lim"`    // HowMany / Limit of the limited asks
}

// ---- per-history driver --------------------------------------------------------------------

type failure struct {
	sig, what string
	field     bool // only the reported ExpiredAt differs; membership was right
}

type clone struct {
	name   string
	island uint64
	m      *model
}

type item struct {
	key    string
	exp    int64 // 0 = field absent
	status string
}

type ask struct {
	path    string
	now     int64
	want    func(v int64) tri
	order   int  // +1 ascending by expiry, -1 descending, 0 unchecked
	noField bool // the path does not report ExpiredAt
	// fieldWant gives the expected reported ExpiredAt (0 = absent) for candidate v
	fieldWant func(v int64, it item) int64
	partial   bool // limited request: do not demand completeness
	claim     bool // a failing record is tainted on this clone afterwards
}

type drv struct {
	c    *rig.Check
	r    *rig.Rig
	h    hist
	base int64
	ctx  context.Context

	fails   map[string]string // sig -> first description
	trace   []string
	pool    map[int][]func(v int64) *failure
	poolRec map[int][]int64 // candidate values of the pooled record version
	incon   string

	nExpired, nOther int // membership discrimination at the final asks
	slid             bool
	reqs             int64
	bycatch          int
}

func (d *drv) logf(f string, a ...any) {
	if len(d.trace) < 400 {
		d.trace = append(d.trace, fmt.Sprintf(f, a...))
	}
}

func (d *drv) fail(f *failure) {
	if _, ok := d.fails[f.sig]; !ok {
		d.fails[f.sig] = f.what
		d.logf("VIOLATION %s: %s", f.sig, f.what)
	}
}

func (d *drv) inconclusive(why string) {
	if d.incon == "" {
		d.incon = why
	}
	d.logf("INCONCLUSIVE %s", why)
}

func ts(v int64) *timestamppb.Timestamp { return timestamppb.New(time.Unix(0, v).UTC()) }

func (d *drv) specTS(s *expSpec) *timestamppb.Timestamp {
	if s == nil {
		return nil
	}
	if s.K == "zero" {
		return &timestamppb.Timestamp{}
	}
	v, _ := s.nanos(d.base)
	return ts(v)
}

func tsNanos(t *timestamppb.Timestamp) int64 {
	if t == nil {
		return 0
	}
	return t.AsTime().UnixNano()
}

func fmtT(v int64) string {
	if v == 0 {
		return "none"
	}
	return time.Unix(0, v).UTC().Format("2006-01-02T15:04:05.000000000Z")
}

func (d *drv) now() int64 { return time.Now().UnixNano() }

func (d *drv) phase(m *model, r *rec) string {
	if r.WEpoch < m.epoch {
		return "after-reload"
	}
	return "before-reload"
}

// observe compares one answer of one path with the clone's model.
func (d *drv) observe(cl *clone, a ask, items []item) {
	d.c.Seen("paths", a.path)
	idx := map[string]int{}
	for i, it := range items {
		if _, dup := idx[it.key]; dup {
			d.fail(&failure{sig: a.path + ":order:duplicate", what: fmt.Sprintf("%s returned key %s twice", a.path, it.key)})
			continue
		}
		idx[it.key] = i
	}
	m := cl.m
	failed := map[string]bool{} // records whose real expiry evidently differs from the model: no order claim
	for _, key := range m.keys() {
		r := m.recs[key]
		if r.Taint {
			continue
		}
		i, got := idx[key]
		var it item
		if got {
			it = items[i]
		}
		had, via, ph := r.Had, r.Via, d.phase(m, r)
		chk := func(v int64) *failure {
			cls := classOf(v, a.now, had)
			mk := func(kind, what string) *failure {
				return &failure{
					sig:  fmt.Sprintf("%s:%s:%s:%s:via-%s", a.path, kind, cls, ph, via),
					what: fmt.Sprintf("%s on %s at now=%s: key %s (model expiry %s, last changed by %s) %s", a.path, cl.name, fmtT(a.now), key, fmtT(v), via, what),
				}
			}
			w := a.want(v)
			if got && w == mustnot {
				if cls == "cleared" {
					return mk("cleared-still-expires", "was returned although its expiry was cleared")
				}
				return mk("claimed-unexpired", "was returned although it is not eligible (not expired / outside the window / no expiry)")
			}
			if !got && w == must && !a.partial {
				return mk("missed-expired", "was not returned although it is eligible")
			}
			if got && !a.noField {
				wf := v
				if a.fieldWant != nil {
					wf = a.fieldWant(v, it)
				}
				if it.exp != wf {
					f := mk("expiredAt-field-wrong", fmt.Sprintf("reported ExpiredAt=%s, want %s", fmtT(it.exp), fmtT(wf)))
					f.field = true
					return f
				}
			}
			return nil
		}
		if len(r.Cands) == 1 {
			v := r.Cands[0]
			d.c.Seen("expclasses", classOf(v, a.now, had))
			if f := chk(v); f != nil {
				d.fail(f)
				failed[key] = true
				if a.claim {
					r.Taint = true
				}
			}
		} else {
			d.pool[r.ID] = append(d.pool[r.ID], chk)
			if _, ok := d.poolRec[r.ID]; !ok {
				d.poolRec[r.ID] = append([]int64(nil), r.Cands...)
			}
			d.c.Count("ambiguous_observations", 1)
		}
	}
	// Records the model does not know (deleted earlier): not an expiry question. Seen as a rare
	// by-catch when a Delete coincides with the background flush; counted, not judged here.
	for _, it := range items {
		if _, ok := m.recs[it.key]; !ok {
			d.c.Count("bycatch_deleted_record_returned", 1)
			d.bycatch++
			d.logf("BY-CATCH %s on %s returned key %s which the history deleted", a.path, cl.name, it.key)
		}
	}
	// order among unambiguous records
	if a.order != 0 {
		var prev *rec
		var prevKey string
		for _, it := range items {
			r := m.recs[it.key]
			if r == nil || r.Taint || len(r.Cands) != 1 || failed[it.key] {
				continue
			}
			if prev != nil {
				pv, cv := prev.Cands[0], r.Cands[0]
				if (a.order > 0 && cv < pv) || (a.order < 0 && cv > pv) {
					d.fail(&failure{
						sig:  fmt.Sprintf("%s:order:%s:%s:via-%s", a.path, classOf(cv, a.now, r.Had), d.phase(m, r), r.Via),
						what: fmt.Sprintf("%s on %s: key %s (expiry %s) returned after key %s (expiry %s), order %+d", a.path, cl.name, it.key, fmtT(cv), prevKey, fmtT(pv), a.order),
					})
				}
			}
			prev, prevKey = r, it.key
		}
	}
}

// settle evaluates the pooled observations of ambiguous record versions.
func (d *drv) settle() {
	var ids []int
	for id := range d.pool {
		ids = append(ids, id)
	}
	sort.Ints(ids)
	for _, id := range ids {
		cands := d.poolRec[id]
		// pick the reading with the fewest membership failures, then the fewest field failures
		var best []*failure
		bestScore := [2]int{1 << 30, 0}
		for _, v := range cands {
			var fs []*failure
			score := [2]int{}
			for _, chk := range d.pool[id] {
				if f := chk(v); f != nil {
					fs = append(fs, f)
					if f.field {
						score[1]++
					} else {
						score[0]++
					}
				}
			}
			if score[0] < bestScore[0] || (score[0] == bestScore[0] && score[1] < bestScore[1]) {
				best, bestScore = fs, score
			}
		}
		// one root cause shows on every path: report the first disagreeing observation of each
		// kind only, and say how many more there were
		seen := map[string]bool{}
		for _, f := range best {
			kind := strings.Split(f.sig, ":")[1]
			if seen[kind] {
				continue
			}
			seen[kind] = true
			f.what += fmt.Sprintf(" [the step before is unspecified; none of the accepted readings %v explains all observations: the best one leaves %d membership and %d ExpiredAt-field disagreements]", fmtTs(cands), bestScore[0], bestScore[1])
			d.fail(f)
		}
	}
}

func fmtTs(vs []int64) []string {
	var out []string
	for _, v := range vs {
		out = append(out, fmtT(v))
	}
	return out
}

// ---- RPC wrappers --------------------------------------------------------------------------

func treasureItems(ts []*hydrapb.Treasure) []item {
	var out []item
	for _, t := range ts {
		out = append(out, item{key: t.GetKey(), exp: tsNanos(t.ExpiredAt)})
	}
	return out
}

// rpcErr decides what an RPC error means: harmless when the model has no checkable record
// (the swamp may have destroyed itself), inconclusive otherwise.
func (d *drv) rpcErr(cl *clone, path string, err error) {
	if cl.m.checkable() == 0 {
		return
	}
	d.inconclusive(fmt.Sprintf("%s: rpc error %v", path, err))
}

func mpBody(n int) []byte { return []byte{0xC7, 0x00, 0x81, 0xA1, 'f', byte(n % 100)} }

func (d *drv) doSet(cl *clone, i int, st step) {
	kv := &hydrapb.KeyValuePair{Key: st.Key, ExpiredAt: d.specTS(st.Exp)}
	switch {
	case st.Void:
		b := true
		kv.VoidVal = &b
	case kindOfKey(st.Key) == "mp":
		kv.BytesVal = mpBody(i)
	case kindOfKey(st.Key) == "i32":
		v := int32(i + 1)
		kv.Int32Val = &v
	default:
		s := fmt.Sprintf("s%d", i)
		kv.StringVal = &s
	}
	d.reqs++
	resp, err := d.r.GW.Set(d.ctx, &hydrapb.SetRequest{Swamps: []*hydrapb.SwampRequest{{IslandID: cl.island, SwampName: cl.name,
		CreateIfNotExist: true, Overwrite: true, KeyValues: []*hydrapb.KeyValuePair{kv}}}})
	if err != nil || len(resp.GetSwamps()) != 1 || len(resp.GetSwamps()[0].GetKeysAndStatuses()) != 1 {
		d.inconclusive(fmt.Sprintf("Set failed: %v %v", err, resp))
	}
}

func (d *drv) pbMeta(ms *metaSpec) *hydrapb.PatchMeta {
	if ms == nil {
		return nil
	}
	return &hydrapb.PatchMeta{SetUpdatedAt: ms.Touch, ClearExpiredAt: ms.Clear, SetExpiredAt: d.specTS(ms.Exp)}
}

func patchOps(i int, noOps bool) []*hydrapb.PatchOp {
	if noOps {
		return nil
	}
	return []*hydrapb.PatchOp{{Op: hydrapb.PatchOp_SET, Path: "g", Value: []byte{byte(i % 100)}}}
}

func (d *drv) doPatch(cl *clone, i int, st step, want map[string]string) {
	req := &hydrapb.PatchTreasuresRequest{IslandID: cl.island, SwampName: cl.name, CreateIfNotExist: st.Create}
	p1 := &hydrapb.TreasurePatch{Key: st.Key, Ops: patchOps(i, st.NoOps)}
	if st.PerKey {
		p1.Meta = d.pbMeta(st.Meta)
		req.Meta = d.pbMeta(st.ReqMeta)
	} else {
		req.Meta = d.pbMeta(st.Meta)
	}
	req.Patches = append(req.Patches, p1)
	if st.Key2 != "" {
		req.Patches = append(req.Patches, &hydrapb.TreasurePatch{Key: st.Key2, Ops: patchOps(i+1, st.NoOps)})
	}
	d.reqs++
	resp, err := d.r.GW.PatchTreasures(d.ctx, req)
	if err != nil || len(resp.GetResults()) != len(req.Patches) {
		d.inconclusive(fmt.Sprintf("PatchTreasures failed: %v %v", err, resp))
		return
	}
	for _, res := range resp.GetResults() {
		w := want[res.GetKey()]
		if w != "*" && w != res.GetStatus().String() {
			d.inconclusive(fmt.Sprintf("PatchTreasures key %s: status %s (%s), model predicted %s", res.GetKey(), res.GetStatus(), res.GetError(), w))
		}
	}
}

func (d *drv) doInc(cl *clone, st step, wantInc, check bool, after *rec) {
	req := &hydrapb.IncrementInt32Request{IslandID: cl.island, SwampName: cl.name, Key: st.Key, IncrementBy: 1}
	if st.Exp != nil {
		req.SetIfNotExist = &hydrapb.IncrementRequestMetadata{ExpiredAt: d.specTS(st.Exp)}
	}
	if st.Exp2 != nil {
		req.SetIfExist = &hydrapb.IncrementRequestMetadata{ExpiredAt: d.specTS(st.Exp2)}
	}
	if st.CondFail {
		req.Condition = &hydrapb.IncrementInt32Condition{RelationalOperator: hydrapb.Relational_EQUAL, Value: -123456}
	}
	d.reqs++
	now := d.now()
	resp, err := d.r.GW.IncrementInt32(d.ctx, req)
	if !check {
		return
	}
	if err != nil {
		d.inconclusive(fmt.Sprintf("IncrementInt32 failed: %v", err))
		return
	}
	if resp.GetIsIncremented() != wantInc {
		d.inconclusive(fmt.Sprintf("IncrementInt32 IsIncremented=%v, predicted %v", resp.GetIsIncremented(), wantInc))
		return
	}
	// the response metadata must report the record's expiry after the call
	got := tsNanos(resp.GetMetadata().GetExpiredAt())
	ok := false
	for _, v := range after.Cands {
		if v == got {
			ok = true
		}
	}
	d.c.Seen("paths", "Increment")
	if !ok {
		v := after.Cands[0]
		d.fail(&failure{
			sig:  fmt.Sprintf("Increment:expiredAt-field-wrong:%s:before-reload:via-%s", classOf(v, now, after.Had), after.Via),
			what: fmt.Sprintf("IncrementInt32 on %s key %s: response Metadata.ExpiredAt=%s, want %v", cl.name, st.Key, fmtT(got), fmtTs(after.Cands)),
		})
	}
}

func (d *drv) doDel(cl *clone, st step) {
	d.reqs++
	_, err := d.r.GW.Delete(d.ctx, &hydrapb.DeleteRequest{Swamps: []*hydrapb.DeleteRequest_SwampKeys{{IslandID: cl.island, SwampName: cl.name, Keys: []string{st.Key}}}})
	if err != nil {
		d.inconclusive(fmt.Sprintf("Delete failed: %v", err))
	}
}

type fakeStream struct {
	ctx  context.Context
	msgs []*hydrapb.GetByIndexStreamResponse
}

func (s *fakeStream) Send(m *hydrapb.GetByIndexStreamResponse) error {
	s.msgs = append(s.msgs, m)
	return nil
}
func (s *fakeStream) SetHeader(metadata.MD) error  { return nil }
func (s *fakeStream) SendHeader(metadata.MD) error { return nil }
func (s *fakeStream) SetTrailer(metadata.MD)       {}
func (s *fakeStream) Context() context.Context     { return s.ctx }
func (s *fakeStream) SendMsg(any) error            { return nil }
func (s *fakeStream) RecvMsg(any) error            { return nil }

func expFilter(op hydrapb.Relational_Operator, v int64) *hydrapb.FilterGroup {
	return &hydrapb.FilterGroup{Filters: []*hydrapb.TreasureFilter{{Operator: op, CompareValue: &hydrapb.TreasureFilter_ExpiredAtVal{ExpiredAtVal: ts(v)}}}}
}

// clockOK verifies that the virtual clock did not move during a request.
func (d *drv) clockOK(path string, before int64) bool {
	if d.now() != before {
		d.inconclusive(path + ": virtual clock moved during the request")
		return false
	}
	return true
}

func (d *drv) getByIndex(cl *clone, path string, req *hydrapb.GetByIndexRequest, a ask) {
	req.IslandID, req.SwampName, req.IndexType = cl.island, cl.name, hydrapb.IndexType_EXPIRATION_TIME
	a.path, a.now = path, d.now()
	d.reqs++
	resp, err := d.r.GW.GetByIndex(d.ctx, req)
	if err != nil {
		d.rpcErr(cl, path, err)
		return
	}
	if d.clockOK(path, a.now) {
		d.observe(cl, a, treasureItems(resp.GetTreasures()))
	}
}

func (d *drv) stream(cl *clone, path string, req *hydrapb.GetByIndexStreamRequest, a ask) {
	req.IslandID, req.SwampName = cl.island, cl.name
	a.path, a.now = path, d.now()
	fs := &fakeStream{ctx: d.ctx}
	d.reqs++
	if err := d.r.GW.GetByIndexStream(req, fs); err != nil {
		d.rpcErr(cl, path, err)
		return
	}
	var tr []*hydrapb.Treasure
	for _, m := range fs.msgs {
		tr = append(tr, m.GetTreasure())
	}
	if d.clockOK(path, a.now) {
		d.observe(cl, a, treasureItems(tr))
	}
}

var allKeys = []string{"m0", "m1", "m2", "m3", "n0", "n1", "s0", "zz"}

func (d *drv) get(cl *clone, path string) {
	now := d.now()
	d.reqs++
	resp, err := d.r.GW.Get(d.ctx, &hydrapb.GetRequest{Swamps: []*hydrapb.GetSwamp{{IslandID: cl.island, SwampName: cl.name, Keys: allKeys}}})
	if err != nil || len(resp.GetSwamps()) != 1 {
		d.rpcErr(cl, path, err)
		return
	}
	if !resp.GetSwamps()[0].GetIsExist() {
		d.rpcErr(cl, path, fmt.Errorf("swamp reported as not existing"))
		return
	}
	var items []item
	for _, t := range resp.GetSwamps()[0].GetTreasures() {
		if t.GetIsExist() {
			items = append(items, item{key: t.GetKey(), exp: tsNanos(t.ExpiredAt)})
		}
	}
	d.observe(cl, ask{path: path, now: now, want: func(int64) tri { return must }}, items)
}

// membership predicates
func wIndexed(v int64) tri {
	if v != 0 {
		return must
	}
	return mustnot
}
func wExpired(now int64) func(int64) tri {
	return func(v int64) tri {
		if expired(v, now) {
			return must
		}
		return mustnot
	}
}
func wFrom(now int64) func(int64) tri { // documented [from, ...)
	return func(v int64) tri {
		if v != 0 && v >= now {
			return must
		}
		return mustnot
	}
}

// wWindow: [from,to) with both boundaries accepted either way (GetByIndex / stream only say "between")
func wWindow(from, to *int64) func(int64) tri {
	return func(v int64) tri {
		if v == 0 {
			return mustnot
		}
		if (from != nil && v == *from) || (to != nil && v == *to) {
			return either
		}
		if from != nil && v < *from {
			return mustnot
		}
		if to != nil && v > *to {
			return mustnot
		}
		return must
	}
}

// readAsks runs every read-only expiry-aware path on one clone.
func (d *drv) readAsks(cl *clone, full bool) {
	now := d.now()
	d.get(cl, "Get")
	d.getByIndex(cl, "GetByIndex-asc", &hydrapb.GetByIndexRequest{OrderType: hydrapb.OrderType_ASC}, ask{want: wIndexed, order: +1})
	d.getByIndex(cl, "GetByIndex-desc", &hydrapb.GetByIndexRequest{OrderType: hydrapb.OrderType_DESC}, ask{want: wIndexed, order: -1})
	if !full {
		return
	}
	d.getByIndex(cl, "GetByIndex-asc-toNow", &hydrapb.GetByIndexRequest{OrderType: hydrapb.OrderType_ASC, ToTime: ts(now)}, ask{want: wWindow(nil, &now), order: +1})
	d.getByIndex(cl, "GetByIndex-desc-toNow", &hydrapb.GetByIndexRequest{OrderType: hydrapb.OrderType_DESC, ToTime: ts(now)}, ask{want: wWindow(nil, &now), order: -1})
	d.getByIndex(cl, "GetByIndex-desc-fromNow", &hydrapb.GetByIndexRequest{OrderType: hydrapb.OrderType_DESC, FromTime: ts(now)}, ask{want: wWindow(&now, nil), order: -1})
	d.getByIndex(cl, "GetByIndex-asc-fromNow", &hydrapb.GetByIndexRequest{OrderType: hydrapb.OrderType_ASC, FromTime: ts(now)}, ask{want: wWindow(&now, nil), order: +1})
	lo, hi := now+d.h.Win[0], now+d.h.Win[1]
	if d.h.WinPre {
		lo = -2 * int64(time.Second)
	}
	d.getByIndex(cl, "GetByIndex-asc-window", &hydrapb.GetByIndexRequest{OrderType: hydrapb.OrderType_ASC, FromTime: ts(lo), ToTime: ts(hi)}, ask{want: wWindow(&lo, &hi), order: +1})
	d.getByIndex(cl, "GetByIndex-desc-window", &hydrapb.GetByIndexRequest{OrderType: hydrapb.OrderType_DESC, FromTime: ts(lo), ToTime: ts(hi)}, ask{want: wWindow(&lo, &hi), order: -1})
	d.getByIndex(cl, "GetByIndex-asc-limited", &hydrapb.GetByIndexRequest{OrderType: hydrapb.OrderType_ASC, From: 1, Limit: d.h.Lim}, ask{want: wIndexed, order: +1, partial: true})
	d.getByIndex(cl, "GetByIndex-asc-toNow-limited", &hydrapb.GetByIndexRequest{OrderType: hydrapb.OrderType_ASC, ToTime: ts(now), Limit: d.h.Lim}, ask{want: wWindow(nil, &now), order: +1, partial: true})

	exp, key := hydrapb.IndexType_EXPIRATION_TIME, hydrapb.IndexType_KEY
	lt, ge := hydrapb.Relational_LESS_THAN, hydrapb.Relational_GREATER_THAN_OR_EQUAL
	d.stream(cl, "Stream-exp-asc-filterLtNow", &hydrapb.GetByIndexStreamRequest{IndexType: exp, OrderType: hydrapb.OrderType_ASC, Filters: expFilter(lt, now)}, ask{want: wExpired(now), order: +1})
	d.stream(cl, "Stream-key-asc-filterLtNow", &hydrapb.GetByIndexStreamRequest{IndexType: key, OrderType: hydrapb.OrderType_ASC, Filters: expFilter(lt, now)}, ask{want: wExpired(now)})
	d.stream(cl, "Stream-exp-desc-filterGeNow", &hydrapb.GetByIndexStreamRequest{IndexType: exp, OrderType: hydrapb.OrderType_DESC, Filters: expFilter(ge, now)}, ask{want: wFrom(now), order: -1})
	d.stream(cl, "Stream-exp-asc-toNow", &hydrapb.GetByIndexStreamRequest{IndexType: exp, OrderType: hydrapb.OrderType_ASC, ToTime: ts(now)}, ask{want: wWindow(nil, &now), order: +1})
	d.stream(cl, "Stream-exp-asc-filterLtNow-limited", &hydrapb.GetByIndexStreamRequest{IndexType: exp, OrderType: hydrapb.OrderType_ASC, Filters: expFilter(lt, now), MaxResults: d.h.Lim}, ask{want: wExpired(now), order: +1, partial: true})
}

func keySet(items []item) map[string]bool {
	m := map[string]bool{}
	for _, it := range items {
		m[it.key] = true
	}
	return m
}

func (d *drv) shiftExpired(cl *clone, path string, howMany int32) {
	now := d.now()
	d.reqs++
	resp, err := d.r.GW.ShiftExpiredTreasures(d.ctx, &hydrapb.ShiftExpiredTreasuresRequest{IslandID: cl.island, SwampName: cl.name, HowMany: howMany})
	if err != nil {
		d.rpcErr(cl, path, err)
		return
	}
	if !d.clockOK(path, now) {
		return
	}
	items := treasureItems(resp.GetTreasures())
	d.c.Count("claimed_records", int64(len(items)))
	d.observe(cl, ask{path: path, now: now, want: wExpired(now), order: +1, partial: howMany != 0, claim: true}, items)
	cl.m.afterShift(keySet(items))
}

func (d *drv) shiftMatching(cl *clone, path string, req *hydrapb.ShiftMatchingTreasuresRequest, a ask) {
	req.IslandID, req.SwampName, req.IndexType = cl.island, cl.name, hydrapb.IndexType_EXPIRATION_TIME
	a.path, a.now, a.claim = path, d.now(), true
	d.reqs++
	resp, err := d.r.GW.ShiftMatchingTreasures(d.ctx, req)
	if err != nil {
		d.rpcErr(cl, path, err)
		return
	}
	if !d.clockOK(path, a.now) {
		return
	}
	items := treasureItems(resp.GetTreasures())
	d.c.Count("claimed_records", int64(len(items)))
	d.observe(cl, a, items)
	cl.m.afterShift(keySet(items))
}

func (d *drv) patchExpired(cl *clone, path string, howMany int32, ms *metaSpec, withOps bool) {
	now := d.now()
	req := &hydrapb.PatchExpiredTreasuresRequest{IslandID: cl.island, SwampName: cl.name, HowMany: howMany, Meta: d.pbMeta(ms)}
	if withOps {
		req.Ops = patchOps(7, false)
	}
	d.reqs++
	resp, err := d.r.GW.PatchExpiredTreasures(d.ctx, req)
	if err != nil {
		d.rpcErr(cl, path, err)
		return
	}
	if !d.clockOK(path, now) {
		return
	}
	var items []item
	patched := map[string]bool{}
	for _, p := range resp.GetPatched() {
		items = append(items, item{key: p.GetKey(), exp: tsNanos(p.ExpiredAt), status: p.GetStatus().String()})
		if p.GetStatus() == hydrapb.PatchResult_PATCHED {
			patched[p.GetKey()] = true
		}
		d.c.Seen("patchexpired_statuses", p.GetStatus().String())
	}
	d.c.Count("claimed_records", int64(len(items)))
	fieldWant := func(v int64, it item) int64 {
		if it.status != "PATCHED" || ms == nil {
			return v
		}
		if ms.Clear {
			return 0
		}
		if ms.Exp != nil {
			if nv, valid := ms.Exp.nanos(d.base); valid {
				return nv
			}
			return v // zero SetExpiredAt is not generated for PatchExpired
		}
		return v
	}
	d.observe(cl, ask{path: path, now: now, want: wExpired(now), order: +1, partial: howMany != 0, claim: true, fieldWant: fieldWant}, items)
	cl.m.afterPatchExpired(patched, ms, d.base)
}

type scenario struct {
	name string
	run  func(d *drv, cl *clone)
}

func abs(off time.Duration) *expSpec { return &expSpec{K: "abs", Off: int64(off)} }

// claim scenarios: each runs on its own clone of the history.
func scenarios() []scenario {
	lt := hydrapb.Relational_LESS_THAN
	return []scenario{
		{"shx", func(d *drv, cl *clone) {
			d.shiftExpired(cl, "ShiftExpired", 0)
			d.get(cl, "Get-afterShiftExpired")
			d.shiftExpired(cl, "ShiftExpired-again", 0)
			d.readAsks(cl, false)
		}},
		{"shxlim", func(d *drv, cl *clone) {
			d.shiftExpired(cl, "ShiftExpired-limited", d.h.Lim)
			d.shiftExpired(cl, "ShiftExpired-rest", 0)
		}},
		{"smf", func(d *drv, cl *clone) {
			now := d.now()
			d.shiftMatching(cl, "ShiftMatching-asc-filterLtNow", &hydrapb.ShiftMatchingTreasuresRequest{OrderType: hydrapb.OrderType_ASC, Filters: expFilter(lt, now)}, ask{want: wExpired(now), order: +1})
			d.get(cl, "Get-afterShiftMatching")
			d.shiftExpired(cl, "ShiftExpired-afterShiftMatching", 0)
		}},
		{"smt", func(d *drv, cl *clone) {
			now := d.now()
			d.shiftMatching(cl, "ShiftMatching-asc-toNow", &hydrapb.ShiftMatchingTreasuresRequest{OrderType: hydrapb.OrderType_ASC, ToTime: ts(now)}, ask{want: wExpired(now), order: +1})
			d.shiftMatching(cl, "ShiftMatching-desc-all", &hydrapb.ShiftMatchingTreasuresRequest{OrderType: hydrapb.OrderType_DESC}, ask{want: wIndexed, order: -1})
		}},
		{"smfrom", func(d *drv, cl *clone) {
			now := d.now()
			d.shiftMatching(cl, "ShiftMatching-desc-fromNow", &hydrapb.ShiftMatchingTreasuresRequest{OrderType: hydrapb.OrderType_DESC, FromTime: ts(now)}, ask{want: wFrom(now), order: -1})
			d.shiftExpired(cl, "ShiftExpired-afterShiftMatching", 0)
		}},
		{"smlim", func(d *drv, cl *clone) {
			now := d.now()
			d.shiftMatching(cl, "ShiftMatching-asc-filterLtNow-limited", &hydrapb.ShiftMatchingTreasuresRequest{OrderType: hydrapb.OrderType_ASC, Filters: expFilter(lt, now), HowMany: d.h.Lim}, ask{want: wExpired(now), order: +1, partial: true})
			d.shiftMatching(cl, "ShiftMatching-desc-toNow-maxResults", &hydrapb.ShiftMatchingTreasuresRequest{OrderType: hydrapb.OrderType_DESC, ToTime: ts(now), MaxResults: 1}, ask{want: wExpired(now), order: -1, partial: true})
			d.shiftMatching(cl, "ShiftMatching-asc-toNow-rest", &hydrapb.ShiftMatchingTreasuresRequest{OrderType: hydrapb.OrderType_ASC, ToTime: ts(now)}, ask{want: wExpired(now), order: +1})
		}},
		{"pxfut", func(d *drv, cl *clone) {
			off := time.Duration(d.now()-d.base) + time.Hour
			d.patchExpired(cl, "PatchExpired-slideFuture", 0, &metaSpec{Exp: abs(off)}, true)
			d.readAsks(cl, false)
			d.shiftExpired(cl, "ShiftExpired-afterPatchExpired", 0)
		}},
		{"pxclr", func(d *drv, cl *clone) {
			// ClearExpiredAt "takes precedence over SetExpiredAt when both are present"
			off := time.Duration(d.now()-d.base) + time.Hour
			d.patchExpired(cl, "PatchExpired-clear", 0, &metaSpec{Clear: true, Exp: abs(off)}, false)
			d.readAsks(cl, false)
			d.shiftExpired(cl, "ShiftExpired-afterPatchExpired", 0)
		}},
		{"pxpast", func(d *drv, cl *clone) {
			off := time.Duration(d.now()-d.base) - time.Minute
			d.patchExpired(cl, "PatchExpired-slidePast", 0, &metaSpec{Exp: abs(off)}, false)
			d.patchExpired(cl, "PatchExpired-again-touch", 0, &metaSpec{Touch: true}, false)
			d.readAsks(cl, false)
			d.shiftExpired(cl, "ShiftExpired-afterPatchExpired", 0)
		}},
		{"pxlim", func(d *drv, cl *clone) {
			off := time.Duration(d.now()-d.base) + time.Second
			d.patchExpired(cl, "PatchExpired-limited", d.h.Lim, &metaSpec{Exp: abs(off)}, false)
			d.patchExpired(cl, "PatchExpired-rest-opsOnly", 0, nil, true)
			d.shiftExpired(cl, "ShiftExpired-afterPatchExpired", 0)
		}},
		{"pxpre", func(d *drv, cl *clone) {
			d.patchExpired(cl, "PatchExpired-slidePreEpoch", 0, &metaSpec{Exp: &expSpec{K: "pre", Off: -1500 * int64(time.Millisecond)}}, false)
			d.readAsks(cl, false)
			d.shiftExpired(cl, "ShiftExpired-afterPatchExpired", 0)
		}},
	}
}

// ---- one history ---------------------------------------------------------------------------

type result struct {
	fails      map[string]string
	trace      []string
	incon      string
	nontrivial bool
	reqs       int64
	bycatch    int
}

func runHist(c *rig.Check, t *testing.T, h hist) (res result) {
	root := rig.TempRoot("c30")
	defer rig.RemoveAll(root)
	synctest.Test(t, func(t *testing.T) {
		d := &drv{c: c, h: h, ctx: context.Background(), fails: map[string]string{}, pool: map[int][]func(int64) *failure{}, poolRec: map[int][]int64{}}
		d.r = rig.New(rig.Options{Root: root, CloseAfterIdle: idleSec})
		defer func() {
			d.r.Stop()
			time.Sleep(2 * time.Minute)
			res = result{fails: d.fails, trace: d.trace, incon: d.incon, nontrivial: d.slid && d.nExpired > 0 && d.nOther > 0, reqs: d.reqs, bycatch: d.bycatch}
		}()
		d.r.Register("c30/h/*", false, idleSec, 1)
		d.base = d.now()
		if d.base != baseNominal {
			d.inconclusive(fmt.Sprintf("virtual clock started at %d, expected %d", d.base, baseNominal))
		}

		sc := scenarios()
		M := newModel()
		mk := func(name string) *clone {
			n := "c30/h/" + name
			return &clone{name: n, island: rig.Island(n), m: M}
		}
		reader := mk("read")
		var clonesA, clonesB []*clone
		for _, s := range sc {
			clonesA = append(clonesA, mk("a-"+s.name))
			clonesB = append(clonesB, mk("b-"+s.name))
		}
		all := append(append([]*clone{reader}, clonesA...), clonesB...)

		reload := func() bool {
			time.Sleep(reloadGap)
			if n := d.r.Active(); n != 0 {
				d.inconclusive(fmt.Sprintf("reload: %d swamps still in memory after %v idle", n, reloadGap))
				return false
			}
			M.epoch++
			d.c.Count("reloads", 1)
			return true
		}

		for i, st := range h.Steps {
			if d.incon != "" {
				return
			}
			d.logf("step %d %s t=+%v", i, rig.Dump(st)[:min(len(rig.Dump(st)), 200)], time.Duration(d.now()-d.base))
			switch st.Op {
			case "adv":
				time.Sleep(time.Duration(st.Dur))
			case "reload":
				reload()
			case "set":
				for _, cl := range all {
					d.doSet(cl, i, st)
				}
				M.applySet(st.Key, st.Exp, st.Void, d.base)
			case "patch":
				want := map[string]string{}
				ms1, msReq := st.Meta, st.Meta
				if st.PerKey {
					msReq = st.ReqMeta
				}
				want[st.Key] = M.applyPatchKey(st.Key, ms1, st.Create, d.base)
				if st.Key2 != "" {
					want[st.Key2] = M.applyPatchKey(st.Key2, msReq, st.Create, d.base)
				}
				for _, cl := range all {
					d.doPatch(cl, i, st, want)
				}
				d.slid = true
			case "inc":
				wantInc, check := M.applyInc(st.Key, st.Exp, st.Exp2, st.CondFail, d.base)
				for _, cl := range all {
					d.doInc(cl, st, wantInc, check, M.recs[st.Key])
				}
				if st.Exp2 != nil {
					d.slid = true
				}
			case "del":
				for _, cl := range all {
					d.doDel(cl, st)
				}
				M.applyDel(st.Key)
			case "peek":
				for _, cl := range all {
					d.readAsks(cl, false)
				}
			case "shiftmid", "pexpmid":
				if M.ambiguous() {
					d.logf("step %d skipped: ambiguous records present", i)
					continue
				}
				// every clone performs the same claim; the shared model is advanced once, from a
				// private copy per clone so that each clone is checked against the same pre-state
				var next *model
				for _, cl := range all {
					cl.m = M.copy()
					if st.Op == "shiftmid" {
						d.shiftExpired(cl, "ShiftExpired-mid", 0)
					} else {
						d.patchExpired(cl, "PatchExpired-mid", 0, st.Meta, st.NoOps == false)
					}
					if next == nil {
						next = cl.m
					} else {
						// taints found on any clone carry over
						for k, r := range cl.m.recs {
							if r.Taint && next.recs[k] != nil {
								next.recs[k].Taint = true
							}
						}
					}
				}
				M = next
				for _, cl := range all {
					cl.m = M
				}
				d.slid = true
			}
		}
		if d.incon != "" {
			return
		}

		phase := func(tag string, clones []*clone) {
			now := d.now()
			for _, r := range M.recs {
				if r.Taint {
					continue
				}
				if expired(r.Cands[0], now) {
					d.nExpired++
				} else {
					d.nOther++
				}
			}
			d.logf("phase %s at t=+%v model=%s", tag, time.Duration(now-d.base), dumpModel(M, now))
			reader.m = M
			d.readAsks(reader, true)
			for i, s := range sc {
				clones[i].m = M.copy()
				s.run(d, clones[i])
			}
		}
		phase("A", clonesA)
		if d.incon != "" {
			return
		}
		if !reload() {
			return
		}
		phase("B", clonesB)
		d.settle()
	})
	return
}

func dumpModel(m *model, now int64) string {
	var sb strings.Builder
	for _, k := range m.keys() {
		r := m.recs[k]
		fmt.Fprintf(&sb, "%s{%v %s via=%s taint=%v w=%d} ", k, fmtTs(r.Cands), classOf(r.Cands[0], now, r.Had), r.Via, r.Taint, r.WEpoch)
	}
	return sb.String()
}
