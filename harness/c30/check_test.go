// C30 — expiry semantics are consistent across every read and claim path.
//
// Monitor: generated histories set, slide and clear expiry times (Set with ExpiredAt, PatchTreasures
// with PatchMeta.SetExpiredAt / ClearExpiredAt at request and per-key level, IncrementInt32 request
// metadata, mid-history ShiftExpired / PatchExpired claims, deletes, optional eviction + reload)
// against the real engine (settings + zeus + hydra + gateway handlers) inside a synctest bubble whose
// virtual clock is stepped explicitly. Every history is replayed into 23 parallel swamps; at the end
// (and again after a forced reload) every expiry-aware path is asked at the same virtual instant —
// read-only paths on one swamp, each claiming path on its own clone — and all answers are compared
// with the expiry reference model of model_test.go.
package c30

import (
	"encoding/json"
	"fmt"
	"os"
	"path/filepath"
	"regexp"
	"sort"
	"strconv"
	"testing"
	"time"

	"verifharness/rig"
)

const baseNominal = 946684800 * int64(time.Second) // 2000-01-01T00:00:00Z, start of virtual time

var preEpoch = []int64{
	-1 * int64(time.Second),         // 1969-12-31T23:59:59Z            (Seconds=-1, Nanos=0)
	-1500 * int64(time.Millisecond), // 1969-12-31T23:59:58.5Z          (Seconds=-2, Nanos=5e8)
	-1,                              // one nanosecond before the epoch (Seconds=-1, Nanos=999999999)
	-315619200 * int64(time.Second), // 1960-01-01T00:00:00Z
	-2208988800*int64(time.Second) + 123456789, // 1900-01-01T00:00:00.123456789Z
}

var deltas = []time.Duration{-time.Hour, -time.Minute, -time.Second, -time.Millisecond, -1, 0, 1, time.Millisecond, time.Second, time.Minute, time.Hour, 15 * time.Second}

// Sleep lengths are chosen so that requests practically never fall on a multiple of the 1 s write
// interval after a swamp was opened: a request racing with the background flush is C16's subject
// (observed by-catch: a Delete issued at the flush instant can be undone by the next reload).
var advs = []time.Duration{time.Millisecond, 170 * time.Millisecond, 1300 * time.Millisecond, 3300 * time.Millisecond}

// gen builds one history. The time line (all sleeps) is fixed first so that expiry instants can be
// placed exactly before / at / after the instants at which the paths will be asked.
func gen(c *rig.Check, idx int) hist {
	r := c.Rand(idx)
	n := 6 + r.IntN(15)
	kinds := make([]string, 0, n)
	for len(kinds) < n {
		x := r.IntN(100)
		k := ""
		switch {
		case len(kinds) < 3:
			k = []string{"set", "set", "patch", "inc"}[r.IntN(4)]
		case x < 24:
			k = "set"
		case x < 46:
			k = "patch"
		case x < 60:
			k = "inc"
		case x < 64:
			k = "del"
		case x < 78:
			k = "adv"
		case x < 84:
			k = "reload"
		case x < 92:
			k = "peek"
		case x < 95:
			k = "shiftmid"
		default:
			k = "pexpmid"
		}
		if k == "adv" && len(kinds) > 0 && kinds[len(kinds)-1] == "adv" {
			continue
		}
		kinds = append(kinds, k)
	}
	// time line
	times := make([]int64, n+1)
	durs := make([]int64, n)
	for i, k := range kinds {
		switch k {
		case "adv":
			durs[i] = int64(advs[r.IntN(len(advs))])
		case "reload":
			durs[i] = int64(reloadGap)
		}
		times[i+1] = times[i] + durs[i]
	}
	tA := times[n]
	tB := tA + int64(reloadGap)

	pickExp := func(i int, allowNil bool) *expSpec {
		x := r.IntN(100)
		switch {
		case x < 8 && allowNil:
			return nil
		case x < 14:
			return &expSpec{K: "zero"}
		case x < 27:
			return &expSpec{K: "pre", Off: preEpoch[r.IntN(len(preEpoch))]}
		}
		var anchor int64
		switch y := r.IntN(100); {
		case y < 22:
			anchor = times[i]
		case y < 57:
			anchor = tA
		case y < 85:
			anchor = tB
		default:
			anchor = times[i+r.IntN(n+1-i)]
		}
		return &expSpec{K: "abs", Off: anchor + int64(deltas[r.IntN(len(deltas))])}
	}
	pickMeta := func(i int) *metaSpec {
		switch x := r.IntN(100); {
		case x < 20:
			return &metaSpec{Clear: true}
		case x < 27:
			return &metaSpec{Clear: true, Exp: pickExp(i, false)}
		case x < 80:
			return &metaSpec{Exp: pickExp(i, false), Touch: r.IntN(3) == 0}
		case x < 90:
			return &metaSpec{Touch: true}
		}
		return nil
	}

	mKeys := []string{"m0", "m1", "m2", "m3"}
	nKeys := []string{"n0", "n1"}
	anyKeys := []string{"m0", "m1", "m2", "m3", "n0", "n1", "s0"}
	M := newModel()
	h := hist{Lim: int32(1 + r.IntN(3))}
	wins := [][2]time.Duration{{-2 * time.Second, 2 * time.Second}, {-1, 1}, {0, time.Hour}, {-time.Hour, 0}, {-time.Minute, time.Minute}, {-1, 2 * time.Hour}}
	w := wins[r.IntN(len(wins))]
	h.Win = [2]int64{int64(w[0]), int64(w[1])}
	h.WinPre = r.IntN(4) == 0

	for i, k := range kinds {
		now := baseNominal + times[i]
		st := step{Op: k}
		existing := M.keys()
		switch k {
		case "adv":
			st.Dur = durs[i]
		case "reload":
			M.epoch++
		case "peek":
		case "del":
			if len(existing) == 0 {
				st = step{Op: "set", Key: anyKeys[r.IntN(len(anyKeys))], Exp: pickExp(i, true)}
				M.applySet(st.Key, st.Exp, false, baseNominal)
				break
			}
			st.Key = existing[r.IntN(len(existing))]
			M.applyDel(st.Key)
		case "set":
			st.Key = anyKeys[r.IntN(len(anyKeys))]
			st.Exp = pickExp(i, true)
			if st.Key == "s0" {
				st.Void = r.IntN(2) == 0
			}
			M.applySet(st.Key, st.Exp, st.Void, baseNominal)
		case "patch":
			st.Key = mKeys[r.IntN(len(mKeys))]
			st.Create = r.IntN(3) != 0
			st.NoOps = r.IntN(4) == 0
			st.Meta = pickMeta(i)
			if st.NoOps && st.Meta == nil {
				st.NoOps = false
			}
			if r.IntN(3) == 0 {
				st.PerKey = true
				if st.Meta == nil {
					st.Meta = &metaSpec{Touch: true}
				}
				st.ReqMeta = pickMeta(i)
			}
			if r.IntN(3) == 0 {
				st.Key2 = mKeys[r.IntN(len(mKeys))]
				if st.Key2 == st.Key {
					st.Key2 = ""
				}
			}
			M.applyPatchKey(st.Key, st.Meta, st.Create, baseNominal)
			if st.Key2 != "" {
				ms := st.Meta
				if st.PerKey {
					ms = st.ReqMeta
				}
				M.applyPatchKey(st.Key2, ms, st.Create, baseNominal)
			}
		case "inc":
			st.Key = nKeys[r.IntN(len(nKeys))]
			if r.IntN(5) != 0 {
				st.Exp = pickExp(i, false)
			}
			if r.IntN(4) != 0 {
				st.Exp2 = pickExp(i, false)
			}
			if M.recs[st.Key] != nil && r.IntN(6) == 0 {
				st.CondFail = true
			}
			M.applyInc(st.Key, st.Exp, st.Exp2, st.CondFail, baseNominal)
		case "shiftmid", "pexpmid":
			if M.ambiguous() || len(existing) == 0 {
				st = step{Op: "set", Key: anyKeys[r.IntN(len(anyKeys))], Exp: pickExp(i, false)}
				M.applySet(st.Key, st.Exp, false, baseNominal)
				break
			}
			if k == "pexpmid" {
				st.Meta = pickMeta(i)
				if st.Meta != nil && st.Meta.Exp != nil && st.Meta.Exp.K == "zero" {
					st.Meta.Exp = &expSpec{K: "abs", Off: times[i] + int64(time.Hour)}
				}
				if st.Meta == nil {
					st.NoOps = false // ops only
				} else {
					st.NoOps = r.IntN(2) == 0
				}
			}
			ret, pat := map[string]bool{}, map[string]bool{}
			for key, rc := range M.recs {
				if expired(rc.Cands[0], now) {
					ret[key] = true
					if rc.Kind == "mp" {
						pat[key] = true
					}
				}
			}
			if k == "shiftmid" {
				M.afterShift(ret)
			} else {
				M.afterPatchExpired(pat, st.Meta, baseNominal)
			}
		}
		h.Steps = append(h.Steps, st)
	}
	return h
}

func x(k string, off time.Duration) *expSpec { return &expSpec{K: k, Off: int64(off)} }

// fixedCases are the sequences the property text names explicitly.
func fixedCases() []hist {
	sec := time.Second
	base := hist{Lim: 2, Win: [2]int64{-int64(sec), int64(sec)}}
	mk := func(steps ...step) hist { h := base; h.Steps = steps; return h }
	return []hist{
		// past / now / future / none, slid and cleared through a patch
		mk(step{Op: "set", Key: "m0", Exp: x("abs", -sec)}, step{Op: "set", Key: "m1", Exp: x("abs", sec)}, step{Op: "set", Key: "m2", Exp: x("abs", time.Hour)},
			step{Op: "set", Key: "m3"}, step{Op: "set", Key: "n0", Exp: x("abs", 31*sec)}, step{Op: "peek"}, step{Op: "adv", Dur: int64(sec)},
			step{Op: "patch", Key: "m2", Meta: &metaSpec{Exp: x("abs", -time.Minute)}}, step{Op: "patch", Key: "m0", Meta: &metaSpec{Clear: true}}),
		// pre-epoch and zero through every input path
		mk(step{Op: "set", Key: "m0", Exp: x("pre", -sec)}, step{Op: "set", Key: "m1", Exp: x("pre", -1500*time.Millisecond)}, step{Op: "set", Key: "m2", Exp: x("zero", 0)},
			step{Op: "patch", Key: "m3", Create: true, Meta: &metaSpec{Exp: x("pre", -sec)}}, step{Op: "inc", Key: "n0", Exp: x("pre", -sec)},
			step{Op: "set", Key: "s0", Exp: x("abs", time.Hour)}, step{Op: "inc", Key: "n1", Exp: x("abs", -sec)}, step{Op: "inc", Key: "n1", Exp2: x("pre", -1)}),
		// index built first, then slide / clear / void, reload in between
		mk(step{Op: "set", Key: "m0", Exp: x("abs", time.Hour)}, step{Op: "set", Key: "s0", Exp: x("abs", -sec)}, step{Op: "set", Key: "n0", Exp: x("abs", time.Hour)}, step{Op: "peek"},
			step{Op: "patch", Key: "m0", Meta: &metaSpec{Exp: x("abs", -sec)}}, step{Op: "set", Key: "s0", Void: true, Exp: x("abs", -2*sec)}, step{Op: "inc", Key: "n0", Exp2: x("abs", -3*sec)},
			step{Op: "reload", Dur: 0}, step{Op: "patch", Key: "m0", PerKey: true, Meta: &metaSpec{Touch: true}, ReqMeta: &metaSpec{Clear: true}, Key2: "m1", Create: true},
			step{Op: "pexpmid", Meta: &metaSpec{Exp: x("abs", 45*sec)}}, step{Op: "adv", Dur: int64(sec)}),
	}
}

func TestCheck(t *testing.T) {
	c := rig.NewCheck(t, "C30", "exploration")
	defer c.Finish()
	c.Rule = "histories of Set(ExpiredAt) / PatchTreasures(PatchMeta Set/ClearExpiredAt, request- and per-key) / IncrementInt32(SetIfExist/SetIfNotExist.ExpiredAt, optional failing condition) / Delete / mid-history ShiftExpired and PatchExpired / virtual sleeps / eviction+reload, with expiry instants placed before, exactly at and after the instants of the final asks, zero, unset and pre-1970 values; replayed into 23 swamps; at the end and again after a forced reload every read path (Get, GetByIndex asc/desc/windows/limits, GetByIndexStream with ExpiredAt filters and windows) and every claim path (ShiftExpired, ShiftMatching on the expiration index with filter / FromTime / ToTime, PatchExpired set/clear/slide, each on its own clone, with follow-up reads) is compared with the model expired <=> exp != 0 && exp < now. non-trivial = the history slid or cleared an expiry through a patch / increment / claim and at a final ask at least one record was expired and at least one was not; distinct = distinct history JSON"
	c.Assumptions = []string{
		"expiry boundary: documentation says ExpiredAt < now (strict), so a record with exp == now is required to be NOT expired",
		"unspecified, both outcomes accepted (but every path must then agree on one of them, before and after reload): Set on an existing key without a usable ExpiredAt (unset or 1970-01-01T00:00:00Z) keeps or resets the old expiry; PatchMeta.SetExpiredAt / Increment metadata ExpiredAt equal to the zero timestamp resets or is ignored; SetIfExist metadata of an Increment whose condition is not met is applied or not",
		"unspecified: whether GetByIndex / GetByIndexStream FromTime and ToTime bounds are inclusive; a record exactly on a bound may be returned or not (ShiftMatching documents [FromTime, ToTime) and is checked exactly)",
		"unspecified: result of an ExpiredAt >= t filter on a record without expiry outside the expiration index (not generated)",
		"limited requests (HowMany / Limit / MaxResults) are only checked for eligibility and order of what they return, not for which eligible records they pick",
		"pre-1970 expiry instants are part of the quantifier ('including zero and pre-epoch times'); violations that need one carry the expiry class 'preepoch' in their signature",
		"PatchTreasures / PatchExpired status codes are taken from the responses, not modelled (C13); a history whose write statuses differ from the prediction is inconclusive",
		"not driven: the *Many batch variants, GetByIndexStreamFromMany, profile-mode filters, Cap, concurrent callers (C11/C12), V1 engine",
	}
	fixed := fixedCases()
	caseAt := func(j int) hist {
		if j < len(fixed) {
			return fixed[j]
		}
		return gen(c, j-len(fixed))
	}
	n := c.N(300, 6000)
	dumpRe := dumpFilter()
	runRange := func(from, to int, replay *hist) {
		for j := from; j < to; j++ {
			var h hist
			if replay != nil {
				h = *replay
			} else {
				h = caseAt(j)
			}
			res := runHist(c, t, h)
			c.Case(rig.Dump(h), res.nontrivial)
			c.Sample(h)
			c.Count("requests", res.reqs)
			c.Count("steps", int64(len(h.Steps)))
			if res.incon != "" {
				c.Inconclusive(res.incon)
				if replay != nil {
					t.Logf("inconclusive: %s", res.incon)
				}
			}
			var ss []string
			for s := range res.fails {
				ss = append(ss, s)
			}
			sort.Strings(ss)
			for _, s := range ss {
				c.Count("sig "+s, 1)
				c.Violate(s, res.fails[s], map[string]any{"history": h, "trace": res.trace})
				dumpCase(dumpRe, s, j, h, res)
			}
			if res.bycatch > 0 {
				res.fails["bycatch"] = "deleted record returned"
				dumpCase(dumpRe, "bycatch", j, h, res)
			}
			if replay != nil {
				for _, l := range res.trace {
					t.Log(l)
				}
			}
		}
	}
	switch {
	case c.ReplayPath() != "":
		var w struct {
			Witness struct{ History hist } `json:"witness"`
		}
		rig.ReadJSON(c.ReplayPath(), &w)
		c.MinNontrivial = 0
		runRange(0, 1, &w.Witness.History)
	case c.IsChild():
		var sp shard
		c.ChildSpec(&sp)
		runRange(sp.From, sp.To, nil)
	case os.Getenv("C30_INPROC") != "": // debugging / profiling: no child processes
		if v, err := strconv.Atoi(os.Getenv("C30_INPROC")); err == nil && v > 0 && v < n {
			n = v
		}
		runRange(0, n, nil)
	default:
		c.MinNontrivial = n / 4
		per := (n + 47) / 48
		var specs []any
		for from := 0; from < n; from += per {
			specs = append(specs, shard{From: from, To: min(from+per, n)})
		}
		for _, r := range c.Fanout(specs, rig.FanoutOpts{Par: 16, Timeout: 30 * time.Minute}) {
			if r.ExitErr != nil || r.TimedOut || r.NoPartial || len(r.Fatal) > 0 {
				c.Inconclusive(fmt.Sprintf("child %v: exit=%v timeout=%v fatal=%v log=%s", r.Spec, r.ExitErr, r.TimedOut, r.Fatal, r.LogPath))
			}
		}
	}
}

type shard struct{ From, To int }

// Debug aid: C30_DUMP=<regexp> writes the first histories whose violation signature matches to
// $C30_DUMP_DIR (default /tmp) as replay files.
func dumpFilter() *regexp.Regexp {
	if e := os.Getenv("C30_DUMP"); e != "" {
		return regexp.MustCompile(e)
	}
	return nil
}

func dumpCase(re *regexp.Regexp, sig string, j int, h hist, res result) {
	if re == nil || !re.MatchString(sig) {
		return
	}
	dir := os.Getenv("C30_DUMP_DIR")
	if dir == "" {
		dir = "/tmp"
	}
	p := filepath.Join(dir, fmt.Sprintf("c30-dump-%04d.json", j))
	if _, err := os.Stat(p); err == nil {
		return
	}
	b, _ := json.MarshalIndent(map[string]any{"sig": sig, "what": res.fails[sig], "witness": map[string]any{"history": h, "trace": res.trace}}, "", " ")
	_ = os.WriteFile(p, b, 0o644)
}
