package c30

// Expiry reference model for C30. Written from the property statement and the documentation
// (proto/hydraide.proto comments on ExpiredAt / ShiftExpiredTreasures / ShiftMatchingTreasures /
// PatchExpiredTreasures / PatchMeta / IncrementRequestMetadata, docs/features/catalog-shift.md,
// docs/features/patch-expired-treasures.md, docs/features/query-engine.md):
//
//   - a record carries an expiry instant exp (unix nanoseconds); exp == 0 means "no expiry";
//   - expired(now)  <=>  exp != 0 && exp < now   ("ExpiredAt < now()", strict);
//   - a record with exp == 0 is absent from the EXPIRATION_TIME index and never expires;
//   - PatchMeta.ClearExpiredAt wins over SetExpiredAt; a per-patch Meta replaces the request Meta.
//
// Where the documentation is silent the model keeps several candidate values for exp; a record
// then only fails when no single candidate explains all observations made on it.

import (
	"sort"
	"strings"
)

type tri int

const (
	either tri = iota
	must
	mustnot
)

type expSpec struct {
	K   string `json:"k"`             // abs | pre | zero    (nil pointer = field not sent)
	Off int64  `json:"off,omitempty"` // abs: ns relative to the virtual start; pre: absolute unix ns (<0)
}

// nanos resolves a spec. valid=false means "the request carried no usable expiry" (unset or zero).
func (s *expSpec) nanos(base int64) (v int64, valid bool) {
	if s == nil {
		return 0, false
	}
	switch s.K {
	case "abs":
		return base + s.Off, true
	case "pre":
		return s.Off, true
	}
	return 0, false
}

type metaSpec struct {
	Exp   *expSpec `json:"exp,omitempty"`
	Clear bool     `json:"clear,omitempty"`
	Touch bool     `json:"touch,omitempty"` // SetUpdatedAt
}

type rec struct {
	Cands  []int64 // candidate expiry values, [0] = primary reading
	Had    bool    // had a non-zero expiry at some point of its life (class "cleared" vs "zero")
	Via    string  // last expiry-affecting operation
	WEpoch int     // reload epoch of the last write to this record
	ID     int     // version id: observations on the same version are pooled
	Kind   string  // mp | i32 | str | void
	Taint  bool    // implementation state unknown after a reported claim violation: not checked any more
}

type model struct {
	recs  map[string]*rec
	epoch int
	ids   *int
}

func newModel() *model { n := 0; return &model{recs: map[string]*rec{}, ids: &n} }

func (m *model) newID() int { *m.ids++; return *m.ids }

func (m *model) copy() *model {
	o := &model{recs: map[string]*rec{}, epoch: m.epoch, ids: m.ids}
	for k, r := range m.recs {
		c := *r
		c.Cands = append([]int64(nil), r.Cands...)
		o.recs[k] = &c
	}
	return o
}

func (m *model) keys() []string {
	var ks []string
	for k := range m.recs {
		ks = append(ks, k)
	}
	sort.Strings(ks)
	return ks
}

func (m *model) ambiguous() bool {
	for _, r := range m.recs {
		if len(r.Cands) > 1 {
			return true
		}
	}
	return false
}

func (m *model) checkable() int {
	n := 0
	for _, r := range m.recs {
		if !r.Taint {
			n++
		}
	}
	return n
}

func uniq(vs ...int64) []int64 {
	var out []int64
	for _, v := range vs {
		dup := false
		for _, o := range out {
			if o == v {
				dup = true
			}
		}
		if !dup {
			out = append(out, v)
		}
	}
	return out
}

func anyNonZero(vs []int64) bool {
	for _, v := range vs {
		if v != 0 {
			return true
		}
	}
	return false
}

func kindOfKey(key string) string {
	switch key[0] {
	case 'm':
		return "mp"
	case 'n':
		return "i32"
	}
	return "str"
}

func expired(v, now int64) bool { return v != 0 && v < now }

func classOf(v, now int64, had bool) string {
	switch {
	case v == 0 && had:
		return "cleared"
	case v == 0:
		return "zero"
	case v < 0:
		return "preepoch"
	case v < now:
		return "past"
	case v == now:
		return "now"
	}
	return "future"
}

// lineage names the operation for a step that inherits the candidate readings of earlier
// unspecified steps: "<earlier steps>+<this step>" (at most four, the oldest and the newest
// three), so that the signature still names every step that may be the root.
func lineage(r *rec, via string) string {
	if len(r.Cands) <= 1 {
		return via
	}
	parts := append(strings.Split(r.Via, "+"), via)
	var out []string
	for _, p := range parts {
		if len(out) == 0 || out[len(out)-1] != p {
			out = append(out, p)
		}
	}
	if len(out) > 4 {
		out = append(out[:1:1], out[len(out)-3:]...)
	}
	return strings.Join(out, "+")
}

func (m *model) setCands(r *rec, c []int64, via string) {
	r.Cands = c
	r.Had = r.Had || anyNonZero(c)
	r.Via = via
	r.ID = m.newID()
	r.WEpoch = m.epoch
}

// ---- transitions -------------------------------------------------------------------------

func (m *model) applySet(key string, spec *expSpec, void bool, base int64) {
	v, valid := spec.nanos(base)
	kind := kindOfKey(key)
	via := "set"
	if void {
		kind = "void"
		via = "setvoid"
	}
	r := m.recs[key]
	if r == nil {
		r = &rec{Kind: kind}
		m.recs[key] = r
		if valid {
			m.setCands(r, []int64{v}, via)
		} else {
			m.setCands(r, []int64{0}, via+"-noexp")
		}
		return
	}
	r.Kind = kind
	r.WEpoch = m.epoch
	if valid {
		r.Taint = false
		m.setCands(r, []int64{v}, via)
		return
	}
	// Set on an existing record without a usable ExpiredAt: unspecified whether the old expiry
	// survives or the record is reset to "no expiry".
	m.setCands(r, uniq(append(append([]int64(nil), r.Cands...), 0)...), lineage(r, via+"-noexp"))
}

// applyMeta applies a PatchMeta to an existing/created record.
func (m *model) applyMeta(r *rec, ms *metaSpec, base int64, viaPrefix string) {
	r.WEpoch = m.epoch
	if ms == nil {
		return
	}
	if ms.Clear {
		m.setCands(r, []int64{0}, viaPrefix+"-clear")
		return
	}
	if ms.Exp != nil {
		if v, valid := ms.Exp.nanos(base); valid {
			m.setCands(r, []int64{v}, viaPrefix+"-set")
		} else {
			// SetExpiredAt = 1970-01-01T00:00:00Z: zero expiry; "set to never" or "ignored" both accepted
			m.setCands(r, uniq(append([]int64{0}, r.Cands...)...), lineage(r, viaPrefix+"-setzero"))
		}
	}
}

// applyPatchKey returns the predicted PatchResult status name.
func (m *model) applyPatchKey(key string, ms *metaSpec, create bool, base int64) string {
	r := m.recs[key]
	definite := ms != nil && (ms.Clear || (ms.Exp != nil && ms.Exp.K != "zero"))
	if r != nil && r.Taint {
		if create && definite {
			r.Taint = false
			r.Kind = "mp"
			m.applyMeta(r, ms, base, "patch")
			return "*"
		}
		return "*"
	}
	if r == nil {
		if !create {
			return "KEY_NOT_FOUND"
		}
		r = &rec{Kind: "mp"}
		m.recs[key] = r
		m.setCands(r, []int64{0}, "patch-create")
		m.applyMeta(r, ms, base, "patch")
		return "CREATED"
	}
	m.applyMeta(r, ms, base, "patch")
	return "PATCHED"
}

// applyInc returns (predicted IsIncremented, check) ; check=false when the record is tainted.
func (m *model) applyInc(key string, ifNot, ifExist *expSpec, condFail bool, base int64) (bool, bool) {
	r := m.recs[key]
	if r != nil && r.Taint {
		return false, false
	}
	if r == nil {
		r = &rec{Kind: "i32"}
		m.recs[key] = r
		if v, valid := ifNot.nanos(base); valid {
			m.setCands(r, []int64{v}, "inc-new")
		} else {
			m.setCands(r, []int64{0}, "inc-new-noexp")
		}
		return true, true
	}
	if condFail {
		// unspecified whether SetIfExist metadata is applied when the condition is not met
		if ifExist != nil {
			v, _ := ifExist.nanos(base)
			m.setCands(r, uniq(append(append([]int64(nil), r.Cands...), v)...), lineage(r, "inc-condfail"))
			r.WEpoch = m.epoch
		}
		return false, true
	}
	r.WEpoch = m.epoch
	if ifExist != nil {
		if v, valid := ifExist.nanos(base); valid {
			m.setCands(r, []int64{v}, "inc-exist")
		} else {
			m.setCands(r, uniq(append([]int64{0}, r.Cands...)...), lineage(r, "inc-setzero"))
		}
	}
	return true, true
}

func (m *model) applyDel(key string) {
	if r := m.recs[key]; r != nil && !r.Taint {
		delete(m.recs, key)
	}
}

// afterShift removes the records a shift returned (they are gone whatever the model thought).
func (m *model) afterShift(returned map[string]bool) {
	for k, r := range m.recs {
		if returned[k] && !r.Taint {
			delete(m.recs, k)
		}
	}
}

// afterPatchExpired updates the records a PatchExpired call reported as PATCHED.
func (m *model) afterPatchExpired(patched map[string]bool, ms *metaSpec, base int64) {
	for k, r := range m.recs {
		if patched[k] && !r.Taint {
			m.applyMeta(r, ms, base, "pexp")
		}
	}
}
