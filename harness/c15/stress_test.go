package c15

// Free-running contention phase. The scripted bubbles pin the arrival order by quiescence, so
// two acquires never arrive at the same instant; a guard whose free/busy test and enqueue are
// two separate critical sections hands out two non-zero ids only then. Here G goroutines hammer
// ONE guard (raw, and inside a treasure) with waiting and non-waiting acquires in real time;
// whoever got a non-zero id is inside until it releases, and an exclusivity counter that is
// incremented on entry must read exactly 1. Bounded by operations, nothing is decided by time;
// a watchdog that fires (somebody never got in) is reported separately.

import (
	"fmt"
	"math/rand/v2"
	"runtime"
	"sync"
	"sync/atomic"
	"time"

	"github.com/hydraide/hydraide/app/core/hydra/swamp/treasure"
	"github.com/hydraide/hydraide/app/core/hydra/swamp/treasure/guard"

	"verifharness/rig"
)

type stressSpec struct {
	Target     string `json:"target"` // guard | treasure
	Goroutines int    `json:"goroutines"`
	Iters      int    `json:"iters"`
	NoWaitPct  int    `json:"nowait_pct"`
	Seed       uint64 `json:"seed"`
}

func runStress(c *rig.Check, sp stressSpec) {
	var g guarded
	if sp.Target == "treasure" {
		g = treasure.New(func(tr treasure.Treasure, gid guard.ID) treasure.TreasureStatus { return treasure.StatusSame })
	} else {
		g = guard.New()
	}
	var inside, entries, refused, overlaps atomic.Int64
	var first atomic.Value
	var wg sync.WaitGroup
	done := make(chan struct{})
	for w := 0; w < sp.Goroutines; w++ {
		wg.Add(1)
		go func(w int) {
			defer wg.Done()
			r := rand.New(rand.NewPCG(sp.Seed, uint64(w)))
			for i := 0; i < sp.Iters; i++ {
				nw := r.IntN(100) < sp.NoWaitPct
				id := g.StartTreasureGuard(!nw)
				if id == 0 {
					if !nw {
						first.CompareAndSwap(nil, fmt.Sprintf("a waiting acquire returned id 0 (goroutine %d, iteration %d)", w, i))
						overlaps.Add(1)
					}
					refused.Add(1)
					continue
				}
				if n := inside.Add(1); n != 1 {
					overlaps.Add(1)
					first.CompareAndSwap(nil, fmt.Sprintf("%d callers hold the guard at once (goroutine %d, iteration %d, %s acquire, id %d)", n, w, i, map[bool]string{true: "non-waiting", false: "waiting"}[nw], int64(id)))
				}
				entries.Add(1)
				if r.IntN(4) == 0 {
					runtime.Gosched()
				}
				inside.Add(-1)
				g.ReleaseTreasureGuard(id)
			}
		}(w)
	}
	go func() { wg.Wait(); close(done) }()
	key := rig.Dump(sp)
	select {
	case <-done:
	case <-time.After(5 * time.Minute): // generous watchdog: its firing is inconclusive, never a verdict
		c.Inconclusive(fmt.Sprintf("contention phase %s: goroutines still running after 5 minutes (%d entries so far)", key, entries.Load()))
		c.Case(key, false)
		return
	}
	c.Count("stress_entries", entries.Load())
	c.Count("stress_nowait_refused", refused.Load())
	c.Count("stress_overlaps", overlaps.Load())
	c.Case(key, entries.Load() > 0 && refused.Load() > 0)
	if overlaps.Load() > 0 {
		what, _ := first.Load().(string)
		c.Violate("stress:"+sp.Target+":two-holders-at-once", fmt.Sprintf("%d overlapping holds in %d entries under %d goroutines; first: %s", overlaps.Load(), entries.Load(), sp.Goroutines, what),
			map[string]any{"stress": sp})
	}
}

func stressSpecs(c *rig.Check) []stressSpec {
	var out []stressSpec
	iters := c.N(20000, 200000)
	for i, tgt := range []string{"guard", "treasure"} {
		for j, pct := range []int{100, 70, 30} {
			out = append(out, stressSpec{Target: tgt, Goroutines: 16, Iters: iters, NoWaitPct: pct, Seed: c.Rand(900 + i*10 + j).Uint64()})
		}
	}
	return out
}
