// C15 — record guard gives exclusive, arrival-ordered access.
//
// Monitor: generated scripts drive the real guard.Guard (raw, and through a real
// treasure.Treasure) inside a synctest bubble. After every step the bubble is run to
// quiescence, so "who has entered" is an exact observation, and it is compared with a FIFO
// reference model: at most one actor is inside, waiters enter in arrival order, a release of
// an id that is not the current holder's (stale duplicate, never issued) changes nothing, a
// non-waiting acquire gets 0 iff somebody holds or waits.
package c15

import (
	"fmt"
	"sync/atomic"
	"testing"
	"testing/synctest"

	"github.com/hydraide/hydraide/app/core/hydra/swamp/treasure"
	"github.com/hydraide/hydraide/app/core/hydra/swamp/treasure/guard"

	"verifharness/rig"
)

type step struct {
	Op    string `json:"op"` // acqW acqNW relOwn relStale relBogus
	Actor int    `json:"actor,omitempty"`
	Pick  int    `json:"pick,omitempty"` // index into stale id list / bogus table
}

type script struct {
	Target string `json:"target"` // guard | treasure
	Steps  []step `json:"steps"`
}

var bogus = []int64{0, -1, -7, 1 << 40, 1<<62 + 5}

type guarded interface {
	StartTreasureGuard(waiting bool, bodyAuthID ...string) guard.ID
	ReleaseTreasureGuard(guard.ID)
}

type actorState struct {
	entered atomic.Bool
	id      atomic.Int64
	nw      bool
}

// runScript executes one script in a bubble and returns "" or a violation description + signature.
func runScript(t *testing.T, sc script) (sig, what string, interesting bool, trace []string) {
	synctest.Test(t, func(t *testing.T) {
		var g guarded
		if sc.Target == "treasure" {
			g = treasure.New(func(tr treasure.Treasure, id guard.ID) treasure.TreasureStatus { return treasure.StatusSame })
		} else {
			g = guard.New()
		}
		actors := map[int]*actorState{}
		var queue []int // model: arrival-ordered actors, head = holder
		var stale []int64
		sawWaiter, sawStaleWithHolder := false, false
		fail := func(s, w string) {
			if sig == "" {
				sig, what = s, w
			}
		}
		check := func(after string) {
			synctest.Wait()
			// observed holder set
			var inside []int
			for a, st := range actors {
				if st.entered.Load() {
					inside = append(inside, a)
				}
			}
			if len(inside) > 1 {
				fail("exclusivity:"+sc.Target+":after-"+after, fmt.Sprintf("actors %v are inside the guard at the same time after %s", inside, after))
				return
			}
			want := -1
			if len(queue) > 0 {
				want = queue[0]
			}
			got := -1
			if len(inside) == 1 {
				got = inside[0]
			}
			if got != want {
				if got == -1 {
					fail("progress:"+sc.Target+":after-"+after, fmt.Sprintf("model holder %d has not entered at quiescence after %s (queue %v)", want, after, queue))
				} else if want == -1 {
					fail("phantom-holder:"+sc.Target+":after-"+after, fmt.Sprintf("actor %d inside but model queue empty after %s", got, after))
				} else {
					fail("order:"+sc.Target+":after-"+after, fmt.Sprintf("actor %d entered but arrival order says %d (queue %v) after %s", got, want, queue, after))
				}
			}
		}
		for i, s := range sc.Steps {
			if sig != "" {
				break
			}
			trace = append(trace, fmt.Sprintf("%d:%s/%d/%d q=%v", i, s.Op, s.Actor, s.Pick, queue))
			switch s.Op {
			case "acqW":
				st := &actorState{}
				actors[s.Actor] = st
				if len(queue) > 0 {
					sawWaiter = true
				}
				queue = append(queue, s.Actor)
				go func() {
					id := g.StartTreasureGuard(true)
					st.id.Store(int64(id))
					st.entered.Store(true)
				}()
			case "acqNW":
				id := g.StartTreasureGuard(false)
				busy := len(queue) > 0
				if busy && id != 0 {
					fail("nonwaiting-granted-while-busy:"+sc.Target, fmt.Sprintf("non-waiting acquire returned id %d while queue %v", id, queue))
				}
				if !busy && id == 0 {
					fail("nonwaiting-refused-while-free:"+sc.Target, "non-waiting acquire returned 0 on a free guard")
				}
				if id != 0 {
					st := &actorState{nw: true}
					st.id.Store(int64(id))
					st.entered.Store(true)
					actors[s.Actor] = st
					queue = append(queue, s.Actor)
				}
			case "relOwn":
				st := actors[s.Actor]
				id := st.id.Load()
				st.entered.Store(false)
				delete(actors, s.Actor)
				queue = queue[1:]
				g.ReleaseTreasureGuard(guard.ID(id))
				stale = append(stale, id)
			case "relStale":
				id := stale[s.Pick%len(stale)]
				if len(queue) > 0 {
					sawStaleWithHolder = true
				}
				g.ReleaseTreasureGuard(guard.ID(id))
			case "relBogus":
				g.ReleaseTreasureGuard(guard.ID(bogus[s.Pick%len(bogus)]))
			}
			check(s.Op)
		}
		// drain: release everybody in model order so the bubble ends without blocked goroutines
		for sig == "" && len(queue) > 0 {
			a := queue[0]
			st := actors[a]
			if !st.entered.Load() {
				fail("progress:"+sc.Target+":drain", fmt.Sprintf("actor %d never entered during drain", a))
				break
			}
			queue = queue[1:]
			st.entered.Store(false)
			delete(actors, a)
			g.ReleaseTreasureGuard(guard.ID(st.id.Load()))
			check("drain")
		}
		if sig != "" {
			// unblock whatever is still parked so that the bubble can end: release the ids of
			// actors that are inside, one at a time, settling in between
			for k := 0; k < 400; k++ {
				synctest.Wait()
				progressed := false
				for a, st := range actors {
					if st.entered.Load() {
						st.entered.Store(false)
						delete(actors, a)
						g.ReleaseTreasureGuard(guard.ID(st.id.Load()))
						progressed = true
						break
					}
				}
				if !progressed {
					if len(actors) == 0 {
						break
					}
					// nobody inside but actors parked: free the head by brute force, one id at a time
					for id := int64(1); id < 80; id++ {
						g.ReleaseTreasureGuard(guard.ID(id))
						synctest.Wait()
					}
				}
			}
		}
		interesting = sawWaiter || sawStaleWithHolder
	})
	return
}

func gen(c *rig.Check, idx int) script {
	r := c.Rand(idx)
	sc := script{Target: "guard"}
	if r.IntN(4) == 0 {
		sc.Target = "treasure"
	}
	n := 4 + r.IntN(28)
	nextActor := 1
	var queue []int
	staleN := 0
	for len(sc.Steps) < n {
		x := r.IntN(100)
		switch {
		case x < 34:
			sc.Steps = append(sc.Steps, step{Op: "acqW", Actor: nextActor})
			queue = append(queue, nextActor)
			nextActor++
		case x < 42:
			sc.Steps = append(sc.Steps, step{Op: "acqNW", Actor: nextActor})
			if len(queue) == 0 {
				queue = append(queue, nextActor)
			}
			nextActor++
		case x < 72:
			if len(queue) == 0 {
				continue
			}
			sc.Steps = append(sc.Steps, step{Op: "relOwn", Actor: queue[0]})
			queue = queue[1:]
			staleN++
		case x < 92:
			if staleN == 0 {
				continue
			}
			sc.Steps = append(sc.Steps, step{Op: "relStale", Pick: r.IntN(1 << 20)})
		default:
			sc.Steps = append(sc.Steps, step{Op: "relBogus", Pick: r.IntN(len(bogus))})
		}
	}
	return sc
}

// fixed cases: the sequences the property text names explicitly.
func fixedCases() []script {
	var out []script
	for _, tg := range []string{"guard", "treasure"} {
		// duplicate release by the previous holder while a new holder holds and a waiter waits
		out = append(out, script{Target: tg, Steps: []step{{Op: "acqW", Actor: 1}, {Op: "relOwn", Actor: 1}, {Op: "acqW", Actor: 2}, {Op: "acqW", Actor: 3}, {Op: "relStale", Pick: 0}, {Op: "relOwn", Actor: 2}, {Op: "relOwn", Actor: 3}}})
		// three waiters, FIFO
		out = append(out, script{Target: tg, Steps: []step{{Op: "acqW", Actor: 1}, {Op: "acqW", Actor: 2}, {Op: "acqW", Actor: 3}, {Op: "acqW", Actor: 4}, {Op: "relOwn", Actor: 1}, {Op: "relOwn", Actor: 2}, {Op: "relBogus", Pick: 0}, {Op: "relOwn", Actor: 3}, {Op: "relOwn", Actor: 4}}})
		// non-waiting acquire against holder and waiter
		out = append(out, script{Target: tg, Steps: []step{{Op: "acqNW", Actor: 1}, {Op: "acqNW", Actor: 2}, {Op: "acqW", Actor: 3}, {Op: "acqNW", Actor: 4}, {Op: "relOwn", Actor: 1}, {Op: "acqNW", Actor: 5}, {Op: "relOwn", Actor: 3}, {Op: "acqNW", Actor: 6}, {Op: "relStale", Pick: 1}, {Op: "relOwn", Actor: 6}}})
	}
	return out
}

func TestCheck(t *testing.T) {
	c := rig.NewCheck(t, "C15", "exploration")
	defer c.Finish()
	c.Rule = "scripts of acquire(wait/no-wait)/release(own/stale-duplicate/never-issued) on the real guard (raw and inside a treasure), run to quiescence after each step in a synctest bubble and compared with a FIFO model; non-trivial = the script had a waiter queued behind a holder or a stale release while somebody held; distinct = distinct script JSON"
	c.Assumptions = []string{"arrival order is pinned by running the bubble to quiescence between steps; truly simultaneous arrivals occur only in the free-running contention phase, which judges exclusivity (at most one non-zero id outstanding), not order", "ids guessed by a party that never held them (capability forgery) are not generated except 0, negatives and far-future values"}
	n := c.N(3000, 60000)
	cases := fixedCases()
	for i := 0; i < n; i++ {
		cases = append(cases, gen(c, i))
	}
	if p := c.ReplayPath(); p != "" {
		cases = nil
		var w struct {
			Witness struct {
				Script script
				Stress *stressSpec `json:"stress"`
			} `json:"witness"`
		}
		rig.ReadJSON(p, &w)
		if w.Witness.Stress != nil {
			runStress(c, *w.Witness.Stress)
			return
		}
		cases = append(cases, w.Witness.Script)
	} else {
		// simultaneous arrivals, which the scripts cannot produce (see stress_test.go)
		for _, sp := range stressSpecs(c) {
			runStress(c, sp)
		}
	}
	for _, sc := range cases {
		sig, what, interesting, trace := runScript(t, sc)
		c.Case(rig.Dump(sc), interesting)
		c.Count("steps", int64(len(sc.Steps)))
		c.Sample(sc)
		if sig != "" {
			c.Violate(sig, what, map[string]any{"script": sc, "trace": trace})
		}
	}
}
